#!/usr/bin/env python3
"""Runs seeded changes against checks in parallel, each in its own scratch copy (never in /repo or /verif):
  /tmp/sp-<sid>-<check>/repo   git worktree of /repo HEAD with the seed's patch applied
  /tmp/sp-<sid>-<check>/verif  rsync copy of /verif's working tree (without out/, .git) whose harness replaces the module with that worktree
Both are removed when the job ends. Results go to seeded/<sid>/meta.json (detection) unless --no-record.

usage: seedpar.py [--only C06-1,C07-2] [--checks C13,C14 (instead of the seed's own property)] [--cross]
                  [--tier quick] [--seeds 1,2] [-j 6] [--no-record] [--dir seeded|seeded2]"""
import concurrent.futures as cf, glob, json, os, re, shutil, subprocess, sys

args = sys.argv[1:]
def opt(name, default=None):
    if name in args:
        return args[args.index(name) + 1]
    return default
only = set(opt('--only').split(',')) if opt('--only') else None
checks_override = opt('--checks').split(',') if opt('--checks') else None
tier = opt('--tier', 'quick')
seeds = [int(x) for x in opt('--seeds', '1').split(',')]
jobs = int(opt('-j', '6'))
record = '--no-record' not in args
cross = '--cross' in args
sdir = opt('--dir', 'seeded')
CROSS = {'C14-1': ['C13'], 'C05-2': ['C13', 'C14'], 'C05-1': ['C14'], 'C15-2': ['C02'], 'C10-2': ['C12']}
ENV = dict(os.environ, GOFLAGS='-mod=mod', GOPROXY='off')
ENV.pop('GOTOOLCHAIN', None); ENV.pop('GOSUMDB', None)

def sh(cmd, **kw):
    return subprocess.run(cmd, shell=True, stdout=subprocess.PIPE, stderr=subprocess.STDOUT, text=True, env=ENV, **kw)

def job(sid, check, seed):
    d = '/verif/%s/%s' % (sdir, sid)
    patch = d + '/patch.rebased.diff' if os.path.exists(d + '/patch.rebased.diff') else d + '/patch.diff'
    A = '/tmp/sp-%s-%s-%d' % (sid, check, seed)
    sh('git -C /repo worktree remove --force %s/repo; rm -rf %s' % (A, A))
    os.makedirs(A)
    try:
        r = sh('git -C /repo worktree add -q --detach %s/repo HEAD && git -C %s/repo apply %s' % (A, A, patch))
        if r.returncode != 0:
            return sid, check, seed, 'NOAPPLY', r.stdout[-300:]
        sh('rsync -a --exclude out --exclude .git --exclude seeded --exclude seeded2 /verif/ %s/verif/' % A)
        sh("sed -i 's#=> /repo#=> %s/repo#' %s/verif/harness/go.mod" % (A, A))
        r = sh('./check %s --tier %s --seed %d' % (check, tier, seed), cwd=A + '/verif')
        os.makedirs('/verif/out/seedpar', exist_ok=True)
        with open('/verif/out/seedpar/%s.%s.%d.log' % (sid, check, seed), 'w') as f:
            f.write(r.stdout)
        if r.returncode == 1:
            m = re.search(r'^violation: (.*)$', r.stdout, re.M)
            rep = re.search(r'^VIOLATION property=\S+ replay=(\S+)', r.stdout, re.M)
            # keep the replay file of the first catch for later study
            if rep and os.path.exists(rep.group(1)):
                shutil.copy(rep.group(1), '/verif/out/seedpar/%s.%s.%d.replay' % (sid, check, seed))
            return sid, check, seed, 'CAUGHT', (m.group(1)[:300] if m else '')
        if r.returncode == 0:
            return sid, check, seed, 'MISSED', ''
        return sid, check, seed, 'BROKEN(%d)' % r.returncode, r.stdout[-400:]
    finally:
        sh('git -C /repo worktree remove --force %s/repo; rm -rf %s; git -C /repo worktree prune' % (A, A))

todo = []
for d in sorted(glob.glob('/verif/%s/C*-*' % sdir)):
    sid = os.path.basename(d)
    if only and sid not in only:
        continue
    prop = sid.split('-')[0]
    cl = checks_override or ([prop] + (CROSS.get(sid, []) if cross else []))
    for c in cl:
        for s in seeds:
            todo.append((sid, c, s))
res = {}
with cf.ThreadPoolExecutor(jobs) as ex:
    for sid, check, seed, outcome, msg in ex.map(lambda t: job(*t), todo):
        print(sid, check, seed, outcome, msg.replace('\n', ' ')[:200], flush=True)
        res.setdefault(sid, {}).setdefault(check, []).append((seed, outcome, msg))
if record:
    for sid, per in res.items():
        mp = '/verif/%s/%s/meta.json' % (sdir, sid)
        meta = json.load(open(mp))
        det = meta.get('detection') or {}
        for check, lst in per.items():
            lst.sort()
            first = next((m for _, o, m in lst if o == 'CAUGHT'), '')
            det[check] = {'tier': tier, 'seeds': [s for s, _, _ in lst], 'outcomes': [o for _, o, _ in lst], 'first_violation': first}
        meta['detection'] = det
        json.dump(meta, open(mp, 'w'), indent=1)
