2
m 2 1
n 2 1
[1 : "a"]
fn:pair(1, 2)
/a/b
/c%41
