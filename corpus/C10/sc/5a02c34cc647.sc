4
baz 0 1
foo 1 2
bar 3 5
qaz 3 2
"\n/bar"
/zzz
/g
/t
/r
[/abc]
[/abc, /def]
3
2
1
4
5
/h
"\u{01f624}"
/z
/def
/def
[/def : 345, /abc : 123]
{/def : 678, /abc : 456}
10
20
b"\x80\x81"
/zzz
