2
foo.bar 1 3
:x 2 1
"a"
"b"
"c"
1.5
fn:pair(/a, [1, 2])
