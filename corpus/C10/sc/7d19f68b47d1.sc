2
t 1 2
u 2 1
"q\"uote"
"multi\nline"
-1
9223372036854775807
