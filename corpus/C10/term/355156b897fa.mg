"hello
world	tab"