num(1).
				num(2).
				fib(I, O) :- fib(fn:minus(I, 1), M), fib(fn:minus(I, 2), N), num(I) |> let O = fn:plus(M, N).