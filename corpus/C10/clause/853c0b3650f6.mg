
missing_required(RequiredList, EnabledList, Witness) :- 
		:list:member(Witness, RequiredList),
		!:list:member(Witness, EnabledList).