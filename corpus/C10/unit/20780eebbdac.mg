
	Decl testExt(X, Y)
	  descr [
		  external(),
		  mode('+', '-'),
		]
		bound [ /number, /string ]
	.

	foo(Z) :- testExt(1, Y), Z = Y.
	bar() :- testExt(2, Filter), :string:contains(Filter, 'Filter').
	notexist() :- testExt(1, _), testExt(2, _).
	withfilter() :- testExt(3, 'MatchMe').
	