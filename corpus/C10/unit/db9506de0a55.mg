
				Decl p(X) temporal bound [/any].
				Decl q(S) bound [/string].
				p(1) @[2020-01-01, 2021-01-01] :- p(1) @[S, _], q(S).
			