
                Decl testExt(X, Y)
                  descr [
                      external()
                    ]
                    bound [ /number, /string ]
                .