
				Decl foo(X) temporal bound [/name].
				Decl bar(X) temporal bound [/name].
				foo(X) @[_, _] :- bar(X) @[_,_].
				bar(X) @[_, _] :- foo(X) @[_,_].
				bar(/alice) @[_, _].
			