full(DescPart, Part, Sum) :-
		  transitive(DescPart, Part, Quantity, Path)
      |> do fn:group_by(DescPart, Part), let Sum = fn:sum(Quantity).