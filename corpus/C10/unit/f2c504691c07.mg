
	attrs(Node, Attrs) :- attr(Node, Name, Value, Description),
		Attr = fn:tuple(Name, Value, Description)
		|> do fn:group_by(Node), let Attrs=fn:collect(Attr).
	