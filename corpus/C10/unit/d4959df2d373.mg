
                Decl testExt(X, Y)
                  descr [
                      external(),
                      mode('+', '-'),
                    ]
                    bound [ /number, /string ]
                .