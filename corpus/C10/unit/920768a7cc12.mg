
				age(/alice, 30).
				age(/bob, 25).
				adult(Name) :- age(Name, Age), Age >= 18.
			