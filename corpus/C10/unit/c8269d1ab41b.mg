max_inner(Max, fn:pair(1,2)) :-
				      node(Y), edge(X, Y), edge(Y, _), label(Y, N)
              |> do fn:group_by(), let Max = fn:max(N).