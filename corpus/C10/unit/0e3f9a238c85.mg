foo(X). foo(X). foo(X) :- bar(X).
foo(X) :- bar(X).
