transitive(DescPart, Part, Quantity, Path) :-
		  component(SubPart, Part, DirectQuantity),
		  transitive(DescPart, SubPart, DescQuantity, SubPath)
      |> let Quantity = fn:mult(DirectQuantity, DescQuantity),
	       let Path = fn:list:cons(SubPart, SubPath).