i0(X, 2, Y) :- i1(Z, X, Y).
Decl i1(A, B, C) descr [synthetic()] bound [/a, /g, /r] bound [/g, /s, /b].
i1(X, Y, X) :- i2(Y, X).
i2(Z, Y) :- i0(Y, Z, Y).
