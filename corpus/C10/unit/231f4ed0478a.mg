Decl foo(X,Y)
			        descr[doc("a foo predicate"), fundep([X], [Y])]
						  bound[/string, /string].