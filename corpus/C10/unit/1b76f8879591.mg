
				Decl p(X) temporal bound [/any].
				Decl q(X) temporal bound [/any].
				p(X) @[_,_] :- q(X).
			