
				node(/a).
				node(/b).
				edge(/a, /b).
				path(X, Y) :- edge(X, Y).
				path(X, Z) :- edge(X, Y), path(Y, Z).
			