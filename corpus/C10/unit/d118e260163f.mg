foo(X). foo(X). foo(X) :- # Some comment about this
bar(X).
# Some comment about stuff
foo(X) :- bar(X).
