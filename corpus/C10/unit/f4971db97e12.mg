
		# Extract interval components
		Decl status(X) temporal.
	