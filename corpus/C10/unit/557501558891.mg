
				all(/a).
				all(/b).
				excluded(/a).
				included(X) :- all(X), !excluded(X).
			