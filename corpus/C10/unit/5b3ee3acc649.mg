Decl status(X, Y) temporal
				descr [doc("Employee status over time")]
				bound [/name, /string].