
				foo(X) :- bar(X).
				bar(1).
			