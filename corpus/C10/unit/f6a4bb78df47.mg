
				Decl p(X) temporal bound [/any].
				Decl q(S) bound [/string].
				p(1) @[S, _] :- q(S).
			