bar([0,1,2]).
			  baz(Y) :- bar(X), |> let Y = fn:max(X).