#!/usr/bin/env python3
"""Prints the prompt given to an independent seeding sub-agent for one property (round >= 2).
The agent gets: the property text, its scratch worktree, the titles of earlier seeded changes for that property
(only so that it does not repeat them) and the delivery format - nothing about the checks in /verif.
usage: seed_prompt.py C07 <round-tag e.g. seed2> <first-number e.g. 3>"""
import glob, json, sys
pid, tag, first = sys.argv[1], sys.argv[2], int(sys.argv[3])
prop = next(json.loads(l) for l in open('/verif/properties.jsonl') if json.loads(l)['id'] == pid)
earlier = []
for mp in sorted(glob.glob('/verif/seeded*/%s-*/meta.json' % pid)):
    m = json.load(open(mp))
    earlier.append('- %s (%s)' % (m.get('title') or m.get('what_changed', '')[:200], ', '.join(m.get('files') or [])))
A = '/tmp/%s-%s' % (tag, pid)
n1, n2 = first, first + 1
print(f"""You are helping to evaluate a verification effort for the Go library google/mangle (a Datalog-extension language:
ANTLR parser, static analysis / type-bounds checking, stratification, naive and semi-naive bottom-up engines, fact
stores, temporal extension, provenance, interpreter). Go module path: codeberg.org/TauCeti/mangle-go.

Your scratch git worktree of the repository is {A}/repo (already created, at the current HEAD). Work ONLY there and
under {A}/. Do not read or write anything under /verif or /repo. Shell environment for every go command:
`export GOFLAGS=-mod=mod GOPROXY=off` (no network; leave GOTOOLCHAIN and GOSUMDB unset; never run `go get`).

## The property

{pid} - {prop.get('title','')}

{prop.get('statement') or prop.get('text')}

(Other fields of the property record, for orientation: {json.dumps({k: v for k, v in prop.items() if k not in ('id','title','statement','text')})[:3500]})

## Your task

Produce TWO independent changes to the library ("seeded defects"), numbered {pid}-{n1} and {pid}-{n2}, each of which
 1. BREAKS the property above on the changed tree (a real semantic violation of what the statement says - not merely
    a different error message, not a performance change),
 2. still COMPILES (`go build ./...`) and still PASSES THE WHOLE EXISTING TEST SUITE unedited
    (`cd {A}/repo && go test -vet=off -count=1 ./...` - every package `ok`; takes about a minute), and
 3. needs something SPECIFIC to manifest: a particular interleaving, a crash or fault at a particular point, a multi-step
    sequence of operations, an unusual input shape or boundary value, or two cooperating sites that each look fine
    alone. It must NOT be exposed at once by ordinary use (e.g. not "every query returns nothing"). It should look like
    a plausible maintenance edit - an "optimisation", a refactoring, a "simplification", a mishandled corner case - of the
    kind a reviewer could wave through. Keep each change small (typically 3-40 changed lines); do not touch test files.
 4. The two changes must differ from each other in mechanism AND location (different function, preferably different
    file or package), and both must differ from these changes, which were already made by others for this property:
{chr(10).join(earlier) if earlier else '(none)'}
    Prefer code paths those did not touch. Look over the whole anchored code of the property before choosing; wrappers,
    option handling, rarely-taken branches, boundary conditions, caching and the interplay of two packages are good places.

For each change also write a DEMONSTRATION: a small Go test (or program) in its own module directory that uses only the
library's public API, FAILS on the changed tree and PASSES on the unchanged tree. Module set-up for a demo directory D:
```
cd D && cat > go.mod <<EOF
module demo
go 1.25.0
require codeberg.org/TauCeti/mangle-go v0.0.0
replace codeberg.org/TauCeti/mangle-go => {A}/repo
EOF
cp {A}/repo/go.sum . && GOFLAGS=-mod=mod GOPROXY=off go test -count=1 ./...
```
(the demo may need `go mod tidy`-like requires; with GOFLAGS=-mod=mod missing requirements are added from the module
cache automatically). The demonstration must state the violated expectation in terms of the property, not of internals.

## Procedure for each change
 a. edit files in {A}/repo; `go build ./...`; run the whole suite; run the demo (must fail);
 b. `cd {A}/repo && git diff > {A}/out/{pid}-<N>/patch.diff`;
 c. `git checkout -- .` (back to the unchanged tree); run the demo again (must pass);
 d. write {A}/out/{pid}-<N>/meta.json and put the demo directory at {A}/out/{pid}-<N>/demo/ (go.mod, go.sum, *_test.go).
Leave {A}/repo clean (no uncommitted change) at the end. Do not commit anything.

meta.json (valid JSON) fields: "property": "{pid}", "title": one sentence, "what_changed": what you edited and the
cover story, "why_it_breaks_the_property": ..., "needs_to_manifest": the specific input/sequence/schedule needed,
"files": [...], "suite_passes": true.

## Final report (your last message)
For each change: title, files, 2-3 sentences on the trigger, and the literal last lines of (i) the suite run with the
change, (ii) the demo with the change, (iii) the demo without it. If you could produce only one change that satisfies
all conditions, deliver that one and say so; never deliver a change whose suite run you did not see pass.
""")
