#!/usr/bin/env python3
"""commitfix.py <file relative to /repo> <msgfile> : reads pairs old/new from stdin JSON [[old,new],...], applies, builds, commits."""
import sys, json, subprocess
path, msgfile = sys.argv[1], sys.argv[2]
pairs = json.load(sys.stdin)
s = open('/repo/' + path).read()
for old, new in pairs:
    assert s.count(old) == 1, ("pattern count %d" % s.count(old), old)
    s = s.replace(old, new)
open('/repo/' + path, 'w').write(s)
subprocess.check_call(['gofmt', '-l', path], cwd='/repo')
subprocess.check_call(['go', 'build', './...'], cwd='/repo')
subprocess.check_call(['git', 'commit', '-qa', '-F', msgfile], cwd='/repo')
print(subprocess.check_output(['git', 'log', '--oneline', '-1'], cwd='/repo').decode().strip())
