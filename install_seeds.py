#!/usr/bin/env python3
"""Copies the seeded changes delivered by the independent sub-agents (under /tmp/seed-<P>/out/<P>-<N>) into
/verif/seeded/<P>-<N>/ (patch.diff, demo/, meta.json) once confirm_seed.sh has confirmed them."""
import json, os, re, shutil, glob
conf = {}
for line in open('/verif/out/seed_confirm.log'):
    m = re.match(r'(C\d+-\d+) (.*)', line.strip())
    if m:
        conf[m.group(1)] = m.group(2)
for d in sorted(glob.glob('/tmp/seed-C*/out/C*-*')):
    sid = os.path.basename(d)
    c = conf.get(sid, '')
    ok = 'build=ok' in c and 'suite_not_ok=0' in c and 'demo_with_change_rc=1' in c and 'demo_without_rc=0' in c
    if not ok:
        print('NOT CONFIRMED', sid, c)
        continue
    dst = '/verif/seeded/' + sid
    os.makedirs(dst, exist_ok=True)
    shutil.copy(d + '/patch.diff', dst + '/patch.diff')
    if os.path.isdir(dst + '/demo'):
        shutil.rmtree(dst + '/demo')
    shutil.copytree(d + '/demo', dst + '/demo', ignore=shutil.ignore_patterns('*.out', '*.log'))
    try:
        meta = json.load(open(d + '/meta.json'))
    except Exception as e:
        meta = {'note': 'meta.json of the seeding agent was not valid JSON: %s' % e}
    prev = {}
    if os.path.exists(dst + '/meta.json'):
        try:
            prev = json.load(open(dst + '/meta.json'))
        except Exception:
            prev = {}
    meta['seed_id'] = sid
    meta['confirmed'] = {'what_was_run': 'confirm_seed.sh: scratch worktree of /repo HEAD, git apply patch.diff, go build ./..., whole suite go test -vet=off -count=1 ./... (all ok), demo fails with the change (rc=1) and passes on the clean tree (rc=0)', 'result': c}
    if 'detection' in prev:
        meta['detection'] = prev['detection']
    json.dump(meta, open(dst + '/meta.json', 'w'), indent=1)
    print('installed', sid)
