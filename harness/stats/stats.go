// Package stats collects per-run counters, distinct-case hashes, samples and failure cases
// of the property checks, and writes them where the driver (/verif/check) picks them up.
//
// Environment (set by the driver):
//
//	VERIF_STATS  path of the JSON stats file to (re)write at the end of every test
//	VERIF_OUT    directory that receives failure (replay) files
//	VERIF_KNOWN  path of known_findings.json (enables the exclusions of "known" entries)
//	VERIF_REPLAY path of a replay file (for the TestReplay* tests)
package stats

import (
	"encoding/binary"
	"encoding/json"
	"fmt"
	"hash/fnv"
	"os"
	"path/filepath"
	"sort"
	"sync"
	"testing"
)

// Failer is implemented by *rapid.T and *testing.T.
type Failer interface {
	Fatalf(format string, args ...any)
	Logf(format string, args ...any)
}

// Failure describes a violation found by a test.
type Failure struct {
	Test    string `json:"test"`
	Message string `json:"message"`
	Replay  string `json:"replay"`
	// Explicit is true when the oracle reported the violation with Failf; false means the test failed
	// in some other way (harness panic, rapid error) – the driver treats that as infrastructure trouble.
	Explicit bool `json:"explicit"`
}

type fileFormat struct {
	Property      string           `json:"property"`
	Evaluations   int64            `json:"evaluations"`
	Nontrivial    int64            `json:"nontrivial_evaluations"`
	DistinctNT    int              `json:"distinct_nontrivial"`
	HashFile      string           `json:"hash_file"`
	Labels        map[string]int64 `json:"labels"`
	Excluded      map[string]int64 `json:"excluded"`
	Samples       []any            `json:"samples"`
	Failures      []Failure        `json:"failures"`
	Tests         map[string]int64 `json:"tests"`
	ActiveExcl    []string         `json:"active_exclusions"`
	Inconclusive  int64            `json:"inconclusive"`
	ExhaustiveRun bool             `json:"exhaustive"`
}

type acc struct {
	mu       sync.Mutex
	prop     string
	evals    int64
	nt       int64
	hashes   map[uint64]struct{}
	labels   map[string]int64
	excluded map[string]int64
	samples  []any
	sampleN  map[string]int
	failures []Failure
	tests    map[string]int64
	inconcl  int64
	exh      bool
}

var global = &acc{
	hashes:   map[uint64]struct{}{},
	labels:   map[string]int64{},
	excluded: map[string]int64{},
	sampleN:  map[string]int{},
	tests:    map[string]int64{},
}

// Run is the handle a test function works with.
type Run struct {
	prop, test string
	mu         sync.Mutex
	current    any
	lastMsg    string
	replayMode bool
	// first explicit failure of this run: used when the final (shrunk) re-run does not fail again,
	// i.e. the violation depends on something outside the case (map iteration order, schedule).
	firstCase any
	firstMsg  string
}

// Begin starts the bookkeeping of one test function of property prop.
func Begin(prop, test string) *Run {
	global.mu.Lock()
	global.prop = prop
	global.mu.Unlock()
	return &Run{prop: prop, test: test}
}

// Hash returns a 64 bit hash of the canonical text of a case.
func Hash(parts ...string) uint64 {
	h := fnv.New64a()
	for _, p := range parts {
		h.Write([]byte(p))
		h.Write([]byte{0})
	}
	return h.Sum64()
}

// Current registers the case the property is about to judge. The last registered case at the
// time the test fails is the shrunk one (rapid re-runs the minimal case last).
func (r *Run) Current(c any) {
	r.mu.Lock()
	r.current = c
	r.lastMsg = ""
	r.mu.Unlock()
}

// Case counts one executed case. hash identifies the case; it enters the distinct set only if
// nontrivial holds.
func (r *Run) Case(nontrivial bool, hash uint64, labels ...string) {
	global.mu.Lock()
	defer global.mu.Unlock()
	global.evals++
	global.tests[r.test]++
	if nontrivial {
		global.nt++
		global.hashes[hash] = struct{}{}
	}
	for _, l := range labels {
		global.labels[l]++
	}
}

// Label adds n to a label counter without counting a case.
func (r *Run) Label(l string, n int64) {
	global.mu.Lock()
	global.labels[l] += n
	global.mu.Unlock()
}

// Excluded counts a case (or a feature of a case) removed or redirected by a known-finding exclusion.
func (r *Run) Excluded(name string) {
	global.mu.Lock()
	global.excluded[name]++
	global.mu.Unlock()
}

// Inconclusive counts a case on which no verdict was possible (reference cap, watchdog, ...).
func (r *Run) Inconclusive() {
	global.mu.Lock()
	global.inconcl++
	global.mu.Unlock()
}

// Exhaustive marks that this run enumerated a finite sub-space completely.
func (r *Run) Exhaustive() {
	global.mu.Lock()
	global.exh = true
	global.mu.Unlock()
}

// Sample keeps up to 4 samples per kind.
func (r *Run) Sample(kind string, v any) {
	global.mu.Lock()
	defer global.mu.Unlock()
	if global.sampleN[kind] >= 4 {
		return
	}
	global.sampleN[kind]++
	global.samples = append(global.samples, map[string]any{"kind": kind, "test": r.test, "case": v})
}

// WantSample tells whether Sample(kind, …) would still keep a value (to avoid building it).
func (r *Run) WantSample(kind string) bool {
	global.mu.Lock()
	defer global.mu.Unlock()
	return global.sampleN[kind] < 4
}

// Failf reports a violation on the current case and stops the case.
func (r *Run) Failf(f Failer, format string, args ...any) {
	msg := fmt.Sprintf(format, args...)
	r.mu.Lock()
	r.lastMsg = msg
	if r.firstMsg == "" {
		r.firstMsg, r.firstCase = msg, r.current
	}
	r.mu.Unlock()
	f.Fatalf("%s", msg)
}

// Finish must be deferred by the test function: it records a failure (with its replay file)
// and rewrites the stats file.
func (r *Run) Finish(t *testing.T) {
	if t.Failed() && !r.replayMode {
		r.mu.Lock()
		cur, msg := r.current, r.lastMsg
		if msg == "" && r.firstMsg != "" {
			cur, msg = r.firstCase, r.firstMsg+"\n(not reproduced by the final re-run: the violation depends on map iteration order or scheduling; the case saved is the first failing one, unshrunk)"
		}
		r.mu.Unlock()
		explicit := msg != ""
		if msg == "" {
			msg = "test failed without an explicit verdict (panic or rapid error); see log"
		}
		f := Failure{Test: r.test, Message: msg, Explicit: explicit}
		if dir := os.Getenv("VERIF_OUT"); dir != "" && cur != nil {
			os.MkdirAll(dir, 0o755)
			body, err := json.MarshalIndent(map[string]any{"property": r.prop, "test": r.test, "message": msg, "case": cur}, "", " ")
			if err == nil {
				name := filepath.Join(dir, fmt.Sprintf("%s-%s-%016x.json", r.prop, r.test, Hash(string(body))))
				if os.WriteFile(name, body, 0o644) == nil {
					f.Replay = name
				}
			}
		}
		global.mu.Lock()
		global.failures = append(global.failures, f)
		global.mu.Unlock()
	}
	Flush()
}

// Flush rewrites the stats file with the totals of this process.
func Flush() {
	path := os.Getenv("VERIF_STATS")
	if path == "" {
		return
	}
	global.mu.Lock()
	defer global.mu.Unlock()
	hs := make([]uint64, 0, len(global.hashes))
	for h := range global.hashes {
		hs = append(hs, h)
	}
	sort.Slice(hs, func(i, j int) bool { return hs[i] < hs[j] })
	buf := make([]byte, 8*len(hs))
	for i, h := range hs {
		binary.LittleEndian.PutUint64(buf[8*i:], h)
	}
	hashFile := path + ".hashes"
	os.WriteFile(hashFile, buf, 0o644)
	out := fileFormat{
		Property: global.prop, Evaluations: global.evals, Nontrivial: global.nt, DistinctNT: len(hs),
		HashFile: hashFile, Labels: global.labels, Excluded: global.excluded, Samples: global.samples,
		Failures: global.failures, Tests: global.tests, ActiveExcl: ActiveExclusions(),
		Inconclusive: global.inconcl, ExhaustiveRun: global.exh,
	}
	body, _ := json.MarshalIndent(out, "", " ")
	os.WriteFile(path, body, 0o644)
}

// ---------------------------------------------------------------------------------------------
// Known findings and exclusions.

type knownEntry struct {
	ID        string   `json:"id"`
	Property  []string `json:"property"`
	Status    string   `json:"status"`
	Exclusion string   `json:"exclusion"`
}

var (
	exclOnce sync.Once
	excl     map[string]bool
)

func loadExclusions() {
	excl = map[string]bool{}
	path := os.Getenv("VERIF_KNOWN")
	if path == "" {
		path = "/verif/known_findings.json"
	}
	body, err := os.ReadFile(path)
	if err != nil {
		return
	}
	var f struct {
		Findings []knownEntry `json:"findings"`
	}
	if json.Unmarshal(body, &f) != nil {
		return
	}
	for _, e := range f.Findings {
		if e.Status == "known" && e.Exclusion != "" {
			excl[e.Exclusion] = true
		}
	}
	// VERIF_NOEXCL=name1,name2 (or "all") switches exclusions off: used to re-discover a known finding.
	if off := os.Getenv("VERIF_NOEXCL"); off != "" {
		if off == "all" {
			excl = map[string]bool{}
		} else {
			start := 0
			for i := 0; i <= len(off); i++ {
				if i == len(off) || off[i] == ',' {
					delete(excl, off[start:i])
					start = i + 1
				}
			}
		}
	}
}

// Exclusion tells whether the named known-finding exclusion is active.
func Exclusion(name string) bool {
	exclOnce.Do(loadExclusions)
	return excl[name]
}

// ActiveExclusions lists the active exclusions.
func ActiveExclusions() []string {
	exclOnce.Do(loadExclusions)
	var res []string
	for k := range excl {
		res = append(res, k)
	}
	sort.Strings(res)
	return res
}

// ---------------------------------------------------------------------------------------------
// Replay support.

// LoadReplay decodes the "case" member of the replay file named by VERIF_REPLAY into v.
// It returns false if no replay was requested.
func LoadReplay(t *testing.T, v any) bool {
	path := os.Getenv("VERIF_REPLAY")
	if path == "" {
		t.Skip("VERIF_REPLAY not set")
		return false
	}
	body, err := os.ReadFile(path)
	if err != nil {
		t.Fatalf("replay file: %v", err)
	}
	var env struct {
		Case json.RawMessage `json:"case"`
	}
	if err := json.Unmarshal(body, &env); err != nil {
		t.Fatalf("replay file %s: %v", path, err)
	}
	if err := json.Unmarshal(env.Case, v); err != nil {
		t.Fatalf("replay file %s: case: %v", path, err)
	}
	return true
}

// ReplayTest returns the "test" member of the replay file (which sub-test produced it).
func ReplayTest() string {
	body, err := os.ReadFile(os.Getenv("VERIF_REPLAY"))
	if err != nil {
		return ""
	}
	var env struct {
		Test string `json:"test"`
	}
	json.Unmarshal(body, &env)
	return env.Test
}

// ---------------------------------------------------------------------------------------------
// Post-shrink minimisation support.

type caught struct{}

type catchFailer struct{ msg string }

func (c *catchFailer) Fatalf(format string, args ...any) {
	c.msg = fmt.Sprintf(format, args...)
	panic(caught{})
}
func (c *catchFailer) Logf(format string, args ...any) {}

// Fails runs fn with a Failer that captures the verdict; it reports whether fn failed and the message.
func (r *Run) Fails(fn func(f Failer)) (failed bool, msg string) {
	cf := &catchFailer{}
	defer func() {
		if p := recover(); p != nil {
			if _, ok := p.(caught); !ok {
				panic(p)
			}
			failed, msg = true, cf.msg
		}
	}()
	fn(cf)
	return false, ""
}

// Last returns the last case registered with Current.
func (r *Run) Last() any {
	r.mu.Lock()
	defer r.mu.Unlock()
	return r.current
}

// Replace overrides the failing case and its message (after an own minimisation pass).
func (r *Run) Replace(c any, msg string) {
	r.mu.Lock()
	r.current, r.lastMsg = c, msg
	r.mu.Unlock()
}
