package val

import (
	"math"
	"strings"

	"pgregory.net/rapid"
)

// Options for the full value generator.
type Options struct {
	MaxDepth   int  // nesting depth of structured values
	NoTime     bool // no time / duration constants
	NoFloat    bool
	NoBytes    bool
	NoPercent  bool // names without '%'
	NoDupKeys  bool // maps/structs never get two entries with the same key (always on: duplicate keys are an ill-defined literal, K23)
	SimpleOnly bool // scalars only
}

const nameChars = "abcxyzABZ019._-~%"

// GenNamePart draws one part of a name (CONSTANT_CHAR+).
func GenNamePart(o Options) *rapid.Generator[string] {
	return rapid.Custom(func(t *rapid.T) string {
		n := rapid.IntRange(1, 4).Draw(t, "partlen")
		var sb strings.Builder
		for i := 0; i < n; i++ {
			chars := nameChars
			if o.NoPercent {
				chars = nameChars[:len(nameChars)-1]
			}
			sb.WriteByte(chars[rapid.IntRange(0, len(chars)-1).Draw(t, "ch")])
		}
		return sb.String()
	})
}

// GenName draws a lexer-valid name constant symbol with 1-3 parts; common prefixes are likely.
func GenName(o Options) *rapid.Generator[string] {
	return rapid.Custom(func(t *rapid.T) string {
		if rapid.IntRange(0, 2).Draw(t, "stock") == 0 {
			return rapid.SampledFrom([]string{"/a", "/b", "/foo", "/foo/bar", "/foobar", "/a/b/c", "/bot/x", "/x.y-z_~"}).Draw(t, "stockname")
		}
		parts := rapid.IntRange(1, 3).Draw(t, "parts")
		var sb strings.Builder
		for i := 0; i < parts; i++ {
			sb.WriteByte('/')
			sb.WriteString(GenNamePart(o).Draw(t, "part"))
		}
		return sb.String()
	})
}

var stringPieces = []string{
	"", "a", "b", "ab", " ", "\"", "'", "\\", "\n", "\r", "\t", "\x00", "\x7f", "\x1b", "`", "/a", "%41", "é", "ß", "漢字", "😤", "\u2028",
	"\\n", "\\x41", "\\u{1f624}", "b\"", "1", "-1", "1.0", "[", "]", "{", "}", ":", ",", "fn:pair(", "\u00a0", "\ufeff",
}

// GenString draws a valid UTF-8 string, rich in characters that need escaping.
func GenString() *rapid.Generator[string] {
	return rapid.Custom(func(t *rapid.T) string {
		switch rapid.IntRange(0, 3).Draw(t, "strmode") {
		case 0:
			return rapid.SampledFrom([]string{"", "a", "b", "ab", "/a", "foo"}).Draw(t, "simple")
		case 1:
			n := rapid.IntRange(0, 5).Draw(t, "pieces")
			var sb strings.Builder
			for i := 0; i < n; i++ {
				sb.WriteString(rapid.SampledFrom(stringPieces).Draw(t, "piece"))
			}
			return sb.String()
		case 2:
			// arbitrary runes (rapid.String yields valid UTF-8)
			return rapid.StringN(0, 6, 24).Draw(t, "runes")
		default:
			rs := rapid.SliceOfN(rapid.Rune(), 0, 4).Draw(t, "rs")
			return string(rs)
		}
	})
}

// GenBytes draws an arbitrary byte string.
func GenBytes() *rapid.Generator[[]byte] {
	return rapid.Custom(func(t *rapid.T) []byte {
		if rapid.Bool().Draw(t, "bstock") {
			return rapid.SampledFrom([][]byte{{}, {0}, {0xff}, {0x80, 0x81}, []byte("a\"b"), []byte("\\"), []byte("\n\r\t"), {0xc3, 0x28}, []byte("é")}).Draw(t, "bs")
		}
		return rapid.SliceOfN(rapid.Byte(), 0, 6).Draw(t, "bytes")
	})
}

var boundaryInts = []int64{0, 1, -1, 2, -2, 3, 7, 10, 255, 256, 65792, math.MaxInt64, math.MinInt64, math.MaxInt64 - 1, math.MinInt64 + 1,
	1 << 53, -(1 << 53), (1 << 53) + 1, 1 << 31, -(1 << 31), 1 << 32, 1 << 62, -(1 << 62), 3037000499, 3037000500, 4294967296}

// GenInt draws an int64 biased to boundaries.
func GenInt() *rapid.Generator[int64] {
	return rapid.Custom(func(t *rapid.T) int64 {
		switch rapid.IntRange(0, 3).Draw(t, "intmode") {
		case 0:
			return rapid.SampledFrom(boundaryInts).Draw(t, "bint")
		case 1:
			return rapid.Int64Range(-5, 20).Draw(t, "small")
		case 2:
			return rapid.Int64().Draw(t, "any")
		default:
			return rapid.SampledFrom(boundaryInts).Draw(t, "b") + rapid.Int64Range(-2, 2).Draw(t, "off")
		}
	})
}

var boundaryFloats = []float64{0, math.Copysign(0, -1), 1, -1, 1.5, -2.25, 0.1, 1e21, 1e22, -1e21, 1e300, 1e-300, 5e-324, math.MaxFloat64, -math.MaxFloat64,
	float64(1 << 53), 123456789012345680000, 3.0, 100.0, 1e6, 1e-7, 0.000001, 2.5e-5}

// GenFloat draws a finite float64.
func GenFloat() *rapid.Generator[float64] {
	return rapid.Custom(func(t *rapid.T) float64 {
		switch rapid.IntRange(0, 2).Draw(t, "fmode") {
		case 0:
			return rapid.SampledFrom(boundaryFloats).Draw(t, "bf")
		case 1:
			return float64(rapid.Int64Range(-1000, 1000).Draw(t, "fi")) / float64(rapid.SampledFrom([]int64{1, 2, 4, 8, 10, 100, 1000}).Draw(t, "fd"))
		default:
			f := rapid.Float64().Draw(t, "anyf")
			if math.IsNaN(f) || math.IsInf(f, 0) {
				return 0.5
			}
			return f
		}
	})
}

// GenTimeNanos draws an instant within the range time.Time can format with four-digit years.
func GenTimeNanos() *rapid.Generator[int64] {
	return rapid.Custom(func(t *rapid.T) int64 {
		switch rapid.IntRange(0, 2).Draw(t, "tmode") {
		case 0:
			return rapid.SampledFrom([]int64{0, 1, -1, 1000000000, 1704103200000000000, 1704103200500000000, 1704103200000000001, -1000000000, 86400000000000}).Draw(t, "bt")
		case 1:
			return rapid.Int64Range(0, 4102444800).Draw(t, "sec") * 1000000000
		default:
			return rapid.Int64Range(-2000000000000000000, 4102444800000000000).Draw(t, "nanos")
		}
	})
}

// GenDurNanos draws a duration in nanoseconds.
func GenDurNanos() *rapid.Generator[int64] {
	return rapid.Custom(func(t *rapid.T) int64 {
		switch rapid.IntRange(0, 2).Draw(t, "dmode") {
		case 0:
			return rapid.SampledFrom([]int64{0, 1, -1, 1000, 1000000, 1000000000, 60000000000, 3600000000000, 86400000000000, -86400000000000, 1500000000, 90000000000}).Draw(t, "bd")
		case 1:
			return rapid.Int64Range(-100000, 100000).Draw(t, "ms") * 1000000
		default:
			return rapid.Int64Range(-9000000000000000000, 9000000000000000000).Draw(t, "dn")
		}
	})
}

// GenScalar draws a scalar value.
func GenScalar(o Options) *rapid.Generator[V] {
	return rapid.Custom(func(t *rapid.T) V {
		for {
			switch rapid.IntRange(0, 6).Draw(t, "skind") {
			case 0:
				return N(GenName(o).Draw(t, "name"))
			case 1:
				return S(GenString().Draw(t, "str"))
			case 2:
				if o.NoBytes {
					continue
				}
				return B(GenBytes().Draw(t, "bytes"))
			case 3:
				return I(GenInt().Draw(t, "int"))
			case 4:
				if o.NoFloat {
					continue
				}
				return F(GenFloat().Draw(t, "float"))
			case 5:
				if o.NoTime {
					continue
				}
				return T(GenTimeNanos().Draw(t, "time"))
			default:
				if o.NoTime {
					continue
				}
				return D(GenDurNanos().Draw(t, "dur"))
			}
		}
	})
}

// Gen draws any value up to o.MaxDepth.
func Gen(o Options) *rapid.Generator[V] {
	return rapid.Custom(func(t *rapid.T) V { return genDepth(t, o, o.MaxDepth) })
}

func genDepth(t *rapid.T, o Options, depth int) V {
	if depth <= 0 || o.SimpleOnly || rapid.IntRange(0, 9).Draw(t, "leaf") < 5 {
		return GenScalar(o).Draw(t, "scalar")
	}
	switch rapid.IntRange(0, 3).Draw(t, "shape") {
	case 0:
		return P(genDepth(t, o, depth-1), genDepth(t, o, depth-1))
	case 1:
		n := rapid.IntRange(0, 4).Draw(t, "llen")
		v := V{T: List}
		for i := 0; i < n; i++ {
			v.E = append(v.E, genDepth(t, o, depth-1))
		}
		return v
	case 2:
		n := rapid.IntRange(0, 3).Draw(t, "mlen")
		v := V{T: Map}
		seen := map[string]bool{}
		for i := 0; i < n; i++ {
			k := genDepth(t, o, depth-1)
			if seen[k.Key()] {
				continue
			}
			seen[k.Key()] = true
			v.KV = append(v.KV, [2]V{k, genDepth(t, o, depth-1)})
		}
		return v
	default:
		n := rapid.IntRange(0, 3).Draw(t, "slen")
		v := V{T: Struct}
		seen := map[string]bool{}
		for i := 0; i < n; i++ {
			k := N(rapid.SampledFrom([]string{"/a", "/b", "/c", "/foo", "/x/y"}).Draw(t, "label"))
			if seen[k.Key()] {
				continue
			}
			seen[k.Key()] = true
			v.KV = append(v.KV, [2]V{k, genDepth(t, o, depth-1)})
		}
		return v
	}
}

// Colliders are groups of distinct values whose library Hash() is equal (verified by C08's own
// self-test, not assumed): used to probe hash-keyed containers.
func Colliders() [][]V {
	long := func(last int64) V {
		return L(I(1), I(2), I(3), I(4), I(5), I(6), I(7), I(8), I(last))
	}
	return [][]V{
		{I(0), L(), L(I(0)), M(), St()},
		{S("/a"), N("/a")},
		{L(I(1)), I(65792)},
		{long(9), long(10)},
	}
}
