// Package val holds the harness' own representation of Mangle constants: a tagged value tree that is
// (a) serialisable losslessly into replay files, (b) buildable into ast.Constant through the public
// constructors, (c) printable as Mangle source by an own printer that does not use Constant.String(),
// and (d) keyed canonically (Key) without Hash(), Equals() or String() of the library – those are
// themselves under test (C06/C08/C09).
package val

import (
	"encoding/hex"
	"fmt"
	"math"
	"sort"
	"strconv"
	"strings"
	"unicode/utf8"

	"codeberg.org/TauCeti/mangle-go/ast"
)

// Kinds of values.
const (
	Name   = "name"
	Str    = "str"
	Bytes  = "bytes"
	Num    = "num"
	Float  = "f64"
	Time   = "time"
	Dur    = "dur"
	Pair   = "pair"
	List   = "list"
	Map    = "map"
	Struct = "struct"
)

// V is a value tree.
type V struct {
	T string `json:"t"`
	// S: name symbol, string content (valid UTF-8), or hex of bytes.
	S string `json:"s,omitempty"`
	// I: number / time / duration value, or the IEEE bits of a float (as signed int64), in decimal.
	I string `json:"i,omitempty"`
	// E: components of a pair (2) or elements of a list.
	E []V `json:"e,omitempty"`
	// KV: entries of a map or struct in the order supplied.
	KV [][2]V `json:"kv,omitempty"`
}

// Constructors.
func N(sym string) V         { return V{T: Name, S: sym} }
func S(s string) V           { return V{T: Str, S: s} }
func B(b []byte) V           { return V{T: Bytes, S: hex.EncodeToString(b)} }
func I(i int64) V            { return V{T: Num, I: strconv.FormatInt(i, 10)} }
func F(f float64) V          { return V{T: Float, I: strconv.FormatInt(int64(math.Float64bits(f)), 10)} }
func T(nanos int64) V        { return V{T: Time, I: strconv.FormatInt(nanos, 10)} }
func D(nanos int64) V        { return V{T: Dur, I: strconv.FormatInt(nanos, 10)} }
func P(a, b V) V             { return V{T: Pair, E: []V{a, b}} }
func L(es ...V) V            { return V{T: List, E: append([]V{}, es...)} }
func M(kv ...[2]V) V         { return V{T: Map, KV: append([][2]V{}, kv...)} }
func St(kv ...[2]V) V        { return V{T: Struct, KV: append([][2]V{}, kv...)} }
func (v V) Int() int64       { i, _ := strconv.ParseInt(v.I, 10, 64); return i }
func (v V) Flt() float64     { return math.Float64frombits(uint64(v.Int())) }
func (v V) RawBytes() []byte { b, _ := hex.DecodeString(v.S); return b }

// Build constructs the library constant through the public constructors.
func (v V) Build() ast.Constant {
	switch v.T {
	case Name:
		c, err := ast.Name(v.S)
		if err != nil {
			panic(fmt.Sprintf("val: invalid name %q: %v", v.S, err))
		}
		return c
	case Str:
		return ast.String(v.S)
	case Bytes:
		return ast.Bytes(v.RawBytes())
	case Num:
		return ast.Number(v.Int())
	case Float:
		return ast.Float64(v.Flt())
	case Time:
		return ast.Time(v.Int())
	case Dur:
		return ast.Duration(v.Int())
	case Pair:
		a, b := v.E[0].Build(), v.E[1].Build()
		return ast.Pair(&a, &b)
	case List:
		cs := make([]ast.Constant, len(v.E))
		for i, e := range v.E {
			cs[i] = e.Build()
		}
		return ast.List(cs)
	case Map, Struct:
		m := make(map[*ast.Constant]*ast.Constant, len(v.KV))
		for _, kv := range v.KV {
			k, x := kv[0].Build(), kv[1].Build()
			m[&k] = &x
		}
		if v.T == Map {
			return *ast.Map(m)
		}
		return *ast.Struct(m)
	}
	panic("val: unknown kind " + v.T)
}

// From converts a library constant back into a value tree using only the public accessors.
func From(c ast.Constant) V {
	switch c.Type {
	case ast.NameType:
		return N(c.Symbol)
	case ast.StringType:
		return S(c.Symbol)
	case ast.BytesType:
		return B([]byte(c.Symbol))
	case ast.NumberType:
		return I(c.NumValue)
	case ast.Float64Type:
		f, _ := c.Float64Value()
		return F(f)
	case ast.TimeType:
		return T(c.NumValue)
	case ast.DurationType:
		return D(c.NumValue)
	case ast.PairShape:
		a, b, _ := c.PairValue()
		return P(From(a), From(b))
	case ast.ListShape:
		res := V{T: List}
		c.ListValues(func(e ast.Constant) error { res.E = append(res.E, From(e)); return nil }, func() error { return nil })
		return res
	case ast.MapShape:
		res := V{T: Map}
		c.MapValues(func(k, x ast.Constant) error { res.KV = append(res.KV, [2]V{From(k), From(x)}); return nil }, func() error { return nil })
		return res
	case ast.StructShape:
		res := V{T: Struct}
		c.StructValues(func(k, x ast.Constant) error { res.KV = append(res.KV, [2]V{From(k), From(x)}); return nil }, func() error { return nil })
		return res
	}
	panic(fmt.Sprintf("val: unknown constant type %v", c.Type))
}

// Key is the canonical, lossless, type-tagged key of a value. Maps and structs are keyed as sets of
// entries (sorted), everything else structurally.
func (v V) Key() string {
	var sb strings.Builder
	v.key(&sb)
	return sb.String()
}

func (v V) key(sb *strings.Builder) {
	switch v.T {
	case Name:
		sb.WriteString("n")
		sb.WriteString(strconv.Quote(v.S))
	case Str:
		sb.WriteString("s")
		sb.WriteString(strconv.Quote(v.S))
	case Bytes:
		sb.WriteString("b'")
		sb.WriteString(v.S)
		sb.WriteString("'")
	case Num:
		sb.WriteString("i")
		sb.WriteString(v.I)
	case Float:
		sb.WriteString("f")
		sb.WriteString(v.I)
	case Time:
		sb.WriteString("t")
		sb.WriteString(v.I)
	case Dur:
		sb.WriteString("d")
		sb.WriteString(v.I)
	case Pair:
		sb.WriteString("P(")
		v.E[0].key(sb)
		sb.WriteString(",")
		v.E[1].key(sb)
		sb.WriteString(")")
	case List:
		sb.WriteString("L[")
		for i, e := range v.E {
			if i > 0 {
				sb.WriteString(",")
			}
			e.key(sb)
		}
		sb.WriteString("]")
	case Map, Struct:
		es := make([]string, len(v.KV))
		for i, kv := range v.KV {
			es[i] = kv[0].Key() + "=>" + kv[1].Key()
		}
		sort.Strings(es)
		if v.T == Map {
			sb.WriteString("M{")
		} else {
			sb.WriteString("S{")
		}
		sb.WriteString(strings.Join(es, ";"))
		sb.WriteString("}")
	}
}

// KeyOf is Key of a library constant.
func KeyOf(c ast.Constant) string { return From(c).Key() }

// AtomKey is the canonical key of a ground atom: predicate symbol, arity, argument keys.
// A non-constant argument is keyed by its printed form with a marker (such atoms are not ground).
func AtomKey(a ast.Atom) string {
	var sb strings.Builder
	sb.WriteString(a.Predicate.Symbol)
	sb.WriteString("/")
	sb.WriteString(strconv.Itoa(len(a.Args)))
	sb.WriteString("(")
	for i, arg := range a.Args {
		if i > 0 {
			sb.WriteString(", ")
		}
		switch x := arg.(type) {
		case ast.Constant:
			From(x).key(&sb)
		case *ast.Constant:
			From(*x).key(&sb)
		default:
			sb.WriteString("?nonground:" + arg.String())
		}
	}
	sb.WriteString(")")
	return sb.String()
}

// Source prints the value as Mangle source text with an own printer.
func (v V) Source() string {
	var sb strings.Builder
	v.source(&sb)
	return sb.String()
}

// SourceString prints a string literal.
func SourceString(s string) string {
	var sb strings.Builder
	sb.WriteByte('"')
	for _, r := range s {
		switch {
		case r == '"':
			sb.WriteString(`\"`)
		case r == '\\':
			sb.WriteString(`\\`)
		case r == '\n':
			sb.WriteString(`\n`)
		case r == '\t':
			sb.WriteString(`\t`)
		case r < 0x20 || r == 0x7f:
			fmt.Fprintf(&sb, `\x%02x`, r)
		case r < 0x7f:
			sb.WriteRune(r)
		default:
			fmt.Fprintf(&sb, `\u{%04x}`, r)
		}
	}
	sb.WriteByte('"')
	return sb.String()
}

// SourceFloat prints a finite float in the FLOAT token syntax.
func SourceFloat(f float64) string {
	s := strconv.FormatFloat(f, 'g', -1, 64)
	mant, exp := s, ""
	if i := strings.IndexAny(s, "eE"); i >= 0 {
		mant, exp = s[:i], s[i:]
	}
	if !strings.Contains(mant, ".") {
		mant += ".0"
	}
	return mant + exp
}

func (v V) source(sb *strings.Builder) {
	switch v.T {
	case Name:
		sb.WriteString(v.S)
	case Str:
		if !utf8.ValidString(v.S) {
			panic("val: string constants must be valid UTF-8")
		}
		sb.WriteString(SourceString(v.S))
	case Bytes:
		sb.WriteString(`b"`)
		for _, b := range v.RawBytes() {
			fmt.Fprintf(sb, `\x%02x`, b)
		}
		sb.WriteString(`"`)
	case Num:
		sb.WriteString(v.I)
	case Float:
		sb.WriteString(SourceFloat(v.Flt()))
	case Time:
		// RFC 3339 with nanoseconds, parsed back by fn:time:parse_rfc3339.
		sb.WriteString(`fn:time:parse_rfc3339("` + ast.FormatTime(v.Int()) + `")`)
	case Dur:
		sb.WriteString(`fn:duration:parse("` + ast.FormatDuration(v.Int()) + `")`)
	case Pair:
		sb.WriteString("fn:pair(")
		v.E[0].source(sb)
		sb.WriteString(", ")
		v.E[1].source(sb)
		sb.WriteString(")")
	case List:
		sb.WriteString("[ ") // the space keeps "[-1" from lexing as the box-minus token
		for i, e := range v.E {
			if i > 0 {
				sb.WriteString(", ")
			}
			e.source(sb)
		}
		sb.WriteString("]")
	case Map:
		if len(v.KV) == 0 {
			sb.WriteString("fn:map()")
			return
		}
		sb.WriteString("[ ")
		for i, kv := range v.KV {
			if i > 0 {
				sb.WriteString(", ")
			}
			kv[0].source(sb)
			sb.WriteString(": ")
			kv[1].source(sb)
		}
		sb.WriteString("]")
	case Struct:
		sb.WriteString("{ ")
		for i, kv := range v.KV {
			if i > 0 {
				sb.WriteString(", ")
			}
			kv[0].source(sb)
			sb.WriteString(": ")
			kv[1].source(sb)
		}
		sb.WriteString("}")
	}
}

// Depth is the nesting depth (scalars 0).
func (v V) Depth() int {
	d := 0
	for _, e := range v.E {
		if x := e.Depth() + 1; x > d {
			d = x
		}
	}
	for _, kv := range v.KV {
		for _, e := range kv {
			if x := e.Depth() + 1; x > d {
				d = x
			}
		}
	}
	return d
}

// HasDupKeys tells whether some map/struct inside v has two entries with the same key.
func (v V) HasDupKeys() bool {
	seen := map[string]bool{}
	for _, kv := range v.KV {
		k := kv[0].Key()
		if seen[k] {
			return true
		}
		seen[k] = true
		if kv[0].HasDupKeys() || kv[1].HasDupKeys() {
			return true
		}
	}
	for _, e := range v.E {
		if e.HasDupKeys() {
			return true
		}
	}
	return false
}
