package val

import (
	"testing"

	"codeberg.org/TauCeti/mangle-go/ast"
	"codeberg.org/TauCeti/mangle-go/functional"
	"codeberg.org/TauCeti/mangle-go/parse"
	"pgregory.net/rapid"
)

// Self-test of the harness' own value tree: Build/From are inverse up to map order, and the own
// printer produces text the parser reads back to the same value (compared by Key, not by Equals).
func TestValSelf(t *testing.T) {
	rapid.Check(t, func(rt *rapid.T) {
		v := Gen(Options{MaxDepth: 3}).Draw(rt, "v")
		c := v.Build()
		if got := From(c).Key(); got != v.Key() {
			rt.Fatalf("From(Build(v)) = %s, want %s", got, v.Key())
		}
		src := v.Source()
		bt, err := parse.BaseTerm(src)
		if err != nil {
			rt.Fatalf("own printer produced unparsable text %q: %v", src, err)
		}
		ev, err := functional.EvalExpr(bt, ast.ConstSubstList{})
		if err != nil {
			rt.Fatalf("eval of %q: %v", src, err)
		}
		ec, ok := ev.(ast.Constant)
		if !ok {
			rt.Fatalf("eval of %q is not a constant: %v", src, ev)
		}
		if got := From(ec).Key(); got != v.Key() {
			rt.Fatalf("parse(Source(v)) = %s, want %s (text %q)", got, v.Key(), src)
		}
	})
}
