package prog

import (
	"fmt"
	"math"
	"math/big"
	"sort"
	"strings"

	"codeberg.org/TauCeti/mangle-go/ast"
	"codeberg.org/TauCeti/mangle-go/builtin"
	"codeberg.org/TauCeti/mangle-go/functional"
	"codeberg.org/TauCeti/mangle-go/unionfind"
	"verif/val"
)

// Fact is a ground atom of the reference model.
type Fact struct {
	Pred string
	Args []ast.Constant
}

// Key is the canonical key of the fact.
func (f Fact) Key() string {
	var sb strings.Builder
	sb.WriteString(f.Pred)
	sb.WriteString("/")
	fmt.Fprintf(&sb, "%d(", len(f.Args))
	for i, a := range f.Args {
		if i > 0 {
			sb.WriteString(", ")
		}
		sb.WriteString(val.KeyOf(a))
	}
	sb.WriteString(")")
	return sb.String()
}

// ToAtom converts to a library atom.
func (f Fact) ToAtom() ast.Atom {
	args := make([]ast.BaseTerm, len(f.Args))
	for i, a := range f.Args {
		args[i] = a
	}
	return ast.Atom{Predicate: ast.PredicateSym{Symbol: f.Pred, Arity: len(f.Args)}, Args: args}
}

// Model is a set of facts keyed canonically.
type Model map[string]Fact

// Keys returns the sorted keys.
func (m Model) Keys() []string {
	ks := make([]string, 0, len(m))
	for k := range m {
		ks = append(ks, k)
	}
	sort.Strings(ks)
	return ks
}

// Options of the reference evaluator.
type Options struct {
	MaxFacts int // cap on the model size (default 5000); exceeding it makes the result inconclusive
	MaxSteps int // cap on the number of literal evaluations plus facts scanned (default 6e6)
}

// Result of the reference evaluation.
type Result struct {
	Model          Model
	Unsafe         string // non-empty: some rule body has a literal that never becomes evaluable (names it)
	Unstratifiable bool
	Capped         bool           // a cap was hit: no verdict possible
	CappedByFacts  bool           // the fact cap (not the step cap) was hit: the model has more than MaxFacts facts
	Err            error          // a function or built-in reported an error (e.g. division by zero, type error)
	Rounds         map[string]int // per stratum (joined predicate names): number of naive rounds
	DoOnRecursive  bool           // an aggregating rule's head predicate is also derived recursively in its stratum
	MaxGroup       int            // size of the largest group some aggregating rule reduced
	EmptyAggBody   bool           // some aggregating rule had no solution at all
}

type env map[ast.Variable]ast.Constant

func (e env) Get(v ast.Variable) ast.BaseTerm {
	if c, ok := e[v]; ok {
		return c
	}
	return nil
}

func (e env) with(v string, c ast.Constant) env {
	n := make(env, len(e)+1)
	for k, x := range e {
		n[k] = x
	}
	n[ast.Variable{Symbol: v}] = c
	return n
}

type evaluator struct {
	opts   Options
	model  Model
	byPred map[string][]Fact // "pred/arity" -> facts (in insertion order)
	steps  int
	res    *Result
}

func predKey(pred string, arity int) string { return fmt.Sprintf("%s/%d", pred, arity) }

func (ev *evaluator) add(f Fact) bool {
	k := f.Key()
	if _, ok := ev.model[k]; ok {
		return false
	}
	ev.model[k] = f
	pk := predKey(f.Pred, len(f.Args))
	ev.byPred[pk] = append(ev.byPred[pk], f)
	if len(ev.model) > ev.opts.MaxFacts {
		ev.res.Capped = true
		ev.res.CappedByFacts = true
	}
	return true
}

type stop struct{}

func (ev *evaluator) tick() {
	ev.steps++
	if ev.steps > ev.opts.MaxSteps {
		ev.res.Capped = true
	}
	if ev.res.Capped || ev.res.Err != nil || ev.res.Unsafe != "" {
		panic(stop{})
	}
}

func allBound(t Term, e env) bool {
	m := map[string]bool{}
	t.Vars(m)
	for v := range m {
		if _, ok := e[ast.Variable{Symbol: v}]; !ok {
			return false
		}
	}
	return !hasWildcard(t)
}

func hasWildcard(t Term) bool {
	if t.IsWildcard() {
		return true
	}
	for _, a := range t.Args {
		if hasWildcard(a) {
			return true
		}
	}
	return false
}

// evalTerm evaluates a term all of whose variables are bound.
func (ev *evaluator) evalTerm(t Term, e env) (ast.Constant, bool) {
	switch {
	case t.IsConst():
		return t.C.Build(), true
	case t.IsVar():
		c, ok := e[ast.Variable{Symbol: t.Var}]
		return c, ok
	}
	r, err := functional.EvalExpr(t.ToAST(), e)
	if err != nil {
		ev.res.Err = fmt.Errorf("evaluating %s: %w", t.Source(), err)
		panic(stop{})
	}
	c, ok := r.(ast.Constant)
	if !ok {
		ev.res.Err = fmt.Errorf("evaluating %s: not a constant: %v", t.Source(), r)
		panic(stop{})
	}
	return c, true
}

func sameConst(a, b ast.Constant) bool { return val.KeyOf(a) == val.KeyOf(b) }

// matchArgs unifies atom arguments against a fact; returns the extended environment.
func (ev *evaluator) matchArgs(args []Term, fact []ast.Constant, e env) (env, bool) {
	cur := e
	for i, t := range args {
		switch {
		case t.IsWildcard():
		case t.IsVar():
			v := ast.Variable{Symbol: t.Var}
			if c, ok := cur[v]; ok {
				if !sameConst(c, fact[i]) {
					return nil, false
				}
			} else {
				cur = cur.with(t.Var, fact[i])
			}
		default:
			c, _ := ev.evalTerm(t, cur)
			if !sameConst(c, fact[i]) {
				return nil, false
			}
		}
	}
	return cur, true
}

// evaluable tells whether literal l can be evaluated under e.
func evaluable(l Lit, e env) bool {
	switch l.K {
	case LAtom:
		if l.IsBuiltinAtom() {
			mode, ok := builtin.Predicates[ast.PredicateSym{Symbol: l.Atom.Pred, Arity: len(l.Atom.Args)}]
			if !ok {
				return false
			}
			for i, a := range l.Atom.Args {
				if mode[i] == ast.ArgModeInput && !allBound(a, e) {
					return false
				}
				if mode[i] != ast.ArgModeInput && a.IsFn() && !allBound(a, e) {
					return false
				}
			}
			return true
		}
		for _, a := range l.Atom.Args {
			if a.IsFn() && !allBound(a, e) {
				return false
			}
		}
		return true
	case LNeg:
		m := map[string]bool{}
		l.Atom.Vars(m)
		for v := range m {
			if _, ok := e[ast.Variable{Symbol: v}]; !ok {
				return false
			}
		}
		return true
	case LEq:
		lb, rb := allBound(*l.L, e), allBound(*l.R, e)
		if lb && rb {
			return true
		}
		if lb && l.R.IsVar() && !l.R.IsWildcard() {
			return true
		}
		if rb && l.L.IsVar() && !l.L.IsWildcard() {
			return true
		}
		return false
	case LNeq, LCmp:
		return allBound(*l.L, e) && allBound(*l.R, e)
	}
	return false
}

func (ev *evaluator) numbers(l Lit, e env) (int64, int64) {
	a, _ := ev.evalTerm(*l.L, e)
	b, _ := ev.evalTerm(*l.R, e)
	if a.Type != ast.NumberType || b.Type != ast.NumberType {
		ev.res.Err = fmt.Errorf("comparison %s on non-numbers", l.Source())
		panic(stop{})
	}
	return a.NumValue, b.NumValue
}

// solve enumerates the solutions of the body literals not yet done.
// work accounts for n units of scanning (facts tried against an atom) against the step cap.
func (ev *evaluator) work(n int) {
	ev.steps += n
	if ev.steps > ev.opts.MaxSteps {
		ev.res.Capped = true
		panic(stop{})
	}
}

func (ev *evaluator) solve(rule string, lits []Lit, done []bool, e env, emit func(env)) {
	pick := -1
	remaining := false
	for i, l := range lits {
		if done[i] {
			continue
		}
		remaining = true
		if evaluable(l, e) {
			pick = i
			break
		}
	}
	if !remaining {
		emit(e)
		return
	}
	if pick < 0 {
		for i, l := range lits {
			if !done[i] {
				ev.res.Unsafe = fmt.Sprintf("literal %s of rule %s never becomes evaluable", l.Source(), rule)
				break
			}
		}
		panic(stop{})
	}
	ev.tick()
	l := lits[pick]
	nd := make([]bool, len(done))
	copy(nd, done)
	nd[pick] = true
	switch l.K {
	case LAtom:
		if l.IsBuiltinAtom() {
			for _, ne := range ev.builtinSolutions(l, e) {
				ev.solve(rule, lits, nd, ne, emit)
			}
			return
		}
		facts := ev.byPred[predKey(l.Atom.Pred, len(l.Atom.Args))]
		n := len(facts) // facts appended during iteration are picked up by the next naive round
		ev.work(n)
		for i := 0; i < n; i++ {
			if ne, ok := ev.matchArgs(l.Atom.Args, facts[i].Args, e); ok {
				ev.solve(rule, lits, nd, ne, emit)
			}
		}
	case LNeg:
		if l.IsBuiltinAtom() {
			if len(ev.builtinSolutions(l, e)) == 0 {
				ev.solve(rule, lits, nd, e, emit)
			}
			return
		}
		ev.work(len(ev.byPred[predKey(l.Atom.Pred, len(l.Atom.Args))]))
		for _, f := range ev.byPred[predKey(l.Atom.Pred, len(l.Atom.Args))] {
			if _, ok := ev.matchArgs(l.Atom.Args, f.Args, e); ok {
				return // the negated atom holds for some fact: no solution
			}
		}
		ev.solve(rule, lits, nd, e, emit)
	case LEq:
		lb, rb := allBound(*l.L, e), allBound(*l.R, e)
		switch {
		case lb && rb:
			a, _ := ev.evalTerm(*l.L, e)
			b, _ := ev.evalTerm(*l.R, e)
			if sameConst(a, b) {
				ev.solve(rule, lits, nd, e, emit)
			}
		case lb:
			a, _ := ev.evalTerm(*l.L, e)
			ev.solve(rule, lits, nd, e.with(l.R.Var, a), emit)
		default:
			b, _ := ev.evalTerm(*l.R, e)
			ev.solve(rule, lits, nd, e.with(l.L.Var, b), emit)
		}
	case LNeq:
		a, _ := ev.evalTerm(*l.L, e)
		b, _ := ev.evalTerm(*l.R, e)
		if !sameConst(a, b) {
			ev.solve(rule, lits, nd, e, emit)
		}
	case LCmp:
		a, b := ev.numbers(l, e)
		ok := false
		switch l.Op {
		case "<":
			ok = a < b
		case "<=":
			ok = a <= b
		case ">":
			ok = a > b
		case ">=":
			ok = a >= b
		}
		if ok {
			ev.solve(rule, lits, nd, e, emit)
		}
	}
}

// builtinSolutions delegates a structural built-in predicate to builtin.Decide (its laws are checked
// separately by C07) and returns the environments extended with the output bindings.
func (ev *evaluator) builtinSolutions(l Lit, e env) []env {
	args := make([]ast.BaseTerm, len(l.Atom.Args))
	var outVars []string
	for i, a := range l.Atom.Args {
		if a.IsVar() {
			if c, ok := e[ast.Variable{Symbol: a.Var}]; ok {
				args[i] = c
			} else {
				args[i] = ast.Variable{Symbol: a.Var}
				if !a.IsWildcard() {
					outVars = append(outVars, a.Var)
				}
			}
			continue
		}
		c, _ := ev.evalTerm(a, e)
		args[i] = c
	}
	atom := ast.Atom{Predicate: ast.PredicateSym{Symbol: l.Atom.Pred, Arity: len(args)}, Args: args}
	uf := unionfind.New()
	ok, substs, err := builtin.Decide(atom, &uf)
	if err != nil {
		ev.res.Err = fmt.Errorf("built-in %s: %w", l.Source(), err)
		panic(stop{})
	}
	if !ok {
		return nil
	}
	var res []env
	for _, s := range substs {
		ne := e
		good := true
		for _, v := range outVars {
			b := s.Get(ast.Variable{Symbol: v})
			c, isConst := b.(ast.Constant)
			if !isConst {
				good = false
				break
			}
			if prev, ok := ne[ast.Variable{Symbol: v}]; ok {
				if !sameConst(prev, c) {
					good = false
					break
				}
				continue
			}
			ne = ne.with(v, c)
		}
		if good {
			res = append(res, ne)
		}
	}
	return res
}

func (ev *evaluator) head(r Rule, e env) Fact {
	f := Fact{Pred: r.Head.Pred, Args: make([]ast.Constant, len(r.Head.Args))}
	for i, t := range r.Head.Args {
		if !allBound(t, e) {
			ev.res.Unsafe = fmt.Sprintf("head argument %s of rule %s has no value", t.Source(), r.Source())
			panic(stop{})
		}
		c, _ := ev.evalTerm(t, e)
		f.Args[i] = c
	}
	return f
}

// fire evaluates a non-aggregating rule once and adds the derived facts; reports whether anything is new.
func (ev *evaluator) fire(r Rule) bool {
	var derived []Fact
	ev.solve(r.Source(), r.Body, make([]bool, len(r.Body)), env{}, func(e env) {
		for _, s := range r.Let {
			if !allBound(s.Fn, e) {
				ev.res.Unsafe = fmt.Sprintf("let expression %s of rule %s uses a variable without value", s.Fn.Source(), r.Source())
				panic(stop{})
			}
			c, _ := ev.evalTerm(s.Fn, e)
			e = e.with(s.Var, c)
		}
		derived = append(derived, ev.head(r, e))
	})
	changed := false
	for _, f := range derived {
		if ev.add(f) {
			changed = true
		}
	}
	return changed
}

// fireDo evaluates an aggregating rule over the (complete) facts of its body predicates.
func (ev *evaluator) fireDo(r Rule) bool {
	// the distinct assignments of the named variables of atoms and equalities
	vars := map[string]bool{}
	for _, l := range r.Body {
		if l.K == LAtom || l.K == LEq {
			l.Vars(vars)
		}
	}
	names := make([]string, 0, len(vars))
	for v := range vars {
		names = append(names, v)
	}
	sort.Strings(names)
	seen := map[string]bool{}
	var rows []env
	ev.solve(r.Source(), r.Body, make([]bool, len(r.Body)), env{}, func(e env) {
		var sb strings.Builder
		row := env{}
		for _, n := range names {
			c, ok := e[ast.Variable{Symbol: n}]
			if !ok {
				continue
			}
			row[ast.Variable{Symbol: n}] = c
			sb.WriteString(n + "=" + val.KeyOf(c) + ";")
		}
		if !seen[sb.String()] {
			seen[sb.String()] = true
			rows = append(rows, row)
		}
	})
	// group
	type group struct {
		key  []ast.Constant
		rows []env
	}
	groups := map[string]*group{}
	var order []string
	for _, row := range rows {
		var sb strings.Builder
		key := make([]ast.Constant, len(r.Do.Keys))
		for i, k := range r.Do.Keys {
			c, ok := row[ast.Variable{Symbol: k}]
			if !ok {
				ev.res.Unsafe = fmt.Sprintf("group-by variable %s of rule %s has no value", k, r.Source())
				panic(stop{})
			}
			key[i] = c
			sb.WriteString(val.KeyOf(c) + ";")
		}
		g, ok := groups[sb.String()]
		if !ok {
			g = &group{key: key}
			groups[sb.String()] = g
			order = append(order, sb.String())
		}
		g.rows = append(g.rows, row)
	}
	if len(rows) == 0 {
		ev.res.EmptyAggBody = true
	}
	changed := false
	for _, gk := range order {
		g := groups[gk]
		if len(g.rows) > ev.res.MaxGroup {
			ev.res.MaxGroup = len(g.rows)
		}
		e := env{}
		for i, k := range r.Do.Keys {
			e[ast.Variable{Symbol: k}] = g.key[i]
		}
		for _, s := range r.Do.Lets {
			c, err := reduce(s.Fn, g.rows, e)
			if err != nil {
				ev.res.Err = err
				panic(stop{})
			}
			e = e.with(s.Var, c)
		}
		if ev.add(ev.head(r, e)) {
			changed = true
		}
	}
	return changed
}

// reduce is the harness' own implementation of the reducers (count, sum, min, max, avg,
// collect_distinct); any other function is a plain expression over the group key / earlier lets.
func reduce(fn Term, rows []env, e env) (ast.Constant, error) {
	column := func() ([]int64, error) {
		if len(fn.Args) != 1 || !fn.Args[0].IsVar() {
			return nil, fmt.Errorf("reducer %s: expected one variable argument", fn.Source())
		}
		v := ast.Variable{Symbol: fn.Args[0].Var}
		var xs []int64
		for _, r := range rows {
			c, ok := r[v]
			if !ok || c.Type != ast.NumberType {
				return nil, fmt.Errorf("reducer %s: row without a number for %v", fn.Source(), v)
			}
			xs = append(xs, c.NumValue)
		}
		return xs, nil
	}
	switch fn.Fn {
	case "fn:count":
		return ast.Number(int64(len(rows))), nil
	case "fn:sum":
		xs, err := column()
		if err != nil {
			return ast.Constant{}, err
		}
		var s int64
		for _, x := range xs {
			s += x // wrapping
		}
		return ast.Number(s), nil
	case "fn:min", "fn:max":
		xs, err := column()
		if err != nil {
			return ast.Constant{}, err
		}
		m := xs[0]
		for _, x := range xs {
			if (fn.Fn == "fn:min" && x < m) || (fn.Fn == "fn:max" && x > m) {
				m = x
			}
		}
		return ast.Number(m), nil
	case "fn:avg":
		xs, err := column()
		if err != nil {
			return ast.Constant{}, err
		}
		sum := new(big.Rat)
		for _, x := range xs {
			sum.Add(sum, new(big.Rat).SetInt64(x))
		}
		sum.Quo(sum, new(big.Rat).SetInt64(int64(len(xs))))
		f, _ := sum.Float64()
		return ast.Float64(f), nil
	case "fn:collect_distinct":
		if len(fn.Args) != 1 || !fn.Args[0].IsVar() {
			return ast.Constant{}, fmt.Errorf("reducer %s: expected one variable argument", fn.Source())
		}
		v := ast.Variable{Symbol: fn.Args[0].Var}
		seen := map[string]ast.Constant{}
		for _, r := range rows {
			c, ok := r[v]
			if !ok {
				return ast.Constant{}, fmt.Errorf("reducer %s: row without %v", fn.Source(), v)
			}
			seen[val.KeyOf(c)] = c
		}
		ks := make([]string, 0, len(seen))
		for k := range seen {
			ks = append(ks, k)
		}
		sort.Strings(ks)
		cs := make([]ast.Constant, len(ks))
		for i, k := range ks {
			cs[i] = seen[k]
		}
		return ast.List(cs), nil
	}
	r, err := functional.EvalExpr(fn.ToAST(), e)
	if err != nil {
		return ast.Constant{}, err
	}
	c, ok := r.(ast.Constant)
	if !ok {
		return ast.Constant{}, fmt.Errorf("expression %s is not a constant", fn.Source())
	}
	return c, nil
}

var _ = math.MaxInt64

// Eval computes the stratified least model of p over its own facts plus extra.
func Eval(p Program, extra []Fact, opts Options) (res Result) {
	if opts.MaxFacts == 0 {
		opts.MaxFacts = 5000
	}
	if opts.MaxSteps == 0 {
		opts.MaxSteps = 6000000
	}
	res.Rounds = map[string]int{}
	ev := &evaluator{opts: opts, model: Model{}, byPred: map[string][]Fact{}, res: &res}
	defer func() {
		res.Model = ev.model
		if r := recover(); r != nil {
			if _, ok := r.(stop); !ok {
				panic(r)
			}
		}
	}()
	for _, f := range extra {
		ev.add(f)
	}
	for _, a := range p.Facts {
		f := Fact{Pred: a.Pred, Args: make([]ast.Constant, len(a.Args))}
		for i, t := range a.Args {
			if !allBound(t, env{}) {
				res.Unsafe = "fact " + a.Source() + " is not ground"
				return
			}
			c, _ := ev.evalTerm(t, env{})
			f.Args[i] = c
		}
		ev.add(f)
	}
	// dependency graph over intensional predicates
	idb := map[string]bool{}
	for _, r := range p.Rules {
		idb[predKey(r.Head.Pred, len(r.Head.Args))] = true
	}
	type edge struct {
		to     string
		strict bool
	}
	edges := map[string][]edge{}
	for _, r := range p.Rules {
		h := predKey(r.Head.Pred, len(r.Head.Args))
		for _, l := range r.Body {
			if l.Atom == nil || l.IsBuiltinAtom() {
				continue
			}
			t := predKey(l.Atom.Pred, len(l.Atom.Args))
			if !idb[t] {
				continue
			}
			edges[h] = append(edges[h], edge{t, l.K == LNeg || r.Do != nil})
		}
	}
	nodes := make([]string, 0, len(idb))
	for n := range idb {
		nodes = append(nodes, n)
	}
	sort.Strings(nodes)
	// Tarjan: components come out dependencies-first.
	index, low, onStack := map[string]int{}, map[string]int{}, map[string]bool{}
	var stack []string
	var comps [][]string
	counter := 0
	var strong func(v string)
	strong = func(v string) {
		counter++
		index[v], low[v] = counter, counter
		stack = append(stack, v)
		onStack[v] = true
		for _, e := range edges[v] {
			if index[e.to] == 0 {
				strong(e.to)
				if low[e.to] < low[v] {
					low[v] = low[e.to]
				}
			} else if onStack[e.to] && index[e.to] < low[v] {
				low[v] = index[e.to]
			}
		}
		if low[v] == index[v] {
			var comp []string
			for {
				w := stack[len(stack)-1]
				stack = stack[:len(stack)-1]
				onStack[w] = false
				comp = append(comp, w)
				if w == v {
					break
				}
			}
			sort.Strings(comp)
			comps = append(comps, comp)
		}
	}
	for _, n := range nodes {
		if index[n] == 0 {
			strong(n)
		}
	}
	compOf := map[string]int{}
	for i, c := range comps {
		for _, n := range c {
			compOf[n] = i
		}
	}
	for h, es := range edges {
		for _, e := range es {
			if e.strict && compOf[h] == compOf[e.to] {
				res.Unstratifiable = true
				return
			}
		}
	}
	for ci, comp := range comps {
		var plain, agg []Rule
		for _, r := range p.Rules {
			if compOf[predKey(r.Head.Pred, len(r.Head.Args))] != ci {
				continue
			}
			if r.Do != nil {
				agg = append(agg, r)
			} else {
				plain = append(plain, r)
			}
		}
		// Aggregating rules depend only on strictly lower strata: their result is part of the
		// stratum's input. (If the same predicate is also derived recursively this matters; flagged.)
		for _, r := range agg {
			ev.fireDo(r)
			for _, q := range plain {
				for _, l := range q.Body {
					if l.K == LAtom && !l.IsBuiltinAtom() && compOf[predKey(l.Atom.Pred, len(l.Atom.Args))] == ci && idb[predKey(l.Atom.Pred, len(l.Atom.Args))] {
						res.DoOnRecursive = true
					}
				}
			}
		}
		rounds := 0
		for {
			rounds++
			changed := false
			for _, r := range plain {
				if ev.fire(r) {
					changed = true
				}
			}
			if !changed {
				break
			}
		}
		res.Rounds[strings.Join(comp, ",")] = rounds
	}
	return
}
