package prog

import (
	"fmt"

	"pgregory.net/rapid"
	"verif/val"
)

// GenOpts selects the ingredients of generated programs.
type GenOpts struct {
	Neg    bool // negated atoms (strictly lower level)
	Cmp    bool // <, <=, >, >=
	Neq    bool // !=
	Eq     bool // = with constants / variables
	Arith  bool // fn:plus / fn:minus / fn:mult, guarded
	Struct bool // pairs and lists: constructors, :match_pair, :match_cons, :list:member, fn:list:get
	Let    bool // let-transforms
	// NegAnywhere places negated atoms at random positions of the body (analysis delays them).
	NegAnywhere bool
	// IdbFacts gives some intensional predicates ground facts of their own (in the text or pre-loaded).
	IdbFacts bool
	// FactsAfter prints some of the facts of the text after the rules (the usual style is facts first).
	FactsAfter bool
	// Boundary: a few numbers in facts and in constants of rules are integers far apart (MinInt64, MaxInt64, +-2^62),
	// so that comparisons meet operands whose difference overflows.
	Boundary bool
	// NegFront writes all negated atoms of some rules first, before every atom that binds their variables,
	// and gives such rules up to four positive atoms (analysis has to delay and release them one by one).
	NegFront bool
	// MaxRulesPerPred, MaxIDB bound the size (defaults 3 and 4).
	MaxRulesPerPred, MaxIDB int
}

// AllFeatures enables everything C01 covers.
var AllFeatures = GenOpts{Neg: true, Cmp: true, Neq: true, Eq: true, Arith: true, Struct: true, Let: true, NegAnywhere: true,
	IdbFacts: true, FactsAfter: true, NegFront: true, Boundary: true}

// Column types: n number, a name, p pair(n, n), l list of numbers.
type PredInfo struct {
	Name  string
	Cols  string // one type letter per column
	Level int    // -1 extensional
}

// Generated is a generated program with its schema and the facts to pre-load into the store.
type Generated struct {
	Prog   Program    `json:"prog"`
	Extra  []Atom     `json:"extra,omitempty"` // ground facts loaded into the store before evaluation
	Schema []PredInfo `json:"-"`
	Labels []string   `json:"-"`
}

var numDomain = []int64{0, 1, 2, 3, 4}
var nameDomain = []string{"/a", "/b", "/c"}

// boundaryNums: integers far apart (differences overflow int64).
var boundaryNums = []int64{-9223372036854775808, 9223372036854775807, -4611686018427387904, 4611686018427387904, -1}

// genValueB is genValue with boundary integers (about 3 % of the numbers) when boundary is set.
func genValueB(t *rapid.T, typ byte, boundary bool) val.V {
	if typ == 'n' && boundary && rapid.IntRange(0, 29).Draw(t, "boundaryNum") == 0 {
		return val.I(rapid.SampledFrom(boundaryNums).Draw(t, "bnum"))
	}
	return genValue(t, typ)
}

func genValue(t *rapid.T, typ byte) val.V {
	switch typ {
	case 'n':
		return val.I(rapid.SampledFrom(numDomain).Draw(t, "num"))
	case 'a':
		return val.N(rapid.SampledFrom(nameDomain).Draw(t, "name"))
	case 'p':
		return val.P(val.I(rapid.SampledFrom(numDomain).Draw(t, "p1")), val.I(rapid.SampledFrom(numDomain).Draw(t, "p2")))
	case 'l':
		n := rapid.IntRange(0, 2).Draw(t, "llen")
		v := val.V{T: val.List}
		for i := 0; i < n; i++ {
			v.E = append(v.E, val.I(rapid.SampledFrom(numDomain).Draw(t, "le")))
		}
		return v
	}
	panic("type")
}

type ruleGen struct {
	t      *rapid.T
	o      GenOpts
	bound  map[byte][]string // type -> variables that have a value after the positive part
	nvar   int
	labels map[string]bool
}

func (g *ruleGen) fresh(typ byte) string {
	g.nvar++
	prefix := map[byte]string{'n': "N", 'a': "A", 'p': "P", 'l': "L", 'm': "M"}[typ]
	return fmt.Sprintf("%s%d", prefix, g.nvar)
}

func (g *ruleGen) bind(typ byte, v string) {
	for _, x := range g.bound[typ] {
		if x == v {
			return
		}
	}
	g.bound[typ] = append(g.bound[typ], v)
}

func (g *ruleGen) unbind(typ byte, v string) {
	var kept []string
	for _, x := range g.bound[typ] {
		if x != v {
			kept = append(kept, x)
		}
	}
	g.bound[typ] = kept
}

// argFor draws an argument for a positive atom column of type typ.
func (g *ruleGen) posArg(typ byte, pending *[][2]string) Term {
	r := rapid.IntRange(0, 99).Draw(g.t, "argkind")
	switch {
	case r < 45 && len(g.bound[typ]) > 0:
		return Var(rapid.SampledFrom(g.bound[typ]).Draw(g.t, "reuse"))
	case r < 52 && len(*pending) > 0 && (*pending)[len(*pending)-1][0] == string(typ):
		// the variable this very atom introduced in its previous column once more: e(X, X) with X not bound before
		g.labels["repeated-var-in-atom"] = true
		return Var((*pending)[len(*pending)-1][1])
	case r < 85 || (typ != 'n' && typ != 'a' && r < 95):
		v := g.fresh(typ)
		*pending = append(*pending, [2]string{string(typ), v})
		return Var(v)
	case r < 94:
		return Const(genValue(g.t, typ))
	default:
		return Var("_")
	}
}

// boundArg draws an argument that needs a value: a bound variable of the type or a constant.
func (g *ruleGen) boundArg(typ byte) Term {
	if len(g.bound[typ]) > 0 && rapid.IntRange(0, 9).Draw(g.t, "usevar") < 8 {
		return Var(rapid.SampledFrom(g.bound[typ]).Draw(g.t, "bvar"))
	}
	return Const(genValueB(g.t, typ, g.o.Boundary))
}

// Gen draws a safe, stratifiable, type-consistent program.
func Gen(o GenOpts) *rapid.Generator[Generated] {
	return rapid.Custom(func(t *rapid.T) Generated { return gen(t, o) })
}

func gen(t *rapid.T, o GenOpts) Generated {
	if o.MaxRulesPerPred == 0 {
		o.MaxRulesPerPred = 3
	}
	if o.MaxIDB == 0 {
		o.MaxIDB = 4
	}
	var g Generated
	labels := map[string]bool{}
	// schema
	nEdb := rapid.IntRange(1, 3).Draw(t, "nEdb")
	for i := 0; i < nEdb; i++ {
		ar := rapid.SampledFrom([]int{1, 1, 2, 2, 2, 3, 0, 1, 2, 2, 3, 5, 4, 4}).Draw(t, "edbArity")
		cols := ""
		for c := 0; c < ar; c++ {
			cols += string(rapid.SampledFrom([]byte("nnnna")).Draw(t, "edbCol"))
		}
		g.Schema = append(g.Schema, PredInfo{Name: fmt.Sprintf("e%d", i), Cols: cols, Level: -1})
	}
	nIdb := rapid.IntRange(1, o.MaxIDB).Draw(t, "nIdb")
	colTypes := []byte("nnnna")
	if o.Struct {
		colTypes = []byte("nnnnnaapl")
	}
	for i := 0; i < nIdb; i++ {
		ar := rapid.SampledFrom([]int{1, 1, 2, 2, 2, 3, 0, 1, 2, 2, 3, 5}).Draw(t, "idbArity")
		cols := ""
		for c := 0; c < ar; c++ {
			cols += string(rapid.SampledFrom(colTypes).Draw(t, "idbCol"))
		}
		lvl := rapid.IntRange(0, 2).Draw(t, "level")
		g.Schema = append(g.Schema, PredInfo{Name: fmt.Sprintf("i%d", i), Cols: cols, Level: lvl})
	}
	// declarations of extensional predicates and their facts
	for _, p := range g.Schema {
		if p.Level >= 0 {
			continue
		}
		g.Prog.Decls = append(g.Prog.Decls, Decl{Pred: p.Name, Arity: len(p.Cols)})
		nf := rapid.IntRange(0, 5).Draw(t, "nfacts")
		if len(p.Cols) == 0 {
			nf = rapid.IntRange(0, 1).Draw(t, "nfacts0")
		}
		for f := 0; f < nf; f++ {
			a := Atom{Pred: p.Name}
			for c := 0; c < len(p.Cols); c++ {
				a.Args = append(a.Args, Const(genValueB(t, p.Cols[c], o.Boundary)))
			}
			if a.Args == nil {
				a.Args = []Term{}
			}
			if rapid.Bool().Draw(t, "inText") {
				g.Prog.Facts = append(g.Prog.Facts, a)
			} else {
				g.Extra = append(g.Extra, a)
			}
		}
	}
	// rules
	for _, h := range g.Schema {
		if h.Level < 0 {
			continue
		}
		nr := rapid.IntRange(1, o.MaxRulesPerPred).Draw(t, "nrules")
		for k := 0; k < nr; k++ {
			g.Prog.Rules = append(g.Prog.Rules, genRule(t, o, g.Schema, h, k == 0, labels))
		}
	}
	// facts of intensional predicates: a predicate may have both rules and base facts
	if o.IdbFacts {
		for _, p := range g.Schema {
			if p.Level < 0 || rapid.IntRange(0, 4).Draw(t, "idbFacts") != 0 {
				continue
			}
			for f, nf := 0, rapid.IntRange(1, 2).Draw(t, "nIdbFacts"); f < nf; f++ {
				a := Atom{Pred: p.Name, Args: []Term{}}
				for c := 0; c < len(p.Cols); c++ {
					a.Args = append(a.Args, Const(genValue(t, p.Cols[c])))
				}
				if rapid.IntRange(0, 9).Draw(t, "idbInText") < 7 {
					g.Prog.Facts = append(g.Prog.Facts, a)
				} else {
					g.Extra = append(g.Extra, a)
				}
			}
			labels["idb-facts"] = true
		}
	}
	if o.FactsAfter && len(g.Prog.Facts) > 0 && rapid.IntRange(0, 2).Draw(t, "factsAfter") == 0 {
		g.Prog.FactsAfter = rapid.IntRange(1, len(g.Prog.Facts)).Draw(t, "nFactsAfter")
		labels["facts-after-rules"] = true
	}
	for l := range labels {
		g.Labels = append(g.Labels, l)
	}
	return g
}

func genRule(t *rapid.T, o GenOpts, schema []PredInfo, h PredInfo, exitRule bool, labels map[string]bool) Rule {
	g := &ruleGen{t: t, o: o, bound: map[byte][]string{}, labels: labels}
	var lower, same []PredInfo
	for _, p := range schema {
		if p.Level < h.Level {
			lower = append(lower, p)
		} else if p.Level == h.Level {
			same = append(same, p)
		}
	}
	var body []Lit
	// positive atoms
	nPos := rapid.SampledFrom([]int{1, 1, 2, 2, 2, 3, 1, 2, 2, 3, 3, 4}).Draw(t, "nPos")
	negFront := o.NegFront && o.Neg && len(lower) > 0 && rapid.IntRange(0, 7).Draw(t, "negFront") == 0
	if negFront {
		nPos = rapid.SampledFrom([]int{2, 3, 3, 4}).Draw(t, "nPosNegFront")
	}
	nSame := 0
	for i := 0; i < nPos; i++ {
		var p PredInfo
		useSame := !exitRule && len(same) > 0 && rapid.IntRange(0, 9).Draw(t, "sameLevel") < 6
		if useSame {
			p = rapid.SampledFrom(same).Draw(t, "samePred")
			nSame++
		} else {
			p = rapid.SampledFrom(lower).Draw(t, "lowerPred")
		}
		a := Atom{Pred: p.Name, Args: []Term{}}
		var pending [][2]string
		// wide atoms after the first: sometimes only a column behind the third is bound when the atom is looked up
		lateKey := len(p.Cols) >= 4 && i > 0 && rapid.IntRange(0, 2).Draw(t, "lateKey") == 0
		if lateKey {
			labels["wide-atom-bound-only-behind-third-column"] = true
		}
		for c := 0; c < len(p.Cols); c++ {
			if lateKey && c < 3 {
				v := g.fresh(p.Cols[c])
				pending = append(pending, [2]string{string(p.Cols[c]), v})
				a.Args = append(a.Args, Var(v))
				continue
			}
			if lateKey && len(g.bound[p.Cols[c]]) > 0 {
				a.Args = append(a.Args, Var(rapid.SampledFrom(g.bound[p.Cols[c]]).Draw(t, "lateKeyVar")))
				continue
			}
			a.Args = append(a.Args, g.posArg(p.Cols[c], &pending))
		}
		for _, pv := range pending {
			g.bind(pv[0][0], pv[1])
		}
		body = append(body, PosLit(a))
	}
	if nSame >= 2 {
		labels["nonlinear"] = true
	}
	if nSame >= 1 {
		labels["recursive-rule"] = true
	}
	recursive := nSame > 0
	guardAnyway := rapid.Bool().Draw(t, "guardAnyway")
	var guards, filters []Lit
	guarded := map[string]bool{}
	guard := func(v string) {
		// only recursive rules need the guard to keep the model finite; half of the other rules get it anyway
		if guarded[v] || (!recursive && !guardAnyway) {
			return
		}
		guarded[v] = true
		guards = append(guards, CmpLit("<", Var(v), Num(6)), CmpLit(">", Var(v), Num(-4)))
	}
	// definitions: arithmetic, constants, structures (each binds a fresh variable)
	nDef := 0
	if o.Arith || o.Struct || o.Eq {
		nDef = rapid.SampledFrom([]int{0, 0, 1, 1, 2, 3}).Draw(t, "nDef")
	}
	for i := 0; i < nDef; i++ {
		switch kind := rapid.IntRange(0, 9).Draw(t, "defKind"); {
		case kind >= 9 && o.Eq:
			// alias: a fresh variable equated with a bound one (variable = variable). Kept rare: analysis does not
			// take an alias for bound where a built-in or a function needs a value, so most later uses of the alias
			// get the program rejected (which is allowed, but a rejected program tests nothing behind analysis).
			typ := rapid.SampledFrom([]byte("nnna")).Draw(t, "aliasType")
			if len(g.bound[typ]) == 0 {
				continue
			}
			x := rapid.SampledFrom(g.bound[typ]).Draw(t, "aliasOf")
			z := g.fresh(typ)
			if rapid.IntRange(0, 11).Draw(t, "aliasFlip") == 0 { // bound = fresh: analysis does not take it for a binding
				body = append(body, EqLit(Var(x), Var(z)))
			} else {
				body = append(body, EqLit(Var(z), Var(x)))
			}
			g.bind(typ, z)
			labels["eq-alias"] = true
		case kind <= 2 && o.Arith && len(g.bound['n']) > 0:
			x := rapid.SampledFrom(g.bound['n']).Draw(t, "ax")
			fn := rapid.SampledFrom([]string{"fn:plus", "fn:minus", "fn:mult"}).Draw(t, "afn")
			var y Term
			if rapid.Bool().Draw(t, "ayVar") {
				yv := rapid.SampledFrom(g.bound['n']).Draw(t, "ay")
				y = Var(yv)
				guard(yv)
			} else {
				y = Num(rapid.Int64Range(0, 3).Draw(t, "ac"))
			}
			guard(x)
			z := g.fresh('n')
			lit := EqLit(Var(z), Fn(fn, Var(x), y))
			if rapid.Bool().Draw(t, "eqFlip") {
				lit = EqLit(Fn(fn, Var(x), y), Var(z))
			}
			body = append(body, lit)
			g.bind('n', z)
			labels["fn"] = true
			labels["arith"] = true
		case kind == 3 && o.Eq:
			typ := rapid.SampledFrom([]byte("na")).Draw(t, "eqType")
			z := g.fresh(typ)
			body = append(body, EqLit(Var(z), Const(genValue(t, typ))))
			g.bind(typ, z)
			labels["eq-const"] = true
		case kind == 4 && o.Struct && len(g.bound['n']) > 0:
			x := rapid.SampledFrom(g.bound['n']).Draw(t, "px")
			y := rapid.SampledFrom(g.bound['n']).Draw(t, "py")
			z := g.fresh('p')
			body = append(body, EqLit(Var(z), Fn("fn:pair", Var(x), Var(y))))
			g.bind('p', z)
			labels["fn"] = true
			labels["struct"] = true
		case kind == 5 && o.Struct && len(g.bound['p']) > 0:
			p := rapid.SampledFrom(g.bound['p']).Draw(t, "mp")
			a, b := g.fresh('n'), g.fresh('n')
			var ta, tb Term = Var(a), Var(b)
			if rapid.IntRange(0, 24).Draw(t, "mpConst") == 0 { // rare: analysis wants free variables there
				ta = Num(rapid.SampledFrom(numDomain).Draw(t, "mpc"))
			} else {
				g.bind('n', a)
			}
			g.bind('n', b)
			if ta.IsVar() && rapid.IntRange(0, 3).Draw(t, "mpWild") == 0 { // one component is not wanted
				if rapid.Bool().Draw(t, "mpWildFst") {
					ta = Var("_")
					g.unbind('n', a)
				} else {
					tb = Var("_")
					g.unbind('n', b)
				}
				labels["match-with-wildcard"] = true
			}
			body = append(body, PosLit(Atom{Pred: ":match_pair", Args: []Term{Var(p), ta, tb}}))
			labels["struct"] = true
			labels["builtin-pred"] = true
		case kind == 6 && o.Struct && len(g.bound['n']) > 0:
			x := rapid.SampledFrom(g.bound['n']).Draw(t, "lx")
			y := rapid.SampledFrom(g.bound['n']).Draw(t, "ly")
			z := g.fresh('l')
			lt := Fn("fn:list", Var(x), Var(y))
			lt.Lst = rapid.Bool().Draw(t, "bracket")
			body = append(body, EqLit(Var(z), lt))
			g.bind('l', z)
			labels["fn"] = true
			labels["struct"] = true
		case kind == 7 && o.Struct && len(g.bound['l']) > 0:
			l := rapid.SampledFrom(g.bound['l']).Draw(t, "ml")
			switch rapid.IntRange(0, 2).Draw(t, "lkind") {
			case 0:
				x := g.fresh('n')
				body = append(body, PosLit(Atom{Pred: ":list:member", Args: []Term{Var(x), Var(l)}}))
				g.bind('n', x)
			case 1:
				hd, tl := g.fresh('n'), g.fresh('l')
				th, tt := Var(hd), Var(tl)
				switch rapid.IntRange(0, 7).Draw(t, "mcWild") { // head or tail is not wanted
				case 0:
					th = Var("_")
				case 1:
					tt = Var("_")
				}
				body = append(body, PosLit(Atom{Pred: ":match_cons", Args: []Term{Var(l), th, tt}}))
				if !th.IsWildcard() {
					g.bind('n', hd)
				}
				if !tt.IsWildcard() {
					g.bind('l', tl)
				}
				if th.IsWildcard() || tt.IsWildcard() {
					labels["match-with-wildcard"] = true
				}
			default:
				x := g.fresh('n')
				body = append(body, EqLit(Var(x), Fn("fn:list:len", Var(l))))
				g.bind('n', x)
				labels["fn"] = true
			}
			labels["struct"] = true
			labels["builtin-pred"] = true
		}
	}
	// filters: comparisons, inequalities, equalities between bound things
	nFil := rapid.SampledFrom([]int{0, 0, 1, 1, 2, 2, 3}).Draw(t, "nFilter")
	if negFront {
		nFil = rapid.IntRange(2, 4).Draw(t, "nFilterNegFront")
	}
	for i := 0; i < nFil; i++ {
		kinds := []int{0, 0, 1, 1, 2, 3, 3, 3, 4, 5, 6}
		if negFront {
			kinds = []int{0, 1, 3, 3, 3, 3, 3, 3}
		}
		switch kind := rapid.SampledFrom(kinds).Draw(t, "filKind"); {
		case kind == 4 && o.Eq && o.Arith && len(g.bound['n']) > 0:
			// a constant (or bound variable) compared with a function expression, on either side
			x := rapid.SampledFrom(g.bound['n']).Draw(t, "efx")
			guard(x)
			fn := Fn(rapid.SampledFrom([]string{"fn:plus", "fn:minus", "fn:mult"}).Draw(t, "effn"), Var(x), Num(rapid.Int64Range(0, 2).Draw(t, "efk")))
			other := g.boundArg('n')
			if rapid.Bool().Draw(t, "efConst") {
				other = Const(genValue(t, 'n'))
			}
			if rapid.Bool().Draw(t, "efFlip") {
				filters = append(filters, EqLit(other, fn))
			} else {
				filters = append(filters, EqLit(fn, other))
			}
			labels["eq-fn-filter"] = true
			labels["fn"] = true
		case kind == 5 && o.Cmp && o.Neg && len(g.bound['n']) > 0:
			// a negated built-in comparison: !:lt(X, c), !:ge(X, Y)
			pred := rapid.SampledFrom([]string{":lt", ":le", ":gt", ":ge"}).Draw(t, "negCmp")
			l := Var(rapid.SampledFrom(g.bound['n']).Draw(t, "negCmpL"))
			filters = append(filters, NegLit(Atom{Pred: pred, Args: []Term{l, g.boundArg('n')}}))
			labels["neg-builtin"] = true
			labels["cmp"] = true
		case kind == 6 && o.Cmp && o.Arith && len(g.bound['n']) > 0:
			// a comparison one of whose operands is a function expression over a bound variable
			x := rapid.SampledFrom(g.bound['n']).Draw(t, "cfx")
			guard(x)
			fn := Fn(rapid.SampledFrom([]string{"fn:plus", "fn:minus", "fn:mult"}).Draw(t, "cffn"), Var(x), Num(rapid.Int64Range(0, 2).Draw(t, "cfk")))
			op := rapid.SampledFrom([]string{"<", "<=", ">", ">="}).Draw(t, "cfOp")
			if rapid.Bool().Draw(t, "cfFlip") {
				filters = append(filters, CmpLit(op, g.boundArg('n'), fn))
			} else {
				filters = append(filters, CmpLit(op, fn, g.boundArg('n')))
			}
			labels["cmp-fn-operand"] = true
			labels["cmp"] = true
			labels["fn"] = true
		case kind == 0 && o.Cmp && len(g.bound['n']) > 0:
			op := rapid.SampledFrom([]string{"<", "<=", ">", ">="}).Draw(t, "cmpOp")
			l := Var(rapid.SampledFrom(g.bound['n']).Draw(t, "cmpL"))
			filters = append(filters, CmpLit(op, l, g.boundArg('n')))
			labels["cmp"] = true
		case kind == 1 && o.Neq:
			typ := rapid.SampledFrom([]byte("nna")).Draw(t, "neqType")
			if len(g.bound[typ]) == 0 {
				continue
			}
			l := Var(rapid.SampledFrom(g.bound[typ]).Draw(t, "neqL"))
			filters = append(filters, NeqLit(l, g.boundArg(typ)))
			labels["neq"] = true
		case kind == 2 && o.Eq:
			typ := rapid.SampledFrom([]byte("nna")).Draw(t, "eqfType")
			if len(g.bound[typ]) == 0 {
				continue
			}
			l := Var(rapid.SampledFrom(g.bound[typ]).Draw(t, "eqfL"))
			filters = append(filters, EqLit(l, g.boundArg(typ)))
			labels["eq-filter"] = true
		case kind == 3 && o.Neg && len(lower) > 0:
			p := rapid.SampledFrom(lower).Draw(t, "negPred")
			a := Atom{Pred: p.Name, Args: []Term{}}
			for c := 0; c < len(p.Cols); c++ {
				if rapid.IntRange(0, 99).Draw(t, "negWild") == 99 { // rare: analysis rejects a wildcard in a negated atom
					a.Args = append(a.Args, Var("_"))
					labels["neg-wildcard"] = true
				} else {
					a.Args = append(a.Args, g.boundArg(p.Cols[c]))
				}
			}
			filters = append(filters, NegLit(a))
			labels["neg"] = true
		}
	}
	// head
	r := Rule{Head: Atom{Pred: h.Name, Args: []Term{}}}
	useLet := o.Let && o.Arith && len(g.bound['n']) > 0 && rapid.IntRange(0, 3).Draw(t, "useLet") == 3
	letVar := ""
	if useLet {
		x := rapid.SampledFrom(g.bound['n']).Draw(t, "letx")
		guard(x)
		letVar = g.fresh('n')
		fn := rapid.SampledFrom([]string{"fn:plus", "fn:minus", "fn:mult"}).Draw(t, "letfn")
		r.Let = []LetStmt{{Var: letVar, Fn: Fn(fn, Var(x), Num(rapid.Int64Range(0, 3).Draw(t, "letc")))}}
		labels["let"] = true
		labels["fn"] = true
	}
	letUsed := false
	for c := 0; c < len(h.Cols); c++ {
		typ := h.Cols[c]
		if typ == 'n' && letVar != "" && (!letUsed || rapid.Bool().Draw(t, "letAgain")) {
			r.Head.Args = append(r.Head.Args, Var(letVar))
			letUsed = true
			continue
		}
		if len(g.bound[typ]) > 0 && rapid.IntRange(0, 19).Draw(t, "headConst") != 0 {
			r.Head.Args = append(r.Head.Args, Var(rapid.SampledFrom(g.bound[typ]).Draw(t, "headVar")))
		} else {
			r.Head.Args = append(r.Head.Args, Const(genValue(t, typ)))
		}
	}
	if letVar != "" && !letUsed {
		// the head has no number column: drop the transform
		r.Let = nil
	}
	// assemble: positives and definitions (in dependency order), then guards and filters;
	// negated atoms optionally anywhere.
	tail := append(append([]Lit{}, guards...), filters...)
	if negFront {
		// every negated atom goes first, in the order drawn (their variables are bound by later atoms only)
		var negs, rest []Lit
		for _, l := range tail {
			if l.K == LNeg {
				negs = append(negs, l)
			} else {
				rest = append(rest, l)
			}
		}
		if len(negs) > 0 {
			labels["neg-early"] = true
		}
		if len(negs) >= 2 {
			labels["neg-front>=2"] = true
		}
		body = append(negs, body...)
		tail = rest
	} else if o.NegAnywhere {
		var rest []Lit
		for _, l := range tail {
			if l.K == LNeg && rapid.Bool().Draw(t, "negEarly") {
				pos := rapid.IntRange(0, len(body)).Draw(t, "negPos")
				body = append(body[:pos], append([]Lit{l}, body[pos:]...)...)
				labels["neg-early"] = true
			} else {
				rest = append(rest, l)
			}
		}
		tail = rest
	}
	r.Body = append(body, tail...)
	return r
}

// GenFactless draws a program without any fact and without extensional predicates: the first rules fire
// from equalities, ground comparisons and structural built-ins over constants alone (i0(X) :- X = 2.),
// counters and ordinary rules (drawn by the main generator over these predicates) build on them. Evaluated on an
// EMPTY store such a program still has a non-empty least model.
func GenFactless(o GenOpts) *rapid.Generator[Generated] {
	return rapid.Custom(func(t *rapid.T) Generated {
		var g Generated
		labels := map[string]bool{"factless": true}
		nSrc := rapid.IntRange(1, 3).Draw(t, "nSources")
		for i := 0; i < nSrc; i++ {
			name := fmt.Sprintf("i%d", i)
			cols := "n"
			nr := rapid.IntRange(1, 2).Draw(t, "nSourceRules")
			kind := rapid.IntRange(0, 4).Draw(t, "sourceKind")
			if kind == 3 {
				cols = ""
			}
			if kind == 1 {
				cols = "nn"
			}
			for k := 0; k < nr; k++ {
				c1 := Num(rapid.SampledFrom(numDomain).Draw(t, "c1"))
				c2 := Num(rapid.SampledFrom(numDomain).Draw(t, "c2"))
				var r Rule
				switch kind {
				case 0: // i(X) :- X = c.
					r = Rule{Head: Atom{Pred: name, Args: []Term{Var("X")}}, Body: []Lit{EqLit(Var("X"), c1)}}
					if rapid.Bool().Draw(t, "flip") {
						r.Body = []Lit{EqLit(c1, Var("X"))}
					}
				case 1: // i(X, Y) :- X = c1, Y = fn:plus(X, c2).
					r = Rule{Head: Atom{Pred: name, Args: []Term{Var("X"), Var("Y")}},
						Body: []Lit{EqLit(Var("X"), c1), EqLit(Var("Y"), Fn("fn:plus", Var("X"), c2))}}
				case 2: // i(H) :- :match_cons([c1, c2], H, T).   /   i(X) :- :list:member(X, [c1, c2]).
					lst := Fn("fn:list", c1, c2)
					lst.Lst = true
					if rapid.Bool().Draw(t, "member") {
						r = Rule{Head: Atom{Pred: name, Args: []Term{Var("X")}}, Body: []Lit{PosLit(Atom{Pred: ":list:member", Args: []Term{Var("X"), lst}})}}
					} else {
						r = Rule{Head: Atom{Pred: name, Args: []Term{Var("H")}}, Body: []Lit{PosLit(Atom{Pred: ":match_cons", Args: []Term{lst, Var("H"), Var("T")}})}}
					}
					labels["builtin-pred"] = true
				case 3: // i() :- c1 < c2.  (may well be false: then the predicate is empty)
					r = Rule{Head: Atom{Pred: name, Args: []Term{}}, Body: []Lit{CmpLit(rapid.SampledFrom([]string{"<", "<=", ">", ">="}).Draw(t, "op"), c1, c2)}}
				default: // i(Y) :- Y = fn:mult(c1, c2).
					r = Rule{Head: Atom{Pred: name, Args: []Term{Var("Y")}}, Body: []Lit{EqLit(Var("Y"), Fn("fn:mult", c1, c2))}}
					labels["fn"] = true
				}
				g.Prog.Rules = append(g.Prog.Rules, r)
			}
			if cols == "n" && rapid.Bool().Draw(t, "counter") {
				// a counter on top: i(Y) :- i(X), X < 5, Y = fn:plus(X, 1).
				g.Prog.Rules = append(g.Prog.Rules, Rule{Head: Atom{Pred: name, Args: []Term{Var("Y")}},
					Body: []Lit{PosLit(Atom{Pred: name, Args: []Term{Var("X")}}), CmpLit("<", Var("X"), Num(5)), EqLit(Var("Y"), Fn("fn:plus", Var("X"), Num(1)))}})
				labels["recursive-rule"] = true
				labels["fn"] = true
			}
			g.Schema = append(g.Schema, PredInfo{Name: name, Cols: cols, Level: 0})
		}
		// ordinary rules over these predicates (levels 1 and 2), drawn by the main rule generator
		nIdb := rapid.IntRange(0, 3).Draw(t, "nConsumers")
		for i := 0; i < nIdb; i++ {
			ar := rapid.SampledFrom([]int{1, 1, 2, 0}).Draw(t, "consArity")
			cols := ""
			for c := 0; c < ar; c++ {
				cols += "n"
			}
			h := PredInfo{Name: fmt.Sprintf("i%d", nSrc+i), Cols: cols, Level: 1 + rapid.IntRange(0, 1).Draw(t, "consLevel")}
			g.Schema = append(g.Schema, h)
		}
		oo := o
		oo.Struct = false
		for _, h := range g.Schema {
			if h.Level < 1 {
				continue
			}
			nr := rapid.IntRange(1, 2).Draw(t, "nConsRules")
			for k := 0; k < nr; k++ {
				g.Prog.Rules = append(g.Prog.Rules, genRule(t, oo, g.Schema, h, k == 0, labels))
			}
		}
		for l := range labels {
			g.Labels = append(g.Labels, l)
		}
		return g
	})
}
