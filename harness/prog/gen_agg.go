package prog

import (
	"fmt"

	"pgregory.net/rapid"
	"verif/val"
)

// GenAgg draws a program with 1-3 aggregating (do-transform) rules over a generated base program.
// The aggregated head predicates s0, s1 lie above every other predicate.
func GenAgg() *rapid.Generator[Generated] {
	return rapid.Custom(func(t *rapid.T) Generated { return genAgg(t) })
}

func genAgg(t *rapid.T) Generated {
	base := GenOpts{Neg: true, Cmp: true, Neq: true, Eq: true, Arith: true, MaxIDB: 3, MaxRulesPerPred: 2}
	g := gen(t, base)
	labels := map[string]bool{}
	for _, l := range g.Labels {
		labels[l] = true
	}
	// a relation with keys of mixed kinds (number 1 vs float 1.0 vs string "1" vs name)
	if rapid.IntRange(0, 3).Draw(t, "mixed") == 0 {
		g.Schema = append(g.Schema, PredInfo{Name: "m0", Cols: "mn", Level: -1})
		g.Prog.Decls = append(g.Prog.Decls, Decl{Pred: "m0", Arity: 2})
		nf := rapid.IntRange(1, 5).Draw(t, "nMixed")
		mixed := []val.V{val.I(1), val.F(1.0), val.S("1"), val.N("/a"), val.S("/a"), val.I(2), val.F(2.5), val.F(2.0)}
		for i := 0; i < nf; i++ {
			a := Atom{Pred: "m0", Args: []Term{Const(rapid.SampledFrom(mixed).Draw(t, "mv")), Const(genValue(t, 'n'))}}
			g.Extra = append(g.Extra, a)
		}
		labels["mixed-keys"] = true
	}
	// a large relation with few keys: groups of 65..200 solutions (reducers that work in blocks, sort, or switch
	// algorithm with the size are exercised beyond their first block)
	aggSchema := g.Schema
	if rapid.IntRange(0, 9).Draw(t, "bigGroup") == 0 {
		g.Schema = append(g.Schema, PredInfo{Name: "b0", Cols: "nn", Level: -1})
		g.Prog.Decls = append(g.Prog.Decls, Decl{Pred: "b0", Arity: 2})
		n := rapid.IntRange(66, 200).Draw(t, "nBig")
		keys := rapid.IntRange(1, 2).Draw(t, "bigKeys")
		for i := 0; i < n; i++ {
			g.Extra = append(g.Extra, Atom{Pred: "b0", Args: []Term{Num(int64(i % keys)), Num(int64(i))}})
		}
		big := g.Schema[len(g.Schema)-1]
		aggSchema = append(append([]PredInfo{}, g.Schema...), big, big, big, big)
		labels["big-group"] = true
	} else {
		aggSchema = g.Schema
	}
	nHeads := rapid.IntRange(1, 2).Draw(t, "nAggHeads")
	for h := 0; h < nHeads; h++ {
		name := fmt.Sprintf("s%d", h)
		nKeys := rapid.IntRange(0, 2).Draw(t, "nKeys")
		nRed := rapid.IntRange(1, 2).Draw(t, "nRed")
		nRules := rapid.SampledFrom([]int{1, 1, 2, 2, 3}).Draw(t, "nAggRules")
		if nRules > 1 {
			labels["same-head-multi"] = true
		}
		for k := 0; k < nRules; k++ {
			r, ok := genAggRule(t, aggSchema, name, nKeys, nRed, labels)
			if ok {
				g.Prog.Rules = append(g.Prog.Rules, r)
			}
		}
		// plain rules and facts for the same head
		if rapid.IntRange(0, 3).Draw(t, "plainToo") == 0 {
			a := Atom{Pred: name, Args: []Term{}}
			for i := 0; i < nKeys+nRed; i++ {
				a.Args = append(a.Args, Const(genValue(t, 'n')))
			}
			g.Prog.Facts = append(g.Prog.Facts, a)
			labels["plain-fact-same-head"] = true
		}
		if rapid.IntRange(0, 3).Draw(t, "plainRule") == 0 {
			var cands []PredInfo
			for _, p := range g.Schema {
				if len(p.Cols) > 0 {
					cands = append(cands, p)
				}
			}
			if len(cands) > 0 {
				p := rapid.SampledFrom(cands).Draw(t, "plainPred")
				body := Atom{Pred: p.Name, Args: []Term{}}
				var vars []string
				for i := range p.Cols {
					v := fmt.Sprintf("V%d", i)
					body.Args = append(body.Args, Var(v))
					vars = append(vars, v)
				}
				head := Atom{Pred: name, Args: []Term{}}
				for i := 0; i < nKeys+nRed; i++ {
					if rapid.Bool().Draw(t, "plainHeadVar") {
						head.Args = append(head.Args, Var(rapid.SampledFrom(vars).Draw(t, "phv")))
					} else {
						head.Args = append(head.Args, Const(genValue(t, 'n')))
					}
				}
				g.Prog.Rules = append(g.Prog.Rules, Rule{Head: head, Body: []Lit{PosLit(body)}})
				labels["plain-rule-same-head"] = true
			}
		}
	}
	// An aggregated predicate that is also derived by ordinary rules of the same stratum: the facts the
	// do-transform produces must feed those rules (recursively on the same predicate, or through a
	// consumer that is mutually recursive with it).
	if rapid.IntRange(0, 3).Draw(t, "aggRecursive") == 0 {
		var cands []PredInfo
		for _, p := range g.Schema {
			if len(p.Cols) > 0 {
				cands = append(cands, p)
			}
		}
		if len(cands) > 0 {
			p := rapid.SampledFrom(cands).Draw(t, "arPred")
			body := Atom{Pred: p.Name, Args: []Term{}}
			for i := range p.Cols {
				body.Args = append(body.Args, Var(fmt.Sprintf("V%d", i)))
			}
			red := rapid.SampledFrom([]string{"fn:count", "fn:count", "fn:max", "fn:min", "fn:sum"}).Draw(t, "arRed")
			fn := Fn(red)
			if red != "fn:count" {
				var nums []string
				for i := range p.Cols {
					if p.Cols[i] == 'n' {
						nums = append(nums, fmt.Sprintf("V%d", i))
					}
				}
				if len(nums) == 0 {
					fn = Fn("fn:count")
				} else {
					fn = Fn(red, Var(rapid.SampledFrom(nums).Draw(t, "arCol")))
				}
			}
			g.Prog.Rules = append(g.Prog.Rules, Rule{Head: Atom{Pred: "sr0", Args: []Term{Var("R")}}, Body: []Lit{PosLit(body)},
				Do: &Do{Lets: []LetStmt{{Var: "R", Fn: fn}}}})
			step := func(head, from string) Rule {
				return Rule{Head: Atom{Pred: head, Args: []Term{Var("Y")}}, Body: []Lit{PosLit(Atom{Pred: from, Args: []Term{Var("X")}}),
					CmpLit("<", Var("X"), Num(8)), CmpLit(">", Var("X"), Num(-3)), EqLit(Var("Y"), Fn("fn:plus", Var("X"), Num(1)))}}
			}
			switch rapid.IntRange(0, 2).Draw(t, "arShape") {
			case 0: // recursion on the aggregated predicate itself
				g.Prog.Rules = append(g.Prog.Rules, step("sr0", "sr0"))
			case 1: // consumer in the same recursive component
				g.Prog.Rules = append(g.Prog.Rules, step("tr0", "sr0"), step("sr0", "tr0"))
			default: // consumer in the same component, recursion bounded by the filter only
				g.Prog.Rules = append(g.Prog.Rules, step("tr0", "sr0"), Rule{Head: Atom{Pred: "sr0", Args: []Term{Var("X")}},
					Body: []Lit{PosLit(Atom{Pred: "tr0", Args: []Term{Var("X")}}), CmpLit("<", Var("X"), Num(6))}})
			}
			labels["agg-feeds-same-stratum"] = true
		}
	}
	// A fifth of the programs without an average: every number of the base facts is moved up by 2^53, where
	// neighbouring integers are no longer distinct as float64 (min, max, sum, count and the group keys are exact
	// integer operations; an average of such numbers is not asked for - its float result depends on the order).
	usesAvg := false
	for _, r := range g.Prog.Rules {
		if r.Do != nil {
			for _, l := range r.Do.Lets {
				usesAvg = usesAvg || l.Fn.Fn == "fn:avg"
			}
		}
	}
	if !usesAvg && rapid.IntRange(0, 4).Draw(t, "beyond2p53") == 0 {
		lift := func(as []Atom) {
			for _, a := range as {
				for i, arg := range a.Args {
					if arg.C != nil && arg.C.T == val.Num {
						a.Args[i] = Const(val.I(arg.C.Int() + 1<<53))
					}
				}
			}
		}
		lift(g.Prog.Facts)
		lift(g.Extra)
		labels["numbers-beyond-2^53"] = true
	}
	g.Labels = g.Labels[:0]
	for l := range labels {
		g.Labels = append(g.Labels, l)
	}
	return g
}

func genAggRule(t *rapid.T, schema []PredInfo, head string, nKeys, nRed int, labels map[string]bool) (Rule, bool) {
	g := &ruleGen{t: t, bound: map[byte][]string{}, labels: labels}
	var body []Lit
	if nKeys == 0 && rapid.IntRange(0, 7).Draw(t, "groundBody") == 0 {
		// A body without any variable: ground atoms, negated ground atoms, ground comparisons. It has exactly one
		// solution (the empty assignment) when every literal holds and none otherwise.
		n := rapid.IntRange(1, 3).Draw(t, "nGround")
		for i := 0; i < n; i++ {
			p := rapid.SampledFrom(schema).Draw(t, "groundPred")
			a := Atom{Pred: p.Name, Args: []Term{}}
			for c := 0; c < len(p.Cols); c++ {
				typ := p.Cols[c]
				if typ == 'm' {
					typ = 'n'
				}
				a.Args = append(a.Args, Const(genValue(t, typ)))
			}
			switch k := rapid.IntRange(0, 9).Draw(t, "groundKind"); {
			case k < 6 || i == 0:
				body = append(body, PosLit(a))
			case k < 9:
				body = append(body, NegLit(a))
			default:
				body = append(body, CmpLit("<", Num(rapid.Int64Range(0, 2).Draw(t, "gc1")), Num(rapid.Int64Range(0, 2).Draw(t, "gc2"))))
			}
		}
		labels["ground-agg-body"] = true
		do := &Do{}
		h := Atom{Pred: head, Args: []Term{}}
		for i := 0; i < nRed; i++ {
			rv := fmt.Sprintf("R%d", i)
			do.Lets = append(do.Lets, LetStmt{Var: rv, Fn: Fn("fn:count")})
			h.Args = append(h.Args, Var(rv))
		}
		return Rule{Head: h, Body: body, Do: do}, true
	}
	nPos := rapid.SampledFrom([]int{1, 1, 1, 1, 2, 2, 3}).Draw(t, "aggPos")
	// Wildcards in an aggregated body: the library counts a single-atom body per fact and a multi-literal body per
	// assignment of the named variables (the property does not say which is meant), so such a body is only reduced
	// by min, max and distinct-collect, which give the same result either way. The first column stays named.
	wildBody := rapid.IntRange(0, 5).Draw(t, "aggWildBody") == 0
	usedBig := false
	for i := 0; i < nPos; i++ {
		p := rapid.SampledFrom(schema).Draw(t, "aggPred")
		if p.Name == "b0" {
			if usedBig {
				// the large relation at most once per body (a self-join of 200 rows three times is 8 million solutions)
				var small []PredInfo
				for _, q := range schema {
					if q.Name != "b0" {
						small = append(small, q)
					}
				}
				p = rapid.SampledFrom(small).Draw(t, "aggPredSmall")
			} else {
				usedBig = true
			}
		}
		if p.Level >= 0 {
			labels["over-idb"] = true
		}
		a := Atom{Pred: p.Name, Args: []Term{}}
		var pending [][2]string
		for c := 0; c < len(p.Cols); c++ {
			// no wildcards inside aggregated bodies (their meaning is ambiguous, see DESIGN C02)
			var arg Term
			typ := p.Cols[c]
			r := rapid.IntRange(0, 99).Draw(t, "aggArg")
			switch {
			case wildBody && c == 0 && typ != 'm':
				v := g.fresh(typ)
				pending = append(pending, [2]string{string(typ), v})
				arg = Var(v)
			case wildBody && c > 0 && r < 45:
				arg = Var("_")
				labels["wildcard-in-agg-body"] = true
			case r < 25 && len(g.bound[typ]) > 0:
				arg = Var(rapid.SampledFrom(g.bound[typ]).Draw(t, "aggReuse"))
			case r < 32 && len(pending) > 0 && pending[len(pending)-1][0] == string(typ):
				// repeated variable inside one atom
				arg = Var(pending[len(pending)-1][1])
				labels["repeated-var-in-atom"] = true
			case r < 94 || typ == 'm':
				v := g.fresh(typ)
				pending = append(pending, [2]string{string(typ), v})
				arg = Var(v)
			default:
				arg = Const(genValue(t, typ))
				labels["const-in-agg-atom"] = true
			}
			a.Args = append(a.Args, arg)
		}
		for _, pv := range pending {
			g.bind(pv[0][0], pv[1])
		}
		body = append(body, PosLit(a))
	}
	if nPos > 1 {
		labels["multi-atom"] = true
	} else {
		labels["single-atom"] = true
	}
	// optional filters (these force the split into an internal predicate even for one atom)
	if rapid.IntRange(0, 3).Draw(t, "aggFilter") == 0 && len(g.bound['n']) > 0 {
		x := rapid.SampledFrom(g.bound['n']).Draw(t, "afx")
		switch rapid.IntRange(0, 2).Draw(t, "afk") {
		case 0:
			body = append(body, CmpLit(rapid.SampledFrom([]string{"<", "<=", ">", ">="}).Draw(t, "afop"), Var(x), Num(rapid.SampledFrom(numDomain).Draw(t, "afc"))))
		case 1:
			body = append(body, NeqLit(Var(x), Num(rapid.SampledFrom(numDomain).Draw(t, "afc2"))))
		default:
			z := g.fresh('n')
			if rapid.Bool().Draw(t, "afFlip") {
				body = append(body, EqLit(Fn("fn:plus", Var(x), Num(1)), Var(z)))
			} else {
				body = append(body, EqLit(Var(z), Fn("fn:plus", Var(x), Num(1))))
			}
			g.bind('n', z)
			labels["agg-eq-def"] = true
		}
		labels["agg-filter"] = true
	}
	// variables bound only by the output positions of a structural built-in predicate
	if rapid.IntRange(0, 4).Draw(t, "aggStruct") == 0 && len(g.bound['n']) > 0 {
		x := rapid.SampledFrom(g.bound['n']).Draw(t, "asx")
		y := rapid.SampledFrom(g.bound['n']).Draw(t, "asy")
		switch rapid.IntRange(0, 2).Draw(t, "asKind") {
		case 0:
			l, z := g.fresh('l'), g.fresh('n')
			body = append(body, EqLit(Var(l), Fn("fn:list", Var(x), Var(y))), PosLit(Atom{Pred: ":list:member", Args: []Term{Var(z), Var(l)}}))
			g.bind('n', z)
		case 1:
			l, hd, tl := g.fresh('l'), g.fresh('n'), g.fresh('l')
			body = append(body, EqLit(Var(l), Fn("fn:list", Var(x), Var(y))), PosLit(Atom{Pred: ":match_cons", Args: []Term{Var(l), Var(hd), Var(tl)}}))
			g.bind('n', hd)
			g.bind('l', tl)
		default:
			pr, a, b := g.fresh('p'), g.fresh('n'), g.fresh('n')
			body = append(body, EqLit(Var(pr), Fn("fn:pair", Var(x), Var(y))), PosLit(Atom{Pred: ":match_pair", Args: []Term{Var(pr), Var(a), Var(b)}}))
			g.bind('n', a)
			g.bind('n', b)
		}
		labels["agg-builtin-bound-var"] = true
	}
	// keys: distinct bound variables of any type
	var all []string
	for _, typ := range []byte("namnpl") {
		for _, v := range g.bound[typ] {
			dup := false
			for _, x := range all {
				if x == v {
					dup = true
				}
			}
			if !dup {
				all = append(all, v)
			}
		}
	}
	if len(all) < nKeys {
		return Rule{}, false
	}
	perm := rapid.Permutation(all).Draw(t, "keyPerm")
	keys := perm[:nKeys]
	do := &Do{Keys: append([]string{}, keys...)}
	var redVars []string
	for i := 0; i < nRed; i++ {
		rv := fmt.Sprintf("R%d", i)
		redVars = append(redVars, rv)
		var fn Term
		choice := rapid.IntRange(0, 6).Draw(t, "reducer")
		if len(g.bound['n']) == 0 && choice >= 1 && choice <= 4 {
			choice = 0
		}
		if wildBody {
			switch {
			case len(g.bound['n']) > 0:
				choice = rapid.SampledFrom([]int{2, 3, 5}).Draw(t, "wildReducer")
			case len(all) > 0:
				choice = 5
			default:
				return Rule{}, false
			}
		}
		if len(all) == 0 {
			choice = 0
		}
		switch choice {
		case 0:
			fn = Fn("fn:count")
		case 1:
			fn = Fn("fn:sum", Var(rapid.SampledFrom(g.bound['n']).Draw(t, "rv")))
		case 2:
			fn = Fn("fn:min", Var(rapid.SampledFrom(g.bound['n']).Draw(t, "rv")))
		case 3:
			fn = Fn("fn:max", Var(rapid.SampledFrom(g.bound['n']).Draw(t, "rv")))
		case 4:
			fn = Fn("fn:avg", Var(rapid.SampledFrom(g.bound['n']).Draw(t, "rv")))
		default:
			fn = Fn("fn:collect_distinct", Var(rapid.SampledFrom(all).Draw(t, "cv")))
			labels["collect_distinct"] = true
		}
		do.Lets = append(do.Lets, LetStmt{Var: rv, Fn: fn})
	}
	h := Atom{Pred: head, Args: []Term{}}
	for _, k := range keys {
		h.Args = append(h.Args, Var(k))
	}
	for _, rv := range redVars {
		h.Args = append(h.Args, Var(rv))
	}
	if rapid.Bool().Draw(t, "permHead") && len(h.Args) > 1 {
		h.Args = rapid.Permutation(h.Args).Draw(t, "headPerm")
	}
	return Rule{Head: h, Body: body, Do: do}, true
}
