package prog

import (
	"fmt"
	"sort"
	"strings"

	"codeberg.org/TauCeti/mangle-go/analysis"
	"codeberg.org/TauCeti/mangle-go/ast"
	"codeberg.org/TauCeti/mangle-go/engine"
	"codeberg.org/TauCeti/mangle-go/factstore"
	"codeberg.org/TauCeti/mangle-go/parse"
	"verif/val"
)

// Store kinds the engine can write to.
var StoreKinds = []string{"simple", "indexed", "multiindexed", "multiindexedarray", "concurrent-simple", "concurrent-array", "teeing", "merged", "teeing-base", "merged-late", "merged-pre"}

// NewStore creates a fact store of the given kind.
func NewStore(kind string) factstore.FactStore {
	switch kind {
	case "simple":
		return factstore.NewSimpleInMemoryStore()
	case "indexed":
		return factstore.NewIndexedInMemoryStore()
	case "multiindexed":
		return factstore.NewMultiIndexedInMemoryStore()
	case "multiindexedarray":
		return factstore.NewMultiIndexedArrayInMemoryStore()
	case "concurrent-simple":
		return factstore.NewConcurrentFactStore(factstore.NewSimpleInMemoryStore())
	case "concurrent-array":
		return factstore.NewConcurrentFactStore(factstore.NewMultiIndexedArrayInMemoryStore())
	case "teeing":
		return factstore.NewTeeingStore(factstore.NewSimpleInMemoryStore())
	case "merged":
		return factstore.NewMergedStore([]factstore.ReadOnlyFactStore{factstore.NewSimpleInMemoryStore()}, factstore.NewMultiIndexedArrayInMemoryStore())
	case "teeing-base", "merged-late", "merged-pre":
		return NewLoadedStore(kind, nil)
	}
	panic("unknown store kind " + kind)
}

// NewLoadedStore creates a store of the given kind that holds the given base facts. For the plain kinds they are
// added through Add. The layered kinds put them where an application would: "teeing-base" into the base store
// of a TeeingStore, "merged-pre" into the read layer of a MergedStore before the view is constructed,
// "merged-late" into the read layer after the view was constructed over the still empty layer.
func NewLoadedStore(kind string, atoms []ast.Atom) factstore.FactStore {
	load := func(s factstore.FactStore) {
		for _, a := range atoms {
			s.Add(a)
		}
	}
	switch kind {
	case "teeing-base":
		base := factstore.NewSimpleInMemoryStore()
		load(base)
		return factstore.NewTeeingStore(base)
	case "merged-pre":
		read := factstore.NewIndexedInMemoryStore()
		load(read)
		return factstore.NewMergedStore([]factstore.ReadOnlyFactStore{read}, factstore.NewMultiIndexedArrayInMemoryStore())
	case "merged-late":
		read := factstore.NewSimpleInMemoryStore()
		m := factstore.NewMergedStore([]factstore.ReadOnlyFactStore{read}, factstore.NewMultiIndexedArrayInMemoryStore())
		load(read)
		return m
	}
	s := NewStore(kind)
	load(s)
	return s
}

// HashKeyed tells whether the store kind keys atoms by Atom.Hash() without an equality check (K08).
func HashKeyed(kind string) bool {
	return kind != "multiindexedarray" && kind != "concurrent-array"
}

// Outcome of running the real pipeline.
type Outcome struct {
	ParseErr    error
	AnalysisErr error
	EvalErr     error
	Panic       string // non-empty: the stage named in PanicStage panicked
	PanicStage  string
	Info        *analysis.ProgramInfo
	Facts       map[string]ast.Atom // canonical key -> atom, internal predicates excluded
	Overrun     *Overrun            // the bounded store aborted the evaluation (RunBounded)
	Store       factstore.FactStore // the (unwrapped) store the evaluation wrote to
	NonGround   []string
}

// Analyze parses and analyses text; panics are caught and reported in the outcome.
func Analyze(text string, out *Outcome, check func(parse.SourceUnit) (*analysis.ProgramInfo, error)) {
	func() {
		defer func() {
			if r := recover(); r != nil {
				out.Panic, out.PanicStage = fmt.Sprint(r), "parse"
			}
		}()
		unit, err := parse.Unit(strings.NewReader(text))
		if err != nil {
			out.ParseErr = err
			return
		}
		func() {
			defer func() {
				if r := recover(); r != nil {
					out.Panic, out.PanicStage = fmt.Sprint(r), "analysis"
				}
			}()
			if check == nil {
				out.Info, out.AnalysisErr = analysis.AnalyzeOneUnit(unit, nil)
			} else {
				out.Info, out.AnalysisErr = check(unit)
			}
		}()
	}()
}

// ReadStore reads every fact of the store back (through GetFacts on each listed predicate), keyed canonically.
// Internal predicates (…__tmp) are dropped.
func ReadStore(store factstore.ReadOnlyFactStore, out *Outcome) {
	out.Facts = map[string]ast.Atom{}
	preds := store.ListPredicates()
	sort.Slice(preds, func(i, j int) bool {
		if preds[i].Symbol != preds[j].Symbol {
			return preds[i].Symbol < preds[j].Symbol
		}
		return preds[i].Arity < preds[j].Arity
	})
	seen := map[ast.PredicateSym]bool{}
	for _, p := range preds {
		if seen[p] || p.IsInternalPredicate() {
			continue
		}
		seen[p] = true
		store.GetFacts(ast.NewQuery(p), func(a ast.Atom) error {
			if !a.IsGround() {
				out.NonGround = append(out.NonGround, a.String())
			}
			out.Facts[val.AtomKey(a)] = a
			return nil
		})
	}
}

// Overrun is the private panic value of a bounded store: more distinct non-internal facts were added than
// the bound allows. With bound = size of the (finite, complete) reference model this is an unsoundness
// verdict that needs no wall clock: a set-like store can only accept that many facts of the model.
type Overrun struct{ Created, Bound int }

type boundedStore struct {
	factstore.FactStore
	created *int
	bound   int
	// locking: the wrapped store runs GetFacts callbacks under its read lock (ConcurrentFactStore); a write
	// from inside such a callback would block for ever and is reported (panic(Reentrant)) instead.
	locking bool
	depth   *int
}

// Reentrant is the private panic value for a write to a locking store from inside its own GetFacts callback.
type Reentrant struct{ Op string }

func (b boundedStore) GetFacts(a ast.Atom, fn func(ast.Atom) error) error {
	return b.FactStore.GetFacts(a, func(x ast.Atom) error {
		*b.depth++
		defer func() { *b.depth-- }()
		return fn(x)
	})
}

func (b boundedStore) Add(a ast.Atom) bool {
	if b.locking && *b.depth > 0 {
		panic(Reentrant{"Add"})
	}
	ok := b.FactStore.Add(a)
	if ok && !a.Predicate.IsInternalPredicate() {
		*b.created++
		if *b.created > b.bound {
			panic(Overrun{*b.created, b.bound})
		}
	}
	return ok
}

func (b boundedStore) Merge(s factstore.ReadOnlyFactStore) {
	for _, p := range s.ListPredicates() {
		s.GetFacts(ast.NewQuery(p), func(a ast.Atom) error {
			b.Add(a)
			return nil
		})
	}
}

// Bounded wraps store so that the evaluation is aborted (panic(Overrun)) once more than bound distinct facts of
// non-internal predicates were added successfully.
func Bounded(store factstore.FactStore, bound int) factstore.FactStore {
	n, d := 0, 0
	_, locking := store.(factstore.ConcurrentFactStore)
	return boundedStore{FactStore: store, created: &n, bound: bound, locking: locking, depth: &d}
}

// Run executes parse -> analysis -> EvalProgram on a store of the given kind, pre-loaded with extra.
func Run(text string, extra []Fact, storeKind string, opts ...engine.EvalOption) (out Outcome) {
	return RunBounded(text, extra, storeKind, -1, opts...)
}

// RunBounded is Run with a bound on the number of distinct non-internal facts the evaluation may add
// (bound < 0: unbounded). Exceeding it aborts the evaluation and sets out.Overrun.
func RunBounded(text string, extra []Fact, storeKind string, bound int, opts ...engine.EvalOption) (out Outcome) {
	Analyze(text, &out, nil)
	if out.ParseErr != nil || out.AnalysisErr != nil || out.Panic != "" {
		return
	}
	atoms := make([]ast.Atom, len(extra))
	for i, f := range extra {
		atoms[i] = f.ToAtom()
	}
	inner := NewLoadedStore(storeKind, atoms)
	store := inner
	if bound >= 0 {
		store = Bounded(inner, bound)
	}
	func() {
		defer func() {
			if r := recover(); r != nil {
				if o, ok := r.(Overrun); ok {
					out.Overrun = &o
					return
				}
				if re, ok := r.(Reentrant); ok {
					out.Panic, out.PanicStage = "the engine calls "+re.Op+" on a ConcurrentFactStore from inside the store's own GetFacts callback: self-deadlock (stopped by the harness)", "eval"
					return
				}
				out.Panic, out.PanicStage = fmt.Sprint(r), "eval"
			}
		}()
		out.EvalErr = engine.EvalProgram(out.Info, store, opts...)
	}()
	store = inner
	out.Store = inner
	if out.Panic == "" {
		ReadStore(store, &out)
	}
	return
}

// Diff compares the engine's facts with the reference model; missing = in the model but not stored
// (incompleteness), extra = stored but not in the model (unsoundness). internalOK filters predicates to ignore.
func Diff(ref Model, got map[string]ast.Atom) (missing, extra []string) {
	for k := range ref {
		if _, ok := got[k]; !ok {
			missing = append(missing, k)
		}
	}
	for k := range got {
		if _, ok := ref[k]; !ok {
			extra = append(extra, k)
		}
	}
	sort.Strings(missing)
	sort.Strings(extra)
	return
}

// DiffListsAsSets is Diff where list-valued arguments of the predicates selected by asSet are read as sets
// (fn:collect_distinct promises a set, not an element order).
func DiffListsAsSets(ref Model, got map[string]ast.Atom, asSet func(pred string) bool) (missing, extra []string) {
	norm := func(pred string, args []ast.Constant) string {
		out := make([]ast.Constant, len(args))
		for i, a := range args {
			out[i] = a
			if asSet(pred) && a.Type == ast.ListShape {
				var elems []ast.Constant
				a.ListValues(func(e ast.Constant) error { elems = append(elems, e); return nil }, func() error { return nil })
				sort.Slice(elems, func(x, y int) bool { return val.KeyOf(elems[x]) < val.KeyOf(elems[y]) })
				out[i] = ast.List(elems)
			}
		}
		return Fact{Pred: pred, Args: out}.Key()
	}
	want := map[string]bool{}
	for _, f := range ref {
		want[norm(f.Pred, f.Args)] = true
	}
	have := map[string]bool{}
	for k, a := range got {
		args := make([]ast.Constant, len(a.Args))
		ok := true
		for i, x := range a.Args {
			c, isConst := x.(ast.Constant)
			if !isConst {
				ok = false
				break
			}
			args[i] = c
		}
		if !ok {
			have[k] = true
			continue
		}
		have[norm(a.Predicate.Symbol, args)] = true
	}
	for k := range want {
		if !have[k] {
			missing = append(missing, k)
		}
	}
	for k := range have {
		if !want[k] {
			extra = append(extra, k)
		}
	}
	sort.Strings(missing)
	sort.Strings(extra)
	return
}

// RunAgain evaluates the analysed program of a finished run once more on the same store, after adding the
// late facts to it: what the store holds at that moment (base facts, facts derived by the first evaluation,
// late facts) is the base of the second evaluation. The bound is as for RunBounded.
func RunAgain(first *Outcome, store factstore.FactStore, late []Fact, bound int, opts ...engine.EvalOption) (out Outcome) {
	out.Info = first.Info
	for _, f := range late {
		store.Add(f.ToAtom())
	}
	target := store
	if bound >= 0 {
		target = Bounded(store, bound)
	}
	func() {
		defer func() {
			if r := recover(); r != nil {
				if o, ok := r.(Overrun); ok {
					out.Overrun = &o
					return
				}
				out.Panic, out.PanicStage = fmt.Sprint(r), "eval"
			}
		}()
		out.EvalErr = engine.EvalProgram(out.Info, target, opts...)
	}()
	if out.Panic == "" {
		ReadStore(store, &out)
	}
	return
}
