package prog

// Minimize greedily removes rules, facts, literals and transforms from g while fails keeps
// reporting a failure. It complements rapid's shrinking (which works on the draw sequence).
func Minimize(g Generated, fails0 func(Generated) bool) Generated {
	// A candidate whose reference model is not finite within the caps (an arithmetic guard was removed) is
	// never accepted and never handed to the real engine, which would not return on it.
	fails := func(c Generated) bool {
		base := Eval(Program{Facts: c.Extra}, nil, Options{})
		var extra []Fact
		for _, k := range base.Model.Keys() {
			extra = append(extra, base.Model[k])
		}
		if r := Eval(c.Prog, extra, Options{MaxFacts: 3000, MaxSteps: 600000}); r.Capped {
			return false
		}
		return fails0(c)
	}
	clone := func(g Generated) Generated {
		n := g
		n.Prog.Decls = append([]Decl{}, g.Prog.Decls...)
		n.Prog.Facts = append([]Atom{}, g.Prog.Facts...)
		n.Prog.Rules = make([]Rule, len(g.Prog.Rules))
		for i, r := range g.Prog.Rules {
			nr := r
			nr.Body = append([]Lit{}, r.Body...)
			nr.Let = append([]LetStmt{}, r.Let...)
			n.Prog.Rules[i] = nr
		}
		n.Extra = append([]Atom{}, g.Extra...)
		return n
	}
	for changed := true; changed; {
		changed = false
		for i := len(g.Prog.Rules) - 1; i >= 0; i-- {
			c := clone(g)
			c.Prog.Rules = append(c.Prog.Rules[:i], c.Prog.Rules[i+1:]...)
			if fails(c) {
				g, changed = c, true
			}
		}
		for i := len(g.Prog.Facts) - 1; i >= 0; i-- {
			c := clone(g)
			c.Prog.Facts = append(c.Prog.Facts[:i], c.Prog.Facts[i+1:]...)
			if fails(c) {
				g, changed = c, true
			}
		}
		for i := len(g.Extra) - 1; i >= 0; i-- {
			c := clone(g)
			c.Extra = append(c.Extra[:i], c.Extra[i+1:]...)
			if fails(c) {
				g, changed = c, true
			}
		}
		for ri := range g.Prog.Rules {
			for li := len(g.Prog.Rules[ri].Body) - 1; li >= 0; li-- {
				if len(g.Prog.Rules[ri].Body) <= 1 {
					break
				}
				c := clone(g)
				b := c.Prog.Rules[ri].Body
				c.Prog.Rules[ri].Body = append(b[:li:li], b[li+1:]...)
				if fails(c) {
					g, changed = c, true
				}
			}
		}
	}
	return g
}
