// Package prog holds the harness' own representation of Mangle programs (serialisable = replay format),
// an own printer to source text (independent of Clause.String()), a grammar-directed generator of safe,
// stratifiable, type-consistent programs, an intentionally naive reference evaluator (eval.go) and helpers
// that run the real engine and read its stores back as canonical key sets (run.go).
package prog

import (
	"fmt"
	"sort"
	"strings"

	"codeberg.org/TauCeti/mangle-go/ast"
	"verif/val"
)

// Term is a base term: variable, constant or function application.
type Term struct {
	Var  string `json:"var,omitempty"` // "_" is the wildcard
	C    *val.V `json:"c,omitempty"`
	Fn   string `json:"fn,omitempty"`
	Args []Term `json:"args,omitempty"`
	Lst  bool   `json:"lst,omitempty"` // print a fn:list application with the bracket syntax [a, b]
}

func Var(name string) Term              { return Term{Var: name} }
func Const(v val.V) Term                { return Term{C: &v} }
func Num(i int64) Term                  { return Const(val.I(i)) }
func Fn(name string, args ...Term) Term { return Term{Fn: name, Args: args} }
func (t Term) IsVar() bool              { return t.Var != "" }
func (t Term) IsWildcard() bool         { return t.Var == "_" }
func (t Term) IsConst() bool            { return t.C != nil }
func (t Term) IsFn() bool               { return t.Fn != "" }

// Vars adds the named variables of t to m.
func (t Term) Vars(m map[string]bool) {
	if t.IsVar() && !t.IsWildcard() {
		m[t.Var] = true
	}
	for _, a := range t.Args {
		a.Vars(m)
	}
}

// Atom is a predicate applied to terms.
type Atom struct {
	Pred string `json:"pred"`
	Args []Term `json:"args"`
}

func (a Atom) Vars(m map[string]bool) {
	for _, t := range a.Args {
		t.Vars(m)
	}
}

// Literal kinds.
const (
	LAtom = "atom" // positive atom, possibly of a built-in predicate (:match_pair, ...)
	LNeg  = "neg"  // negated atom
	LEq   = "eq"   // L = R
	LNeq  = "neq"  // L != R
	LCmp  = "cmp"  // L op R with op in < <= > >=
)

// Lit is a body literal.
type Lit struct {
	K    string `json:"k"`
	Atom *Atom  `json:"atom,omitempty"`
	Op   string `json:"op,omitempty"`
	L    *Term  `json:"l,omitempty"`
	R    *Term  `json:"r,omitempty"`
}

func PosLit(a Atom) Lit               { return Lit{K: LAtom, Atom: &a} }
func NegLit(a Atom) Lit               { return Lit{K: LNeg, Atom: &a} }
func EqLit(l, r Term) Lit             { return Lit{K: LEq, L: &l, R: &r} }
func NeqLit(l, r Term) Lit            { return Lit{K: LNeq, L: &l, R: &r} }
func CmpLit(op string, l, r Term) Lit { return Lit{K: LCmp, Op: op, L: &l, R: &r} }

func (l Lit) Vars(m map[string]bool) {
	if l.Atom != nil {
		l.Atom.Vars(m)
	}
	if l.L != nil {
		l.L.Vars(m)
	}
	if l.R != nil {
		l.R.Vars(m)
	}
}

// IsBuiltinAtom tells whether the literal is an atom of a built-in predicate.
func (l Lit) IsBuiltinAtom() bool {
	return (l.K == LAtom || l.K == LNeg) && strings.HasPrefix(l.Atom.Pred, ":")
}

// LetStmt is "let Var = Fn".
type LetStmt struct {
	Var string `json:"var"`
	Fn  Term   `json:"fn"`
}

// Do is a do-transform: group_by(Keys...) followed by let-statements with reducers.
type Do struct {
	Keys []string  `json:"keys"`
	Lets []LetStmt `json:"lets"`
}

// Rule is a clause with a body.
type Rule struct {
	Head Atom      `json:"head"`
	Body []Lit     `json:"body"`
	Let  []LetStmt `json:"let,omitempty"`
	Do   *Do       `json:"do,omitempty"`
}

// Decl declares a predicate (arity only, or with bound rows given as source text).
type Decl struct {
	Pred   string     `json:"pred"`
	Arity  int        `json:"arity"`
	Bounds [][]string `json:"bounds,omitempty"` // each row: one type expression (source text) per argument
	// Modes: mode declarations, each a list of "+", "-" or "?" per argument (descr [mode(..), ..]).
	Modes [][]string `json:"modes,omitempty"`
}

// Program is a source unit: declarations, facts (ground atoms) and rules.
type Program struct {
	Package string `json:"package,omitempty"`
	Decls   []Decl `json:"decls,omitempty"`
	Facts   []Atom `json:"facts,omitempty"`
	Rules   []Rule `json:"rules,omitempty"`
	// FactsAfter: that many of the last facts are printed after the rules instead of before them.
	FactsAfter int `json:"factsAfter,omitempty"`
}

// ---------------------------------------------------------------------------------------------
// Printer (own; independent of Clause.String()).

func (t Term) Source() string {
	var sb strings.Builder
	t.source(&sb)
	return sb.String()
}

func (t Term) source(sb *strings.Builder) {
	switch {
	case t.IsVar():
		sb.WriteString(t.Var)
	case t.IsConst():
		sb.WriteString(t.C.Source())
	case t.IsFn():
		if t.Lst && t.Fn == "fn:list" {
			sb.WriteString("[ ")
			for i, a := range t.Args {
				if i > 0 {
					sb.WriteString(", ")
				}
				a.source(sb)
			}
			sb.WriteString("]")
			return
		}
		sb.WriteString(t.Fn)
		sb.WriteString("(")
		for i, a := range t.Args {
			if i > 0 {
				sb.WriteString(", ")
			}
			a.source(sb)
		}
		sb.WriteString(")")
	default:
		sb.WriteString("<?>")
	}
}

func (a Atom) Source() string {
	var sb strings.Builder
	sb.WriteString(a.Pred)
	sb.WriteString("(")
	for i, t := range a.Args {
		if i > 0 {
			sb.WriteString(", ")
		}
		t.source(&sb)
	}
	sb.WriteString(")")
	return sb.String()
}

func (l Lit) Source() string {
	switch l.K {
	case LAtom:
		return l.Atom.Source()
	case LNeg:
		return "!" + l.Atom.Source()
	case LEq:
		return l.L.Source() + " = " + l.R.Source()
	case LNeq:
		return l.L.Source() + " != " + l.R.Source()
	case LCmp:
		return l.L.Source() + " " + l.Op + " " + l.R.Source()
	}
	return "<?>"
}

func (r Rule) Source() string {
	var sb strings.Builder
	sb.WriteString(r.Head.Source())
	sb.WriteString(" :- ")
	for i, l := range r.Body {
		if i > 0 {
			sb.WriteString(", ")
		}
		sb.WriteString(l.Source())
	}
	if r.Do != nil {
		sb.WriteString(" |> do fn:group_by(")
		sb.WriteString(strings.Join(r.Do.Keys, ", "))
		sb.WriteString(")")
		for _, s := range r.Do.Lets {
			sb.WriteString(", let " + s.Var + " = " + s.Fn.Source())
		}
	} else if len(r.Let) > 0 {
		sb.WriteString(" |> ")
		for i, s := range r.Let {
			if i > 0 {
				sb.WriteString(", ")
			}
			sb.WriteString("let " + s.Var + " = " + s.Fn.Source())
		}
	}
	// a name constant may end in '.', so the terminating dot is set apart.
	sb.WriteString(" .")
	return sb.String()
}

func (d Decl) Source() string {
	var sb strings.Builder
	sb.WriteString("Decl " + d.Pred + "(")
	for i := 0; i < d.Arity; i++ {
		if i > 0 {
			sb.WriteString(", ")
		}
		fmt.Fprintf(&sb, "A%d", i)
	}
	sb.WriteString(")")
	if len(d.Modes) > 0 {
		var ms []string
		for _, m := range d.Modes {
			var as []string
			for _, a := range m {
				as = append(as, `"`+a+`"`)
			}
			ms = append(ms, "mode("+strings.Join(as, ", ")+")")
		}
		sb.WriteString(" descr [" + strings.Join(ms, ", ") + "]")
	}
	for _, row := range d.Bounds {
		sb.WriteString(" bound [" + strings.Join(row, ", ") + "]")
	}
	sb.WriteString(".")
	return sb.String()
}

// Source prints the whole unit.
func (p Program) Source() string {
	var sb strings.Builder
	if p.Package != "" {
		sb.WriteString("Package " + p.Package + "!\n")
	}
	for _, d := range p.Decls {
		sb.WriteString(d.Source() + "\n")
	}
	before := len(p.Facts) - p.FactsAfter
	if before < 0 {
		before = 0
	}
	for _, f := range p.Facts[:before] {
		sb.WriteString(f.Source() + ".\n")
	}
	for _, r := range p.Rules {
		sb.WriteString(r.Source() + "\n")
	}
	for _, f := range p.Facts[before:] {
		sb.WriteString(f.Source() + ".\n")
	}
	return sb.String()
}

// ---------------------------------------------------------------------------------------------
// Conversion of terms to the library's AST (used only to call functional.* / builtin.* from the
// reference evaluator and to build query atoms).

func (t Term) ToAST() ast.BaseTerm {
	switch {
	case t.IsVar():
		return ast.Variable{Symbol: t.Var}
	case t.IsConst():
		return t.C.Build()
	default:
		args := make([]ast.BaseTerm, len(t.Args))
		for i, a := range t.Args {
			args[i] = a.ToAST()
		}
		return ast.ApplyFn{Function: ast.FunctionSym{Symbol: t.Fn, Arity: len(args)}, Args: args}
	}
}

// Preds returns "name/arity" for every predicate mentioned in p (heads, bodies, facts, decls), sorted.
func (p Program) Preds() []ast.PredicateSym {
	m := map[ast.PredicateSym]bool{}
	add := func(a Atom) {
		if !strings.HasPrefix(a.Pred, ":") {
			m[ast.PredicateSym{Symbol: a.Pred, Arity: len(a.Args)}] = true
		}
	}
	for _, d := range p.Decls {
		m[ast.PredicateSym{Symbol: d.Pred, Arity: d.Arity}] = true
	}
	for _, f := range p.Facts {
		add(f)
	}
	for _, r := range p.Rules {
		add(r.Head)
		for _, l := range r.Body {
			if l.Atom != nil {
				add(*l.Atom)
			}
		}
	}
	res := make([]ast.PredicateSym, 0, len(m))
	for s := range m {
		res = append(res, s)
	}
	sort.Slice(res, func(i, j int) bool {
		if res[i].Symbol != res[j].Symbol {
			return res[i].Symbol < res[j].Symbol
		}
		return res[i].Arity < res[j].Arity
	})
	return res
}
