// Package c13 checks property C13: the temporal store answers by the pointwise meaning of intervals.
//
// A case is a history over factstore.TemporalStore (optionally continued through a
// factstore.TeeingTemporalStore layered on top of it). The oracle is a model that keeps the stored
// (atom, interval) pairs as plain data: atoms are identified by val.AtomKey (never by Hash/Equals/String of
// the library), intervals by two extended integers.
//
// What is asserted (only what the statement of C13 says, see properties.jsonl):
//   - point / range / scan answers are exactly the model's filter, each pair once;
//   - Add: (true, nil) for a new pair, (false, nil) for an exact duplicate, an error when the atom already
//     holds `limit` intervals; a duplicate offered AT the limit may get either answer (the statement does
//     not order the two rules);
//   - Coalesce never changes the instants at which an atom holds (probed at every end point and its two
//     neighbours, which decides equality of the two piecewise constant functions), and afterwards the finite
//     intervals of one atom are pairwise separated by at least 2 ns.
//
// Choices where the statement is silent (documented, deliberately weak):
//   - an invalid interval (start > end) must not be reported as stored ((true, nil) is a violation, the
//     store must stay unchanged); whether it is refused with an error or with (false, nil) is not asserted;
//   - EstimateFactCount must be the number of stored pairs (that is what its doc comment promises);
//   - range queries are only asked for non-empty ranges (a <= b): the meaning of an empty range is not defined;
//   - through the teeing wrapper a pair held by both layers may be reported once or twice (the wrapper
//     documents that it does not de-duplicate across layers), the count may be anything between the size of
//     the union and the sum; Coalesce through the wrapper is judged on the output layer only.
//
// Input domain: time stamps are never math.MinInt64 / math.MaxInt64 (the interval tree uses them to encode
// the unbounded ends); unbounded ends are given as the proper bound types.
package c13

import (
	"encoding/json"
	"fmt"
	"math"
	"sort"
	"strings"
	"testing"
	"time"

	"codeberg.org/TauCeti/mangle-go/ast"
	"codeberg.org/TauCeti/mangle-go/factstore"
	"pgregory.net/rapid"
	"verif/stats"
	"verif/val"
)

// exclK08 is the named exclusion of known finding K08: the temporal store keys atoms by Atom.Hash()
// without an equality check. While it is active no case holds two different atoms with the same hash.
const exclK08 = "K08-hash-colliders"

// Pred is a predicate symbol of a case.
type Pred struct {
	Sym   string `json:"sym"`
	Arity int    `json:"arity"`
}

// Atom is a ground atom over Case.Preds[P].
type Atom struct {
	P    int     `json:"p"`
	Args []val.V `json:"args"`
}

// Iv is a closed interval of int64 nanoseconds; an unbounded end is a flag, never a sentinel number.
type Iv struct {
	LoInf bool  `json:"lo_inf,omitempty"`
	Lo    int64 `json:"lo,omitempty"`
	HiInf bool  `json:"hi_inf,omitempty"`
	Hi    int64 `json:"hi,omitempty"`
}

// Operation kinds.
const (
	opAdd      = "add"      // Add(Atoms[A], Iv)            (AddEternal when Eternal)
	opAt       = "at"       // GetFactsAt(query(P, Pat), T)
	opDuring   = "during"   // GetFactsDuring(query(P, Pat), Iv)
	opAll      = "all"      // GetAllFacts(query(P, Pat))
	opScan     = "scan"     // GetAllFacts(Atom{}) – no predicate
	opContains = "contains" // ContainsAt(Atoms[A], T)
	opCount    = "count"    // EstimateFactCount()
	opCoalesce = "coalesce" // Coalesce(Preds[P])
	opSweep    = "sweep"    // point, range and membership queries at every end point of the model and its neighbours
)

// Op is one step of a history.
type Op struct {
	K       string   `json:"k"`
	A       int      `json:"a,omitempty"`
	P       int      `json:"p,omitempty"`
	Pat     []*val.V `json:"pat,omitempty"` // read pattern: null = variable; absent = all variables
	Iv      *Iv      `json:"iv,omitempty"`
	T       int64    `json:"t,omitempty"`
	Eternal bool     `json:"eternal,omitempty"`
}

// Case is a history. Limit: 0 = store built without option (default limit 1000, never reached),
// > 0 = WithMaxIntervalsPerAtom(Limit), < 0 = WithMaxIntervalsPerAtom(Limit) (documented: no limit).
// Tee: Ops[:Split] run on the store itself, then a TeeingTemporalStore is put on top and Ops[Split:] run
// through the wrapper (writes go to its output layer).
type Case struct {
	Limit int    `json:"limit,omitempty"`
	Tee   bool   `json:"tee,omitempty"`
	Split int    `json:"split,omitempty"`
	Preds []Pred `json:"preds"`
	Atoms []Atom `json:"atoms"`
	Ops   []Op   `json:"ops"`
}

func (c Case) hash() uint64 {
	b, _ := json.Marshal(c)
	return stats.Hash(string(b))
}

func (p Pred) sym() ast.PredicateSym { return ast.PredicateSym{Symbol: p.Sym, Arity: p.Arity} }

func (c Case) atom(i int) ast.Atom {
	a := c.Atoms[i]
	args := make([]ast.BaseTerm, len(a.Args))
	for j, v := range a.Args {
		args[j] = v.Build()
	}
	return ast.Atom{Predicate: c.Preds[a.P].sym(), Args: args}
}

func (c Case) query(p int, pat []*val.V) ast.Atom {
	q := ast.NewQuery(c.Preds[p].sym())
	for j, v := range pat {
		if v != nil && j < len(q.Args) {
			q.Args[j] = v.Build()
		}
	}
	return q
}

func (iv Iv) build() ast.Interval {
	var s, e ast.TemporalBound
	if iv.LoInf {
		s = ast.NegativeInfinity()
	} else {
		s = ast.TemporalBound{Type: ast.TimestampBound, Timestamp: iv.Lo}
	}
	if iv.HiInf {
		e = ast.PositiveInfinity()
	} else {
		e = ast.TemporalBound{Type: ast.TimestampBound, Timestamp: iv.Hi}
	}
	return ast.Interval{Start: s, End: e}
}

func (iv Iv) String() string {
	lo, hi := "-inf", "+inf"
	if !iv.LoInf {
		lo = fmt.Sprint(iv.Lo)
	}
	if !iv.HiInf {
		hi = fmt.Sprint(iv.Hi)
	}
	return "[" + lo + "," + hi + "]"
}

func (iv Iv) finite() bool     { return !iv.LoInf && !iv.HiInf }
func (iv Iv) invalid() bool    { return iv.finite() && iv.Lo > iv.Hi }
func (iv Iv) has(t int64) bool { return (iv.LoInf || iv.Lo <= t) && (iv.HiInf || t <= iv.Hi) }

// meets tells whether iv and the non-empty range r share an instant.
func (iv Iv) meets(r Iv) bool {
	loOK := iv.LoInf || r.HiInf || iv.Lo <= r.Hi
	hiOK := r.LoInf || iv.HiInf || r.Lo <= iv.Hi
	return loOK && hiOK
}

// fromInterval reads an interval handed out by the store. The number MinInt64 (MaxInt64) as a start (end)
// denotes the same instants as the unbounded end and is normalised to it.
func fromInterval(i ast.Interval) (Iv, error) {
	var iv Iv
	switch i.Start.Type {
	case ast.TimestampBound:
		iv.Lo = i.Start.Timestamp
		if iv.Lo == math.MinInt64 {
			iv.Lo, iv.LoInf = 0, true
		}
	case ast.NegativeInfinityBound:
		iv.LoInf = true
	default:
		return iv, fmt.Errorf("start bound of type %d", i.Start.Type)
	}
	switch i.End.Type {
	case ast.TimestampBound:
		iv.Hi = i.End.Timestamp
		if iv.Hi == math.MaxInt64 {
			iv.Hi, iv.HiInf = 0, true
		}
	case ast.PositiveInfinityBound:
		iv.HiInf = true
	default:
		return iv, fmt.Errorf("end bound of type %d", i.End.Type)
	}
	return iv, nil
}

func instant(t int64) time.Time { return time.Unix(0, t) }

// pair is a stored (atom, interval) pair of the model; ai indexes Case.Atoms.
type pair struct {
	ai int
	iv Iv
	id string // keys[ai] + "@" + iv.String(), set by model.pair
}

type model struct {
	c      Case
	keys   []string       // val.AtomKey of every case atom
	byKey  map[string]int // key -> atom index
	layers [2][]pair      // 0: the store itself, 1: output layer of the teeing wrapper
}

func (m *model) pair(ai int, iv Iv) pair { return pair{ai, iv, m.keys[ai] + "@" + iv.String()} }

func (m *model) id(p pair) string { return p.id }

func (m *model) holds(layer int, p pair) bool {
	for _, q := range m.layers[layer] {
		if q == p {
			return true
		}
	}
	return false
}

func (m *model) countOf(layer, ai int) int {
	n := 0
	for _, q := range m.layers[layer] {
		if q.ai == ai {
			n++
		}
	}
	return n
}

func (m *model) containsAt(ai int, t int64) bool {
	for l := range m.layers {
		for _, q := range m.layers[l] {
			if q.ai == ai && q.iv.has(t) {
				return true
			}
		}
	}
	return false
}

// matches tells whether atom ai belongs to predicate p and agrees with the fixed positions of pat.
func (m *model) matches(ai, p int, pat []*val.V) bool {
	a := m.c.Atoms[ai]
	if a.P != p {
		return false
	}
	for j, v := range pat {
		if v != nil && j < len(a.Args) && v.Key() != a.Args[j].Key() {
			return false
		}
	}
	return true
}

// expected returns, for every pair satisfying keep, the allowed multiplicity range in an answer.
func (m *model) expected(keep func(pair) bool) (lo, hi map[string]int) {
	lo, hi = map[string]int{}, map[string]int{}
	for l := range m.layers {
		for _, q := range m.layers[l] {
			if keep(q) {
				id := m.id(q)
				lo[id] = 1
				hi[id]++
			}
		}
	}
	return lo, hi
}

// probes returns the end points of the model's intervals for predicate p (all predicates if p < 0), their
// two neighbours, and 0, sorted and without repetition.
func (m *model) probes(p int, extra ...pair) []int64 {
	set := map[int64]bool{0: true}
	add := func(q pair) {
		if p >= 0 && m.c.Atoms[q.ai].P != p {
			return
		}
		if !q.iv.LoInf {
			set[q.iv.Lo-1], set[q.iv.Lo], set[q.iv.Lo+1] = true, true, true
		}
		if !q.iv.HiInf {
			set[q.iv.Hi-1], set[q.iv.Hi], set[q.iv.Hi+1] = true, true, true
		}
	}
	for l := range m.layers {
		for _, q := range m.layers[l] {
			add(q)
		}
	}
	for _, q := range extra {
		add(q)
	}
	res := make([]int64, 0, len(set))
	for t := range set {
		if t != math.MinInt64 && t != math.MaxInt64 {
			res = append(res, t)
		}
	}
	sort.Slice(res, func(i, j int) bool { return res[i] < res[j] })
	return res
}

type verdict struct {
	nontrivial bool
	labels     []string
}

type checker struct {
	run    *stats.Run
	f      stats.Failer
	c      Case
	m      *model
	atoms  []ast.Atom
	base   *factstore.TemporalStore
	tee    *factstore.TeeingTemporalStore
	labels map[string]bool
	step   int
}

func (k *checker) label(l string) { k.labels[l] = true }

func (k *checker) failf(format string, args ...any) {
	k.run.Failf(k.f, "step %d (%s): %s", k.step, k.describe(k.step), fmt.Sprintf(format, args...))
}

func (k *checker) describe(i int) string {
	if i < 0 || i >= len(k.c.Ops) {
		return "-"
	}
	op := k.c.Ops[i]
	switch op.K {
	case opAdd:
		return fmt.Sprintf("add %s %s", k.m.keys[op.A], op.Iv)
	case opContains:
		return fmt.Sprintf("contains %s at %d", k.m.keys[op.A], op.T)
	case opAt:
		return fmt.Sprintf("at %d of %s%s", op.T, k.c.Preds[op.P].Sym, patString(op.Pat))
	case opDuring:
		return fmt.Sprintf("during %s of %s%s", op.Iv, k.c.Preds[op.P].Sym, patString(op.Pat))
	case opAll:
		return fmt.Sprintf("all of %s%s", k.c.Preds[op.P].Sym, patString(op.Pat))
	case opCoalesce:
		return fmt.Sprintf("coalesce %s/%d", k.c.Preds[op.P].Sym, k.c.Preds[op.P].Arity)
	}
	return op.K
}

func patString(pat []*val.V) string {
	var parts []string
	for _, v := range pat {
		if v == nil {
			parts = append(parts, "_")
		} else {
			parts = append(parts, v.Key())
		}
	}
	return "(" + strings.Join(parts, ",") + ")"
}

// reader is the store handle reads go to in the current phase.
func (k *checker) reader() factstore.ReadOnlyTemporalFactStore {
	if k.tee != nil {
		return k.tee
	}
	return k.base
}

func (k *checker) writer() factstore.TemporalFactStore {
	if k.tee != nil {
		return k.tee
	}
	return k.base
}

func (k *checker) layer() int {
	if k.tee != nil {
		return 1
	}
	return 0
}

// collect runs a read and returns the multiset of answered pairs by model id.
func (k *checker) collect(what string, read func(fn func(factstore.TemporalFact) error) error) map[string]int {
	got := map[string]int{}
	err := read(func(tf factstore.TemporalFact) error {
		iv, e := fromInterval(tf.Interval)
		if e != nil {
			k.failf("%s answered %s with an interval that is no closed interval: %v", what, val.AtomKey(tf.Atom), e)
		}
		got[val.AtomKey(tf.Atom)+"@"+iv.String()]++
		return nil
	})
	if err != nil {
		k.failf("%s returned an error although the callback never fails: %v", what, err)
	}
	return got
}

// compare judges an answer against the allowed multiplicities.
func (k *checker) compare(what string, got, lo, hi map[string]int) {
	ids := map[string]bool{}
	for id := range got {
		ids[id] = true
	}
	for id := range lo {
		ids[id] = true
	}
	sorted := make([]string, 0, len(ids))
	for id := range ids {
		sorted = append(sorted, id)
	}
	sort.Strings(sorted)
	var missing, extra, twice []string
	for _, id := range sorted {
		g := got[id]
		switch {
		case g < lo[id]:
			missing = append(missing, id)
		case hi[id] == 0:
			extra = append(extra, id)
		case g > hi[id]:
			twice = append(twice, fmt.Sprintf("%s x%d", id, g))
		}
	}
	if missing != nil || extra != nil || twice != nil {
		k.failf("%s: missing %v, not stored/not matching %v, more than once %v; stored pairs: %v", what, missing, extra, twice, k.dump())
	}
}

func (k *checker) dump() []string {
	var res []string
	for l := range k.m.layers {
		for _, q := range k.m.layers[l] {
			s := k.m.id(q)
			if l == 1 {
				s += " (output layer)"
			}
			res = append(res, s)
		}
	}
	sort.Strings(res)
	return res
}

func (k *checker) checkAt(p int, pat []*val.V, t int64) {
	q := k.c.query(p, pat)
	got := k.collect("GetFactsAt", func(fn func(factstore.TemporalFact) error) error {
		return k.reader().GetFactsAt(q, instant(t), fn)
	})
	lo, hi := k.m.expected(func(x pair) bool { return k.m.matches(x.ai, p, pat) && x.iv.has(t) })
	k.compare(fmt.Sprintf("GetFactsAt(%s%s, %d)", k.c.Preds[p].Sym, patString(pat), t), got, lo, hi)
}

func (k *checker) checkDuring(p int, pat []*val.V, r Iv) {
	q := k.c.query(p, pat)
	got := k.collect("GetFactsDuring", func(fn func(factstore.TemporalFact) error) error {
		return k.reader().GetFactsDuring(q, r.build(), fn)
	})
	lo, hi := k.m.expected(func(x pair) bool { return k.m.matches(x.ai, p, pat) && x.iv.meets(r) })
	k.compare(fmt.Sprintf("GetFactsDuring(%s%s, %s)", k.c.Preds[p].Sym, patString(pat), r), got, lo, hi)
}

func (k *checker) checkAll(p int, pat []*val.V) {
	q := k.c.query(p, pat)
	got := k.collect("GetAllFacts", func(fn func(factstore.TemporalFact) error) error {
		return k.reader().GetAllFacts(q, fn)
	})
	lo, hi := k.m.expected(func(x pair) bool { return k.m.matches(x.ai, p, pat) })
	k.compare(fmt.Sprintf("GetAllFacts(%s%s)", k.c.Preds[p].Sym, patString(pat)), got, lo, hi)
}

func (k *checker) checkScan() {
	got := k.collect("GetAllFacts", func(fn func(factstore.TemporalFact) error) error {
		return k.reader().GetAllFacts(ast.Atom{}, fn)
	})
	lo, hi := k.m.expected(func(pair) bool { return true })
	k.compare("GetAllFacts(no predicate)", got, lo, hi)
}

func (k *checker) checkContains(ai int, t int64) {
	got := k.reader().ContainsAt(k.atoms[ai], instant(t))
	if want := k.m.containsAt(ai, t); got != want {
		k.failf("ContainsAt(%s, %d) = %v, the stored intervals say %v; stored pairs: %v", k.m.keys[ai], t, got, want, k.dump())
	}
}

func (k *checker) checkCount() {
	got := k.reader().EstimateFactCount()
	_, hi := k.m.expected(func(pair) bool { return true })
	min, max := len(hi), 0
	for _, n := range hi {
		max += n
	}
	if got < min || got > max {
		k.failf("EstimateFactCount() = %d, but %d pairs are stored (%d counting both layers); stored pairs: %v", got, min, max, k.dump())
	}
}

func (k *checker) doAdd(op Op) {
	iv := *op.Iv
	l := k.layer()
	limit := k.c.Limit
	if l == 1 {
		limit = 0 // the output layer of the wrapper is a default store
	}
	var ok bool
	var err error
	if op.Eternal && iv.LoInf && iv.HiInf {
		ok, err = k.writer().AddEternal(k.atoms[op.A])
	} else {
		ok, err = k.writer().Add(k.atoms[op.A], iv.build())
	}
	p := k.m.pair(op.A, iv)
	dup := k.m.holds(l, p)
	full := limit > 0 && k.m.countOf(l, op.A) >= limit
	switch {
	case iv.invalid():
		k.label("add-invalid")
		if ok && err == nil {
			k.failf("Add of the invalid interval %s (start > end) answered (true, nil)", iv)
		}
	case full && dup:
		// either rule may fire first
		k.label("add-dup-at-limit")
		if ok {
			k.failf("Add of an exact duplicate while the atom holds its limit of %d intervals answered (%v, %v)", limit, ok, err)
		}
	case full:
		k.label("add-limit")
		if ok || err == nil {
			k.failf("Add answered (%v, %v) although the atom already holds its limit of %d intervals", ok, err, limit)
		}
	case dup:
		k.label("add-dup")
		if ok || err != nil {
			k.failf("Add of an exact duplicate answered (%v, %v), want (false, nil); stored pairs: %v", ok, err, k.dump())
		}
	default:
		if !ok || err != nil {
			k.failf("Add of a new pair answered (%v, %v), want (true, nil); stored pairs: %v", ok, err, k.dump())
		}
		k.m.layers[l] = append(k.m.layers[l], p)
	}
}

func (k *checker) doCoalesce(p int) {
	l := k.layer()
	// classify what the coalescing has to do
	var mine []pair
	for _, q := range k.m.layers[l] {
		if k.c.Atoms[q.ai].P == p {
			mine = append(mine, q)
		}
	}
	for i, a := range mine {
		for j, b := range mine {
			if i == j || a.ai != b.ai || !a.iv.finite() || !b.iv.finite() {
				continue
			}
			if a.iv.Hi+1 == b.iv.Lo {
				k.label("coalesce-adjacent")
			}
			if a.iv.Hi+2 == b.iv.Lo {
				k.label("coalesce-gap1")
			}
			if i < j && a.iv.meets(b.iv) {
				k.label("coalesce-overlap")
			}
		}
	}
	before := k.m.probes(p)
	var members []int
	for ai, a := range k.c.Atoms {
		if a.P == p {
			members = append(members, ai)
		}
	}
	for _, ai := range members {
		for _, t := range before {
			k.checkContains(ai, t) // the store agrees with the model before ...
		}
	}
	if err := k.writer().Coalesce(k.c.Preds[p].sym()); err != nil {
		k.failf("Coalesce returned %v", err)
	}
	// scan the layer that was coalesced
	var target factstore.ReadOnlyTemporalFactStore = k.base
	if k.tee != nil {
		target = k.tee.Out
	}
	var scanned []pair
	seen := map[string]bool{}
	err := target.GetAllFacts(ast.NewQuery(k.c.Preds[p].sym()), func(tf factstore.TemporalFact) error {
		key := val.AtomKey(tf.Atom)
		ai, known := k.m.byKey[key]
		if !known || k.c.Atoms[ai].P != p {
			k.failf("after Coalesce the scan of the predicate yields %s, which was never added to it", key)
		}
		iv, e := fromInterval(tf.Interval)
		if e != nil {
			k.failf("after Coalesce %s carries an interval that is no closed interval: %v", key, e)
		}
		if iv.invalid() {
			k.failf("after Coalesce %s carries the empty interval %s", key, iv)
		}
		q := k.m.pair(ai, iv)
		if seen[k.m.id(q)] {
			k.failf("after Coalesce the scan yields %s twice", k.m.id(q))
		}
		seen[k.m.id(q)] = true
		scanned = append(scanned, q)
		return nil
	})
	if err != nil {
		k.failf("GetAllFacts returned an error although the callback never fails: %v", err)
	}
	if len(scanned) < len(mine) {
		k.label("coalesce-merged")
	}
	// finite intervals of one atom: neither overlapping nor adjacent
	for i, a := range scanned {
		for j, b := range scanned {
			if i == j || a.ai != b.ai || !a.iv.finite() || !b.iv.finite() {
				continue
			}
			if a.iv.Lo <= b.iv.Lo && !(a.iv.Hi < b.iv.Lo-1) {
				k.failf("after Coalesce %s holds %s and %s, which overlap or are adjacent; before: %v", k.m.keys[a.ai], a.iv, b.iv, k.dump())
			}
		}
	}
	// the instants at which each atom holds are unchanged: compare the old and the new pairs, and the
	// store's own membership answer, at every end point (old and new) and its neighbours.
	after := k.m.probes(p, scanned...)
	old := k.m.layers[l]
	var kept []pair
	for _, q := range old {
		if k.c.Atoms[q.ai].P != p {
			kept = append(kept, q)
		}
	}
	oldDump := k.dump()
	want := map[[2]int64]bool{}
	for _, ai := range members {
		for _, t := range after {
			want[[2]int64{int64(ai), t}] = k.m.containsAt(ai, t)
		}
	}
	k.m.layers[l] = append(kept, scanned...)
	for _, ai := range members {
		for _, t := range after {
			w := want[[2]int64{int64(ai), t}]
			if got := k.m.containsAt(ai, t); got != w {
				k.failf("Coalesce changed whether %s holds at %d: before %v, after %v; before: %v; after: %v", k.m.keys[ai], t, w, got, oldDump, k.dump())
			}
			if got := k.reader().ContainsAt(k.atoms[ai], instant(t)); got != w {
				k.failf("after Coalesce ContainsAt(%s, %d) = %v, before it was %v; before: %v; after: %v", k.m.keys[ai], t, got, w, oldDump, k.dump())
			}
		}
	}
	k.checkCount()
}

func (k *checker) doSweep() {
	for p := range k.c.Preds {
		ts := k.m.probes(p)
		for i, t := range ts {
			k.checkAt(p, nil, t)
			switch {
			case i%3 == 0 && i+3 < len(ts):
				k.checkDuring(p, nil, Iv{Lo: t, Hi: ts[i+3]})
			case i%3 == 1:
				k.checkDuring(p, nil, Iv{LoInf: true, Hi: t})
			default:
				k.checkDuring(p, nil, Iv{Lo: t, HiInf: true})
			}
		}
		for ai, a := range k.c.Atoms {
			if a.P == p {
				for _, t := range ts {
					k.checkContains(ai, t)
				}
			}
		}
		k.checkAll(p, nil)
	}
	k.checkScan()
	k.checkCount()
}

// rich tells whether a read that reaches the atoms selected by sel meets a tree worth the name: some
// selected atom holds >= 6 intervals in one layer (rotations happened) among them two with the same start or
// an unbounded one.
func (k *checker) rich(sel func(ai int) bool) bool {
	for l := range k.m.layers {
		for ai := range k.c.Atoms {
			if !sel(ai) || k.m.countOf(l, ai) < 6 {
				continue
			}
			starts := map[string]bool{}
			for _, q := range k.m.layers[l] {
				if q.ai != ai {
					continue
				}
				if q.iv.LoInf || q.iv.HiInf {
					return true
				}
				s := fmt.Sprint(q.iv.Lo)
				if starts[s] {
					return true
				}
				starts[s] = true
			}
		}
	}
	return false
}

func (k *checker) noteShape() {
	for l := range k.m.layers {
		for ai := range k.c.Atoms {
			n := k.m.countOf(l, ai)
			if n >= 6 {
				k.label("tree>=6")
			}
			if n >= 12 {
				k.label("tree>=12")
			}
		}
		for i, a := range k.m.layers[l] {
			switch {
			case a.iv.LoInf && a.iv.HiInf:
				k.label("stored-eternal")
			case a.iv.LoInf:
				k.label("stored-unbounded-left")
			case a.iv.HiInf:
				k.label("stored-unbounded-right")
			}
			if !a.iv.LoInf && (a.iv.Lo > 1<<40 || a.iv.Lo < -(1<<40)) || !a.iv.HiInf && (a.iv.Hi > 1<<40 || a.iv.Hi < -(1<<40)) {
				k.label("stored-far-from-zero")
			}
			for j, b := range k.m.layers[l] {
				if i >= j || a.ai != b.ai {
					continue
				}
				if a.iv.LoInf == b.iv.LoInf && a.iv.Lo == b.iv.Lo {
					k.label("stored-equal-start")
				}
				if a.iv.finite() && b.iv.finite() {
					if a.iv.Hi+1 == b.iv.Lo || b.iv.Hi+1 == a.iv.Lo {
						k.label("stored-touching")
					}
					if (a.iv.Lo <= b.iv.Lo && b.iv.Hi <= a.iv.Hi) || (b.iv.Lo <= a.iv.Lo && a.iv.Hi <= b.iv.Hi) {
						k.label("stored-nested")
					}
				}
			}
		}
	}
}

// check replays the history against a fresh store and the model.
func check(run *stats.Run, f stats.Failer, c Case) verdict {
	k := &checker{run: run, f: f, c: c, labels: map[string]bool{}, step: -1}
	k.m = &model{c: c, byKey: map[string]int{}}
	for i := range c.Atoms {
		a := c.atom(i)
		k.atoms = append(k.atoms, a)
		key := val.AtomKey(a)
		if _, dup := k.m.byKey[key]; dup {
			run.Failf(f, "malformed case: atom %d repeats %s", i, key)
		}
		k.m.keys = append(k.m.keys, key)
		k.m.byKey[key] = i
	}
	switch {
	case c.Limit == 0:
		k.base = factstore.NewTemporalStore()
	default:
		k.base = factstore.NewTemporalStore(factstore.WithMaxIntervalsPerAtom(c.Limit))
		if c.Limit > 0 {
			k.label("limit")
		}
	}
	predAtoms := map[int]int{}
	for _, a := range c.Atoms {
		predAtoms[a.P]++
	}
	for _, n := range predAtoms {
		if n >= 2 {
			k.label("several-atoms-per-predicate")
		}
	}
	nontrivial := false
	for i, op := range c.Ops {
		k.step = i
		if c.Tee && i == c.Split {
			k.tee = factstore.NewTeeingTemporalStore(k.base)
			k.label("tee")
		}
		switch op.K {
		case opAdd:
			k.doAdd(op)
		case opAt:
			k.checkAt(op.P, op.Pat, op.T)
			nontrivial = nontrivial || k.rich(func(ai int) bool { return k.m.matches(ai, op.P, op.Pat) })
		case opDuring:
			k.checkDuring(op.P, op.Pat, *op.Iv)
			nontrivial = nontrivial || k.rich(func(ai int) bool { return k.m.matches(ai, op.P, op.Pat) })
			if op.Iv.LoInf || op.Iv.HiInf {
				k.label("range-unbounded")
			}
		case opAll:
			k.checkAll(op.P, op.Pat)
			nontrivial = nontrivial || k.rich(func(ai int) bool { return k.m.matches(ai, op.P, op.Pat) })
		case opScan:
			k.checkScan()
			nontrivial = nontrivial || k.rich(func(int) bool { return true })
		case opContains:
			k.checkContains(op.A, op.T)
			nontrivial = nontrivial || k.rich(func(ai int) bool { return ai == op.A })
		case opCount:
			k.checkCount()
		case opCoalesce:
			k.label("coalesce")
			k.doCoalesce(op.P)
		case opSweep:
			k.label("sweep")
			k.doSweep()
			nontrivial = nontrivial || k.rich(func(int) bool { return true })
		default:
			run.Failf(f, "malformed case: unknown operation %q", op.K)
		}
		if op.K == opAdd || op.K == opCoalesce {
			k.noteShape()
		}
		if op.Pat != nil {
			k.label("read-with-constant")
		}
	}
	v := verdict{nontrivial: nontrivial}
	for l := range k.labels {
		v.labels = append(v.labels, l)
	}
	sort.Strings(v.labels)
	return v
}

func TestC13(t *testing.T) {
	run := stats.Begin("C13", "TestC13")
	defer run.Finish(t)
	rapid.Check(t, func(rt *rapid.T) {
		c := genCase(run, rt)
		run.Current(c)
		v := check(run, rt, c)
		run.Case(v.nontrivial, c.hash(), v.labels...)
		if v.nontrivial {
			run.Sample("history", c)
		}
	})
}

func TestReplay(t *testing.T) {
	var c Case
	if !stats.LoadReplay(t, &c) {
		return
	}
	run := stats.Begin("C13", "TestReplay")
	check(run, t, c)
}
