// Package c13 checks property C13: the temporal store answers by the pointwise meaning of intervals.
//
// A case is a history over factstore.TemporalStore (optionally continued through a
// factstore.TeeingTemporalStore layered on top of it). The oracle is a model that keeps the stored
// (atom, interval) pairs as plain data: atoms are identified by val.AtomKey (never by Hash/Equals/String of
// the library), intervals by two extended integers.
//
// A case may hold a second store of the same kind beside the primary one ("side", with its own limit, its own
// teeing wrapper and its own model). Every step names the store it works on; the step `merge` merges the
// other store into it (source handle: the other store's plain *TemporalStore or its teeing wrapper), the step
// `merge-fresh` merges it into a new, empty store (with or without a limit) that is then swept like any
// other store and thrown away. A store is never merged into itself.
//
// What is asserted (only what the statement of C13 says, see properties.jsonl):
//   - point / range / scan answers are exactly the model's filter, each pair once;
//   - Add: (true, nil) for a new pair, (false, nil) for an exact duplicate, an error when the atom already
//     holds `limit` intervals; a duplicate offered AT the limit may get either answer (the statement does
//     not order the two rules);
//   - Merge is a sequence of insertions: when it returns nil the target holds exactly the union of its old
//     pairs and the pairs of the source, each once (judged by a scan, the count and a sweep of point, range
//     and membership queries); it must return an error when the union would give an atom more than `limit`
//     intervals. Either answer is accepted when an atom reaches exactly its limit and the source also offers
//     a pair the target holds already (a duplicate at the limit, see Add). The statement does not say how far
//     a failing merge gets: after an error the target must hold its old pairs plus some of the offered ones,
//     each once, no atom above its limit, and the model is re-read from a scan. The source must be unchanged;
//   - Coalesce never changes the instants at which an atom holds (probed at every end point and its two
//     neighbours, which decides equality of the two piecewise constant functions), and afterwards the finite
//     intervals of one atom are pairwise separated by at least 2 ns.
//
// Choices where the statement is silent (documented, deliberately weak):
//   - an invalid interval (start > end) must not be reported as stored ((true, nil) is a violation, the
//     store must stay unchanged); whether it is refused with an error or with (false, nil) is not asserted;
//   - EstimateFactCount must be the number of stored pairs (that is what its doc comment promises);
//   - range queries are only asked for non-empty ranges (a <= b): the meaning of an empty range is not defined;
//   - through the teeing wrapper a pair held by both layers may be reported once or twice (the wrapper
//     documents that it does not de-duplicate across layers), the count may be anything between the size of
//     the union and the sum; Coalesce and Merge through the wrapper are judged on the output layer only (a
//     pair of the base layer that a merge offers again is a new pair of the output layer);
//   - an error of Merge is demanded only where the union exceeds the limit; which error it is, and which of
//     the offered pairs a refused merge leaves behind, is not asserted;
//   - WithMaxIntervalsPerAtom(0) is treated like the default of 1000 (code: no limit, field comment: default);
//     no history comes near either.
//
// Input domain: time stamps are never math.MinInt64 / math.MaxInt64 (the interval tree uses them to encode
// the unbounded ends); unbounded ends are given as the proper bound types.
package c13

import (
	"encoding/json"
	"fmt"
	"math"
	"sort"
	"strings"
	"testing"
	"time"

	"codeberg.org/TauCeti/mangle-go/ast"
	"codeberg.org/TauCeti/mangle-go/factstore"
	"pgregory.net/rapid"
	"verif/stats"
	"verif/val"
)

// exclK08 is the named exclusion of known finding K08: the temporal store keys atoms by Atom.Hash()
// without an equality check. While it is active no case holds two different atoms with the same hash.
const exclK08 = "K08-hash-colliders"

// Pred is a predicate symbol of a case.
type Pred struct {
	Sym   string `json:"sym"`
	Arity int    `json:"arity"`
}

// Atom is a ground atom over Case.Preds[P].
type Atom struct {
	P    int     `json:"p"`
	Args []val.V `json:"args"`
}

// Iv is a closed interval of int64 nanoseconds; an unbounded end is a flag, never a sentinel number.
type Iv struct {
	LoInf bool  `json:"lo_inf,omitempty"`
	Lo    int64 `json:"lo,omitempty"`
	HiInf bool  `json:"hi_inf,omitempty"`
	Hi    int64 `json:"hi,omitempty"`
}

// Operation kinds. Every operation works on store S (0 = the primary store, 1 = the side store).
const (
	opAdd      = "add"         // Add(Atoms[A], Iv)            (AddEternal when Eternal)
	opAt       = "at"          // GetFactsAt(query(P, Pat), T)
	opDuring   = "during"      // GetFactsDuring(query(P, Pat), Iv)
	opAll      = "all"         // GetAllFacts(query(P, Pat))
	opScan     = "scan"        // GetAllFacts(Atom{}) – no predicate
	opContains = "contains"    // ContainsAt(Atoms[A], T)
	opCount    = "count"       // EstimateFactCount()
	opCoalesce = "coalesce"    // Coalesce(Preds[P])
	opSweep    = "sweep"       // point, range and membership queries at every end point of the model and its neighbours
	opMerge    = "merge"       // store S .Merge(the other store, handle Via)
	opFresh    = "merge-fresh" // a new store (Limit, ZeroLimit) .Merge(store S, handle Via); the new store is swept and dropped
)

// Source handles of a merge.
const (
	viaBase = "base" // the source's plain *TemporalStore (the wrapper's output layer, if any, stays behind)
	viaView = "view" // what reads of the source go to: its TeeingTemporalStore once it exists, else the plain store
)

// Op is one step of a history.
type Op struct {
	K         string   `json:"k"`
	S         int      `json:"s,omitempty"`
	A         int      `json:"a,omitempty"`
	P         int      `json:"p,omitempty"`
	Pat       []*val.V `json:"pat,omitempty"` // read pattern: null = variable; absent = all variables
	Iv        *Iv      `json:"iv,omitempty"`
	T         int64    `json:"t,omitempty"`
	Eternal   bool     `json:"eternal,omitempty"`
	Via       string   `json:"via,omitempty"`        // merge, merge-fresh
	Limit     int      `json:"limit,omitempty"`      // merge-fresh: limit of the new store, as Case.Limit
	ZeroLimit bool     `json:"zero_limit,omitempty"` // merge-fresh: as Case.ZeroLimit
	Macro     string   `json:"macro,omitempty"`      // informational: the constructed block the step belongs to (gen_test.go)
}

// Side describes the second store of a case; the fields mean what they mean in Case.
type Side struct {
	Limit     int  `json:"limit,omitempty"`
	ZeroLimit bool `json:"zero_limit,omitempty"`
	Tee       bool `json:"tee,omitempty"`
	Split     int  `json:"split,omitempty"`
}

// Case is a history. Limit: 0 = store built without option (default limit 1000, never reached),
// > 0 = WithMaxIntervalsPerAtom(Limit), < 0 = WithMaxIntervalsPerAtom(Limit) (documented: no limit);
// ZeroLimit (with Limit 0) = WithMaxIntervalsPerAtom(0), which the code treats as "no limit" and the field
// comment as "default": the two cannot be told apart by a history of this size.
// Tee: the steps on the store among Ops[:Split] run on the store itself, then a TeeingTemporalStore is put
// on top and the steps among Ops[Split:] run through the wrapper (writes go to its output layer).
// Side: a second store beside the primary one, the other party of the merge steps.
type Case struct {
	Limit     int    `json:"limit,omitempty"`
	ZeroLimit bool   `json:"zero_limit,omitempty"`
	Tee       bool   `json:"tee,omitempty"`
	Split     int    `json:"split,omitempty"`
	Side      *Side  `json:"side,omitempty"`
	Preds     []Pred `json:"preds"`
	Atoms     []Atom `json:"atoms"`
	Ops       []Op   `json:"ops"`
}

func (c Case) hash() uint64 {
	b, _ := json.Marshal(c)
	return stats.Hash(string(b))
}

func (p Pred) sym() ast.PredicateSym { return ast.PredicateSym{Symbol: p.Sym, Arity: p.Arity} }

func (c Case) atom(i int) ast.Atom {
	a := c.Atoms[i]
	args := make([]ast.BaseTerm, len(a.Args))
	for j, v := range a.Args {
		args[j] = v.Build()
	}
	return ast.Atom{Predicate: c.Preds[a.P].sym(), Args: args}
}

func (c Case) query(p int, pat []*val.V) ast.Atom {
	q := ast.NewQuery(c.Preds[p].sym())
	for j, v := range pat {
		if v != nil && j < len(q.Args) {
			q.Args[j] = v.Build()
		}
	}
	return q
}

func (iv Iv) build() ast.Interval {
	var s, e ast.TemporalBound
	if iv.LoInf {
		s = ast.NegativeInfinity()
	} else {
		s = ast.TemporalBound{Type: ast.TimestampBound, Timestamp: iv.Lo}
	}
	if iv.HiInf {
		e = ast.PositiveInfinity()
	} else {
		e = ast.TemporalBound{Type: ast.TimestampBound, Timestamp: iv.Hi}
	}
	return ast.Interval{Start: s, End: e}
}

func (iv Iv) String() string {
	lo, hi := "-inf", "+inf"
	if !iv.LoInf {
		lo = fmt.Sprint(iv.Lo)
	}
	if !iv.HiInf {
		hi = fmt.Sprint(iv.Hi)
	}
	return "[" + lo + "," + hi + "]"
}

func (iv Iv) finite() bool     { return !iv.LoInf && !iv.HiInf }
func (iv Iv) invalid() bool    { return iv.finite() && iv.Lo > iv.Hi }
func (iv Iv) has(t int64) bool { return (iv.LoInf || iv.Lo <= t) && (iv.HiInf || t <= iv.Hi) }

// meets tells whether iv and the non-empty range r share an instant.
func (iv Iv) meets(r Iv) bool {
	loOK := iv.LoInf || r.HiInf || iv.Lo <= r.Hi
	hiOK := r.LoInf || iv.HiInf || r.Lo <= iv.Hi
	return loOK && hiOK
}

// fromInterval reads an interval handed out by the store. The number MinInt64 (MaxInt64) as a start (end)
// denotes the same instants as the unbounded end and is normalised to it.
func fromInterval(i ast.Interval) (Iv, error) {
	var iv Iv
	switch i.Start.Type {
	case ast.TimestampBound:
		iv.Lo = i.Start.Timestamp
		if iv.Lo == math.MinInt64 {
			iv.Lo, iv.LoInf = 0, true
		}
	case ast.NegativeInfinityBound:
		iv.LoInf = true
	default:
		return iv, fmt.Errorf("start bound of type %d", i.Start.Type)
	}
	switch i.End.Type {
	case ast.TimestampBound:
		iv.Hi = i.End.Timestamp
		if iv.Hi == math.MaxInt64 {
			iv.Hi, iv.HiInf = 0, true
		}
	case ast.PositiveInfinityBound:
		iv.HiInf = true
	default:
		return iv, fmt.Errorf("end bound of type %d", i.End.Type)
	}
	return iv, nil
}

func instant(t int64) time.Time { return time.Unix(0, t) }

// pair is a stored (atom, interval) pair of the model; ai indexes Case.Atoms.
type pair struct {
	ai int
	iv Iv
	id string // keys[ai] + "@" + iv.String(), set by model.pair
}

// model holds what the stores of a case have in common: the atoms and their keys.
type model struct {
	c     Case
	keys  []string       // val.AtomKey of every case atom
	byKey map[string]int // key -> atom index
}

func (m *model) pair(ai int, iv Iv) pair { return pair{ai, iv, m.keys[ai] + "@" + iv.String()} }

func (m *model) id(p pair) string { return p.id }

// matches tells whether atom ai belongs to predicate p and agrees with the fixed positions of pat.
func (m *model) matches(ai, p int, pat []*val.V) bool {
	a := m.c.Atoms[ai]
	if a.P != p {
		return false
	}
	for j, v := range pat {
		if v != nil && j < len(a.Args) && v.Key() != a.Args[j].Key() {
			return false
		}
	}
	return true
}

// store is one store under test together with the pairs it has to hold.
type store struct {
	m      *model
	name   string
	limit  int // as Case.Limit
	base   *factstore.TemporalStore
	tee    *factstore.TeeingTemporalStore
	layers [2][]pair          // 0: the store itself, 1: output layer of the teeing wrapper
	merged [2]map[string]bool // ids of the pairs of a layer that arrived through Merge
	// for the labels only: per layer and predicate, the number of pairs the layer held right after the
	// predicate was coalesced last, and whether it has received pairs since.
	coalescedAt [2]map[int]int
	grown       [2]map[int]bool
}

func newStore(m *model, name string, limit int, zero bool) *store {
	s := &store{m: m, name: name, limit: limit}
	switch {
	case limit != 0:
		s.base = factstore.NewTemporalStore(factstore.WithMaxIntervalsPerAtom(limit))
	case zero:
		s.base = factstore.NewTemporalStore(factstore.WithMaxIntervalsPerAtom(0))
	default:
		s.base = factstore.NewTemporalStore()
	}
	s.merged[0], s.merged[1] = map[string]bool{}, map[string]bool{}
	s.coalescedAt[0], s.coalescedAt[1] = map[int]int{}, map[int]int{}
	s.grown[0], s.grown[1] = map[int]bool{}, map[int]bool{}
	return s
}

// reader is the store handle reads go to in the current phase.
func (s *store) reader() factstore.ReadOnlyTemporalFactStore {
	if s.tee != nil {
		return s.tee
	}
	return s.base
}

func (s *store) writer() factstore.TemporalFactStore {
	if s.tee != nil {
		return s.tee
	}
	return s.base
}

// layer is the layer writes go to in the current phase.
func (s *store) layer() int {
	if s.tee != nil {
		return 1
	}
	return 0
}

// layerLimit is the per-atom limit of layer l (<= 0: none that a history can reach).
func (s *store) layerLimit(l int) int {
	if l == 1 {
		return 0 // the output layer of the wrapper is a default store
	}
	return s.limit
}

func (s *store) layerStore(l int) factstore.ReadOnlyTemporalFactStore {
	if l == 1 {
		return s.tee.Out
	}
	return s.base
}

func (s *store) holds(layer int, p pair) bool {
	for _, q := range s.layers[layer] {
		if q == p {
			return true
		}
	}
	return false
}

func (s *store) countOf(layer, ai int) int {
	n := 0
	for _, q := range s.layers[layer] {
		if q.ai == ai {
			n++
		}
	}
	return n
}

func (s *store) containsAt(ai int, t int64) bool {
	for l := range s.layers {
		for _, q := range s.layers[l] {
			if q.ai == ai && q.iv.has(t) {
				return true
			}
		}
	}
	return false
}

// expected returns, for every pair satisfying keep, the allowed multiplicity range in an answer.
func (s *store) expected(keep func(pair) bool) (lo, hi map[string]int) {
	lo, hi = map[string]int{}, map[string]int{}
	for l := range s.layers {
		for _, q := range s.layers[l] {
			if keep(q) {
				lo[q.id] = 1
				hi[q.id]++
			}
		}
	}
	return lo, hi
}

// probes returns the end points of the store's intervals for predicate p (all predicates if p < 0), their
// two neighbours, and 0, sorted and without repetition.
func (s *store) probes(p int, extra ...pair) []int64 {
	set := map[int64]bool{0: true}
	add := func(q pair) {
		if p >= 0 && s.m.c.Atoms[q.ai].P != p {
			return
		}
		if !q.iv.LoInf {
			set[q.iv.Lo-1], set[q.iv.Lo], set[q.iv.Lo+1] = true, true, true
		}
		if !q.iv.HiInf {
			set[q.iv.Hi-1], set[q.iv.Hi], set[q.iv.Hi+1] = true, true, true
		}
	}
	for l := range s.layers {
		for _, q := range s.layers[l] {
			add(q)
		}
	}
	for _, q := range extra {
		add(q)
	}
	res := make([]int64, 0, len(set))
	for t := range set {
		if t != math.MinInt64 && t != math.MaxInt64 {
			res = append(res, t)
		}
	}
	sort.Slice(res, func(i, j int) bool { return res[i] < res[j] })
	return res
}

func (s *store) dump() []string {
	var res []string
	for l := range s.layers {
		for _, q := range s.layers[l] {
			id := q.id
			if l == 1 {
				id += " (output layer)"
			}
			res = append(res, id)
		}
	}
	sort.Strings(res)
	return res
}

type verdict struct {
	nontrivial bool
	labels     []string
}

type checker struct {
	run    *stats.Run
	f      stats.Failer
	c      Case
	m      *model
	atoms  []ast.Atom
	stores [2]*store // the primary store and, if the case has one, the side store
	cur    *store    // the store the current step works on
	labels map[string]bool
	step   int
}

func (k *checker) label(l string) { k.labels[l] = true }

func (k *checker) failf(format string, args ...any) {
	k.run.Failf(k.f, "step %d (%s): %s", k.step, k.describe(k.step), fmt.Sprintf(format, args...))
}

func (k *checker) describe(i int) string {
	if i < 0 || i >= len(k.c.Ops) {
		return "-"
	}
	op := k.c.Ops[i]
	on := ""
	if op.S == 1 {
		on = " [side store]"
	}
	if op.Macro != "" {
		on += " {" + op.Macro + "}"
	}
	switch op.K {
	case opAdd:
		return fmt.Sprintf("add %s %s", k.m.keys[op.A], op.Iv) + on
	case opContains:
		return fmt.Sprintf("contains %s at %d", k.m.keys[op.A], op.T) + on
	case opAt:
		return fmt.Sprintf("at %d of %s%s", op.T, k.c.Preds[op.P].Sym, patString(op.Pat)) + on
	case opDuring:
		return fmt.Sprintf("during %s of %s%s", op.Iv, k.c.Preds[op.P].Sym, patString(op.Pat)) + on
	case opAll:
		return fmt.Sprintf("all of %s%s", k.c.Preds[op.P].Sym, patString(op.Pat)) + on
	case opCoalesce:
		return fmt.Sprintf("coalesce %s/%d", k.c.Preds[op.P].Sym, k.c.Preds[op.P].Arity) + on
	case opMerge:
		if op.S == 1 {
			return fmt.Sprintf("merge the primary store (%s) into the side store", op.Via)
		}
		return fmt.Sprintf("merge the side store (%s) into the primary store", op.Via)
	case opFresh:
		return fmt.Sprintf("merge the store (%s) into a fresh store with limit %d", op.Via, op.Limit) + on
	}
	return op.K + on
}

func patString(pat []*val.V) string {
	var parts []string
	for _, v := range pat {
		if v == nil {
			parts = append(parts, "_")
		} else {
			parts = append(parts, v.Key())
		}
	}
	return "(" + strings.Join(parts, ",") + ")"
}

// collect runs a read and returns the multiset of answered pairs by model id.
func (k *checker) collect(what string, read func(fn func(factstore.TemporalFact) error) error) map[string]int {
	got := map[string]int{}
	err := read(func(tf factstore.TemporalFact) error {
		iv, e := fromInterval(tf.Interval)
		if e != nil {
			k.failf("%s answered %s with an interval that is no closed interval: %v", what, val.AtomKey(tf.Atom), e)
		}
		got[val.AtomKey(tf.Atom)+"@"+iv.String()]++
		return nil
	})
	if err != nil {
		k.failf("%s returned an error although the callback never fails: %v", what, err)
	}
	return got
}

// compare judges an answer against the allowed multiplicities.
func (k *checker) compare(what string, got, lo, hi map[string]int) {
	ids := map[string]bool{}
	for id := range got {
		ids[id] = true
	}
	for id := range lo {
		ids[id] = true
	}
	sorted := make([]string, 0, len(ids))
	for id := range ids {
		sorted = append(sorted, id)
	}
	sort.Strings(sorted)
	var missing, extra, twice []string
	for _, id := range sorted {
		g := got[id]
		switch {
		case g < lo[id]:
			missing = append(missing, id)
		case hi[id] == 0:
			extra = append(extra, id)
		case g > hi[id]:
			twice = append(twice, fmt.Sprintf("%s x%d", id, g))
		}
	}
	if missing != nil || extra != nil || twice != nil {
		k.failf("%s on the %s store: missing %v, not stored/not matching %v, more than once %v; stored pairs: %v", what, k.cur.name, missing, extra, twice, k.cur.dump())
	}
}

func (k *checker) checkAt(p int, pat []*val.V, t int64) {
	q := k.c.query(p, pat)
	got := k.collect("GetFactsAt", func(fn func(factstore.TemporalFact) error) error {
		return k.cur.reader().GetFactsAt(q, instant(t), fn)
	})
	lo, hi := k.cur.expected(func(x pair) bool { return k.m.matches(x.ai, p, pat) && x.iv.has(t) })
	k.compare(fmt.Sprintf("GetFactsAt(%s%s, %d)", k.c.Preds[p].Sym, patString(pat), t), got, lo, hi)
}

func (k *checker) checkDuring(p int, pat []*val.V, r Iv) {
	q := k.c.query(p, pat)
	got := k.collect("GetFactsDuring", func(fn func(factstore.TemporalFact) error) error {
		return k.cur.reader().GetFactsDuring(q, r.build(), fn)
	})
	lo, hi := k.cur.expected(func(x pair) bool { return k.m.matches(x.ai, p, pat) && x.iv.meets(r) })
	k.compare(fmt.Sprintf("GetFactsDuring(%s%s, %s)", k.c.Preds[p].Sym, patString(pat), r), got, lo, hi)
}

func (k *checker) checkAll(p int, pat []*val.V) {
	q := k.c.query(p, pat)
	got := k.collect("GetAllFacts", func(fn func(factstore.TemporalFact) error) error {
		return k.cur.reader().GetAllFacts(q, fn)
	})
	lo, hi := k.cur.expected(func(x pair) bool { return k.m.matches(x.ai, p, pat) })
	k.compare(fmt.Sprintf("GetAllFacts(%s%s)", k.c.Preds[p].Sym, patString(pat)), got, lo, hi)
}

func (k *checker) checkScan() {
	got := k.collect("GetAllFacts", func(fn func(factstore.TemporalFact) error) error {
		return k.cur.reader().GetAllFacts(ast.Atom{}, fn)
	})
	lo, hi := k.cur.expected(func(pair) bool { return true })
	k.compare("GetAllFacts(no predicate)", got, lo, hi)
}

func (k *checker) checkContains(ai int, t int64) {
	got := k.cur.reader().ContainsAt(k.atoms[ai], instant(t))
	if want := k.cur.containsAt(ai, t); got != want {
		k.failf("ContainsAt(%s, %d) on the %s store = %v, the stored intervals say %v; stored pairs: %v", k.m.keys[ai], t, k.cur.name, got, want, k.cur.dump())
	}
}

func (k *checker) checkCount() {
	got := k.cur.reader().EstimateFactCount()
	_, hi := k.cur.expected(func(pair) bool { return true })
	min, max := len(hi), 0
	for _, n := range hi {
		max += n
	}
	if got < min || got > max {
		k.failf("EstimateFactCount() of the %s store = %d, but %d pairs are stored (%d counting both layers); stored pairs: %v", k.cur.name, got, min, max, k.cur.dump())
	}
}

func (k *checker) doAdd(op Op) {
	st := k.cur
	iv := *op.Iv
	l := st.layer()
	limit := st.layerLimit(l)
	var ok bool
	var err error
	if op.Eternal && iv.LoInf && iv.HiInf {
		ok, err = st.writer().AddEternal(k.atoms[op.A])
	} else {
		ok, err = st.writer().Add(k.atoms[op.A], iv.build())
	}
	p := k.m.pair(op.A, iv)
	dup := st.holds(l, p)
	full := limit > 0 && st.countOf(l, op.A) >= limit
	switch {
	case iv.invalid():
		k.label("add-invalid")
		if ok && err == nil {
			k.failf("Add of the invalid interval %s (start > end) answered (true, nil)", iv)
		}
	case full && dup:
		// either rule may fire first
		k.label("add-dup-at-limit")
		if ok {
			k.failf("Add of an exact duplicate while the atom holds its limit of %d intervals answered (%v, %v)", limit, ok, err)
		}
	case full:
		k.label("add-limit")
		if ok || err == nil {
			k.failf("Add answered (%v, %v) although the atom already holds its limit of %d intervals", ok, err, limit)
		}
	case dup:
		k.label("add-dup")
		if ok || err != nil {
			k.failf("Add of an exact duplicate answered (%v, %v), want (false, nil); stored pairs: %v", ok, err, st.dump())
		}
	default:
		if !ok || err != nil {
			k.failf("Add of a new pair answered (%v, %v), want (true, nil); stored pairs: %v", ok, err, st.dump())
		}
		st.layers[l] = append(st.layers[l], p)
		st.grown[l][k.c.Atoms[op.A].P] = true
	}
}

// scanLayer reads layer l of st with a full scan (of predicate p, of everything if p < 0): every answer must
// be a valid closed interval of an atom of the history (of the predicate), no pair may come twice. The
// pairs are returned in the order of their ids.
func (k *checker) scanLayer(st *store, l, p int, when string) []pair {
	q := ast.Atom{}
	if p >= 0 {
		q = ast.NewQuery(k.c.Preds[p].sym())
	}
	var scanned []pair
	seen := map[string]bool{}
	err := st.layerStore(l).GetAllFacts(q, func(tf factstore.TemporalFact) error {
		key := val.AtomKey(tf.Atom)
		ai, known := k.m.byKey[key]
		if !known || p >= 0 && k.c.Atoms[ai].P != p {
			k.failf("%s the scan yields %s, which was never added there", when, key)
		}
		iv, e := fromInterval(tf.Interval)
		if e != nil {
			k.failf("%s %s carries an interval that is no closed interval: %v", when, key, e)
		}
		if iv.invalid() {
			k.failf("%s %s carries the empty interval %s", when, key, iv)
		}
		x := k.m.pair(ai, iv)
		if seen[x.id] {
			k.failf("%s the scan yields %s twice", when, x.id)
		}
		seen[x.id] = true
		scanned = append(scanned, x)
		return nil
	})
	if err != nil {
		k.failf("GetAllFacts returned an error although the callback never fails: %v", err)
	}
	sort.Slice(scanned, func(i, j int) bool { return scanned[i].id < scanned[j].id })
	return scanned
}

func (k *checker) doCoalesce(p int) {
	st := k.cur
	l := st.layer()
	// classify what the coalescing has to do
	var mine []pair
	for _, q := range st.layers[l] {
		if k.c.Atoms[q.ai].P == p {
			mine = append(mine, q)
		}
	}
	for i, a := range mine {
		if st.merged[l][a.id] {
			k.label("coalesce-after-merge")
			for _, b := range mine {
				if a.ai == b.ai && a.id != b.id && a.iv.finite() != b.iv.finite() {
					k.label("coalesce-after-merge-finite+unbounded")
				}
			}
		}
		for j, b := range mine {
			if i == j || a.ai != b.ai || !a.iv.finite() || !b.iv.finite() {
				continue
			}
			if a.iv.Hi+1 == b.iv.Lo {
				k.label("coalesce-adjacent")
			}
			if a.iv.Hi+2 == b.iv.Lo {
				k.label("coalesce-gap1")
			}
			if i < j && a.iv.meets(b.iv) {
				k.label("coalesce-overlap")
			}
		}
	}
	if n, done := st.coalescedAt[l][p]; done {
		k.label("coalesce-again")
		if st.grown[l][p] {
			k.label("coalesce-again-after-insertions")
			// the layer holds as many pairs as right after the last coalescing of p although p has grown:
			// another predicate has lost as many pairs to its coalescing as were inserted since
			if n == len(st.layers[l]) {
				k.label("coalesce-again-after-insertions-at-equal-pair-count")
			}
		}
	}
	before := st.probes(p)
	var members []int
	for ai, a := range k.c.Atoms {
		if a.P == p {
			members = append(members, ai)
		}
	}
	for _, ai := range members {
		for _, t := range before {
			k.checkContains(ai, t) // the store agrees with the model before ...
		}
	}
	if err := st.writer().Coalesce(k.c.Preds[p].sym()); err != nil {
		k.failf("Coalesce returned %v", err)
	}
	// scan the layer that was coalesced
	scanned := k.scanLayer(st, l, p, "after Coalesce")
	if len(scanned) < len(mine) {
		k.label("coalesce-merged")
	}
	// finite intervals of one atom: neither overlapping nor adjacent
	for i, a := range scanned {
		for j, b := range scanned {
			if i == j || a.ai != b.ai || !a.iv.finite() || !b.iv.finite() {
				continue
			}
			if a.iv.Lo <= b.iv.Lo && !(a.iv.Hi < b.iv.Lo-1) {
				k.failf("after Coalesce %s holds %s and %s, which overlap or are adjacent; before: %v", k.m.keys[a.ai], a.iv, b.iv, st.dump())
			}
		}
	}
	// the instants at which each atom holds are unchanged: compare the old and the new pairs, and the
	// store's own membership answer, at every end point (old and new) and its neighbours.
	after := st.probes(p, scanned...)
	old := st.layers[l]
	var kept []pair
	for _, q := range old {
		if k.c.Atoms[q.ai].P != p {
			kept = append(kept, q)
		}
	}
	oldDump := st.dump()
	want := map[[2]int64]bool{}
	for _, ai := range members {
		for _, t := range after {
			want[[2]int64{int64(ai), t}] = st.containsAt(ai, t)
		}
	}
	st.layers[l] = append(kept, scanned...)
	st.coalescedAt[l][p], st.grown[l][p] = len(st.layers[l]), false
	for _, ai := range members {
		for _, t := range after {
			w := want[[2]int64{int64(ai), t}]
			if got := st.containsAt(ai, t); got != w {
				k.failf("Coalesce changed whether %s holds at %d: before %v, after %v; before: %v; after: %v", k.m.keys[ai], t, w, got, oldDump, st.dump())
			}
			if got := st.reader().ContainsAt(k.atoms[ai], instant(t)); got != w {
				k.failf("after Coalesce ContainsAt(%s, %d) = %v, before it was %v; before: %v; after: %v", k.m.keys[ai], t, got, w, oldDump, st.dump())
			}
		}
	}
	k.checkCount()
}

// doMerge merges src (through the handle named by via) into dst and judges the outcome; tag prefixes the
// labels. Merge is a sequence of insertions into the layer writes of dst go to.
func (k *checker) doMerge(dst, src *store, via, tag string) {
	saved := k.cur
	defer func() { k.cur = saved }()
	k.label(tag)
	var handle factstore.ReadOnlyTemporalFactStore = src.base
	srcLayers := 1
	if via == viaView && src.tee != nil {
		handle, srcLayers = src.tee, 2
		k.label(tag + "-source-tee")
	} else {
		k.label(tag + "-source-plain")
		if src.limit > 0 {
			k.label(tag + "-source-plain-with-limit")
		}
	}
	// what the source offers: its distinct pairs, and how often each comes (a pair held by both layers of a
	// teeing source is offered twice)
	times := map[string]int{}
	var offer []pair
	for l := 0; l < srcLayers; l++ {
		for _, q := range src.layers[l] {
			if times[q.id] == 0 {
				offer = append(offer, q)
			}
			times[q.id]++
		}
	}
	if len(offer) == 0 {
		k.label(tag + "-empty-source")
	}
	l := dst.layer()
	limit := dst.layerLimit(l)
	if l == 1 {
		k.label(tag + "-into-tee")
	}
	old := map[string]bool{}
	have, fresh, offered := map[int]int{}, map[int]int{}, map[int]int{}
	for _, q := range dst.layers[l] {
		old[q.id] = true
		have[q.ai]++
	}
	union := map[string]bool{}
	for id := range old {
		union[id] = true
	}
	for _, q := range offer {
		offered[q.ai] += times[q.id]
		union[q.id] = true
		if old[q.id] {
			k.label(tag + "-offers-duplicate")
			continue
		}
		fresh[q.ai]++
		switch {
		case q.iv.LoInf && q.iv.HiInf:
			k.label(tag + "-adds-eternal")
		case q.iv.LoInf || q.iv.HiInf:
			k.label(tag + "-adds-half-unbounded")
		default:
			k.label(tag + "-adds-finite")
		}
	}
	// must: the union gives some atom more than `limit` intervals. may: some atom ends exactly at its limit
	// and a pair it holds by then is offered (again) - a duplicate at the limit, where either rule may fire.
	must, may := -1, false
	if limit > 0 {
		k.label(tag + "-target-with-limit")
		for ai := range k.c.Atoms {
			switch n := have[ai] + fresh[ai]; {
			case n > limit && fresh[ai] > 0:
				if must < 0 {
					must = ai
				}
			case n >= limit && offered[ai] > fresh[ai]:
				may = true
			}
		}
	}
	err := dst.writer().Merge(handle)
	switch {
	case err == nil && must >= 0:
		k.failf("Merge into the %s store returned nil although %s holds %d intervals there, the source offers %d further ones and the limit is %d; target: %v; offered: %v",
			dst.name, k.m.keys[must], have[must], fresh[must], limit, dst.dump(), ids(offer))
	case err != nil && must < 0 && !may:
		k.failf("Merge into the %s store returned %v although the union leaves every atom within the limit %d; target: %v; offered: %v", dst.name, err, limit, dst.dump(), ids(offer))
	}
	switch {
	case err != nil && must >= 0:
		k.label(tag + "-refused-at-limit")
	case err != nil:
		k.label(tag + "-refused-duplicate-at-limit")
	case may:
		k.label(tag + "-accepted-duplicate-at-limit")
	}
	// what the target layer holds now
	scanned := k.scanLayer(dst, l, -1, "after Merge")
	got := map[string]bool{}
	count := map[int]int{}
	var extra, missing []string
	for _, q := range scanned {
		got[q.id] = true
		count[q.ai]++
		if !union[q.id] {
			extra = append(extra, q.id)
		}
	}
	for _, q := range dst.layers[l] {
		if !got[q.id] {
			missing = append(missing, q.id)
		}
	}
	if err == nil {
		for _, q := range offer {
			if !got[q.id] && !old[q.id] {
				missing = append(missing, q.id)
			}
		}
	}
	if extra != nil || missing != nil {
		sort.Strings(missing)
		k.failf("after Merge (result %v) the %s store lacks %v and holds %v that neither it nor the source held; before: %v; offered: %v", err, dst.name, missing, extra, dst.dump(), ids(offer))
	}
	if limit > 0 {
		for ai := range k.c.Atoms {
			if count[ai] > limit && count[ai] > have[ai] {
				k.failf("after Merge (result %v) %s holds %d intervals in the %s store, the limit is %d; before: %v; offered: %v", err, k.m.keys[ai], count[ai], dst.name, limit, dst.dump(), ids(offer))
			}
		}
	}
	for _, q := range scanned {
		if !old[q.id] {
			dst.merged[l][q.id] = true
			dst.grown[l][k.c.Atoms[q.ai].P] = true
		}
	}
	if err != nil && len(scanned) > len(dst.layers[l]) {
		k.label(tag + "-refused-after-a-prefix")
	}
	dst.layers[l] = scanned
	if n := dst.layerStore(l).EstimateFactCount(); n != len(scanned) {
		k.failf("after Merge (result %v) EstimateFactCount() of the %s store = %d, but it holds %d pairs: %v", err, dst.name, n, len(scanned), dst.dump())
	}
	// the answers of the target are those of the union; the source is what it was
	k.cur = dst
	k.doSweep()
	k.cur = src
	k.checkScan()
	k.checkCount()
}

func ids(ps []pair) []string {
	res := make([]string, 0, len(ps))
	for _, q := range ps {
		res = append(res, q.id)
	}
	sort.Strings(res)
	return res
}

func (k *checker) doSweep() {
	st := k.cur
	for p := range k.c.Preds {
		ts := st.probes(p)
		for i, t := range ts {
			k.checkAt(p, nil, t)
			switch {
			case i%3 == 0 && i+3 < len(ts):
				k.checkDuring(p, nil, Iv{Lo: t, Hi: ts[i+3]})
			case i%3 == 1:
				k.checkDuring(p, nil, Iv{LoInf: true, Hi: t})
			default:
				k.checkDuring(p, nil, Iv{Lo: t, HiInf: true})
			}
		}
		for ai, a := range k.c.Atoms {
			if a.P == p {
				for _, t := range ts {
					k.checkContains(ai, t)
				}
			}
		}
		k.checkAll(p, nil)
	}
	k.checkScan()
	k.checkCount()
}

// rich tells whether a read of the current store that reaches the atoms selected by sel meets a tree worth
// the name: some selected atom holds >= 6 intervals in one layer (rotations happened) among them two with
// the same start or an unbounded one.
func (k *checker) rich(sel func(ai int) bool) bool {
	st := k.cur
	for l := range st.layers {
		for ai := range k.c.Atoms {
			if !sel(ai) || st.countOf(l, ai) < 6 {
				continue
			}
			starts := map[string]bool{}
			for _, q := range st.layers[l] {
				if q.ai != ai {
					continue
				}
				if q.iv.LoInf || q.iv.HiInf {
					return true
				}
				s := fmt.Sprint(q.iv.Lo)
				if starts[s] {
					return true
				}
				starts[s] = true
			}
		}
	}
	return false
}

func (k *checker) noteShape() {
	st := k.cur
	for l := range st.layers {
		for ai := range k.c.Atoms {
			n := st.countOf(l, ai)
			if n >= 6 {
				k.label("tree>=6")
			}
			if n >= 12 {
				k.label("tree>=12")
			}
		}
		for i, a := range st.layers[l] {
			switch {
			case a.iv.LoInf && a.iv.HiInf:
				k.label("stored-eternal")
			case a.iv.LoInf:
				k.label("stored-unbounded-left")
			case a.iv.HiInf:
				k.label("stored-unbounded-right")
			}
			if !a.iv.LoInf && (a.iv.Lo > 1<<40 || a.iv.Lo < -(1<<40)) || !a.iv.HiInf && (a.iv.Hi > 1<<40 || a.iv.Hi < -(1<<40)) {
				k.label("stored-far-from-zero")
			}
			for j, b := range st.layers[l] {
				if i >= j || a.ai != b.ai {
					continue
				}
				if a.iv.LoInf == b.iv.LoInf && a.iv.Lo == b.iv.Lo {
					k.label("stored-equal-start")
				}
				if a.iv.finite() && b.iv.finite() {
					if a.iv.Hi+1 == b.iv.Lo || b.iv.Hi+1 == a.iv.Lo {
						k.label("stored-touching")
					}
					if (a.iv.Lo <= b.iv.Lo && b.iv.Hi <= a.iv.Hi) || (b.iv.Lo <= a.iv.Lo && a.iv.Hi <= b.iv.Hi) {
						k.label("stored-nested")
					}
				}
			}
		}
	}
}

// check replays the history against fresh stores and the model.
func check(run *stats.Run, f stats.Failer, c Case) verdict {
	k := &checker{run: run, f: f, c: c, labels: map[string]bool{}, step: -1}
	k.m = &model{c: c, byKey: map[string]int{}}
	for i := range c.Atoms {
		a := c.atom(i)
		k.atoms = append(k.atoms, a)
		key := val.AtomKey(a)
		if _, dup := k.m.byKey[key]; dup {
			run.Failf(f, "malformed case: atom %d repeats %s", i, key)
		}
		k.m.keys = append(k.m.keys, key)
		k.m.byKey[key] = i
	}
	k.stores[0] = newStore(k.m, "primary", c.Limit, c.ZeroLimit)
	if c.Limit > 0 {
		k.label("limit")
	}
	if c.Side != nil {
		k.stores[1] = newStore(k.m, "side", c.Side.Limit, c.Side.ZeroLimit)
		k.label("side-store")
		if c.Side.Limit > 0 {
			k.label("side-store-limit")
		}
	}
	predAtoms := map[int]int{}
	for _, a := range c.Atoms {
		predAtoms[a.P]++
	}
	for _, n := range predAtoms {
		if n >= 2 {
			k.label("several-atoms-per-predicate")
		}
	}
	nontrivial := false
	for i, op := range c.Ops {
		k.step = i
		if c.Tee && i == c.Split {
			k.stores[0].tee = factstore.NewTeeingTemporalStore(k.stores[0].base)
			k.label("tee")
		}
		if c.Side != nil && c.Side.Tee && i == c.Side.Split {
			k.stores[1].tee = factstore.NewTeeingTemporalStore(k.stores[1].base)
			k.label("side-store-tee")
		}
		if op.S < 0 || op.S > 1 || k.stores[op.S] == nil {
			run.Failf(f, "malformed case: step %d works on store %d, which the case does not have", i, op.S)
		}
		k.cur = k.stores[op.S]
		switch op.K {
		case opAdd:
			k.doAdd(op)
		case opAt:
			k.checkAt(op.P, op.Pat, op.T)
			nontrivial = nontrivial || k.rich(func(ai int) bool { return k.m.matches(ai, op.P, op.Pat) })
		case opDuring:
			k.checkDuring(op.P, op.Pat, *op.Iv)
			nontrivial = nontrivial || k.rich(func(ai int) bool { return k.m.matches(ai, op.P, op.Pat) })
			if op.Iv.LoInf || op.Iv.HiInf {
				k.label("range-unbounded")
			}
		case opAll:
			k.checkAll(op.P, op.Pat)
			nontrivial = nontrivial || k.rich(func(ai int) bool { return k.m.matches(ai, op.P, op.Pat) })
		case opScan:
			k.checkScan()
			nontrivial = nontrivial || k.rich(func(int) bool { return true })
		case opContains:
			k.checkContains(op.A, op.T)
			nontrivial = nontrivial || k.rich(func(ai int) bool { return ai == op.A })
		case opCount:
			k.checkCount()
		case opCoalesce:
			k.label("coalesce")
			k.doCoalesce(op.P)
		case opSweep:
			k.label("sweep")
			k.doSweep()
			nontrivial = nontrivial || k.rich(func(int) bool { return true })
		case opMerge:
			other := k.stores[1-op.S]
			if other == nil {
				run.Failf(f, "malformed case: step %d merges a side store the case does not have", i)
			}
			k.doMerge(k.cur, other, op.Via, "merge")
			nontrivial = nontrivial || k.rich(func(int) bool { return true }) // the merge ends with a sweep of its target
		case opFresh:
			k.doMerge(newStore(k.m, "fresh", op.Limit, op.ZeroLimit), k.cur, op.Via, "merge-fresh")
		default:
			run.Failf(f, "malformed case: unknown operation %q", op.K)
		}
		if op.K == opAdd || op.K == opCoalesce || op.K == opMerge {
			k.noteShape()
		}
		if op.Pat != nil {
			k.label("read-with-constant")
		}
		if op.Macro != "" {
			k.label("macro:" + op.Macro)
		}
	}
	v := verdict{nontrivial: nontrivial}
	for l := range k.labels {
		v.labels = append(v.labels, l)
	}
	sort.Strings(v.labels)
	return v
}

func TestC13(t *testing.T) {
	run := stats.Begin("C13", "TestC13")
	defer run.Finish(t)
	rapid.Check(t, func(rt *rapid.T) {
		c := genCase(run, rt)
		run.Current(c)
		v := check(run, rt, c)
		run.Case(v.nontrivial, c.hash(), v.labels...)
		if v.nontrivial {
			run.Sample("history", c)
		}
	})
}

func TestReplay(t *testing.T) {
	var c Case
	if !stats.LoadReplay(t, &c) {
		return
	}
	run := stats.Begin("C13", "TestReplay")
	check(run, t, c)
}
