package c13

import (
	"pgregory.net/rapid"
	"verif/stats"
	"verif/val"
)

// The discrete timeline: 0..24 and two far regions around +-2^62 (differences between the regions overflow
// int64, the sentinels MinInt64/MaxInt64 are never time stamps).
const far = int64(1) << 62

func genTick(t *rapid.T, label string) int64 {
	switch r := rapid.IntRange(0, 11).Draw(t, label+"region"); {
	case r == 10:
		return far + rapid.Int64Range(-6, 6).Draw(t, label)
	case r == 11:
		return -far + rapid.Int64Range(-6, 6).Draw(t, label)
	default:
		return rapid.Int64Range(0, 24).Draw(t, label)
	}
}

// genProbe draws a query instant: a tick or a neighbour of one.
func genProbe(t *rapid.T, label string) int64 {
	return genTick(t, label) + rapid.Int64Range(-1, 1).Draw(t, label+"off")
}

func ordered(a, b int64) (int64, int64) {
	if a > b {
		return b, a
	}
	return a, b
}

// genInterval draws the next interval for an atom whose earlier intervals are hist.
func genInterval(t *rapid.T, hist []Iv) Iv {
	mode := rapid.IntRange(0, 17).Draw(t, "ivmode")
	var h Iv
	if len(hist) > 0 {
		h = hist[rapid.IntRange(0, len(hist)-1).Draw(t, "earlier")]
	} else if mode >= 4 && mode <= 11 {
		mode = 0
	}
	small := rapid.Int64Range(0, 4).Draw(t, "small")
	switch mode {
	case 4: // equal start
		if h.LoInf {
			return Iv{LoInf: true, Hi: genTick(t, "hi")}
		}
		hi := genTick(t, "hi")
		if hi < h.Lo {
			hi = h.Lo + small
		}
		return Iv{Lo: h.Lo, Hi: hi}
	case 5: // nested in an earlier one
		if h.finite() && h.Lo <= h.Hi && h.Hi-h.Lo >= 0 && h.Hi-h.Lo < 64 {
			lo := rapid.Int64Range(h.Lo, h.Hi).Draw(t, "nlo")
			hi := rapid.Int64Range(lo, h.Hi).Draw(t, "nhi")
			return Iv{Lo: lo, Hi: hi}
		}
		lo, hi := ordered(genTick(t, "lo"), genTick(t, "hi"))
		return Iv{Lo: lo, Hi: hi}
	case 6: // touching on the right: start = earlier end + 1
		if !h.HiInf {
			return Iv{Lo: h.Hi + 1, Hi: h.Hi + 1 + small}
		}
	case 7: // touching on the left: end + 1 = earlier start
		if !h.LoInf {
			return Iv{Lo: h.Lo - 1 - small, Hi: h.Lo - 1}
		}
	case 8: // overlapping the right end
		if h.finite() && h.Lo <= h.Hi && h.Hi-h.Lo >= 0 && h.Hi-h.Lo < 64 {
			lo := rapid.Int64Range(h.Lo, h.Hi).Draw(t, "olo")
			return Iv{Lo: lo, Hi: h.Hi + 1 + small}
		}
	case 9: // exact duplicate
		return h
	case 10: // equal end
		if !h.HiInf {
			lo := genTick(t, "lo")
			if lo > h.Hi {
				lo = h.Hi - small
			}
			return Iv{Lo: lo, Hi: h.Hi}
		}
	case 11: // one instant apart (gap of exactly one free nanosecond): must NOT be merged
		if !h.HiInf && len(hist) > 0 {
			return Iv{Lo: h.Hi + 2, Hi: h.Hi + 2 + small}
		}
	case 12:
		return Iv{LoInf: true, Hi: genTick(t, "hi")}
	case 13:
		return Iv{Lo: genTick(t, "lo"), HiInf: true}
	case 14:
		return Iv{LoInf: true, HiInf: true}
	case 15: // invalid: start > end
		lo, hi := ordered(genTick(t, "lo"), genTick(t, "hi"))
		if lo == hi {
			hi++
		}
		return Iv{Lo: hi, Hi: lo}
	case 16: // a single instant
		x := genTick(t, "lo")
		return Iv{Lo: x, Hi: x}
	}
	lo, hi := ordered(genTick(t, "lo"), genTick(t, "hi"))
	return Iv{Lo: lo, Hi: hi}
}

var plainArgs = []val.V{val.I(1), val.I(2), val.I(3), val.N("/a"), val.N("/b"), val.S("x")}

// genAtoms draws the predicates and the pairwise different atoms of a case. Arguments are plain small
// numbers, names and strings; in some cases two atoms of one predicate differ only in an argument taken
// from a group of constants with equal Hash() (known finding K08). While the exclusion is active the second
// atom of such a pair (any atom whose Atom.Hash() equals that of an earlier, different atom) is left out and counted.
func genAtoms(run *stats.Run, t *rapid.T) ([]Pred, []Atom) {
	var preds []Pred
	switch rapid.IntRange(0, 5).Draw(t, "predshape") {
	case 0, 1, 2:
		preds = []Pred{{"p", 1}}
	case 3:
		preds = []Pred{{"p", 2}, {"q", 1}}
	case 4:
		preds = []Pred{{"p", 1}, {"p", 2}} // one symbol at two arities
	default:
		preds = []Pred{{"p", 1}, {"q", 0}}
	}
	n := rapid.IntRange(1, 5).Draw(t, "natoms")
	var drawn []Atom
	for i := 0; i < n; i++ {
		p := 0
		if len(preds) > 1 && rapid.IntRange(0, 3).Draw(t, "otherpred") == 3 {
			p = 1
		}
		a := Atom{P: p, Args: []val.V{}}
		for j := 0; j < preds[p].Arity; j++ {
			a.Args = append(a.Args, rapid.SampledFrom(plainArgs).Draw(t, "arg"))
		}
		drawn = append(drawn, a)
	}
	if rapid.IntRange(0, 3).Draw(t, "colliders") == 3 && preds[0].Arity > 0 {
		groups := val.Colliders()
		g := groups[rapid.IntRange(0, len(groups)-1).Draw(t, "group")]
		i := rapid.IntRange(0, len(g)-1).Draw(t, "ci")
		j := rapid.IntRange(0, len(g)-2).Draw(t, "cj")
		if j >= i {
			j++
		}
		pos := rapid.IntRange(0, preds[0].Arity-1).Draw(t, "cpos")
		rest := rapid.SampledFrom(plainArgs).Draw(t, "crest")
		for _, x := range []val.V{g[i], g[j]} {
			a := Atom{P: 0}
			for q := 0; q < preds[0].Arity; q++ {
				if q == pos {
					a.Args = append(a.Args, x)
				} else {
					a.Args = append(a.Args, rest)
				}
			}
			drawn = append(drawn, a)
		}
	}
	// keep pairwise different atoms; handle hash-equal ones according to the exclusion
	var atoms []Atom
	keys := map[string]bool{}
	hashes := map[uint64]bool{}
	probe := Case{Preds: preds}
	for _, a := range drawn {
		probe.Atoms = []Atom{a}
		built := probe.atom(0)
		key := val.AtomKey(built)
		if keys[key] {
			continue
		}
		if h := built.Hash(); hashes[h] {
			if stats.Exclusion(exclK08) {
				run.Excluded(exclK08)
				continue
			}
		} else {
			hashes[h] = true
		}
		keys[key] = true
		atoms = append(atoms, a)
	}
	return preds, atoms
}

func genPattern(t *rapid.T, preds []Pred, atoms []Atom, p int) []*val.V {
	if preds[p].Arity == 0 || rapid.IntRange(0, 3).Draw(t, "fixarg") != 0 {
		return nil
	}
	var mine []Atom
	for _, a := range atoms {
		if a.P == p {
			mine = append(mine, a)
		}
	}
	pat := make([]*val.V, preds[p].Arity)
	pos := rapid.IntRange(0, preds[p].Arity-1).Draw(t, "fixpos")
	var v val.V
	if len(mine) > 0 && rapid.IntRange(0, 4).Draw(t, "fixknown") != 0 {
		v = mine[rapid.IntRange(0, len(mine)-1).Draw(t, "fixfrom")].Args[pos]
	} else {
		v = rapid.SampledFrom(plainArgs).Draw(t, "fixval")
	}
	pat[pos] = &v
	return pat
}

// genLimit draws the interval limit of a store: none (the default of 1000), a small one in a third of the
// draws, the documented "no limit" value -1, or the option with 0.
func genLimit(t *rapid.T, label string) (limit int, zero bool) {
	switch rapid.IntRange(0, 11).Draw(t, label+"mode") {
	case 8, 9, 10, 11:
		return rapid.SampledFrom([]int{1, 2, 3, 4, 6, 7, 8, 10, 12}).Draw(t, label), false
	case 7:
		return -1, false
	case 6:
		return 0, true
	}
	return 0, false
}

func genVia(t *rapid.T) string {
	if rapid.IntRange(0, 9).Draw(t, "via") < 6 {
		return viaBase
	}
	return viaView
}

// Coalescing interleaved over two predicates (macro-step, a quarter of the histories). Coalesce works per
// predicate while the pair count of a store is one number; the block makes the count return to the value it had
// after a predicate was coalesced although that predicate has received overlapping intervals since:
//
//	[Coalesce(P2)]                                   (3 of 4: the other atoms of P2 have nothing left to merge)
//	Add r1 base; Add r2 k+1 intervals                (variant A: chained, each overlapping/adjacent to the ones
//	                                                  before; variant B: pairwise disjoint, >= 1 free ns between)
//	Coalesce(P1)
//	Add r1 k intervals overlapping/adjacent to what r1 holds  [variant B: Add r2 one interval bridging its k+1]
//	Coalesce(P2)                                     (merges k pairs away [B: k+1])
//	Coalesce(P1)
//
// r1, r2 are atoms of P1, P2 that no other step of the history writes to (appended to the atoms of the case),
// so the numbers are exact wherever the block stands; all its steps go to one store. Nothing is asserted that
// the steps Add and Coalesce do not assert anywhere else.
const macroInterleave = "coalesce-interleaving"

// chainNext draws an interval overlapping or adjacent to the hull (one connected finite interval) and
// extending it on one side by at least one instant; it returns the interval and the new hull.
func chainNext(t *rapid.T, hull Iv) (Iv, Iv) {
	small := rapid.Int64Range(0, 2).Draw(t, "chainsmall")
	if rapid.IntRange(0, 3).Draw(t, "chainleft") == 0 {
		hi := rapid.Int64Range(hull.Lo-1, hull.Hi).Draw(t, "chainhi") // hull.Lo-1: adjacent
		iv := Iv{Lo: hull.Lo - 1 - small, Hi: hi}
		return iv, Iv{Lo: iv.Lo, Hi: hull.Hi}
	}
	lo := rapid.Int64Range(hull.Lo, hull.Hi+1).Draw(t, "chainlo") // hull.Hi+1: adjacent
	iv := Iv{Lo: lo, Hi: hull.Hi + 1 + small}
	return iv, Iv{Lo: hull.Lo, Hi: iv.Hi}
}

// reserveAtom appends to the case an atom of predicate p that differs (key and hash) from all its atoms.
func reserveAtom(c *Case, p int) (int, bool) {
	keys := map[string]bool{}
	hashes := map[uint64]bool{}
	for i := range c.Atoms {
		built := c.atom(i)
		keys[val.AtomKey(built)] = true
		hashes[built.Hash()] = true
	}
	for _, v := range []val.V{val.I(7), val.I(8), val.I(9), val.N("/r"), val.S("y")} {
		a := Atom{P: p, Args: []val.V{}}
		for j := 0; j < c.Preds[p].Arity; j++ {
			a.Args = append(a.Args, v)
		}
		probe := Case{Preds: c.Preds, Atoms: []Atom{a}}
		built := probe.atom(0)
		if !keys[val.AtomKey(built)] && !hashes[built.Hash()] {
			c.Atoms = append(c.Atoms, a)
			return len(c.Atoms) - 1, true
		}
		if c.Preds[p].Arity == 0 {
			break
		}
	}
	return 0, false
}

// genInterleave builds the block for store st (per-atom limit as Case.Limit); nil if the limit leaves no room.
func genInterleave(t *rapid.T, c *Case, st, limit int) []Op {
	k := rapid.IntRange(1, 3).Draw(t, "ilk")
	bridge := rapid.Bool().Draw(t, "ilbridge") // variant B
	if limit > 0 {
		if limit < 2 {
			return nil
		}
		if k > limit-1 {
			k = limit - 1
		}
		if k > limit-2 {
			bridge = false
		}
	}
	order := rapid.Permutation([]int{0, 1}).Draw(t, "ilpreds")
	var p, r [2]int // P1, P2 and their reserved atoms
	for i := range p {
		p[i] = order[i]
		ai, ok := reserveAtom(c, p[i])
		if !ok {
			// a predicate without arguments whose only atom is in use: a predicate of its own
			c.Preds = append(c.Preds, Pred{"r", 1})
			p[i] = len(c.Preds) - 1
			ai, _ = reserveAtom(c, p[i])
		}
		r[i] = ai
	}
	add := func(a int, iv Iv) Op { iv2 := iv; return Op{K: opAdd, S: st, A: a, Iv: &iv2, Macro: macroInterleave} }
	coalesce := func(pi int) Op { return Op{K: opCoalesce, S: st, P: pi, Macro: macroInterleave} }
	var ops []Op
	if rapid.IntRange(0, 3).Draw(t, "ilnormalise") > 0 {
		ops = append(ops, coalesce(p[1]))
	}
	// before the first coalescing of P1
	x := rapid.Int64Range(0, 12).Draw(t, "ilbase1")
	hull1 := Iv{Lo: x, Hi: x + rapid.Int64Range(0, 4).Draw(t, "illen1")}
	pre := []Op{add(r[0], hull1)}
	y := rapid.Int64Range(0, 12).Draw(t, "ilbase2")
	first2 := Iv{Lo: y, Hi: y + rapid.Int64Range(0, 3).Draw(t, "illen2")}
	pre = append(pre, add(r[1], first2))
	hull2, last2 := first2, first2
	for i := 0; i < k; i++ {
		var iv Iv
		if bridge {
			lo := last2.Hi + 2 + rapid.Int64Range(0, 2).Draw(t, "ilgap")
			iv = Iv{Lo: lo, Hi: lo + rapid.Int64Range(0, 3).Draw(t, "illen2")}
			hull2.Hi = iv.Hi
		} else {
			iv, hull2 = chainNext(t, hull2)
		}
		last2 = iv
		pre = append(pre, add(r[1], iv))
	}
	ops = append(ops, rapid.Permutation(pre).Draw(t, "ilpreorder")...)
	ops = append(ops, coalesce(p[0]))
	// between the two coalescings of P1
	var post []Op
	for i := 0; i < k; i++ {
		var iv Iv
		iv, hull1 = chainNext(t, hull1)
		post = append(post, add(r[0], iv))
	}
	if bridge {
		// from inside / right behind the first interval to inside / right before the last one
		lo := rapid.Int64Range(first2.Lo, first2.Hi+1).Draw(t, "ilbridgelo")
		hi := rapid.Int64Range(last2.Lo-1, last2.Hi).Draw(t, "ilbridgehi")
		post = append(post, add(r[1], Iv{Lo: lo, Hi: hi}))
	}
	ops = append(ops, rapid.Permutation(post).Draw(t, "ilpostorder")...)
	return append(ops, coalesce(p[1]), coalesce(p[0]))
}

func genCase(run *stats.Run, t *rapid.T) Case {
	preds, atoms := genAtoms(run, t)
	interleave := rapid.IntRange(0, 3).Draw(t, "interleave") == 0
	if interleave && len(preds) == 1 {
		preds = append(preds, Pred{"q", 1})
	}
	c := Case{Preds: preds, Atoms: atoms}
	c.Limit, c.ZeroLimit = genLimit(t, "limit")
	// Four histories of ten have a second store beside the primary one; its steps and the merges between the
	// two are interleaved with the steps of the primary store.
	side := rapid.IntRange(0, 9).Draw(t, "side") < 4
	if side {
		c.Side = &Side{}
		c.Side.Limit, c.Side.ZeroLimit = genLimit(t, "sidelimit")
	}
	// The history is a self-delimiting sequence (rapid can delete single steps while shrinking); its minimum
	// length is drawn first so that long histories are as frequent as short ones.
	minOps := rapid.SampledFrom([]int{1, 8, 16, 24, 32}).Draw(t, "minops")
	tee := rapid.IntRange(0, 3).Draw(t, "tee") == 3
	focus := rapid.IntRange(0, len(atoms)-1).Draw(t, "focus")
	// hist holds, per atom, the intervals offered to either store: an interval for the side store is drawn
	// relative to those of the primary store and vice versa, so that a merge meets exact duplicates, equal
	// starts, nested, touching and overlapping intervals across the two stores.
	hist := make([][]Iv, len(atoms))
	pickAtom := func(t *rapid.T, label string) int {
		if len(atoms) == 1 || rapid.IntRange(0, 9).Draw(t, label+"focus") < 6 {
			return focus
		}
		return rapid.IntRange(0, len(atoms)-1).Draw(t, label)
	}
	pickPred := func(t *rapid.T, label string) int {
		if len(preds) == 1 || rapid.IntRange(0, 9).Draw(t, label+"focus") < 7 {
			return atoms[focus].P
		}
		return rapid.IntRange(0, len(preds)-1).Draw(t, label)
	}
	pickStore := func(t *rapid.T) int {
		if side && rapid.IntRange(0, 9).Draw(t, "store") < 4 {
			return 1
		}
		return 0
	}
	genFresh := func(t *rapid.T) Op {
		op := Op{K: opFresh, S: pickStore(t), Via: genVia(t)}
		// the new store has a limit in half of the draws (a small one more often than genLimit gives it)
		if rapid.Bool().Draw(t, "freshlimited") {
			op.Limit = rapid.SampledFrom([]int{1, 2, 3, 4, 6, 8, 12}).Draw(t, "freshlimit")
		} else {
			op.Limit, op.ZeroLimit = genLimit(t, "freshlimit")
		}
		return op
	}
	step := rapid.Custom(func(t *rapid.T) Op {
		var op Op
		w := rapid.IntRange(0, 99).Draw(t, "op")
		if !side && w >= 50 && w < 56 {
			w = 0 // no second store to merge with: an insertion instead
		}
		switch {
		case w < 50:
			a := pickAtom(t, "addatom")
			iv := genInterval(t, hist[a])
			hist[a] = append(hist[a], iv)
			op = Op{K: opAdd, A: a, Iv: &iv}
			if iv.LoInf && iv.HiInf {
				op.Eternal = rapid.Bool().Draw(t, "viaAddEternal")
			}
		case w < 56:
			return Op{K: opMerge, S: pickStore(t), Via: genVia(t)}
		case w < 58:
			return genFresh(t)
		case w < 67:
			p := pickPred(t, "atpred")
			op = Op{K: opAt, P: p, Pat: genPattern(t, preds, atoms, p), T: genProbe(t, "t")}
		case w < 75:
			p := pickPred(t, "duringpred")
			var r Iv
			switch rapid.IntRange(0, 5).Draw(t, "rangemode") {
			case 0:
				r = Iv{LoInf: true, Hi: genProbe(t, "rhi")}
			case 1:
				r = Iv{Lo: genProbe(t, "rlo"), HiInf: true}
			case 2:
				r = Iv{LoInf: true, HiInf: true}
			default:
				lo, hi := ordered(genProbe(t, "rlo"), genProbe(t, "rhi"))
				r = Iv{Lo: lo, Hi: hi}
			}
			op = Op{K: opDuring, P: p, Pat: genPattern(t, preds, atoms, p), Iv: &r}
		case w < 79:
			p := pickPred(t, "allpred")
			op = Op{K: opAll, P: p, Pat: genPattern(t, preds, atoms, p)}
		case w < 81:
			op = Op{K: opScan}
		case w < 88:
			op = Op{K: opContains, A: pickAtom(t, "containsatom"), T: genProbe(t, "t")}
		case w < 90:
			op = Op{K: opCount}
		case w < 96:
			op = Op{K: opCoalesce, P: pickPred(t, "coalescepred")}
		default:
			op = Op{K: opSweep}
		}
		op.S = pickStore(t)
		return op
	})
	c.Ops = rapid.SliceOfN(step, minOps, 44).Draw(t, "ops")
	if interleave {
		st, limit := pickStore(t), c.Limit
		if st == 1 {
			limit = c.Side.Limit
		}
		if block := genInterleave(t, &c, st, limit); block != nil {
			at := rapid.IntRange(0, len(c.Ops)).Draw(t, "ilat")
			c.Ops = append(c.Ops[:at:at], append(block, c.Ops[at:]...)...)
		}
	}
	if tee {
		c.Tee = true
		c.Split = rapid.IntRange(0, len(c.Ops)).Draw(t, "split")
	}
	if side && rapid.IntRange(0, 3).Draw(t, "sidetee") == 3 {
		c.Side.Tee = true
		c.Side.Split = rapid.IntRange(0, len(c.Ops)).Draw(t, "sidesplit")
	}
	if side {
		// two histories of three with a second store end with a merge of everything collected so far, half
		// of these with a coalescing of what the merge brought
		if rapid.IntRange(0, 2).Draw(t, "finalmerge") != 0 {
			m := Op{K: opMerge, S: pickStore(t), Via: genVia(t)}
			c.Ops = append(c.Ops, m)
			if rapid.Bool().Draw(t, "finalcoalesce") {
				c.Ops = append(c.Ops, Op{K: opCoalesce, S: m.S, P: pickPred(t, "finalcoalescepred")})
			}
		}
	} else if rapid.IntRange(0, 9).Draw(t, "finalfresh") == 0 {
		c.Ops = append(c.Ops, genFresh(t))
	}
	if rapid.IntRange(0, 9).Draw(t, "finalsweep") != 9 {
		c.Ops = append(c.Ops, Op{K: opSweep})
		if side {
			c.Ops = append(c.Ops, Op{K: opSweep, S: 1})
		}
	}
	return c
}
