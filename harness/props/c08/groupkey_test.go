package c08

import (
	"fmt"
	"sort"
	"strings"
	"testing"

	"codeberg.org/TauCeti/mangle-go/analysis"
	"codeberg.org/TauCeti/mangle-go/ast"
	"codeberg.org/TauCeti/mangle-go/engine"
	"codeberg.org/TauCeti/mangle-go/factstore"
	"codeberg.org/TauCeti/mangle-go/parse"
	"pgregory.net/rapid"
	"verif/stats"
	"verif/val"
)

// The last clause of C08: "a printed term can be used as a dictionary key as the library documents and itself
// does for group keys". The library's own use is fn:group_by: rows whose key tuples are equal form one group, rows
// whose key tuples differ form different groups. Here the key values are the near-miss families of this package
// (print-alikes of another type, hash colliders, one-leaf tweaks, maps built in another order) plus values whose
// *display* forms or concatenated printed forms run into each other (a string that contains `", "` looks like two
// list elements; ("a", "b,c") next to ("a,b", "c")).

// GCase is a set of key tuples (width 1 or 2) that are grouped by the engine.
type GCase struct {
	Rows [][]val.V `json:"rows"`
}

// glue builds, from a list/pair of strings, the one-element relative whose only string spells the printed
// boundary between the elements.
func glue(v val.V) (val.V, bool) {
	var elems []val.V
	switch v.T {
	case val.List:
		elems = v.E
	case val.Pair:
		elems = v.E
	default:
		return v, false
	}
	if len(elems) < 2 {
		return v, false
	}
	var parts []string
	for _, e := range elems {
		if e.T != val.Str {
			return v, false
		}
		parts = append(parts, e.S)
	}
	return val.L(val.S(strings.Join(parts, `", "`))), true
}

func genStringList(t *rapid.T) val.V {
	n := rapid.IntRange(2, 3).Draw(t, "nstr")
	var e []val.V
	for i := 0; i < n; i++ {
		e = append(e, val.S(rapid.SampledFrom([]string{"a", "b", "", `"`, `\`, ",", ", ", `", "`, "a, b", "/a", "1"}).Draw(t, "str")))
	}
	if rapid.IntRange(0, 3).Draw(t, "asPair") == 0 && n == 2 {
		return val.P(e[0], e[1])
	}
	return val.L(e...)
}

func genGCase(t *rapid.T) GCase {
	var c GCase
	width := rapid.IntRange(1, 2).Draw(t, "width")
	n := rapid.IntRange(2, 4).Draw(t, "rows")
	var pool []val.V
	for len(pool) < n*width {
		var v val.V
		switch k := rapid.IntRange(0, 9).Draw(t, "gk"); {
		case len(pool) > 0 && k <= 4:
			v, _ = derive(t, pool[rapid.IntRange(0, len(pool)-1).Draw(t, "from")])
		case len(pool) > 0 && k == 5:
			g, ok := glue(pool[rapid.IntRange(0, len(pool)-1).Draw(t, "glueOf")])
			if !ok {
				g = genStringList(t)
			}
			v = g
		case k <= 7:
			v = genStringList(t)
		default:
			v = genSeed(t)
		}
		pool = append(pool, v)
	}
	for i := 0; i < n; i++ {
		c.Rows = append(c.Rows, pool[i*width:(i+1)*width])
	}
	if width == 2 && rapid.IntRange(0, 2).Draw(t, "shift") == 0 {
		// ("a", "b,c") next to ("a,b", "c"): the boundary between the two key columns moves
		a := rapid.SampledFrom([]string{"a", "1", "", `"x"`}).Draw(t, "sa")
		b := rapid.SampledFrom([]string{"b", "2", "", `"y"`}).Draw(t, "sb")
		d := rapid.SampledFrom([]string{"c", "3", "|", ":"}).Draw(t, "sc")
		sep := rapid.SampledFrom([]string{",", ", ", "|", ":", `", "`, "1:"}).Draw(t, "sep")
		c.Rows = append(c.Rows, []val.V{val.S(a), val.S(b + sep + d)}, []val.V{val.S(a + sep + b), val.S(d)})
	}
	return c
}

func checkGroupKey(run *stats.Run, f stats.Failer, c GCase) verdict {
	var v verdict
	if len(c.Rows) == 0 {
		return v
	}
	width := len(c.Rows[0])
	vars := []string{"K0", "K1"}[:width]
	text := fmt.Sprintf("g(%s, N) :- k(%s) |> do fn:group_by(%s), let N = fn:count().\n", strings.Join(vars, ", "), strings.Join(vars, ", "), strings.Join(vars, ", "))
	unit, err := parse.Unit(strings.NewReader(text))
	if err != nil {
		run.Failf(f, "harness: %v", err)
	}
	// the array store compares atoms structurally (K08 is about the hash-keyed ones)
	store := factstore.NewMultiIndexedArrayInMemoryStore()
	want := map[string]bool{} // distinct key tuples by the canonical key
	for _, row := range c.Rows {
		if len(row) != width {
			return v
		}
		args := make([]ast.BaseTerm, width)
		var ks []string
		for i, x := range row {
			if x.HasDupKeys() {
				return v // an ill-defined map literal (K23)
			}
			args[i] = x.Build()
			ks = append(ks, x.Key())
		}
		store.Add(ast.Atom{Predicate: ast.PredicateSym{Symbol: "k", Arity: width}, Args: args})
		want[strings.Join(ks, " | ")] = true
	}
	decls := map[ast.PredicateSym]ast.Decl{}
	for _, sym := range store.ListPredicates() {
		decls[sym] = ast.NewSyntheticDeclFromSym(sym)
	}
	info, err := analysis.AnalyzeOneUnit(unit, decls)
	if err != nil {
		run.Failf(f, "harness: grouping program rejected: %v", err)
	}
	if err := engine.EvalProgram(info, store); err != nil {
		run.Failf(f, "grouping %d key tuples failed: %v\nkeys: %s", len(c.Rows), err, rowsText(c))
	}
	got := map[string]int64{}
	store.GetFacts(ast.NewQuery(ast.PredicateSym{Symbol: "g", Arity: width + 1}), func(a ast.Atom) error {
		var ks []string
		for _, x := range a.Args[:width] {
			ks = append(ks, val.KeyOf(x.(ast.Constant)))
		}
		n, _ := a.Args[width].(ast.Constant).NumberValue()
		got[strings.Join(ks, " | ")] += n
		return nil
	})
	var problems []string
	for k := range want {
		switch n, ok := got[k]; {
		case !ok:
			problems = append(problems, "no group for key "+k)
		case n != 1:
			problems = append(problems, fmt.Sprintf("group of key %s counts %d rows, the relation holds exactly one row with that key", k, n))
		}
	}
	for k := range got {
		if !want[k] {
			problems = append(problems, "a group for key "+k+", which no row has")
		}
	}
	sort.Strings(problems)
	if len(problems) > 0 {
		run.Failf(f, "fn:group_by does not keep unequal key tuples apart / equal ones together: %d distinct key tuples, %d groups: %s\nrows: %s",
			len(want), len(got), strings.Join(problems, "; "), rowsText(c))
	}
	// classification: two distinct tuples whose printed or displayed forms could run into each other
	printed := map[string]int{}
	for _, row := range c.Rows {
		var p, d []string
		for _, x := range row {
			p = append(p, x.Build().String())
			d = append(d, x.Build().DisplayString())
		}
		printed["s:"+strings.Join(p, ",")]++
		printed["d:"+strings.Join(d, ",")]++
	}
	if len(want) >= 2 {
		v.nontrivial = true
		v.labels = append(v.labels, "groupkey:distinct>=2")
	}
	if len(printed) < 2*len(want) {
		v.labels = append(v.labels, "groupkey:joined-forms-coincide")
	}
	v.labels = append(v.labels, fmt.Sprintf("groupkey:width%d", width))
	return v
}

func rowsText(c GCase) string {
	var parts []string
	for _, row := range c.Rows {
		var xs []string
		for _, x := range row {
			xs = append(xs, x.Source())
		}
		parts = append(parts, "("+strings.Join(xs, ", ")+")")
	}
	return strings.Join(parts, " ")
}

func TestC08_GroupKey(t *testing.T) {
	run := stats.Begin("C08", "TestC08_GroupKey")
	defer run.Finish(t)
	rapid.Check(t, func(rt *rapid.T) {
		c := genGCase(rt)
		run.Current(c)
		v := checkGroupKey(run, rt, c)
		run.Case(v.nontrivial, stats.Hash(rowsText(c)), v.labels...)
		if v.nontrivial {
			run.Sample("groupkey", map[string]any{"rows": rowsText(c)})
		}
	})
}
