// Package c08 checks property C08: equality, hashing and printing of terms agree.
//
// A case is a triple of items (three constants or three atoms), each given as a value tree (val.V) plus
// the route by which the library object is built from it: "ctor" = public constructors, "eval" = the
// constructor expression printed by the harness' own printer, parsed and evaluated, "computed" = the
// value is the RESULT of library functions applied to other values (fn:duration:sum/max/min,
// fn:time:max/min/add, fn:plus/minus/max/min/sum, fn:float:max/min/mult, fn:string:concat,
// fn:list:cons/append, fn:pair/map/struct over computed parts; see computedExpr). The second and
// third item are derived from the first so that equal pairs, print-alike pairs, hash colliders and
// one-leaf near misses are frequent.
//
// Oracle (only what the statement of C08 says):
//   - Equals is reflexive, symmetric, transitive;
//   - Equals  =>  equal Hash() and equal String();
//   - equal String()  =>  Equals   (names are lexer-valid, floats finite, strings valid UTF-8);
//   - Equals  <=>  equal canonical key (val.Key: maps/structs keyed as sets of entries), which includes
//     "maps and structs built from the same pairs are equal whatever the order of supply";
//   - every rebuild of the same item (pairs supplied in rotated order, fresh Go map) Equals the first build;
//   - Equals(&c) agrees with Equals(c) (the argument may be a *Constant).
package c08

import (
	"encoding/json"
	"fmt"
	"math"
	"strings"
	"testing"
	"unicode/utf8"

	"codeberg.org/TauCeti/mangle-go/ast"
	"codeberg.org/TauCeti/mangle-go/functional"
	"codeberg.org/TauCeti/mangle-go/parse"
	"codeberg.org/TauCeti/mangle-go/symbols"
	"pgregory.net/rapid"
	"verif/stats"
	"verif/val"
)

// Arg is an argument of an item: a constant (value tree) or a variable.
type Arg struct {
	C   *val.V `json:"c,omitempty"`
	Var string `json:"var,omitempty"`
}

// Item is a constant (Pred == "", exactly one constant argument) or an atom Pred(Args...).
type Item struct {
	Pred  string `json:"pred,omitempty"`
	Args  []Arg  `json:"args"`
	Route string `json:"route"` // "ctor" | "eval" | "computed"
}

// Case is a triple; Rel[0]/Rel[1] say how items 1 and 2 were derived (statistics only, no influence
// on the verdict).
type Case struct {
	Items [3]Item   `json:"items"`
	Rel   [2]string `json:"rel"`
}

func (c Case) hash() uint64 {
	b, _ := json.Marshal(c.Items)
	return stats.Hash(string(b))
}

// term is what Constant and Atom have in common.
type term interface {
	ast.Term
	Hash() uint64
}

// ---------------------------------------------------------------------------------------------
// Construction of library objects.

// rotate returns v with the entries of every map/struct rotated by r and, for odd r, reversed.
// The set of pairs is unchanged.
func rotate(v val.V, r int) val.V {
	out := v
	if len(v.E) > 0 {
		out.E = make([]val.V, len(v.E))
		for i, e := range v.E {
			out.E[i] = rotate(e, r)
		}
	}
	if n := len(v.KV); n > 0 {
		out.KV = make([][2]val.V, n)
		for i := range v.KV {
			j := (i + r) % n
			if r%2 == 1 {
				j = n - 1 - j
			}
			out.KV[i] = [2]val.V{rotate(v.KV[j][0], r), rotate(v.KV[j][1], r)}
		}
	}
	return out
}

func evalConst(src string) (ast.Constant, error) {
	bt, err := parse.BaseTerm(src)
	if err != nil {
		return ast.Constant{}, fmt.Errorf("parse: %v", err)
	}
	r, err := functional.EvalExpr(bt, ast.SubstMap{})
	if err != nil {
		return ast.Constant{}, fmt.Errorf("eval: %v", err)
	}
	c, ok := r.(ast.Constant)
	if !ok {
		return ast.Constant{}, fmt.Errorf("evaluates to %T, not a constant", r)
	}
	return c, nil
}

func buildConst(v val.V, route string, salt uint64, used map[string]bool) (ast.Constant, error) {
	switch route {
	case "eval":
		return evalConst(v.Source())
	case "computed":
		return computeConst(v, salt, used)
	}
	return v.Build(), nil
}

// ---------------------------------------------------------------------------------------------
// Route "computed": the value as the result of library functions.

// chooser is a small deterministic generator (splitmix64): the decomposition of a value is a pure
// function of the value and the rebuild number, so the replay format needs no further field.
type chooser struct{ s uint64 }

func (c *chooser) n(n int) int {
	c.s += 0x9E3779B97F4A7C15
	z := c.s
	z = (z ^ (z >> 30)) * 0xBF58476D1CE4E5B9
	z = (z ^ (z >> 27)) * 0x94D049BB133111EB
	z ^= z >> 31
	return int(z % uint64(n))
}

func apply(f ast.FunctionSym, args ...ast.BaseTerm) ast.ApplyFn {
	if args == nil {
		args = []ast.BaseTerm{}
	}
	return ast.ApplyFn{Function: f, Args: args}
}

var offsets = []int64{1, 2, 1000, 1000000, 1000000000, 60000000000, 3600000000000, 86400000000000, 7, 1 << 40}

// computeConst evaluates computedExpr(v).
func computeConst(v val.V, salt uint64, used map[string]bool) (ast.Constant, error) {
	ch := &chooser{s: stats.Hash(v.Key()) ^ salt*0x2545F4914F6CDD1D}
	expr := computedExpr(v, ch, used)
	r, err := functional.EvalExpr(expr, ast.SubstMap{})
	if err != nil {
		return ast.Constant{}, fmt.Errorf("eval %v: %v", expr, err)
	}
	c, ok := r.(ast.Constant)
	if !ok {
		return ast.Constant{}, fmt.Errorf("%v evaluates to %T, not a constant", expr, r)
	}
	return c, nil
}

// scalarList is the list argument of a reducer: a list constant, or fn:list(...) over the elements.
func scalarList(ch *chooser, elems []val.V) ast.BaseTerm {
	if ch.n(2) == 0 {
		return val.L(elems...).Build()
	}
	args := make([]ast.BaseTerm, len(elems))
	for i, e := range elems {
		args[i] = e.Build()
	}
	return apply(symbols.List, args...)
}

// place puts the wanted element at a drawn position among the others: not first in two of three cases.
func place(ch *chooser, others []val.V, wanted val.V) []val.V {
	pos := len(others)
	if ch.n(3) == 0 {
		pos = ch.n(len(others) + 1)
	}
	out := append([]val.V{}, others[:pos]...)
	out = append(out, wanted)
	return append(out, others[pos:]...)
}

// computedExpr returns an expression over the functions of package functional whose value is v; the
// leaves are constants built with the public constructors. int64 arithmetic wraps around exactly as
// the library's own Go code does. used (may be nil) receives the class of every function used.
func computedExpr(v val.V, ch *chooser, used map[string]bool) ast.BaseTerm {
	use := func(class string) {
		if used != nil {
			used[class] = true
		}
	}
	// a part of a structured value: computed in two of three cases, else a plain constant
	part := func(x val.V) ast.BaseTerm {
		if ch.n(3) == 0 {
			return x.Build()
		}
		return computedExpr(x, ch, used)
	}
	// int64 reducers/arithmetics shared by numbers, durations and times: mk builds the scalar kind.
	x := offsets[ch.n(len(offsets))]
	switch v.T {
	case val.Dur, val.Time, val.Num:
		n := v.Int()
		mk := map[string]func(int64) val.V{val.Dur: val.D, val.Time: val.T, val.Num: val.I}[v.T]
		sum, maxf, minf := symbols.DurationSum, symbols.DurationMax, symbols.DurationMin
		class := "duration"
		switch v.T {
		case val.Time:
			sum, maxf, minf = ast.FunctionSym{}, symbols.TimeMax, symbols.TimeMin
			class = "time"
		case val.Num:
			sum, maxf, minf = symbols.Sum, symbols.Max, symbols.Min
			class = "number"
		}
		switch k := ch.n(6); {
		case k == 0 && n >= math.MinInt64+x: // maximum of smaller values and n
			others := []val.V{mk(n - x)}
			if ch.n(2) == 0 {
				others = append(others, mk(n-x/2-1))
			}
			use(class + "-reducer:max")
			return apply(maxf, scalarList(ch, place(ch, others, v)))
		case k == 1 && n <= math.MaxInt64-x: // minimum of larger values and n
			others := []val.V{mk(n + x)}
			if ch.n(2) == 0 {
				others = append(others, mk(n+x/2+1))
			}
			use(class + "-reducer:min")
			return apply(minf, scalarList(ch, place(ch, others, v)))
		case k == 2 && v.T != val.Time: // sum of parts (2 or 3)
			a := n - x
			elems := []val.V{mk(a), mk(x)}
			if ch.n(2) == 0 {
				b := offsets[ch.n(len(offsets))]
				elems = []val.V{mk(a - b), mk(b), mk(x)}
			}
			if ch.n(2) == 0 {
				elems[0], elems[len(elems)-1] = elems[len(elems)-1], elems[0]
			}
			use(class + "-reducer:sum")
			return apply(sum, scalarList(ch, elems))
		}
		// binary functions
		switch v.T {
		case val.Dur:
			switch ch.n(3) {
			case 0:
				use("duration-fn:add")
				return apply(symbols.DurationAdd, val.D(n-x).Build(), val.D(x).Build())
			case 1:
				use("duration-fn:time-sub")
				return apply(symbols.TimeSub, val.T(x).Build(), val.T(x-n).Build())
			}
			use("duration-fn:from_nanos")
			return apply(symbols.DurationFromNanos, computedExpr(val.I(n), ch, used))
		case val.Time:
			if ch.n(2) == 0 {
				use("time-fn:add")
				return apply(symbols.TimeAdd, val.T(n-x).Build(), val.D(x).Build())
			}
			use("time-fn:from_unix_nanos")
			return apply(symbols.TimeFromUnixNanos, computedExpr(val.I(n), ch, used))
		default:
			switch ch.n(4) {
			case 0:
				use("number-fn:plus")
				if ch.n(2) == 0 {
					return apply(symbols.Plus, val.I(x).Build(), val.I(n-x-1).Build(), val.I(1).Build())
				}
				return apply(symbols.Plus, val.I(n-x).Build(), val.I(x).Build())
			case 1:
				use("number-fn:minus")
				return apply(symbols.Minus, val.I(x).Build(), val.I(x-n).Build())
			case 2:
				use("number-fn:to_unix_nanos")
				return apply(symbols.TimeToUnixNanos, val.T(n).Build())
			}
			use("number-fn:duration-nanos")
			return apply(symbols.DurationNanos, val.D(n).Build())
		}
	case val.Float:
		f := v.Flt()
		switch ch.n(3) {
		case 0:
			if g := math.Nextafter(f, math.Inf(-1)); !math.IsInf(g, 0) {
				use("float-reducer:max")
				return apply(symbols.FloatMax, scalarList(ch, place(ch, []val.V{val.F(g)}, v)))
			}
		case 1:
			if g := math.Nextafter(f, math.Inf(1)); !math.IsInf(g, 0) {
				use("float-reducer:min")
				return apply(symbols.FloatMin, scalarList(ch, place(ch, []val.V{val.F(g)}, v)))
			}
		}
		use("float-fn:mult")
		return apply(symbols.FloatMult, val.F(1).Build(), v.Build()) // 1.0 * f is f for every finite f, -0.0 included
	case val.Str:
		// cut at rune boundaries
		var cuts []int
		for i := range v.S {
			cuts = append(cuts, i)
		}
		cuts = append(cuts, len(v.S))
		i := cuts[ch.n(len(cuts))]
		use("string-fn:concat")
		if j := cuts[ch.n(len(cuts))]; j > i {
			return apply(symbols.StringConcatenate, val.S(v.S[:i]).Build(), val.S(v.S[i:j]).Build(), val.S(v.S[j:]).Build())
		}
		return apply(symbols.StringConcatenate, val.S(v.S[:i]).Build(), val.S(v.S[i:]).Build())
	case val.Pair:
		use("pair-fn")
		return apply(symbols.Pair, part(v.E[0]), part(v.E[1]))
	case val.List:
		if len(v.E) > 0 {
			switch ch.n(3) {
			case 0:
				use("list-fn:cons")
				return apply(symbols.Cons, part(v.E[0]), part(val.L(v.E[1:]...)))
			case 1:
				use("list-fn:append")
				return apply(symbols.Append, part(val.L(v.E[:len(v.E)-1]...)), part(v.E[len(v.E)-1]))
			}
		}
		use("list-fn:list")
		args := make([]ast.BaseTerm, len(v.E))
		for i, e := range v.E {
			args[i] = part(e)
		}
		return apply(symbols.List, args...)
	case val.Map, val.Struct:
		var args []ast.BaseTerm
		for _, kv := range v.KV {
			if v.T == val.Struct {
				args = append(args, kv[0].Build(), part(kv[1]))
			} else {
				args = append(args, part(kv[0]), part(kv[1]))
			}
		}
		if v.T == val.Struct {
			use("struct-fn")
			return apply(symbols.Struct, args...)
		}
		use("map-fn")
		return apply(symbols.Map, args...)
	}
	return v.Build() // names and byte strings: no function yields them from other values
}

// build constructs the library object of the item, pairs rotated by r.
func (it Item) build(r int, used map[string]bool) (term, error) {
	if r > 2 {
		it.Route = "ctor" // all routes end in ast.Map/ast.Struct; parsing/evaluating 60 more times adds nothing
	}
	if it.Pred == "" {
		return buildConst(rotate(*it.Args[0].C, r), it.Route, uint64(r), used)
	}
	if it.Route == "computed" {
		args := make([]ast.BaseTerm, len(it.Args))
		for i, a := range it.Args {
			if a.C != nil {
				c, err := computeConst(rotate(*a.C, r), uint64(r)+uint64(i)<<8, used)
				if err != nil {
					return nil, err
				}
				args[i] = c
			} else {
				args[i] = ast.Variable{Symbol: a.Var}
			}
		}
		return ast.NewAtom(it.Pred, args...), nil
	}
	if it.Route == "eval" {
		var parts []string
		for _, a := range it.Args {
			if a.C != nil {
				parts = append(parts, rotate(*a.C, r).Source())
			} else {
				parts = append(parts, a.Var)
			}
		}
		src := it.Pred + "(" + strings.Join(parts, ", ") + ")"
		atom, err := parse.Atom(src)
		if err != nil {
			return nil, fmt.Errorf("parse %q: %v", src, err)
		}
		args := make([]ast.BaseTerm, len(atom.Args))
		for i, a := range atom.Args {
			e, err := functional.EvalExpr(a, ast.SubstMap{})
			if err != nil {
				return nil, fmt.Errorf("eval %v: %v", a, err)
			}
			args[i] = e
		}
		return ast.Atom{Predicate: atom.Predicate, Args: args}, nil
	}
	args := make([]ast.BaseTerm, len(it.Args))
	for i, a := range it.Args {
		if a.C != nil {
			args[i] = rotate(*a.C, r).Build()
		} else {
			args[i] = ast.Variable{Symbol: a.Var}
		}
	}
	return ast.NewAtom(it.Pred, args...), nil
}

// key is the canonical key of the item as intended by the case.
func (it Item) key() string {
	if it.Pred == "" {
		return "C:" + it.Args[0].C.Key()
	}
	var sb strings.Builder
	fmt.Fprintf(&sb, "A:%s/%d(", it.Pred, len(it.Args))
	for i, a := range it.Args {
		if i > 0 {
			sb.WriteString(",")
		}
		if a.C != nil {
			sb.WriteString(a.C.Key())
		} else {
			sb.WriteString("var:" + a.Var)
		}
	}
	sb.WriteString(")")
	return sb.String()
}

// observedKey is the canonical key read back from the built object through the public accessors.
func observedKey(x term) string {
	switch o := x.(type) {
	case ast.Constant:
		return "C:" + val.KeyOf(o)
	case ast.Atom:
		var sb strings.Builder
		fmt.Fprintf(&sb, "A:%s/%d(", o.Predicate.Symbol, len(o.Args))
		for i, a := range o.Args {
			if i > 0 {
				sb.WriteString(",")
			}
			switch b := a.(type) {
			case ast.Constant:
				sb.WriteString(val.KeyOf(b))
			case ast.Variable:
				sb.WriteString("var:" + b.Symbol)
			default:
				fmt.Fprintf(&sb, "?%T", a)
			}
		}
		sb.WriteString(")")
		return sb.String()
	}
	return fmt.Sprintf("?%T", x)
}

func (it Item) consts() []val.V {
	var res []val.V
	for _, a := range it.Args {
		if a.C != nil {
			res = append(res, *a.C)
		}
	}
	return res
}

// mapStats tells whether v contains a map/struct with >= 2 entries and whether some map/struct in it
// has two keys with equal library hashes (statistics and effort only).
func mapStats(v val.V) (multi, colliding bool) {
	if len(v.KV) >= 2 {
		multi = true
		seen := map[uint64]bool{}
		for _, kv := range v.KV {
			h := kv[0].Build().Hash()
			if seen[h] {
				colliding = true
			}
			seen[h] = true
		}
	}
	for _, e := range v.E {
		m, c := mapStats(e)
		multi, colliding = multi || m, colliding || c
	}
	for _, kv := range v.KV {
		for _, e := range kv {
			m, c := mapStats(e)
			multi, colliding = multi || m, colliding || c
		}
	}
	return
}

// ---------------------------------------------------------------------------------------------
// The oracle.

type verdict struct {
	nontrivial bool
	labels     []string
}

func show(x term) string {
	s := x.String()
	if len(s) > 160 {
		s = s[:160] + "…"
	}
	return s
}

func check(run *stats.Run, f stats.Failer, c Case, rebuilds int) verdict {
	v, msg := judge(c, rebuilds)
	if msg != "" {
		run.Failf(f, "%s", msg)
	}
	return v
}

// judge returns the classification of the case and the first violated law ("" if none). A panic of
// the code under test is a violation as well.
func judge(c Case, rebuilds int) (v verdict, msg string) {
	defer func() {
		if p := recover(); p != nil {
			msg = fmt.Sprintf("panic while building or comparing (Equals/Hash/String) %s | %s | %s: %v", c.Items[0].key(), c.Items[1].key(), c.Items[2].key(), p)
		}
	}()
	var obj [3]term
	var key [3]string
	lab := map[string]bool{}
	if c.Items[0].Pred == "" {
		lab["kind:const"] = true
	} else {
		lab["kind:atom"] = true
	}
	for _, r := range c.Rel {
		if r != "" {
			lab["derived:"+r] = true
		}
	}
	for i, it := range c.Items {
		for _, cv := range it.consts() {
			if cv.HasDupKeys() {
				return v, fmt.Sprintf("harness: case has a map with duplicate keys (outside the domain): %s", cv.Key())
			}
		}
		used := map[string]bool{}
		x, err := it.build(0, used)
		if err != nil {
			return v, fmt.Sprintf("item %d: the constructor expression of %s does not parse and evaluate (route %s): %v", i, it.key(), it.Route, err)
		}
		lab["route:"+it.Route] = true
		for u := range used {
			lab["computed:"+u] = true
		}
		obj[i], key[i] = x, it.key()
		if ok := observedKey(x); ok != key[i] {
			return v, fmt.Sprintf("item %d built by route %q is not the value asked for: want %s, accessors give %s (prints %s)", i, it.Route, key[i], ok, show(x))
		}
		// Order of supply: rebuild with the pairs rotated/reversed (and a fresh Go map each time).
		multi, coll := false, false
		for _, cv := range it.consts() {
			m, cl := mapStats(cv)
			multi, coll = multi || m, coll || cl
		}
		if coll {
			lab["map-with-hash-equal-keys"] = true
		}
		if multi {
			lab["map-or-struct>=2"] = true
			n := 3
			if coll {
				n = rebuilds
			}
			xs, xh := x.String(), x.Hash()
			for r := 1; r <= n; r++ {
				y, err := it.build(r, nil)
				if err != nil {
					return v, fmt.Sprintf("item %d: rebuild %d failed: %v", i, r, err)
				}
				if !x.Equals(y) || !y.Equals(x) {
					return v, fmt.Sprintf("maps/structs built from the same key-value pairs are not Equals (order of supply / rebuild %d): %s vs %s", r, show(x), show(y))
				}
				if xh != y.Hash() {
					return v, fmt.Sprintf("rebuild of the same item has another Hash: %s (%d) vs %s (%d)", show(x), xh, show(y), y.Hash())
				}
				if ys := y.String(); xs != ys {
					return v, fmt.Sprintf("rebuild of the same item prints differently: %s vs %s", xs, ys)
				}
			}
		}
	}
	var eq [3][3]bool
	for i := 0; i < 3; i++ {
		for j := 0; j < 3; j++ {
			eq[i][j] = obj[i].Equals(obj[j])
			if cj, ok := obj[j].(ast.Constant); ok {
				if got := obj[i].Equals(&cj); got != eq[i][j] {
					return v, fmt.Sprintf("Equals(*Constant) = %v but Equals(Constant) = %v for %s and %s", got, eq[i][j], show(obj[i]), show(obj[j]))
				}
			}
		}
	}
	for i := 0; i < 3; i++ {
		if !eq[i][i] {
			return v, fmt.Sprintf("Equals is not reflexive: %s", show(obj[i]))
		}
		for j := 0; j < 3; j++ {
			if eq[i][j] != eq[j][i] {
				return v, fmt.Sprintf("Equals is not symmetric: %s.Equals(%s) = %v, reverse = %v", show(obj[i]), show(obj[j]), eq[i][j], eq[j][i])
			}
			for k := 0; k < 3; k++ {
				if eq[i][j] && eq[j][k] && !eq[i][k] {
					return v, fmt.Sprintf("Equals is not transitive: %s = %s = %s but first != third", show(obj[i]), show(obj[j]), show(obj[k]))
				}
			}
			if i >= j {
				continue
			}
			si, sj := obj[i].String(), obj[j].String()
			hi, hj := obj[i].Hash(), obj[j].Hash()
			sameKey := key[i] == key[j]
			if eq[i][j] {
				if hi != hj {
					return v, fmt.Sprintf("equal terms have different hashes: %s (%d) and %s (%d)", si, hi, sj, hj)
				}
				if si != sj {
					return v, fmt.Sprintf("equal terms print differently: %s and %s", si, sj)
				}
			}
			if si == sj && !eq[i][j] {
				return v, fmt.Sprintf("terms print identically (%s) but are not Equals: %s vs %s", si, key[i], key[j])
			}
			if eq[i][j] && !sameKey {
				return v, fmt.Sprintf("different values are Equals: %s vs %s (print %s / %s)", key[i], key[j], si, sj)
			}
			if !eq[i][j] && sameKey {
				return v, fmt.Sprintf("the same value built twice is not Equals: %s; prints %s and %s", key[i], si, sj)
			}
			// classification
			bi, _ := json.Marshal(c.Items[i])
			bj, _ := json.Marshal(c.Items[j])
			if sameKey && string(bi) != string(bj) {
				v.nontrivial = true
				lab["equal-by-another-route-or-order"] = true
			}
			if sameKey && string(bi) == string(bj) {
				lab["identical-items"] = true
			}
			if si == sj && !sameKey {
				v.nontrivial = true
				lab["print-equal-different-value"] = true
			}
			if hi == hj && !sameKey {
				v.nontrivial = true
				lab["hash-equal-different-value"] = true
			}
			if !sameKey {
				lab["unequal-pair"] = true
			}
		}
	}
	for l := range lab {
		v.labels = append(v.labels, l)
	}
	return v, ""
}

// ---------------------------------------------------------------------------------------------
// Generators.

var full = val.Options{MaxDepth: 3}

func isNameChar(b byte) bool {
	return b >= 'a' && b <= 'z' || b >= 'A' && b <= 'Z' || b >= '0' && b <= '9' || strings.IndexByte("._-~%", b) >= 0
}

// validName implements the CONSTANT lexer rule.
func validName(s string) bool {
	if len(s) < 2 || s[0] != '/' {
		return false
	}
	for _, part := range strings.Split(s[1:], "/") {
		if part == "" {
			return false
		}
		for i := 0; i < len(part); i++ {
			if !isNameChar(part[i]) {
				return false
			}
		}
	}
	return true
}

func isScalar(v val.V) bool {
	switch v.T {
	case val.Pair, val.List, val.Map, val.Struct:
		return false
	}
	return true
}

// shuffle permutes the entries of every map/struct in v.
func shuffle(t *rapid.T, v val.V) val.V {
	out := v
	if len(v.E) > 0 {
		out.E = make([]val.V, len(v.E))
		for i, e := range v.E {
			out.E[i] = shuffle(t, e)
		}
	}
	if n := len(v.KV); n > 0 {
		perm := rapid.Permutation(idx(n)).Draw(t, "perm")
		out.KV = make([][2]val.V, n)
		for i, j := range perm {
			out.KV[i] = [2]val.V{shuffle(t, v.KV[j][0]), shuffle(t, v.KV[j][1])}
		}
	}
	return out
}

func idx(n int) []int {
	r := make([]int, n)
	for i := range r {
		r[i] = i
	}
	return r
}

// at applies f to one randomly chosen position of v (any depth).
func at(t *rapid.T, v val.V, f func(*rapid.T, val.V) val.V) val.V {
	children := len(v.E) + 2*len(v.KV)
	if children == 0 || rapid.IntRange(0, 3).Draw(t, "here") == 0 {
		return f(t, v)
	}
	k := rapid.IntRange(0, children-1).Draw(t, "child")
	out := v
	if k < len(v.E) {
		out.E = append([]val.V{}, v.E...)
		out.E[k] = at(t, v.E[k], f)
		return out
	}
	k -= len(v.E)
	out.KV = append([][2]val.V{}, v.KV...)
	kv := out.KV[k/2]
	kv[k%2] = at(t, kv[k%2], f)
	out.KV[k/2] = kv
	return out
}

// alike returns a value of another type that looks like v (same print today or nearly so).
func alike(t *rapid.T, v val.V) val.V {
	pick := rapid.IntRange(0, 2).Draw(t, "alike")
	switch v.T {
	case val.Float:
		f := v.Flt()
		if f == math.Trunc(f) && math.Abs(f) < 9e18 {
			return val.I(int64(f))
		}
		return val.S(val.SourceFloat(f))
	case val.Num:
		switch pick {
		case 0:
			return val.F(float64(v.Int()))
		case 1:
			return val.S(v.I)
		}
		return val.D(v.Int())
	case val.Str:
		if validName(v.S) && pick != 0 {
			return val.N(v.S)
		}
		return val.B([]byte(v.S))
	case val.Name:
		if pick == 0 {
			return val.B([]byte(v.S))
		}
		return val.S(v.S)
	case val.Bytes:
		// a byte that prints as an escape \xHL next to the two bytes 0x0H and the character L (an escape printed
		// without padding would run into the following hex digit)
		if b := v.RawBytes(); pick == 2 || !utf8.Valid(b) {
			var idx []int
			for i, x := range b {
				if x < 0x20 || x >= 0x7f {
					idx = append(idx, i)
				}
			}
			if len(idx) > 0 {
				i := idx[rapid.IntRange(0, len(idx)-1).Draw(t, "escapedByte")]
				out := append([]byte{}, b[:i]...)
				out = append(out, b[i]>>4, "0123456789abcdef"[b[i]&15])
				out = append(out, b[i+1:]...)
				return val.B(out)
			}
		}
		if b := v.RawBytes(); utf8.Valid(b) {
			return val.S(string(b))
		}
		return val.B(append(v.RawBytes(), 0))
	case val.Time:
		switch pick {
		case 0:
			return val.S(ast.FormatTime(v.Int()))
		case 1:
			return val.D(v.Int())
		}
		return val.I(v.Int())
	case val.Dur:
		switch pick {
		case 0:
			return val.S(ast.FormatDuration(v.Int()))
		case 1:
			return val.T(v.Int() % 4000000000000000000)
		}
		return val.I(v.Int())
	case val.Pair:
		return val.L(v.E...)
	case val.List:
		if len(v.E) == 2 && pick == 0 {
			return val.P(v.E[0], v.E[1])
		}
		if len(v.E) == 2 {
			return val.M([2]val.V{v.E[0], v.E[1]})
		}
		if len(v.E) == 0 {
			if pick == 0 {
				return val.M()
			}
			return val.St()
		}
		return val.L(append(append([]val.V{}, v.E...), v.E[len(v.E)-1])...)
	case val.Map:
		if pick == 0 && len(v.KV) == 1 {
			return val.L(v.KV[0][0], v.KV[0][1])
		}
		return val.St(v.KV...)
	case val.Struct:
		return val.M(v.KV...)
	}
	return v
}

// tweak changes v minimally.
func tweak(t *rapid.T, v val.V) val.V {
	pick := rapid.IntRange(0, 2).Draw(t, "tweak")
	switch v.T {
	case val.Num:
		if i := v.Int(); i < math.MaxInt64 {
			return val.I(i + 1)
		}
		return val.I(v.Int() - 1)
	case val.Float:
		f := v.Flt()
		switch pick {
		case 0:
			return val.F(-f) // 0 <-> -0 included
		case 1:
			if n := math.Nextafter(f, math.MaxFloat64); !math.IsInf(n, 0) {
				return val.F(n)
			}
		}
		return val.F(f / 2)
	case val.Str:
		switch pick {
		case 0:
			return val.S(v.S + "a")
		case 1:
			return val.S(strings.NewReplacer("\r", "\n", "\n", "\r", "a", "A").Replace(v.S) + " ")
		}
		return val.S("\\" + v.S)
	case val.Name:
		if pick == 0 {
			return val.N(v.S + "/x")
		}
		return val.N(v.S + "x")
	case val.Bytes:
		return val.B(append(v.RawBytes(), byte(pick)))
	case val.Time:
		return val.T(v.Int() + []int64{1, 1000000000, -1}[pick])
	case val.Dur:
		return val.D(v.Int() + []int64{1, 1000000, -1}[pick])
	case val.Pair:
		return val.P(v.E[1], v.E[0])
	case val.List:
		if len(v.E) >= 2 && pick == 0 {
			e := append([]val.V{}, v.E...)
			e[0], e[len(e)-1] = e[len(e)-1], e[0]
			return val.L(e...)
		}
		if len(v.E) >= 1 && pick == 1 {
			return val.L(v.E[:len(v.E)-1]...)
		}
		return val.L(append(append([]val.V{}, v.E...), val.I(0))...)
	case val.Map, val.Struct:
		out := v
		if len(v.KV) == 0 {
			out.KV = [][2]val.V{{val.N("/a"), val.I(0)}}
			return out
		}
		if pick == 0 {
			out.KV = append([][2]val.V{}, v.KV[1:]...)
			return out
		}
		out.KV = append([][2]val.V{}, v.KV...)
		out.KV[0] = [2]val.V{v.KV[0][0], val.P(v.KV[0][1], v.KV[0][1])}
		return out
	}
	return v
}

var longBase = []val.V{val.I(1), val.I(2), val.I(3), val.I(4), val.I(5), val.I(6), val.I(7), val.I(8)}

// collider returns a value that differs from v and is likely to have the same library hash.
func collider(t *rapid.T, v val.V) val.V {
	for _, g := range val.Colliders() {
		for i, m := range g {
			if m.Key() == v.Key() {
				return g[(i+1+rapid.IntRange(0, len(g)-2).Draw(t, "cg"))%len(g)]
			}
		}
	}
	if v.T == val.List && len(v.E) >= 9 {
		e := append([]val.V{}, v.E...)
		e[len(e)-1] = tweak(t, e[len(e)-1])
		return val.L(e...)
	}
	h := int64(v.Build().Hash())
	if v.T == val.Num {
		return val.D(h) // a duration of the same int64 has the same hash

	}
	return val.I(h)
}

// genSeed draws the first item's constant: the full profile plus shapes that matter for C08.
func genSeed(t *rapid.T) val.V {
	switch rapid.IntRange(0, 11).Draw(t, "seed") {
	case 0: // member of a collider group
		g := rapid.SampledFrom(val.Colliders()).Draw(t, "group")
		return rapid.SampledFrom(g).Draw(t, "member")
	case 1: // long number list (pairing overflow)
		e := append([]val.V{}, longBase...)
		n := rapid.IntRange(1, 3).Draw(t, "extra")
		for i := 0; i < n; i++ {
			e = append(e, val.I(val.GenInt().Draw(t, "tail")))
		}
		return val.L(e...)
	case 2, 3: // map whose keys collide in Hash()
		return genCollidingMap(t)
	case 4: // integral / large float
		return val.F(rapid.SampledFrom([]float64{1, 0, math.Copysign(0, -1), -1, 2, 100, 1e18, 1e21, 1 << 53, -3}).Draw(t, "ifl"))
	default:
		return val.Gen(full).Draw(t, "a")
	}
}

// genCollidingMap builds a map with at least two keys of equal Hash(): members of one collider group,
// or a key k next to Number(k.Hash()).
func genCollidingMap(t *rapid.T) val.V {
	var keys []val.V
	if rapid.Bool().Draw(t, "fromGroup") {
		g := rapid.SampledFrom(val.Colliders()).Draw(t, "kgroup")
		n := rapid.IntRange(2, len(g)).Draw(t, "nkeys")
		perm := rapid.Permutation(idx(len(g))).Draw(t, "kperm")
		for _, j := range perm[:n] {
			keys = append(keys, g[j])
		}
	} else {
		k := val.Gen(val.Options{MaxDepth: 1}).Draw(t, "k")
		if k.T == val.Num {
			k = val.S(k.I)
		}
		keys = []val.V{k, val.I(int64(k.Build().Hash()))}
	}
	if rapid.Bool().Draw(t, "extraKey") {
		keys = append(keys, val.GenScalar(full).Draw(t, "xk"))
	}
	m := val.V{T: val.Map}
	seen := map[string]bool{}
	for _, k := range keys {
		if seen[k.Key()] || k.HasDupKeys() {
			continue
		}
		seen[k.Key()] = true
		m.KV = append(m.KV, [2]val.V{k, val.Gen(val.Options{MaxDepth: 1}).Draw(t, "mv")})
	}
	if rapid.IntRange(0, 3).Draw(t, "wrap") == 0 {
		return val.L(m, val.I(1))
	}
	return m
}

// derive produces a relative of v and the name of the relation.
func derive(t *rapid.T, v val.V) (val.V, string) {
	var out val.V
	var rel string
	switch m := rapid.IntRange(0, 11).Draw(t, "rel"); {
	case m <= 3:
		out, rel = shuffle(t, v), "same"
	case m <= 6:
		out, rel = at(t, v, alike), "alike"
	case m == 7:
		if rapid.Bool().Draw(t, "deep") {
			out, rel = at(t, v, collider), "collider"
		} else {
			out, rel = collider(t, v), "collider"
		}
	case m <= 9:
		out, rel = at(t, v, tweak), "tweak"
	default:
		out, rel = val.Gen(full).Draw(t, "fresh"), "fresh"
	}
	if out.HasDupKeys() { // a changed key may now coincide with another one: keep the original instead
		return shuffle(t, v), "same"
	}
	return out, rel
}

func genRoute(t *rapid.T) string {
	return rapid.SampledFrom([]string{"ctor", "computed", "eval", "ctor", "computed"}).Draw(t, "route")
}

var preds = []string{"p", "q", "pp", "foo", "foo.bar", "a:b", "p_1"}
var vars = []string{"X", "Y", "Xy1", "_"}

func genAtomItem(t *rapid.T) Item {
	it := Item{Pred: rapid.SampledFrom(preds).Draw(t, "pred"), Route: genRoute(t), Args: []Arg{}}
	n := rapid.IntRange(0, 3).Draw(t, "nargs")
	for i := 0; i < n; i++ {
		if rapid.IntRange(0, 3).Draw(t, "isvar") == 0 {
			it.Args = append(it.Args, Arg{Var: rapid.SampledFrom(vars).Draw(t, "var")})
		} else {
			c := genSeedSmall(t)
			it.Args = append(it.Args, Arg{C: &c})
		}
	}
	return it
}

func genSeedSmall(t *rapid.T) val.V {
	if rapid.IntRange(0, 2).Draw(t, "small") == 0 {
		return genSeed(t)
	}
	return val.Gen(val.Options{MaxDepth: 2}).Draw(t, "arg")
}

func deriveAtom(t *rapid.T, a Item) (Item, string) {
	b := Item{Pred: a.Pred, Route: genRoute(t), Args: make([]Arg, len(a.Args))}
	copy(b.Args, a.Args)
	switch m := rapid.IntRange(0, 9).Draw(t, "arel"); {
	case m <= 3 || (len(a.Args) == 0 && m <= 6):
		for i, x := range b.Args {
			if x.C != nil {
				s := shuffle(t, *x.C)
				b.Args[i] = Arg{C: &s}
			}
		}
		return b, "same"
	case m <= 6:
		i := rapid.IntRange(0, len(a.Args)-1).Draw(t, "which")
		if a.Args[i].C == nil {
			switch rapid.IntRange(0, 2).Draw(t, "varrel") {
			case 0:
				b.Args[i] = Arg{Var: "V" + strings.TrimLeft(a.Args[i].Var, "_") + "1"}
			case 1:
				s := val.S(a.Args[i].Var)
				b.Args[i] = Arg{C: &s}
			default:
				b.Args[i] = Arg{Var: "_"}
			}
			return b, "arg-var"
		}
		d, rel := derive(t, *a.Args[i].C)
		b.Args[i] = Arg{C: &d}
		return b, "arg-" + rel
	case m == 7:
		b.Pred = rapid.SampledFrom(preds).Draw(t, "pred2")
		return b, "pred"
	case m == 8:
		if len(b.Args) > 0 && rapid.Bool().Draw(t, "drop") {
			b.Args = b.Args[:len(b.Args)-1]
		} else {
			z := val.I(0)
			b.Args = append(b.Args, Arg{C: &z})
		}
		return b, "arity"
	default:
		return genAtomItem(t), "fresh"
	}
}

func genCase(t *rapid.T) Case {
	var c Case
	if rapid.IntRange(0, 3).Draw(t, "atoms") == 0 {
		a := genAtomItem(t)
		b, r1 := deriveAtom(t, a)
		from := a
		if rapid.Bool().Draw(t, "fromB") {
			from = b
		}
		d, r2 := deriveAtom(t, from)
		c.Items = [3]Item{a, b, d}
		c.Rel = [2]string{r1, r2}
		return c
	}
	a := genSeed(t)
	b, r1 := derive(t, a)
	from := a
	if rapid.Bool().Draw(t, "fromB") {
		from = b
	}
	d, r2 := derive(t, from)
	mk := func(v val.V) Item { return Item{Args: []Arg{{C: &v}}, Route: genRoute(t)} }
	c.Items = [3]Item{mk(a), mk(b), mk(d)}
	c.Rel = [2]string{r1, r2}
	return c
}

// ---------------------------------------------------------------------------------------------

func TestC08(t *testing.T) {
	run := stats.Begin("C08", "TestC08")
	defer run.Finish(t)
	// How many of the collider groups of val.Colliders() really collide today (information only).
	for _, g := range val.Colliders() {
		same := true
		for _, m := range g[1:] {
			if m.Build().Hash() != g[0].Build().Hash() {
				same = false
			}
		}
		if same {
			run.Label("collider-groups-with-equal-hash", 1)
		} else {
			run.Label("collider-groups-no-longer-colliding", 1)
		}
	}
	rapid.Check(t, func(rt *rapid.T) {
		c := genCase(rt)
		run.Current(c)
		v := check(run, rt, c, 64)
		run.Case(v.nontrivial, c.hash(), v.labels...)
		if v.nontrivial {
			for _, l := range v.labels {
				if l == "print-equal-different-value" || l == "hash-equal-different-value" || l == "map-with-hash-equal-keys" {
					run.Sample(l, c)
				}
			}
			run.Sample("nontrivial", c)
		}
	})
}

func TestReplay(t *testing.T) {
	if stats.ReplayTest() == "TestC08_GroupKey" {
		var gc GCase
		if stats.LoadReplay(t, &gc) {
			checkGroupKey(stats.Begin("C08", "TestReplay"), t, gc)
		}
		return
	}
	var c Case
	if !stats.LoadReplay(t, &c) {
		return
	}
	run := stats.Begin("C08", "TestReplay")
	// The order in which ast.Map receives its pairs comes from Go's map iteration and is random per build:
	// many rebuilds make the replay of an order-dependent failure practically certain.
	check(run, t, c, 160)
}
