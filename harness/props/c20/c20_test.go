// Package c20 checks property C20: the naive and the semi-naive evaluator compute the same facts.
package c20

import (
	"encoding/json"
	"fmt"
	"strings"
	"testing"

	"codeberg.org/TauCeti/mangle-go/analysis"
	"codeberg.org/TauCeti/mangle-go/ast"
	"codeberg.org/TauCeti/mangle-go/engine"
	"codeberg.org/TauCeti/mangle-go/factstore"
	"codeberg.org/TauCeti/mangle-go/parse"
	"pgregory.net/rapid"
	"verif/prog"
	"verif/stats"
	"verif/val"
)

// Case: a transform-free program (rules only in the text) and the base facts, all pre-loaded into
// both stores (the naive entry point takes clauses without declarations, so a predicate is known to it
// only through a fact in the store).
type Case struct {
	Gen  prog.Generated `json:"gen"`
	Text string         `json:"text"`
	// TextFacts: the facts of Gen.Prog stay in the program text handed to both evaluators (otherwise they are
	// loaded into the start stores together with Gen.Extra and the text holds the rules only).
	TextFacts bool `json:"textFacts,omitempty"`
}

type verdict struct {
	nontrivial bool
	labels     []string
}

func baseFacts(run *stats.Run, f stats.Failer, g prog.Generated) []prog.Fact {
	r := prog.Eval(prog.Program{Facts: append(append([]prog.Atom{}, g.Prog.Facts...), g.Extra...)}, nil, prog.Options{})
	if r.Err != nil || r.Unsafe != "" {
		run.Failf(f, "harness: base facts are not ground constants: %v %v", r.Err, r.Unsafe)
	}
	var fs []prog.Fact
	for _, k := range r.Model.Keys() {
		fs = append(fs, r.Model[k])
	}
	return fs
}

func check(run *stats.Run, f stats.Failer, c Case) verdict {
	var v verdict
	rulesOnly := c.Gen.Prog
	gen := c.Gen
	// Facts of predicates that also have rules always stay in the program text (the naive entry point rejects a
	// program that defines a predicate the start store already knows). With TextFacts all other text facts stay in
	// the text too; otherwise they are loaded into the start stores together with the pre-loaded ones.
	heads := map[string]bool{}
	for _, r := range c.Gen.Prog.Rules {
		heads[r.Head.Pred] = true
	}
	var inText, loaded []prog.Atom
	for _, a := range c.Gen.Prog.Facts {
		if c.TextFacts || heads[a.Pred] {
			inText = append(inText, a)
		} else {
			loaded = append(loaded, a)
		}
	}
	rulesOnly.Facts = inText
	gen.Prog.Facts = loaded
	text := rulesOnly.Source()
	facts := baseFacts(run, f, gen)

	// The reference model comes first: a program whose model is not finite within the caps (only the
	// structural minimiser produces such candidates, by removing an arithmetic guard) gets no verdict and is
	// not handed to the engines, which would not return.
	ref := prog.Eval(rulesOnly, facts, prog.Options{})
	if ref.Capped {
		run.Inconclusive()
		v.labels = append(v.labels, "ref-capped")
		return v
	}
	refOK := ref.Err == nil && ref.Unsafe == "" && !ref.Unstratifiable
	if stats.Exclusion("K08-hash-colliders") {
		// SimpleInMemoryStore (the only store the naive engine takes) conflates hash-equal atoms.
		seen := map[string]map[uint64]bool{}
		for _, fact := range ref.Model {
			m := seen[fact.Pred]
			if m == nil {
				m = map[uint64]bool{}
				seen[fact.Pred] = m
			}
			h := fact.ToAtom().Hash()
			if m[h] {
				run.Excluded("K08-hash-colliders")
				v.labels = append(v.labels, "excluded-K08")
				return v
			}
			m[h] = true
		}
	}
	unit, err := parse.Unit(strings.NewReader(text))
	if err != nil {
		run.Failf(f, "own printer produced text the parser rejects: %v\n%s", err, text)
	}
	naiveStore := factstore.NewSimpleInMemoryStore()
	semiStore := factstore.NewSimpleInMemoryStore()
	for _, fact := range facts {
		naiveStore.Add(fact.ToAtom())
		semiStore.Add(fact.ToAtom())
	}
	known := map[ast.PredicateSym]ast.Decl{}
	for _, sym := range semiStore.ListPredicates() {
		known[sym] = ast.NewSyntheticDeclFromSym(sym)
	}

	var naiveErr, semiErr error
	var naivePanic, semiPanic string
	var semiOver *prog.Overrun
	func() {
		defer func() {
			if r := recover(); r != nil {
				naivePanic = fmt.Sprint(r)
			}
		}()
		naiveErr = engine.EvalProgramNaive(unit.Clauses, naiveStore)
	}()
	func() {
		defer func() {
			if r := recover(); r != nil {
				if o, ok := r.(prog.Overrun); ok {
					semiOver = &o
					return
				}
				semiPanic = fmt.Sprint(r)
			}
		}()
		var info *analysis.ProgramInfo
		info, semiErr = analysis.AnalyzeOneUnit(parse.SourceUnit{Clauses: unit.Clauses}, known)
		if semiErr == nil {
			var target factstore.FactStore = semiStore
			if refOK {
				// more distinct facts than the finite reference model has = diverging or unsound; no wall clock
				target = prog.Bounded(semiStore, len(ref.Model)+8)
			}
			semiErr = engine.EvalProgram(info, target)
		}
	}()
	if semiOver != nil {
		run.Failf(f, "the semi-naive evaluator added %d distinct facts although the reference model has only %d (diverging or unsound); aborted by the harness\nprogram:\n%sfacts: %s",
			semiOver.Created, len(ref.Model), text, factsText(facts))
	}
	if naivePanic != "" {
		run.Failf(f, "the naive evaluator panicked: %s\nprogram:\n%sfacts: %s", naivePanic, text, factsText(facts))
	}
	if semiPanic != "" {
		run.Failf(f, "the semi-naive evaluator panicked: %s\nprogram:\n%sfacts: %s", semiPanic, text, factsText(facts))
	}
	if naiveErr != nil || semiErr != nil {
		// "every program that both evaluators accept": counted, no verdict.
		v.labels = append(v.labels, "rejected-by-one-or-both")
		if (naiveErr == nil) != (semiErr == nil) {
			v.labels = append(v.labels, "rejected-by-one-only")
		}
		return v
	}
	var no, so prog.Outcome
	prog.ReadStore(naiveStore, &no)
	prog.ReadStore(semiStore, &so)
	var onlyNaive, onlySemi []string
	for k := range no.Facts {
		if _, ok := so.Facts[k]; !ok {
			onlyNaive = append(onlyNaive, k)
		}
	}
	for k := range so.Facts {
		if _, ok := no.Facts[k]; !ok {
			onlySemi = append(onlySemi, k)
		}
	}
	if len(onlyNaive) > 0 || len(onlySemi) > 0 {
		hint := ""
		if refOK {
			mn, en := prog.Diff(ref.Model, no.Facts)
			ms, es := prog.Diff(ref.Model, so.Facts)
			hint = fmt.Sprintf("\nagainst the reference model: naive missing %v extra %v; semi-naive missing %v extra %v", mn, en, ms, es)
		}
		run.Failf(f, "naive and semi-naive evaluation finish with different stores.\nonly naive: %v\nonly semi-naive: %v%s\nprogram:\n%sfacts: %s",
			sorted(onlyNaive), sorted(onlySemi), hint, text, factsText(facts))
	}
	labelSet := map[string]bool{}
	for _, l := range c.Gen.Labels {
		labelSet[l] = true
	}
	derived := len(so.Facts) - len(facts)
	v.nontrivial = derived > 0 && (labelSet["neg"] || labelSet["fn"] || labelSet["recursive-rule"])
	for l := range labelSet {
		v.labels = append(v.labels, l)
	}
	if derived > 0 {
		v.labels = append(v.labels, "derives")
	}
	return v
}

func sorted(s []string) []string {
	for i := range s {
		for j := i + 1; j < len(s); j++ {
			if s[j] < s[i] {
				s[i], s[j] = s[j], s[i]
			}
		}
	}
	return s
}

func factsText(fs []prog.Fact) string {
	var parts []string
	for _, f := range fs {
		parts = append(parts, f.Key())
	}
	return strings.Join(parts, " ")
}

func (c Case) hash() uint64 {
	b, _ := json.Marshal(c.Gen)
	return stats.Hash(string(b), fmt.Sprint(c.TextFacts))
}

func genCase(t *rapid.T) Case {
	o := prog.AllFeatures
	o.Let = false
	if rapid.IntRange(0, 7).Draw(t, "factless") == 0 {
		// no facts at all and empty start stores: the first rules fire from equalities and built-ins alone
		g := prog.GenFactless(o).Draw(t, "factlessProg")
		c := Case{Gen: g, TextFacts: true}
		c.Text = g.Prog.Source()
		return c
	}
	g := prog.Gen(o).Draw(t, "prog")
	// every extensional predicate gets at least one fact, otherwise the naive entry point does not know it.
	have := map[string]bool{}
	for _, a := range append(append([]prog.Atom{}, g.Prog.Facts...), g.Extra...) {
		have[a.Pred] = true
	}
	for _, p := range g.Schema {
		if p.Level < 0 && !have[p.Name] {
			a := prog.Atom{Pred: p.Name, Args: []prog.Term{}}
			for i := 0; i < len(p.Cols); i++ {
				if p.Cols[i] == 'a' {
					a.Args = append(a.Args, prog.Const(valName("/a")))
				} else {
					a.Args = append(a.Args, prog.Num(0))
				}
			}
			g.Extra = append(g.Extra, a)
		}
	}
	c := Case{Gen: g}
	// All facts of a predicate go one way: into the text when the predicate has rules or when one of its facts
	// is in the text already, else into the store.
	inText := map[string]bool{}
	for _, r := range c.Gen.Prog.Rules {
		inText[r.Head.Pred] = true
	}
	c.TextFacts = rapid.IntRange(0, 2).Draw(t, "textFacts") > 0
	if c.TextFacts {
		for _, a := range c.Gen.Prog.Facts {
			inText[a.Pred] = true
		}
	}
	var keep []prog.Atom
	for _, a := range c.Gen.Extra {
		if inText[a.Pred] {
			c.Gen.Prog.Facts = append(c.Gen.Prog.Facts, a)
		} else {
			keep = append(keep, a)
		}
	}
	c.Gen.Extra = keep
	c.Text = c.Gen.Prog.Source()
	return c
}

func TestC20(t *testing.T) {
	run := stats.Begin("C20", "TestC20")
	defer run.Finish(t)
	defer minimize(t, run)
	rapid.Check(t, func(rt *rapid.T) {
		c := genCase(rt)
		run.Current(c)
		v := check(run, rt, c)
		run.Case(v.nontrivial, c.hash(), v.labels...)
		if v.nontrivial {
			run.Sample("program", map[string]any{"text": c.Text, "facts": atomsText(append(append([]prog.Atom{}, c.Gen.Prog.Facts...), c.Gen.Extra...))})
		}
	})
}

func atomsText(as []prog.Atom) string {
	var parts []string
	for _, a := range as {
		parts = append(parts, a.Source())
	}
	return strings.Join(parts, ". ")
}

func minimize(t *testing.T, run *stats.Run) {
	if !t.Failed() {
		return
	}
	c, ok := run.Last().(Case)
	if !ok {
		return
	}
	fails := func(g prog.Generated) bool {
		failed, _ := run.Fails(func(f stats.Failer) { check(run, f, Case{Gen: g, TextFacts: c.TextFacts}) })
		return failed
	}
	if !fails(c.Gen) {
		return
	}
	c.Gen = prog.Minimize(c.Gen, fails)
	r := c.Gen.Prog
	r.Facts = nil
	c.Text = r.Source()
	_, msg := run.Fails(func(f stats.Failer) { check(run, f, c) })
	run.Replace(c, msg)
}

func TestReplay(t *testing.T) {
	var c Case
	if !stats.LoadReplay(t, &c) {
		return
	}
	run := stats.Begin("C20", "TestReplay")
	check(run, t, c)
}

func valName(s string) val.V { return val.N(s) }
