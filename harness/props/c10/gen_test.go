package c10

import (
	"fmt"
	"strings"

	"pgregory.net/rapid"
)

// The generator is a *mutational grammar* generator: a base input is either a committed corpus file, a
// hostile constant or text built from grammar pieces (source units, clauses, terms, simple-column files);
// the base is cut into tokens (each carrying its trailing white space, so that zero mutations reproduce
// the base byte for byte) and 0..6 mutations are applied: token deletion, duplication, swap, truncation,
// replacement by / insertion of a dictionary token, number replaced by a huge or negative one, splicing of
// a token range of a second base, white-space removal, and byte-level flips, insertions and deletions.
// All randomness comes from rapid.

// g draws from rapid. hot switches the deliberately invalid grammar choices on (wrong arities, out-of-range numbers,
// impossible dates, junk where an atom is expected, ...): a source unit is the product of some hundred choices, so
// even rare invalid choices leave almost no unit valid; "cold" cases take none of them and are damaged by the
// mutations only.
//
// "warm" cases sit in between: at most warm invalid choices are taken for the whole unit (each site is three times
// as likely to take one as in a hot case), so that the single defect of the text is reached by the stages behind
// the checks that the many defects of a hot case fail first.
type g struct {
	rt   *rapid.T
	hot  bool
	warm *int // remaining invalid choices of a warm case (nil: not a warm case)
	// skip: number of invalid choices a warm case still declines before it takes one. Without it the budget is gone
	// within the first declaration (a unit visits some hundred sites in text order), and the stages behind the
	// declaration check never see the one malformed spot in a rule.
	skip *int
	// focus: half of the warm cases take their invalid choices in one region of the text only: 1 inside type
	// expressions of declarations, 2 inside rules (0: anywhere). phase says where the generator is.
	focus int
	phase *int
}

const (
	phaseTypes = 1
	phaseRules = 2
)

// in marks the region the generator is in until the returned function is called.
func (x g) in(phase int) func() {
	if x.phase == nil {
		return func() {}
	}
	old := *x.phase
	*x.phase = phase
	return func() { *x.phase = old }
}

// bad is chance for a deliberately invalid choice.
func (x g) bad(pct int) bool {
	if x.warm != nil {
		if x.focus != 0 && x.phase != nil && *x.phase != x.focus {
			return false
		}
		if x.focus != 0 {
			pct *= 2 // fewer sites to choose from
		}
		if *x.warm > 0 && x.chance(3*pct) {
			if x.skip != nil && *x.skip > 0 {
				*x.skip--
				return false
			}
			*x.warm--
			return true
		}
		return false
	}
	return x.hot && x.chance(pct)
}

// pickv picks from valid, in hot cases sometimes from invalid.
func (x g) pickv(valid, invalid []string) string {
	if x.bad(12) {
		return x.pick(invalid)
	}
	return x.pick(valid)
}

// n draws an integer of [lo, hi], uniformly: rapid's own integer generators prefer small values by design, which
// would turn every weighted choice below into "mostly the first alternative". The draw is a rapid Uint64 spread
// by Fibonacci hashing (0 stays lo, so shrinking still moves towards the first alternative).
func (x g) n(lo, hi int) int {
	v := rapid.Uint64().Draw(x.rt, "u")
	return lo + int((v*0x9E3779B97F4A7C15>>20)%uint64(hi-lo+1))
}
func (x g) chance(pct int) bool       { return x.n(0, 99) < pct }
func (x g) pick(list []string) string { return list[x.n(0, len(list)-1)] }

// arith: integer (or float) arithmetic over 2-4 numbers at the ends of the range and factors of 2^64 (sums and
// products wrap around, also to 0).
func (x g) arith() string {
	f := x.pick([]string{"fn:div", "fn:div", "fn:mult", "fn:plus", "fn:minus", "fn:mod", "fn:float:div"})
	n := x.n(2, 4)
	return f + "(" + x.list(0, n, n, func(int) string {
		return x.pick([]string{"1", "2", "-1", "0", "4294967296", "-4294967296", "4611686018427387904", "-9223372036854775808", "9223372036854775807", "65536", "3"})
	}) + ")"
}

// ---------------------------------------------------------------------------------------------
// Grammar pieces.

var (
	varNames     = []string{"X", "Y", "Z", "W", "N", "T", "S", "E", "Xs", "M", "K", "V", "_"}
	typeNames    = []string{"/any", "/number", "/string", "/name", "/float64", "/bytes", "/time", "/duration", "/bot", "/foo", "/foo/bar", "/k"}
	numbers      = []string{"0", "1", "2", "3", "-1", "42", "7", "200", "9223372036854775807", "-9223372036854775808"}
	badNumbers   = []string{"9223372036854775808", "99999999999999999999999", "-9223372036854775809"}
	floats       = []string{"1.5", "-0.0", "0.0", ".5", "1.0e10", "1.7976931348623157e308", "-3.25", "2.0", "1.0e-320"}
	badFloats    = []string{"1.0e999", "-1.0e400"}
	strs         = []string{`"a"`, `"b"`, `'c'`, "`d`", `""`, `"a\"b"`, `"\n\t"`, `"\x41"`, `"\u{0041}"`, `"k"`, `"+"`, `"-"`, `"?"`, `"2024-01-01T00:00:00Z"`, `"1h"`, "`multi\nline`", `"%s"`}
	badStrs      = []string{`"\u{1F600}"`} // the lexer takes at most four hexadecimal digits
	bstrs        = []string{`b"a"`, `b"\x00\xff"`, `b''`, "b`raw`"}
	names        = []string{"/a", "/b", "/c", "/k", "/a/b", "/foo", "/foo/bar", "/foobar", "/foo-bar.x~%41", "/1", "/true", "/false"}
	stamps       = []string{"2024-01-01", "2024-01-15T10:30:00", "2024-01-15T10:30:00Z", "2024-06-15", "2024-06-16", "2025-12-31", "1970-01-01", "0001-01-01", "9999-12-31"}
	badStamps    = []string{"9999-99-99", "0000-00-00", "2024-02-30", "2024-01-15T10:30:00.5Z", "2024-01-01T25:61:61"}
	durations    = []string{"0d", "1d", "7d", "24h", "30m", "1s", "500ms", "0s", "106751d"}
	badDurations = []string{"99999999999d", "9223372036854775807s", "106752d", "292y", "9999999999999999999999d"}

	// built-in predicates with their arity
	builtinPreds = []struct {
		name  string
		arity int
	}{
		{":match_prefix", 2}, {":string:starts_with", 2}, {":string:ends_with", 2}, {":string:contains", 2}, {":filter", 1},
		{":lt", 2}, {":le", 2}, {":gt", 2}, {":ge", 2}, {":time:lt", 2}, {":time:le", 2}, {":time:gt", 2}, {":time:ge", 2},
		{":duration:lt", 2}, {":duration:le", 2}, {":duration:gt", 2}, {":duration:ge", 2}, {":match_pair", 3}, {":match_cons", 3},
		{":match_nil", 1}, {":match_entry", 3}, {":match_field", 3}, {":list:member", 2}, {":within_distance", 3},
		{":interval:before", 2}, {":interval:after", 2}, {":interval:meets", 2}, {":interval:overlaps", 2}, {":interval:during", 2},
		{":interval:contains", 2}, {":interval:starts", 2}, {":interval:finishes", 2}, {":interval:equals", 2},
	}
	// functions with their arity (-1: variadic)
	builtinFuns = []struct {
		name  string
		arity int
	}{
		{"fn:interval:start", 1}, {"fn:interval:end", 1}, {"fn:interval:duration", 1}, {"fn:div", -1}, {"fn:float:div", -1},
		{"fn:float:mult", -1}, {"fn:float:plus", -1}, {"fn:mod", 2}, {"fn:mult", -1}, {"fn:plus", -1}, {"fn:minus", -1}, {"fn:sqrt", 1},
		{"fn:list:append", 2}, {"fn:list:get", 2}, {"fn:list:contains", 2}, {"fn:list:len", 1}, {"fn:list:cons", 2}, {"fn:pair", 2},
		{"fn:map:get", 2}, {"fn:struct:get", 2}, {"fn:tuple", -1}, {"fn:some", 1}, {"fn:list", -1}, {"fn:map", -1}, {"fn:struct", -1},
		{"fn:number:to_string", 1}, {"fn:float64:to_string", 1}, {"fn:name:to_string", 1}, {"fn:name:root", 1}, {"fn:name:tip", 1},
		{"fn:name:list", 1}, {"fn:string:concat", -1}, {"fn:string:replace", 4}, {"fn:time:now", 0}, {"fn:time:add", 2}, {"fn:time:sub", 2},
		{"fn:time:format", 2}, {"fn:time:format_civil", 3}, {"fn:time:parse_rfc3339", 1}, {"fn:time:parse_civil", 2}, {"fn:time:year", 1},
		{"fn:time:month", 1}, {"fn:time:day", 1}, {"fn:time:hour", 1}, {"fn:time:minute", 1}, {"fn:time:second", 1},
		{"fn:time:from_unix_nanos", 1}, {"fn:time:to_unix_nanos", 1}, {"fn:time:trunc", 2}, {"fn:time:trunc_civil", 3},
		{"fn:duration:add", 2}, {"fn:duration:mult", 2}, {"fn:duration:hours", 1}, {"fn:duration:minutes", 1}, {"fn:duration:seconds", 1},
		{"fn:duration:nanos", 1}, {"fn:duration:from_nanos", 1}, {"fn:duration:from_hours", 1}, {"fn:duration:from_minutes", 1},
		{"fn:duration:from_seconds", 1}, {"fn:duration:parse", 1},
	}
	reducers = []struct {
		name  string
		arity int
	}{
		{"fn:collect", -1}, {"fn:collect_distinct", -1}, {"fn:collect_to_map", 2}, {"fn:pick_any", 1}, {"fn:max", 1}, {"fn:float:max", 1},
		{"fn:duration:max", 1}, {"fn:time:max", 1}, {"fn:min", 1}, {"fn:float:min", 1}, {"fn:duration:min", 1}, {"fn:time:min", 1},
		{"fn:sum", 1}, {"fn:float:sum", 1}, {"fn:duration:sum", 1}, {"fn:count", 0}, {"fn:count_distinct", 0}, {"fn:avg", 1},
	}
	typeCtors = []struct {
		name  string
		arity int
	}{
		{"fn:Pair", 2}, {"fn:Tuple", -1}, {"fn:Option", 1}, {"fn:List", 1}, {"fn:Map", 2}, {"fn:Struct", -1}, {"fn:Union", -1},
		{"fn:TaggedUnion", -1}, {"fn:Singleton", 1}, {"fn:Fun", -1}, {"fn:Rel", -1}, {"fn:opt", -1},
	}
	dotTypes = []string{".List", ".Pair", ".Map", ".Struct", ".Union", ".Option", ".Tuple", ".TaggedUnion", ".Singleton", ".Fun", ".Rel", ".Foo"}
)

// dictionary: tokens inserted or substituted by mutations.
var dictionary = []string{
	"Decl", "Package", "Use", "bound", "descr", "inclusion", "temporal", "let", "do", "opt", "now",
	"(", ")", "[", "]", "{", "}", "<", ">", ",", ".", "!", ":", ":-", "⟸", "|>", "=", "!=", "<=", ">=", "@", "<-", "<+", "[-", "[+", "#", "\n",
	"X", "Y", "_", "p", "q", "e0", "i0", "fn:plus", "fn:group_by", "fn:count", "fn:list", "fn:map", "fn:struct", "fn:pair", "fn:collect",
	"deferred()", "external()", "extensional()", "private()", "synthetic()", "desugared()", "temporal()", "internal:maybe_temporal()",
	`mode("+", "-")`, `mode("-")`, `mode()`, `doc("d")`, `arg(X, "x")`, `reflects(/foo)`, `fundep([X], [Y])`, `merge([Y], "m")`, `name("n")`,
	"/any", "/number", "/string", "/name", "/bot", "/a", "1", "0", "-1", "9223372036854775807", "-9223372036854775808", "1.5", `"s"`, `b"s"`,
	"2024-01-01", "7d", "@[_]", "@[now]", "@[T]", "<-[0d, 7d]", ".List<", ".Struct<", ".Union<", ":match_entry", ":match_field", ":lt", ":list:member",
	"\"", "'", "`", "\\", "\x00", "\xff", "\xc3", "\u00a0", "\u2028",
}

var hugeNumbers = []string{"9223372036854775807", "-9223372036854775808", "9223372036854775808", "-9223372036854775809", "18446744073709551616",
	"4294967296", "4294967297", "2147483648", "-2147483649", "65537", "1025", "-1", "-0", "00000000000000000000001", "1e9", "99999999999999999999999999999999999999", "0x10"}

func (x g) variable() string { return x.pick(varNames) }

func (x g) constant(depth int) string {
	k := x.n(0, 13)
	if depth <= 0 && k >= 8 {
		k = x.n(0, 7)
	}
	switch k {
	case 0, 1:
		return x.pickv(numbers, badNumbers)
	case 2:
		return x.pickv(floats, badFloats)
	case 3, 4:
		if x.bad(6) {
			return x.pick(badStrs)
		}
		return x.pick(strs)
	case 5:
		return x.pick(bstrs)
	case 6, 7:
		return x.pick(names)
	case 8:
		return x.bracket(x.list(depth-1, 0, 3, func(d int) string { return x.constant(d) }))
	case 9:
		return x.bracket(x.list(depth-1, 0, 2, func(d int) string { return x.constant(d) + ": " + x.constant(d) }))
	case 10:
		return "{" + x.list(depth-1, 0, 2, func(d int) string { return x.pick(names) + ": " + x.constant(d) }) + "}"
	case 11:
		return "fn:pair(" + x.constant(depth-1) + ", " + x.constant(depth-1) + ")"
	case 12:
		return "fn:list(" + x.list(depth-1, 0, 3, func(d int) string { return x.constant(d) }) + ")"
	default:
		if !x.hot {
			return x.pick([]string{"fn:map(", "fn:struct("}) + x.list(depth-1, 0, 2, func(d int) string { return x.pick(names) + ", " + x.constant(d) }) + ")"
		}
		return x.pick([]string{"fn:map(", "fn:struct(", "fn:tuple(", "fn:some("}) + x.list(depth-1, 0, 4, func(d int) string { return x.constant(d) }) + ")"
	}
}

func (x g) list(depth, lo, hi int, item func(depth int) string) string {
	k := x.n(lo, hi)
	parts := make([]string, 0, k)
	for i := 0; i < k; i++ {
		parts = append(parts, item(depth))
	}
	s := strings.Join(parts, ", ")
	if k > 0 && x.bad(5) {
		s += ","
	}
	return s
}

// fnApp builds an application of a built-in function, mostly at its right arity.
func (x g) fnApp(depth int, arg func(depth int) string) string {
	f := builtinFuns[x.n(0, len(builtinFuns)-1)]
	ar := f.arity
	if ar < 0 {
		ar = x.n(0, 3)
	}
	if x.bad(12) { // wrong arity
		ar = x.n(0, 5)
	}
	parts := make([]string, ar)
	for i := range parts {
		parts[i] = arg(depth - 1)
	}
	return f.name + "(" + strings.Join(parts, ", ") + ")"
}

// term: variable, constant or function application over terms.
func (x g) term(depth int, vars []string) string {
	k := x.n(0, 9)
	switch {
	case k <= 3 && len(vars) > 0:
		return x.pick(vars)
	case k <= 4 && (x.hot || len(vars) == 0):
		return x.variable()
	case k <= 7 || depth <= 0:
		return x.constant(depth)
	case k == 8:
		return x.fnApp(depth, func(d int) string { return x.term(d, vars) })
	default:
		switch x.n(0, 3) {
		case 0:
			return x.bracket(x.list(depth-1, 0, 3, func(d int) string { return x.term(d, vars) }))
		case 1:
			return "{" + x.list(depth-1, 0, 2, func(d int) string { return x.pick(names) + ": " + x.term(d, vars) }) + "}"
		case 2:
			return x.bracket(x.list(depth-1, 1, 2, func(d int) string {
				k := x.term(d, vars)
				if k != "" && (k[0] >= 'A' && k[0] <= 'Z' || k[0] == '_') && !x.bad(20) {
					k += " " // "[X:" is read as the name of a type
				}
				return k + ": " + x.term(d, vars)
			}))
		default:
			return x.typeExpr(depth)
		}
	}
}

func (x g) typeExpr(depth int) string {
	k := x.n(0, 9)
	if depth <= 0 {
		k = x.n(0, 3)
	}
	if k == 9 && !x.hot {
		k = x.n(0, 8)
	}
	switch {
	case k <= 3:
		return x.pick(typeNames)
	case k <= 6:
		c := typeCtors[x.n(0, len(typeCtors)-1)]
		ar := c.arity
		if ar < 0 {
			ar = x.n(0, 4)
		}
		if x.bad(10) {
			ar = x.n(0, 4)
		}
		parts := make([]string, ar)
		for i := range parts {
			switch {
			case (c.name == "fn:Struct" || c.name == "fn:opt" || c.name == "fn:TaggedUnion") && i%2 == 0 && x.chance(85):
				parts[i] = x.pick(names)
			case c.name == "fn:Singleton":
				parts[i] = x.constant(1)
			default:
				parts[i] = x.typeExpr(depth - 1)
			}
		}
		return c.name + "(" + strings.Join(parts, ", ") + ")"
	case k <= 8:
		d := x.pick(dotTypes)
		return d + "<" + x.list(depth-1, 0, 3, func(dd int) string {
			switch x.n(0, 4) {
			case 0:
				return "opt " + x.pick(names) + ": " + x.typeExpr(dd)
			case 1, 2:
				return x.pick(names) + ": " + x.typeExpr(dd)
			default:
				return x.typeExpr(dd)
			}
		}) + ">"
	default:
		return x.pick([]string{"X", "Y", "T", `"str"`, "1", "fn:plus(1, 2)", "foo", "e0"})
	}
}

func (x g) clauseText() string {
	ps := x.preds()
	p := ps[x.n(0, len(ps)-1)]
	if x.chance(30) {
		return x.fact(p)
	}
	return x.rule(p, ps)
}

func (x g) termText() string {
	switch x.n(0, 5) {
	case 0:
		ps := x.preds()
		return x.atom(ps[x.n(0, len(ps)-1)], func(int) string { return x.term(2, []string{"X", "Y"}) })
	case 1:
		return x.typeExpr(3)
	case 2:
		return x.constant(3)
	default:
		return x.term(3, []string{"X", "Y"})
	}
}

func (x g) literalText() string {
	ps := x.preds()
	p := ps[x.n(0, len(ps)-1)]
	a := x.atom(p, func(int) string { return x.term(1, []string{"X", "Y"}) })
	switch x.n(0, 6) {
	case 0:
		return "!" + a
	case 1:
		return x.operator() + " " + a
	case 2:
		return a + x.annotation()
	case 3:
		return x.operator() + " " + a + x.annotation()
	case 4, 5:
		return x.term(2, []string{"X"}) + " " + x.pick([]string{"=", "!=", "<", "<=", ">", ">="}) + " " + x.term(2, []string{"Y"})
	default:
		return a
	}
}

func (x g) predNameText() string {
	return x.pick([]string{"p", "foo", "foo.bar", "e0", ":lt", ":match_pair", "fn:plus", "a:b:c", "p_1", "x.y.z", "Foo", "_p", "p(", "p q", "/p", "1p", "p.", "p..q", "é", ""})
}

// scFile builds a simple-column file: header, then for every predicate arity*count lines, column by column.
func (x g) scFile() string {
	np := x.n(0, 4)
	type sp struct {
		name         string
		arity, count int
	}
	var ps []sp
	for i := 0; i < np; i++ {
		p := sp{name: x.pick([]string{"p", "q", "e0", "foo.bar", "pk.r", ":lt", "a:b"}), arity: x.n(0, 3), count: x.n(0, 4)}
		if x.chance(3) {
			p.name = x.pick([]string{"Foo", "/x", "p(", "1", "fn:plus", "%", "é"})
		}
		if x.chance(2) {
			p.arity = x.pick2(1024, 1025, -1, 64)
		}
		ps = append(ps, p)
	}
	var sb strings.Builder
	hdr := np
	if x.chance(6) {
		hdr = x.n(0, 6)
	}
	fmt.Fprintf(&sb, "%d\n", hdr)
	for _, p := range ps {
		cnt := p.count
		if x.chance(5) {
			cnt = x.n(0, 6) // header count disagrees with the data
		}
		sep := " "
		if x.chance(2) {
			sep = x.pick([]string{"  ", "\t", ""})
		}
		fmt.Fprintf(&sb, "%s%s%d%s%d\n", p.name, sep, p.arity, sep, cnt)
	}
	for _, p := range ps {
		if p.arity > 8 {
			continue
		}
		for j := 0; j < p.arity; j++ {
			for i := 0; i < p.count; i++ {
				var cell string
				switch k := x.n(0, 20); {
				case k <= 13:
					cell = x.constant(2)
				case k == 14:
					cell = x.pick([]string{"/a%41", "/a%2Fb", "/%", "/%zz", "/a b", "/", "%41", "/a%00"})
				case k == 15:
					cell = x.fnApp(2, func(d int) string { return x.constant(d) })
				case k == 16:
					cell = x.pick([]string{"X", "_", "p(1)", "fn:foo(1)", "fn:list:get([], 5)", "fn:div(1, 0)", "fn:time:now()", "fn:collect(1)", "fn:group_by()"})
				case k == 19:
					cell = x.arith()
				case k == 18:
					// a function applied to no argument (or one, or two) whatever its arity is
					f := builtinFuns[x.n(0, len(builtinFuns)-1)]
					cell = f.name + "(" + x.list(0, 0, x.n(0, 2), func(int) string { return x.constant(0) }) + ")"
				case k == 17:
					// a quoted cell whose escape sequence is cut short or out of range while the closing quote is in place
					cell = x.pick([]string{`"`, `b"`, "'"}) + x.pick([]string{"", "snow ", "a"}) +
						x.pick([]string{`\u`, `\u{`, `\u{0026`, `\u{002603`, `\x`, `\x4`, `\u{110000}`, `\u{d800}`, `\`, `\q`, `\u{}`, `\u{zz}`})
					if cell[0] == 'b' {
						cell += `"`
					} else {
						cell += string(cell[0])
					}
				default:
					cell = x.term(2, nil)
				}
				sb.WriteString(strings.ReplaceAll(cell, "\n", " "))
				sb.WriteString("\n")
			}
		}
	}
	return sb.String()
}

func (x g) pick2(vals ...int) int { return vals[x.n(0, len(vals)-1)] }

// grammar returns generated text for a target.
func (x g) grammar(target string) string {
	switch target {
	case tUnit:
		return x.unit()
	case tClause:
		return x.clauseText()
	case tTerm, tBaseTerm, tAtom:
		return x.termText()
	case tLiteral:
		return x.literalText()
	case tPredName:
		return x.predNameText()
	default:
		return x.scFile()
	}
}

// ---------------------------------------------------------------------------------------------
// Hostile constants.

func hostile(target string) []string {
	common := []string{"", " ", "\n", "\x00", "\xff\xfe", "\xc3", "#", "# comment", ".", "!", "(", ")", "[", "]", "{", "}", "\"", "'", "`", "b\"", "\\",
		"\"\\", "\"\\u", "\"\\u{", "\"\\u{12", "\"\\x", "\"\\x4", "\"\\u{110000}\"", "\"\\u{d800}\"", "\"\\u{ffffff}\"", "b\"\\u{1F600}\"", "\"\\\n\"",
		strings.Repeat("[", 95), strings.Repeat("(", 95), strings.Repeat("fn:list(", 95), strings.Repeat("[", 95) + strings.Repeat("]", 95),
		strings.Repeat("{/a:", 90) + "1" + strings.Repeat("}", 90), strings.Repeat(".T<", 90), strings.Repeat("p(", 90) + "X" + strings.Repeat(")", 90), strings.Repeat("a", 5000), strings.Repeat("9", 400), "-", "--1", "-.5", "1.", ".e1", "1e", "⟸", "\u2028"}
	switch target {
	case tUnit:
		return append(common,
			"Decl.", "Decl p.", "Decl p().", "Decl p(X)", "Decl p(X) bound [].", "Decl p(X) bound [/number, /number].", "Decl p(X) bound [X].",
			"Decl p(X) descr [].", "Decl p(X) descr [mode()].", "Decl p(X) descr [external()].", "Decl p(X) descr [deferred()].",
			"Decl p(X) descr [deferred()]. p(X) :- q(X). q(1). r(X) :- p(X).",
			"Decl e0(X) bound [/string]. Decl i0(X) bound [/number]. i0(V) :- e0(M), :match_entry(M, /k, V).",
			"Decl p(X, Y) descr [fundep([X], [Y]), merge([Y], \"m\")]. m(A, B, C) :- C = fn:plus(A, B). p(1, 2). p(X, Y) :- q(X, Y). q(1, 3).",
			"Decl p(X) temporal. p(1)@[2024-01-01, 2024-02-01]. q(X) :- p(X)@[now].",
			"Decl p(X) inclusion [q(X)]. p(1).", "Decl p(1).", "Decl p(X, X).", "Decl p(fn:list()).", "Decl :lt(X, Y).", "Decl fn:plus(X).",
			"Package p!", "Package P!", "Package p! Package q!", "Use p!", "Package p [name(X)]!", "Package pk! Decl q(X). q(1). r(X) :- q(X).",
			"p.", "p().", "p(X).", "p(_).", "p(X) :- p(X).", "p(X) :- !p(X).", "p(X) :- X = X.", "p(1) :- 1 = 2.", "p(X) :- q(X) |> .", "p(X) :- |> do fn:group_by().",
			"p(N) :- q(X) |> do fn:group_by(), let N = fn:count().", "p(N) :- |> let N = fn:count().", "p(X) :- q(X) |> do X.", "p(X) :- q(X) |> let X = 1.",
			"p(X) :- q(X), X < .", "p(X)@[] .", "p(X)@[_, _] :- q(X)@[_].", "p(X) :- <-[1d] q(X).", "p(X) :- <-[-1d, 7d] q(X).", "p(1)@[9999-99-99].",
			"p(0). p(Y) :- p(X), Y = fn:plus(X, 1).", "p(0)@[2024-01-01]. p(Y)@[2024-01-01] :- p(X)@[2024-01-01], Y = fn:plus(X, 1).",
			"p([]). p(M) :- p(L), M = fn:list:cons(1, L).", "p(X) :- q(X), r(X), s(X), t(X), u(X).", "q(1). p(X, Y, Z) :- q(X), q(Y), q(Z).",
			"p(fn:foo(1)).", "p(fn:plus(1)).", "p(fn:div(1, 0)).", "p(fn:list:get([], 0)).", "p(fn:collect(1)).", "p(fn:group_by()).", ":lt(1, 2).", "fn:plus(1, 2).",
			"p(X) :- :lt(X).", "p(X) :- :match_field(X, Y, Z).", "p(X) :- :match_entry(X).", "p(X) :- :filter(X).", "p(X) :- q(X), :filter(fn:some(X)).",
			"p(.Struct<>).", "p(.Struct<opt /a: /b>).", "p(.Union<>).", "p(.Foo<1>).", "Decl p(X) bound [.Struct<opt>].", "Decl p(X) bound [fn:Union()].",
			"Decl p(X) bound [fn:Singleton()].", "Decl p(X) bound [fn:Fun()].", "Decl p(X) bound [fn:Rel()].", "Decl p(X) bound [fn:Tuple(/a)].", "Decl p(X) bound [fn:opt()].",
			"Decl p(X) bound [fn:TaggedUnion()].", "Decl p(X) bound [fn:TaggedUnion(/a)].", "Decl p(X) bound [fn:Struct(/a)].", "Decl p(X) bound [fn:Map(/a)].",
			"Decl p(X) descr [reflects(/a)]. Decl q(X) bound [/a]. q(/a/b).", "Decl p(X) bound [p]. ", "Decl p(X) bound [\"x\"].")
	case tClause, tLiteral:
		return append(common, "p", "p.", "p(X) :-", "p(X) :- .", "p(X) :- q(X)", "p(X) :- q(X) |>", "p(X) :- q(X) |> do", "p(X) :- q(X) |> let", "!", "!p", "!p(X)", "!X",
			"X = ", " = X", "X != Y", "X < Y < Z", "p(X)@", "p(X)@[", "p(X)@[]", "<-", "<-[", "<-[1d,", "<-[1d, 2d]", "<-[1d, 2d] X", "[-[1d, 2d] p(X)@[T] = 3", "p(X) :- q(X).", "p(X) ⟸ q(X).")
	case tTerm, tBaseTerm, tAtom:
		return append(common, "X", "_", "/a", "/", "//", "/a/", "1", "-1", "1.5", "\"a\"", "b\"a\"", "p(", "p()", "p(,)", "p(X,)", "fn:", "fn:f", "fn:f(", "fn:f()", "[", "[,]", "[1,]", "[1:2]",
			"[1:]", "[:]", "{", "{}", "{/a}", "{/a:}", "{/a:1,}", ".", ".T", ".T<", ".T<>", ".T<,>", ".T<opt>", ".T<opt /a>", ".T<opt /a:>", ".T<opt /a: /b>", ".T<a:b:c>", "p(p(p(X)))", "p(q(X))",
			"fn:f(p(X))", "[p(X)]", "{/a: p(X)}", "[p(X): 1]", "p(X)q", "p(X) q(Y)", "9223372036854775808", "-9223372036854775809", "1e400", "2024-01-01", "7d", "now", "opt", "temporal", "bound", "Decl")
	case tPredName:
		return append(common, "p", "P", "p(", "p q", ":p", "::", "fn:p", "p.q", "p..q", "p.", "_", "1", "/p", "Decl", "bound")
	default:
		return append(common, "0", "0\n", "1", "1\n", "-1\n", "65537\n", "99999999999999999999\n", "1\np 1 1\n", "1\np 1 1\n\n", "1\np 1 -1\n", "1\np 1 4294967296\n1\n",
			"1\np 1 4294967297\n", "1\np 1 100000000\n1\n", "1\np -1 1\n", "1\np 1025 1\n", "1\np 1024 1\n1\n", "1\np 0 0\n", "1\np 0 1\n", "1\np 0 -5\n", "1\np 1 1\n1\n", "1\np 1 2\n1\n",
			"1\np 2 1\n1\n", "1\np 1 1\nX\n", "1\np 1 1\n/a%zz\n", "1\np 1 1\n/\n", "1\np 1 1\nfn:foo(1)\n", "1\np 1 1\nq(1)\n", "1\n1 1 1\n1\n", "1\nP 1 1\n1\n", "1\np 1\n", "1\np\n", "1\n\n",
			"2\np 1 1\n", "2\np 1 1\nq 1 1\n1\n", "2\np 1 1\nq 1 1\n1\n\n", "2\np 1 1\np 1 1\n1\n2\n", "1\r\np 1 1\r\n1\r\n", "1\np 1 1\n"+strings.Repeat("1", 70000)+"\n", " 1\np 1 1\n1\n", "+1\np 1 1\n1\n",
			"\x1f\x8b\x08\x00", "\x28\xb5\x2f\xfd", "\x28\xb5\x2f\xfd\x00\x50\x01\x00\x00")
	}
}

// ---------------------------------------------------------------------------------------------
// Tokens and mutations.

func isWord(c byte) bool {
	return c >= 'a' && c <= 'z' || c >= 'A' && c <= 'Z' || c >= '0' && c <= '9' || c == '_' || c == '.' || c == '/' || c == '%' || c == '~' || c == ':' || c >= 0x80
}

func isSpace(c byte) bool { return c == ' ' || c == '\t' || c == '\n' || c == '\r' || c == '\f' }

// tokenize cuts text into tokens; every token carries its trailing white space, so that the concatenation
// of the tokens is the text.
func tokenize(s string) []string {
	var toks []string
	i := 0
	for i < len(s) {
		start := i
		c := s[i]
		switch {
		case isSpace(c):
			// leading white space of the text
		case c == '"' || c == '\'' || c == '`':
			i++
			for i < len(s) && s[i] != c {
				if s[i] == '\\' && c != '`' && i+1 < len(s) {
					i++
				}
				i++
			}
			if i < len(s) {
				i++
			}
		case c == '#':
			for i < len(s) && s[i] != '\n' {
				i++
			}
		case strings.HasPrefix(s[i:], ":-") || strings.HasPrefix(s[i:], "|>") || strings.HasPrefix(s[i:], "!=") || strings.HasPrefix(s[i:], "<=") ||
			strings.HasPrefix(s[i:], ">=") || strings.HasPrefix(s[i:], "<-") || strings.HasPrefix(s[i:], "<+") || strings.HasPrefix(s[i:], "[-") || strings.HasPrefix(s[i:], "[+"):
			i += 2
		case isWord(c) || c == '-':
			i++
			for i < len(s) && (isWord(s[i]) || s[i] == '-' && !strings.HasPrefix(s[i-1:], ":-")) {
				if strings.HasPrefix(s[i:], ":-") {
					break
				}
				i++
			}
		default:
			i++
		}
		for i < len(s) && isSpace(s[i]) {
			i++
		}
		toks = append(toks, s[start:i])
	}
	return toks
}

func isNumberToken(t string) bool {
	t = strings.TrimSpace(t)
	if t == "" {
		return false
	}
	for i := 0; i < len(t); i++ {
		if !(t[i] >= '0' && t[i] <= '9' || i == 0 && t[i] == '-') {
			return false
		}
	}
	return t != "-"
}

func splitWS(t string) (string, string) {
	j := len(t)
	for j > 0 && isSpace(t[j-1]) {
		j--
	}
	return t[:j], t[j:]
}

// mutate applies one mutation to the token list.
func (x g) mutate(toks []string, target string, second func() []string) ([]string, string) {
	if len(toks) == 0 {
		return []string{x.pick(dictionary)}, "insert"
	}
	pos := func() int { return x.n(0, len(toks)-1) }
	switch k := x.n(0, 15); k {
	case 0, 1: // deletion of 1..3 tokens
		i := pos()
		n := x.n(1, 3)
		if i+n > len(toks) {
			n = len(toks) - i
		}
		return append(append([]string{}, toks[:i]...), toks[i+n:]...), "delete"
	case 2: // duplication
		i := pos()
		out := append([]string{}, toks[:i+1]...)
		out = append(out, toks[i])
		return append(out, toks[i+1:]...), "duplicate"
	case 3: // swap
		i, j := pos(), pos()
		out := append([]string{}, toks...)
		out[i], out[j] = out[j], out[i]
		return out, "swap"
	case 4: // truncation, possibly inside the last token
		i := pos()
		out := append([]string{}, toks[:i+1]...)
		if x.chance(50) && len(out[i]) > 1 {
			out[i] = out[i][:x.n(1, len(out[i])-1)]
		}
		return out, "truncate"
	case 5, 6: // replacement by a dictionary token (keeps the white space)
		i := pos()
		out := append([]string{}, toks...)
		_, ws := splitWS(out[i])
		out[i] = x.pick(dictionary) + ws
		return out, "replace"
	case 7: // insertion of a dictionary token
		i := pos()
		out := append([]string{}, toks[:i]...)
		out = append(out, x.pick(dictionary)+" ")
		return append(out, toks[i:]...), "insert"
	case 8, 9: // a number becomes huge or negative
		var idx []int
		for i, t := range toks {
			if isNumberToken(t) {
				idx = append(idx, i)
			}
		}
		if len(idx) == 0 {
			return toks, "number_none"
		}
		i := idx[x.n(0, len(idx)-1)]
		out := append([]string{}, toks...)
		_, ws := splitWS(out[i])
		out[i] = x.pick(hugeNumbers) + ws
		return out, "number"
	case 10: // splice a token range of a second base
		other := second()
		if len(other) == 0 {
			return toks, "splice_none"
		}
		a := x.n(0, len(other)-1)
		b := a + x.n(1, 8)
		if b > len(other) {
			b = len(other)
		}
		i := pos()
		out := append([]string{}, toks[:i]...)
		out = append(out, other[a:b]...)
		return append(out, toks[i:]...), "splice"
	case 11: // white space removal: two tokens grow together
		i := pos()
		out := append([]string{}, toks...)
		out[i], _ = splitWS(out[i])
		return out, "glue"
	case 12: // a line becomes empty / a newline is inserted (matters for simple-column files)
		i := pos()
		out := append([]string{}, toks[:i]...)
		out = append(out, "\n")
		return append(out, toks[i:]...), "newline"
	default: // byte level: flip, insert, delete, overwrite
		s := []byte(strings.Join(toks, ""))
		if len(s) == 0 {
			return toks, "byte_none"
		}
		i := x.n(0, len(s)-1)
		switch x.n(0, 3) {
		case 0:
			s[i] ^= 1 << uint(x.n(0, 7))
		case 1:
			b := byte(x.n(0, 255))
			s = append(s[:i], append([]byte{b}, s[i:]...)...)
		case 2:
			s = append(s[:i], s[i+1:]...)
		default:
			s[i] = []byte{0, 0xff, '\\', '"', '\n', '(', ')', '[', ']', '.', ' ', '\'', '`', '-', '9', 0xc3, 0x80}[x.n(0, 16)]
		}
		return tokenize(string(s)), "byte"
	}
}

// base draws a base input for the target and says where it came from.
func (x g) base(target string) (string, string) {
	co := corpus(target)
	k := x.n(0, 99)
	switch {
	case k < 28 && len(co) > 0:
		return string(co[x.n(0, len(co)-1)]), "src:corpus"
	case k < 33:
		h := hostile(target)
		return h[x.n(0, len(h)-1)], "src:hostile"
	default:
		return x.grammar(target), "src:grammar"
	}
}

// genInput draws one input for the target.
func genInput(rt *rapid.T, target string) ([]byte, []string) {
	x := g{rt: rt}
	x.hot = x.chance(46)
	if x.hot && x.chance(60) {
		// warm: otherwise built like a cold case, with a budget of one or two invalid choices (see bad)
		budget := 1
		if x.chance(35) {
			budget = 2
		}
		skip := x.n(0, 12)
		phase := 0
		x.warm, x.skip, x.phase = &budget, &skip, &phase
		switch k := x.n(0, 99); {
		case k < 40:
			x.focus = phaseTypes
			skip = x.n(0, 3)
		case k < 65:
			x.focus = phaseRules
			skip = x.n(0, 8)
		}
		x.hot = false
	}
	text, src := x.base(target)
	labels := []string{src}
	if src == "src:grammar" {
		switch {
		case x.warm != nil:
			labels = append(labels, "grammar:warm")
		case x.hot:
			labels = append(labels, "grammar:hot")
		default:
			labels = append(labels, "grammar:cold")
		}
	}
	nmut := 0
	switch k := x.n(0, 99); {
	case k < 40:
		nmut = 0
	case k < 68:
		nmut = 1
	case k < 85:
		nmut = 2
	case k < 94:
		nmut = 3
	default:
		nmut = x.n(4, 6)
	}
	if nmut > 0 {
		toks := tokenize(text)
		second := func() []string { t, _ := x.base(target); return tokenize(t) }
		for i := 0; i < nmut; i++ {
			var kind string
			toks, kind = x.mutate(toks, target, second)
			labels = append(labels, "mut:"+kind)
		}
		text = strings.Join(toks, "")
	}
	if nmut > 3 {
		nmut = 3
	}
	labels = append(labels, fmt.Sprintf("mutations:%d", nmut))
	if len(text) > maxInput {
		text = text[:maxInput]
	}
	return []byte(text), labels
}
