package c10

import (
	"encoding/json"
	"fmt"
	"os"
	"path/filepath"
	"runtime"
	"runtime/debug"
	"sort"
	"strconv"
	"strings"
	"syscall"
	"testing"

	"pgregory.net/rapid"
	"verif/stats"
)

// TestMain bounds the address space and the stack of the process: a corrupted fact file must not be able to
// take the machine down (K13: multi-GB allocation from a header count), and a runaway recursion should end
// quickly. Both end the process (fatal error), which the driver reports as infrastructure trouble and which
// leaves the offending input in $VERIF_OUT/pending-*.json.
func TestMain(m *testing.M) {
	lim := uint64(6 << 30)
	if v, err := strconv.ParseUint(os.Getenv("VERIF_C10_AS_LIMIT"), 10, 64); err == nil && v > 0 {
		lim = v
	}
	var cur syscall.Rlimit
	if syscall.Getrlimit(syscall.RLIMIT_AS, &cur) == nil && cur.Cur > lim {
		cur.Cur = lim
		syscall.Setrlimit(syscall.RLIMIT_AS, &cur)
	}
	debug.SetMaxStack(512 << 20)
	// The Go fuzzer discards the standard error of its worker processes, so a fatal error of the runtime (out of
	// memory, stack overflow) would leave no trace: workers write it to $VERIF_OUT/fuzzworker-<pid>.stderr.
	var workerLog string
	for _, a := range os.Args[1:] {
		if a == "-test.fuzzworker" && os.Getenv("VERIF_OUT") != "" {
			os.MkdirAll(os.Getenv("VERIF_OUT"), 0o755)
			workerLog = filepath.Join(os.Getenv("VERIF_OUT"), fmt.Sprintf("fuzzworker-%d.stderr", os.Getpid()))
			if f, err := os.OpenFile(workerLog, os.O_CREATE|os.O_WRONLY|os.O_APPEND, 0o644); err == nil {
				syscall.Dup2(int(f.Fd()), 2)
			}
		}
	}
	code := m.Run()
	if workerLog != "" {
		if st, err := os.Stat(workerLog); err == nil && st.Size() == 0 {
			os.Remove(workerLog)
		}
	}
	os.Exit(code)
}

// corpusRoot is <verif>/corpus/C10: $VERIF_CORPUS if set, else derived from the location of this source file.
func corpusRoot() string {
	if d := os.Getenv("VERIF_CORPUS"); d != "" {
		return d
	}
	_, file, _, _ := runtime.Caller(0)
	return filepath.Join(filepath.Dir(file), "..", "..", "..", "corpus", "C10")
}

var corpusCache = map[string][][]byte{}

// corpus returns the committed seed inputs of a target (sorted by file name: deterministic).
func corpus(target string) [][]byte {
	dir := corpusDir(target)
	if c, ok := corpusCache[dir]; ok {
		return c
	}
	var res [][]byte
	names, _ := filepath.Glob(filepath.Join(corpusRoot(), dir, "*"))
	sort.Strings(names)
	for _, n := range names {
		b, err := os.ReadFile(n)
		if err == nil && len(b) <= maxInput {
			res = append(res, b)
		}
	}
	corpusCache[dir] = res
	return res
}

// pending records the input that is about to be executed, so that a death of the process (stack overflow,
// out of memory: not recoverable) leaves the input behind.
func pending(test string, c Case) {
	dir := os.Getenv("VERIF_OUT")
	if dir == "" {
		return
	}
	if pendingFile == nil || pendingName != test {
		if pendingFile != nil {
			pendingFile.Close()
		}
		os.MkdirAll(dir, 0o755)
		f, err := os.Create(filepath.Join(dir, "pending-"+test+".json"))
		if err != nil {
			return
		}
		pendingFile, pendingName = f, test
	}
	body, _ := json.Marshal(map[string]any{"property": "C10", "test": test, "message": "process died while executing this input", "case": c})
	// one write; a shorter body is padded with spaces (valid JSON) instead of truncating the file
	for len(body) < pendingLen {
		body = append(body, ' ')
	}
	pendingLen = len(body)
	pendingFile.WriteAt(body, 0)
}

var (
	pendingFile *os.File
	pendingName string
	pendingLen  int
)

func clearPending(test string) {
	if pendingFile != nil && pendingName == test {
		pendingFile.Close()
		pendingFile, pendingLen = nil, 0
	}
	if dir := os.Getenv("VERIF_OUT"); dir != "" {
		os.Remove(filepath.Join(dir, "pending-"+test+".json"))
	}
}

// check is the oracle: a pure function of the case and the code under test.
func check(run *stats.Run, f stats.Failer, c Case) outcome {
	data, err := c.bytes()
	if err != nil {
		f.Fatalf("c10 harness: bad base64 in case: %v", err)
	}
	o := executeWatched(c.Target, data)
	switch {
	case o.hang:
		// Never a verdict. The stuck goroutine cannot be stopped, so the process ends here: exit status 2,
		// the driver reports infrastructure trouble and the input stays in $VERIF_OUT/hang-*.json.
		run.Inconclusive()
		saveHang(c)
		stats.Flush()
		fmt.Fprintf(os.Stderr, "c10: watchdog (%v) hit on target %s, input %s: inconclusive, ending the process\n", watchdog, c.Target, c.Text)
		os.Exit(2)
	case o.panicked:
		run.Failf(f, "target %s panicked on input %s: %s", c.Target, c.Text, o.panicMsg)
	case o.overrun:
		run.Failf(f, "target %s on input %s: %s", c.Target, c.Text, o.overrunMsg)
	}
	if o.excluded != "" {
		run.Excluded(o.excluded)
	}
	return o
}

func saveHang(c Case) {
	dir := os.Getenv("VERIF_OUT")
	if dir == "" {
		return
	}
	os.MkdirAll(dir, 0o755)
	body, _ := json.MarshalIndent(map[string]any{"property": "C10", "test": "watchdog", "message": "watchdog hit (inconclusive)", "case": c}, "", " ")
	os.WriteFile(filepath.Join(dir, fmt.Sprintf("hang-%016x.json", c.hash())), body, 0o644)
}

// runTarget is the rapid search for one target.
func runTarget(t *testing.T, test, target string) {
	run := stats.Begin("C10", test)
	defer run.Finish(t)
	defer clearPending(test)
	rapid.Check(t, func(rt *rapid.T) {
		data, glabels := genInput(rt, target)
		c := newCase(target, data)
		run.Current(c)
		if target == tUnit || target == tSCRead || target == tSCLazy {
			pending(test, c)
		}
		o := check(run, rt, c)
		for i, l := range glabels {
			glabels[i] = target + ":" + l
		}
		run.Case(o.nontrivial, c.hash(), append(o.labels, glabels...)...)
		if o.nontrivial && run.WantSample(target) {
			run.Sample(target, c)
		}
	})
}

func TestC10_Unit(t *testing.T)       { runTarget(t, "TestC10_Unit", tUnit) }
func TestC10_Clause(t *testing.T)     { runTarget(t, "TestC10_Clause", tClause) }
func TestC10_Term(t *testing.T)       { runTarget(t, "TestC10_Term", tTerm) }
func TestC10_BaseTerm(t *testing.T)   { runTarget(t, "TestC10_BaseTerm", tBaseTerm) }
func TestC10_Atom(t *testing.T)       { runTarget(t, "TestC10_Atom", tAtom) }
func TestC10_Literal(t *testing.T)    { runTarget(t, "TestC10_Literal", tLiteral) }
func TestC10_PredName(t *testing.T)   { runTarget(t, "TestC10_PredName", tPredName) }
func TestC10_SCReadInto(t *testing.T) { runTarget(t, "TestC10_SCReadInto", tSCRead) }
func TestC10_SCLazy(t *testing.T)     { runTarget(t, "TestC10_SCLazy", tSCLazy) }

// TestC10_Corpus executes every committed corpus file and every hostile constant on its targets, unmutated.
func TestC10_Corpus(t *testing.T) {
	run := stats.Begin("C10", "TestC10_Corpus")
	defer run.Finish(t)
	defer clearPending("TestC10_Corpus")
	for _, target := range allTargets {
		inputs := append([][]byte{}, corpus(target)...)
		if len(inputs) == 0 {
			t.Fatalf("c10 harness: no corpus for target %s below %s", target, corpusRoot())
		}
		for _, h := range hostile(target) {
			inputs = append(inputs, []byte(h))
		}
		for _, data := range inputs {
			c := newCase(target, data)
			run.Current(c)
			pending("TestC10_Corpus", c)
			o := check(run, t, c)
			run.Case(o.nontrivial, c.hash(), append(o.labels, target+":corpus")...)
		}
	}
}

// ---------------------------------------------------------------------------------------------
// Native fuzz targets (thorough tier; driven by ./check through the run entries with "fuzz").

func fuzzTargets(f *testing.F, targets ...string) {
	seen := map[string]bool{}
	for _, target := range targets {
		for _, data := range corpus(target) {
			if !seen[string(data)] {
				seen[string(data)] = true
				f.Add(data)
			}
		}
		for _, h := range hostile(target) {
			if !seen[h] {
				seen[h] = true
				f.Add([]byte(h))
			}
		}
	}
	f.Add([]byte{})
	f.Fuzz(func(t *testing.T, data []byte) {
		if len(data) > maxInput {
			t.Skip("oversize input")
		}
		for _, target := range targets {
			c := newCase(target, data)
			o := executeWatched(target, data)
			switch {
			case o.hang:
				// The worker cannot continue with a stuck goroutine. Its death makes the fuzzer save the input;
				// the driver replays it and reports it as inconclusive (exit 2), never as a violation.
				saveHang(c)
				fmt.Fprintf(os.Stderr, "c10: watchdog (%v) hit on target %s: ending the worker\n", watchdog, target)
				os.Exit(2)
			case o.panicked:
				t.Fatalf("target %s panicked on input %s: %s", target, c.Text, o.panicMsg)
			case o.overrun:
				t.Fatalf("target %s on input %s: %s", target, c.Text, o.overrunMsg)
			}
		}
	})
}

func FuzzUnit(f *testing.F)   { fuzzTargets(f, tUnit) }
func FuzzClause(f *testing.F) { fuzzTargets(f, tClause, tLiteral) }
func FuzzTerm(f *testing.F)   { fuzzTargets(f, tTerm, tBaseTerm, tAtom, tPredName) }
func FuzzSC(f *testing.F)     { fuzzTargets(f, tSCRead, tSCLazy) }

// fuzzTargetsOf maps a fuzz function name to its targets (replay of Go corpus files).
var fuzzTargetsOf = map[string][]string{
	"FuzzUnit":   {tUnit},
	"FuzzClause": {tClause, tLiteral},
	"FuzzTerm":   {tTerm, tBaseTerm, tAtom, tPredName},
	"FuzzSC":     {tSCRead, tSCLazy},
}

// ---------------------------------------------------------------------------------------------
// Replay: JSON replay files of this package and corpus files written by the Go fuzzer.

// parseGoCorpus decodes a "go test fuzz v1" file holding one []byte value.
func parseGoCorpus(body []byte) ([]byte, bool) {
	s := string(body)
	if !strings.HasPrefix(s, "go test fuzz v1") {
		return nil, false
	}
	lines := strings.Split(strings.TrimRight(s, "\n"), "\n")
	if len(lines) < 2 {
		return nil, false
	}
	v := strings.TrimSpace(lines[1])
	if !strings.HasPrefix(v, "[]byte(") || !strings.HasSuffix(v, ")") {
		return nil, false
	}
	q, err := strconv.Unquote(v[len("[]byte(") : len(v)-1])
	if err != nil {
		return nil, false
	}
	return []byte(q), true
}

func TestReplay(t *testing.T) {
	path := os.Getenv("VERIF_REPLAY")
	if path == "" {
		t.Skip("VERIF_REPLAY not set")
	}
	body, err := os.ReadFile(path)
	if err != nil {
		t.Fatalf("replay file: %v", err)
	}
	run := stats.Begin("C10", "TestReplay")
	if data, ok := parseGoCorpus(body); ok {
		// A crasher of the Go fuzzer: the fuzz function is named by the file name ("FuzzUnit-<hash>") or by
		// the directory (testdata/fuzz/FuzzUnit/<hash>); if neither tells, every target is run.
		targets := allTargets
		for name, ts := range fuzzTargetsOf {
			if strings.HasPrefix(filepath.Base(path), name+"-") || filepath.Base(filepath.Dir(path)) == name {
				targets = ts
			}
		}
		for _, target := range targets {
			check(run, t, newCase(target, data))
		}
		return
	}
	var c Case
	if !stats.LoadReplay(t, &c) {
		return
	}
	check(run, t, c)
}
