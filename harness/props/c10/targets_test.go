// Package c10 checks property C10: no input text can crash the front end.
//
// Every target takes arbitrary bytes, calls one entry point of the library with a recover around it and
// reports what happened. The oracle is the property statement itself: the call returns (value, error);
// it neither panics nor creates an unbounded number of facts under a fact limit. Nothing else is asserted.
package c10

import (
	"bytes"
	"compress/gzip"
	"encoding/base64"
	"fmt"
	"runtime/debug"
	"strconv"
	"strings"
	"syscall"
	"time"
	"unicode/utf8"

	"codeberg.org/TauCeti/mangle-go/analysis"
	"codeberg.org/TauCeti/mangle-go/ast"
	"codeberg.org/TauCeti/mangle-go/engine"
	"codeberg.org/TauCeti/mangle-go/factstore"
	"codeberg.org/TauCeti/mangle-go/parse"
	"verif/stats"
)

// Target names (the "target" member of a replay file).
const (
	tUnit     = "unit"        // parse.Unit -> analysis.AnalyzeAndCheckBounds(ErrorForBoundsMismatch) -> engine.EvalProgram(limit)
	tClause   = "clause"      // parse.Clause
	tTerm     = "term"        // parse.Term
	tBaseTerm = "baseterm"    // parse.BaseTerm
	tAtom     = "atom"        // parse.Atom
	tLiteral  = "literal"     // parse.LiteralOrFormula
	tPredName = "predname"    // parse.PredicateName
	tSCRead   = "sc_readinto" // factstore.SimpleColumn.ReadInto
	tSCLazy   = "sc_lazy"     // factstore.NewSimpleColumnStoreFromBytes (+Gzip, +Zstd wrapping of the same bytes) + GetFacts
)

var allTargets = []string{tUnit, tClause, tTerm, tBaseTerm, tAtom, tLiteral, tPredName, tSCRead, tSCLazy}

// corpusDir maps a target to its directory below corpus/C10.
func corpusDir(target string) string {
	switch target {
	case tUnit:
		return "unit"
	case tClause:
		return "clause"
	case tTerm, tBaseTerm, tAtom:
		return "term"
	case tLiteral:
		return "literal"
	case tPredName:
		return "predname"
	default:
		return "sc"
	}
}

const (
	// factLimit is the limit handed to engine.WithCreatedFactLimit for half of the inputs; the other half (chosen
	// by a hash of the input, so that a case stays a pure function of its bytes) runs under smallFactLimit.
	factLimit      = 200
	smallFactLimit = 3
	// maxInput bounds the inputs (bytes). Larger inputs are not generated and skipped by the fuzz targets:
	// the recursive-descent parser needs stack proportional to the nesting depth, which is a resource limit
	// and not the subject of the property.
	maxInput = 16 << 10
	// watchdog is the generous per-input bound. A hit is never a verdict (inconclusive, exit 2). It is measured in
	// CPU time of the process (one input runs at a time), so that a busy machine does not trigger it; an input that
	// uses no CPU (deadlock) is given up after watchdogWall.
	watchdog     = 20 * time.Second
	watchdogWall = 10 * time.Minute
)

// evalTime is the fixed evaluation time (no wall clock inside a case).
var evalTime = time.Date(2024, 6, 15, 12, 0, 0, 0, time.UTC)

// Case is the replay format: the target and the input bytes (base64, inputs are arbitrary bytes).
type Case struct {
	Target string `json:"target"`
	Data   string `json:"data_b64"`
	// Text is the same input as a Go-quoted string, for the human reader only (never read back).
	Text string `json:"text,omitempty"`
}

func newCase(target string, data []byte) Case {
	return Case{Target: target, Data: base64.StdEncoding.EncodeToString(data), Text: quoteForHumans(data)}
}

func (c Case) bytes() ([]byte, error) { return base64.StdEncoding.DecodeString(c.Data) }

func (c Case) hash() uint64 { return stats.Hash(c.Target, c.Data) }

func quoteForHumans(data []byte) string {
	if len(data) > 600 {
		return strconv.Quote(string(data[:600])) + "..."
	}
	return strconv.Quote(string(data))
}

// outcome is what one execution of a target observed.
type outcome struct {
	labels     []string
	nontrivial bool
	panicked   bool   // the library panicked
	panicMsg   string // panic value and the top of its stack
	overrun    bool   // more facts were created than any enforcement of the limit allows
	overrunMsg string
	hang       bool   // watchdog hit (inconclusive, never a verdict)
	excluded   string // name of the known-finding exclusion that cut this case short
}

// exclMergeDivergence names the exclusion for the finding "evaluation with a merge predicate does not
// terminate and is not stopped by the fact limit" (see notes/proposed/C10-lattice-divergence.diff).
const exclMergeDivergence = "c10-merge-predicate-divergence"

// exclDeferredRecursion names the exclusion for the finding "a recursive deferred predicate is resolved without
// loop check or budget and need not return" (see notes/proposed/C10-deferred-recursion-depth.diff).
const exclDeferredRecursion = "c10-deferred-predicate-recursion"

// hasDeferredRecursion tells whether a deferred predicate can reach itself through rule bodies using deferred
// predicates only (only those are resolved by rules during top-down evaluation, all others are store lookups).
func hasDeferredRecursion(info *analysis.ProgramInfo) bool {
	deferred := map[ast.PredicateSym]bool{}
	for sym, d := range info.Decls {
		if d != nil && d.DeferredPredicate() {
			deferred[sym] = true
		}
	}
	if len(deferred) == 0 {
		return false
	}
	edges := map[ast.PredicateSym][]ast.PredicateSym{}
	for _, r := range info.Rules {
		if !deferred[r.Head.Predicate] {
			continue
		}
		for _, p := range r.Premises {
			if a, ok := p.(ast.Atom); ok && deferred[a.Predicate] {
				edges[r.Head.Predicate] = append(edges[r.Head.Predicate], a.Predicate)
			}
		}
	}
	for start := range deferred {
		seen := map[ast.PredicateSym]bool{}
		stack := append([]ast.PredicateSym{}, edges[start]...)
		for len(stack) > 0 {
			n := stack[len(stack)-1]
			stack = stack[:len(stack)-1]
			if n == start {
				return true
			}
			if !seen[n] {
				seen[n] = true
				stack = append(stack, edges[n]...)
			}
		}
	}
	return false
}

func hasMergeDecl(info *analysis.ProgramInfo) bool {
	for _, d := range info.Decls {
		if d == nil {
			continue
		}
		for _, a := range d.Descr {
			if a.Predicate.Symbol == ast.DescrMergePredicate {
				return true
			}
		}
	}
	return false
}

func (o *outcome) label(l string) { o.labels = append(o.labels, l) }

// overrunSentinel is the private panic value of the counting stores.
type overrunSentinel struct{ created, bound int }

// countingStore counts successful Adds of the wrapped store and aborts the evaluation when the
// number exceeds bound.
type countingStore struct {
	factstore.FactStore
	remover factstore.FactStoreWithRemove
	n       *int
	bound   int
	// lattice: predicates declared with a merge predicate. Every derived fact of such a predicate is offered to
	// the store by one GetFacts lookup of the existing facts, also when the merge predicate then discards it, so
	// these lookups are the "created facts" a successful Add cannot see. offered counts GetFacts calls on them.
	lattice    map[ast.PredicateSym]bool
	offered    *int
	offerBound int
	// locking: the wrapped store is a ConcurrentFactStore, which runs GetFacts callbacks under its read lock; a
	// write from inside such a callback (depth > 0) would block for ever and is reported instead of executed.
	locking bool
	depth   *int
}

// reentrantSentinel is the private panic value for a write to a locking store from inside its own callback.
type reentrantSentinel struct{ op string }

// noNamedVariable: every argument is a constant or the wildcard, as in the lookup of the existing facts by which
// the engine merges a derived fact of a lattice predicate (source columns as constants, the others open).
func noNamedVariable(a ast.Atom) bool {
	for _, arg := range a.Args {
		if v, ok := arg.(ast.Variable); ok && v.Symbol != "_" {
			return false
		}
		if _, ok := arg.(ast.ApplyFn); ok {
			return false
		}
	}
	return true
}

// offerSentinel is the private panic value for too many lookups on lattice predicates.
type offerSentinel struct{ offered, bound int }

func (s countingStore) GetFacts(a ast.Atom, fn func(ast.Atom) error) error {
	if s.lattice[a.Predicate] && noNamedVariable(a) {
		*s.offered++
		if *s.offered > s.offerBound {
			panic(offerSentinel{*s.offered, s.offerBound})
		}
	}
	if !s.locking {
		return s.FactStore.GetFacts(a, fn)
	}
	return s.FactStore.GetFacts(a, func(x ast.Atom) error {
		*s.depth++
		defer func() { *s.depth-- }()
		return fn(x)
	})
}

func (s countingStore) Add(a ast.Atom) bool {
	if s.locking && *s.depth > 0 {
		panic(reentrantSentinel{"Add"})
	}
	ok := s.FactStore.Add(a)
	if ok {
		*s.n++
		if *s.n > s.bound {
			panic(overrunSentinel{*s.n, s.bound})
		}
	}
	return ok
}

// Remove keeps the wrapped store's optional removal interface visible to the engine (merge predicates).
func (s countingStore) Remove(a ast.Atom) bool {
	if s.locking && *s.depth > 0 {
		panic(reentrantSentinel{"Remove"})
	}
	return s.remover.Remove(a)
}

type countingTemporalStore struct {
	factstore.TemporalFactStore
	n     *int
	bound int
}

func (s countingTemporalStore) Add(a ast.Atom, iv ast.Interval) (bool, error) {
	ok, err := s.TemporalFactStore.Add(a, iv)
	if ok {
		*s.n++
		if *s.n > s.bound {
			panic(overrunSentinel{*s.n, s.bound})
		}
	}
	return ok, err
}

func (s countingTemporalStore) AddEternal(a ast.Atom) (bool, error) {
	ok, err := s.TemporalFactStore.AddEternal(a)
	if ok {
		*s.n++
		if *s.n > s.bound {
			panic(overrunSentinel{*s.n, s.bound})
		}
	}
	return ok, err
}

// createdBound is the number of created facts beyond which the limit was evidently not enforced.
// It is twice the bound B of DESIGN §3 C17 (B = 2(N0 + F + (2R+2)(L+1)) + 16 with N0 = 0 facts in the
// store, F facts and R rules in the program, L the limit) and at least 50 000: the engine checks the
// limit per join (<= L solutions per rule evaluation) and per round, so a first round may add R*L facts
// unchecked and every later round is cut at L+1.
func createdBound(unit parse.SourceUnit, factLimit int) int {
	f, r := 0, 0
	for _, c := range unit.Clauses {
		if c.Premises == nil {
			f++
		} else {
			r++
		}
	}
	b := 2*(f+(2*r+2)*(factLimit+1)) + 16
	if 2*b < 50000 && factLimit > smallFactLimit {
		return 50000
	}
	return 2 * b
}

// guarded runs fn with recover. A panic of the library ends in o.panicked, the private sentinel in o.overrun.
func guarded(o *outcome, fn func()) {
	defer func() {
		if r := recover(); r != nil {
			if s, ok := r.(overrunSentinel); ok {
				o.overrun = true
				o.overrunMsg = fmt.Sprintf("evaluation under a created-fact limit created %d facts (bound %d): the limit is not enforced, evaluation would not return", s.created, s.bound)
				return
			}
			if s, ok := r.(reentrantSentinel); ok {
				o.overrun = true
				o.overrunMsg = fmt.Sprintf("evaluation on a ConcurrentFactStore calls %s on the store from inside the store's own GetFacts callback (read lock held, write lock requested by the same goroutine): it would never return", s.op)
				return
			}
			if s, ok := r.(offerSentinel); ok {
				o.overrun = true
				o.overrunMsg = fmt.Sprintf("evaluation under a created-fact limit looked up the existing facts of predicates with a merge declaration %d times (bound %d): derived facts keep being offered to the store, the limit does not stop the rounds, evaluation would not return", s.offered, s.bound)
				return
			}
			o.panicked = true
			o.panicMsg = fmt.Sprintf("%v\n%s", r, trimStack(debug.Stack()))
		}
	}()
	fn()
}

// trimStack keeps the frames of the library (drops the harness and runtime noise, bounded length).
func trimStack(st []byte) string {
	lines := strings.Split(string(st), "\n")
	var keep []string
	for i := 0; i+1 < len(lines); i++ {
		if strings.HasPrefix(lines[i], "codeberg.org/TauCeti/mangle-go/") {
			keep = append(keep, strings.TrimSpace(lines[i])+" @ "+strings.TrimSpace(lines[i+1]))
			if len(keep) == 6 {
				break
			}
		}
	}
	return strings.Join(keep, "\n")
}

// maxDepth bounds the bracket nesting of an input. The generated parser needs time that grows faster than
// linearly with the nesting depth (1 600 nested "p(" take about 12 s, 8 000 would take minutes), which is a
// resource question and would only ever end in the watchdog; deeper inputs are skipped and counted.
const maxDepth = 100

// nestingDepth is the largest excess of opening over closing brackets in a prefix of data.
func nestingDepth(data []byte) int {
	depth, max := 0, 0
	for _, c := range data {
		switch c {
		case '(', '[', '{', '<':
			depth++
			if depth > max {
				max = depth
			}
		case ')', ']', '}', '>':
			if depth > 0 {
				depth--
			}
		}
	}
	return max
}

// execute runs one target on data in the calling goroutine.
func execute(target string, data []byte) (o outcome) {
	if nestingDepth(data) > maxDepth {
		o.labels = []string{target + ":skipped_deep_nesting"}
		return o
	}
	switch target {
	case tUnit:
		execUnit(&o, data)
	case tClause:
		guarded(&o, func() {
			if _, err := parse.Clause(string(data)); err == nil {
				o.nontrivial = true
				o.label("parsed")
			}
		})
	case tTerm:
		guarded(&o, func() {
			if _, err := parse.Term(string(data)); err == nil {
				o.nontrivial = true
				o.label("parsed")
			}
		})
	case tBaseTerm:
		guarded(&o, func() {
			if _, err := parse.BaseTerm(string(data)); err == nil {
				o.nontrivial = true
				o.label("parsed")
			}
		})
	case tAtom:
		guarded(&o, func() {
			if _, err := parse.Atom(string(data)); err == nil {
				o.nontrivial = true
				o.label("parsed")
			}
		})
	case tLiteral:
		guarded(&o, func() {
			if _, err := parse.LiteralOrFormula(string(data)); err == nil {
				o.nontrivial = true
				o.label("parsed")
			}
		})
	case tPredName:
		guarded(&o, func() {
			if name, err := parse.PredicateName(string(data)); err == nil && name != "" {
				o.nontrivial = true
				o.label("parsed")
			}
		})
	case tSCRead:
		guarded(&o, func() {
			store := factstore.NewSimpleInMemoryStore()
			err := factstore.SimpleColumn{}.ReadInto(bytes.NewReader(data), store)
			if err == nil {
				o.label("sc_read_ok")
			}
			if headerLooksValid(data) {
				o.nontrivial = true
				o.label("sc_header_ok")
			}
			if store.EstimateFactCount() > 0 {
				o.label("sc_facts")
			}
		})
	case tSCLazy:
		execSCLazy(&o, data)
	default:
		panic("c10 harness: unknown target " + target)
	}
	if !utf8.Valid(data) {
		o.label("invalid_utf8")
	}
	// labels are counted per target: "<target>:<label>"
	for i, l := range o.labels {
		o.labels[i] = target + ":" + l
	}
	return o
}

func execUnit(o *outcome, data []byte) {
	var unit parse.SourceUnit
	var info *analysis.ProgramInfo
	var err error
	guarded(o, func() { unit, err = parse.Unit(bytes.NewReader(data)) })
	if o.panicked {
		o.label("panic_in_parse")
		return
	}
	if err != nil {
		o.label("parse_error")
		return
	}
	o.nontrivial = true // reaches analysis
	o.label("parsed")
	if len(unit.Clauses) == 0 && len(unit.Decls) <= 1 {
		o.label("empty_unit")
	}
	guarded(o, func() {
		info, err = analysis.AnalyzeAndCheckBounds([]parse.SourceUnit{unit}, nil, analysis.ErrorForBoundsMismatch)
	})
	if o.panicked {
		o.label("panic_in_analysis")
		return
	}
	if err != nil || info == nil {
		o.label("analysis_error")
		return
	}
	o.label("analyzed")
	if len(info.Rules) > 0 {
		o.label("analyzed_with_rules")
	}
	if stats.Exclusion(exclMergeDivergence) && hasMergeDecl(info) {
		// Known finding (only while registered as known): with a merge predicate the rounds can go on for ever
		// without the store growing, and no limit stops them. Such programs are analysed but not evaluated.
		o.excluded = exclMergeDivergence
		o.label("eval_excluded_merge")
		return
	}
	if stats.Exclusion(exclDeferredRecursion) && hasDeferredRecursion(info) {
		// Known finding (only while registered as known): deferred predicates are resolved top-down without a
		// loop check or a budget, a recursive one need not return.
		o.excluded = exclDeferredRecursion
		o.label("eval_excluded_deferred_recursion")
		return
	}
	// Fresh stores for every input; both are counted together against the bound.
	created, offered := 0, 0
	lattice := map[ast.PredicateSym]bool{}
	for sym, d := range info.Decls {
		if d == nil {
			continue
		}
		for _, a := range d.Descr {
			if a.Predicate.Symbol == ast.DescrMergePredicate {
				lattice[sym] = true
			}
		}
	}
	limit := factLimit
	if stats.Hash(string(data))&1 == 1 {
		limit = smallFactLimit
		o.label("small_limit")
	}
	bound := createdBound(unit, limit)
	simple := factstore.NewSimpleInMemoryStore()
	// Derived facts of lattice predicates are offered to the store by a lookup without named variables. There are
	// at most as many of them as created facts (bound), plus the reads of body atoms of that shape (no named
	// variable, which is rare): a stratum runs at most limit+2 rounds of at most 2R+2 (delta) rules with at most
	// limit+1 partial solutions per join, times at most R+1 strata.
	r := len(info.Rules)
	openAtoms := 0
	for _, c := range info.Rules {
		for _, p := range c.Premises {
			if a, ok := p.(ast.Atom); ok && lattice[a.Predicate] && noNamedVariable(a) {
				openAtoms++
			}
		}
	}
	nf := 0
	for _, c := range unit.Clauses {
		if c.Premises == nil {
			nf++
		}
	}
	offerBound := 2*(2*(nf+(2*r+2)*(limit+1))+16) + openAtoms*(r+1)*(limit+2)*(2*r+2)*(limit+1)
	// A deferred predicate is resolved top-down, once per goal and up to the nesting bound deep; when its rules
	// read a lattice predicate those lookups are not offers of derived facts and the count says nothing.
	for _, c := range info.Rules {
		d, ok := info.Decls[c.Head.Predicate]
		if !ok || d == nil || !d.DeferredPredicate() {
			continue
		}
		for _, p := range c.Premises {
			if a, ok := p.(ast.Atom); ok && lattice[a.Predicate] {
				offerBound = 1 << 60
			}
		}
	}
	store := countingStore{FactStore: simple, remover: simple, n: &created, bound: bound, lattice: lattice, offered: &offered, offerBound: offerBound}
	if stats.Hash(string(data))&2 == 2 {
		// every other input is evaluated on the concurrent wrapper
		cs := factstore.NewConcurrentFactStore(simple)
		depth := 0
		store.FactStore, store.remover, store.locking, store.depth = cs, cs, true, &depth
		o.label("concurrent_store")
	}
	temporal := countingTemporalStore{TemporalFactStore: factstore.NewTemporalStore(), n: &created, bound: bound}
	guarded(o, func() {
		err = engine.EvalProgram(info, store,
			engine.WithCreatedFactLimit(limit),
			engine.WithTemporalStore(temporal),
			engine.WithEvaluationTime(evalTime))
	})
	if o.panicked {
		o.label("panic_in_eval")
		return
	}
	if o.overrun {
		return
	}
	if err != nil {
		o.label("eval_error")
		if strings.Contains(err.Error(), "limit") {
			o.label("eval_limit_error")
		}
		return
	}
	o.label("evaluated")
	if created > 0 {
		o.label("evaluated_with_facts")
	}
	if temporal.EstimateFactCount() > 0 {
		o.label("evaluated_temporal_facts")
	}
}

// headerLooksValid is the harness' own reading of the simple-column header (non-trivial rule only,
// never a verdict): first line a count n >= 0, followed by n lines "<name> <arity> <count>".
func headerLooksValid(data []byte) bool {
	lines := strings.Split(string(data), "\n")
	n, err := strconv.Atoi(lines[0])
	if err != nil || n < 0 || n > 1<<16 || len(lines) < 1+n {
		return false
	}
	for _, l := range lines[1 : 1+n] {
		f := strings.Fields(l)
		if len(f) != 3 {
			return false
		}
		if _, err := strconv.Atoi(f[1]); err != nil {
			return false
		}
		if _, err := strconv.Atoi(f[2]); err != nil {
			return false
		}
	}
	return true
}

func execSCLazy(o *outcome, data []byte) {
	type variant struct {
		name     string
		maxPreds int
		mk       func() (*factstore.SimpleColumnStore, error)
	}
	variants := []variant{
		{"plain", 40, func() (*factstore.SimpleColumnStore, error) { return factstore.NewSimpleColumnStoreFromBytes(data) }},
		{"gzip", 3, func() (*factstore.SimpleColumnStore, error) {
			return factstore.NewSimpleColumnStoreFromGzipBytes(gzipBytes(data))
		}},
	}
	// Every zstd reader costs about a millisecond (decoder goroutines and buffers), and GetFacts opens one per
	// call: the wrapped variant runs for a quarter of the inputs (chosen by a hash of the input, so that the
	// verdict stays a function of the input).
	if stats.Hash(string(data))%4 == 0 {
		variants = append(variants, variant{"zstd", 2, func() (*factstore.SimpleColumnStore, error) {
			return factstore.NewSimpleColumnStoreFromZstdBytes(zstdRawFrame(data))
		}})
	}
	// The bytes themselves handed to the decompressing constructors (corrupted compressed files); without
	// the magic number the constructors fail at once, so only inputs that carry it are tried.
	if bytes.HasPrefix(data, []byte{0x1f, 0x8b}) {
		variants = append(variants, variant{"gzip_raw", 3, func() (*factstore.SimpleColumnStore, error) { return factstore.NewSimpleColumnStoreFromGzipBytes(data) }})
	}
	// A zstd frame header declares a window (up to 512 MiB with the decoder's defaults) that the decoder allocates at
	// once, per reader: a 19-byte input costs half a gigabyte. That is memory use of the third-party decoder and no
	// crash; frames declaring more than 8 MiB are not fed, otherwise fuzz workers die of memory exhaustion.
	if bytes.HasPrefix(data, []byte{0x28, 0xb5, 0x2f, 0xfd}) && zstdDeclaredWindow(data) <= 8<<20 {
		variants = append(variants, variant{"zstd_raw", 2, func() (*factstore.SimpleColumnStore, error) { return factstore.NewSimpleColumnStoreFromZstdBytes(data) }})
	}
	for _, v := range variants {
		guarded(o, func() {
			st, err := v.mk()
			if err != nil || st == nil {
				return
			}
			o.label("sc_lazy_" + v.name)
			if v.name == "plain" {
				o.nontrivial = true // the header parsed
				o.label("sc_header_ok")
			}
			preds := st.ListPredicates()
			if len(preds) > v.maxPreds {
				preds = preds[:v.maxPreds]
			}
			facts := 0
			for _, p := range preds {
				if p.Arity > 64 {
					continue // a query atom needs one argument per column; keep the harness cheap
				}
				st.GetFacts(ast.NewQuery(p), func(ast.Atom) error { facts++; return nil })
				st.FactCount(p)
			}
			st.EstimateFactCount()
			if facts > 0 && v.name == "plain" {
				o.label("sc_facts")
			}
		})
		if o.panicked {
			o.panicMsg = "variant " + v.name + ": " + o.panicMsg
			return
		}
	}
}

// zstdDeclaredWindow reads the window size a zstd frame header announces (0 if the header is cut short).
func zstdDeclaredWindow(data []byte) uint64 {
	if len(data) < 6 {
		return 0
	}
	fhd := data[4]
	if fhd&0x20 == 0 { // no single segment: a window descriptor follows
		exp, mant := uint64(data[5]>>3), uint64(data[5]&7)
		base := uint64(1) << (10 + exp)
		return base + base/8*mant
	}
	// single segment: the window is the frame content size (1, 2, 4 or 8 bytes after the dictionary id)
	pos := 5 + []int{0, 1, 2, 4}[fhd&3]
	n := []int{1, 2, 4, 8}[fhd>>6]
	if len(data) < pos+n {
		return 0
	}
	var v uint64
	for i := n - 1; i >= 0; i-- {
		v = v<<8 | uint64(data[pos+i])
	}
	if n == 2 {
		v += 256
	}
	return v
}

func gzipBytes(data []byte) []byte {
	var buf bytes.Buffer
	w := gzip.NewWriter(&buf)
	w.Write(data)
	w.Close()
	return buf.Bytes()
}

// zstdRawFrame wraps data into a valid zstd frame made of raw (uncompressed) blocks, so that the zstd
// constructor can be exercised without importing an encoder.
func zstdRawFrame(data []byte) []byte {
	out := []byte{0x28, 0xB5, 0x2F, 0xFD, // magic
		0x00, // frame header descriptor: no content size, no single segment, no checksum, no dictionary
		0x50} // window descriptor: 1 MiB
	const blk = 1 << 16
	if len(data) == 0 {
		return append(out, 0x01, 0x00, 0x00) // last block, raw, size 0
	}
	for off := 0; off < len(data); off += blk {
		end := off + blk
		last := 0
		if end >= len(data) {
			end = len(data)
			last = 1
		}
		h := last | (end-off)<<3
		out = append(out, byte(h), byte(h>>8), byte(h>>16))
		out = append(out, data[off:end]...)
	}
	return out
}

// executeWatched runs execute in its own goroutine under the watchdog. After a watchdog hit the goroutine
// is left behind (it cannot be stopped); the caller must end the process soon.
func executeWatched(target string, data []byte) outcome {
	done := make(chan outcome, 1)
	go func() { done <- execute(target, data) }()
	timer := time.NewTimer(watchdog)
	defer timer.Stop()
	start, cpu0 := time.Now(), cpuTime()
	for {
		select {
		case o := <-done:
			return o
		case <-timer.C:
			if cpuTime()-cpu0 >= watchdog || time.Since(start) >= watchdogWall {
				return outcome{hang: true, labels: []string{target + ":watchdog"}}
			}
			timer.Reset(time.Second)
		}
	}
}

// cpuTime is the CPU time (user + system) the process has used so far.
func cpuTime() time.Duration {
	var ru syscall.Rusage
	if syscall.Getrusage(syscall.RUSAGE_SELF, &ru) != nil {
		return 0
	}
	return time.Duration(ru.Utime.Nano() + ru.Stime.Nano())
}
