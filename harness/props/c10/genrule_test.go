package c10

import (
	"fmt"
	"strings"
)

// Rules. A rule is built left to right the way the bounds checker reads it (analysis/infercontext.go): every
// variable gets the type of the column, function result or interval bound that binds it, and every later choice
// (join variables, arguments of built-in predicates and functions, keys and reducer of a do-transform, the head)
// is made among the things of a fitting type. What the checker does with an atom p(X, Y): the types already known
// for X and Y must all conform to the column types or all column types must conform to them (fits); new variables,
// wildcards and constants always pass.

// tvar is a variable of the rule under construction.
type tvar struct {
	name string
	t    *ty // type the bounds checker has for it (nil: not known to the generator)
	// unk: the checker may have /any or one of several types for it (a column of an undeclared predicate that is
	// still being inferred because the rule is recursive, facts of mixed types, type variables of :match_pair and
	// :match_cons, a second bound row). Such a variable is only used where every type passes.
	unk bool
}

type ruleGen struct {
	x     g
	p     pred
	preds []pred
	vars  []*tvar
	used  map[string]bool
	body  []string
	tvars []string // interval variables bound by temporal literals
	loose bool     // hot: variables and functions are chosen without looking at types
	nth   int      // number of the body atom (names of interval variables)
	depth int      // nesting of function applications
	// rec: variables whose values come out of the recursion the rule is part of. A head (or a term on its way to the
	// head) that mentions such variables twice, fn:pair(X, X), doubles the size of the value with every round: one new
	// fact per round, so no fact limit stops it, and comparing two such values takes 2^rounds steps. Terms are
	// built with at most one occurrence.
	rec map[string]bool
}

// recursive: atoms of q in a rule of the head predicate are part of a recursion.
func (r *ruleGen) recursive(q pred) bool {
	return q.idb && r.p.idb && (q.index >= r.p.index || q.top >= r.p.index)
}

// recCount: occurrences of variables of the recursion in the text.
func (r *ruleGen) recCount(text string) int {
	n := 0
	for v := range r.rec {
		for i := 0; i+len(v) <= len(text); i++ {
			if text[i:i+len(v)] == v && (i == 0 || !isWord(text[i-1])) && (i+len(v) == len(text) || !isWord(text[i+len(v)])) {
				n++
			}
		}
	}
	return n
}

// grows: the term would make values grow without bound (hot cases do not care).
func (r *ruleGen) grows(text string) bool { return !r.x.hot && r.recCount(text) > 1 }

var freshNames = []string{"X", "Y", "Z", "W", "N", "K", "M", "V", "U", "Q", "H", "G", "J"}

func (r *ruleGen) fresh() string {
	for _, n := range freshNames {
		if !r.used[n] {
			r.used[n] = true
			return n
		}
	}
	for i := 1; ; i++ {
		n := fmt.Sprintf("X%d", i)
		if !r.used[n] {
			r.used[n] = true
			return n
		}
	}
}

func (r *ruleGen) lookup(name string) *tvar {
	for _, v := range r.vars {
		if v.name == name {
			return v
		}
	}
	return nil
}

func (r *ruleGen) bind(name string, t *ty, unk bool) *tvar {
	if name == "_" {
		return nil
	}
	if v := r.lookup(name); v != nil {
		return v
	}
	r.used[name] = true
	v := &tvar{name: name, t: t, unk: unk || t == nil}
	r.vars = append(r.vars, v)
	return v
}

func (r *ruleGen) names() []string {
	out := make([]string, len(r.vars))
	for i, v := range r.vars {
		out[i] = v.name
	}
	return out
}

// anyVar is the old, type-blind choice of a bound variable.
func (r *ruleGen) anyVar() string {
	if len(r.vars) == 0 {
		return r.x.variable()
	}
	return r.vars[r.x.n(0, len(r.vars)-1)].name
}

// blind: this choice ignores the types (loose hot cases; one of the invalid choices of a warm case).
func (r *ruleGen) blind() bool { return r.loose || r.x.bad(1) }

// fits: v can stand in a column of type c of an atom whose earlier arguments fixed the direction dir (0: none,
// 1: variables narrower than their columns, 2: wider).
func (r *ruleGen) fits(v *tvar, c *ty, dir int) (newDir int, refine, ok bool) {
	switch {
	case v.unk && c.isBase("/any"):
		return 1, false, dir != 2
	case v.unk:
		return 2, true, v.t != nil && tyEq(v.t, c) && dir != 1
	case tyEq(v.t, c):
		return dir, false, true
	case tySub(v.t, c):
		return 1, false, dir != 2
	case tySub(c, v.t):
		return 2, true, dir != 1
	}
	return dir, false, false
}

// nameFor: the variable can be the argument of :match_prefix(V, prefix).
func nameFor(v *tvar, prefix string) bool {
	if v.t == nil {
		return false
	}
	if v.t.isBase("/any") || v.t.isBase("/name") {
		return true
	}
	return v.t.isPrefixName() && (strings.HasPrefix(v.t.lit+"/", prefix+"/") || strings.HasPrefix(prefix+"/", v.t.lit+"/"))
}

// suspect: q is an undeclared intensional predicate whose type may still be under inference when the checker
// reads this rule (q is part of a recursion through the head): its columns are /any then.
func (r *ruleGen) suspect(q pred) bool {
	if !q.idb || q.byDecl() || !r.p.idb {
		return false
	}
	return q.index >= r.p.index || q.top >= r.p.index
}

// mayUse: a rule of the head predicate may have q in its body.
func (r *ruleGen) mayUse(q pred) bool {
	if q.deferred && r.p.deferred && q.index >= r.p.index {
		return false // a recursive deferred predicate only ever ends in "nested too deeply"
	}
	if !q.idb || !r.p.idb || q.index <= r.p.index {
		return true
	}
	for _, f := range r.p.fwd {
		if f == q.index {
			return true
		}
	}
	return false
}

// below: q is in a lower stratum than the head (negation and aggregation need that).
func (r *ruleGen) below(q pred) bool {
	if !q.idb {
		return true
	}
	return r.p.idb && q.index < r.p.index && q.top < r.p.index
}

// constFor: a constant for a column of type c in a body atom ("" if there is none that can be evaluated).
func (r *ruleGen) constFor(c *ty) string {
	x := r.x
	switch c.kind {
	case "base":
		switch c.lit {
		case "/any":
			return x.pick([]string{"0", "1", "2", "/a", `"a"`})
		case "/bytes":
			return `b"a"`
		}
		return x.value(c, true)
	case "list", "map", "struct", "tagged", "singleton":
		if factOK(c) || c.kind == "singleton" {
			return x.valueOf(c)
		}
	case "union":
		if factOK(c) {
			return x.valueOf(c)
		}
	}
	return ""
}

// arg chooses the argument of a body atom for a column of type c. must: the argument has to have a value already
// (input column of a mode, negated atom). inAtom: variables of this atom so far with their column type.
func (r *ruleGen) arg(q pred, col int, must, negated bool, dir *int, inAtom map[string]*ty) (string, bool) {
	x := r.x
	c := q.cols[col]
	if r.loose {
		if x.chance(12) {
			return x.pick([]string{"0", "1", "2", "/a", `"a"`, "_"}), true
		}
		v := x.pick([]string{"X", "Y", "Z"})
		if q.deferred && len(r.vars) > 0 && x.chance(70) {
			v = r.anyVar()
		}
		return v, true
	}
	type cand struct {
		v      *tvar
		dir    int
		refine bool
	}
	var cands []cand
	for _, v := range r.vars {
		if q.unsure(col) {
			break // the types of this column are those of the facts: only new variables are sure to pass
		}
		if c0, ok := inAtom[v.name]; ok && !tyEq(c0, c) {
			continue
		}
		if q.reflects != "" && !nameFor(v, q.reflects) {
			continue // the atom becomes :match_prefix(V, /prefix): V has to be a name that can have the prefix
		}
		if d, refine, ok := r.fits(v, c, *dir); ok {
			cands = append(cands, cand{v, d, refine})
		}
	}
	if x.bad(1) && len(r.vars) > 0 {
		return r.anyVar(), true // whatever its type
	}
	k := x.n(0, 99)
	if !must && k < 12 {
		if k < 4 {
			return "_", true
		}
		if s := r.constFor(c); s != "" && !strings.HasPrefix(s, "fn:") {
			return s, true
		}
		return "_", true
	}
	if len(cands) > 0 && (must || k < 62) {
		cd := cands[x.n(0, len(cands)-1)]
		if cd.refine && !negated { // (a negated atom tells the checker nothing)
			// The checker narrows the variable to the column type. If the predicate may still be under inference
			// (its columns are /any then), it does so on one of its passes only.
			cd.v.t, cd.v.unk = c, r.suspect(q)
		}
		*dir = cd.dir
		inAtom[cd.v.name] = c
		return cd.v.name, true
	}
	if must {
		if s := r.constFor(c); s != "" && !strings.HasPrefix(s, "fn:") {
			return s, true
		}
		return "", false
	}
	name := r.fresh()
	inAtom[name] = c
	return name, true
}

// atomOf builds a body atom of q (without annotation). The variables it binds are registered only if it is not
// negated. ok is false if an argument that needs a value cannot be had.
func (r *ruleGen) atomOf(q pred, negated bool) (string, bool) {
	x := r.x
	dir := 0
	inAtom := map[string]*ty{}
	ok := true
	type nv struct {
		name string
		col  int
	}
	var fresh []nv
	lit := x.atom(q, func(col int) string {
		if col >= q.arity { // arity mismatch of a hot case
			return r.anyVar()
		}
		must := negated || col < len(q.mode) && q.mode[col] == '+'
		if q.reflects != "" && strings.Contains(r.p.mode, "?") && !x.hot {
			// the rewriting to :match_prefix takes a head variable of mode "?" for bound, the rule check does not
			must = true
		}
		s, good := r.arg(q, col, must, negated, &dir, inAtom)
		if !good {
			ok = false
			return "_"
		}
		if r.lookup(s) == nil && s != "_" && s != "" && s[0] >= 'A' && s[0] <= 'Z' {
			fresh = append(fresh, nv{s, col})
		}
		return s
	})
	if !ok {
		for _, f := range fresh {
			delete(r.used, f.name)
		}
		return "", false
	}
	if !negated {
		for _, f := range fresh {
			if r.recursive(q) {
				r.rec[f.name] = true
			}
			c := q.cols[f.col]
			switch {
			case q.unsure(f.col):
				r.bind(f.name, nil, true)
			case r.suspect(q):
				r.bind(f.name, c, true)
			default:
				r.bind(f.name, c, false)
			}
		}
	}
	return lit, true
}

// positive adds a positive body atom of q with the annotation a temporal predicate needs.
func (r *ruleGen) positive(q pred) bool {
	lit, ok := r.atomOf(q, false)
	if !ok {
		return false
	}
	r.body = append(r.body, r.annotate(q, lit))
	return true
}

// annotate gives the atom of a temporal predicate an operator or an annotation.
func (r *ruleGen) annotate(q pred, lit string) string {
	x := r.x
	i := r.nth
	r.nth++
	if q.temporal && (!x.hot || x.chance(85)) || x.bad(5) {
		switch x.n(0, 3) {
		case 0:
			if r.p.temporal && q.name == r.p.name && !x.hot {
				// a future operator in a recursive temporal rule is rejected by the analysis
				lit = x.operatorOf(x.pick([]string{"<-", "[-"})) + " " + lit
			} else {
				lit = x.operator() + " " + lit
			}
		case 1:
			t := "T" + fmt.Sprint(i)
			lit = lit + "@[" + t + "]"
			r.tvars = append(r.tvars, t)
			r.bind(t, tyTime, false)
		case 2:
			s, e := "S"+fmt.Sprint(i), "E"+fmt.Sprint(i)
			lit = lit + "@[" + s + ", " + e + "]"
			r.tvars = append(r.tvars, s, e)
			r.bind(s, tyTime, false)
			r.bind(e, tyTime, false)
		default:
			if x.hot {
				lit = lit + x.annotation()
			} else {
				lit = lit + x.factAnnotation()
			}
		}
	}
	return lit
}

// constructible: a term of type c can be written with the variables at hand and constants (syn finds one).
func (r *ruleGen) constructible(c *ty, vars []*tvar, nested bool) bool {
	for _, v := range vars {
		if nested && !v.unk && tyEq(v.t, c) || !nested && fitsHead(v, c) {
			return true
		}
	}
	all := func(ts []*ty) bool {
		for _, t := range ts {
			if !r.constructible(t, vars, true) {
				return false
			}
		}
		return true
	}
	switch c.kind {
	case "base":
		return c.lit != "/bytes"
	case "pair", "option", "tuple":
		return !nested && all(c.args)
	case "list":
		return true
	case "map":
		return keyOK(c.args[0]) && all(c.args)
	case "struct":
		for i, a := range c.args {
			if !c.opt[i] && !r.constructible(a, vars, true) {
				return false
			}
		}
		return true
	case "union":
		if nested {
			return false
		}
		for _, a := range c.args {
			if r.constructible(a, vars, false) {
				return true
			}
		}
	case "tagged":
		if nested {
			return false
		}
		for _, variant := range c.args {
			if all(variant.args) {
				return true
			}
		}
	}
	return false
}

// provide adds a body atom that binds a variable of type c (a column of that type of some predicate), for a head
// column that nothing at hand can fill.
func (r *ruleGen) provide(c *ty, from []pred) bool {
	x := r.x
	type option struct {
		q   pred
		col int
	}
	var options []option
	for _, q := range from {
		if q.deferred || q.external || strings.Contains(q.mode, "+") || q.reflects != "" || r.suspect(q) {
			continue
		}
		for j, qc := range q.cols {
			if !q.unsure(j) && tySub(qc, c) && !c.isBase("/any") {
				options = append(options, option{q, j})
			}
		}
	}
	if len(options) == 0 {
		return false
	}
	o := options[x.n(0, len(options)-1)]
	v := r.fresh()
	parts := make([]string, o.q.arity)
	for i := range parts {
		parts[i] = "_"
	}
	parts[o.col] = v
	r.bind(v, o.q.cols[o.col], false)
	r.body = append(r.body, r.annotate(o.q, o.q.name+"("+strings.Join(parts, ", ")+")"))
	return true
}

// pickPred draws a predicate for a body atom.
func (r *ruleGen) pickPred(from []pred) pred { return from[r.x.n(0, len(from)-1)] }

// typed returns the bound variables of exactly type t (sub: or a narrower one).
func (r *ruleGen) typed(t *ty, sub bool) []*tvar {
	var out []*tvar
	for _, v := range r.vars {
		if v.unk {
			continue
		}
		if tyEq(v.t, t) || sub && v.t.kind == "base" && tySub(v.t, t) {
			out = append(out, v) // (a singleton or a union of names is no argument for a /name parameter)
		}
	}
	return out
}

func (r *ruleGen) kindVars(kind string) []*tvar {
	var out []*tvar
	for _, v := range r.vars {
		if !v.unk && v.t.kind == kind {
			out = append(out, v)
		}
	}
	return out
}

func (r *ruleGen) pickVar(vs []*tvar) *tvar { return vs[r.x.n(0, len(vs)-1)] }

// baseArg: a term of base type t: a variable of that type if there is one (mostly), else a constant.
func (r *ruleGen) baseArg(t *ty) string {
	x := r.x
	if r.blind() && len(r.vars) > 0 {
		return r.anyVar()
	}
	vs := r.typed(t, t.isBase("/name") || t.isBase("/string") || t.isBase("/time") || t.isBase("/duration"))
	if len(vs) > 0 && x.chance(75) {
		return r.pickVar(vs).name
	}
	if r.depth < 2 && x.chance(15) {
		// a nested application with a result of the type
		r.depth++
		s := r.appOfType(t)
		r.depth--
		if s != "" {
			return s
		}
	}
	return x.value(t, true)
}

// ---------------------------------------------------------------------------------------------
// Function applications by type.

// fsigs: the built-in functions with the argument types the bounds checker wants and the result type it computes.
// Argument codes: n number, f float64, s string, m name, t time, d duration, a anything, p pair of times, L a list,
// e an element of L, M a map, k a key of M, S a struct, g a field name of S, i a small index, P/U/C/Z name or string
// constants of the time functions; a trailing * repeats the code one to three times.
// Result codes: the base codes, L (the type of L), O option of the element type, v value type of M, g field type,
// R pair of the arguments, T tuple, o option of the argument, l list of the arguments, mp map, st struct,
// ln list of names, ? unknown to the generator.
var fsigs = []struct{ name, args, res string }{
	{"fn:interval:start", "p", "t"}, {"fn:interval:end", "p", "t"}, {"fn:interval:duration", "p", "d"},
	{"fn:div", "n*", "n"}, {"fn:float:div", "f*", "f"}, {"fn:float:mult", "f*", "f"}, {"fn:float:plus", "f*", "f"},
	{"fn:mod", "n n", "n"}, {"fn:mult", "n*", "n"}, {"fn:plus", "n*", "n"}, {"fn:minus", "n*", "n"}, {"fn:sqrt", "f", "f"},
	{"fn:list:append", "L e", "L"}, {"fn:list:get", "L i", "O"}, {"fn:list:contains", "L e", "?"}, {"fn:list:len", "L", "n"},
	{"fn:list:cons", "e L", "L"}, {"fn:pair", "a a", "R"}, {"fn:map:get", "M k", "v"}, {"fn:struct:get", "S g", "g"},
	{"fn:tuple", "a*", "T"}, {"fn:some", "a", "o"}, {"fn:list", "x", "l"}, {"fn:map", "a a", "mp"}, {"fn:struct", "c a", "st"},
	{"fn:number:to_string", "n", "s"}, {"fn:float64:to_string", "f", "s"}, {"fn:name:to_string", "m", "s"}, {"fn:name:root", "m", "m"},
	{"fn:name:tip", "m", "m"}, {"fn:name:list", "m", "ln"}, {"fn:string:concat", "a*", "s"}, {"fn:string:replace", "s s s i", "r"},
	{"fn:time:now", "", "t"}, {"fn:time:add", "t d", "t"}, {"fn:time:sub", "t t", "d"}, {"fn:time:format", "t P", "s"},
	{"fn:time:format_civil", "t Z P", "s"}, {"fn:time:parse_rfc3339", "s", "t"}, {"fn:time:parse_civil", "s Z", "t"},
	{"fn:time:year", "t", "n"}, {"fn:time:month", "t", "n"}, {"fn:time:day", "t", "n"}, {"fn:time:hour", "t", "n"},
	{"fn:time:minute", "t", "n"}, {"fn:time:second", "t", "n"}, {"fn:time:from_unix_nanos", "n", "t"}, {"fn:time:to_unix_nanos", "t", "n"},
	{"fn:time:trunc", "t U", "t"}, {"fn:time:trunc_civil", "t Z C", "t"},
	{"fn:duration:add", "d d", "d"}, {"fn:duration:mult", "d n", "d"}, {"fn:duration:hours", "d", "f"}, {"fn:duration:minutes", "d", "f"},
	{"fn:duration:seconds", "d", "f"}, {"fn:duration:nanos", "d", "n"}, {"fn:duration:from_nanos", "n", "d"}, {"fn:duration:from_hours", "f", "d"},
	{"fn:duration:from_minutes", "f", "d"}, {"fn:duration:from_seconds", "f", "d"}, {"fn:duration:parse", "s", "d"},
}

func baseOfCode(c byte) *ty {
	switch c {
	case 'n', 'i':
		return tyNumber
	case 'f':
		return tyFloat
	case 's':
		return tyString
	case 'm':
		return tyName
	case 't':
		return tyTime
	case 'd':
		return tyDuration
	}
	return nil
}

// app is a function application with the type the bounds checker computes for it.
type app struct {
	text string
	t    *ty
	unk  bool
}

// anyArg: any bound variable (with its type) or a constant.
func (r *ruleGen) anyArg() app {
	x := r.x
	if len(r.vars) > 0 && x.chance(75) {
		v := r.vars[x.n(0, len(r.vars)-1)]
		return app{v.name, v.t, v.unk}
	}
	if x.chance(25) {
		return app{x.constant(1), nil, true}
	}
	if r.depth < 2 && x.chance(12) {
		r.depth++
		a := r.typedApp(false)
		r.depth--
		return a
	}
	t := bt(x.pick([]string{"/number", "/string", "/name", "/float64"}))
	return app{x.value(t, true), t, false}
}

// container: a variable of the kind or a literal of it over constants. fn: as the argument of a function (not of
// a type written in the dot syntax then, see ty.dot).
func (r *ruleGen) container(kind string, fn bool) app {
	x := r.x
	var vs []*tvar
	for _, v := range r.kindVars(kind) {
		if !fn || !v.t.dot {
			vs = append(vs, v)
		}
	}
	if len(vs) > 0 && x.chance(85) {
		v := r.pickVar(vs)
		return app{v.name, v.t, false}
	}
	b := bt(x.pick([]string{"/number", "/string", "/name", "/float64"}))
	switch kind {
	case "list":
		return app{x.bracket(x.value(b, true) + ", " + x.value(b, true)), &ty{kind: "list", args: []*ty{b}}, false}
	case "map":
		k := bt(x.pick([]string{"/number", "/string", "/name"}))
		return app{x.bracket(x.value(k, true) + ": " + x.value(b, true)), &ty{kind: "map", args: []*ty{k, b}}, false}
	default:
		return app{"{/a: " + x.value(b, true) + "}", &ty{kind: "struct", keys: []string{"/a"}, args: []*ty{b}, opt: []bool{false}}, false}
	}
}

// termOf: a term of type t for an argument of a function: variable of the type, else a constant ("" if neither).
func (r *ruleGen) termOf(t *ty) string {
	if t == nil {
		return ""
	}
	if vs := r.typed(t, false); len(vs) > 0 && r.x.chance(70) {
		return r.pickVar(vs).name
	}
	if t.kind == "base" && t.lit != "/any" && t.lit != "/bytes" {
		return r.x.value(t, true)
	}
	if vs := r.typed(t, false); len(vs) > 0 {
		return r.pickVar(vs).name
	}
	if t.isBase("/any") && len(r.vars) > 0 {
		return r.anyVar()
	}
	return ""
}

// intervalArg: a pair of times.
func (r *ruleGen) intervalArg() string {
	var vs []*tvar
	for _, v := range r.typed(&ty{kind: "pair", args: []*ty{tyTime, tyTime}}, false) {
		if !v.t.dot {
			vs = append(vs, v)
		}
	}
	if len(vs) > 0 && r.x.chance(80) {
		return r.pickVar(vs).name
	}
	return "fn:pair(" + r.baseArg(tyTime) + ", " + r.baseArg(tyTime) + ")"
}

func sigIndex(name string) int {
	for i, f := range fsigs {
		if f.name == name {
			return i
		}
	}
	panic("c10 harness: no signature for " + name)
}

// apply builds an application of the function sig. transform: inside a let-transform (where the checker ignores
// what it cannot type). ok is false if an argument of the wanted type cannot be had.
func (r *ruleGen) apply(sig int, transform bool) (app, bool) {
	x := r.x
	f := fsigs[sig]
	if f.res == "r" && !transform {
		return app{}, false // fn:string:replace has a function type of one argument: an equation with it never passes
	}
	var codes []string
	for _, c := range strings.Fields(f.args) {
		if strings.HasSuffix(c, "*") {
			for i, n := 0, x.n(1, 3); i < n; i++ {
				codes = append(codes, c[:1])
			}
		} else {
			codes = append(codes, c)
		}
	}
	wrap := false
	if f.args == "n*" && x.chance(6) {
		// variadic integer arithmetic over factors of 2^64: the product (or sum) of non-zero arguments wraps to 0
		wrap = true
		codes = []string{"n", "n", "n", "n"}[:x.n(3, 4)]
	}
	badArity := false
	if x.bad(12) { // wrong arity
		badArity = true
		n := x.n(0, 5)
		for len(codes) < n {
			codes = append(codes, "a")
		}
		codes = codes[:n]
	}
	args := make([]app, len(codes))
	var cont app
	// containers first: the other arguments depend on their element, key and field types
	for i, c := range codes {
		switch c {
		case "L":
			cont = r.container("list", true)
			args[i] = cont
		case "M":
			cont = r.container("map", true)
			args[i] = cont
		case "S":
			cont = r.container("struct", false)
			if len(cont.t.keys) == 0 {
				return app{}, false
			}
			args[i] = cont
		}
	}
	field := 0
	for i, c := range codes {
		switch c {
		case "L", "M", "S":
		case "n", "f", "s", "m", "t", "d":
			args[i] = app{r.baseArg(baseOfCode(c[0])), baseOfCode(c[0]), false}
			if wrap && i > 0 {
				args[i].text = x.pick([]string{"4294967296", "-4294967296", "4611686018427387904", "-9223372036854775808", "65536"})
			}
		case "i":
			args[i] = app{x.pick([]string{"0", "0", "1", "2", "-1"}), tyNumber, false}
		case "a":
			args[i] = r.anyArg()
		case "x": // zero to three arguments of one type
			a := r.anyArg()
			n := x.n(0, 3)
			var parts []string
			for j := 0; j < n; j++ {
				if s := r.termOf(a.t); a.t != nil && !a.unk && s != "" {
					parts = append(parts, s)
				} else {
					parts = append(parts, a.text)
				}
			}
			args[i] = app{strings.Join(parts, ", "), a.t, a.unk || n == 0}
			if n == 0 {
				args[i].text = ""
			}
		case "p":
			args[i] = app{r.intervalArg(), nil, false}
		case "e":
			if cont.t == nil || cont.t.kind != "list" {
				return app{}, false
			}
			s := r.termOf(cont.t.args[0])
			if s == "" {
				return app{}, false
			}
			args[i] = app{s, cont.t.args[0], false}
		case "k":
			if cont.t == nil || cont.t.kind != "map" {
				return app{}, false
			}
			s := r.termOf(cont.t.args[0])
			if s == "" {
				return app{}, false
			}
			args[i] = app{s, cont.t.args[0], false}
		case "g":
			if cont.t == nil || cont.t.kind != "struct" {
				return app{}, false
			}
			field = x.n(0, len(cont.t.keys)-1)
			args[i] = app{cont.t.keys[field], tyName, false}
		case "c":
			args[i] = app{x.pick([]string{"/a", "/b", "/c"}), tyName, false}
		case "P":
			args[i] = app{x.pick([]string{"/year", "/month", "/day", "/hour", "/minute", "/second", "/millisecond", "/nanosecond"}), tyName, false}
		case "U":
			args[i] = app{x.pick([]string{"/day", "/hour", "/minute", "/second", "/millisecond"}), tyName, false}
		case "C":
			args[i] = app{x.pick([]string{"/year", "/month", "/week", "/day"}), tyName, false}
		case "Z":
			args[i] = app{x.pick([]string{`"UTC"`, `"UTC"`, `"Europe/Berlin"`, `"America/New_York"`}), tyString, false}
		default:
			return app{}, false
		}
	}
	var texts []string
	unk := false
	for i, a := range args {
		if codes[i] == "x" && a.text == "" {
			continue
		}
		texts = append(texts, a.text)
		unk = unk || a.unk || a.t == nil && codes[i] == "a"
	}
	res := app{text: f.name + "(" + strings.Join(texts, ", ") + ")"}
	if badArity {
		res.unk = true
		return res, true
	}
	switch f.res {
	case "n", "f", "s", "m", "t", "d":
		res.t = baseOfCode(f.res[0])
	case "L":
		res.t = cont.t
	case "O":
		res.t = &ty{kind: "option", args: []*ty{cont.t.args[0]}}
	case "v":
		res.t = cont.t.args[1]
	case "g":
		res.t = cont.t.args[field]
	case "ln":
		res.t = &ty{kind: "list", args: []*ty{tyName}}
	case "R":
		if !unk && len(args) == 2 {
			res.t = &ty{kind: "pair", args: []*ty{args[0].t, args[1].t}}
		}
	case "T":
		switch {
		case unk:
		case len(args) == 1:
			res.t = args[0].t
		case len(args) >= 3:
			res.t = &ty{kind: "tuple"}
			for _, a := range args {
				res.t.args = append(res.t.args, a.t)
			}
		}
	case "o":
		if !unk && len(args) == 1 {
			res.t = &ty{kind: "option", args: []*ty{args[0].t}}
		}
	case "l":
		if !unk && len(args) == 1 {
			res.t = &ty{kind: "list", args: []*ty{args[0].t}}
		}
	case "mp":
		if !unk && len(args) == 2 {
			res.t = &ty{kind: "map", args: []*ty{args[0].t, args[1].t}}
		}
	case "st":
		if !unk && len(args) == 2 {
			res.t = &ty{kind: "struct", keys: []string{args[0].text}, args: []*ty{args[1].t}, opt: []bool{false}}
		}
	}
	res.unk = res.t == nil
	return res, true
}

// typedApp: an application of a random built-in function to arguments of the right types.
func (r *ruleGen) typedApp(transform bool) app {
	x := r.x
	if r.loose {
		return app{text: x.fnApp(2, func(d int) string {
			if x.chance(70) {
				return r.anyVar()
			}
			return x.term(d, r.names())
		}), unk: true}
	}
	for try := 0; try < 8; try++ {
		sig := x.n(0, len(fsigs)-1)
		if x.n(0, 999) >= 880 {
			// the constructors take arguments of any type (and stand for the nested terms of the untyped construction)
			sig = sigIndex(x.pick([]string{"fn:tuple", "fn:some", "fn:map", "fn:struct", "fn:list", "fn:pair"}))
		}
		if a, ok := r.apply(sig, transform); ok {
			return a
		}
	}
	return app{"fn:plus(" + r.baseArg(tyNumber) + ", 1)", tyNumber, false}
}

// appOfType: an application whose result fits a column of type c ("" if a few tries find none).
func (r *ruleGen) appOfType(c *ty) string {
	for try := 0; try < 10; try++ {
		a, ok := r.apply(r.x.n(0, len(fsigs)-1), false)
		if !ok {
			continue
		}
		if c.isBase("/any") || !a.unk && tySub(a.t, c) {
			return a.text
		}
	}
	return ""
}

// ---------------------------------------------------------------------------------------------
// Built-in predicates by type.

// builtinLit builds a literal of a random built-in predicate over arguments of the types its relation type
// wants, and binds its output variables.
func (r *ruleGen) builtinLit() string {
	x := r.x
	for try := 0; try < 8; try++ {
		b := builtinPreds[x.n(0, len(builtinPreds)-1)]
		if b.name == ":within_distance" && !x.hot && x.chance(85) {
			continue // has no relation type in this tree: a rule with it never passes the bounds check
		}
		if (strings.HasPrefix(b.name, ":time:") && len(r.typed(tyTime, false)) == 0 || strings.HasPrefix(b.name, ":duration:") && len(r.typed(tyDuration, false)) == 0) && !x.hot && x.chance(60) {
			continue // over constants only
		}
		if s, ok := r.builtinOf(b.name, b.arity); ok {
			return s
		}
	}
	return ":lt(" + r.baseArg(tyNumber) + ", " + r.baseArg(tyNumber) + ")"
}

func (r *ruleGen) builtinOf(name string, arity int) (string, bool) {
	x := r.x
	if r.loose || x.bad(12) {
		// the old construction: first argument a bound variable, outputs fresh, the rest any term
		ar := arity
		if !r.loose || x.chance(12) {
			ar = x.n(0, 4)
		}
		parts := make([]string, ar)
		var outs []string
		for j := range parts {
			switch {
			case j == 0:
				parts[j] = r.anyVar()
			case (name == ":match_pair" || name == ":match_cons" || name == ":match_entry" || name == ":match_field") && (!x.hot || x.chance(70)):
				if (name == ":match_entry" || name == ":match_field") && j == 1 {
					parts[j] = x.pick(names)
				} else {
					parts[j] = r.fresh()
					outs = append(outs, parts[j])
				}
			default:
				parts[j] = x.term(1, r.names())
			}
		}
		for _, v := range outs {
			r.bind(v, nil, true)
		}
		return name + "(" + strings.Join(parts, ", ") + ")", true
	}
	out := func(t *ty, unk bool) string {
		v := r.fresh()
		r.bind(v, t, unk)
		return v
	}
	switch {
	case name == ":match_prefix":
		vs := r.typed(tyName, true)
		if len(vs) == 0 {
			// (a constant of type /foo, where a declaration mentions /foo, and the prefix /a: "cannot succeed")
			return name + "(" + x.pick([]string{"/foo/x, /foo", "/foo/bar/z, /foo/bar", "/foo/bar/z, /foo", "/a, /a", "/foo/y, /foo"}) + ")", true
		}
		v := r.pickVar(vs)
		prefix := x.pick([]string{"/foo", "/foo/bar", "/a", "/foo/x"})
		if v.t.isPrefixName() {
			prefix = x.pick([]string{"/foo", "/foo/bar"}) // related to the type of the variable
		}
		return name + "(" + v.name + ", " + prefix + ")", true
	case strings.HasPrefix(name, ":string:"):
		return name + "(" + r.baseArg(tyString) + ", " + r.baseArg(tyString) + ")", true
	case name == ":filter":
		for try := 0; try < 4; try++ {
			if a, ok := r.apply(sigIndex("fn:list:contains"), false); ok {
				return name + "(" + a.text + ")", true
			}
		}
		return "", false
	case name == ":lt" || name == ":le" || name == ":gt" || name == ":ge":
		return name + "(" + r.baseArg(tyNumber) + ", " + r.baseArg(tyNumber) + ")", true
	case strings.HasPrefix(name, ":time:"):
		return name + "(" + r.baseArg(tyTime) + ", " + r.baseArg(tyTime) + ")", true
	case strings.HasPrefix(name, ":duration:"):
		return name + "(" + r.baseArg(tyDuration) + ", " + r.baseArg(tyDuration) + ")", true
	case name == ":within_distance":
		return name + "(" + r.baseArg(tyNumber) + ", " + r.baseArg(tyNumber) + ", " + r.baseArg(tyNumber) + ")", true
	case strings.HasPrefix(name, ":interval:"):
		if x.chance(50) {
			// The relation type wants pairs of times, the evaluation pairs of numbers (nanoseconds); the checker does
			// not look at arguments that are no variables.
			iv := func() string {
				a, b := x.n(0, 5), x.n(0, 5)
				if a > b {
					a, b = b, a
				}
				return fmt.Sprintf("fn:pair(%d, %d)", a, b)
			}
			return name + "(" + iv() + ", " + iv() + ")", true
		}
		return name + "(" + r.intervalArg() + ", " + r.intervalArg() + ")", true
	case name == ":match_pair":
		vs := r.kindVars("pair")
		scrutinee := "fn:pair(" + r.anyArg().text + ", " + r.anyArg().text + ")"
		if len(vs) > 0 {
			scrutinee = r.pickVar(vs).name
		}
		// the outputs get the type variables of the relation type
		return name + "(" + scrutinee + ", " + out(nil, true) + ", " + out(nil, true) + ")", true
	case name == ":match_cons":
		l := r.container("list", false)
		return name + "(" + l.text + ", " + out(nil, true) + ", " + out(nil, true) + ")", true
	case name == ":match_nil":
		return name + "(" + r.container("list", false).text + ")", true
	case name == ":list:member":
		l := r.container("list", false)
		return name + "(" + out(l.t.args[0], false) + ", " + l.text + ")", true
	case name == ":match_entry":
		vs := r.kindVars("map")
		if len(vs) == 0 {
			return "", false
		}
		v := r.pickVar(vs)
		k := r.constFor(v.t.args[0])
		if k == "" || strings.HasPrefix(k, "fn:") {
			k = r.termOf(v.t.args[0])
		}
		if k == "" {
			return "", false
		}
		return name + "(" + v.name + ", " + k + ", " + out(v.t.args[1], false) + ")", true
	case name == ":match_field":
		var vs []*tvar
		for _, v := range r.vars {
			if !v.unk && (v.t.kind == "struct" && len(v.t.keys) > 0 || v.t.kind == "tagged" || v.t.isBase("/any")) {
				vs = append(vs, v)
			}
		}
		if len(vs) == 0 {
			return "", false
		}
		v := r.pickVar(vs)
		switch v.t.kind {
		case "struct":
			i := x.n(0, len(v.t.keys)-1)
			return name + "(" + v.name + ", " + v.t.keys[i] + ", " + out(v.t.args[i], false) + ")", true
		case "tagged":
			// the field type is projected out of the union of the variants
			var fields []string
			for _, variant := range v.t.args {
				fields = append(fields, variant.keys...)
			}
			fields = append(fields, "/kind")
			return name + "(" + v.name + ", " + x.pick(fields) + ", " + out(nil, true) + ")", true
		default:
			return name + "(" + v.name + ", " + x.pick([]string{"/a", "/b", "/x"}) + ", " + out(tyAny, false) + ")", true
		}
	}
	return "", false
}

// ---------------------------------------------------------------------------------------------
// Terms of a wanted type.

// fitsHead: the variable can be the argument of a head column of type c.
func fitsHead(v *tvar, c *ty) bool {
	if v.unk {
		return c.isBase("/any")
	}
	return tySub(v.t, c)
}

// syn builds a term of type c from the given variables and constants ("" if there is none). nested: inside a list,
// map or struct, where the checker compares without looking into unions.
func (r *ruleGen) syn(c *ty, vars []*tvar, nested bool, depth int) string {
	x := r.x
	var vs []*tvar
	for _, v := range vars {
		if nested && !v.unk && tyEq(v.t, c) || !nested && fitsHead(v, c) || nested && !v.unk && c.kind == "base" && tySub(v.t, c) {
			vs = append(vs, v)
		}
	}
	if len(vs) > 0 && (x.chance(70) || depth <= 0) {
		return r.pickVar(vs).name
	}
	sub := func(t *ty) string { return r.syn(t, vars, true, depth-1) }
	switch c.kind {
	case "base":
		switch c.lit {
		case "/bytes":
		case "/any":
			if len(vars) > 0 && x.chance(60) {
				return r.pickVar(vars).name
			}
			return x.pick([]string{"0", "1", "/a", `"a"`, "1.5", `b"a"`})
		default:
			return x.value(c, true)
		}
	case "pair":
		if a, b := sub(c.args[0]), sub(c.args[1]); a != "" && b != "" && !nested {
			return "fn:pair(" + a + ", " + b + ")"
		}
	case "option":
		if a := sub(c.args[0]); a != "" && !nested {
			return "fn:some(" + a + ")"
		}
	case "tuple":
		var parts []string
		for _, a := range c.args {
			s := sub(a)
			if s == "" || nested {
				parts = nil
				break
			}
			parts = append(parts, s)
		}
		if parts != nil {
			return "fn:tuple(" + strings.Join(parts, ", ") + ")"
		}
	case "list":
		var parts []string
		for i, n := 0, x.n(0, 2); i < n; i++ {
			if s := sub(c.args[0]); s != "" {
				parts = append(parts, s)
			}
		}
		return x.bracket(strings.Join(parts, ", "))
	case "map":
		k, v := sub(c.args[0]), sub(c.args[1])
		if k != "" && v != "" && keyOK(c.args[0]) {
			if k[0] >= 'A' && k[0] <= 'Z' || strings.HasPrefix(k, "fn:") {
				return "fn:map(" + k + ", " + v + ")" // "[X:" is read as the name of a type
			}
			return x.bracket(k + ": " + v)
		}
	case "struct":
		var parts []string
		for i, a := range c.args {
			s := sub(a)
			if s == "" && c.opt[i] || c.opt[i] && x.chance(30) {
				continue
			}
			if s == "" {
				return ""
			}
			parts = append(parts, c.keys[i]+": "+s)
		}
		return "{" + strings.Join(parts, ", ") + "}"
	case "union":
		if nested {
			return ""
		}
		i := x.n(0, len(c.args)-1)
		for j := range c.args {
			if s := r.syn(c.args[(i+j)%len(c.args)], vars, false, depth-1); s != "" {
				return s
			}
		}
	case "tagged":
		if nested {
			return ""
		}
		i := x.n(0, len(c.args)-1)
		for j := range c.args {
			variant := c.args[(i+j)%len(c.args)]
			parts := []string{"/kind: " + c.keys[(i+j)%len(c.args)]}
			for f, a := range variant.args {
				s := sub(a)
				if s == "" {
					parts = nil
					break
				}
				parts = append(parts, variant.keys[f]+": "+s)
			}
			if parts != nil {
				return "{" + strings.Join(parts, ", ") + "}"
			}
		}
	}
	if len(vs) > 0 {
		return r.pickVar(vs).name
	}
	return ""
}

// safeTerm: a constant or a list, struct or map literal over bound variables: terms the checker types without
// looking at argument types.
func (r *ruleGen) safeTerm(depth int) (string, *ty) {
	x := r.x
	k := x.n(0, 9)
	switch {
	case k <= 2 && len(r.vars) > 0:
		v := r.vars[x.n(0, len(r.vars)-1)]
		if v.unk {
			return v.name, nil
		}
		return v.name, v.t
	case k <= 5 || depth <= 0:
		t := bt(x.pick([]string{"/number", "/string", "/name", "/float64", "/number"}))
		if x.chance(50) {
			return x.constant(depth), nil
		}
		return x.value(t, true), t
	case k <= 7:
		var parts []string
		for i, n := 0, x.n(0, 3); i < n; i++ {
			s, _ := r.safeTerm(depth - 1)
			parts = append(parts, s)
		}
		return x.bracket(strings.Join(parts, ", ")), nil
	case k == 8:
		var parts []string
		for i, n := 0, x.n(0, 2); i < n; i++ {
			s, _ := r.safeTerm(depth - 1)
			parts = append(parts, []string{"/a", "/b", "/c"}[i]+": "+s)
		}
		return "{" + strings.Join(parts, ", ") + "}", nil
	default:
		ks, _ := r.safeTerm(0)
		vs, _ := r.safeTerm(depth - 1)
		if ks[0] >= 'A' && ks[0] <= 'Z' {
			if x.chance(50) {
				return "[" + ks + " : " + vs + "]", nil // "[X:" is read as the name of a type
			}
			return "fn:map(" + ks + ", " + vs + ")", nil
		}
		return x.bracket(ks + ": " + vs), nil
	}
}

// ---------------------------------------------------------------------------------------------
// The rule.

// reducerResult: the type the checker gives the result of a reducer in a do-transform (nil with any == true: /any).
func reducerResult(name string, args []*tvar) (t *ty, any bool) {
	all := func(want *ty) bool {
		for _, a := range args {
			if a.unk || !tyEq(a.t, want) {
				return false
			}
		}
		return len(args) > 0
	}
	switch name {
	case "fn:sum", "fn:min", "fn:max":
		if all(tyNumber) {
			return tyNumber, false
		}
	case "fn:duration:sum", "fn:duration:min", "fn:duration:max":
		if all(tyDuration) {
			return tyDuration, false
		}
	case "fn:time:min", "fn:time:max":
		if all(tyTime) {
			return tyTime, false
		}
	case "fn:count":
		return tyNumber, false
	case "fn:collect", "fn:collect_distinct":
		if len(args) > 0 && !args[0].unk {
			return &ty{kind: "list", args: []*ty{args[0].t}}, false
		}
		return nil, false
	case "fn:collect_to_map":
		if len(args) == 2 && !args[0].unk && !args[1].unk {
			return &ty{kind: "map", args: []*ty{args[0].t, args[1].t}}, false
		}
		return nil, false
	}
	return nil, true
}

// reducerArgs chooses the arguments of a reducer among the bound variables, by the type it sums, compares or
// collects (ok false: there is no variable of that type).
func (r *ruleGen) reducerArgs(name string, arity int) ([]*tvar, bool) {
	x := r.x
	var want *ty
	switch name {
	case "fn:sum", "fn:min", "fn:max":
		want = tyNumber
	case "fn:float:sum", "fn:float:min", "fn:float:max":
		want = tyFloat
	case "fn:duration:sum", "fn:duration:min", "fn:duration:max":
		want = tyDuration
	case "fn:time:min", "fn:time:max":
		want = tyTime
	case "fn:avg":
		want = tyNumber
		if x.chance(50) {
			want = tyFloat
		}
	}
	pool := r.vars
	if want != nil {
		pool = r.typed(want, false)
	}
	n := arity
	if n < 0 {
		n = x.n(1, 2)
	}
	if len(pool) == 0 && n > 0 {
		return nil, false
	}
	args := make([]*tvar, n)
	for i := range args {
		args[i] = pool[x.n(0, len(pool)-1)]
	}
	return args, true
}

// rule builds a rule for head predicate p.
func (x g) rule(p pred, preds []pred) string {
	defer x.in(phaseRules)()
	r := &ruleGen{x: x, p: p, preds: preds, used: map[string]bool{}, rec: map[string]bool{}}
	r.loose = x.hot && x.chance(60)
	safe := !x.hot || x.chance(60)
	// Body atoms: the predicates a rule of p may use; cold cases negate and aggregate over lower strata only.
	var usable, lower []pred
	for _, c := range preds {
		if r.mayUse(c) || x.hot {
			usable = append(usable, c)
		}
		if c.name != p.name && r.below(c) {
			lower = append(lower, c)
		}
	}
	if len(lower) == 0 || x.hot && x.chance(50) {
		lower = preds
	}
	transformKind := x.n(0, 9) // 0, 1: do-transform, 2: let-transform
	// input columns of the head: the checker takes the variable as bound, with the declared type
	headPre := map[int]string{}
	if !r.loose {
		for i := 0; i < len(p.mode) && i < p.arity; i++ {
			if p.mode[i] == '+' {
				v := r.fresh()
				headPre[i] = v
				if p.alt != nil {
					r.bind(v, nil, true) // the union of the rows
				} else {
					r.bind(v, p.cols[i], p.unsure(i))
				}
			}
		}
	}
	nb := x.n(1, 3)
	for i := 0; i < nb; i++ {
		negate := i > 0 && x.chance(8)
		from := usable
		if transformKind <= 1 || negate {
			from = lower
		}
		done := false
		for try := 0; try < 4 && !done; try++ {
			q := r.pickPred(from)
			if (q.deferred || q.external) && !x.hot && len(r.vars) == 0 {
				// a deferred predicate wants its inputs bound: not the first literal
				for _, c := range from {
					if !c.deferred && !c.external {
						q = c
						break
					}
				}
			}
			if negate && !(q.temporal && (!x.hot || x.chance(85))) {
				if lit, ok := r.atomOf(q, true); ok {
					r.body = append(r.body, "!"+lit)
					done = true
				}
				continue
			}
			done = r.positive(q)
		}
	}
	if len(r.body) == 0 {
		// nothing could be had (inputs of modes without bound variables): a plain atom of the first predicate
		q := preds[0]
		r.body = append(r.body, x.atom(q, func(int) string { return "_" })+map[bool]string{true: x.factAnnotation(), false: ""}[q.temporal])
	}
	if !r.loose && safe {
		// something of the type of every head column
		from := usable
		if transformKind <= 1 {
			from = lower
		}
		for col := 0; col < p.arity; col++ {
			if _, ok := headPre[col]; !ok && !r.constructible(p.cols[col], r.vars, false) {
				r.provide(p.cols[col], from)
			}
		}
	}
	bv := func() string {
		if safe && len(r.vars) > 0 {
			return r.anyVar()
		}
		return x.variable()
	}
	// extra literals: comparisons, equalities with functions, built-in predicates
	ne := x.n(0, 2)
	for i := 0; i < ne; i++ {
		switch x.n(0, 7) {
		case 0:
			r.body = append(r.body, r.comparison(bv))
		case 1, 2:
			a := r.typedApp(false)
			for try := 0; try < 3 && r.grows(a.text); try++ {
				a = r.typedApp(false)
			}
			if r.grows(a.text) {
				a = app{"fn:plus(1, 2)", tyNumber, false}
			}
			v := r.fresh()
			r.body = append(r.body, v+" = "+a.text)
			r.bind(v, a.t, a.unk)
			if r.recCount(a.text) > 0 {
				r.rec[v] = true
			}
		case 3:
			v := r.fresh()
			if r.loose || x.bad(3) {
				r.body = append(r.body, v+" = "+x.term(2, r.names()))
				r.bind(v, nil, true)
			} else {
				s, t := r.safeTerm(2)
				for try := 0; try < 3 && r.grows(s); try++ {
					s, t = r.safeTerm(2)
				}
				if r.grows(s) {
					s, t = "0", tyNumber
				}
				r.body = append(r.body, v+" = "+s)
				r.bind(v, t, t == nil)
				if r.recCount(s) > 0 {
					r.rec[v] = true
				}
			}
		case 4, 5, 6:
			before := len(r.vars)
			lit := r.builtinLit()
			r.body = append(r.body, lit)
			if r.recCount(lit) > 0 {
				for _, v := range r.vars[before:] {
					r.rec[v.name] = true
				}
			}
		default:
			q := r.pickPred(lower)
			if x.hot {
				r.body = append(r.body, "!"+x.atom(q, func(int) string { return bv() }))
			} else if !q.temporal && !q.deferred && !q.external {
				if lit, ok := r.atomOf(q, true); ok {
					r.body = append(r.body, "!"+lit)
				}
			}
		}
	}
	body := r.body
	if x.bad(4) { // shuffle one pair: built-ins before their inputs are bound
		i, j := x.n(0, len(body)-1), x.n(0, len(body)-1)
		body[i], body[j] = body[j], body[i]
	}
	// transforms and the variables the head can use
	var transforms []string
	headVars := r.vars
	var keyList []string
	addKey := func(v string) {
		for _, k := range keyList {
			if k == v {
				return
			}
		}
		keyList = append(keyList, v)
	}
	doTransform := false
	var doTail string
	switch transformKind {
	case 0, 1: // do-transform
		doTransform = true
		var red string
		var args []*tvar
		var ar int
		for try := 0; ; try++ {
			rd := reducers[x.n(0, len(reducers)-1)]
			if rd.name == "fn:count_distinct" && !x.hot && (x.warm == nil || !x.bad(10)) {
				continue // not a function of this tree ("unknown function")
			}
			if rd.name == "fn:pick_any" && !x.hot && x.chance(60) {
				continue // the evaluation does not know this reducer
			}
			red, ar = rd.name, rd.arity
			if r.loose || try >= 6 {
				break
			}
			var ok bool
			if args, ok = r.reducerArgs(rd.name, rd.arity); ok {
				break
			}
		}
		if args == nil && ar != 0 && !r.loose {
			// no variable of the type the reducer wants
			if len(r.vars) == 0 {
				red, ar = "fn:count", 0
			} else {
				red, ar = x.pick([]string{"fn:collect", "fn:collect_distinct"}), 1
				args = []*tvar{r.vars[x.n(0, len(r.vars)-1)]}
			}
		}
		var parts []string
		if args != nil || ar == 0 && !r.loose {
			for _, a := range args {
				parts = append(parts, a.name)
			}
		} else {
			n := ar
			if n < 0 {
				n = x.n(1, 2)
			}
			for j := 0; j < n; j++ {
				parts = append(parts, bv())
			}
		}
		if x.bad(10) {
			parts = nil
			for j, n := 0, x.n(0, 3); j < n; j++ {
				parts = append(parts, bv())
			}
			args = nil
		}
		rt, rany := reducerResult(red, args)
		if args == nil && ar != 0 {
			rt, rany = nil, false
		}
		if rany {
			rt = tyAny
		}
		headVars = nil
		rv := &tvar{name: "R", t: rt, unk: rt == nil}
		doTail = ", let R = " + red + "(" + strings.Join(parts, ", ") + ")"
		if x.chance(20) {
			// a function of the result
			save := r.vars
			r.vars = []*tvar{rv}
			a := app{text: x.fnApp(1, func(int) string { return "R" }), unk: true}
			if !r.loose {
				a = r.typedApp(true)
				if !strings.Contains(a.text, "R") {
					a = app{text: "fn:list(R)", unk: true}
					if !rv.unk {
						a = app{"fn:list(R)", &ty{kind: "list", args: []*ty{rv.t}}, false}
					}
				}
			}
			r.vars = save
			doTail += ", let R2 = " + a.text
			headVars = append(headVars, &tvar{name: "R2", t: a.t, unk: a.unk || a.t == nil})
		}
		headVars = append(headVars, rv)
	case 2: // let-transform
		a := r.typedApp(true)
		for try := 0; try < 3 && r.grows(a.text); try++ {
			a = r.typedApp(true)
		}
		if r.grows(a.text) {
			a = app{"fn:plus(1, 2)", tyNumber, false}
		}
		if r.recCount(a.text) > 0 {
			r.rec["L"] = true
		}
		tr := "let L = " + a.text
		lv := &tvar{name: "L", t: a.t, unk: a.unk || a.t == nil}
		headVars = append(append([]*tvar{}, r.vars...), lv)
		if x.chance(30) {
			save := r.vars
			r.vars = headVars
			b := r.typedApp(true)
			for try := 0; try < 3 && r.grows(b.text); try++ {
				b = r.typedApp(true)
			}
			if r.grows(b.text) {
				b = app{"fn:plus(1, 2)", tyNumber, false}
			}
			if r.recCount(b.text) > 0 {
				r.rec["L2"] = true
			}
			r.vars = save
			if r.loose {
				b = app{text: x.fnApp(1, func(int) string { return x.pick([]string{"L", bv()}) }), unk: true}
			}
			tr += ", let L2 = " + b.text
			headVars = append(headVars, &tvar{name: "L2", t: b.t, unk: b.unk || b.t == nil})
		}
		transforms = append(transforms, tr)
	}
	// the head
	headArg := func(col int) string {
		if x.bad(6) {
			return x.term(1, r.names())
		}
		if v, ok := headPre[col]; ok {
			return v
		}
		if col >= p.arity {
			return bv()
		}
		c := p.cols[col]
		cands := headVars
		if doTransform {
			// group_by keys come from the bound variables, as the head needs them
			cands = append(append([]*tvar{}, headVars...), r.vars...)
		}
		pick := func() string {
			if r.loose || !safe {
				if doTransform && safe {
					return x.pick(append([]string{"R"}, keyList...))
				}
				return bv()
			}
			if doTransform {
				// the result of the aggregation where it fits, mostly
				for _, v := range headVars {
					if fitsHead(v, c) && x.chance(60) {
						return v.name
					}
				}
			}
			if x.bad(1) && len(cands) > 0 {
				return r.pickVar(cands).name // whatever its type
			}
			if s := r.syn(c, cands, false, 2); s != "" {
				return s
			}
			if len(cands) > 0 {
				return r.pickVar(cands).name // nothing of the type at hand: the rule will not pass the bounds check
			}
			return x.pick([]string{"0", "/a", `"a"`})
		}
		if x.chance(15) && len(r.vars) > 0 {
			// a function application in the head; half of them aggregating functions, which bounds checking
			// treats specially in heads, at one to three arguments (function arity is not checked in heads)
			if r.loose || x.bad(8) {
				if x.chance(50) {
					rd := reducers[x.n(0, len(reducers)-1)]
					parts := make([]string, x.n(1, 3))
					for j := range parts {
						parts[j] = bv()
					}
					return rd.name + "(" + strings.Join(parts, ", ") + ")"
				}
				return x.fnApp(1, func(int) string { return bv() })
			}
			if x.n(1, 100) <= 7 {
				// An aggregating function over two or three variables of whatever type. The arity of functions in a
				// head is not checked, so the checker types such applications with arguments it sees nowhere else;
				// "cannot determine a type" is the answer to most of them.
				rd := reducers[x.n(0, len(reducers)-1)]
				parts := make([]string, x.n(2, 3))
				for j := range parts {
					parts[j] = r.pickVar(cands).name
				}
				return rd.name + "(" + strings.Join(parts, ", ") + ")"
			}
			save := r.vars
			r.vars = cands
			s := ""
			if x.chance(80) {
				s = r.headReducer(c)
			}
			if s == "" {
				s = r.appOfType(c)
			}
			r.vars = save
			if s != "" {
				return s
			}
		}
		return pick()
	}
	headText := x.atom(p, func(col int) string {
		s := headArg(col)
		for try := 0; try < 4 && r.grows(s); try++ {
			s = headArg(col)
		}
		if r.grows(s) {
			s = x.pick([]string{"0", "/a", `"a"`})
		}
		return s
	})
	if doTransform {
		// every variable of the head that is not defined by the transform is a key
		for _, v := range r.vars {
			if containsVar(headText, v.name) {
				addKey(v.name)
			}
		}
		if x.chance(25) && len(r.vars) > 0 {
			addKey(r.anyVar())
		}
		if x.bad(20) {
			keyList = append(keyList, bv())
		}
	}
	head := headText
	if p.temporal && (!x.hot || x.chance(75)) || x.bad(3) {
		switch {
		case x.hot && x.chance(40):
			head += x.annotation()
		case len(r.tvars) >= 2 && x.chance(60):
			s, e := r.tvars[len(r.tvars)-2], r.tvars[len(r.tvars)-1]
			if !x.hot && x.chance(85) {
				// start and end of one interval (others are often the wrong way round when evaluated)
				s, e = "", ""
				for i := 0; i+1 < len(r.tvars); i++ {
					if r.tvars[i][0] == 'S' && r.tvars[i+1][0] == 'E' {
						s, e = r.tvars[i], r.tvars[i+1]
					}
				}
				if s == "" {
					s, e = r.tvars[0], r.tvars[0]
				}
			}
			head += "@[" + s + ", " + e + "]"
			if doTransform && !x.hot {
				addKey(s) // head variables have to be keys of the grouping
				addKey(e)
			}
		case len(r.tvars) >= 1 && x.chance(60):
			head += "@[" + r.tvars[0] + "]"
			if doTransform && !x.hot {
				addKey(r.tvars[0])
			}
		default:
			head += x.factAnnotation()
		}
	}
	if doTransform {
		tr := "do fn:group_by(" + strings.Join(keyList, ", ") + ")" + doTail
		if x.bad(8) {
			tr = "do " + x.fnApp(1, func(int) string { return bv() })
		}
		transforms = append(transforms, tr)
	}
	if len(transforms) > 0 && x.bad(8) {
		transforms = append(transforms, "let P = fn:plus(1, 2)")
	}
	arrow := " :- "
	if x.chance(4) {
		arrow = " ⟸ "
	}
	s := head + arrow + strings.Join(body, ", ")
	if x.chance(3) { // a trailing comma is legal
		s += ","
	}
	if len(transforms) == 0 {
		return endClause(s)
	}
	for _, tr := range transforms {
		s += "\n  |> " + tr
	}
	return endClause(s)
}

// containsVar: the variable occurs in the text as a whole word.
func containsVar(text, v string) bool {
	for i := 0; i+len(v) <= len(text); i++ {
		if text[i:i+len(v)] != v {
			continue
		}
		before := i == 0 || !isWord(text[i-1]) && text[i-1] != '"'
		after := i+len(v) == len(text) || !isWord(text[i+len(v)])
		if before && after {
			return true
		}
	}
	return false
}

// comparison: an (in)equality between terms of one type; the order relations are relations on numbers.
func (r *ruleGen) comparison(bv func() string) string {
	x := r.x
	op := x.pick([]string{"<", "<=", ">", ">=", "!=", "="})
	if r.loose || x.bad(3) {
		return bv() + " " + op + " " + x.term(1, r.names())
	}
	var known []*tvar
	for _, v := range r.vars {
		if !v.unk && v.t.kind == "base" && !v.t.isBase("/any") && !v.t.isBase("/bytes") {
			known = append(known, v)
		}
	}
	switch op {
	case "<", "<=", ">", ">=":
		l := r.baseArg(tyNumber)
		if x.chance(15) {
			if a, ok := r.apply(sigIndex("fn:list:len"), false); ok {
				l = a.text
			}
		}
		return l + " " + op + " " + r.baseArg(tyNumber)
	case "=":
		if len(known) == 0 {
			return r.baseArg(tyNumber) + " = " + r.baseArg(tyNumber)
		}
		v := r.pickVar(known)
		return v.name + " = " + r.baseArg(v.t)
	default:
		if len(r.vars) == 0 {
			return "1 != 2"
		}
		v := r.vars[x.n(0, len(r.vars)-1)]
		if !v.unk && v.t.kind == "base" && !v.t.isBase("/any") && !v.t.isBase("/bytes") {
			return v.name + " != " + r.baseArg(v.t)
		}
		return v.name + " != " + r.anyVar()
	}
}

// headReducer: an aggregating function in a head argument of type c, over bound variables of the types that give
// the application that type ("" if there are none).
func (r *ruleGen) headReducer(c *ty) string {
	x := r.x
	some := func(t *ty) string {
		vs := r.typed(t, false)
		if len(vs) == 0 {
			return ""
		}
		parts := make([]string, x.n(1, 3))
		for i := range parts {
			parts[i] = r.pickVar(vs).name
		}
		return strings.Join(parts, ", ")
	}
	var options []string
	if tySub(tyNumber, c) {
		if s := some(tyNumber); s != "" {
			options = append(options, x.pick([]string{"fn:sum", "fn:min", "fn:max"})+"("+s+")")
		}
	}
	if c.isBase("/any") {
		// fn:count has no argument: with one, the checker does not find it and says /any
		if vs := r.kindVars("list"); len(vs) > 0 {
			options = append(options, "fn:count("+r.pickVar(vs).name+")")
		}
	}
	if tySub(tyDuration, c) {
		if s := some(tyDuration); s != "" {
			options = append(options, x.pick([]string{"fn:duration:sum", "fn:duration:min", "fn:duration:max"})+"("+s+")")
		}
	}
	if tySub(tyTime, c) {
		if s := some(tyTime); s != "" {
			options = append(options, x.pick([]string{"fn:time:min", "fn:time:max"})+"("+s+")")
		}
	}
	for _, v := range r.kindVars("list") {
		if v.t.dot {
			continue // see ty.dot
		}
		if tySub(v.t, c) {
			options = append(options, x.pick([]string{"fn:collect", "fn:collect_distinct"})+"("+v.name+")")
		}
		if tySub(v.t.args[0], c) {
			options = append(options, "fn:pick_any("+v.name+")")
		}
		if tyEq(v.t.args[0], tyFloat) && tySub(tyFloat, c) {
			options = append(options, x.pick([]string{"fn:float:max", "fn:float:min", "fn:avg"})+"("+v.name+")")
		}
	}
	if len(options) == 0 {
		return ""
	}
	return x.pick(options)
}
