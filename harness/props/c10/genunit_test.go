package c10

import (
	"fmt"
	"strings"
)

// Source units. Cold cases (g.hot == false) are built to pass analysis with bounds checking and to evaluate. The
// construction is type directed: every predicate has a model type per column (what the bounds checker will see
// there: the declared bound, /any for a declaration without bounds, for an undeclared predicate what it infers
// from the facts and rule heads), facts are members of the declared row whose inferred type conforms to it, rule
// bodies track a type per variable and choose variables, constants, built-in predicates and functions by the
// types at hand, heads are filled with terms of the column types (see genrule_test.go). Temporal predicates are
// used with annotations and others without, recursion through temporal predicates stays within one predicate,
// negation and aggregation look at lower strata only. Warm cases take one or two deliberately invalid choices on
// top of that, hot cases many (g.bad), and half of the hot cases choose variables and functions without looking
// at types at all (ruleGen.loose).

// ty is a type expression.
type ty struct {
	kind string // base, list, pair, map, option, tuple, struct, union, singleton, tagged
	lit  string // base: the name constant; singleton: the constant
	args []*ty
	keys []string // struct: field names; tagged: variant tags
	opt  []bool   // struct: optional field
	// dot: written in the dot syntax (.List</number>) and not as fn:List(/number). The parser gives the type
	// constructor of the dot syntax the arity -1, and the unifier that types function applications compares
	// constructors with their arity: a variable of type .List<T> is no argument for fn:list:len.
	dot bool
}

var baseTypes = []string{"/any", "/number", "/string", "/name", "/float64", "/bytes", "/number", "/string", "/foo", "/foo/bar", "/time", "/duration"}

func bt(lit string) *ty { return &ty{kind: "base", lit: lit} }

var (
	tyAny      = bt("/any")
	tyNumber   = bt("/number")
	tyString   = bt("/string")
	tyName     = bt("/name")
	tyFloat    = bt("/float64")
	tyTime     = bt("/time")
	tyDuration = bt("/duration")
)

func (t *ty) isBase(lit string) bool { return t != nil && t.kind == "base" && t.lit == lit }

// isPrefixName: a name constant used as a type (its members are the names below it).
func (t *ty) isPrefixName() bool {
	if t == nil || t.kind != "base" {
		return false
	}
	for _, b := range []string{"/any", "/number", "/string", "/name", "/float64", "/bytes", "/time", "/duration", "/bot"} {
		if t.lit == b {
			return false
		}
	}
	return true
}

func tyEq(a, b *ty) bool {
	if a == b {
		return true
	}
	if a == nil || b == nil || a.kind != b.kind || a.lit != b.lit || len(a.args) != len(b.args) || len(a.keys) != len(b.keys) {
		return false
	}
	for i := range a.args {
		if !tyEq(a.args[i], b.args[i]) {
			return false
		}
	}
	for i := range a.keys {
		if a.keys[i] != b.keys[i] {
			return false
		}
	}
	for i := range a.opt {
		if i < len(b.opt) && a.opt[i] != b.opt[i] {
			return false
		}
	}
	return true
}

// tySub: every member of a is a member of b, as far as the bounds checker can tell (a deliberately small part of
// its conformance relation: equal types, /any, name prefix types below each other and below /name, unions).
func tySub(a, b *ty) bool {
	if a == nil || b == nil {
		return false
	}
	if tyEq(a, b) || b.isBase("/any") {
		return true
	}
	if a.kind == "union" {
		for _, m := range a.args {
			if !tySub(m, b) {
				return false
			}
		}
		return len(a.args) > 0
	}
	if b.kind == "union" {
		for _, m := range b.args {
			if tySub(a, m) {
				return true
			}
		}
		return false
	}
	if b.kind == "base" && (a.isPrefixName() || a.kind == "singleton") {
		return b.lit == "/name" || strings.HasPrefix(a.lit, b.lit+"/")
	}
	return false
}

func (x g) genTy(depth int) *ty {
	t := x.genTy1(depth)
	t.dot = x.chance(40)
	return t
}

func (x g) genTy1(depth int) *ty {
	k := x.n(0, 16)
	if depth <= 0 || k <= 7 {
		return &ty{kind: "base", lit: x.pick(baseTypes)}
	}
	if k == 15 && x.hot || x.n(0, 999) >= 870 {
		k = 16 // tagged unions: the type with the most special cases in the checker gets a share of its own
	}
	switch k {
	case 16:
		// .TaggedUnion</kind, /a : .Struct<...>, /b : .Struct<...>>
		t := &ty{kind: "tagged"}
		for i, n := 0, x.n(1, 3); i < n; i++ {
			v := &ty{kind: "struct", dot: x.chance(40)}
			for j, m := 0, x.n(0, 2); j < m; j++ {
				v.keys = append(v.keys, []string{"/x", "/y"}[j])
				v.args = append(v.args, x.genTy(0))
				v.opt = append(v.opt, false)
			}
			t.keys = append(t.keys, []string{"/a", "/b", "/c"}[i])
			t.args = append(t.args, v)
		}
		return t
	case 8, 9:
		return &ty{kind: "list", args: []*ty{x.genTy(depth - 1)}}
	case 10:
		return &ty{kind: "pair", args: []*ty{x.genTy(depth - 1), x.genTy(depth - 1)}}
	case 11:
		return &ty{kind: "map", args: []*ty{x.genTy(0), x.genTy(depth - 1)}}
	case 12:
		t := &ty{kind: "struct"}
		for i, n := 0, x.n(0, 3); i < n; i++ {
			t.keys = append(t.keys, []string{"/a", "/b", "/c"}[i])
			t.args = append(t.args, x.genTy(depth-1))
			t.opt = append(t.opt, x.chance(20))
		}
		return t
	case 13:
		t := &ty{kind: "union"}
		for i, n := 0, x.n(1, 3); i < n; i++ {
			t.args = append(t.args, x.genTy(depth-1))
		}
		return t
	case 14:
		return &ty{kind: "singleton", lit: x.pick([]string{"/a", "/b", "/foo/x"})} // only names are accepted
	default:
		if x.chance(50) {
			return &ty{kind: "option", args: []*ty{x.genTy(depth - 1)}}
		}
		t := &ty{kind: "tuple"}
		for i, n := 0, x.n(3, 4); i < n; i++ { // "tuple type must have more than 2 args"
			t.args = append(t.args, x.genTy(depth-1))
		}
		return t
	}
}

// text prints the type, choosing between the fn: and the dot syntax.
func (x g) tyText(t *ty) string {
	defer x.in(phaseTypes)()
	dot := t.dot
	if x.hot && x.chance(20) {
		dot = !dot
	}
	join := func(ts []*ty) string {
		parts := make([]string, len(ts))
		for i, a := range ts {
			parts[i] = x.tyText(a)
		}
		return strings.Join(parts, ", ")
	}
	wrap := func(name, inner string) string {
		if dot {
			return "." + name + "<" + inner + ">"
		}
		return "fn:" + name + "(" + inner + ")"
	}
	switch t.kind {
	case "base":
		return t.lit
	case "tagged":
		parts := []string{"/kind"}
		if x.bad(3) {
			parts = []string{x.pick([]string{"X", "1", "/kind, /kind", `"kind"`})}
		}
		for i, a := range t.args {
			if x.bad(4) {
				a = x.genTy(1) // a variant that need not be a struct
			}
			if x.bad(2) {
				parts = append(parts, t.keys[i]) // a tag without a variant
				continue
			}
			if dot {
				parts = append(parts, t.keys[i]+" : "+x.tyText(a))
			} else {
				parts = append(parts, t.keys[i], x.tyText(a))
			}
		}
		return wrap("TaggedUnion", strings.Join(parts, ", "))
	case "list":
		return wrap("List", join(t.args))
	case "pair":
		return wrap("Pair", join(t.args))
	case "map":
		return wrap("Map", join(t.args))
	case "option":
		return wrap("Option", join(t.args))
	case "tuple":
		return wrap("Tuple", join(t.args))
	case "union":
		return wrap("Union", join(t.args))
	case "singleton":
		return wrap("Singleton", t.lit)
	default: // struct
		parts := make([]string, len(t.args))
		for i, a := range t.args {
			switch {
			case dot && t.opt[i]:
				parts[i] = "opt " + t.keys[i] + " : " + x.tyText(a)
			case dot:
				parts[i] = t.keys[i] + " : " + x.tyText(a)
			case t.opt[i]:
				parts[i] = "fn:opt(" + t.keys[i] + ", " + x.tyText(a) + ")"
			default:
				parts[i] = t.keys[i] + ", " + x.tyText(a)
			}
			// hot cases: malformed field lists (the values generated for the type keep the intended shape)
			switch {
			case x.bad(5):
				parts[i] = t.keys[i] // a field name without a type
			case x.bad(3):
				parts[i] = x.tyText(a) // a type without a field name
			case x.bad(2):
				parts[i] = parts[i] + ", " + parts[i] // the same field twice
			case x.bad(2):
				parts[i] = strings.Replace(parts[i], t.keys[i], x.pick([]string{"/kind", "X", "1", `"a"`, "/x"}), 1)
			}
		}
		return wrap("Struct", strings.Join(parts, ", "))
	}
}

// Members of a type whose *inferred* type conforms to it. The bounds checker infers a type for every constant of a
// fact (boundOfArg) and compares it with the declared row. It has no type for byte strings, pairs and tuples
// (/any), it takes a name constant for /name or a name prefix type, never for a singleton, and inside a list, map
// or struct type it compares without looking into unions, tagged unions and singletons; fn:some cannot be
// evaluated in a fact. So some types have no fact that passes, and some only the empty list.

// keyOK: the type can be the key type of a map with entries (key types are compared the other way round).
func keyOK(t *ty) bool {
	return t.kind == "base" && t.lit != "/any" && t.lit != "/bytes"
}

// elemOK: a member of t can stand inside a list, map or struct.
func elemOK(t *ty) bool {
	switch t.kind {
	case "base":
		return t.lit != "/bytes"
	case "list":
		return true // the empty list at least
	case "map":
		return keyOK(t.args[0]) && elemOK(t.args[1])
	case "struct":
		for i, a := range t.args {
			if !t.opt[i] && !elemOK(a) {
				return false
			}
		}
		return true
	default:
		return false
	}
}

// factOK: a fact can have a member of t in a column declared with t.
func factOK(t *ty) bool {
	switch t.kind {
	case "union":
		for _, a := range t.args {
			if factOK(a) {
				return true
			}
		}
		return false
	case "tagged":
		for _, v := range t.args {
			if elemOK(v) {
				return true
			}
		}
		return false
	default:
		return elemOK(t)
	}
}

// valueOf returns the text of a constant of the type (small domains, so that joins hit). Where the type has
// members that pass the bounds check (factOK), the constant is one of them.
func (x g) valueOf(t *ty) string { return x.value(t, false) }

// value: key says that the constant is the key of a map (the inferred key type has to be the declared one).
func (x g) value(t *ty, key bool) string {
	if t == nil {
		return x.pick([]string{"0", "1", "2", "3", "/a", "/b", `"a"`, `"b"`})
	}
	switch t.kind {
	case "base":
		switch t.lit {
		case "/number":
			if !key && x.chance(7) {
				// factors of 2^64 and the ends of the range: products and sums of them wrap around
				return x.pick([]string{"4294967296", "-4294967296", "2147483648", "65536", "4611686018427387904", "9223372036854775807", "-9223372036854775808", "3037000500"})
			}
			return x.pick([]string{"0", "1", "2", "3", "-1", "7"})
		case "/string":
			return x.pick([]string{`"a"`, `"b"`, `"c"`, `""`})
		case "/name":
			if key {
				return x.pick([]string{"/a", "/b", "/c"}) // /foo/x would be a /foo where some declaration mentions /foo
			}
			return x.pick([]string{"/a", "/b", "/c", "/foo/x"})
		case "/float64":
			return x.pick([]string{"1.5", "0.0", "-3.25", "2.0"})
		case "/bytes":
			return x.pick([]string{`b"a"`, `b"\x00\xff"`, `b""`})
		case "/foo":
			if key {
				return x.pick([]string{"/foo/x", "/foo/y"})
			}
			return x.pick([]string{"/foo/x", "/foo/y", "/foo/bar/z"})
		case "/foo/bar":
			return x.pick([]string{"/foo/bar/z", "/foo/bar/w"})
		case "/time":
			return x.pick([]string{`fn:time:parse_rfc3339("2024-01-01T00:00:00Z")`, "fn:time:from_unix_nanos(0)", "fn:time:from_unix_nanos(1700000000000000000)"})
		case "/duration":
			return x.pick([]string{`fn:duration:parse("1h")`, "fn:duration:from_seconds(5.0)", "fn:duration:from_nanos(0)"})
		default:
			return x.pick([]string{"0", "1", "/a", `"a"`, "1.5", "[1]", "{/a: 1}"})
		}
	case "list":
		if !elemOK(t.args[0]) && !x.hot {
			return "[]"
		}
		return x.bracket(x.list(0, 0, 2, func(int) string { return x.value(t.args[0], false) }))
	case "pair":
		return "fn:pair(" + x.valueOf(t.args[0]) + ", " + x.valueOf(t.args[1]) + ")"
	case "map":
		if x.hot && x.chance(20) || x.bad(5) {
			return "fn:map()" // the bounds checker has Map(Union(), Union()) for it, which conforms to nothing
		}
		return x.bracket(x.value(t.args[0], true) + ": " + x.valueOf(t.args[1]))
	case "option":
		return "fn:some(" + x.valueOf(t.args[0]) + ")"
	case "tuple":
		parts := make([]string, len(t.args))
		for i, a := range t.args {
			parts[i] = x.valueOf(a)
		}
		return "fn:tuple(" + strings.Join(parts, ", ") + ")"
	case "union":
		var ok []*ty
		for _, a := range t.args {
			if factOK(a) {
				ok = append(ok, a)
			}
		}
		if len(ok) == 0 || x.hot {
			ok = t.args
		}
		return x.valueOf(ok[x.n(0, len(ok)-1)])
	case "tagged":
		var ok []int
		for i, v := range t.args {
			if elemOK(v) {
				ok = append(ok, i)
			}
		}
		i := x.n(0, len(t.args)-1)
		if len(ok) > 0 && !x.hot {
			i = ok[x.n(0, len(ok)-1)]
		}
		parts := []string{"/kind: " + t.keys[i]}
		for j, a := range t.args[i].args {
			parts = append(parts, t.args[i].keys[j]+": "+x.valueOf(a))
		}
		return "{" + strings.Join(parts, ", ") + "}"
	case "singleton":
		return t.lit
	default:
		var parts []string
		for i, a := range t.args {
			if t.opt[i] && (x.chance(30) || !elemOK(a) && !x.hot) {
				continue
			}
			parts = append(parts, t.keys[i]+": "+x.valueOf(a))
		}
		return "{" + strings.Join(parts, ", ") + "}"
	}
}

// bracket writes a list or map literal. "[-1" would be read as the box-minus operator.
func (x g) bracket(inner string) string {
	if strings.HasPrefix(inner, "-") && !x.bad(30) {
		return "[ " + inner + "]"
	}
	return "[" + inner + "]"
}

// pred is a predicate of the generated program.
type pred struct {
	name     string
	arity    int
	idb      bool
	temporal bool
	declared bool
	deferred bool
	external bool
	// synthetic: the declaration carries the descriptor synthetic(); the bounds checker then ignores its bounds
	// and infers the types from facts and rules, as for an undeclared predicate
	synthetic bool
	bounds    bool   // the declaration has a bound row (cols)
	cols      []*ty  // model type per column: what the bounds checker sees there (never nil)
	alt       []*ty  // second bound row of the declaration (nil: none)
	mode      string // declared mode, one of + - ? per column ("": none)
	reflects  string // name prefix of a reflects() descriptor ("": none)
	index     int    // position among the intensional predicates
	fwd       []int  // intensional predicates after this one that its rules may use
	top       int    // highest intensional predicate that rules may reach from this one (recursion goes through it)
}

// byDecl: the bounds checker takes the column types from the declaration (else it infers them).
func (p pred) byDecl() bool { return p.declared && !p.synthetic }

// unsure: the bounds checker may see other types than cols[col] in this column (several rows, or facts of mixed
// types in a predicate whose types are inferred).
func (p pred) unsure(col int) bool {
	if p.byDecl() && p.alt != nil && !tyEq(p.alt[col], p.cols[col]) {
		return true
	}
	return !p.byDecl() && p.cols[col].isBase("/any")
}

func (x g) bound() string {
	k := x.n(0, 9)
	if k == 9 && !x.hot {
		k = x.n(0, 8)
	}
	switch k {
	case 0, 1, 2:
		return x.pickv(stamps, badStamps)
	case 3, 4:
		return x.pickv(durations, badDurations)
	case 5, 6:
		return x.pick([]string{"T", "S", "E", "T1", "T2"})
	case 7:
		return "_"
	case 8:
		return "now"
	default:
		return x.pick([]string{"X", "-7d", "-1", "1", "/a", `"2024-01-01"`, "1.5d", "2024-01-01T25:61:61", "12345-01-01"})
	}
}

// annotation for hot cases and free-standing literals.
func (x g) annotation() string {
	if x.chance(35) {
		return "@[" + x.bound() + "]"
	}
	return "@[" + x.bound() + ", " + x.bound() + "]"
}

// factAnnotation: a concrete interval (start <= end).
func (x g) factAnnotation() string {
	if x.hot && x.chance(40) {
		return x.annotation()
	}
	i := x.n(0, len(stamps)-1)
	j := x.n(0, len(stamps)-1)
	a, b := stamps[i], stamps[j]
	if a[:10] > b[:10] {
		a, b = b, a
	}
	if x.bad(2) {
		a = x.pick(badStamps)
	}
	switch x.n(0, 9) {
	case 0, 1, 2:
		return "@[" + a + "]"
	case 3:
		return "@[_, " + b + "]"
	case 4:
		return "@[" + a + ", _]"
	case 5:
		if x.hot {
			return "@[_]" // the eternal interval: the predicate does not count as temporal
		}
		return "@[" + b + "]"
	case 6:
		return "@[" + a + ", now]"
	default:
		return "@[" + a + ", " + b + "]"
	}
}

func (x g) operator() string {
	if x.hot {
		return x.pick([]string{"<-", "[-", "<+", "[+"}) + "[" + x.bound() + ", " + x.bound() + "]"
	}
	return x.operatorOf(x.pick([]string{"<-", "[-", "<+", "[+"}))
}

func (x g) operatorOf(op string) string {
	i, j := x.n(0, len(durations)-1), x.n(0, len(durations)-1)
	if i > j && !strings.HasSuffix(durations[i], "d") {
		i, j = j, i
	}
	a, b := durations[i], durations[j]
	if x.bad(2) {
		b = x.pick(badDurations)
	}
	return op + "[" + a + ", " + b + "]"
}

func (x g) atom(p pred, arg func(col int) string) string {
	ar := p.arity
	if x.bad(4) {
		ar = x.n(0, 4) // arity mismatch
	}
	parts := make([]string, ar)
	for i := range parts {
		parts[i] = arg(i)
	}
	return p.name + "(" + strings.Join(parts, ", ") + ")"
}

func declVars(n int) []string {
	all := []string{"A", "B", "C", "D", "E", "F"}
	if n > len(all) {
		n = len(all)
	}
	return all[:n]
}

func (x g) modeAtom(arity int, allowed []string) string {
	k := arity
	if x.bad(15) {
		k = x.n(0, 4)
	}
	parts := make([]string, k)
	for i := range parts {
		parts[i] = x.pickv(allowed, []string{`"x"`, `1`, `/a`, `X`, `""`})
	}
	return "mode(" + strings.Join(parts, ", ") + ")"
}

// modeText prints the mode chosen for the predicate (the rules are built for it).
func (x g) modeText(p pred) string {
	k := len(p.mode)
	if x.bad(15) || p.synthetic && x.chance(25) {
		k = x.n(0, 4)
	}
	parts := make([]string, k)
	for i := range parts {
		m := "?"
		if i < len(p.mode) {
			m = p.mode[i : i+1]
		}
		parts[i] = x.pickv([]string{`"` + m + `"`}, []string{`"x"`, `1`, `/a`, `X`, `""`})
	}
	return "mode(" + strings.Join(parts, ", ") + ")"
}

// descr builds the descr block of a declaration.
func (x g) descr(p pred, preds []pred) string {
	vars := declVars(p.arity)
	v := func() string {
		if len(vars) == 0 || x.bad(10) {
			return x.variable()
		}
		return x.pick(vars)
	}
	var atoms []string
	if p.deferred {
		atoms = append(atoms, "deferred()", x.modeText(p))
	}
	if p.external {
		// an external predicate must have exactly one mode
		atoms = append(atoms, "external()", x.modeText(p))
	}
	if p.mode != "" && !p.deferred && !p.external {
		atoms = append(atoms, x.modeText(p))
	}
	if p.reflects != "" {
		atoms = append(atoms, "reflects("+p.reflects+")")
	}
	if p.synthetic {
		atoms = append(atoms, "synthetic()")
	}
	seenDoc, seenArg := false, false
	for i, n := 0, x.n(0, 2); i < n; i++ {
		k := x.n(0, 13)
		if x.hot && x.chance(25) {
			k = x.n(14, 19)
		}
		if (k == 3 || k == 4 || k == 7 || k == 13) && !x.hot {
			continue // modes, reflects() and external() are properties of the predicate (see preds)
		}
		switch k {
		case 0, 1:
			if seenDoc && !x.hot {
				continue
			}
			seenDoc = true
			atoms = append(atoms, `doc("`+x.pick([]string{"a doc", "", "x\\ny"})+`")`)
		case 2:
			if x.hot {
				atoms = append(atoms, `arg(`+v()+`, "an argument")`)
			} else if !seenArg {
				seenArg = true
				for _, a := range vars {
					atoms = append(atoms, `arg(`+a+`, "an argument")`)
				}
			}
		case 5:
			if !p.synthetic || x.hot { // synthetic() and extensional(): the declared bounds count again
				atoms = append(atoms, "extensional()")
			}
		case 6:
			dotted := false // a predicate of another package could not use a private one
			for _, q := range preds {
				dotted = dotted || strings.Contains(q.name, ".")
			}
			if !dotted || x.hot {
				atoms = append(atoms, "private()")
			}
		case 8, 9:
			if len(vars) >= 2 {
				atoms = append(atoms, "fundep(["+strings.Join(vars[:len(vars)-1], ", ")+"], ["+vars[len(vars)-1]+"])")
			}
		case 10, 11:
			if len(vars) >= 2 {
				m := `"m"`
				if x.chance(30) && len(preds) > 0 {
					m = `"` + preds[x.n(0, len(preds)-1)].name + `"`
				}
				atoms = append(atoms, "fundep(["+strings.Join(vars[:len(vars)-1], ", ")+"], ["+vars[len(vars)-1]+"])", "merge(["+vars[len(vars)-1]+"], "+m+")")
			}
		case 3, 4:
			atoms = append(atoms, x.modeAtom(p.arity, []string{`"+"`, `"-"`, `"?"`, `"?"`}))
		case 7:
			atoms = append(atoms, "reflects("+x.pick([]string{"/foo", "/foo/bar", "/a"})+")")
		case 12:
			a := x.pick([]string{"synthetic()", `name("n")`, "unknown(1)", "foo()"})
			if a == "synthetic()" && !p.synthetic && !x.hot && !x.bad(10) {
				a = `name("n")` // synthetic() is a property of the predicate (see preds)
			}
			atoms = append(atoms, a)
		case 13:
			atoms = append(atoms, "external()")
		case 14:
			atoms = append(atoms, "fundep(["+x.list(0, 0, 3, func(int) string { return v() })+"], ["+x.list(0, 0, 2, func(int) string { return v() })+"])")
		case 15:
			atoms = append(atoms, "merge(["+x.list(0, 0, 2, func(int) string { return v() })+"], "+x.pick([]string{`"m"`, `":lt"`, `""`, "/m", "1", "M", `"i0"`, `"e0"`})+")")
		case 16:
			atoms = append(atoms, x.pick([]string{"temporal()", "internal:maybe_temporal()", "name()", "doc()", "arg()", "arg(A)", "fundep()", "merge()", "reflects()", "reflects(1, 2)", "deferred()", "external()", "desugared()"}))
		case 17:
			atoms = append(atoms, x.pick([]string{"mode", "X", "1", `"s"`, "fn:list()", ":lt(1, 2)"}))
		case 18:
			atoms = append(atoms, "deferred()")
		default:
			atoms = append(atoms, x.modeAtom(p.arity, []string{`"+"`, `"-"`, `"?"`}), x.modeAtom(p.arity, []string{`"+"`, `"-"`, `"?"`}))
		}
	}
	if x.bad(3) {
		atoms = append(atoms, x.pick([]string{"external()", "deferred()", `reflects(/foo)`, x.modeAtom(p.arity, []string{`"+"`, `"-"`, `"?"`})}))
	}
	if len(atoms) == 0 && x.chance(70) {
		return ""
	}
	return "\n  descr [" + strings.Join(atoms, ", ") + "]"
}

func (x g) decl(p pred, preds []pred) string {
	vars := declVars(p.arity)
	var sb strings.Builder
	sb.WriteString("Decl ")
	if x.bad(5) {
		sb.WriteString(x.atom(p, func(int) string { return x.constant(1) }))
	} else {
		sb.WriteString(p.name + "(" + strings.Join(vars, ", ") + ")")
	}
	if p.temporal && (!x.hot || x.chance(80)) {
		sb.WriteString(" temporal")
	}
	sb.WriteString(x.descr(p, preds))
	if p.bounds {
		parts := make([]string, p.arity)
		for j := range parts {
			if x.bad(10) {
				parts[j] = x.typeExpr(2)
			} else {
				parts[j] = x.tyText(p.cols[j])
			}
		}
		// A bound may name a unary predicate ("e0"): its bounds are looked up and an inclusion constraint is added.
		// (The declaration check of this tree rejects every such bound, so cold cases take it rarely.)
		if len(parts) > 0 && x.chance(6) && len(preds) > 0 && (x.hot || x.warm != nil || x.chance(30)) {
			q := preds[x.n(0, len(preds)-1)]
			if x.hot || q.arity == 1 && q.declared && q.name != p.name {
				parts[x.n(0, len(parts)-1)] = `"` + q.name + `"`
			}
		}
		if x.bad(8) || p.synthetic && x.chance(25) { // (what a hand-written synthetic() switches off must not include the shape checks)
			if x.chance(50) {
				parts = parts[:x.n(0, len(parts))]
			} else {
				parts = append(parts, x.typeExpr(1), x.typeExpr(1))[:len(parts)+x.n(1, 2)]
			}
		}
		sb.WriteString("\n  bound [" + strings.Join(parts, ", ") + "]")
		if p.alt != nil { // a second alternative
			parts2 := make([]string, p.arity)
			for j := range parts2 {
				parts2[j] = x.tyText(p.alt[j])
			}
			sb.WriteString("\n  bound [" + strings.Join(parts2, ", ") + "]")
		}
	} else if x.bad(20) {
		parts := make([]string, p.arity)
		for j := range parts {
			parts[j] = x.typeExpr(2)
		}
		sb.WriteString("\n  bound [" + strings.Join(parts, ", ") + "]")
	}
	if x.chance(6) && len(preds) > 0 {
		q := preds[x.n(0, len(preds)-1)]
		if x.hot || !q.temporal && q.arity <= p.arity {
			sb.WriteString("\n  inclusion [" + x.atom(q, func(i int) string {
				if i < len(vars) {
					return vars[i]
				}
				return x.variable()
			}) + "]")
		}
	}
	sb.WriteString(".")
	return sb.String()
}

// canFact: facts of the predicate pass the bounds check.
func (p pred) canFact() bool {
	if !p.byDecl() || !p.bounds {
		return true // no declared row: whatever is inferred for the facts is the type
	}
	for _, c := range p.cols {
		if !factOK(c) {
			return false
		}
	}
	return true
}

func (x g) fact(p pred) string {
	s := x.atom(p, func(col int) string {
		if x.bad(3) {
			return x.term(2, nil)
		}
		if x.bad(3) {
			// a function application in a fact, at an arity of its own choosing (argument counts are not checked
			// in heads): most interesting with no argument at all
			f := builtinFuns[x.n(0, len(builtinFuns)-1)]
			return f.name + "(" + x.list(0, 0, x.n(0, 2), func(int) string { return x.constant(0) }) + ")"
		}
		if col >= len(p.cols) { // arity mismatch
			return x.valueOf(nil)
		}
		c := p.cols[col]
		if p.byDecl() && !p.bounds || !p.byDecl() && c.isBase("/any") {
			// any constant
			if x.chance(75) {
				return x.valueOf(nil)
			}
			return x.constant(2)
		}
		if !p.byDecl() {
			return x.value(c, true) // names that are /name whatever the declarations mention
		}
		return x.valueOf(c)
	})
	if p.temporal && (!x.hot || x.chance(85)) || x.bad(3) {
		s += x.factAnnotation()
	}
	return s + "."
}

func endClause(s string) string {
	if strings.HasSuffix(s, ")") || strings.HasSuffix(s, "]") || strings.HasSuffix(s, "\"") {
		return s + "."
	}
	return s + " ." // a name constant or a number would swallow the dot
}

// robust: the type the bounds checker infers for a fact generated from t is t, so t can be the model of a column
// of an undeclared predicate.
func robust(t *ty) bool {
	switch t.kind {
	case "base":
		return t.lit == "/number" || t.lit == "/string" || t.lit == "/name" || t.lit == "/float64" || t.lit == "/time" || t.lit == "/duration" || t.lit == "/any"
	case "list":
		return robust(t.args[0]) && !t.args[0].isBase("/any")
	case "map":
		return keyOK(t.args[0]) && robust(t.args[0]) && robust(t.args[1]) && !t.args[1].isBase("/any")
	case "struct":
		for i, a := range t.args {
			if !robust(a) || a.isBase("/any") || t.opt[i] {
				return false
			}
		}
		return true
	default:
		return false
	}
}

func (x g) preds() []pred {
	var ps []pred
	ne, ni := x.n(1, 3), x.n(1, 3)
	// typing of the case: 0 no bounds, 1 one type for every column, 2 a type per column out of a small pool (so that
	// columns of different predicates can be joined)
	typing := x.n(0, 2)
	var pool []*ty
	np := 1
	if typing != 1 {
		np = x.n(3, 6)
	}
	for i := 0; i < np; i++ {
		t := x.genTy(2)
		if t.kind == "base" && x.chance(35) {
			t = x.genTy(2) // the columns share the few types of the pool: some more of the structured ones
		}
		if (t.kind == "list" || t.kind == "pair" || t.kind == "option") && t.args[0].kind == "tagged" && x.chance(60) {
			t = t.args[0] // a tagged union has members the checker accepts only as a column type of its own
		}
		pool = append(pool, t)
	}
	if typing == 0 {
		// no bounds will be printed: the pool is for the undeclared predicates
		for i := range pool {
			if !robust(pool[i]) {
				pool[i] = bt(x.pick([]string{"/number", "/string", "/name", "/number", "/float64", "/any"}))
			}
		}
	}
	colType := func(declared bool) *ty {
		i, j := x.n(0, len(pool)-1), x.n(0, len(pool)-1)
		if j < i {
			i = j // the first types of the pool are the common ones
		}
		t := pool[i]
		if !declared && !robust(t) {
			// an undeclared predicate: a type that is inferred from facts as it is
			var ok []*ty
			for _, c := range pool {
				if robust(c) {
					ok = append(ok, c)
				}
			}
			if len(ok) > 0 {
				return ok[x.n(0, len(ok)-1)]
			}
			return bt(x.pick([]string{"/number", "/string", "/name", "/number"}))
		}
		return t
	}
	cols := func(p *pred) {
		p.synthetic = p.declared && (x.n(0, 999) >= 955 || x.hot && x.chance(20))
		p.cols = make([]*ty, p.arity)
		p.bounds = p.declared && typing != 0 && (x.chance(75) || p.arity == 0)
		if p.declared && p.arity == 0 && !x.hot {
			p.bounds = true // a declared predicate without arguments needs its (empty) bound
		}
		for i := range p.cols {
			switch {
			case p.byDecl() && !p.bounds:
				p.cols[i] = tyAny // a declaration without bounds is desugared to /any
			case p.idb && !p.temporal && x.chance(15):
				// results of functions and aggregations live here
				p.cols[i] = bt(x.pick([]string{"/number", "/string", "/number", "/float64"}))
			case p.byDecl() && !p.idb && x.chance(20):
				p.cols[i] = x.genTy(2) // a type of its own
			default:
				p.cols[i] = colType(p.byDecl())
			}
		}
		if p.bounds && p.arity > 0 && x.chance(12) { // a second alternative
			p.alt = make([]*ty, p.arity)
			for i := range p.alt {
				p.alt[i] = p.cols[i]
				if x.hot || x.chance(20) {
					p.alt[i] = x.genTy(1)
				}
			}
		}
	}
	modeOf := func(p *pred, allowed string) {
		b := make([]byte, p.arity)
		for i := range b {
			b[i] = allowed[x.n(0, len(allowed)-1)]
		}
		p.mode = string(b)
	}
	for i := 0; i < ne; i++ {
		p := pred{name: fmt.Sprintf("e%d", i), arity: x.n(1, 3), declared: x.chance(70), temporal: x.chance(15)}
		if x.chance(6) {
			p.arity = 0
		}
		cols(&p)
		if p.declared {
			switch k := x.n(0, 99); {
			case k < 5 && p.arity > 0 && !p.temporal:
				p.external = true
				modeOf(&p, "+--")
			case k < 16:
				modeOf(&p, "+-??")
			}
			if p.arity == 1 && x.chance(5) {
				p.reflects = x.pick([]string{"/foo", "/foo/bar", "/a"})
			}
		}
		ps = append(ps, p)
	}
	nidb := 0
	for i := 0; i < ni; i++ {
		p := pred{name: fmt.Sprintf("i%d", i), arity: x.n(1, 3), idb: true, declared: x.chance(45), temporal: x.chance(15), index: nidb}
		nidb++
		cols(&p)
		if p.declared && !p.temporal && x.chance(8) {
			p.deferred = true
			modeOf(&p, "++-?")
		} else if p.declared && x.chance(11) {
			modeOf(&p, "+-??")
		}
		if p.declared && p.arity == 1 && x.chance(5) {
			p.reflects = x.pick([]string{"/foo", "/foo/bar", "/a"})
		}
		ps = append(ps, p)
	}
	// A column of an intensional predicate needs a source: a constant or a term of the type, or a column of that type
	// of an extensional predicate.
	for i := range ps {
		if !ps[i].idb || !ps[i].byDecl() || !ps[i].bounds || x.hot {
			continue
		}
		for j, c := range ps[i].cols {
			has := (&ruleGen{x: x}).constructible(c, nil, false)
			for _, q := range ps {
				for _, qc := range q.cols {
					has = has || !q.idb && tyEq(qc, c)
				}
			}
			if !has && x.chance(80) {
				ps[i].cols[j] = bt(x.pick([]string{"/number", "/string", "/name", "/float64", "/any"}))
				for _, q := range ps {
					if !q.idb && len(q.cols) > 0 && x.chance(60) {
						ps[i].cols[j] = q.cols[x.n(0, len(q.cols)-1)]
					}
				}
				if ps[i].alt != nil {
					ps[i].alt[j] = ps[i].cols[j]
				}
			}
		}
	}
	// reflects(/foo): an atom with a bound argument is rewritten to :match_prefix(X, /foo), so the column holds names
	for i := range ps {
		if ps[i].reflects != "" && !x.hot && !ps[i].cols[0].isBase("/any") {
			ps[i].cols[0] = bt(x.pick([]string{"/name", "/foo", "/foo/bar"}))
			if ps[i].reflects == "/a" {
				ps[i].cols[0] = tyName
			}
			ps[i].alt = nil
		}
	}
	// Rules may use the intensional predicates before them and themselves, and the later ones listed in fwd (mutual
	// recursion); the analysis rejects mutual recursion through temporal predicates.
	anyTemporal := false
	for _, p := range ps {
		anyTemporal = anyTemporal || p.idb && p.temporal
	}
	for i := range ps {
		if !ps[i].idb {
			continue
		}
		for j := range ps {
			if ps[j].idb && ps[j].index > ps[i].index && (x.hot || !anyTemporal && x.chance(30)) {
				ps[i].fwd = append(ps[i].fwd, ps[j].index)
			}
		}
	}
	for i := range ps {
		if !ps[i].idb {
			continue
		}
		top := ps[i].index
		for changed := true; changed; {
			changed = false
			for _, q := range ps {
				if q.idb && q.index <= top {
					for _, f := range q.fwd {
						if f > top {
							top, changed = f, true
						}
					}
				}
			}
		}
		ps[i].top = top
	}
	if x.chance(6) {
		ps[x.n(0, len(ps)-1)].name = x.pick([]string{"foo.bar", "a:b", "p_1", "m"})
		if x.bad(30) {
			// a user predicate named like a built-in one (any arity)
			ps[x.n(0, len(ps)-1)].name = x.pick([]string{":lt", ":list:member", ":match_prefix", ":match_nil", ":string:contains", ":foo"})
		}
	}
	return ps
}

// templates: whole programs around the features with the most special handling in the engine.
func (x g) template() string {
	switch x.n(0, 6) {
	case 5: // deferred predicates that call each other (resolved top-down), with and without progress
		n := x.n(2, 3)
		var sb strings.Builder
		names := []string{"even", "odd", "third"}[:n]
		for _, p := range names {
			fmt.Fprintf(&sb, "Decl %s(X)\n  descr [mode(\"+\"), deferred()].\n", p)
		}
		for i, p := range names {
			next := names[(i+1)%n]
			switch x.n(0, 2) {
			case 0: // no progress: the nesting bound has to end it
				fmt.Fprintf(&sb, "%s(X) :- %s(X).\n", p, next)
			case 1: // counts down to a base case
				fmt.Fprintf(&sb, "%s(X) :- X > 0, Y = fn:minus(X, 1), %s(Y).\n", p, next)
				if i == 0 {
					fmt.Fprintf(&sb, "%s(0).\n", p)
				}
			default: // counts up without bound
				fmt.Fprintf(&sb, "%s(X) :- Y = fn:plus(X, 1), %s(Y).\n", p, next)
			}
		}
		fmt.Fprintf(&sb, "p(%s). p(3).\nq(X) :- p(X), %s(X).\n", x.pick([]string{"1", "0", "200", "2000"}), names[0])
		return sb.String()
	case 6: // lattice over a graph with cycles and a disconnected edge: dominated facts are derived for ever
		var sb strings.Builder
		nodes := []string{"/a", "/b", "/c", "/d"}
		for i, n := 0, x.n(2, 6); i < n; i++ {
			fmt.Fprintf(&sb, "edge(%s, %s). ", x.pick(nodes), x.pick(nodes))
		}
		join := "edge(Y, Z)"
		if x.chance(30) {
			join = "edge(YY, Z)"
		}
		sb.WriteString(`
Decl shortest_path(X, Y, P)
  descr [fundep([X, Y], [P]), merge([P], "shorter")].
shortest_path(X, Y, [Y, X]) :- edge(X, Y).
shortest_path(X, Z, NewPath) :- shortest_path(X, Y, Path), ` + join + ` |> let NewPath = fn:list:cons(Z, Path).
Decl shorter(P1, P2, P)
  descr [mode("+", "+", "-"), deferred()].
shorter(P1, P2, P) :- fn:list:len(P1) < fn:list:len(P2), P = P1.
shorter(P1, P2, P) :- fn:list:len(P2) <= fn:list:len(P1), P = P2.
`)
		return sb.String()
	case 0: // custom lattice: functional dependency + merge predicate evaluated top-down
		return `edge(/a, /b). edge(/b, /c). edge(/c, /d). edge(/a, /d).
Decl shortest_path(X, Y, P)
  descr [fundep([X, Y], [P]), merge([P], "shorter")].
shortest_path(X, Y, [Y, X]) :- edge(X, Y).
shortest_path(X, Z, NewPath) :- shortest_path(X, Y, Path), edge(Y, Z) |> let NewPath = fn:list:cons(Z, Path).
Decl shorter(P1, P2, P)
  descr [mode("+", "+", "-"), deferred()].
shorter(P1, P2, P) :- fn:list:len(P1) < fn:list:len(P2), P = P1.
shorter(P1, P2, P) :- fn:list:len(P2) <= fn:list:len(P1), P = P2.
`
	case 1: // numeric lattice
		return `cost(/a, 5). step(/a, /b, 2). step(/b, /a, 1). step(/b, /c, ` + x.pick([]string{"1", "0", "-1", "7"}) + `).
Decl best(X, C)
  descr [fundep([X], [C]), merge([C], "least")].
best(X, C) :- cost(X, C).
best(Y, D) :- best(X, C), step(X, Y, W), C < 40 |> let D = fn:plus(C, W).
Decl least(A, B, C)
  descr [mode("+", "+", "-"), deferred()].
least(A, B, C) :- A < B, C = A.
least(A, B, C) :- B <= A, C = B.
`
	case 2: // deferred predicate used from a rule
		return `required(["foo", "bar"]). enabled(["bar"]).
Decl missing_required(RequiredList, EnabledList, Witness)
  descr [mode("+", "+", "-"), deferred()].
missing_required(RequiredList, EnabledList, Witness) :-
  :list:member(Witness, RequiredList), !:list:member(Witness, EnabledList).
missing(W) :- required(R), enabled(E), missing_required(R, E, W).
`
	case 3: // external predicate without a callback, package, use
		return `Package pk!
Decl ext(X, Y)
  descr [external(), mode("+", "-")].
Decl e0(X) bound [/number].
e0(1). e0(2).
q(Y) :- e0(X), ext(X, Y).
`
	default: // temporal: recursion through annotations and operators
		return `Decl link(X, Y) temporal` + x.pick([]string{"", "", " bound [/name, /name]"}) + `.
link(/a, /b)@[2024-01-01, 2024-01-10].
link(/b, /c)@[2024-01-05, 2024-01-15].
link(/c, /d)@[2024-01-12, _].
reach(X, Y)@[S, E] :- link(X, Y)@[S, E].
reach(X, Z)@[S, E] :- reach(X, Y)@[S, E], link(Y, Z)@[S, E].
recent(X) :- <-[0d, 200d] link(X, _).
always(X) :- [-[0d, 1d] link(X, _)@[now].
` + x.pick([]string{"", "Decl n(X) temporal bound [/number].\n", "Decl n(X) temporal bound [/number].\n", "Decl n(X) temporal bound [/number].\n"}) + `n(0)@[2024-01-01]. n(Y)@[2024-01-01] :- n(X)@[2024-01-01], Y = fn:plus(X, 1).
`
	}
}

// mergeDecl: the merge predicate "m" named by merge() descriptors, for a merged column of type t (nil: unknown).
func (x g) mergeDecl(t *ty) []string {
	decl := `Decl m(A, B, C)
  descr [mode("+", "+", "-"), deferred()]`
	var rules []string
	switch {
	case t != nil && t.isBase("/number"):
		// the arithmetic needs /number arguments: without bounds the inputs of a deferred predicate are /any
		tt := x.tyText(t)
		decl += "\n  bound [" + tt + ", " + tt + ", " + tt + "]"
		rules = []string{
			"m(A, B, C) :- A < B, C = A.\nm(A, B, C) :- B <= A, C = B.",
			"m(A, B, C) :- C = fn:plus(A, B).",
			"m(A, B, C) :- C = A.",
			"m(A, B, C) :- A < B, C = B.\nm(A, B, C) :- B <= A, C = A.",
		}
	case t != nil && t.kind == "list" && x.chance(60):
		tt := x.tyText(t)
		decl += "\n  bound [" + tt + ", " + tt + ", " + tt + "]"
		rules = []string{
			"m(A, B, C) :- fn:list:len(A) < fn:list:len(B), C = A.\nm(A, B, C) :- fn:list:len(B) <= fn:list:len(A), C = B.",
			"m(A, B, C) :- C = A.",
			"m(A, B, C) :- :match_nil(A), C = B.\nm(A, B, C) :- :match_cons(A, H, T), C = A.",
		}
	default:
		rules = []string{
			"m(A, B, C) :- A < B, C = A.\nm(A, B, C) :- B <= A, C = B.",
			"m(A, B, C) :- C = A.",
			"m(A, B, C) :- C = B.",
			"m(A, B, C) :- C = A, A != B.\nm(A, B, C) :- C = A, A = B.",
		}
		if x.hot {
			rules = append(rules, "m(A, B, C) :- C = fn:plus(A, B).", "m(A, B, C) :- C = fn:list:append(A, B).")
		}
	}
	return []string{decl + ".", x.pick(rules)}
}

// unit builds a source unit.
func (x g) unit() string {
	if x.chance(7) {
		return x.template()
	}
	var parts []string
	if x.chance(15) {
		parts = append(parts, "Package "+x.pickv([]string{"pk", "foo.bar", "a"}, []string{"Pk", "1", "/a"})+x.pickv([]string{"", "", ` [doc("d")]`, " []"}, []string{" [name(X)]", " [1]", " [X]"})+"!")
	}
	if x.chance(6) {
		parts = append(parts, "Use "+x.pick([]string{"other", "pk2", "x.y"})+x.pick([]string{"", ` [doc("d")]`})+"!")
	}
	ps := x.preds()
	var items []string
	needMerge := false
	var mergeTy *ty
	for _, p := range ps {
		if p.declared {
			d := x.decl(p, ps)
			if strings.Contains(d, `merge([`) && strings.Contains(d, `"m"`) {
				needMerge = true
				if p.arity > 0 && p.bounds {
					mergeTy = p.cols[p.arity-1]
				}
			}
			items = append(items, d)
			if x.bad(3) {
				items = append(items, x.decl(p, ps)) // duplicate declaration
			}
		}
		if !p.idb || x.chance(20) {
			nf := x.n(0, 4)
			if !p.byDecl() && !p.idb && !x.hot {
				nf = x.n(1, 4) // an undeclared extensional predicate is known only through its facts
			}
			if p.external && !x.hot {
				nf = 0
			}
			if !p.canFact() && !x.hot {
				nf = 0 // no constant passes the bounds check for some column type: the predicate has rules at most
			} else if nf == 0 && p.byDecl() && p.bounds && !x.hot {
				for _, c := range p.cols {
					if c.kind == "struct" || c.kind == "tagged" || c.kind == "union" || c.kind == "map" {
						nf = x.n(1, 3) // members of the structured types, for the conformance check
					}
				}
			}
			for i := 0; i < nf; i++ {
				items = append(items, x.fact(p))
			}
		}
		if p.idb {
			nr := x.n(1, 2)
			for i := 0; i < nr; i++ {
				items = append(items, x.rule(p, ps))
			}
		}
	}
	for _, p := range ps {
		if p.name == "m" && !x.hot {
			needMerge = false // the name is taken
		}
	}
	if needMerge {
		items = append(items, x.mergeDecl(mergeTy)...)
	}
	if x.chance(10) {
		items = append(items, "# a comment "+x.pick([]string{"", "Decl", "\"", "⟸"}))
	}
	if x.bad(10) && len(items) > 1 { // decls after clauses, clauses before their decls
		i, j := x.n(0, len(items)-1), x.n(0, len(items)-1)
		items[i], items[j] = items[j], items[i]
	}
	parts = append(parts, items...)
	return strings.Join(parts, "\n") + "\n"
}
