package c10

import (
	"fmt"
	"strings"
)

// Source units. Cold cases (g.hot == false) are built to pass analysis and to evaluate: declarations are
// well formed, temporal predicates are used with annotations and others without, bounds are well-formed type
// expressions and the facts are values of them, rule heads use bound variables. Hot cases sprinkle deliberately
// invalid choices over the same construction.

// ty is a type expression.
type ty struct {
	kind string // base, list, pair, map, option, tuple, struct, union, singleton
	lit  string // base: the name constant; singleton: the constant
	args []*ty
	keys []string // struct: field names
	opt  []bool   // struct: optional field
}

var baseTypes = []string{"/any", "/number", "/string", "/name", "/float64", "/bytes", "/number", "/string", "/foo", "/foo/bar", "/time", "/duration"}

func (x g) genTy(depth int) *ty {
	k := x.n(0, 16)
	if depth <= 0 || k <= 7 {
		return &ty{kind: "base", lit: x.pick(baseTypes)}
	}
	if k == 15 && x.hot {
		k = 16
	}
	switch k {
	case 16:
		// .TaggedUnion</kind, /a : .Struct<...>, /b : .Struct<...>>
		t := &ty{kind: "tagged"}
		for i, n := 0, x.n(1, 3); i < n; i++ {
			v := &ty{kind: "struct"}
			for j, m := 0, x.n(0, 2); j < m; j++ {
				v.keys = append(v.keys, []string{"/x", "/y"}[j])
				v.args = append(v.args, x.genTy(0))
				v.opt = append(v.opt, false)
			}
			t.keys = append(t.keys, []string{"/a", "/b", "/c"}[i])
			t.args = append(t.args, v)
		}
		return t
	case 8, 9:
		return &ty{kind: "list", args: []*ty{x.genTy(depth - 1)}}
	case 10:
		return &ty{kind: "pair", args: []*ty{x.genTy(depth - 1), x.genTy(depth - 1)}}
	case 11:
		return &ty{kind: "map", args: []*ty{x.genTy(0), x.genTy(depth - 1)}}
	case 12:
		t := &ty{kind: "struct"}
		for i, n := 0, x.n(0, 3); i < n; i++ {
			t.keys = append(t.keys, []string{"/a", "/b", "/c"}[i])
			t.args = append(t.args, x.genTy(depth-1))
			t.opt = append(t.opt, x.chance(20))
		}
		return t
	case 13:
		t := &ty{kind: "union"}
		for i, n := 0, x.n(1, 3); i < n; i++ {
			t.args = append(t.args, x.genTy(depth-1))
		}
		return t
	case 14:
		return &ty{kind: "singleton", lit: x.pick([]string{"/a", "/b", "/foo/x"})} // only names are accepted
	default:
		if x.chance(50) {
			return &ty{kind: "option", args: []*ty{x.genTy(depth - 1)}}
		}
		t := &ty{kind: "tuple"}
		for i, n := 0, x.n(3, 4); i < n; i++ { // "tuple type must have more than 2 args"
			t.args = append(t.args, x.genTy(depth-1))
		}
		return t
	}
}

// text prints the type, choosing between the fn: and the dot syntax.
func (x g) tyText(t *ty) string {
	dot := x.chance(40)
	join := func(ts []*ty) string {
		parts := make([]string, len(ts))
		for i, a := range ts {
			parts[i] = x.tyText(a)
		}
		return strings.Join(parts, ", ")
	}
	wrap := func(name, inner string) string {
		if dot {
			return "." + name + "<" + inner + ">"
		}
		return "fn:" + name + "(" + inner + ")"
	}
	switch t.kind {
	case "base":
		return t.lit
	case "tagged":
		parts := []string{"/kind"}
		if x.bad(3) {
			parts = []string{x.pick([]string{"X", "1", "/kind, /kind", `"kind"`})}
		}
		for i, a := range t.args {
			if x.bad(4) {
				a = x.genTy(1) // a variant that need not be a struct
			}
			if x.bad(2) {
				parts = append(parts, t.keys[i]) // a tag without a variant
				continue
			}
			if dot {
				parts = append(parts, t.keys[i]+" : "+x.tyText(a))
			} else {
				parts = append(parts, t.keys[i], x.tyText(a))
			}
		}
		return wrap("TaggedUnion", strings.Join(parts, ", "))
	case "list":
		return wrap("List", join(t.args))
	case "pair":
		return wrap("Pair", join(t.args))
	case "map":
		return wrap("Map", join(t.args))
	case "option":
		return wrap("Option", join(t.args))
	case "tuple":
		return wrap("Tuple", join(t.args))
	case "union":
		return wrap("Union", join(t.args))
	case "singleton":
		return wrap("Singleton", t.lit)
	default: // struct
		parts := make([]string, len(t.args))
		for i, a := range t.args {
			switch {
			case dot && t.opt[i]:
				parts[i] = "opt " + t.keys[i] + " : " + x.tyText(a)
			case dot:
				parts[i] = t.keys[i] + " : " + x.tyText(a)
			case t.opt[i]:
				parts[i] = "fn:opt(" + t.keys[i] + ", " + x.tyText(a) + ")"
			default:
				parts[i] = t.keys[i] + ", " + x.tyText(a)
			}
			// hot cases: malformed field lists (the values generated for the type keep the intended shape)
			switch {
			case x.bad(5):
				parts[i] = t.keys[i] // a field name without a type
			case x.bad(3):
				parts[i] = x.tyText(a) // a type without a field name
			case x.bad(2):
				parts[i] = parts[i] + ", " + parts[i] // the same field twice
			case x.bad(2):
				parts[i] = strings.Replace(parts[i], t.keys[i], x.pick([]string{"/kind", "X", "1", `"a"`, "/x"}), 1)
			}
		}
		return wrap("Struct", strings.Join(parts, ", "))
	}
}

// valueOf returns the text of a constant of the type (small domains, so that joins hit).
func (x g) valueOf(t *ty) string {
	if t == nil {
		return x.pick([]string{"0", "1", "2", "3", "/a", "/b", `"a"`, `"b"`})
	}
	switch t.kind {
	case "base":
		switch t.lit {
		case "/number":
			return x.pick([]string{"0", "1", "2", "3", "-1", "7"})
		case "/string":
			return x.pick([]string{`"a"`, `"b"`, `"c"`, `""`})
		case "/name":
			return x.pick([]string{"/a", "/b", "/c", "/foo/x"})
		case "/float64":
			return x.pick([]string{"1.5", "0.0", "-3.25", "2.0"})
		case "/bytes":
			return x.pick([]string{`b"a"`, `b"\x00\xff"`, `b""`})
		case "/foo":
			return x.pick([]string{"/foo/x", "/foo/y", "/foo/bar/z"})
		case "/foo/bar":
			return x.pick([]string{"/foo/bar/z", "/foo/bar/w"})
		case "/time":
			return x.pick([]string{`fn:time:parse_rfc3339("2024-01-01T00:00:00Z")`, "fn:time:from_unix_nanos(0)", "fn:time:from_unix_nanos(1700000000000000000)"})
		case "/duration":
			return x.pick([]string{`fn:duration:parse("1h")`, "fn:duration:from_seconds(5)", "fn:duration:from_nanos(0)"})
		default:
			return x.pick([]string{"0", "1", "/a", `"a"`, "1.5", "[1]", "{/a: 1}"})
		}
	case "list":
		return "[" + x.list(0, 0, 2, func(int) string { return x.valueOf(t.args[0]) }) + "]"
	case "pair":
		return "fn:pair(" + x.valueOf(t.args[0]) + ", " + x.valueOf(t.args[1]) + ")"
	case "map":
		if x.chance(20) {
			return "fn:map()"
		}
		return "[" + x.valueOf(t.args[0]) + ": " + x.valueOf(t.args[1]) + "]"
	case "option":
		return "fn:some(" + x.valueOf(t.args[0]) + ")"
	case "tuple":
		parts := make([]string, len(t.args))
		for i, a := range t.args {
			parts[i] = x.valueOf(a)
		}
		return "fn:tuple(" + strings.Join(parts, ", ") + ")"
	case "union":
		return x.valueOf(t.args[x.n(0, len(t.args)-1)])
	case "tagged":
		i := x.n(0, len(t.args)-1)
		parts := []string{"/kind: " + t.keys[i]}
		for j, a := range t.args[i].args {
			parts = append(parts, t.args[i].keys[j]+": "+x.valueOf(a))
		}
		return "{" + strings.Join(parts, ", ") + "}"
	case "singleton":
		return t.lit
	default:
		var parts []string
		for i, a := range t.args {
			if t.opt[i] && x.chance(30) {
				continue
			}
			parts = append(parts, t.keys[i]+": "+x.valueOf(a))
		}
		return "{" + strings.Join(parts, ", ") + "}"
	}
}

// pred is a predicate of the generated program.
type pred struct {
	name     string
	arity    int
	idb      bool
	temporal bool
	declared bool
	deferred bool
	cols     []*ty // column types (nil entries: no bound)
}

func (x g) bound() string {
	k := x.n(0, 9)
	if k == 9 && !x.hot {
		k = x.n(0, 8)
	}
	switch k {
	case 0, 1, 2:
		return x.pickv(stamps, badStamps)
	case 3, 4:
		return x.pickv(durations, badDurations)
	case 5, 6:
		return x.pick([]string{"T", "S", "E", "T1", "T2"})
	case 7:
		return "_"
	case 8:
		return "now"
	default:
		return x.pick([]string{"X", "-7d", "-1", "1", "/a", `"2024-01-01"`, "1.5d", "2024-01-01T25:61:61", "12345-01-01"})
	}
}

// annotation for hot cases and free-standing literals.
func (x g) annotation() string {
	if x.chance(35) {
		return "@[" + x.bound() + "]"
	}
	return "@[" + x.bound() + ", " + x.bound() + "]"
}

// factAnnotation: a concrete interval (start <= end).
func (x g) factAnnotation() string {
	if x.hot && x.chance(40) {
		return x.annotation()
	}
	i := x.n(0, len(stamps)-1)
	j := x.n(0, len(stamps)-1)
	a, b := stamps[i], stamps[j]
	if a[:10] > b[:10] {
		a, b = b, a
	}
	switch x.n(0, 9) {
	case 0, 1, 2:
		return "@[" + a + "]"
	case 3:
		return "@[_, " + b + "]"
	case 4:
		return "@[" + a + ", _]"
	case 5:
		if x.hot {
			return "@[_]" // the eternal interval: the predicate does not count as temporal
		}
		return "@[" + b + "]"
	case 6:
		return "@[" + a + ", now]"
	default:
		return "@[" + a + ", " + b + "]"
	}
}

func (x g) operator() string {
	if x.hot {
		return x.pick([]string{"<-", "[-", "<+", "[+"}) + "[" + x.bound() + ", " + x.bound() + "]"
	}
	i, j := x.n(0, len(durations)-1), x.n(0, len(durations)-1)
	if i > j && !strings.HasSuffix(durations[i], "d") {
		i, j = j, i
	}
	return x.pick([]string{"<-", "[-", "<+", "[+"}) + "[" + durations[i] + ", " + durations[j] + "]"
}

func (x g) atom(p pred, arg func(col int) string) string {
	ar := p.arity
	if x.bad(4) {
		ar = x.n(0, 4) // arity mismatch
	}
	parts := make([]string, ar)
	for i := range parts {
		parts[i] = arg(i)
	}
	return p.name + "(" + strings.Join(parts, ", ") + ")"
}

func declVars(n int) []string {
	all := []string{"A", "B", "C", "D", "E", "F"}
	if n > len(all) {
		n = len(all)
	}
	return all[:n]
}

func (x g) modeAtom(arity int, allowed []string) string {
	k := arity
	if x.bad(15) {
		k = x.n(0, 4)
	}
	parts := make([]string, k)
	for i := range parts {
		parts[i] = x.pickv(allowed, []string{`"x"`, `1`, `/a`, `X`, `""`})
	}
	return "mode(" + strings.Join(parts, ", ") + ")"
}

// descr builds the descr block of a declaration.
func (x g) descr(p pred, preds []pred) string {
	vars := declVars(p.arity)
	v := func() string {
		if len(vars) == 0 || x.bad(10) {
			return x.variable()
		}
		return x.pick(vars)
	}
	var atoms []string
	if p.deferred {
		atoms = append(atoms, "deferred()", x.modeAtom(p.arity, []string{`"+"`, `"+"`, `"-"`, `"?"`}))
	}
	seenDoc := false
	hasMode := p.deferred
	for i, n := 0, x.n(0, 2); i < n; i++ {
		k := x.n(0, 13)
		if x.hot && x.chance(25) {
			k = x.n(14, 19)
		}
		switch k {
		case 0, 1:
			if seenDoc && !x.hot {
				continue
			}
			seenDoc = true
			atoms = append(atoms, `doc("`+x.pick([]string{"a doc", "", "x\\ny"})+`")`)
		case 2:
			if x.hot {
				atoms = append(atoms, `arg(`+v()+`, "an argument")`)
			} else {
				for _, a := range vars {
					atoms = append(atoms, `arg(`+a+`, "an argument")`)
				}
			}
		case 3, 4:
			if !p.deferred && !hasMode || x.hot {
				atoms = append(atoms, x.modeAtom(p.arity, []string{`"+"`, `"-"`, `"?"`, `"?"`}))
				hasMode = true
			}
		case 5:
			atoms = append(atoms, "extensional()")
		case 6:
			atoms = append(atoms, "private()")
		case 7:
			if p.arity == 1 || x.hot {
				atoms = append(atoms, "reflects("+x.pick([]string{"/foo", "/foo/bar", "/a"})+")")
			}
		case 8, 9:
			if len(vars) >= 2 {
				atoms = append(atoms, "fundep(["+strings.Join(vars[:len(vars)-1], ", ")+"], ["+vars[len(vars)-1]+"])")
			}
		case 10, 11:
			if len(vars) >= 2 {
				m := `"m"`
				if x.chance(30) && len(preds) > 0 {
					m = `"` + preds[x.n(0, len(preds)-1)].name + `"`
				}
				atoms = append(atoms, "fundep(["+strings.Join(vars[:len(vars)-1], ", ")+"], ["+vars[len(vars)-1]+"])", "merge(["+vars[len(vars)-1]+"], "+m+")")
			}
		case 12:
			atoms = append(atoms, x.pick([]string{"synthetic()", `name("n")`, "unknown(1)", "foo()"}))
		case 13:
			if x.hot {
				atoms = append(atoms, "external()")
			} else if !p.idb && !p.deferred && !hasMode {
				atoms = append(atoms, "external()", x.modeAtom(p.arity, []string{`"+"`, `"-"`, `"-"`}))
				return "\n  descr [" + strings.Join(atoms, ", ") + "]"
			}
		case 14:
			atoms = append(atoms, "fundep(["+x.list(0, 0, 3, func(int) string { return v() })+"], ["+x.list(0, 0, 2, func(int) string { return v() })+"])")
		case 15:
			atoms = append(atoms, "merge(["+x.list(0, 0, 2, func(int) string { return v() })+"], "+x.pick([]string{`"m"`, `":lt"`, `""`, "/m", "1", "M", `"i0"`, `"e0"`})+")")
		case 16:
			atoms = append(atoms, x.pick([]string{"temporal()", "internal:maybe_temporal()", "name()", "doc()", "arg()", "arg(A)", "fundep()", "merge()", "reflects()", "reflects(1, 2)", "deferred()", "external()", "desugared()"}))
		case 17:
			atoms = append(atoms, x.pick([]string{"mode", "X", "1", `"s"`, "fn:list()", ":lt(1, 2)"}))
		case 18:
			atoms = append(atoms, "deferred()")
		default:
			atoms = append(atoms, x.modeAtom(p.arity, []string{`"+"`, `"-"`, `"?"`}), x.modeAtom(p.arity, []string{`"+"`, `"-"`, `"?"`}))
		}
	}
	if len(atoms) == 0 && x.chance(70) {
		return ""
	}
	return "\n  descr [" + strings.Join(atoms, ", ") + "]"
}

func (x g) decl(p pred, preds []pred) string {
	vars := declVars(p.arity)
	var sb strings.Builder
	sb.WriteString("Decl ")
	if x.bad(5) {
		sb.WriteString(x.atom(p, func(int) string { return x.constant(1) }))
	} else {
		sb.WriteString(p.name + "(" + strings.Join(vars, ", ") + ")")
	}
	if p.temporal && (!x.hot || x.chance(80)) {
		sb.WriteString(" temporal")
	}
	sb.WriteString(x.descr(p, preds))
	if p.cols != nil {
		parts := make([]string, p.arity)
		for j := range parts {
			if x.bad(10) {
				parts[j] = x.typeExpr(2)
			} else if j < len(p.cols) && p.cols[j] != nil {
				parts[j] = x.tyText(p.cols[j])
			} else {
				parts[j] = "/any"
			}
		}
		// a bound may name a unary predicate ("e0"): its bounds are looked up and an inclusion constraint is added
		if len(parts) > 0 && x.chance(6) && len(preds) > 0 {
			q := preds[x.n(0, len(preds)-1)]
			if x.hot || q.arity == 1 && q.declared && q.name != p.name {
				parts[x.n(0, len(parts)-1)] = `"` + q.name + `"`
			}
		}
		if x.bad(8) {
			if x.chance(50) {
				parts = parts[:x.n(0, len(parts))]
			} else {
				parts = append(parts, x.typeExpr(1), x.typeExpr(1))[:len(parts)+x.n(1, 2)]
			}
		}
		sb.WriteString("\n  bound [" + strings.Join(parts, ", ") + "]")
		if x.chance(12) { // a second alternative
			parts2 := make([]string, p.arity)
			for j := range parts2 {
				parts2[j] = x.tyText(x.genTy(1))
			}
			sb.WriteString("\n  bound [" + strings.Join(parts2, ", ") + "]")
		}
	} else if x.bad(20) {
		parts := make([]string, p.arity)
		for j := range parts {
			parts[j] = x.typeExpr(2)
		}
		sb.WriteString("\n  bound [" + strings.Join(parts, ", ") + "]")
	}
	if x.chance(6) && len(preds) > 0 {
		q := preds[x.n(0, len(preds)-1)]
		if x.hot || !q.temporal && q.arity <= p.arity {
			sb.WriteString("\n  inclusion [" + x.atom(q, func(i int) string {
				if i < len(vars) {
					return vars[i]
				}
				return x.variable()
			}) + "]")
		}
	}
	sb.WriteString(".")
	return sb.String()
}

func (x g) fact(p pred) string {
	s := x.atom(p, func(col int) string {
		if x.bad(3) {
			return x.term(2, nil)
		}
		if p.cols != nil && col < len(p.cols) && p.cols[col] != nil {
			return x.valueOf(p.cols[col])
		}
		if x.chance(75) {
			return x.valueOf(nil)
		}
		return x.constant(2)
	})
	if p.temporal && (!x.hot || x.chance(85)) || x.bad(3) {
		s += x.factAnnotation()
	}
	return s + "."
}

func endClause(s string) string {
	if strings.HasSuffix(s, ")") || strings.HasSuffix(s, "]") || strings.HasSuffix(s, "\"") {
		return s + "."
	}
	return s + " ." // a name constant or a number would swallow the dot
}

// rule builds a rule for head predicate p; in safe mode the head variables are bound by positive body atoms.
func (x g) rule(p pred, preds []pred) string {
	safe := !x.hot || x.chance(60)
	pool := []string{"X", "Y", "Z"}
	var bound []string // variables bound so far
	bind := func(v string) {
		for _, b := range bound {
			if b == v {
				return
			}
		}
		if v != "_" {
			bound = append(bound, v)
		}
	}
	// Stratification: cold cases negate and aggregate over lower predicates only (extensional ones and
	// intensional ones listed before the head).
	var lower []pred
	for _, c := range preds {
		if c.name == p.name {
			break
		}
		lower = append(lower, c)
	}
	for _, c := range preds {
		if !c.idb && c.name != p.name {
			lower = append(lower, c)
		}
	}
	if len(lower) == 0 || x.hot && x.chance(50) {
		lower = preds
	}
	transformKind := x.n(0, 9) // 0, 1: do-transform, 2: let-transform
	var body []string
	var tvars []string // interval variables bound by temporal literals
	nb := x.n(1, 3)
	for i := 0; i < nb; i++ {
		q := preds[x.n(0, len(preds)-1)]
		negate := i > 0 && x.chance(8)
		if transformKind <= 1 || negate {
			q = lower[x.n(0, len(lower)-1)]
		}
		if q.deferred && !x.hot && i == 0 {
			// a deferred predicate wants its inputs bound: not the first literal
			for _, c := range preds {
				if !c.deferred {
					q = c
					break
				}
			}
		}
		var used []string
		lit := x.atom(q, func(int) string {
			if x.chance(12) {
				return x.pick([]string{"0", "1", "2", "/a", `"a"`, "_"})
			}
			v := x.pick(pool)
			if q.deferred && !x.hot && len(bound) > 0 && x.chance(70) {
				v = x.pick(bound)
			}
			used = append(used, v)
			return v
		})
		neg := false
		switch {
		case q.temporal && (!x.hot || x.chance(85)) || x.bad(5):
			switch x.n(0, 3) {
			case 0:
				lit = x.operator() + " " + lit
			case 1:
				lit = lit + "@[T" + fmt.Sprint(i) + "]"
				tvars = append(tvars, "T"+fmt.Sprint(i))
			case 2:
				lit = lit + "@[S" + fmt.Sprint(i) + ", E" + fmt.Sprint(i) + "]"
				tvars = append(tvars, "S"+fmt.Sprint(i), "E"+fmt.Sprint(i))
			default:
				if x.hot {
					lit = lit + x.annotation()
				} else {
					lit = lit + x.factAnnotation()
				}
			}
		case negate:
			lit = "!" + lit
			neg = true
		}
		if !neg {
			for _, v := range used {
				bind(v)
			}
		}
		body = append(body, lit)
	}
	bv := func() string {
		if safe && len(bound) > 0 {
			return x.pick(bound)
		}
		return x.variable()
	}
	// extra literals: comparisons, equalities with functions, built-in predicates
	fresh := []string{"U", "V", "Q"}
	ne := x.n(0, 2)
	for i := 0; i < ne; i++ {
		switch x.n(0, 7) {
		case 0:
			body = append(body, bv()+" "+x.pick([]string{"<", "<=", ">", ">=", "!=", "="})+" "+x.term(1, bound))
		case 1, 2:
			v := fresh[i]
			body = append(body, v+" = "+x.fnApp(2, func(d int) string {
				if x.chance(70) {
					return bv()
				}
				return x.term(d, bound)
			}))
			bind(v)
		case 3:
			v := fresh[i]
			body = append(body, v+" = "+x.term(2, bound))
			bind(v)
		case 4, 5, 6:
			b := builtinPreds[x.n(0, len(builtinPreds)-1)]
			ar := b.arity
			if x.bad(12) {
				ar = x.n(0, 4)
			}
			parts := make([]string, ar)
			var outs []string
			for j := range parts {
				switch {
				case j == 0:
					parts[j] = bv()
				case (b.name == ":match_pair" || b.name == ":match_cons" || b.name == ":match_entry" || b.name == ":match_field") && (!x.hot || x.chance(70)):
					if (b.name == ":match_entry" || b.name == ":match_field") && j == 1 {
						parts[j] = x.pick(names)
					} else {
						parts[j] = fresh[(i+j)%3] + fmt.Sprint(j)
						outs = append(outs, parts[j])
					}
				default:
					parts[j] = x.term(1, bound)
				}
			}
			body = append(body, b.name+"("+strings.Join(parts, ", ")+")")
			for _, v := range outs {
				bind(v)
			}
		default:
			q := lower[x.n(0, len(lower)-1)]
			if x.hot || !q.temporal && !q.deferred {
				body = append(body, "!"+x.atom(q, func(int) string { return bv() }))
			}
		}
	}
	if x.bad(4) { // shuffle one pair: built-ins before their inputs are bound
		i, j := x.n(0, len(body)-1), x.n(0, len(body)-1)
		body[i], body[j] = body[j], body[i]
	}
	// transforms
	var transforms []string
	headVar := bv
	switch transformKind {
	case 0, 1: // do-transform
		var keyList []string
		for i, n := 0, x.n(0, 2); i < n && i < len(bound); i++ {
			k := bound[(i+len(bound)-1)%len(bound)]
			if x.bad(20) {
				k = bv()
			}
			dup := false
			for _, o := range keyList {
				dup = dup || o == k
			}
			if !dup || x.hot {
				keyList = append(keyList, k)
			}
		}
		keys := strings.Join(keyList, ", ")
		r := reducers[x.n(0, len(reducers)-1)]
		ar := r.arity
		if ar < 0 {
			ar = x.n(1, 2)
		}
		if x.bad(10) {
			ar = x.n(0, 3)
		}
		parts := make([]string, ar)
		for j := range parts {
			parts[j] = bv()
		}
		tr := "do fn:group_by(" + keys + "), let R = " + r.name + "(" + strings.Join(parts, ", ") + ")"
		if x.chance(20) {
			tr += ", let R2 = " + x.fnApp(1, func(int) string { return "R" })
		}
		if x.bad(8) {
			tr = "do " + x.fnApp(1, func(int) string { return bv() })
		}
		transforms = append(transforms, tr)
		if safe {
			cand := append([]string{"R"}, keyList...)
			headVar = func() string { return x.pick(cand) }
		}
	case 2: // let-transform
		tr := "let L = " + x.fnApp(2, func(int) string { return bv() })
		if x.chance(30) {
			tr += ", let L2 = " + x.fnApp(1, func(int) string { return x.pick([]string{"L", bv()}) })
		}
		transforms = append(transforms, tr)
		bind("L")
	}
	if len(transforms) > 0 && x.bad(8) {
		transforms = append(transforms, "let P = fn:plus(1, 2)")
	}
	head := x.atom(p, func(int) string {
		if x.bad(6) {
			return x.term(1, bound)
		}
		if x.chance(8) && len(bound) > 0 {
			// a function application in the head; half of them aggregating functions, which bounds checking
			// treats specially in heads, at one to three arguments (function arity is not checked in heads)
			if x.chance(50) {
				r := reducers[x.n(0, len(reducers)-1)]
				parts := make([]string, x.n(1, 3))
				for j := range parts {
					parts[j] = headVar()
				}
				return r.name + "(" + strings.Join(parts, ", ") + ")"
			}
			return x.fnApp(1, func(int) string { return headVar() })
		}
		return headVar()
	})
	if p.temporal && (!x.hot || x.chance(75)) || x.bad(3) {
		switch {
		case x.hot && x.chance(40):
			head += x.annotation()
		case len(tvars) >= 2 && x.chance(60):
			head += "@[" + tvars[len(tvars)-2] + ", " + tvars[len(tvars)-1] + "]"
		case len(tvars) >= 1 && x.chance(60):
			head += "@[" + tvars[0] + "]"
		default:
			head += x.factAnnotation()
		}
	}
	arrow := " :- "
	if x.chance(4) {
		arrow = " ⟸ "
	}
	s := head + arrow + strings.Join(body, ", ")
	if x.chance(3) { // a trailing comma is legal
		s += ","
	}
	if len(transforms) == 0 {
		return endClause(s)
	}
	for _, tr := range transforms {
		s += "\n  |> " + tr
	}
	return endClause(s)
}

func (x g) preds() []pred {
	var ps []pred
	ne, ni := x.n(1, 3), x.n(1, 3)
	// typing of the case: 0 no bounds, 1 one type for every column, 2 a type per column of the extensional predicates
	typing := x.n(0, 2)
	var uni *ty
	if typing == 1 {
		uni = x.genTy(2)
	}
	cols := func(arity int, idb bool) []*ty {
		switch {
		case typing == 0:
			return nil
		case typing == 1:
			c := make([]*ty, arity)
			for i := range c {
				c[i] = uni
			}
			return c
		case idb:
			return make([]*ty, arity) // /any
		default:
			c := make([]*ty, arity)
			for i := range c {
				c[i] = x.genTy(2)
			}
			return c
		}
	}
	for i := 0; i < ne; i++ {
		p := pred{name: fmt.Sprintf("e%d", i), arity: x.n(1, 3), declared: x.chance(70), temporal: x.chance(15)}
		if x.chance(6) {
			p.arity = 0
		}
		if p.declared && x.chance(75) {
			p.cols = cols(p.arity, false)
		}
		if p.declared && p.arity == 0 && !x.hot {
			p.cols = []*ty{} // a declared predicate without arguments needs its (empty) bound
		}
		ps = append(ps, p)
	}
	for i := 0; i < ni; i++ {
		p := pred{name: fmt.Sprintf("i%d", i), arity: x.n(1, 3), idb: true, declared: x.chance(45), temporal: x.chance(15)}
		if p.declared && x.chance(60) {
			p.cols = cols(p.arity, true)
		}
		if p.declared && !p.temporal && x.chance(8) {
			p.deferred = true
		}
		ps = append(ps, p)
	}
	if x.chance(6) {
		ps[x.n(0, len(ps)-1)].name = x.pick([]string{"foo.bar", "a:b", "p_1", "m"})
	}
	return ps
}

// templates: whole programs around the features with the most special handling in the engine.
func (x g) template() string {
	switch x.n(0, 4) {
	case 0: // custom lattice: functional dependency + merge predicate evaluated top-down
		return `edge(/a, /b). edge(/b, /c). edge(/c, /d). edge(/a, /d).
Decl shortest_path(X, Y, P)
  descr [fundep([X, Y], [P]), merge([P], "shorter")].
shortest_path(X, Y, [Y, X]) :- edge(X, Y).
shortest_path(X, Z, NewPath) :- shortest_path(X, Y, Path), edge(Y, Z) |> let NewPath = fn:list:cons(Z, Path).
Decl shorter(P1, P2, P)
  descr [mode("+", "+", "-"), deferred()].
shorter(P1, P2, P) :- fn:list:len(P1) < fn:list:len(P2), P = P1.
shorter(P1, P2, P) :- fn:list:len(P2) <= fn:list:len(P1), P = P2.
`
	case 1: // numeric lattice
		return `cost(/a, 5). step(/a, /b, 2). step(/b, /a, 1). step(/b, /c, ` + x.pick([]string{"1", "0", "-1", "7"}) + `).
Decl best(X, C)
  descr [fundep([X], [C]), merge([C], "least")].
best(X, C) :- cost(X, C).
best(Y, D) :- best(X, C), step(X, Y, W), C < 40 |> let D = fn:plus(C, W).
Decl least(A, B, C)
  descr [mode("+", "+", "-"), deferred()].
least(A, B, C) :- A < B, C = A.
least(A, B, C) :- B <= A, C = B.
`
	case 2: // deferred predicate used from a rule
		return `required(["foo", "bar"]). enabled(["bar"]).
Decl missing_required(RequiredList, EnabledList, Witness)
  descr [mode("+", "+", "-"), deferred()].
missing_required(RequiredList, EnabledList, Witness) :-
  :list:member(Witness, RequiredList), !:list:member(Witness, EnabledList).
missing(W) :- required(R), enabled(E), missing_required(R, E, W).
`
	case 3: // external predicate without a callback, package, use
		return `Package pk!
Decl ext(X, Y)
  descr [external(), mode("+", "-")].
Decl e0(X) bound [/number].
e0(1). e0(2).
q(Y) :- e0(X), ext(X, Y).
`
	default: // temporal: recursion through annotations and operators
		return `Decl link(X, Y) temporal` + x.pick([]string{"", "", " bound [/name, /name]"}) + `.
link(/a, /b)@[2024-01-01, 2024-01-10].
link(/b, /c)@[2024-01-05, 2024-01-15].
link(/c, /d)@[2024-01-12, _].
reach(X, Y)@[S, E] :- link(X, Y)@[S, E].
reach(X, Z)@[S, E] :- reach(X, Y)@[S, E], link(Y, Z)@[S, E].
recent(X) :- <-[0d, 200d] link(X, _).
always(X) :- [-[0d, 1d] link(X, _)@[now].
n(0)@[2024-01-01]. n(Y)@[2024-01-01] :- n(X)@[2024-01-01], Y = fn:plus(X, 1).
`
	}
}

// unit builds a source unit.
func (x g) unit() string {
	if x.chance(7) {
		return x.template()
	}
	var parts []string
	if x.chance(15) {
		parts = append(parts, "Package "+x.pickv([]string{"pk", "foo.bar", "a"}, []string{"Pk", "1", "/a"})+x.pickv([]string{"", "", ` [doc("d")]`, " []"}, []string{" [name(X)]", " [1]", " [X]"})+"!")
	}
	if x.chance(6) {
		parts = append(parts, "Use "+x.pick([]string{"other", "pk2", "x.y"})+x.pick([]string{"", ` [doc("d")]`})+"!")
	}
	ps := x.preds()
	var items []string
	needMerge := false
	for _, p := range ps {
		if p.declared {
			d := x.decl(p, ps)
			needMerge = needMerge || strings.Contains(d, `merge([`) && strings.Contains(d, `"m"`)
			items = append(items, d)
			if x.bad(3) {
				items = append(items, x.decl(p, ps)) // duplicate declaration
			}
		}
		if !p.idb || x.chance(20) {
			nf := x.n(0, 4)
			if !p.declared && !p.idb && !x.hot {
				nf = x.n(1, 4) // an undeclared extensional predicate is known only through its facts
			}
			if strings.Contains(strings.Join(items, ""), "external()") && !x.hot {
				nf = 0
			}
			for i := 0; i < nf; i++ {
				items = append(items, x.fact(p))
			}
		}
		if p.idb {
			nr := x.n(1, 2)
			for i := 0; i < nr; i++ {
				items = append(items, x.rule(p, ps))
			}
		}
	}
	if needMerge {
		items = append(items, `Decl m(A, B, C)
  descr [mode("+", "+", "-"), deferred()].`, x.pick([]string{
			"m(A, B, C) :- A < B, C = A.\nm(A, B, C) :- B <= A, C = B.",
			"m(A, B, C) :- C = fn:plus(A, B).",
			"m(A, B, C) :- C = A.",
			"m(A, B, C) :- C = fn:list:append(A, B).",
		}))
	}
	if x.chance(10) {
		items = append(items, "# a comment "+x.pick([]string{"", "Decl", "\"", "⟸"}))
	}
	if x.bad(10) && len(items) > 1 { // decls after clauses, clauses before their decls
		i, j := x.n(0, len(items)-1), x.n(0, len(items)-1)
		items[i], items[j] = items[j], items[i]
	}
	parts = append(parts, items...)
	return strings.Join(parts, "\n") + "\n"
}
