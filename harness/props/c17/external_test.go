package c17

import (
	"fmt"
	"sort"
	"strings"
	"testing"

	"codeberg.org/TauCeti/mangle-go/analysis"
	"codeberg.org/TauCeti/mangle-go/ast"
	"codeberg.org/TauCeti/mangle-go/engine"
	"codeberg.org/TauCeti/mangle-go/factstore"
	"codeberg.org/TauCeti/mangle-go/parse"
	"pgregory.net/rapid"
	"verif/prog"
	"verif/stats"
)

// External predicates: the rows that a callback delivers are facts the evaluation creates. With a created-fact
// limit, an evaluation that cannot take all of them has to say so; if it returns without an error, every fact
// that follows from the delivered rows is in the store.

// XCase: rows(K, 0..Rows-1) are delivered by the callback for each of the Keys inputs; big(Y) holds for the rows
// above Above; Chain adds a rule on top of big.
type XCase struct {
	Rows  int    `json:"rows"`
	Keys  int    `json:"keys"`
	Above int    `json:"above"`
	Limit int    `json:"limit"`
	Chain bool   `json:"chain"`
	Store string `json:"store"`
}

func (c XCase) text() string {
	var sb strings.Builder
	sb.WriteString("Decl rows(K, Y)\n  descr [external(), mode('+', '-')]\n  bound [/number, /number].\n")
	for k := 0; k < c.Keys; k++ {
		fmt.Fprintf(&sb, "key(%d).\n", k)
	}
	fmt.Fprintf(&sb, "big(K, Y) :- key(K), rows(K, Y), Y > %d.\n", c.Above)
	if c.Chain {
		sb.WriteString("top(Y) :- big(K, Y), big(K, Z), Y > Z.\n")
	}
	return sb.String()
}

type rowsCallback struct{ rows int }

func (rowsCallback) ShouldPushdown() bool { return false }
func (rowsCallback) ShouldQuery(inputs []ast.Constant, filters []ast.BaseTerm, pushdown []ast.Term) bool {
	return true
}
func (r rowsCallback) ExecuteQuery(inputs []ast.Constant, filters []ast.BaseTerm, pushdown []ast.Term, cb func([]ast.BaseTerm)) error {
	for i := 0; i < r.rows; i++ {
		cb([]ast.BaseTerm{ast.Number(int64(i))})
	}
	return nil
}

func checkExternal(run *stats.Run, f stats.Failer, c XCase) verdict {
	var v verdict
	text := c.text()
	unit, err := parse.Unit(strings.NewReader(text))
	if err != nil {
		run.Failf(f, "harness: program text rejected by the parser: %v\n%s", err, text)
	}
	info, err := analysis.AnalyzeOneUnit(unit, nil)
	if err != nil {
		run.Failf(f, "harness: program rejected by analysis: %v\n%s", err, text)
	}
	store := prog.NewStore(c.Store)
	var evalErr error
	panicked := ""
	func() {
		defer func() {
			if r := recover(); r != nil {
				panicked = fmt.Sprint(r)
			}
		}()
		evalErr = engine.EvalProgram(info, store, engine.WithCreatedFactLimit(c.Limit),
			engine.WithExternalPredicates(map[ast.PredicateSym]engine.ExternalPredicateCallback{{Symbol: "rows", Arity: 2}: rowsCallback{c.Rows}}))
	}()
	if panicked != "" {
		run.Failf(f, "evaluation with an external predicate panicked: %s\n%s", panicked, text)
	}
	want := map[string]bool{}
	for k := 0; k < c.Keys; k++ {
		for y := c.Above + 1; y < c.Rows; y++ {
			want[fmt.Sprintf("big(%d,%d)", k, y)] = true
			if c.Chain && y > c.Above+1 {
				want[fmt.Sprintf("top(%d)", y)] = true
			}
		}
	}
	model := c.Keys + c.Keys*c.Rows + len(want)
	v.labels = append(v.labels, "store:"+c.Store)
	if evalErr != nil {
		if !strings.Contains(evalErr.Error(), "limit") {
			run.Failf(f, "evaluation failed with something else than the limit: %v\n%s", evalErr, text)
		}
		v.labels = append(v.labels, "external:stopped-with-error")
		v.nontrivial = true
		return v
	}
	got := map[string]bool{}
	for _, sym := range []ast.PredicateSym{{Symbol: "big", Arity: 2}, {Symbol: "top", Arity: 1}} {
		store.GetFacts(ast.NewQuery(sym), func(a ast.Atom) error { got[a.String()] = true; return nil })
	}
	var missing []string
	for k := range want {
		if !got[k] {
			missing = append(missing, k)
		}
	}
	sort.Strings(missing)
	if len(missing) > 0 {
		if len(missing) > 6 {
			missing = append(missing[:6], "...")
		}
		run.Failf(f, "evaluation with limit %d returned without an error, but the store does not hold the complete model (the callback delivers %d rows per key): missing %v\n%s", c.Limit, c.Rows, missing, text)
	}
	v.labels = append(v.labels, "external:complete")
	if c.Limit < model {
		v.labels = append(v.labels, "external:complete-although-limit-below-model-size")
	}
	v.nontrivial = len(want) > 0
	return v
}

func TestC17_External(t *testing.T) {
	run := stats.Begin("C17", "TestC17_External")
	defer run.Finish(t)
	rapid.Check(t, func(rt *rapid.T) {
		c := XCase{
			Rows:  rapid.IntRange(1, 60).Draw(rt, "rows"),
			Keys:  rapid.IntRange(1, 3).Draw(rt, "keys"),
			Chain: rapid.Bool().Draw(rt, "chain"),
			Store: rapid.SampledFrom(prog.StoreKinds).Draw(rt, "store"),
		}
		c.Above = rapid.IntRange(-1, c.Rows).Draw(rt, "above")
		if rapid.Bool().Draw(rt, "fewAbove") {
			c.Above = c.Rows - rapid.IntRange(1, 4).Draw(rt, "few")
		if c.Above < -1 {
			c.Above = -1
		}
		}
		// limits around the number of delivered rows and around the model size
		c.Limit = rapid.IntRange(1, c.Keys*c.Rows*2+20).Draw(rt, "limit")
		run.Current(c)
		vd := checkExternal(run, rt, c)
		run.Case(vd.nontrivial, stats.Hash(fmt.Sprintf("%+v", c)), vd.labels...)
		if vd.nontrivial {
			run.Sample("external", map[string]any{"text": c.text(), "limit": c.Limit, "rows": c.Rows})
		}
	})
}

var _ = factstore.NewSimpleInMemoryStore
