package c17

import (
	"fmt"
	"sort"
	"strings"
	"testing"
	"time"

	"codeberg.org/TauCeti/mangle-go/ast"
	"codeberg.org/TauCeti/mangle-go/engine"
	"codeberg.org/TauCeti/mangle-go/factstore"
	"pgregory.net/rapid"
	"verif/prog"
	"verif/stats"
	"verif/val"
)

// TCase is a self-recursive temporal program that creates a new atom per round.
type TCase struct {
	Shape string `json:"shape"` // t-plus, t-mutual, t-counter (finite: X < Upto), t-window (same atom, touching intervals)
	Step  int64  `json:"step"`
	Upto  int64  `json:"upto"`
	Point bool   `json:"point"` // @[T] instead of @[S, E]
	Seeds int    `json:"seeds"`
	Limit int    `json:"limit"`
	// OptOrder permutes the three evaluation options (their order must not matter).
	OptOrder int `json:"optOrder,omitempty"`
	// Cap > 0: the temporal store is created with WithMaxIntervalsPerAtom(Cap) (0: the default cap).
	Cap int `json:"cap,omitempty"`
	// Regular is the kind of the REGULAR fact store handed to EvalProgram beside the temporal one:
	// "" = the array store (as in replay files written before the field existed), a kind of prog.StoreKinds, or
	// a factstore.TemporalFactStoreAdapter: "adapter-same" / "adapter-at-same" front the very temporal store
	// given to WithTemporalStore (NewTemporalFactStoreAdapter / ...AdapterAt the evaluation time),
	// "adapter-separate" / "adapter-at-separate" front another temporal store that holds SepFacts facts of a
	// predicate the program does not mention. An adapter is handed to the engine as it is (no wrapper around
	// it); what is written through it is counted in the temporal store behind it.
	Regular  string `json:"regular,omitempty"`
	SepFacts int    `json:"sepFacts,omitempty"`
	// History > 0: before the evaluation the temporal store already holds History atoms of a predicate the program
	// does not mention, each with HistIvs overlapping intervals, and Coalesce has been called for that predicate
	// (a store with a past; nothing of it counts as created).
	History int `json:"history,omitempty"`
	HistIvs int `json:"histIvs,omitempty"`
}

// regularKinds are the values of TCase.Regular the generator draws from (adapters: 8 of 14).
var regularKinds = []string{"", "simple", "multiindexed", "concurrent-array", "teeing", "merged",
	"adapter-same", "adapter-same", "adapter-at-same", "adapter-separate", "adapter-separate", "adapter-separate", "adapter-at-separate", "adapter-at-separate"}

func isAdapter(kind string) bool { return strings.HasPrefix(kind, "adapter-") }

func (c TCase) text() string {
	var sb strings.Builder
	sb.WriteString("Decl tp(X) temporal bound [/number].\n")
	if c.Shape == "t-mutual" {
		sb.WriteString("Decl tq(X) temporal bound [/number].\n")
	}
	ann, iv := "@[S, E]", "@[2024-01-01T00:00:00Z, 2024-01-02T00:00:00Z]"
	if c.Point && c.Shape != "t-window" {
		ann, iv = "@[T]", "@[2024-01-01T00:00:00Z]"
	}
	for i := 1; i <= c.Seeds; i++ {
		fmt.Fprintf(&sb, "tp(%d)%s.\n", i, iv)
	}
	switch c.Shape {
	case "t-plus":
		fmt.Fprintf(&sb, "tp(Y)%s :- tp(X)%s, Y = fn:plus(X, %d) .\n", ann, ann, c.Step)
	case "t-mutual":
		fmt.Fprintf(&sb, "tq(Y)%s :- tp(X)%s, Y = fn:plus(X, %d) .\n", ann, ann, c.Step)
		fmt.Fprintf(&sb, "tp(Y)%s :- tq(X)%s, Y = fn:plus(X, %d) .\n", ann, ann, c.Step)
	case "t-counter":
		fmt.Fprintf(&sb, "tp(Y)%s :- tp(X)%s, X < %d, Y = fn:plus(X, 1) .\n", ann, ann, c.Upto)
	case "t-window":
		// every round appends a touching interval to the SAME atom: the per-atom interval cap or the limit must stop it
		fmt.Fprintf(&sb, "tp(X)@[T2, T3] :- tp(X)@[T1, T2], T3 = fn:time:add(T2, fn:duration:parse(\"%dh\")) .\n", c.Step)
	}
	return sb.String()
}

type countingTemporal struct {
	factstore.TemporalFactStore
	created *int
	bound   int
}

func (c countingTemporal) Add(a ast.Atom, iv ast.Interval) (bool, error) {
	ok, err := c.TemporalFactStore.Add(a, iv)
	if ok {
		*c.created++
		if *c.created > c.bound {
			panic(overrun{*c.created, c.bound})
		}
	}
	return ok, err
}

func (c countingTemporal) AddEternal(a ast.Atom) (bool, error) {
	ok, err := c.TemporalFactStore.AddEternal(a)
	if ok {
		*c.created++
		if *c.created > c.bound {
			panic(overrun{*c.created, c.bound})
		}
	}
	return ok, err
}

func checkTemporal(run *stats.Run, f stats.Failer, c TCase) verdict {
	var v verdict
	text := c.text()
	L := c.Limit
	R := 1
	if c.Shape == "t-mutual" {
		R = 2
	}
	B := 2*(c.Seeds+(2*R+2)*(L+1)) + 16
	var out prog.Outcome
	prog.Analyze(text, &out, nil)
	switch {
	case out.ParseErr != nil:
		run.Failf(f, "harness: program text rejected by the parser: %v\n%s", out.ParseErr, text)
	case out.Panic != "":
		run.Failf(f, "%s panicked: %s\n%s", out.PanicStage, out.Panic, text)
	case out.AnalysisErr != nil:
		v.labels = append(v.labels, "rejected")
		return v
	}
	created := 0
	tinner := factstore.NewTemporalStore()
	if c.Cap > 0 {
		tinner = factstore.NewTemporalStore(factstore.WithMaxIntervalsPerAtom(c.Cap))
	}
	if c.History > 0 {
		day := int64(24 * 3600 * 1e9)
		start := time.Date(2020, 1, 1, 0, 0, 0, 0, time.UTC).UnixNano()
		for a := 0; a < c.History; a++ {
			for k := 0; k < c.HistIvs; k++ {
				iv := ast.NewInterval(ast.NewTimestampBound(time.Unix(0, start+int64(k)*day).UTC()), ast.NewTimestampBound(time.Unix(0, start+int64(k+2)*day).UTC()))
				if _, err := tinner.Add(ast.NewAtom("past", ast.Number(int64(a))), iv); err != nil {
					run.Failf(f, "harness: the temporal store refused a fact of its history: %v", err)
				}
			}
		}
		if err := tinner.Coalesce(ast.PredicateSym{Symbol: "past", Arity: 1}); err != nil {
			run.Failf(f, "Coalesce failed on the history of the temporal store: %v", err)
		}
		v.labels = append(v.labels, "temporal-store-with-coalesced-history")
	}
	temporal := countingTemporal{TemporalFactStore: tinner, created: &created, bound: B}
	evalTime := time.Date(2024, 6, 1, 0, 0, 0, 0, time.UTC)
	// the regular store: an in-memory kind behind the counting wrapper, or an adapter over a (counting) temporal store
	var plain factstore.FactStore
	var plainInner factstore.FactStore // the store to read back; nil for an adapter
	switch {
	case isAdapter(c.Regular):
		var behind factstore.TemporalFactStore = temporal
		if strings.HasSuffix(c.Regular, "-separate") {
			sep := factstore.NewTemporalStore()
			for i := 0; i < c.SepFacts; i++ {
				if _, err := sep.AddEternal(ast.NewAtom("hist", ast.Number(int64(i)))); err != nil {
					run.Failf(f, "harness: the separate temporal store refused a fact: %v", err)
				}
			}
			behind = countingTemporal{TemporalFactStore: sep, created: &created, bound: B}
		}
		if strings.HasPrefix(c.Regular, "adapter-at-") {
			plain = factstore.NewTemporalFactStoreAdapterAt(behind, evalTime)
		} else {
			plain = factstore.NewTemporalFactStoreAdapter(behind)
		}
	case c.Regular == "":
		plainInner = factstore.NewMultiIndexedArrayInMemoryStore()
	default:
		known := false
		for _, k := range prog.StoreKinds {
			known = known || k == c.Regular
		}
		if !known {
			run.Failf(f, "malformed case: unknown regular store kind %q", c.Regular)
		}
		plainInner = prog.NewStore(c.Regular)
	}
	if plainInner != nil {
		plain = countingStore{FactStore: plainInner, created: &created, bound: B}
	}
	shown := text
	if c.Regular != "" {
		shown = fmt.Sprintf("%sregular store: %s", text, c.Regular)
		if c.SepFacts > 0 {
			shown += fmt.Sprintf(" holding %d facts", c.SepFacts)
		}
		shown += "\n"
	}
	if c.History > 0 {
		shown += fmt.Sprintf("temporal store: holds %d atoms of past/1 with %d overlapping intervals each, coalesced before the evaluation\n", c.History, c.HistIvs)
	}
	var evalErr error
	var over *overrun
	panicked := ""
	func() {
		defer func() {
			if r := recover(); r != nil {
				if o, ok := r.(overrun); ok {
					over = &o
					return
				}
				panicked = fmt.Sprint(r)
			}
		}()
		evalErr = engine.EvalProgram(out.Info, plain, permuteOpts([]engine.EvalOption{engine.WithCreatedFactLimit(L), engine.WithTemporalStore(temporal),
			engine.WithEvaluationTime(evalTime)}, c.OptOrder)...)
	}()
	if panicked != "" {
		run.Failf(f, "evaluation under a fact limit panicked: %s\nlimit %d\n%s", panicked, L, shown)
	}
	if over != nil {
		run.Failf(f, "limit %d not enforced for temporal facts: %d facts created, more than the bound %d; evaluation aborted by the harness\nprogram:\n%s", L, over.created, B, shown)
	}
	diverges := c.Shape != "t-counter"
	if evalErr == nil {
		if diverges {
			run.Failf(f, "evaluation returned without error under limit %d although the temporal model is infinite (%d facts created): a truncated model was returned silently\nprogram:\n%s", L, created, shown)
		}
		// finite counter: exactly tp(1..max(Seeds, Upto)) hold, each with the seed interval, nothing in the plain store
		want := map[string]bool{}
		top := int64(c.Seeds)
		if c.Upto > top {
			top = c.Upto
		}
		for i := int64(1); i <= top; i++ {
			want[val.AtomKey(ast.NewAtom("tp", ast.Number(i)))] = true
		}
		got := map[string]bool{}
		tinner.GetAllFacts(ast.NewQuery(ast.PredicateSym{Symbol: "tp", Arity: 1}), func(tf factstore.TemporalFact) error {
			got[val.AtomKey(tf.Atom)] = true
			return nil
		})
		var missing, extra []string
		for k := range want {
			if !got[k] {
				missing = append(missing, k)
			}
		}
		for k := range got {
			if !want[k] {
				extra = append(extra, k)
			}
		}
		sort.Strings(missing)
		sort.Strings(extra)
		// an in-memory regular store holds nothing (every predicate is temporal); what an adapter shows as
		// regular facts is not judged
		var po prog.Outcome
		if plainInner != nil {
			prog.ReadStore(plainInner, &po)
		}
		if len(missing) > 0 || len(extra) > 0 || len(po.Facts) > 0 {
			run.Failf(f, "evaluation returned without error under limit %d but the temporal model is not complete.\nmissing: %v\nextra: %v\nplain (non-temporal) facts: %d\nprogram:\n%s", L, missing, extra, len(po.Facts), shown)
		}
		v.labels = append(v.labels, "completed")
	} else {
		v.labels = append(v.labels, "stopped-with-error")
	}
	regular := c.Regular
	if regular == "" {
		regular = "multiindexedarray"
	}
	v.labels = append(v.labels, "shape:"+c.Shape, "regular:"+regular)
	if isAdapter(c.Regular) {
		v.labels = append(v.labels, "regular-store-is-temporal-adapter")
	}
	v.nontrivial = true
	return v
}

func TestC17_Temporal(t *testing.T) {
	run := stats.Begin("C17", "TestC17_Temporal")
	defer run.Finish(t)
	rapid.Check(t, func(rt *rapid.T) {
		c := TCase{
			Shape: rapid.SampledFrom([]string{"t-plus", "t-mutual", "t-counter", "t-window", "t-window"}).Draw(rt, "shape"),
			Step:  rapid.Int64Range(1, 3).Draw(rt, "step"),
			Upto:  rapid.Int64Range(2, 40).Draw(rt, "upto"),
			Point: rapid.Bool().Draw(rt, "point"),
			Seeds: rapid.IntRange(1, 3).Draw(rt, "seeds"),
			Limit: rapid.SampledFrom([]int{1, 2, 3, 5, 8, 13, 21}).Draw(rt, "limit"),
		}
		c.OptOrder = rapid.IntRange(0, 5).Draw(rt, "optOrder")
		c.Cap = rapid.SampledFrom([]int{0, 0, 2, 5, 20}).Draw(rt, "cap")
		c.Regular = rapid.SampledFrom(regularKinds).Draw(rt, "regular")
		if strings.HasSuffix(c.Regular, "-separate") {
			c.SepFacts = rapid.IntRange(0, 3).Draw(rt, "sepFacts")
		}
		if rapid.IntRange(0, 2).Draw(rt, "withHistory") == 0 {
			c.History = rapid.IntRange(1, 8).Draw(rt, "history")
			c.HistIvs = rapid.IntRange(2, 5).Draw(rt, "histIvs")
			if c.Cap > 0 && c.HistIvs > c.Cap {
				c.HistIvs = c.Cap
			}
		}
		run.Current(c)
		vd := checkTemporal(run, rt, c)
		run.Case(vd.nontrivial, stats.Hash(fmt.Sprintf("%+v", c)), vd.labels...)
		run.Sample("temporal", map[string]any{"text": c.text(), "limit": c.Limit})
	})
}
