package c17

import (
	"fmt"
	"os"
	"strings"
	"testing"

	"codeberg.org/TauCeti/mangle-go/ast"
	"codeberg.org/TauCeti/mangle-go/engine"
	"codeberg.org/TauCeti/mangle-go/factstore"
	"pgregory.net/rapid"
	"verif/prog"
	"verif/stats"
)

// Lattice programs: a predicate with a functional dependency and a merge predicate, derived recursively over a
// graph with cycles. Facts that the merge predicate discards in favour of the stored one are still derived in
// every round, so without a limit many of these programs never return; the store itself hardly grows, so a
// count of successful Adds cannot see it. The verdict here is a deterministic count of store operations
// (method calls and callback invocations through a wrapper) against a bound that is a function of the limit and
// the program size - no clock involved.

// MCase is one lattice program.
type MCase struct {
	Shape    string   `json:"shape"` // m-path (shortest path as a list), m-cost (least cost), m-path-unjoined (K64)
	Edges    [][3]int `json:"edges"` // from, to, weight
	Starts   []int    `json:"starts"`
	Limit    int      `json:"limit"`
	Store    string   `json:"store"`
	OptOrder int      `json:"optOrder"`
	Temporal bool     `json:"temporal"` // an (empty) temporal store is configured too
}

func node(i int) string { return fmt.Sprintf("/n%d", i) }

func (c MCase) text() string {
	var sb strings.Builder
	switch c.Shape {
	case "m-cost":
		for _, s := range c.Starts {
			fmt.Fprintf(&sb, "cost(%s, %d).\n", node(s), s)
		}
		for _, e := range c.Edges {
			fmt.Fprintf(&sb, "step(%s, %s, %d).\n", node(e[0]), node(e[1]), e[2])
		}
		sb.WriteString(`Decl best(X, C)
  descr [fundep([X], [C]), merge([C], "least")].
best(X, C) :- cost(X, C).
best(Y, D) :- best(X, C), step(X, Y, W) |> let D = fn:plus(C, W).
Decl least(A, B, C)
  descr [mode("+", "+", "-"), deferred()].
least(A, B, C) :- A < B, C = A.
least(A, B, C) :- B <= A, C = B.
`)
	default:
		for _, e := range c.Edges {
			fmt.Fprintf(&sb, "edge(%s, %s).\n", node(e[0]), node(e[1]))
		}
		join := "edge(Y, Z)"
		if c.Shape == "m-path-unjoined" {
			join = "edge(YY, Z)"
		}
		sb.WriteString(`Decl shortest_path(X, Y, P)
  descr [fundep([X, Y], [P]), merge([P], "shorter")].
shortest_path(X, Y, [Y, X]) :- edge(X, Y).
shortest_path(X, Z, NewPath) :- shortest_path(X, Y, Path), ` + join + ` |> let NewPath = fn:list:cons(Z, Path).
Decl shorter(P1, P2, P)
  descr [mode("+", "+", "-"), deferred()].
shorter(P1, P2, P) :- fn:list:len(P1) < fn:list:len(P2), P = P1.
shorter(P1, P2, P) :- fn:list:len(P2) <= fn:list:len(P1), P = P2.
`)
	}
	return sb.String()
}

type opsOverrun struct{ ops, bound int }

// opsStore counts every operation on the store the engine writes to: each method call and each callback
// invocation of GetFacts. Exceeding the bound aborts the evaluation by a private panic.
type opsStore struct {
	inner factstore.FactStore
	ops   *int
	bound int
	// locking: the inner store holds a read lock while it runs a GetFacts callback (ConcurrentFactStore);
	// depth counts the GetFacts callbacks in progress. A write from inside a callback then blocks for ever
	// (sync.RWMutex is not reentrant): reported instead of executed.
	locking bool
	depth   *int
	// lattice: symbol of the predicate with the merge declaration. Every derived fact of it is offered to the
	// store by one lookup of the existing facts (GetFacts on that predicate); offered counts these lookups.
	lattice    string
	offered    *int
	offerBound int
}

type reentrant struct{ op string }

type offerOverrun struct{ offered, bound int }

func (o opsStore) write(op string) {
	o.tick()
	if o.locking && *o.depth > 0 {
		panic(reentrant{op})
	}
}

func (o opsStore) tick() {
	*o.ops++
	if *o.ops > o.bound {
		panic(opsOverrun{*o.ops, o.bound})
	}
}
func (o opsStore) GetFacts(a ast.Atom, fn func(ast.Atom) error) error {
	o.tick()
	if a.Predicate.Symbol == o.lattice {
		*o.offered++
		if *o.offered > o.offerBound {
			panic(offerOverrun{*o.offered, o.offerBound})
		}
	}
	return o.inner.GetFacts(a, func(x ast.Atom) error {
		o.tick()
		*o.depth++
		defer func() { *o.depth-- }()
		return fn(x)
	})
}
func (o opsStore) Contains(a ast.Atom) bool           { o.tick(); return o.inner.Contains(a) }
func (o opsStore) ListPredicates() []ast.PredicateSym { o.tick(); return o.inner.ListPredicates() }
func (o opsStore) EstimateFactCount() int             { o.tick(); return o.inner.EstimateFactCount() }
func (o opsStore) Add(a ast.Atom) bool                { o.write("Add"); return o.inner.Add(a) }
func (o opsStore) Merge(s factstore.ReadOnlyFactStore) {
	o.write("Merge")
	o.inner.Merge(s)
}

// opsStoreWithRemove additionally offers Remove (the engine replaces a fact of a merge predicate through it).
type opsStoreWithRemove struct {
	opsStore
	rm factstore.FactStoreWithRemove
}

func (o opsStoreWithRemove) Remove(a ast.Atom) bool { o.write("Remove"); return o.rm.Remove(a) }

func newOpsStore(inner factstore.FactStore, ops *int, bound int, locking bool, lattice string, offerBound int) factstore.FactStore {
	depth, offered := 0, 0
	o := opsStore{inner: inner, ops: ops, bound: bound, locking: locking, depth: &depth, lattice: lattice, offered: &offered, offerBound: offerBound}
	if rm, ok := inner.(factstore.FactStoreWithRemove); ok {
		return opsStoreWithRemove{opsStore: o, rm: rm}
	}
	return o
}

// opsBound is the bound on store operations for a program with r rules (after rewriting at most 2r+2), at most k
// premises per rule, limit l and at most s facts in the store: every stratum runs at most l+2 incremental rounds
// (each must create a fact, and more than l created facts end the evaluation), a round evaluates at most 2r+2
// (delta) rules, a rule evaluation joins k premises with at most l+1 partial solutions each (per-join check)
// against at most s stored facts, and merging a delta of at most l+1 facts looks at no more than s facts each.
// The factor 16 is slack (first round, do-transforms, Contains tests, top-down merge evaluation).
func opsBound(r, k, l, s int) int {
	return 16 * (r + 1) * (l + 2) * (2*r + 2) * (k + 1) * (l + 1) * (s + 1)
}

func checkMerge(run *stats.Run, f stats.Failer, c MCase) verdict {
	var v verdict
	text := c.text()
	var out prog.Outcome
	prog.Analyze(text, &out, nil)
	switch {
	case out.ParseErr != nil:
		run.Failf(f, "harness: program text rejected by the parser: %v\n%s", out.ParseErr, text)
	case out.Panic != "":
		run.Failf(f, "%s panicked: %s\n%s", out.PanicStage, out.Panic, text)
	case out.AnalysisErr != nil:
		v.labels = append(v.labels, "rejected")
		return v
	}
	L := c.Limit
	R, K := 4, 3
	F := len(c.Edges) + len(c.Starts)
	B := 2*(F+(2*R+2)*(L+1)) + 16 // bound on created facts (DESIGN §3 C17)
	S := F + B
	bound := opsBound(R, K, L, S)
	ops := 0
	inner := prog.NewStore(c.Store)
	lattice := "shortest_path"
	if c.Shape == "m-cost" {
		lattice = "best"
	}
	// Facts of the lattice predicate offered to the store: the rules of these (linear) shapes read the
	// predicate from the main store in the first round only; afterwards every lookup is one derived fact being
	// merged, and more than L derived facts per stratum (plus the first round: at most L+1 per rule, unchecked)
	// must end the evaluation. 4(F+(2R+2)(L+1))+32 is twice the created-fact bound of DESIGN §3 C17.
	offerBound := 4*(F+(2*R+2)*(L+1)) + 32
	store := newOpsStore(inner, &ops, bound, strings.HasPrefix(c.Store, "concurrent"), lattice, offerBound)
	opts := []engine.EvalOption{engine.WithCreatedFactLimit(L)}
	if c.Temporal {
		opts = append(opts, engine.WithTemporalStore(factstore.NewTemporalStore()))
	}
	opts = permuteOpts(opts, c.OptOrder)
	var evalErr error
	var over *opsOverrun
	panicked := ""
	reent := ""
	var offer *offerOverrun
	func() {
		defer func() {
			if r := recover(); r != nil {
				if o, ok := r.(opsOverrun); ok {
					over = &o
					return
				}
				if re, ok := r.(reentrant); ok {
					reent = re.op
					return
				}
				if oo, ok := r.(offerOverrun); ok {
					offer = &oo
					return
				}
				panicked = fmt.Sprint(r)
			}
		}()
		evalErr = engine.EvalProgram(out.Info, store, opts...)
	}()
	if panicked != "" {
		run.Failf(f, "evaluation of a lattice program under a fact limit panicked: %s\nlimit %d\n%s", panicked, L, text)
	}
	if reent != "" {
		run.Failf(f, "evaluation never returns on a ConcurrentFactStore: the engine calls %s on the store from inside the store's own GetFacts callback (read lock held, write lock requested by the same goroutine); stopped by the harness instead of deadlocking\nlimit %d\nprogram:\n%s", reent, L, text)
	}
	if offer != nil {
		run.Failf(f, "limit %d does not stop the evaluation of a lattice (merge predicate) program: %d derived facts of %s were offered to the store (lookups of the existing fact), more than the bound %d = 4(F+(2R+2)(L+1))+32; the store holds %d facts; evaluation aborted by the harness\nprogram:\n%s",
			L, offer.offered, lattice, offerBound, inner.EstimateFactCount(), text)
	}
	if over != nil {
		run.Failf(f, "limit %d does not make the evaluation of a lattice (merge predicate) program return: %d store operations, more than the bound %d = 16(R+1)(L+2)(2R+2)(K+1)(L+1)(S+1) with R=%d K=%d S=%d; the store holds %d facts; evaluation aborted by the harness\nprogram:\n%s",
			L, over.ops, bound, R, K, S, inner.EstimateFactCount(), text)
	}
	if evalErr == nil {
		v.labels = append(v.labels, "completed")
	} else {
		v.labels = append(v.labels, "stopped-with-error")
	}
	cyc := false
	for _, e := range c.Edges {
		for _, g := range c.Edges {
			if e[1] == g[0] && g[1] == e[0] || e[0] == e[1] {
				cyc = true
			}
		}
	}
	if cyc {
		v.labels = append(v.labels, "cycle")
	}
	v.labels = append(v.labels, "shape:"+c.Shape, "store:"+c.Store, fmt.Sprintf("ops<=%d%%-of-bound", 10*(1+10*ops/bound)))
	v.nontrivial = cyc || c.Shape == "m-path-unjoined"
	return v
}

// permuteOpts returns the options in the order-th permutation (the order of functional options must not matter).
func permuteOpts(opts []engine.EvalOption, order int) []engine.EvalOption {
	res := append([]engine.EvalOption{}, opts...)
	for i := len(res) - 1; i > 0; i-- {
		j := order % (i + 1)
		order /= i + 1
		res[i], res[j] = res[j], res[i]
	}
	return res
}

func TestC17_Merge(t *testing.T) {
	run := stats.Begin("C17", "TestC17_Merge")
	defer run.Finish(t)
	rapid.Check(t, func(rt *rapid.T) {
		c := MCase{
			Shape:    rapid.SampledFrom([]string{"m-path", "m-path", "m-cost", "m-cost", "m-path-unjoined"}).Draw(rt, "shape"),
			Limit:    rapid.SampledFrom([]int{1, 2, 3, 5, 8, 13}).Draw(rt, "limit"),
			Store:    rapid.SampledFrom([]string{"simple", "indexed", "multiindexed", "multiindexedarray", "concurrent-simple", "teeing"}).Draw(rt, "store"),
			OptOrder: rapid.IntRange(0, 5).Draw(rt, "optOrder"),
			Temporal: rapid.IntRange(0, 3).Draw(rt, "temporal") == 0,
		}
		n := rapid.IntRange(2, 4).Draw(rt, "nodes")
		ne := rapid.IntRange(1, 6).Draw(rt, "nEdges")
		for i := 0; i < ne; i++ {
			w := rapid.SampledFrom([]int{1, 1, 2, 0, 3, -1}).Draw(rt, "w")
			c.Edges = append(c.Edges, [3]int{rapid.IntRange(0, n-1).Draw(rt, "from"), rapid.IntRange(0, n-1).Draw(rt, "to"), w})
		}
		c.Starts = []int{0}
		if rapid.Bool().Draw(rt, "twoStarts") {
			c.Starts = append(c.Starts, 1)
		}
		run.Current(c)
		if os.Getenv("VERIF_C17_TRACE") != "" {
			fmt.Fprintf(os.Stderr, "case %+v bound=?\n", c)
		}
		vd := checkMerge(run, rt, c)
		run.Case(vd.nontrivial, stats.Hash(fmt.Sprintf("%+v", c)), vd.labels...)
		if vd.nontrivial {
			run.Sample("lattice", map[string]any{"text": c.text(), "limit": c.Limit, "store": c.Store})
		}
	})
}
