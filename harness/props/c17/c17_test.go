// Package c17 checks property C17: a created-fact limit turns divergence into an error, never into a
// silent partial result.
package c17

import (
	"encoding/json"
	"fmt"
	"strings"
	"testing"

	"codeberg.org/TauCeti/mangle-go/ast"
	"codeberg.org/TauCeti/mangle-go/engine"
	"codeberg.org/TauCeti/mangle-go/factstore"
	"pgregory.net/rapid"
	"verif/prog"
	"verif/stats"
	"verif/val"
)

// Case: program, pre-loaded facts, store kind, limit.
type Case struct {
	Gen   prog.Generated `json:"gen"`
	Store string         `json:"store"`
	Limit int            `json:"limit"`
	Shape string         `json:"shape"`
	Text  string         `json:"text"`
	// WithTemporal configures an (empty) temporal store as well; the limit must still hold for plain facts.
	WithTemporal bool `json:"withTemporal,omitempty"`
	// OptOrder permutes the evaluation options (their order must not matter).
	OptOrder int `json:"optOrder,omitempty"`
}

type verdict struct {
	nontrivial bool
	labels     []string
}

type overrun struct{ created, bound int }

// countingStore counts successful Adds and aborts the evaluation (by a private panic) once far more
// facts were created than any function of the limit and the program size allows.
type countingStore struct {
	factstore.FactStore
	created *int
	bound   int
}

func (c countingStore) Add(a ast.Atom) bool {
	ok := c.FactStore.Add(a)
	if ok {
		*c.created++
		if *c.created > c.bound {
			panic(overrun{*c.created, c.bound})
		}
	}
	return ok
}

func extraFacts(g prog.Generated) []prog.Fact {
	r := prog.Eval(prog.Program{Facts: g.Extra}, nil, prog.Options{})
	var fs []prog.Fact
	for _, k := range r.Model.Keys() {
		fs = append(fs, r.Model[k])
	}
	return fs
}

func check(run *stats.Run, f stats.Failer, c Case) verdict {
	var v verdict
	text := c.Gen.Prog.Source()
	extra := extraFacts(c.Gen)
	L := c.Limit
	R := len(c.Gen.Prog.Rules)
	// Bound on created facts, derived from the engine's checks (DESIGN §3 C17); deliberately loose.
	B := 2*(len(extra)+len(c.Gen.Prog.Facts)+(2*R+2)*(L+1)) + 16

	var out prog.Outcome
	prog.Analyze(text, &out, nil)
	switch {
	case out.ParseErr != nil:
		run.Failf(f, "own printer produced text the parser rejects: %v\n%s", out.ParseErr, text)
	case out.Panic != "":
		run.Failf(f, "%s panicked: %s\n%s", out.PanicStage, out.Panic, text)
	case out.AnalysisErr != nil:
		v.labels = append(v.labels, "rejected")
		return v
	}
	storeKind := c.Store
	if prog.HashKeyed(storeKind) && stats.Exclusion("K08-hash-colliders") && (c.Shape == "diverge-list" || c.Shape == "diverge-pair") {
		// lists that differ only after position 7 have equal hashes: a hash-keyed store stops growing (K08).
		storeKind = "multiindexedarray"
		run.Excluded("K08-hash-colliders")
	}
	if prog.HashKeyed(storeKind) && stats.Exclusion("K08-hash-colliders") && !strings.HasPrefix(c.Shape, "diverge-") {
		// same exclusion as C01: a model with two same-predicate atoms of equal Atom.Hash() runs on the array store
		pre := prog.Eval(c.Gen.Prog, extra, prog.Options{MaxFacts: len(extra) + len(c.Gen.Prog.Facts) + B + 1, MaxSteps: 3000000})
		seen := map[string]map[uint64]bool{}
		for _, fact := range pre.Model {
			m := seen[fact.Pred]
			if m == nil {
				m = map[uint64]bool{}
				seen[fact.Pred] = m
			}
			h := fact.ToAtom().Hash()
			if m[h] {
				storeKind = "multiindexedarray"
				run.Excluded("K08-hash-colliders")
				break
			}
			m[h] = true
		}
		if usesCollect(c.Gen.Prog) && prog.HashKeyed(storeKind) {
			storeKind = "multiindexedarray" // the hash of a collected list depends on its run-dependent order
			run.Excluded("K08-hash-colliders")
		}
	}
	var atoms []ast.Atom
	for _, fact := range extra {
		atoms = append(atoms, fact.ToAtom())
	}
	inner := prog.NewLoadedStore(storeKind, atoms)
	created := 0
	store := countingStore{FactStore: inner, created: &created, bound: B}
	var evalErr error
	var over *overrun
	panicked := ""
	func() {
		defer func() {
			if r := recover(); r != nil {
				if o, ok := r.(overrun); ok {
					over = &o
					return
				}
				panicked = fmt.Sprint(r)
			}
		}()
		opts := []engine.EvalOption{engine.WithCreatedFactLimit(L)}
		if c.WithTemporal {
			opts = append(opts, engine.WithTemporalStore(countingTemporal{TemporalFactStore: factstore.NewTemporalStore(), created: &created, bound: B}))
		}
		evalErr = engine.EvalProgram(out.Info, store, permuteOpts(opts, c.OptOrder)...)
	}()
	if panicked != "" {
		run.Failf(f, "evaluation under a fact limit panicked: %s\nlimit %d\n%s", panicked, L, text)
	}
	if over != nil {
		run.Failf(f, "limit %d not enforced: %d facts created, more than the bound %d = 2*(N0 %d + F %d + (2*R %d + 2)*(L+1)) + 16; evaluation aborted by the harness\nprogram:\n%spre-loaded: %s",
			L, over.created, B, len(extra), len(c.Gen.Prog.Facts), R, text, atomsText(c.Gen.Extra))
	}
	var ref prog.Result
	diverges := strings.HasPrefix(c.Shape, "diverge-")
	if !diverges {
		// The engine cannot create more than B facts without being stopped by the wrapper, so a model
		// with more than N0 + F + B facts cannot have been completed: that is the reference cap.
		// (The diverge-* shapes have an infinite model by construction; the reference is not run on them.)
		ref = prog.Eval(c.Gen.Prog, extra, prog.Options{MaxFacts: len(extra) + len(c.Gen.Prog.Facts) + B + 1, MaxSteps: 3000000})
		if ref.Err != nil || ref.Unsafe != "" || ref.Unstratifiable {
			run.Inconclusive()
			v.labels = append(v.labels, "ref-no-verdict")
			return v
		}
		if ref.Capped && !ref.CappedByFacts {
			run.Inconclusive()
			v.labels = append(v.labels, "ref-step-cap")
			return v
		}
		diverges = ref.CappedByFacts
	}
	modelSize := len(ref.Model)
	if evalErr == nil {
		if diverges {
			run.Failf(f, "evaluation returned without error under limit %d although the model is infinite or larger than anything the limit allows (store holds %d facts, %d created): a truncated model was returned silently\nprogram:\n%spre-loaded: %s",
				L, inner.EstimateFactCount(), created, text, atomsText(c.Gen.Extra))
		}
		var o prog.Outcome
		prog.ReadStore(inner, &o)
		missing, extraGot := prog.DiffListsAsSets(ref.Model, o.Facts, func(p string) bool { return strings.HasPrefix(p, "s") })
		if len(missing) > 0 || len(extraGot) > 0 {
			run.Failf(f, "evaluation returned without error under limit %d but the store is not the complete model.\nmissing: %v\nextra: %v\nprogram:\n%spre-loaded: %s",
				L, missing, extraGot, text, atomsText(c.Gen.Extra))
		}
		v.labels = append(v.labels, "completed")
	} else {
		v.labels = append(v.labels, "stopped-with-error")
	}
	derived := modelSize - len(extra) - len(c.Gen.Prog.Facts)
	if diverges {
		v.labels = append(v.labels, "diverging")
	} else if derived > L {
		v.labels = append(v.labels, "model>limit")
		if evalErr == nil {
			v.labels = append(v.labels, "model>limit-yet-completed")
		}
	} else {
		v.labels = append(v.labels, "model<=limit")
	}
	v.labels = append(v.labels, "shape:"+c.Shape, "store:"+storeKind)
	if c.WithTemporal {
		v.labels = append(v.labels, "with-temporal-store")
	}
	v.nontrivial = diverges || derived > 0
	return v
}

func usesCollect(p prog.Program) bool {
	for _, r := range p.Rules {
		if r.Do != nil {
			for _, l := range r.Do.Lets {
				if l.Fn.Fn == "fn:collect_distinct" {
					return true
				}
			}
		}
	}
	return false
}

func atomsText(as []prog.Atom) string {
	var parts []string
	for _, a := range as {
		parts = append(parts, a.Source())
	}
	return strings.Join(parts, ". ")
}

func (c Case) hash() uint64 {
	b, _ := json.Marshal(c.Gen)
	return stats.Hash(string(b), c.Store, fmt.Sprint(c.Limit))
}

func v(name string) prog.Term { return prog.Var(name) }

// divergent draws a program whose least model is infinite, or finite but large.
func divergent(t *rapid.T) (prog.Generated, string) {
	var g prog.Generated
	g.Prog.Decls = []prog.Decl{{Pred: "e0", Arity: 1}}
	n := rapid.IntRange(1, 4).Draw(t, "seeds")
	for i := 0; i < n; i++ {
		a := prog.Atom{Pred: "e0", Args: []prog.Term{prog.Num(int64(i + 1))}}
		if rapid.Bool().Draw(t, "inText") {
			g.Prog.Facts = append(g.Prog.Facts, a)
		} else {
			g.Extra = append(g.Extra, a)
		}
	}
	base := prog.Rule{Head: prog.Atom{Pred: "i0", Args: []prog.Term{v("X")}}, Body: []prog.Lit{prog.PosLit(prog.Atom{Pred: "e0", Args: []prog.Term{v("X")}})}}
	shape := rapid.SampledFrom([]string{"diverge-plus", "diverge-mult", "diverge-mutual", "diverge-let", "diverge-list", "diverge-pair", "finite-counter", "finite-product", "diverge-late-stratum", "finite-groups", "finite-groups", "finite-member-fanout", "finite-repeated-var"}).Draw(t, "shape")
	step := func(head, body string, fn string, k int64) prog.Rule {
		return prog.Rule{Head: prog.Atom{Pred: head, Args: []prog.Term{v("Y")}},
			Body: []prog.Lit{prog.PosLit(prog.Atom{Pred: body, Args: []prog.Term{v("X")}}), prog.EqLit(v("Y"), prog.Fn(fn, v("X"), prog.Num(k)))}}
	}
	switch shape {
	case "diverge-plus":
		g.Prog.Rules = []prog.Rule{base, step("i0", "i0", "fn:plus", rapid.Int64Range(1, 3).Draw(t, "k"))}
	case "diverge-mult":
		base.Body = append(base.Body, prog.CmpLit(">", v("X"), prog.Num(0)))
		g.Prog.Rules = []prog.Rule{base, step("i0", "i0", "fn:mult", 2), step("i0", "i0", "fn:plus", 1)}
	case "diverge-mutual":
		g.Prog.Rules = []prog.Rule{base, step("i1", "i0", "fn:plus", 1), step("i0", "i1", "fn:plus", 1)}
	case "diverge-let":
		r := prog.Rule{Head: prog.Atom{Pred: "i0", Args: []prog.Term{v("Y")}}, Body: []prog.Lit{prog.PosLit(prog.Atom{Pred: "i0", Args: []prog.Term{v("X")}})},
			Let: []prog.LetStmt{{Var: "Y", Fn: prog.Fn("fn:plus", v("X"), prog.Num(1))}}}
		g.Prog.Rules = []prog.Rule{base, r}
	case "diverge-list":
		b := base
		b.Head = prog.Atom{Pred: "i0", Args: []prog.Term{prog.Const(val.L())}}
		r := prog.Rule{Head: prog.Atom{Pred: "i0", Args: []prog.Term{v("M")}}, Body: []prog.Lit{prog.PosLit(prog.Atom{Pred: "i0", Args: []prog.Term{v("L")}}),
			prog.EqLit(v("M"), prog.Fn("fn:list:cons", prog.Num(1), v("L")))}}
		g.Prog.Rules = []prog.Rule{b, r}
	case "diverge-pair":
		r := prog.Rule{Head: prog.Atom{Pred: "i0", Args: []prog.Term{v("M")}}, Body: []prog.Lit{prog.PosLit(prog.Atom{Pred: "i0", Args: []prog.Term{v("L")}}),
			prog.EqLit(v("M"), prog.Fn("fn:pair", v("L"), v("L")))}}
		g.Prog.Rules = []prog.Rule{base, r}
	case "finite-counter":
		k := rapid.Int64Range(3, 40).Draw(t, "upto")
		r := step("i0", "i0", "fn:plus", 1)
		r.Body = append(r.Body, prog.CmpLit("<", v("X"), prog.Num(k)))
		g.Prog.Rules = []prog.Rule{base, r}
	case "finite-product":
		r := prog.Rule{Head: prog.Atom{Pred: "i1", Args: []prog.Term{v("X"), v("Y")}}, Body: []prog.Lit{prog.PosLit(prog.Atom{Pred: "i0", Args: []prog.Term{v("X")}}), prog.PosLit(prog.Atom{Pred: "i0", Args: []prog.Term{v("Y")}})}}
		c := step("i0", "i0", "fn:plus", 1)
		c.Body = append(c.Body, prog.CmpLit("<", v("X"), prog.Num(rapid.Int64Range(2, 9).Draw(t, "side"))))
		g.Prog.Rules = []prog.Rule{base, c, r}
	case "finite-groups":
		// an aggregation with many groups: more results than a small limit allows
		m := rapid.IntRange(3, 30).Draw(t, "groups")
		g.Prog.Decls = append(g.Prog.Decls, prog.Decl{Pred: "e1", Arity: 2})
		for k := 0; k < m; k++ {
			reps := rapid.IntRange(1, 2).Draw(t, "reps")
			for j := 0; j < reps; j++ {
				g.Extra = append(g.Extra, prog.Atom{Pred: "e1", Args: []prog.Term{prog.Num(int64(k)), prog.Num(int64(j))}})
			}
		}
		agg := prog.Rule{Head: prog.Atom{Pred: "s0", Args: []prog.Term{v("K"), v("N")}},
			Body: []prog.Lit{prog.PosLit(prog.Atom{Pred: "e1", Args: []prog.Term{v("K"), v("V")}})},
			Do:   &prog.Do{Keys: []string{"K"}, Lets: []prog.LetStmt{{Var: "N", Fn: prog.Fn(rapid.SampledFrom([]string{"fn:count", "fn:sum", "fn:max"}).Draw(t, "red"))}}}}
		if agg.Do.Lets[0].Fn.Fn != "fn:count" {
			agg.Do.Lets[0].Fn.Args = []prog.Term{v("V")}
		}
		if rapid.Bool().Draw(t, "multiAtom") {
			agg.Body = append(agg.Body, prog.PosLit(prog.Atom{Pred: "e0", Args: []prog.Term{v("Z")}}))
		}
		g.Prog.Rules = []prog.Rule{base, agg}
		if rapid.Bool().Draw(t, "consumer") {
			g.Prog.Rules = append(g.Prog.Rules, prog.Rule{Head: prog.Atom{Pred: "i1", Args: []prog.Term{v("K")}}, Body: []prog.Lit{prog.PosLit(prog.Atom{Pred: "s0", Args: []prog.Term{v("K"), v("N")}})}})
		}
	case "finite-member-fanout":
		// a finite but large model produced inside ONE rule evaluation by a built-in that fans out: every element
		// of a list held in a base fact, squared or cubed; the number of created facts must not depend on the
		// length of the list beyond what the limit allows
		n := rapid.IntRange(4, 14).Draw(t, "listLen")
		lst := val.V{T: val.List}
		for i := 0; i < n; i++ {
			lst.E = append(lst.E, val.I(int64(i)))
		}
		g.Prog.Decls = append(g.Prog.Decls, prog.Decl{Pred: "l0", Arity: 1})
		g.Extra = append(g.Extra, prog.Atom{Pred: "l0", Args: []prog.Term{prog.Const(lst)}})
		vars := []string{"X", "Y", "Z"}[:rapid.IntRange(2, 3).Draw(t, "fan")]
		r := prog.Rule{Head: prog.Atom{Pred: "i1", Args: []prog.Term{}}, Body: []prog.Lit{prog.PosLit(prog.Atom{Pred: "l0", Args: []prog.Term{v("L")}})}}
		for _, x := range vars {
			r.Head.Args = append(r.Head.Args, v(x))
			r.Body = append(r.Body, prog.PosLit(prog.Atom{Pred: ":list:member", Args: []prog.Term{v(x), v("L")}}))
		}
		g.Prog.Rules = []prog.Rule{base, r}
	case "finite-repeated-var":
		// a small model read out of a relation that is larger than the limit through a premise the store cannot
		// filter by itself (one variable in two positions): e1 holds 4-30 pairs, 1-3 of them (at drawn places)
		// with equal components; the limit is about created facts, not about facts looked at
		m := rapid.IntRange(4, 30).Draw(t, "pairs")
		diag := map[int]bool{}
		for _, k := range rapid.SliceOfNDistinct(rapid.IntRange(0, m-1), 1, 3, rapid.ID[int]).Draw(t, "diagonal") {
			diag[k] = true
		}
		g.Prog.Decls = append(g.Prog.Decls, prog.Decl{Pred: "e1", Arity: 2})
		inText := rapid.Bool().Draw(t, "pairsInText")
		for k := 0; k < m; k++ {
			a := prog.Atom{Pred: "e1", Args: []prog.Term{prog.Num(int64(k)), prog.Num(int64(k + 1))}}
			if diag[k] {
				a.Args[1] = prog.Num(int64(k))
			}
			if inText {
				g.Prog.Facts = append(g.Prog.Facts, a)
			} else {
				g.Extra = append(g.Extra, a)
			}
		}
		r := prog.Rule{Head: prog.Atom{Pred: "i1", Args: []prog.Term{v("X")}}, Body: []prog.Lit{prog.PosLit(prog.Atom{Pred: "e1", Args: []prog.Term{v("X"), v("X")}})}}
		g.Prog.Rules = []prog.Rule{r}
		if rapid.Bool().Draw(t, "withBase") {
			g.Prog.Rules = []prog.Rule{base, r}
		}
	case "diverge-late-stratum":
		// a finite first stratum, divergence only in a later one (after a negation)
		neg := prog.Rule{Head: prog.Atom{Pred: "i1", Args: []prog.Term{v("X")}}, Body: []prog.Lit{prog.PosLit(prog.Atom{Pred: "i0", Args: []prog.Term{v("X")}}), prog.NegLit(prog.Atom{Pred: "e0", Args: []prog.Term{prog.Num(99)}})}}
		g.Prog.Rules = []prog.Rule{base, neg, step("i1", "i1", "fn:plus", 1)}
	}
	return g, shape
}

func genCase(t *rapid.T) Case {
	var c Case
	if k := rapid.IntRange(0, 9).Draw(t, "ordinary"); k < 3 {
		c.Gen = prog.Gen(prog.AllFeatures).Draw(t, "prog")
		c.Shape = "ordinary"
	} else if k == 3 {
		c.Gen = prog.GenAgg().Draw(t, "aggProg")
		c.Shape = "ordinary-agg"
	} else {
		c.Gen, c.Shape = divergent(t)
	}
	c.Store = rapid.SampledFrom(prog.StoreKinds).Draw(t, "store")
	c.WithTemporal = rapid.IntRange(0, 2).Draw(t, "withTemporal") == 0
	c.OptOrder = rapid.IntRange(0, 1).Draw(t, "optOrder")
	c.Limit = rapid.SampledFrom([]int{1, 1, 2, 3, 5, 8, 13, 21}).Draw(t, "limit")
	c.Text = c.Gen.Prog.Source()
	return c
}

func TestC17(t *testing.T) {
	run := stats.Begin("C17", "TestC17")
	defer run.Finish(t)
	rapid.Check(t, func(rt *rapid.T) {
		c := genCase(rt)
		run.Current(c)
		vd := check(run, rt, c)
		run.Case(vd.nontrivial, c.hash(), vd.labels...)
		if vd.nontrivial {
			run.Sample(c.Shape, map[string]any{"text": c.Text, "preloaded": atomsText(c.Gen.Extra), "store": c.Store, "limit": c.Limit})
		}
	})
}

func TestReplay(t *testing.T) {
	run := stats.Begin("C17", "TestReplay")
	if stats.ReplayTest() == "TestC17_Temporal" {
		var tc TCase
		if stats.LoadReplay(t, &tc) {
			checkTemporal(run, t, tc)
		}
		return
	}
	if stats.ReplayTest() == "TestC17_External" {
		var xc XCase
		if stats.LoadReplay(t, &xc) {
			checkExternal(run, t, xc)
		}
		return
	}
	if stats.ReplayTest() == "TestC17_Merge" {
		var mc MCase
		if stats.LoadReplay(t, &mc) {
			checkMerge(run, t, mc)
		}
		return
	}
	var c Case
	if !stats.LoadReplay(t, &c) {
		return
	}
	check(run, t, c)
}
