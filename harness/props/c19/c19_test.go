// Package c19 checks property C19: a fact store saved in the simple-column format - plain, gzip or
// zstd, deterministic or not - reloads to exactly the same set of facts, eagerly (ReadInto) and
// through the lazy file-backed view (SimpleColumnStore) under arbitrary pattern queries; with the
// deterministic option the bytes written depend only on the set of facts.
//
// Oracle: the case itself is the model (a list of predicates with their facts as val.V trees).
// Everything read back is compared as a set of canonical keys (val.AtomKey), never with the
// library's Hash/Equals/String.
package c19

import (
	"bytes"
	"compress/gzip"
	"encoding/json"
	"fmt"
	"io"
	"math"
	"runtime/debug"
	"sort"
	"strings"
	"testing"
	"time"

	"codeberg.org/TauCeti/mangle-go/ast"
	"codeberg.org/TauCeti/mangle-go/factstore"
	"github.com/klauspost/compress/zstd"
	"pgregory.net/rapid"
	"verif/stats"
	"verif/val"
)

// exclK08 is the named exclusion of known finding K08 (hash-keyed stores conflate atoms with equal
// Atom.Hash()). While it is active, a case whose fact set holds two same-predicate atoms with equal
// hash is redirected to the collision-safe MultiIndexedArrayInMemoryStore, so that C19 judges the
// file format and not the store.
const exclK08 = "K08-hash-colliders"

// Store kinds.
const (
	kSimple     = "simple"     // SimpleInMemoryStore
	kIndexed    = "indexed"    // IndexedInMemoryStore
	kMulti      = "multi"      // MultiIndexedInMemoryStore
	kArray      = "array"      // MultiIndexedArrayInMemoryStore (collision-safe)
	kConcurrent = "concurrent" // ConcurrentFactStore(SimpleInMemoryStore)
	kMerged     = "merged"     // MergedStore(read layer: array store with every other fact; write layer: indexed)
	kLazy       = "lazy"       // source only: a SimpleColumnStore over a file written before (re-save)
	kRecorder   = "recorder"   // target only: own FactStore that records every Add
)

var srcKinds = []string{kArray, kSimple, kIndexed, kMulti, kConcurrent, kMerged, kLazy}
var dstKinds = []string{kRecorder, kArray, kSimple, kIndexed, kMulti, kConcurrent}

// Pred is one predicate of the store with its facts.
type Pred struct {
	Sym   string    `json:"sym"`
	Arity int       `json:"arity"`
	Facts [][]val.V `json:"facts,omitempty"` // pairwise distinct (by key), each of length Arity
	// Ghost (only when Facts is empty and Arity > 0): a fact that is added and removed again, which
	// leaves the predicate listed in the stores that keep an emptied shard.
	Ghost []val.V `json:"ghost,omitempty"`
}

// Query is a pattern for the lazy view: Pred indexes Case.Preds (-1: a predicate the store does not
// have); Args[i] == nil is a variable (all variables of a query are distinct).
type Query struct {
	Pred int      `json:"pred"`
	Args []*val.V `json:"args,omitempty"`
}

// Probe is a ground atom for SimpleColumnStore.Contains.
type Probe struct {
	Pred int     `json:"pred"`
	Args []val.V `json:"args,omitempty"`
}

// Case is the replay format.
type Case struct {
	Preds    []Pred  `json:"preds"`
	Comp     string  `json:"comp"` // plain | gzip | zstd
	Det      bool    `json:"det"`  // SimpleColumn.Deterministic
	Src      string  `json:"src"`  // source store kind
	Src2     string  `json:"src2"` // kind of the second store of the byte comparison (deterministic only)
	Dst      string  `json:"dst"`  // target store kind of ReadInto
	Shuffle1 []int   `json:"shuffle1,omitempty"`
	Shuffle2 []int   `json:"shuffle2,omitempty"`
	Queries  []Query `json:"queries,omitempty"`
	Probes   []Probe `json:"probes,omitempty"`
	// Long > 0 adds the predicate long_value/1 with the single fact long_value("xxx…x") whose string
	// has Long characters (kept out of Preds so that replay files and samples stay small).
	Long int `json:"long,omitempty"`
	// Bulk > 0 adds the predicate bulk_fact/2 with the Bulk facts bulk_fact(i, "row-<i>-…") (many
	// short lines instead of one long line; also kept out of Preds).
	Bulk int `json:"bulk,omitempty"`
	// Zstd (only with Comp == "zstd"): the plain bytes WriteTo produced are compressed by an encoder
	// configured in another way than the default one.
	Zstd *ZstdOpts `json:"zstd,omitempty"`
}

// ZstdOpts configures the zstd encoder of a case ("written ... zstd" quantifies over every valid
// zstd stream that holds the file, not only over the default settings of one encoder).
type ZstdOpts struct {
	WindowLog  int  `json:"window_log"`            // window size 1 << WindowLog (10..27)
	Level      int  `json:"level"`                 // 1 fastest, 2 default, 3 better, 4 best
	Stream     bool `json:"stream,omitempty"`      // streaming Writer (else one EncodeAll call)
	Single     int  `json:"single,omitempty"`      // EncodeAll: 0 encoder's choice, 1 single segment, 2 not
	ZeroFrames bool `json:"zero_frames,omitempty"` // WithZeroFrames
	NoCRC      bool `json:"no_crc,omitempty"`      // no content checksum
	Chunk      int  `json:"chunk,omitempty"`       // Stream: size of the Write calls (0: one call)
}

const (
	longSym = "long_value"
	bulkSym = "bulk_fact"
)

func bulkFact(i int) []val.V {
	return []val.V{val.I(int64(i)), val.S(fmt.Sprintf("row-%d-%s", i, strings.Repeat("abcdefghij", 14+i%7)))}
}

// expanded returns the case with the long_value predicate spelled out.
func (c Case) expanded() Case {
	if c.Long <= 0 && c.Bulk <= 0 {
		return c
	}
	e := c
	e.Preds = append([]Pred{}, c.Preds...)
	if c.Long > 0 {
		e.Preds = append(e.Preds, Pred{Sym: longSym, Arity: 1, Facts: [][]val.V{{val.S(strings.Repeat("x", c.Long))}}})
	}
	if c.Bulk > 0 {
		p := Pred{Sym: bulkSym, Arity: 2}
		for i := 0; i < c.Bulk; i++ {
			p.Facts = append(p.Facts, bulkFact(i))
		}
		e.Preds = append(e.Preds, p)
	}
	return e
}

func (c Case) hash() uint64 {
	b, _ := json.Marshal(c)
	return stats.Hash(string(b))
}

func (p Pred) sym() ast.PredicateSym { return ast.PredicateSym{Symbol: p.Sym, Arity: p.Arity} }

func buildAtom(p ast.PredicateSym, args []val.V) ast.Atom {
	var bs []ast.BaseTerm
	for _, a := range args {
		bs = append(bs, a.Build())
	}
	return ast.Atom{Predicate: p, Args: bs}
}

// modelKey is the canonical key of a fact of the model; it equals val.AtomKey of the built atom.
func modelKey(p Pred, args []val.V) string {
	return val.AtomKey(buildAtom(p.sym(), args))
}

// ---------------------------------------------------------------------------------------------
// Own stores.

// listing lists exactly the given predicates and delegates everything else. It stands for any
// ReadOnlyFactStore that knows a predicate without holding a fact of it (WriteTo uses only
// ListPredicates and GetFacts). ListPredicates returns a fresh slice on every call.
type listing struct {
	factstore.ReadOnlyFactStore
	preds []ast.PredicateSym
}

func (l listing) ListPredicates() []ast.PredicateSym {
	return append([]ast.PredicateSym(nil), l.preds...)
}

// recorder is a FactStore that only records what is added.
type recorder struct {
	atoms []ast.Atom
}

func (r *recorder) Add(a ast.Atom) bool { r.atoms = append(r.atoms, a); return true }
func (r *recorder) GetFacts(q ast.Atom, cb func(ast.Atom) error) error {
	return fmt.Errorf("recorder: GetFacts not supported")
}
func (r *recorder) Contains(ast.Atom) bool                  { return false }
func (r *recorder) ListPredicates() []ast.PredicateSym      { return nil }
func (r *recorder) EstimateFactCount() int                  { return len(r.atoms) }
func (r *recorder) Merge(other factstore.ReadOnlyFactStore) {}

func newStore(kind string) factstore.FactStoreWithRemove {
	switch kind {
	case kSimple:
		return factstore.NewSimpleInMemoryStore()
	case kIndexed:
		return factstore.NewIndexedInMemoryStore()
	case kMulti:
		return factstore.NewMultiIndexedInMemoryStore()
	case kConcurrent:
		return factstore.NewConcurrentFactStore(factstore.NewSimpleInMemoryStore())
	default:
		return factstore.NewMultiIndexedArrayInMemoryStore()
	}
}

type op struct {
	atom  ast.Atom
	ghost bool
}

func shuffle(ops []op, sh []int) {
	for i := len(ops) - 1; i > 0; i-- {
		j := i
		if k := len(ops) - 1 - i; k < len(sh) && sh[k] >= 0 {
			j = sh[k] % (i + 1)
		}
		ops[i], ops[j] = ops[j], ops[i]
	}
}

// buildStore fills a store of the given kind with the facts of the case in the order given by sh and
// makes sure that it lists every predicate of the case (through the listing wrapper if the store
// itself does not list some empty predicate). safe redirects every hash-keyed kind to the array store.
func buildStore(c Case, kind string, sh []int, safe bool) (factstore.ReadOnlyFactStore, error) {
	var ops []op
	for _, p := range c.Preds {
		for _, f := range p.Facts {
			ops = append(ops, op{atom: buildAtom(p.sym(), f)})
		}
		if len(p.Facts) == 0 && p.Arity > 0 && len(p.Ghost) == p.Arity {
			ops = append(ops, op{atom: buildAtom(p.sym(), p.Ghost), ghost: true})
		}
	}
	shuffle(ops, sh)
	lazy := kind == kLazy
	if lazy {
		kind = kArray
	}
	var store factstore.FactStore
	var write factstore.FactStoreWithRemove
	if kind == kMerged {
		wk := kIndexed
		if safe {
			wk = kArray
		}
		read := factstore.NewMultiIndexedArrayInMemoryStore()
		write = newStore(wk)
		n := 0
		for _, o := range ops {
			if !o.ghost {
				if n%2 == 0 {
					read.Add(o.atom)
				}
				n++
			}
		}
		store = factstore.NewMergedStore([]factstore.ReadOnlyFactStore{read}, write)
	} else {
		if safe {
			kind = kArray
		}
		write = newStore(kind)
		store = write
	}
	for _, o := range ops {
		store.Add(o.atom)
		if o.ghost {
			write.Remove(o.atom)
		}
	}
	var res factstore.ReadOnlyFactStore = store
	listed := map[ast.PredicateSym]bool{}
	for _, p := range store.ListPredicates() {
		listed[p] = true
	}
	var all []ast.PredicateSym
	missing := false
	for _, p := range c.Preds {
		all = append(all, p.sym())
		if !listed[p.sym()] {
			missing = true
		}
	}
	if missing || lazy {
		// (The file behind a lazy source store is always written from this listing, so that its
		// header order is a function of the case and not of Go's map order.)
		// Order of the listing: the case's order rotated by the first shuffle value, so that the
		// two stores of the byte comparison list in different orders.
		if len(sh) > 0 && sh[0] > 0 && len(all) > 0 {
			k := sh[0] % len(all)
			all = append(all[k:], all[:k]...)
		}
		res = listing{store, all}
	}
	if lazy {
		var buf bytes.Buffer
		if err := (factstore.SimpleColumn{}).WriteTo(res, &buf); err != nil {
			return nil, fmt.Errorf("writing the file behind the lazy source store: %v", err)
		}
		ls, err := factstore.NewSimpleColumnStoreFromBytes(buf.Bytes())
		if err != nil {
			return nil, fmt.Errorf("opening the file behind the lazy source store: %v\n%s", err, buf.String())
		}
		return ls, nil
	}
	return res, nil
}

// zstdLevels maps ZstdOpts.Level to the encoder level.
var zstdLevels = map[int]zstd.EncoderLevel{1: zstd.SpeedFastest, 2: zstd.SpeedDefault, 3: zstd.SpeedBetterCompression, 4: zstd.SpeedBestCompression}

// compressZstd compresses the plain bytes of a file with an encoder configured by zo.
func compressZstd(plain []byte, zo ZstdOpts) ([]byte, error) {
	level, ok := zstdLevels[zo.Level]
	if !ok || zo.WindowLog < 10 || zo.WindowLog > 29 {
		return nil, fmt.Errorf("malformed zstd options %+v", zo)
	}
	opts := []zstd.EOption{zstd.WithEncoderConcurrency(1), zstd.WithLowerEncoderMem(true), zstd.WithEncoderLevel(level), zstd.WithWindowSize(1 << zo.WindowLog),
		zstd.WithZeroFrames(zo.ZeroFrames), zstd.WithEncoderCRC(!zo.NoCRC)}
	if zo.Single > 0 {
		opts = append(opts, zstd.WithSingleSegment(zo.Single == 1))
	}
	if !zo.Stream {
		enc, err := zstd.NewWriter(nil, opts...)
		if err != nil {
			return nil, err
		}
		defer enc.Close()
		return enc.EncodeAll(plain, nil), nil
	}
	var out bytes.Buffer
	zw, err := zstd.NewWriter(&out, opts...)
	if err != nil {
		return nil, err
	}
	for rest := plain; len(rest) > 0; {
		n := len(rest)
		if zo.Chunk > 0 && zo.Chunk < n {
			n = zo.Chunk
		}
		if _, err := zw.Write(rest[:n]); err != nil {
			return nil, err
		}
		rest = rest[n:]
	}
	if err := zw.Close(); err != nil {
		return nil, err
	}
	return out.Bytes(), nil
}

// write saves the store; it returns the (possibly compressed) file and the plain bytes WriteTo
// produced. With zo (zstd only) the plain bytes are compressed afterwards by the configured encoder.
func write(store factstore.ReadOnlyFactStore, comp string, det bool, zo *ZstdOpts) (file, plain []byte, err error) {
	var out, raw bytes.Buffer
	var w io.Writer = &out
	var closer io.Closer
	switch comp {
	case "gzip":
		gz := gzip.NewWriter(&out)
		w, closer = gz, gz
	case "zstd":
		if zo != nil {
			w = io.Discard
			break
		}
		zw, err := zstd.NewWriter(&out, zstd.WithEncoderConcurrency(1), zstd.WithLowerEncoderMem(true), zstd.WithEncoderLevel(zstd.SpeedFastest), zstd.WithWindowSize(1<<16))
		if err != nil {
			return nil, nil, err
		}
		w, closer = zw, zw
	}
	if err := (factstore.SimpleColumn{Deterministic: det}).WriteTo(store, io.MultiWriter(w, &raw)); err != nil {
		return nil, nil, err
	}
	if closer != nil {
		if err := closer.Close(); err != nil {
			return nil, nil, err
		}
	}
	if comp == "zstd" && zo != nil {
		file, err := compressZstd(raw.Bytes(), *zo)
		if err != nil {
			return nil, nil, fmt.Errorf("harness: zstd encoder: %v", err)
		}
		return file, raw.Bytes(), nil
	}
	return out.Bytes(), raw.Bytes(), nil
}

func reader(file []byte, comp string) (io.Reader, func(), error) {
	switch comp {
	case "gzip":
		r, err := gzip.NewReader(bytes.NewReader(file))
		if err != nil {
			return nil, nil, err
		}
		return r, func() { r.Close() }, nil
	case "zstd":
		r, err := zstd.NewReader(bytes.NewReader(file))
		if err != nil {
			return nil, nil, err
		}
		return r, r.Close, nil
	}
	return bytes.NewReader(file), func() {}, nil
}

func openLazy(file []byte, comp string) (*factstore.SimpleColumnStore, error) {
	switch comp {
	case "gzip":
		return factstore.NewSimpleColumnStoreFromGzipBytes(file)
	case "zstd":
		return factstore.NewSimpleColumnStoreFromZstdBytes(file)
	}
	return factstore.NewSimpleColumnStoreFromBytes(file)
}

// ---------------------------------------------------------------------------------------------
// The oracle.

type verdict struct {
	nontrivial bool
	labels     []string
}

func sortedKeys(m map[string]bool) []string {
	ks := make([]string, 0, len(m))
	for k := range m {
		ks = append(ks, k)
	}
	sort.Strings(ks)
	return ks
}

// diff describes the difference of two key sets (sorted, so the message is deterministic).
func diff(want, got map[string]bool) string {
	var missing, extra []string
	for _, k := range sortedKeys(want) {
		if !got[k] {
			missing = append(missing, k)
		}
	}
	for _, k := range sortedKeys(got) {
		if !want[k] {
			extra = append(extra, k)
		}
	}
	if len(missing) == 0 && len(extra) == 0 {
		return ""
	}
	return fmt.Sprintf("missing %q, unexpected %q", missing, extra)
}

// errClass is the stable head of a reader error ("parsing failed", "unescape failed", ...).
func errClass(err error) string {
	if i := strings.Index(err.Error(), " pred "); i > 0 {
		return " (" + err.Error()[:i] + ")"
	}
	return ""
}

func show(plain []byte) string {
	s := string(plain)
	if len(s) > 1500 {
		s = s[:1500] + "…"
	}
	return s
}

// needsEscape tells whether the printed form of v needs an escape of the line format or of the
// string syntax: '%' in a name, a string/byte string with a character outside printable ASCII or a
// quote/backslash.
func needsEscape(v val.V) bool {
	switch v.T {
	case val.Name:
		return strings.Contains(v.S, "%")
	case val.Str:
		for _, r := range v.S {
			if r < 0x20 || r >= 0x7f || r == '"' || r == '\\' {
				return true
			}
		}
	case val.Bytes:
		for _, b := range v.RawBytes() {
			if b < 0x20 || b >= 0x7f || b == '"' || b == '\\' {
				return true
			}
		}
	}
	for _, e := range v.E {
		if needsEscape(e) {
			return true
		}
	}
	for _, kv := range v.KV {
		if needsEscape(kv[0]) || needsEscape(kv[1]) {
			return true
		}
	}
	return false
}

// isExtreme tells whether a scalar lies at the boundary of its kind's value range: a time or
// duration in the outermost year of the int64 range, a number within 4 of an end of it, a float that
// is subnormal or within 16 binades of the largest/smallest normal magnitude.
func isExtreme(x val.V) bool {
	switch x.T {
	case val.Num:
		n := x.Int()
		return n < math.MinInt64+4 || n > math.MaxInt64-4
	case val.Time, val.Dur:
		n := x.Int()
		return n < math.MinInt64+year || n > math.MaxInt64-year
	case val.Float:
		a := math.Abs(x.Flt())
		return a != 0 && (a >= 0x1p1007 || a < 0x1p-1006)
	}
	return false
}

func walk(v val.V, f func(val.V)) {
	f(v)
	for _, e := range v.E {
		walk(e, f)
	}
	for _, kv := range v.KV {
		walk(kv[0], f)
		walk(kv[1], f)
	}
}

func check(run *stats.Run, f stats.Failer, c Case) (v verdict) {
	// A panic of the code under test is a violation; the panic by which rapid's Fatalf unwinds is not.
	failing := false
	defer func() {
		if p := recover(); p != nil {
			if failing {
				panic(p)
			}
			f.Logf("panic: %v", p)
			run.Failf(f, "panic while saving/reloading the store")
		}
	}()
	// The verdict text is a fixed category (rapid shrinks only while the message stays the same);
	// the details of the concrete case go to the log.
	fail := func(category, format string, args ...any) {
		failing = true
		f.Logf("%s: "+format, append([]any{category}, args...)...)
		run.Failf(f, "%s", category)
	}
	long := c.Long > 0
	c = c.expanded()
	// ---- the model -----------------------------------------------------------------------
	model := map[string]bool{}
	perPred := make([]map[string][]val.V, len(c.Preds))
	seenSym := map[ast.PredicateSym]bool{}
	symArities := map[string]int{}
	labels := map[string]bool{}
	hasZero, hasEmpty, escape := false, false, false
	collide := false
	total := 0
	for i, p := range c.Preds {
		if seenSym[p.sym()] {
			fail("malformed case", "predicate %v twice", p.sym())
		}
		seenSym[p.sym()] = true
		symArities[p.Sym]++
		perPred[i] = map[string][]val.V{}
		hashes := map[uint64]bool{}
		for _, fact := range p.Facts {
			if len(fact) != p.Arity {
				fail("malformed case", "fact of %v with %d arguments", p.sym(), len(fact))
			}
			k := modelKey(p, fact)
			if model[k] {
				fail("malformed case", "fact %s twice", k)
			}
			model[k] = true
			perPred[i][k] = fact
			total++
			h := buildAtom(p.sym(), fact).Hash()
			if hashes[h] {
				collide = true
			}
			hashes[h] = true
			for _, a := range fact {
				if needsEscape(a) {
					escape = true
				}
				walk(a, func(x val.V) {
					if isExtreme(x) && len(a.E)+len(a.KV) > 0 {
						labels["val:extreme-nested"] = true
					}
					switch x.T {
					case val.Name:
						if strings.Contains(x.S, "%") {
							labels["val:percent-name"] = true
						}
					case val.Str:
						if strings.Contains(x.S, "\r") {
							labels["val:cr-string"] = true
						}
					case val.Float:
						fl := x.Flt()
						if fl == float64(int64(fl)) {
							labels["val:integral-float"] = true
						}
						if a := math.Abs(fl); a != 0 && a < 0x1p-1022 {
							labels["val:float-subnormal"] = true
						} else if a >= 0x1p1007 || a != 0 && a < 0x1p-1006 {
							labels["val:float-extreme-magnitude"] = true
						}
					case val.Num:
						if n := x.Int(); n < math.MinInt64+4 || n > math.MaxInt64-4 {
							labels["val:number-int64-edge"] = true
						}
					case val.Time:
						labels["val:time"] = true
						n := x.Int()
						if n < math.MinInt64+year || n > math.MaxInt64-year {
							labels["val:time-int64-edge"] = true
						} else if n < -2019686400e9 || n > 4102444800e9 {
							labels["val:time-outside-1906-2100"] = true
						}
					case val.Dur:
						labels["val:duration"] = true
						if n := x.Int(); n < math.MinInt64+year || n > math.MaxInt64-year {
							labels["val:duration-int64-edge"] = true
						}
					case val.Bytes:
						labels["val:bytes"] = true
					case val.List, val.Map:
						labels["val:structured"] = true
						first := ""
						if x.T == val.List && len(x.E) > 0 {
							first = x.E[0].T + x.E[0].I
						}
						if strings.HasPrefix(first, val.Num+"-") {
							labels["val:list-neg-first"] = true
						}
					case val.Pair, val.Struct:
						labels["val:structured"] = true
					}
				})
			}
		}
		if len(p.Facts) == 0 && p.Arity > 0 && len(p.Ghost) == p.Arity {
			labels["pred:emptied-by-removal"] = true
			if hashes[buildAtom(p.sym(), p.Ghost).Hash()] {
				collide = true
			}
		}
		if p.Arity == 0 {
			hasZero = true
			if len(p.Facts) == 0 {
				labels["pred:empty-zero-arity"] = true
			}
		}
		if len(p.Facts) == 0 {
			hasEmpty = true
		}
	}
	for _, n := range symArities {
		if n > 1 {
			labels["pred:same-symbol-two-arities"] = true
		}
	}
	if hasZero {
		labels["pred:zero-arity"] = true
	}
	if hasEmpty {
		labels["pred:empty"] = true
	}
	if escape {
		labels["val:needs-escape"] = true
	}
	safe := false
	if collide {
		labels["hash-colliders"] = true
		if stats.Exclusion(exclK08) {
			// Known finding K08: the hash-keyed stores would lose one of the colliding facts before
			// the format is even involved. Redirect to the collision-safe store, and count it.
			safe = true
			run.Excluded(exclK08)
		}
	}
	if long {
		labels["val:long-line"] = true
	}
	if c.Bulk > 0 {
		labels["bulk:many-facts"] = true
	}
	labels["comp:"+c.Comp] = true
	labels["src:"+c.Src] = true
	labels["dst:"+c.Dst] = true
	if c.Det {
		labels["deterministic"] = true
	}

	// ---- save -----------------------------------------------------------------------------
	src, err := buildStore(c, c.Src, c.Shuffle1, safe)
	if err != nil {
		fail("the lazy source store cannot be set up"+errClass(err), "%v", err)
	}
	file, plain, err := write(src, c.Comp, c.Det, c.Zstd)
	if err != nil && strings.HasPrefix(err.Error(), "harness:") {
		fail("malformed case", "%v", err)
	}
	if err != nil {
		fail("WriteTo fails on a valid store"+errClass(err), "WriteTo(%s store, %s, deterministic=%v): %v", c.Src, c.Comp, c.Det, err)
	}

	if c.Comp == "zstd" && c.Zstd != nil {
		// The harness' own stream must be a valid zstd stream of the plain bytes (judged by the default
		// decoder of the trusted compression library) before the readers are judged with it.
		dec, err := zstd.NewReader(nil, zstd.WithDecoderConcurrency(1))
		if err != nil {
			fail("malformed case", "harness: zstd decoder: %v", err)
		}
		back, err := dec.DecodeAll(file, nil)
		dec.Close()
		if err != nil || !bytes.Equal(back, plain) {
			fail("malformed case", "harness: the stream of the configured zstd encoder %+v does not decode to the plain bytes: %v", *c.Zstd, err)
		}
		labels["zstd:configured-encoder"] = true
		var h zstd.Header
		if err := h.Decode(file); err == nil {
			switch {
			case h.SingleSegment:
				labels["zstd:single-segment-frame"] = true
			case h.WindowSize > 8<<20:
				labels["zstd:declared-window>8MiB"] = true
			case h.WindowSize > 1<<16:
				labels["zstd:declared-window>64KiB"] = true
			default:
				labels["zstd:declared-window<=64KiB"] = true
			}
		}
		if c.Zstd.Stream {
			labels["zstd:stream-writer"] = true
		} else {
			labels["zstd:encode-all"] = true
		}
	}

	// ---- deterministic bytes ---------------------------------------------------------------
	if c.Det {
		_, again, err := write(src, "plain", true, nil) // only the bytes WriteTo produces matter here
		if err != nil {
			fail("WriteTo fails on a valid store"+errClass(err), "second WriteTo of the same %s store: %v", c.Src, err)
		}
		if !bytes.Equal(plain, again) {
			fail("deterministic WriteTo wrote different bytes for the same store", "%s store:\n--- first\n%s--- second\n%s", c.Src, show(plain), show(again))
		}
		src2, err := buildStore(c, c.Src2, c.Shuffle2, safe)
		if err != nil {
			fail("the lazy source store cannot be set up"+errClass(err), "%v", err)
		}
		_, plain2, err := write(src2, "plain", true, nil)
		if err != nil {
			fail("WriteTo fails on a valid store"+errClass(err), "WriteTo(%s store, deterministic): %v", c.Src2, err)
		}
		if !bytes.Equal(plain, plain2) {
			fail("deterministic WriteTo wrote different bytes for two stores holding the same facts", "%s store vs %s store, filled in different orders:\n--- first\n%s--- second\n%s", c.Src, c.Src2, show(plain), show(plain2))
		}
	}

	// ---- eager reload ----------------------------------------------------------------------
	{
		r, closeR, err := reader(file, c.Comp)
		if err != nil {
			fail("the compressed stream just written cannot be opened", "%s: %v", c.Comp, err)
		}
		got := map[string]bool{}
		dk := c.Dst
		if safe && dk != kRecorder {
			dk = kArray
		}
		if dk == kRecorder {
			rec := &recorder{}
			err = (factstore.SimpleColumn{}).ReadInto(r, rec)
			for _, a := range rec.atoms {
				got[val.AtomKey(a)] = true
			}
		} else {
			dst := newStore(dk)
			err = (factstore.SimpleColumn{}).ReadInto(r, dst)
			if err == nil {
				for _, p := range dst.ListPredicates() {
					if e := dst.GetFacts(ast.NewQuery(p), func(a ast.Atom) error { got[val.AtomKey(a)] = true; return nil }); e != nil {
						fail("GetFacts of the target store fails", "%s store, %v: %v", dk, p, e)
					}
				}
			}
		}
		closeR()
		if err != nil {
			fail("ReadInto fails on the file WriteTo produced"+errClass(err), "ReadInto(%s store): %v\nfile:\n%s", dk, err, show(plain))
		}
		if d := diff(model, got); d != "" {
			fail("ReadInto does not give back the saved facts", "ReadInto(%s store): %s\nfile:\n%s", dk, d, show(plain))
		}
	}

	// ---- lazy view -------------------------------------------------------------------------
	lazy, err := openLazy(file, c.Comp)
	if err != nil {
		fail("NewSimpleColumnStore fails on the file WriteTo produced", "%v\nfile:\n%s", err, show(plain))
	}
	// (a) everything: every listed predicate with an all-variable query.
	{
		got := map[string]bool{}
		for _, p := range lazy.ListPredicates() {
			if e := lazy.GetFacts(ast.NewQuery(p), func(a ast.Atom) error { got[val.AtomKey(a)] = true; return nil }); e != nil {
				fail("SimpleColumnStore.GetFacts fails on the file WriteTo produced"+errClass(e), "GetFacts(%v): %v\nfile:\n%s", ast.NewQuery(p), e, show(plain))
			}
		}
		if d := diff(model, got); d != "" {
			fail("SimpleColumnStore does not give back the saved facts (all-variable queries over its listed predicates)", "%s\nfile:\n%s", d, show(plain))
		}
	}
	// (b) fact counts of the header.
	for i, p := range c.Preds {
		if n := lazy.FactCount(p.sym()); n != len(perPred[i]) {
			fail("SimpleColumnStore.FactCount differs from the number of saved facts", "FactCount(%v) = %d, the store held %d facts\nfile:\n%s", p.sym(), n, len(perPred[i]), show(plain))
		}
	}
	if n := lazy.EstimateFactCount(); n != total {
		fail("SimpleColumnStore.EstimateFactCount differs from the number of saved facts", "EstimateFactCount() = %d, the store held %d facts\nfile:\n%s", n, total, show(plain))
	}
	// (c) pattern queries against the model's filter.
	queriedNonEmpty, otherEmptyOrZero := false, false
	for qi, q := range c.Queries {
		var ps ast.PredicateSym
		var facts map[string][]val.V
		if q.Pred >= 0 && q.Pred < len(c.Preds) {
			ps, facts = c.Preds[q.Pred].sym(), perPred[q.Pred]
		} else {
			ps = ast.PredicateSym{Symbol: "absent_pred", Arity: len(q.Args)}
			if seenSym[ps] {
				continue
			}
			labels["query:absent-predicate"] = true
		}
		if len(q.Args) != ps.Arity {
			fail("malformed case", "query %d has %d arguments for %v", qi, len(q.Args), ps)
		}
		args := make([]ast.BaseTerm, ps.Arity)
		bound := false
		for i, a := range q.Args {
			if a == nil {
				args[i] = ast.Variable{Symbol: fmt.Sprintf("X%d", i)}
			} else {
				args[i] = a.Build()
				bound = true
			}
		}
		want := map[string]bool{}
		for k, fact := range facts {
			ok := true
			for i, a := range q.Args {
				if a != nil && a.Key() != fact[i].Key() {
					ok = false
				}
			}
			if ok {
				want[k] = true
			}
		}
		got := map[string]bool{}
		query := ast.Atom{Predicate: ps, Args: args}
		if e := lazy.GetFacts(query, func(a ast.Atom) error { got[val.AtomKey(a)] = true; return nil }); e != nil {
			fail("SimpleColumnStore.GetFacts fails on the file WriteTo produced"+errClass(e), "GetFacts(%v): %v\nfile:\n%s", query, e, show(plain))
		}
		if d := diff(want, got); d != "" {
			fail("SimpleColumnStore.GetFacts(pattern) differs from the saved facts that match the pattern", "GetFacts(%v): %s\nfile:\n%s", query, d, show(plain))
		}
		if bound {
			if len(want) > 0 {
				labels["query:pattern-hit"] = true
			}
			if len(want) < len(facts) {
				labels["query:pattern-filters"] = true
			}
		}
		if len(facts) > 0 && ps.Arity > 0 {
			queriedNonEmpty = true
			for j, o := range c.Preds {
				if j != q.Pred && (o.Arity == 0 || len(o.Facts) == 0) {
					otherEmptyOrZero = true
					if c.Det && (o.Arity < ps.Arity || o.Arity == ps.Arity && o.Sym < ps.Symbol) {
						labels["empty-or-zero-arity-before-queried"] = true
					}
				}
			}
		}
	}
	// (d) Contains.
	for pi, pr := range c.Probes {
		if pr.Pred < 0 || pr.Pred >= len(c.Preds) || len(pr.Args) != c.Preds[pr.Pred].Arity {
			fail("malformed case", "probe %d", pi)
		}
		p := c.Preds[pr.Pred]
		atom := buildAtom(p.sym(), pr.Args)
		want := model[modelKey(p, pr.Args)]
		if got := lazy.Contains(atom); got != want {
			fail("SimpleColumnStore.Contains disagrees with the saved facts", "Contains(%v) = %v, saved store held the fact: %v\nfile:\n%s", atom, got, want, show(plain))
		}
		if want {
			labels["contains:true"] = true
		} else {
			labels["contains:false"] = true
		}
	}

	for l := range labels {
		v.labels = append(v.labels, l)
	}
	sort.Strings(v.labels)
	// Non-trivial: at least two predicates, a queried non-empty predicate with arguments, another
	// predicate that is zero-arity or empty (it changes the line offsets of the lazy reader), and a
	// value that needs escaping.
	v.nontrivial = len(c.Preds) >= 2 && queriedNonEmpty && otherEmptyOrZero && escape
	return v
}

// ---------------------------------------------------------------------------------------------
// Generator.

var predSyms = []string{"p", "q", "r", "foo", "bar_1", "pkg.p", "a.b.c", "zz9", "edge", "n:x"}

// Names that exercise the percent (un)escaping of the line format; every one follows the CONSTANT rule.
var percentNames = []string{"/a%41", "/%", "/a%2Fb", "/100%", "/a%zz", "/x%20y", "/%25", "/a/b%", "/%41/%42", "/a%2B"}

var optsAll = val.Options{MaxDepth: 2}

// year is about one year in nanoseconds; the "edge" of the int64 range of times and durations is
// the outermost year on either side (it holds the library's own sentinels ast.Time(math.MinInt64)
// and ast.Time(math.MaxInt64) and the instants of the years 1677 and 2262).
const year = int64(366 * 24 * 3600 * 1e9)

// genEdgeInt64 draws an int64 at or near one end of the range: the extreme itself, a few units off,
// or anywhere in the outermost year.
func genEdgeInt64(t *rapid.T) int64 {
	off := int64(0)
	switch rapid.IntRange(0, 3).Draw(t, "edgeoff") {
	case 0:
	case 1:
		off = rapid.Int64Range(0, 3).Draw(t, "edgesmall")
	case 2:
		off = rapid.Int64Range(0, year/4).Draw(t, "edgequarter")
	default:
		off = rapid.Int64Range(0, year).Draw(t, "edgeyear")
	}
	if rapid.Bool().Draw(t, "edgemin") {
		return math.MinInt64 + off
	}
	return math.MaxInt64 - off
}

// genExtremeFloat draws a finite float at the extremes of magnitude: largest/smallest finite,
// smallest normal, subnormals, and their neighbours, of either sign.
func genExtremeFloat(t *rapid.T) float64 {
	var f float64
	switch rapid.IntRange(0, 5).Draw(t, "xfmode") {
	case 0:
		f = rapid.SampledFrom([]float64{math.MaxFloat64, math.SmallestNonzeroFloat64, 0x1p-1022, 0x1p-1022 - 0x1p-1074, 0x1p1023, 0x1p-1073}).Draw(t, "xfstock")
	case 1: // neighbours of the largest finite value
		f = math.Float64frombits(math.Float64bits(math.MaxFloat64) - uint64(rapid.IntRange(0, 4).Draw(t, "xfbelowmax")))
	case 2: // any subnormal
		f = math.Float64frombits(rapid.Uint64Range(1, 1<<52-1).Draw(t, "xfsub"))
	case 3: // the smallest subnormals and the values around the smallest normal
		if rapid.Bool().Draw(t, "xftiny") {
			f = math.Float64frombits(rapid.Uint64Range(1, 8).Draw(t, "xftinybits"))
		} else {
			f = math.Float64frombits(uint64(int64(1<<52) + rapid.Int64Range(-4, 4).Draw(t, "xfnormbits")))
		}
	case 4: // huge: exponent within the top 16 binades, any mantissa
		f = math.Float64frombits(rapid.Uint64Range(0x7ef<<52, 0x7ff<<52-1).Draw(t, "xfhuge"))
	default: // tiny normal: exponent within the lowest 16 binades
		f = math.Float64frombits(rapid.Uint64Range(1<<52, 0x011<<52-1).Draw(t, "xfsmallnorm"))
	}
	if rapid.Bool().Draw(t, "xfneg") {
		f = -f
	}
	return f
}

// genExtreme draws a constant at the boundary of its kind's value range - a time, a duration or a
// number at/near math.MinInt64 or math.MaxInt64, a time anywhere in the int64-nanosecond range, a
// float of extreme magnitude - bare or nested inside a list, pair, map (as key and as value) or struct.
func genExtreme(t *rapid.T) val.V {
	var scalar func() val.V
	scalar = func() val.V {
		switch rapid.IntRange(0, 6).Draw(t, "xkind") {
		case 0, 1:
			return val.T(genEdgeInt64(t))
		case 2: // a time anywhere in the representable range (years 1677-2262), outside the usual 1906-2100
			y := rapid.SampledFrom([]int{1678, 2261, 1700, 2200, 1800, 2101, 1905, 1850, 2150, 1750}).Draw(t, "xyear")
			return val.T(time.Date(y, 1, 1, 0, 0, 0, 0, time.UTC).UnixNano() + rapid.Int64Range(0, year-1).Draw(t, "xinyear"))
		case 3:
			return val.D(genEdgeInt64(t))
		case 4:
			return val.I(genEdgeInt64(t))
		default:
			return val.F(genExtremeFloat(t))
		}
	}
	var nest func(depth int) val.V
	nest = func(depth int) val.V {
		if depth <= 0 || rapid.IntRange(0, 9).Draw(t, "xleaf") < 5 {
			return scalar()
		}
		other := func() val.V {
			if rapid.Bool().Draw(t, "xother") {
				return val.Gen(val.Options{MaxDepth: 1}).Draw(t, "xplain")
			}
			return nest(depth - 1)
		}
		switch rapid.IntRange(0, 4).Draw(t, "xshape") {
		case 0:
			if rapid.Bool().Draw(t, "xfirst") {
				return val.P(nest(depth-1), other())
			}
			return val.P(other(), nest(depth-1))
		case 1:
			es := []val.V{nest(depth - 1)}
			for n := rapid.IntRange(0, 2).Draw(t, "xllen"); n > 0; n-- {
				es = append(es, other())
			}
			if len(es) > 1 && rapid.Bool().Draw(t, "xlast") {
				es[0], es[len(es)-1] = es[len(es)-1], es[0]
			}
			return val.L(es...)
		case 2: // map value
			return val.M([2]val.V{val.Gen(val.Options{SimpleOnly: true}).Draw(t, "xmkey"), nest(depth - 1)})
		case 3: // map key (and, half of the time, a second entry)
			k := nest(depth - 1)
			kv := [][2]val.V{{k, other()}}
			if k2 := nest(depth - 1); k2.Key() != k.Key() && rapid.Bool().Draw(t, "xsecond") {
				kv = append(kv, [2]val.V{k2, other()})
			}
			return val.M(kv...)
		default:
			kv := [][2]val.V{{val.N(rapid.SampledFrom([]string{"/a", "/b", "/t", "/x/y"}).Draw(t, "xlabel")), nest(depth - 1)}}
			if rapid.Bool().Draw(t, "xsfield") {
				kv = append(kv, [2]val.V{val.N("/other"), other()})
			}
			return val.St(kv...)
		}
	}
	return nest(2)
}

func genValue(t *rapid.T) val.V {
	switch rapid.IntRange(0, 13).Draw(t, "vmode") {
	case 12, 13:
		return genExtreme(t)
	case 0:
		return val.N(rapid.SampledFrom(percentNames).Draw(t, "pname"))
	case 1:
		// lists/maps whose first element is negative, integral floats, CR: the printed forms that
		// are hard to read back.
		return rapid.SampledFrom([]val.V{
			val.L(val.I(-1), val.I(2)), val.F(1), val.F(-3), val.F(1e21), val.S("a\rb"), val.S("\r\n"), val.S(""),
			val.L(val.F(-1.5)), val.M([2]val.V{val.I(-1), val.S("x")}), val.M(), val.B([]byte("\r\n")),
			val.S("%41"), val.S("% 0"), val.L(val.N("/a%41")), val.P(val.N("/a%41"), val.I(-1)),
		}).Draw(t, "hard")
	case 2:
		return val.Gen(val.Options{MaxDepth: 3}).Draw(t, "deep")
	default:
		return val.Gen(optsAll).Draw(t, "v")
	}
}

// nearMiss returns a value of another kind that prints or hashes like v (number 1 / float 1.0,
// name /a / string "/a"), or v itself.
func nearMiss(v val.V) val.V {
	switch v.T {
	case val.Num:
		return val.F(float64(v.Int()))
	case val.Float:
		if fl := v.Flt(); fl == float64(int64(fl)) && fl > -1e15 && fl < 1e15 {
			return val.I(int64(fl))
		}
	case val.Name:
		return val.S(v.S)
	case val.Str:
		if _, err := ast.Name(v.S); err == nil && !strings.ContainsAny(v.S, " \"\\\r\n\t") {
			ok := true
			for _, r := range v.S {
				if !(r == '/' || r == '.' || r == '-' || r == '_' || r == '~' || r == '%' || r >= '0' && r <= '9' || r >= 'a' && r <= 'z' || r >= 'A' && r <= 'Z') {
					ok = false
				}
			}
			if ok {
				return val.N(v.S)
			}
		}
	}
	return v
}

func genCase(t *rapid.T) Case {
	c := Case{}
	c.Comp = rapid.SampledFrom([]string{"plain", "plain", "gzip", "zstd"}).Draw(t, "comp")
	c.Det = rapid.Bool().Draw(t, "det")
	c.Src = rapid.SampledFrom(srcKinds).Draw(t, "src")
	c.Src2 = kArray
	if c.Det {
		c.Src2 = rapid.SampledFrom(srcKinds).Draw(t, "src2")
	}
	c.Dst = rapid.SampledFrom(dstKinds).Draw(t, "dst")

	// Rarely (about 1 case in 100: it costs a large window on both sides) a zstd stream of another
	// encoder configuration - window 1 KiB..32 MiB, every level, streaming Writer or EncodeAll,
	// single-segment or not, zero frames, checksum - over a file of more than one 128 KiB block (one
	// long line or many facts), so that the frame header is a real streaming header that declares the
	// configured window. Every GetFacts/Contains of the lazy view opens a decoder that allocates twice the
	// declared window, so these cases have at most 2 predicates (and the bulk one), 1 query and 1 probe.
	// (rapid draws the ends of a range more often than the middle: == 24 is about 1 in 21.)
	if c.Comp == "zstd" && rapid.IntRange(0, 24).Draw(t, "zstdalt") == 24 {
		zo := ZstdOpts{}
		zo.WindowLog = rapid.SampledFrom([]int{24, 24, 10, 17, 13, 25, 16, 20, 23, 24}).Draw(t, "zwindow")
		zo.Level = rapid.SampledFrom([]int{1, 2, 3, 1, 4, 2, 3, 1, 2}).Draw(t, "zlevel") // 4 (64 MiB of tables) is the rarest
		zo.Stream = rapid.IntRange(0, 2).Draw(t, "zstream") < 2
		if zo.Stream {
			zo.Chunk = rapid.SampledFrom([]int{0, 0, 1000, 4096, 65536, 131072, 200000}).Draw(t, "zchunk")
		} else {
			zo.Single = rapid.IntRange(0, 2).Draw(t, "zsingle")
		}
		zo.ZeroFrames = rapid.Bool().Draw(t, "zzero")
		zo.NoCRC = rapid.Bool().Draw(t, "znocrc")
		c.Zstd = &zo
		switch rapid.IntRange(0, 3).Draw(t, "zcontent") {
		case 2:
			// a small file: the encoder may write a single-segment frame
		case 1:
			c.Bulk = rapid.IntRange(900, 1500).Draw(t, "bulk")
		default:
			c.Long = rapid.IntRange(135000, 400000).Draw(t, "zlonglen")
		}
	}

	npool := rapid.IntRange(2, 7).Draw(t, "npool")
	pool := make([]val.V, npool)
	for i := range pool {
		pool[i] = genValue(t)
	}
	arg := func() val.V {
		if rapid.IntRange(0, 9).Draw(t, "fresh") < 2 {
			return genValue(t)
		}
		return pool[rapid.IntRange(0, npool-1).Draw(t, "pool")]
	}

	np := rapid.IntRange(1, 6).Draw(t, "npreds")
	if c.Zstd != nil && np > 2 {
		np = 2
	}
	used := map[ast.PredicateSym]bool{}
	nfacts := 0
	for i := 0; i < np; i++ {
		p := Pred{}
		p.Sym = rapid.SampledFrom(predSyms).Draw(t, "sym")
		p.Arity = rapid.SampledFrom([]int{0, 0, 1, 1, 1, 2, 2, 2, 3, 3}).Draw(t, "arity")
		for used[p.sym()] {
			p.Sym += "x"
		}
		used[p.sym()] = true
		if p.Arity == 0 {
			if rapid.IntRange(0, 2).Draw(t, "holds") > 0 {
				p.Facts = [][]val.V{{}}
			}
		} else {
			n := rapid.SampledFrom([]int{0, 0, 1, 1, 2, 2, 3, 4, 5, 6}).Draw(t, "nfacts")
			seen := map[string]bool{}
			for k := 0; k < n; k++ {
				fact := make([]val.V, p.Arity)
				for j := range fact {
					fact[j] = arg()
				}
				key := modelKey(p, fact)
				if seen[key] {
					continue
				}
				seen[key] = true
				p.Facts = append(p.Facts, fact)
			}
			if len(p.Facts) > 0 && rapid.IntRange(0, 24).Draw(t, "colliders") == 0 {
				// hash colliders in the last column of copies of the first fact (K08 material)
				groups := val.Colliders()
				g := groups[rapid.IntRange(0, len(groups)-1).Draw(t, "group")]
				for _, x := range g {
					fact := append([]val.V{}, p.Facts[0]...)
					fact[p.Arity-1] = x
					key := modelKey(p, fact)
					if !seen[key] {
						seen[key] = true
						p.Facts = append(p.Facts, fact)
					}
				}
			}
			if len(p.Facts) == 0 && rapid.Bool().Draw(t, "ghost") {
				p.Ghost = make([]val.V, p.Arity)
				for j := range p.Ghost {
					p.Ghost[j] = arg()
				}
			}
		}
		nfacts += len(p.Facts) + 1
		c.Preds = append(c.Preds, p)
	}
	c.Shuffle1 = rapid.SliceOfN(rapid.IntRange(0, 63), 0, nfacts).Draw(t, "shuffle1")
	if c.Det {
		c.Shuffle2 = rapid.SliceOfN(rapid.IntRange(0, 63), nfacts, nfacts).Draw(t, "shuffle2")
	}

	// Pattern queries, biased towards non-empty predicates with arguments and values of the column.
	var good []int
	for i, p := range c.Preds {
		if p.Arity > 0 && len(p.Facts) > 0 {
			good = append(good, i)
		}
	}
	nq := rapid.IntRange(1, 4).Draw(t, "nqueries")
	if c.Zstd != nil {
		nq = 1
	}
	for k := 0; k < nq; k++ {
		q := Query{}
		switch w := rapid.IntRange(0, 9).Draw(t, "qwhich"); {
		case w == 0:
			q.Pred = -1
			q.Args = make([]*val.V, rapid.IntRange(0, 2).Draw(t, "absentArity"))
		case w <= 6 && len(good) > 0:
			q.Pred = good[rapid.IntRange(0, len(good)-1).Draw(t, "qgood")]
		default:
			q.Pred = rapid.IntRange(0, np-1).Draw(t, "qany")
		}
		if q.Pred >= 0 {
			p := c.Preds[q.Pred]
			q.Args = make([]*val.V, p.Arity)
			for j := range q.Args {
				m := rapid.IntRange(0, 9).Draw(t, "qarg")
				var x val.V
				switch {
				case m <= 3:
					continue // variable
				case m <= 7 && len(p.Facts) > 0:
					x = p.Facts[rapid.IntRange(0, len(p.Facts)-1).Draw(t, "qfact")][j]
				case m == 8 && len(p.Facts) > 0:
					x = nearMiss(p.Facts[rapid.IntRange(0, len(p.Facts)-1).Draw(t, "qnear")][j])
				default:
					x = arg()
				}
				q.Args[j] = &x
			}
		} else {
			for j := range q.Args {
				if rapid.Bool().Draw(t, "absentConst") {
					x := arg()
					q.Args[j] = &x
				}
			}
		}
		c.Queries = append(c.Queries, q)
	}
	// Rarely a constant whose printed form is longer than 64 KiB (the default token limit of bufio.Scanner).
	if rapid.IntRange(0, 59).Draw(t, "long") == 59 && c.Zstd == nil {
		c.Long = rapid.IntRange(60000, 70000).Draw(t, "longlen")
	}
	nprobe := rapid.IntRange(0, 3).Draw(t, "nprobes")
	if c.Zstd != nil && nprobe > 1 {
		nprobe = 1
	}
	for k := 0; k < nprobe; k++ {
		pi := rapid.IntRange(0, np-1).Draw(t, "ppred")
		p := c.Preds[pi]
		pr := Probe{Pred: pi, Args: make([]val.V, p.Arity)}
		if len(p.Facts) > 0 && rapid.IntRange(0, 2).Draw(t, "pexisting") > 0 {
			copy(pr.Args, p.Facts[rapid.IntRange(0, len(p.Facts)-1).Draw(t, "pfact")])
			if p.Arity > 0 {
				switch rapid.IntRange(0, 3).Draw(t, "pmutate") {
				case 0:
					j := rapid.IntRange(0, p.Arity-1).Draw(t, "pcol")
					pr.Args[j] = nearMiss(pr.Args[j])
				case 1:
					j := rapid.IntRange(0, p.Arity-1).Draw(t, "pcol")
					pr.Args[j] = arg()
				}
			}
		} else {
			for j := range pr.Args {
				pr.Args[j] = arg()
			}
		}
		c.Probes = append(c.Probes, pr)
	}
	return c
}

func TestC19(t *testing.T) {
	run := stats.Begin("C19", "TestC19")
	defer run.Finish(t)
	// The zstd decoders of the large-window cases allocate 32-64 MiB per opened reader; with the default
	// GC target these buffers are handed back to the OS and faulted in again on every call (measured:
	// 3x the run time). A larger GC target lets the runtime recycle them. No effect on any verdict.
	defer debug.SetGCPercent(debug.SetGCPercent(400))
	rapid.Check(t, func(rt *rapid.T) {
		c := genCase(rt)
		run.Current(c)
		v := check(run, rt, c)
		run.Case(v.nontrivial, c.hash(), v.labels...)
		if v.nontrivial {
			run.Sample("random", c)
		}
	})
}

func TestReplay(t *testing.T) {
	var c Case
	if !stats.LoadReplay(t, &c) {
		return
	}
	run := stats.Begin("C19", "TestReplay")
	check(run, t, c)
}
