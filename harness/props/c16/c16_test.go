// Package c16 checks property C16: interactive definitions and pop compose like a stack.
//
// A case is a set of generated source files plus a history of interpreter commands (define, load,
// pop, query). The history is run against one long-lived interpreter; after EVERY command a fresh
// interpreter replays only the fragments that are still live (in order) and both must answer alike
// for every predicate name that occurs anywhere in the case: ParseQuery(name) success (and arity),
// Show(name) success, and the key set of Query results (atoms through val.AtomKey, temporal facts
// together with their interval).
//
// The reference is a replay by the code under test itself, never an own semantics of Mangle: what a
// fragment means (including design observation O4: a loaded file that uses an undeclared predicate
// of an earlier file fails bounds checking) is whatever the fresh interpreter makes of it. The
// only modelled part is which fragments are live:
//
//   - define(text): accepted (nil error) => text joins the interactive fragment (the last live
//     fragment); rejected => nothing changes.
//   - load(pathset): interactive definitions are dropped first (documented: "::load pops interactive
//     buffer and loads"); accepted => the pathset is pushed; rejected => nothing else changes.
//     A pathset that is already live: if the interpreter refuses it, either "nothing changed" or
//     "only the interactive definitions were dropped" is accepted (the statement leaves that open);
//     if it accepts it, it is a further fragment.
//   - pop: removes the last live fragment (interactive definitions count as the last one).
//
// Additionally a rejected command must also be rejected by a fresh interpreter that replays the
// live fragments and then receives the same command (otherwise the rejection was caused by
// left-over state, e.g. a poisoned interactive buffer), and every live fragment must be accepted
// again by the fresh interpreter. Panics anywhere are violations.
package c16

import (
	"bytes"
	"encoding/json"
	"fmt"
	"os"
	"path/filepath"
	"regexp"
	"sort"
	"strings"
	"testing"

	"codeberg.org/TauCeti/mangle-go/ast"
	"codeberg.org/TauCeti/mangle-go/interpreter"
	"pgregory.net/rapid"
	"verif/stats"
	"verif/val"
)

// Command kinds.
const (
	opDefine = "define"
	opLoad   = "load"
	opPop    = "pop"
	opQuery  = "query"
)

// File is one generated source file. Kind is a generator label only; the oracle reads Text.
type File struct {
	Name string `json:"name"`
	Kind string `json:"kind"`
	Text string `json:"text"`
}

// Cmd is one interpreter command. Arg: clause text (define), comma-separated pathset (load),
// query text (query: a predicate name or an atom pattern), empty (pop). Kind is a generator label.
type Cmd struct {
	Op   string `json:"op"`
	Arg  string `json:"arg,omitempty"`
	Kind string `json:"kind,omitempty"`
}

// Case is the replay format.
type Case struct {
	Files []File `json:"files"`
	Cmds  []Cmd  `json:"cmds"`
}

func (c Case) hash() uint64 {
	b, _ := json.Marshal(c)
	return stats.Hash(string(b))
}

// baseDir is the directory below which every case gets its own directory (set by the test
// functions from t.TempDir()).
var baseDir string

// ---------------------------------------------------------------------------------------------
// Observation of an interpreter.

var nameRE = regexp.MustCompile(`[a-z][a-z0-9_]*\(`)

// names returns every predicate name that occurs in the case (sorted) plus one that never does.
func (c Case) names() []string {
	set := map[string]bool{"nosuch": true}
	add := func(text string) {
		for _, m := range nameRE.FindAllString(text, -1) {
			n := strings.TrimSuffix(m, "(")
			if n == "extensional" { // descriptor atom, not a predicate
				continue
			}
			set[n] = true
		}
	}
	for _, f := range c.Files {
		add(f.Text)
	}
	for _, cmd := range c.Cmds {
		if cmd.Op == opDefine || cmd.Op == opQuery {
			add(cmd.Arg)
		}
	}
	var res []string
	for n := range set {
		res = append(res, n)
	}
	sort.Strings(res)
	return res
}

func boundKey(b ast.TemporalBound) string {
	if b.Type == ast.VariableBound {
		return fmt.Sprintf("%d:var:%s", b.Type, b.Variable.Symbol)
	}
	return fmt.Sprintf("%d:%d", b.Type, b.Timestamp)
}

// termKey is the canonical key of one query result.
func termKey(t ast.Term) string {
	switch x := t.(type) {
	case ast.Atom:
		return val.AtomKey(x)
	case ast.TemporalAtom:
		if x.Interval == nil {
			return val.AtomKey(x.Atom) + "@nil"
		}
		return val.AtomKey(x.Atom) + "@[" + boundKey(x.Interval.Start) + "," + boundKey(x.Interval.End) + "]"
	}
	return fmt.Sprintf("?unexpected %T %v", t, t)
}

// answer is what an interpreter says about one query text.
type answer struct {
	parseOK bool
	arity   int
	showOK  bool
	keys    []string // sorted, without duplicates
}

func (a answer) String() string {
	if !a.parseOK {
		return fmt.Sprintf("{unknown to ParseQuery, Show ok=%v}", a.showOK)
	}
	return fmt.Sprintf("{arity %d, Show ok=%v, %d facts %v}", a.arity, a.showOK, len(a.keys), a.keys)
}

func (a answer) equal(b answer) bool {
	if a.parseOK != b.parseOK || a.showOK != b.showOK || a.arity != b.arity || len(a.keys) != len(b.keys) {
		return false
	}
	for i := range a.keys {
		if a.keys[i] != b.keys[i] {
			return false
		}
	}
	return true
}

// guard runs fn and turns a panic into a description.
func guard(fn func()) (panicked string) {
	defer func() {
		if p := recover(); p != nil {
			panicked = fmt.Sprint(p)
		}
	}()
	fn()
	return ""
}

// ask queries interpreter i for text (a predicate name or an atom pattern).
func ask(i *interpreter.Interpreter, text string, withShow bool) (answer, string) {
	var a answer
	p := guard(func() {
		atom, err := i.ParseQuery(text)
		if err == nil {
			a.parseOK = true
			a.arity = len(atom.Args)
			res, qerr := i.Query(atom)
			if qerr != nil {
				a.keys = append(a.keys, "query error: "+qerr.Error())
			}
			set := map[string]bool{}
			for _, r := range res {
				set[termKey(r)] = true
			}
			for k := range set {
				a.keys = append(a.keys, k)
			}
			sort.Strings(a.keys)
		}
		if withShow {
			a.showOK = i.Show(text) == nil
		}
	})
	return a, p
}

// ---------------------------------------------------------------------------------------------
// Model: the list of live fragments.

type frag struct {
	pathset string   // loaded fragment
	defs    []string // interactive fragment: the accepted definitions in order
}

func (f frag) interactive() bool { return f.defs != nil }

func cloneLive(live []frag) []frag {
	res := make([]frag, len(live))
	for i, f := range live {
		res[i] = frag{pathset: f.pathset}
		if f.defs != nil {
			res[i].defs = append([]string{}, f.defs...)
		}
	}
	return res
}

func describe(live []frag) string {
	var parts []string
	for _, f := range live {
		if f.interactive() {
			parts = append(parts, fmt.Sprintf("define%q", f.defs))
		} else {
			parts = append(parts, "load "+f.pathset)
		}
	}
	return "[" + strings.Join(parts, "; ") + "]"
}

// replay builds a fresh interpreter and feeds it the live fragments in order.
// problem is non-empty if the fresh interpreter rejects one of them or panics.
func replay(dir string, live []frag) (i *interpreter.Interpreter, problem string) {
	var out bytes.Buffer
	p := guard(func() {
		i = interpreter.New(&out, dir, nil)
		for _, f := range live {
			if f.interactive() {
				for _, d := range f.defs {
					if err := i.Define(d); err != nil {
						problem = fmt.Sprintf("rejects the live definition %q: %v", d, err)
						return
					}
				}
			} else if err := i.Load(f.pathset); err != nil {
				problem = fmt.Sprintf("rejects the live pathset %q: %v", f.pathset, err)
				return
			}
		}
	})
	if p != "" {
		problem = "panicked: " + p
	}
	return i, problem
}

// diff compares the long-lived interpreter with a fresh replay of live on every name (and on the
// extra query texts); it returns a description of the first difference or "".
func diff(dir string, real *interpreter.Interpreter, live []frag, names, queries []string) (string, bool) {
	ref, problem := replay(dir, live)
	if problem != "" {
		return "a fresh interpreter replaying the live fragments " + describe(live) + " " + problem, false
	}
	temporal := false
	for pass, texts := range [][]string{names, queries} {
		for _, n := range texts {
			got, p := ask(real, n, pass == 0)
			if p != "" {
				return fmt.Sprintf("query %q panicked: %s", n, p), temporal
			}
			want, p := ask(ref, n, pass == 0)
			if p != "" {
				return fmt.Sprintf("query %q panicked on the fresh interpreter: %s", n, p), temporal
			}
			for _, k := range want.keys {
				if strings.Contains(k, "@[") {
					temporal = true
				}
			}
			if !got.equal(want) {
				return fmt.Sprintf("?%s answers %v, a fresh interpreter after %s answers %v", n, got, describe(live), want), temporal
			}
		}
	}
	return "", temporal
}

// ---------------------------------------------------------------------------------------------
// The oracle.

type verdict struct {
	nontrivial bool
	labels     []string
}

func writeFiles(dir string, c Case) error {
	for _, f := range c.Files {
		if err := os.WriteFile(filepath.Join(dir, f.Name), []byte(f.Text), 0o644); err != nil {
			return err
		}
	}
	return nil
}

func errKind(err error) string {
	switch msg := err.Error(); {
	case strings.HasPrefix(msg, "parsing failed"), strings.HasPrefix(msg, "error parsing"):
		return "parse"
	case strings.HasPrefix(msg, "analysis failed"):
		return "analysis"
	case strings.HasPrefix(msg, "evaluation failed"):
		return "eval"
	}
	return "other"
}

func check(run *stats.Run, f stats.Failer, c Case) (v verdict) {
	labels := map[string]bool{}
	defer func() {
		for l := range labels {
			v.labels = append(v.labels, l)
		}
		sort.Strings(v.labels)
	}()

	root := baseDir
	if root == "" {
		root = os.Getenv("VERIF_OUT")
	}
	if root != "" {
		os.MkdirAll(root, 0o755)
	}
	dir, err := os.MkdirTemp(root, "c16case")
	if err != nil {
		f.Fatalf("infrastructure: cannot create the case directory: %v", err)
	}
	defer os.RemoveAll(dir)
	if err := writeFiles(dir, c); err != nil {
		f.Fatalf("infrastructure: cannot write the case files: %v", err)
	}
	kindOf := map[string]string{}
	for _, fl := range c.Files {
		kindOf[fl.Name] = fl.Kind
	}
	names := c.names()

	var out bytes.Buffer
	var real *interpreter.Interpreter
	if p := guard(func() { real = interpreter.New(&out, dir, nil) }); p != "" {
		run.Failf(f, "interpreter.New panicked: %s", p)
	}
	// cands: the admissible model states (lists of live fragments); more than one only after a
	// refused load of an already loaded pathset whose two readings cannot be told apart yet.
	cands := [][]frag{nil}
	var queries []string // query commands seen so far are re-asked after every later command
	history := func(n int) string {
		var parts []string
		for _, cmd := range c.Cmds[:n+1] {
			parts = append(parts, strings.ReplaceAll(strings.TrimSpace(cmd.Op+" "+cmd.Arg), "\n", `\n`))
		}
		return strings.Join(parts, " | ")
	}

	for n, cmd := range c.Cmds {
		out.Reset()
		live := cands[0] // labels are taken from the first admissible state
		interactiveLive := len(live) > 0 && live[len(live)-1].interactive()
		var cerr error
		switch cmd.Op {
		case opDefine:
			if p := guard(func() { cerr = real.Define(cmd.Arg) }); p != "" {
				run.Failf(f, "after %s: Define panicked: %s", history(n), p)
			}
			if cerr == nil {
				labels["define-ok"] = true
				labels["define-ok:"+cmd.Kind] = true
				if interactiveLive {
					labels["define-extends-buffer"] = true
				}
			} else {
				labels["define-rejected"] = true
				labels["define-rejected:"+errKind(cerr)] = true
				if interactiveLive {
					labels["NT:rejected-define-after-accepted"] = true
					v.nontrivial = true
				}
			}
		case opLoad:
			if p := guard(func() { cerr = real.Load(cmd.Arg) }); p != "" {
				run.Failf(f, "after %s: Load panicked: %s", history(n), p)
			}
			paths := strings.Split(cmd.Arg, ",")
			if len(paths) > 1 {
				labels["load-multi"] = true
			}
			if interactiveLive {
				labels["load-with-interactive-live"] = true
			}
			switch {
			case cerr == nil:
				labels["load-ok"] = true
				for _, p := range paths {
					labels["load-ok:"+kindOf[p]] = true
				}
				if isLive(live, cmd.Arg) {
					labels["load-duplicate-accepted"] = true
				}
			case isLive(live, cmd.Arg):
				labels["load-duplicate-refused"] = true
			default:
				labels["load-rejected"] = true
				labels["load-rejected:"+errKind(cerr)] = true
				if len(paths) == 1 {
					labels["load-rejected:"+kindOf[paths[0]]+"-file"] = true
				}
			}
		case opPop:
			if p := guard(func() { real.Pop() }); p != "" {
				run.Failf(f, "after %s: Pop panicked: %s", history(n), p)
			}
			switch {
			case len(live) == 0:
				labels["pop-empty"] = true
			case interactiveLive:
				labels["pop-interactive"] = true
			default:
				labels["pop-file"] = true
			}
			if len(live) >= 2 {
				labels["NT:pop-after-2-pushes"] = true
				v.nontrivial = true
			}
		case opQuery:
			queries = append(queries, cmd.Arg)
			labels["query"] = true
		default:
			f.Fatalf("malformed case: unknown command %q", cmd.Op)
		}

		var next [][]frag
		var reasons []string
		seen := map[string]bool{}
		temporal := false
		for _, before := range cands {
			if cerr != nil {
				// The rejection must not stem from left-over state.
				if r := rejectionIsGenuine(dir, before, cmd, cerr); r != "" {
					reasons = append(reasons, r)
					continue
				}
			}
			for _, after := range transition(before, cmd, cerr == nil) {
				if seen[describe(after)] {
					continue
				}
				seen[describe(after)] = true
				d, tmp := diff(dir, real, after, names, queries)
				if d != "" {
					reasons = append(reasons, d)
					continue
				}
				temporal = temporal || tmp
				next = append(next, after)
			}
		}
		if len(next) == 0 {
			run.Failf(f, "after %s: %s", history(n), reasons[0])
		}
		cands = next
		if len(cands) > 1 {
			labels["two-admissible-states"] = true
		}
		if temporal {
			labels["temporal-facts-visible"] = true
		}
		if len(cands[0]) >= 3 {
			labels["depth>=3"] = true
		}
	}
	return v
}

// transition returns the admissible model states after cmd, given the state before and whether the
// interpreter accepted the command. Only a refused load of a pathset that is already live has two.
func transition(live []frag, cmd Cmd, accepted bool) [][]frag {
	live = cloneLive(live)
	interactiveLive := len(live) > 0 && live[len(live)-1].interactive()
	switch cmd.Op {
	case opDefine:
		if !accepted {
			return [][]frag{live}
		}
		if interactiveLive {
			live[len(live)-1].defs = append(live[len(live)-1].defs, cmd.Arg)
			return [][]frag{live}
		}
		return [][]frag{append(live, frag{defs: []string{cmd.Arg}})}
	case opLoad:
		without := live
		if interactiveLive {
			without = cloneLive(live[:len(live)-1])
		}
		if accepted {
			return [][]frag{append(without, frag{pathset: cmd.Arg})}
		}
		if interactiveLive && isLive(live, cmd.Arg) {
			return [][]frag{live, without}
		}
		return [][]frag{without}
	case opPop:
		if len(live) > 0 {
			live = live[:len(live)-1]
		}
	}
	return [][]frag{live}
}

func isLive(live []frag, pathset string) bool {
	for _, fr := range live {
		if !fr.interactive() && fr.pathset == pathset {
			return true
		}
	}
	return false
}

// rejectionIsGenuine checks that a command the interpreter rejected in model state live is also
// rejected by a fresh interpreter that replayed live; it returns a description otherwise.
func rejectionIsGenuine(dir string, live []frag, cmd Cmd, rerr error) string {
	if cmd.Op == opLoad {
		if isLive(live, cmd.Arg) {
			return "" // refusing or re-analysing a pathset that is already loaded: both are allowed
		}
		if len(live) > 0 && live[len(live)-1].interactive() {
			live = live[:len(live)-1]
		}
	}
	ref, problem := replay(dir, live)
	if problem != "" {
		return "a fresh interpreter replaying the live fragments " + describe(live) + " " + problem
	}
	var err error
	p := guard(func() {
		if cmd.Op == opLoad {
			err = ref.Load(cmd.Arg)
		} else {
			err = ref.Define(cmd.Arg)
		}
	})
	if p != "" {
		return fmt.Sprintf("%s %q panicked on the fresh interpreter: %s", cmd.Op, cmd.Arg, p)
	}
	if err == nil {
		return fmt.Sprintf("%s %q was rejected (%v) but a fresh interpreter that replayed the live fragments %s accepts it", cmd.Op, cmd.Arg, rerr, describe(live))
	}
	return ""
}

// ---------------------------------------------------------------------------------------------
// Generator.

// rng draws an integer of [lo, hi] (hi-lo < 256) uniformly. rapid.IntRange is deliberately biased
// towards small values (0..9 of 0..99 comes up in 40% of the draws), which would distort every
// weighted choice below; twelve fair coin flips are not. All-false (what rapid shrinks to) is lo.
func rng(t *rapid.T, label string, lo, hi int) int {
	v := 0
	for i := 0; i < 12; i++ {
		if rapid.Bool().Draw(t, label) {
			v |= 1 << i
		}
	}
	return lo + v*(hi-lo+1)>>12
}

func pick[T any](t *rapid.T, label string, xs ...T) T {
	return xs[rng(t, label, 0, len(xs)-1)]
}

func chance(t *rapid.T, label string, percent int) bool {
	return rng(t, label, 0, 99) < percent
}

func num(t *rapid.T) int { return rng(t, "c", 0, 3) }

// interval draws a fact annotation; valid unless backwards.
func interval(t *rapid.T, backwards bool) string {
	a := rng(t, "d1", 1, 4)
	b := rng(t, "d2", a, 5)
	if backwards {
		a, b = b+1, a
	}
	return fmt.Sprintf("@[2024-01-%02d, 2024-01-%02d]", a, b)
}

// File kinds.
const (
	fBase      = "base"      // independent: declared (with bounds) and synthetic predicates, rules, temporal facts
	fDependent = "dependent" // uses / extends predicates of an earlier base file
	fParseErr  = "parse-error"
	fAnalysis  = "analysis-error"
	fEvalErr   = "eval-error" // accepted by analysis, evaluation fails
	fConflict  = "conflict"   // defines a predicate that an earlier base file defines
	fRedeclare = "redeclare"  // declares a predicate an earlier base file only uses without a declaration
	fEmpty     = "empty"
)

func genBase(t *rapid.T, k int) string {
	var sb strings.Builder
	if chance(t, "hasE", 70) {
		fmt.Fprintf(&sb, "Decl e%d(X) descr [extensional()] bound [/number].\n", k)
		for i, n := 0, rng(t, "ne", 0, 2); i < n; i++ {
			fmt.Fprintf(&sb, "e%d(%d).\n", k, num(t))
		}
	}
	fmt.Fprintf(&sb, "Decl p%d(X) bound [/number].\n", k)
	for i, n := 0, rng(t, "np", 1, 3); i < n; i++ {
		fmt.Fprintf(&sb, "p%d(%d).\n", k, num(t))
	}
	for i, n := 0, rng(t, "ns", 0, 2); i < n; i++ {
		fmt.Fprintf(&sb, "s%d(%d).\n", k, num(t))
	}
	if chance(t, "hasR", 60) {
		if chance(t, "declR", 60) {
			fmt.Fprintf(&sb, "Decl r%d(X) bound [/number].\n", k)
		}
		switch rng(t, "rshape", 0, 2) {
		case 0:
			fmt.Fprintf(&sb, "r%d(X) :- p%d(X).\n", k, k)
		case 1:
			fmt.Fprintf(&sb, "r%d(X) :- p%d(X), X != %d.\n", k, k, num(t))
		default:
			fmt.Fprintf(&sb, "r%d(Y) :- p%d(X), Y = fn:plus(X, %d).\n", k, k, num(t))
		}
	}
	if chance(t, "hasT", 60) {
		if chance(t, "extT", 50) {
			fmt.Fprintf(&sb, "Decl t%d(X) temporal descr [extensional()] bound [/number].\n", k)
		} else {
			fmt.Fprintf(&sb, "Decl t%d(X) temporal bound [/number].\n", k)
		}
		for i, n := 0, rng(t, "nt", 0, 2); i < n; i++ {
			fmt.Fprintf(&sb, "t%d(%d)%s.\n", k, num(t), interval(t, false))
		}
		if chance(t, "hasU", 40) {
			fmt.Fprintf(&sb, "u%d(X)@[S, E] :- t%d(X)@[S, E].\n", k, k)
		}
		if chance(t, "hasV", 40) {
			fmt.Fprintf(&sb, "v%d(X) :- t%d(X)@[S, E].\n", k, k)
		}
	}
	return sb.String()
}

func genDependent(t *rapid.T, k, j int) string {
	var sb strings.Builder
	n := rng(t, "nclauses", 1, 3)
	for i := 0; i < n; i++ {
		switch rng(t, "dep", 0, 7) {
		case 0:
			fmt.Fprintf(&sb, "q%d(X) :- p%d(X).\n", k, j)
		case 1:
			fmt.Fprintf(&sb, "q%d(X) :- p%d(X), e%d(X).\n", k, j, j)
		case 2:
			fmt.Fprintf(&sb, "q%d(X) :- r%d(X).\n", k, j)
		case 3: // O4 when s<j> is synthetic: fails bounds checking in a loaded file
			fmt.Fprintf(&sb, "q%d(X) :- s%d(X).\n", k, j)
		case 4: // more facts for an extensional predicate of the earlier file
			fmt.Fprintf(&sb, "e%d(%d).\n", j, num(t))
		case 5:
			fmt.Fprintf(&sb, "t%d(%d)%s.\n", j, num(t), interval(t, false))
		case 6:
			fmt.Fprintf(&sb, "u%d(X)@[S, E] :- t%d(X)@[S, E].\n", k, j)
		default:
			fmt.Fprintf(&sb, "v%d(X) :- t%d(X)@[S, E].\n", k, j)
		}
	}
	if chance(t, "ownP", 50) {
		fmt.Fprintf(&sb, "Decl p%d(X) bound [/number].\np%d(%d).\n", k, k, num(t))
	}
	return sb.String()
}

func genFile(t *rapid.T, k int, bases []int) File {
	f := File{Name: fmt.Sprintf("f%d.mg", k)}
	kinds := []string{fBase, fBase, fParseErr, fAnalysis, fEvalErr, fEmpty}
	if len(bases) > 0 {
		kinds = append(kinds, fDependent, fDependent, fDependent, fConflict, fRedeclare)
	}
	f.Kind = pick(t, "filekind", kinds...)
	if k == 0 {
		f.Kind = fBase
	}
	j := 0
	if len(bases) > 0 {
		j = pick(t, "dependsOn", bases...)
	}
	switch f.Kind {
	case fBase:
		f.Text = genBase(t, k)
	case fDependent:
		f.Text = genDependent(t, k, j)
	case fParseErr:
		f.Text = fmt.Sprintf("p%d(%d).\n", k, num(t)) + pick(t, "broken",
			fmt.Sprintf("p%d(1\n", k), fmt.Sprintf("q%d(X) :- .\n", k), fmt.Sprintf("q%d(X) :- p%d(X)\n", k, k), "Decl .\n")
	case fAnalysis:
		f.Text = fmt.Sprintf("p%d(%d).\n", k, num(t)) + pick(t, "illformed",
			fmt.Sprintf("q%d(X) :- nope%d(X).\n", k, k),
			fmt.Sprintf("q%d(X, Y) :- p%d(X).\n", k, k),
			fmt.Sprintf("p%d(1, 2).\n", k),
			fmt.Sprintf("q%d(X) :- p%d(X, X).\n", k, k),
			fmt.Sprintf("Decl p%d(X).\nDecl p%d(X).\n", k, k))
	case fEvalErr:
		f.Text = pick(t, "evalerr",
			fmt.Sprintf("Decl p%d(X) bound [/number].\np%d(%d).\nz%d(Y) :- p%d(X), Y = fn:div(X, 0).\n", k, k, num(t), k, k),
			fmt.Sprintf("p%d(%d).\ny%d(%d)%s.\n", k, num(t), k, num(t), interval(t, true)))
	case fConflict:
		f.Text = fmt.Sprintf("Decl p%d(X) bound [/number].\np%d(%d).\n", k, k, num(t)) + pick(t, "clash",
			fmt.Sprintf("p%d(%d).\n", j, num(t)),
			fmt.Sprintf("r%d(X) :- p%d(X).\n", j, k),
			fmt.Sprintf("s%d(%d).\n", j, num(t)),
			fmt.Sprintf("Decl p%d(X) bound [/number].\n", j))
	case fRedeclare:
		f.Text = fmt.Sprintf("Decl s%d(X) bound [/number].\nx%d(X) :- s%d(X).\n", j, k, j)
	case fEmpty:
		f.Text = pick(t, "emptytext", "", "\n", "# nothing here\n")
	}
	return f
}

// filePred draws a predicate of file j (whatever its kind: the name may well be unknown).
func filePred(t *rapid.T, j int) string {
	return pick(t, "filepred", "p", "p", "e", "s", "r", "q") + fmt.Sprint(j)
}

// Define kinds.
const (
	dFact      = "fact"
	dRule      = "rule"
	dDecl      = "decl"
	dTemporal  = "temporal"
	dExtend    = "extend-extensional"
	dMulti     = "multi"
	dParseErr  = "parse-error"
	dAnalysis  = "analysis-error"
	dEvalErr   = "eval-error"
	dRedefine  = "redefine-file-predicate"
	dRedeclare = "redeclare-file-predicate"
)

// genDefine draws a definition; j is the file whose predicates it may mention.
func genDefine(t *rapid.T, j int) Cmd {
	kind := pick(t, "defkind", dFact, dFact, dFact, dRule, dRule, dRule, dDecl, dTemporal, dTemporal, dExtend, dMulti,
		dParseErr, dAnalysis, dAnalysis, dEvalErr, dRedefine, dRedefine, dRedeclare)
	i := rng(t, "ipred", 0, 2)
	var text string
	switch kind {
	case dFact:
		text = fmt.Sprintf("i%d(%d).", i, num(t))
	case dRule:
		from := filePred(t, j)
		if chance(t, "fromBuffer", 35) {
			from = fmt.Sprintf("i%d", (i+1)%3)
		}
		text = fmt.Sprintf("k%d(X) :- %s(X).", i, from)
	case dDecl:
		text = fmt.Sprintf("Decl i%d(X).", i)
	case dTemporal:
		text = pick(t, "tdef",
			fmt.Sprintf("j%d(%d)%s.", i, num(t), interval(t, false)),
			fmt.Sprintf("w%d(X) :- t%d(X)@[S, E].", i, j),
			fmt.Sprintf("w%d(X) :- j%d(X)@[S, E].", i, i),
			fmt.Sprintf("t%d(%d)%s.", j, num(t), interval(t, false)))
	case dExtend:
		text = fmt.Sprintf("e%d(%d).", j, num(t))
	case dMulti:
		text = fmt.Sprintf("i%d(%d).\nk%d(X) :- i%d(X).", i, num(t), i, i)
	case dParseErr:
		text = pick(t, "broken", fmt.Sprintf("i%d(.", i), fmt.Sprintf("k%d(X) :- .", i), fmt.Sprintf("i%d(1)) .", i))
	case dAnalysis:
		text = pick(t, "illformed",
			fmt.Sprintf("k%d(X) :- nope(X).", i),
			fmt.Sprintf("k%d(X) :- i%d(Y).", i, i),
			fmt.Sprintf("i%d(1, 2).", i),
			fmt.Sprintf("k%d(X) :- %s(X, X).", i, filePred(t, j)))
	case dEvalErr:
		text = pick(t, "evalerr",
			fmt.Sprintf("z%d(Y) :- %s(X), Y = fn:div(X, 0).", i, filePred(t, j)),
			fmt.Sprintf("z%d(Y) :- i%d(X), Y = fn:div(X, 0).", i, i),
			fmt.Sprintf("j%d(%d)%s.", i, num(t), interval(t, true)))
	case dRedefine:
		text = pick(t, "redef",
			fmt.Sprintf("%s(%d).", filePred(t, j), num(t)),
			fmt.Sprintf("%s(X) :- i%d(X).", filePred(t, j), i),
			fmt.Sprintf("t%d(%d)%s.", j, num(t), interval(t, false)))
	case dRedeclare:
		text = fmt.Sprintf("Decl %s(X).", filePred(t, j))
		if chance(t, "withBadClause", 50) {
			text += fmt.Sprintf("\nk%d(X) :- nope(X).", i)
		}
	}
	return Cmd{Op: opDefine, Arg: text, Kind: kind}
}

func genCase(t *rapid.T) Case {
	var c Case
	nf := rng(t, "nfiles", 4, 6)
	var bases, good, empties []int
	for k := 0; k < nf; k++ {
		f := genFile(t, k, bases)
		switch f.Kind {
		case fBase:
			bases = append(bases, k)
			good = append(good, k)
		case fEmpty:
			empties = append(empties, k)
			good = append(good, k)
		case fDependent, fRedeclare:
			good = append(good, k)
		}
		c.Files = append(c.Files, f)
	}
	ncmd := rng(t, "ncmds", 1, 14)
	// The generator keeps a rough estimate of the stack (assuming that files of a loadable kind load
	// and definitions are accepted) only to steer the history towards deep stacks, pops that have
	// something to pop and definitions that mention loaded predicates. The oracle never uses it.
	var stack [][]int // file indices per estimated fragment; nil = interactive
	lastLoad := ""
	for n := 0; n < ncmd; n++ {
		depth := len(stack)
		wLoad, wDefine, wPop, wQuery := 30, 32, 26, 12
		if depth == 0 {
			wLoad, wDefine, wPop, wQuery = 62, 30, 3, 5
		} else if depth == 1 {
			wLoad, wDefine, wPop, wQuery = 45, 35, 10, 10
		}
		op := rng(t, "op", 0, wLoad+wDefine+wPop+wQuery-1)
		// a file that is probably loaded, else any
		loadedFile := rng(t, "anyfile", 0, nf-1)
		var loaded []int
		for _, fr := range stack {
			loaded = append(loaded, fr...)
		}
		if len(loaded) > 0 && chance(t, "mentionLoaded", 75) {
			loadedFile = pick(t, "loadedfile", loaded...)
		}
		switch {
		case op < wLoad:
			var arg string
			pushes := false
			idx := []int{}
			if lastLoad != "" && chance(t, "sameAgain", 8) {
				arg = lastLoad
			} else if len(empties) > 0 && chance(t, "emptyFile", 15) {
				// a file without definitions can be analysed any number of times (K19)
				arg = c.Files[pick(t, "empty", empties...)].Name
			} else {
				np := pick(t, "npaths", 1, 1, 1, 1, 1, 1, 2, 2, 3)
				isLoaded := map[int]bool{}
				for _, k := range loaded {
					isLoaded[k] = true
				}
				var fresh []int // loadable kinds that are probably not loaded yet
				for _, k := range good {
					if !isLoaded[k] {
						fresh = append(fresh, k)
					}
				}
				pool := seq(nf)
				if chance(t, "freshGoodFiles", 75) && len(fresh) >= np {
					pool = fresh
				}
				perm := rapid.Permutation(pool).Draw(t, "paths")
				idx = append(idx, perm[:np]...)
				if np > 1 && chance(t, "sorted", 60) { // dependencies point to lower indices
					sort.Ints(idx)
				}
				var paths []string
				pushes = true
				for _, k := range idx {
					paths = append(paths, c.Files[k].Name)
					if isLoaded[k] || (c.Files[k].Kind != fBase && c.Files[k].Kind != fDependent && c.Files[k].Kind != fEmpty && c.Files[k].Kind != fRedeclare) {
						pushes = false
					}
				}
				arg = strings.Join(paths, ",")
			}
			lastLoad = arg
			if depth > 0 && stack[depth-1] == nil {
				stack = stack[:depth-1]
			}
			if pushes {
				stack = append(stack, idx)
			}
			c.Cmds = append(c.Cmds, Cmd{Op: opLoad, Arg: arg})
		case op < wLoad+wDefine:
			d := genDefine(t, loadedFile)
			c.Cmds = append(c.Cmds, d)
			probablyOK := d.Kind == dFact || d.Kind == dDecl || d.Kind == dMulti || d.Kind == dTemporal || d.Kind == dRule
			if probablyOK && (depth == 0 || stack[depth-1] != nil) {
				stack = append(stack, nil)
			}
		case op < wLoad+wDefine+wPop:
			c.Cmds = append(c.Cmds, Cmd{Op: opPop})
			if depth > 0 {
				stack = stack[:depth-1]
			}
		default:
			arg := pick(t, "qshape",
				fmt.Sprintf("%s(X)", filePred(t, loadedFile)),
				fmt.Sprintf("%s(%d)", filePred(t, loadedFile), num(t)),
				fmt.Sprintf("t%d(X)", loadedFile),
				fmt.Sprintf("i%d(%d)", rng(t, "qi", 0, 2), num(t)))
			c.Cmds = append(c.Cmds, Cmd{Op: opQuery, Arg: arg})
		}
	}
	return c
}

func seq(n int) []int {
	res := make([]int, n)
	for i := range res {
		res[i] = i
	}
	return res
}

// ---------------------------------------------------------------------------------------------
// Tests.

func TestC16(t *testing.T) {
	baseDir = t.TempDir()
	run := stats.Begin("C16", "TestC16")
	defer run.Finish(t)
	rapid.Check(t, func(rt *rapid.T) {
		c := genCase(rt)
		run.Current(c)
		v := check(run, rt, c)
		run.Case(v.nontrivial, c.hash(), v.labels...)
		if v.nontrivial {
			run.Sample("history", c)
		}
	})
}

func TestReplay(t *testing.T) {
	var c Case
	if !stats.LoadReplay(t, &c) {
		return
	}
	baseDir = t.TempDir()
	run := stats.Begin("C16", "TestReplay")
	check(run, t, c)
}
