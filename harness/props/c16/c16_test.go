// Package c16 checks property C16: interactive definitions and pop compose like a stack.
//
// A case is a set of generated source files plus a history of interpreter commands (define, load,
// pop, query). The history is run against one long-lived interpreter; after EVERY command a fresh
// interpreter replays only the fragments that are still live (in order) and both must answer alike
// for every predicate name that occurs anywhere in the case: ParseQuery(name) success (and arity),
// Show(name) success, and the key set of Query results (atoms through val.AtomKey, temporal facts
// together with their interval bounds: a bound is a timestamp or minus/plus infinity, so eternal,
// half-open, point and closed intervals all compare by value). Besides the bare names, which only
// parse while some live fragment knows the predicate, every name is also asked as an all-variables
// atom name(X0, ..) with each arity it is written with: such a query reads the stores whatever the
// known-predicate table says and so sees facts that a removed fragment left behind.
//
// The generated files and definitions cover, next to plain facts and rules, every shape of temporal
// head annotation (eternal @[_, _], half-open @[t, _] / @[_, t], point @[t], interval @[t1, t2],
// variable bounds copied from a temporal body literal), drawn per fragment from a mode (mixed,
// timed only, eternal only), and non-monotone rules (aggregation with a do-transform, negation)
// together with later definitions / files that add facts to their inputs.
//
// The reference is a replay by the code under test itself, never an own semantics of Mangle: what a
// fragment means (including design observation O4: a loaded file that uses an undeclared predicate
// of an earlier file fails bounds checking) is whatever the fresh interpreter makes of it. The
// only modelled part is which fragments are live:
//
//   - define(text): accepted (nil error) => text joins the interactive fragment (the last live
//     fragment); rejected => nothing changes.
//   - load(pathset): interactive definitions are dropped first (documented: "::load pops interactive
//     buffer and loads"); accepted => the pathset is pushed; rejected => nothing else changes.
//     A pathset that is already live: if the interpreter refuses it, either "nothing changed" or
//     "only the interactive definitions were dropped" is accepted (the statement leaves that open);
//     if it accepts it, it is a further fragment.
//   - pop: removes the last live fragment (interactive definitions count as the last one).
//
// Additionally a rejected command must also be rejected by a fresh interpreter that replays the
// live fragments and then receives the same command (otherwise the rejection was caused by
// left-over state, e.g. a poisoned interactive buffer), and every live fragment must be accepted
// again by the fresh interpreter. Panics anywhere are violations.
package c16

import (
	"bytes"
	"encoding/json"
	"fmt"
	"os"
	"path/filepath"
	"regexp"
	"sort"
	"strings"
	"testing"

	"codeberg.org/TauCeti/mangle-go/ast"
	"codeberg.org/TauCeti/mangle-go/interpreter"
	"pgregory.net/rapid"
	"verif/stats"
	"verif/val"
)

// Command kinds.
const (
	opDefine = "define"
	opLoad   = "load"
	opPop    = "pop"
	opQuery  = "query"
)

// File is one generated source file. Kind is a generator label only; the oracle reads Text.
type File struct {
	Name string `json:"name"`
	Kind string `json:"kind"`
	Text string `json:"text"`
}

// Cmd is one interpreter command. Arg: clause text (define), comma-separated pathset (load),
// query text (query: a predicate name or an atom pattern), empty (pop). Kind is a generator label.
type Cmd struct {
	Op   string `json:"op"`
	Arg  string `json:"arg,omitempty"`
	Kind string `json:"kind,omitempty"`
}

// Case is the replay format.
type Case struct {
	Files []File `json:"files"`
	Cmds  []Cmd  `json:"cmds"`
}

func (c Case) hash() uint64 {
	b, _ := json.Marshal(c)
	return stats.Hash(string(b))
}

// baseDir is the directory below which every case gets its own directory (set by the test
// functions from t.TempDir()).
var baseDir string

// ---------------------------------------------------------------------------------------------
// Observation of an interpreter.

var nameRE = regexp.MustCompile(`([a-z][a-z0-9_]*)\(([^()]*)\)?`)

// scan calls fn(name, arity) for every predicate occurrence `name(args)` in text; arity is -1 if the
// argument list is not closed (broken text). Built-in functions (fn:plus(..)) and the descriptor
// atom extensional() are not predicates.
func scan(text string, fn func(name string, arity int)) {
	for _, m := range nameRE.FindAllStringSubmatchIndex(text, -1) {
		if strings.HasSuffix(text[:m[0]], "fn:") {
			continue
		}
		name := text[m[2]:m[3]]
		if name == "extensional" {
			continue
		}
		arity := -1
		if m[4] >= 0 && strings.TrimSpace(text[m[4]:m[5]]) != "" {
			arity = strings.Count(text[m[4]:m[5]], ",") + 1
		}
		fn(name, arity)
	}
}

// names returns every predicate name that occurs in the case (sorted) plus one that never does,
// and for every name and every arity it is written with the all-variables pattern name(X0, ..).
// The patterns matter for predicates that no live fragment knows: ParseQuery(name) fails for them,
// but a query atom still reads the stores and so sees facts that a removed fragment left behind.
func (c Case) names() (names, patterns []string) {
	set := map[string]bool{"nosuch": true}
	pats := map[string]bool{"nosuch(X0)": true}
	add := func(text string) {
		scan(text, func(name string, arity int) {
			set[name] = true
			if arity > 0 && arity <= 3 {
				vars := make([]string, arity)
				for i := range vars {
					vars[i] = fmt.Sprintf("X%d", i)
				}
				pats[name+"("+strings.Join(vars, ", ")+")"] = true
			}
		})
	}
	for _, f := range c.Files {
		add(f.Text)
	}
	for _, cmd := range c.Cmds {
		if cmd.Op == opDefine || cmd.Op == opQuery {
			add(cmd.Arg)
		}
	}
	for n := range set {
		names = append(names, n)
	}
	for n := range pats {
		patterns = append(patterns, n)
	}
	sort.Strings(names)
	sort.Strings(patterns)
	return names, patterns
}

func boundKey(b ast.TemporalBound) string {
	if b.Type == ast.VariableBound {
		return fmt.Sprintf("%d:var:%s", b.Type, b.Variable.Symbol)
	}
	return fmt.Sprintf("%d:%d", b.Type, b.Timestamp)
}

// termKey is the canonical key of one query result.
func termKey(t ast.Term) string {
	switch x := t.(type) {
	case ast.Atom:
		return val.AtomKey(x)
	case ast.TemporalAtom:
		if x.Interval == nil {
			return val.AtomKey(x.Atom) + "@nil"
		}
		return val.AtomKey(x.Atom) + "@[" + boundKey(x.Interval.Start) + "," + boundKey(x.Interval.End) + "]"
	}
	return fmt.Sprintf("?unexpected %T %v", t, t)
}

// shapeOf classifies the interval of a temporal result (label only).
func shapeOf(t ast.Term) string {
	x, ok := t.(ast.TemporalAtom)
	if !ok || x.Interval == nil {
		return ""
	}
	s, e := x.Interval.Start, x.Interval.End
	switch {
	case x.Interval.IsEternal():
		return "eternal"
	case s.Type == ast.TimestampBound && e.Type == ast.TimestampBound && s.Timestamp == e.Timestamp:
		return "point"
	case s.Type == ast.TimestampBound && e.Type == ast.TimestampBound:
		return "interval"
	case s.Type == ast.TimestampBound:
		return "from"
	case e.Type == ast.TimestampBound:
		return "until"
	}
	return "other"
}

// answer is what an interpreter says about one query text.
type answer struct {
	parseOK bool
	arity   int
	showOK  bool
	keys    []string        // sorted, without duplicates
	shapes  map[string]bool // interval shapes among the results (label only, not compared)
}

func (a answer) String() string {
	if !a.parseOK {
		return fmt.Sprintf("{unknown to ParseQuery, Show ok=%v}", a.showOK)
	}
	return fmt.Sprintf("{arity %d, Show ok=%v, %d facts %v}", a.arity, a.showOK, len(a.keys), a.keys)
}

func (a answer) equal(b answer) bool {
	if a.parseOK != b.parseOK || a.showOK != b.showOK || a.arity != b.arity || len(a.keys) != len(b.keys) {
		return false
	}
	for i := range a.keys {
		if a.keys[i] != b.keys[i] {
			return false
		}
	}
	return true
}

// guard runs fn and turns a panic into a description.
func guard(fn func()) (panicked string) {
	defer func() {
		if p := recover(); p != nil {
			panicked = fmt.Sprint(p)
		}
	}()
	fn()
	return ""
}

// ask queries interpreter i for text (a predicate name or an atom pattern).
func ask(i *interpreter.Interpreter, text string, withShow bool) (answer, string) {
	var a answer
	p := guard(func() {
		atom, err := i.ParseQuery(text)
		if err == nil {
			a.parseOK = true
			a.arity = len(atom.Args)
			res, qerr := i.Query(atom)
			if qerr != nil {
				a.keys = append(a.keys, "query error: "+qerr.Error())
			}
			set := map[string]bool{}
			for _, r := range res {
				set[termKey(r)] = true
				if sh := shapeOf(r); sh != "" {
					if a.shapes == nil {
						a.shapes = map[string]bool{}
					}
					a.shapes[sh] = true
				}
			}
			for k := range set {
				a.keys = append(a.keys, k)
			}
			sort.Strings(a.keys)
		}
		if withShow {
			a.showOK = i.Show(text) == nil
		}
	})
	return a, p
}

// ---------------------------------------------------------------------------------------------
// Model: the list of live fragments.

type frag struct {
	pathset string   // loaded fragment
	defs    []string // interactive fragment: the accepted definitions in order
}

func (f frag) interactive() bool { return f.defs != nil }

func cloneLive(live []frag) []frag {
	res := make([]frag, len(live))
	for i, f := range live {
		res[i] = frag{pathset: f.pathset}
		if f.defs != nil {
			res[i].defs = append([]string{}, f.defs...)
		}
	}
	return res
}

func describe(live []frag) string {
	var parts []string
	for _, f := range live {
		if f.interactive() {
			parts = append(parts, fmt.Sprintf("define%q", f.defs))
		} else {
			parts = append(parts, "load "+f.pathset)
		}
	}
	return "[" + strings.Join(parts, "; ") + "]"
}

// replay builds a fresh interpreter and feeds it the live fragments in order.
// problem is non-empty if the fresh interpreter rejects one of them or panics.
func replay(dir string, live []frag) (i *interpreter.Interpreter, problem string) {
	var out bytes.Buffer
	p := guard(func() {
		i = interpreter.New(&out, dir, nil)
		for _, f := range live {
			if f.interactive() {
				for _, d := range f.defs {
					if err := i.Define(d); err != nil {
						problem = fmt.Sprintf("rejects the live definition %q: %v", d, err)
						return
					}
				}
			} else if err := i.Load(f.pathset); err != nil {
				problem = fmt.Sprintf("rejects the live pathset %q: %v", f.pathset, err)
				return
			}
		}
	})
	if p != "" {
		problem = "panicked: " + p
	}
	return i, problem
}

// observation is what the long-lived interpreter answered after a command (labels only).
type observation struct {
	answers map[string]answer // by query text
	shapes  map[string]bool   // interval shapes of the temporal facts the reference shows
}

// diff compares the long-lived interpreter with a fresh replay of live on every name (with Show)
// and on the atom patterns (all-variables patterns of the names, query commands seen so far); it
// returns a description of the first difference or "".
func diff(dir string, real *interpreter.Interpreter, live []frag, names, patterns []string) (string, observation) {
	obs := observation{answers: map[string]answer{}, shapes: map[string]bool{}}
	ref, problem := replay(dir, live)
	if problem != "" {
		return "a fresh interpreter replaying the live fragments " + describe(live) + " " + problem, obs
	}
	for pass, texts := range [][]string{names, patterns} {
		for _, n := range texts {
			got, p := ask(real, n, pass == 0)
			if p != "" {
				return fmt.Sprintf("query %q panicked: %s", n, p), obs
			}
			want, p := ask(ref, n, pass == 0)
			if p != "" {
				return fmt.Sprintf("query %q panicked on the fresh interpreter: %s", n, p), obs
			}
			for sh := range want.shapes {
				obs.shapes[sh] = true
			}
			if !got.equal(want) {
				return fmt.Sprintf("?%s answers %v, a fresh interpreter after %s answers %v", n, got, describe(live), want), obs
			}
			obs.answers[n] = got
		}
	}
	return "", obs
}

// retracted reports whether some fact that before was among the answers is not among them in now.
func retracted(before, now observation) bool {
	for text, b := range before.answers {
		n, ok := now.answers[text]
		if !ok {
			continue
		}
		have := map[string]bool{}
		for _, k := range n.keys {
			have[k] = true
		}
		for _, k := range b.keys {
			if !have[k] {
				return true
			}
		}
	}
	return false
}

// Text classification of a fragment, for labels only. The generator writes one clause per line.

var (
	negRE  = regexp.MustCompile(`![a-z]`)
	factRE = regexp.MustCompile(`^([a-z][a-z0-9_]*)\([0-9/a-z]*\)(@\[[^\]]*\])?\.$`)
)

// headClass tells which temporal annotations the clause heads of text carry: "" (none),
// "eternal-only" (at least one @[_, _] and no other), "timed-only" or "mixed".
func headClass(text string) string {
	eternal, timed := 0, 0
	for _, line := range strings.Split(text, "\n") {
		head, _, _ := strings.Cut(line, ":-")
		switch {
		case strings.HasPrefix(line, "Decl") || !strings.Contains(head, "@["):
		case strings.Contains(head, "@[_, _]"):
			eternal++
		default:
			timed++
		}
	}
	switch {
	case eternal > 0 && timed > 0:
		return "mixed"
	case eternal > 0:
		return "eternal-only"
	case timed > 0:
		return "timed-only"
	}
	return ""
}

// nonMonotoneInputs returns the predicates that occur in the body of an aggregating or negating
// rule of text.
func nonMonotoneInputs(text string) map[string]bool {
	res := map[string]bool{}
	for _, line := range strings.Split(text, "\n") {
		_, body, isRule := strings.Cut(line, ":-")
		if !isRule || !(strings.Contains(body, "|>") || negRE.MatchString(body)) {
			continue
		}
		scan(body, func(name string, _ int) { res[name] = true })
	}
	return res
}

// factPreds returns the predicates for which text has a fact.
func factPreds(text string) map[string]bool {
	res := map[string]bool{}
	for _, line := range strings.Split(text, "\n") {
		if m := factRE.FindStringSubmatch(strings.TrimSpace(line)); m != nil {
			res[m[1]] = true
		}
	}
	return res
}

// fragText returns the source text of a fragment.
func (c Case) fragText(f frag) string {
	if f.interactive() {
		return strings.Join(f.defs, "\n")
	}
	var parts []string
	for _, p := range strings.Split(f.pathset, ",") {
		for _, fl := range c.Files {
			if fl.Name == p {
				parts = append(parts, fl.Text)
			}
		}
	}
	return strings.Join(parts, "\n")
}

// ---------------------------------------------------------------------------------------------
// The oracle.

type verdict struct {
	nontrivial bool
	labels     []string
}

func writeFiles(dir string, c Case) error {
	for _, f := range c.Files {
		if err := os.WriteFile(filepath.Join(dir, f.Name), []byte(f.Text), 0o644); err != nil {
			return err
		}
	}
	return nil
}

func errKind(err error) string {
	switch msg := err.Error(); {
	case strings.HasPrefix(msg, "parsing failed"), strings.HasPrefix(msg, "error parsing"):
		return "parse"
	case strings.HasPrefix(msg, "analysis failed"):
		return "analysis"
	case strings.HasPrefix(msg, "evaluation failed"):
		return "eval"
	}
	return "other"
}

func check(run *stats.Run, f stats.Failer, c Case) (v verdict) {
	labels := map[string]bool{}
	defer func() {
		for l := range labels {
			v.labels = append(v.labels, l)
		}
		sort.Strings(v.labels)
	}()

	root := baseDir
	if root == "" {
		root = os.Getenv("VERIF_OUT")
	}
	if root != "" {
		os.MkdirAll(root, 0o755)
	}
	dir, err := os.MkdirTemp(root, "c16case")
	if err != nil {
		f.Fatalf("infrastructure: cannot create the case directory: %v", err)
	}
	defer os.RemoveAll(dir)
	if err := writeFiles(dir, c); err != nil {
		f.Fatalf("infrastructure: cannot write the case files: %v", err)
	}
	kindOf := map[string]string{}
	for _, fl := range c.Files {
		kindOf[fl.Name] = fl.Kind
	}
	names, patterns := c.names()

	var out bytes.Buffer
	var real *interpreter.Interpreter
	if p := guard(func() { real = interpreter.New(&out, dir, nil) }); p != "" {
		run.Failf(f, "interpreter.New panicked: %s", p)
	}
	// cands: the admissible model states (lists of live fragments); more than one only after a
	// refused load of an already loaded pathset whose two readings cannot be told apart yet.
	cands := [][]frag{nil}
	var queries []string // query commands seen so far are re-asked after every later command
	var prev observation // what the interpreter answered after the previous command
	// bufferRetracted: an accepted define made a fact of the live interactive definitions disappear
	// (a non-monotone rule saw its input change) and these definitions are still live.
	bufferRetracted := false
	rejectedLoads := map[string]bool{} // pathsets the interpreter rejected earlier in the history
	history := func(n int) string {
		var parts []string
		for _, cmd := range c.Cmds[:n+1] {
			parts = append(parts, strings.ReplaceAll(strings.TrimSpace(cmd.Op+" "+cmd.Arg), "\n", `\n`))
		}
		return strings.Join(parts, " | ")
	}

	for n, cmd := range c.Cmds {
		out.Reset()
		live := cands[0] // labels are taken from the first admissible state
		interactiveLive := len(live) > 0 && live[len(live)-1].interactive()
		var cerr error
		switch cmd.Op {
		case opDefine:
			if p := guard(func() { cerr = real.Define(cmd.Arg) }); p != "" {
				run.Failf(f, "after %s: Define panicked: %s", history(n), p)
			}
			if cerr == nil {
				labels["define-ok"] = true
				labels["define-ok:"+cmd.Kind] = true
				if interactiveLive {
					labels["define-extends-buffer"] = true
				}
				below := map[string]bool{}
				for _, fr := range live {
					for n := range nonMonotoneInputs(c.fragText(fr)) {
						below[n] = true
					}
				}
				for n := range factPreds(cmd.Arg) {
					if below[n] {
						labels["define-adds-fact-under-live-nonmonotone-rule"] = true
					}
				}
			} else {
				labels["define-rejected"] = true
				labels["define-rejected:"+errKind(cerr)] = true
				if interactiveLive {
					labels["NT:rejected-define-after-accepted"] = true
					v.nontrivial = true
					if errKind(cerr) != "parse" && bufferRetracted {
						labels["define-rejected-after-retraction"] = true
					}
					if hc := headClass(c.fragText(live[len(live)-1])); errKind(cerr) != "parse" && hc != "" {
						labels["define-rejected-over-temporal-buffer:"+hc] = true
					}
				}
				if errKind(cerr) == "eval" && headClass(cmd.Arg) != "" {
					labels["define-rejected-at-eval-with-temporal-heads:"+headClass(cmd.Arg)] = true
				}
			}
		case opLoad:
			if p := guard(func() { cerr = real.Load(cmd.Arg) }); p != "" {
				run.Failf(f, "after %s: Load panicked: %s", history(n), p)
			}
			paths := strings.Split(cmd.Arg, ",")
			if len(paths) > 1 {
				labels["load-multi"] = true
			}
			if interactiveLive {
				labels["load-with-interactive-live"] = true
				if hc := headClass(c.fragText(live[len(live)-1])); hc != "" {
					labels["removed-fragment-temporal-heads:"+hc] = true
				}
			}
			text := c.fragText(frag{pathset: cmd.Arg})
			if rejectedLoads[cmd.Arg] && !isLive(live, cmd.Arg) {
				labels["load-of-earlier-rejected-pathset"] = true
				if interactiveLive {
					labels["load-of-earlier-rejected-pathset:over-interactive"] = true
				}
				if cerr == nil {
					labels["load-of-earlier-rejected-pathset:accepted-now"] = true
				}
			}
			if cerr != nil && !isLive(live, cmd.Arg) {
				rejectedLoads[cmd.Arg] = true
			}
			switch {
			case cerr == nil:
				labels["load-ok"] = true
				for _, p := range paths {
					labels["load-ok:"+kindOf[p]] = true
				}
				if isLive(live, cmd.Arg) {
					labels["load-duplicate-accepted"] = true
				}
				if strings.Contains(text, "|>") {
					labels["load-ok:has-aggregation"] = true
				}
				if negRE.MatchString(text) {
					labels["load-ok:has-negation"] = true
				}
				if hc := headClass(text); hc != "" {
					labels["load-ok:temporal-heads:"+hc] = true
				}
				below := map[string]bool{}
				for _, fr := range live {
					if !fr.interactive() {
						for n := range nonMonotoneInputs(c.fragText(fr)) {
							below[n] = true
						}
					}
				}
				for n := range factPreds(text) {
					if below[n] {
						labels["load-adds-fact-under-live-nonmonotone-rule"] = true
					}
				}
			case isLive(live, cmd.Arg):
				labels["load-duplicate-refused"] = true
			default:
				labels["load-rejected"] = true
				labels["load-rejected:"+errKind(cerr)] = true
				if len(paths) == 1 {
					labels["load-rejected:"+kindOf[paths[0]]+"-file"] = true
				}
				if len(paths) == 1 && kindOf[paths[0]] == fEvalErr && headClass(text) != "" {
					labels["load-rejected-at-eval-with-temporal-heads:"+headClass(text)] = true
				}
			}
		case opPop:
			if p := guard(func() { real.Pop() }); p != "" {
				run.Failf(f, "after %s: Pop panicked: %s", history(n), p)
			}
			switch {
			case len(live) == 0:
				labels["pop-empty"] = true
			case interactiveLive:
				labels["pop-interactive"] = true
			default:
				labels["pop-file"] = true
			}
			if len(live) > 0 {
				if hc := headClass(c.fragText(live[len(live)-1])); hc != "" {
					labels["removed-fragment-temporal-heads:"+hc] = true
				}
			}
			if len(live) >= 2 {
				labels["NT:pop-after-2-pushes"] = true
				v.nontrivial = true
			}
		case opQuery:
			queries = append(queries, cmd.Arg)
			labels["query"] = true
		default:
			f.Fatalf("malformed case: unknown command %q", cmd.Op)
		}

		var next [][]frag
		var reasons []string
		seen := map[string]bool{}
		var obs observation
		for _, before := range cands {
			if cerr != nil {
				// The rejection must not stem from left-over state.
				if r := rejectionIsGenuine(dir, before, cmd, cerr); r != "" {
					reasons = append(reasons, r)
					continue
				}
			}
			for _, after := range transition(before, cmd, cerr == nil) {
				if seen[describe(after)] {
					continue
				}
				seen[describe(after)] = true
				d, o := diff(dir, real, after, names, append(append([]string{}, patterns...), queries...))
				if d != "" {
					reasons = append(reasons, d)
					continue
				}
				obs = o
				next = append(next, after)
			}
		}
		if len(next) == 0 {
			run.Failf(f, "after %s: %s", history(n), reasons[0])
		}
		cands = next
		if len(cands) > 1 {
			labels["two-admissible-states"] = true
		}
		if len(obs.shapes) > 0 {
			labels["temporal-facts-visible"] = true
		}
		for sh := range obs.shapes {
			labels["temporal-facts-visible:"+sh] = true
		}
		top := len(cands[0]) - 1
		switch {
		case top < 0 || !cands[0][top].interactive():
			bufferRetracted = false
		case cmd.Op == opDefine && cerr == nil && interactiveLive && retracted(prev, obs):
			labels["define-retracts-fact"] = true
			bufferRetracted = true
		}
		if top >= 0 && cerr == nil && (cmd.Op == opDefine || cmd.Op == opLoad) {
			if hc := headClass(c.fragText(cands[0][top])); hc != "" {
				labels["top-fragment-temporal-heads:"+hc] = true
			}
		}
		prev = obs
		if len(cands[0]) >= 3 {
			labels["depth>=3"] = true
		}
	}
	return v
}

// transition returns the admissible model states after cmd, given the state before and whether the
// interpreter accepted the command. Only a refused load of a pathset that is already live has two.
func transition(live []frag, cmd Cmd, accepted bool) [][]frag {
	live = cloneLive(live)
	interactiveLive := len(live) > 0 && live[len(live)-1].interactive()
	switch cmd.Op {
	case opDefine:
		if !accepted {
			return [][]frag{live}
		}
		if interactiveLive {
			live[len(live)-1].defs = append(live[len(live)-1].defs, cmd.Arg)
			return [][]frag{live}
		}
		return [][]frag{append(live, frag{defs: []string{cmd.Arg}})}
	case opLoad:
		without := live
		if interactiveLive {
			without = cloneLive(live[:len(live)-1])
		}
		if accepted {
			return [][]frag{append(without, frag{pathset: cmd.Arg})}
		}
		if interactiveLive && isLive(live, cmd.Arg) {
			return [][]frag{live, without}
		}
		return [][]frag{without}
	case opPop:
		if len(live) > 0 {
			live = live[:len(live)-1]
		}
	}
	return [][]frag{live}
}

func isLive(live []frag, pathset string) bool {
	for _, fr := range live {
		if !fr.interactive() && fr.pathset == pathset {
			return true
		}
	}
	return false
}

// rejectionIsGenuine checks that a command the interpreter rejected in model state live is also
// rejected by a fresh interpreter that replayed live; it returns a description otherwise.
func rejectionIsGenuine(dir string, live []frag, cmd Cmd, rerr error) string {
	if cmd.Op == opLoad {
		if isLive(live, cmd.Arg) {
			return "" // refusing or re-analysing a pathset that is already loaded: both are allowed
		}
		if len(live) > 0 && live[len(live)-1].interactive() {
			live = live[:len(live)-1]
		}
	}
	ref, problem := replay(dir, live)
	if problem != "" {
		return "a fresh interpreter replaying the live fragments " + describe(live) + " " + problem
	}
	var err error
	p := guard(func() {
		if cmd.Op == opLoad {
			err = ref.Load(cmd.Arg)
		} else {
			err = ref.Define(cmd.Arg)
		}
	})
	if p != "" {
		return fmt.Sprintf("%s %q panicked on the fresh interpreter: %s", cmd.Op, cmd.Arg, p)
	}
	if err == nil {
		return fmt.Sprintf("%s %q was rejected (%v) but a fresh interpreter that replayed the live fragments %s accepts it", cmd.Op, cmd.Arg, rerr, describe(live))
	}
	return ""
}

// ---------------------------------------------------------------------------------------------
// Generator.

// rng draws an integer of [lo, hi] (hi-lo < 256) uniformly. rapid.IntRange is deliberately biased
// towards small values (0..9 of 0..99 comes up in 40% of the draws), which would distort every
// weighted choice below; twelve fair coin flips are not. All-false (what rapid shrinks to) is lo.
func rng(t *rapid.T, label string, lo, hi int) int {
	v := 0
	for i := 0; i < 12; i++ {
		if rapid.Bool().Draw(t, label) {
			v |= 1 << i
		}
	}
	return lo + v*(hi-lo+1)>>12
}

func pick[T any](t *rapid.T, label string, xs ...T) T {
	return xs[rng(t, label, 0, len(xs)-1)]
}

func chance(t *rapid.T, label string, percent int) bool {
	return rng(t, label, 0, 99) < percent
}

func num(t *rapid.T) int { return rng(t, "c", 0, 3) }

// interval draws a fact annotation; valid unless backwards.
func interval(t *rapid.T, backwards bool) string {
	a := rng(t, "d1", 1, 4)
	b := rng(t, "d2", a, 5)
	if backwards {
		a, b = b+1, a
	}
	return fmt.Sprintf("@[2024-01-%02d, 2024-01-%02d]", a, b)
}

// Temporal modes of a fragment: which annotations its clause heads may carry.
const (
	tmMixed   = "mixed"   // every shape, the eternal one included
	tmEternal = "eternal" // only @[_, _]: heads are annotated, yet none of them carries a time
	tmTimed   = "timed"   // every shape but the eternal one
)

func genMode(t *rapid.T) string {
	return pick(t, "tmode", tmMixed, tmMixed, tmEternal, tmEternal, tmTimed)
}

// constAnn draws a head annotation without variables (for a fact, or a rule head over any body):
// interval @[t1, t2], point @[t], half-open @[t, _] / @[_, t], eternal @[_, _].
func constAnn(t *rapid.T, tm string) string {
	if tm == tmEternal {
		return "@[_, _]"
	}
	a := rng(t, "d1", 1, 4)
	b := rng(t, "d2", a, 5)
	shapes := []string{"interval", "interval", "point", "from", "until"}
	if tm == tmMixed {
		shapes = append(shapes, "eternal", "eternal")
	}
	switch pick(t, "annshape", shapes...) {
	case "interval":
		return fmt.Sprintf("@[2024-01-%02d, 2024-01-%02d]", a, b)
	case "point":
		return fmt.Sprintf("@[2024-01-%02d]", a)
	case "from":
		return fmt.Sprintf("@[2024-01-%02d, _]", a)
	case "until":
		return fmt.Sprintf("@[_, 2024-01-%02d]", b)
	}
	return "@[_, _]"
}

// varAnn draws the head annotation of a rule whose body has a temporal literal ..@[S, E].
func varAnn(t *rapid.T, tm string) string {
	if tm == tmEternal {
		return "@[_, _]"
	}
	shapes := []string{"@[S, E]", "@[S, E]", "@[S, E]", "@[S, _]", "@[_, E]", "@[S]", "@[E]", "@[2023-12-31, E]", "@[S, 2024-02-01]"}
	if tm == tmMixed {
		shapes = append(shapes, "@[_, _]", "@[_, _]")
	}
	return pick(t, "varshape", shapes...)
}

// aggregate writes an aggregating rule for head over src (and, grouped, over the pairs of key and src).
func aggregate(t *rapid.T, head, key, src string) string {
	switch rng(t, "gshape", 0, 4) {
	case 0, 1:
		return fmt.Sprintf("%s(N) :- %s(X) |> do fn:group_by(), let N = fn:count().", head, src)
	case 2:
		return fmt.Sprintf("%s(N) :- %s(X) |> do fn:group_by(), let N = fn:sum(X).", head, src)
	case 3:
		return fmt.Sprintf("%s(N) :- %s(X) |> do fn:group_by(), let N = fn:max(X).", head, src)
	}
	return fmt.Sprintf("%s(X, N) :- %s(X), %s(Y) |> do fn:group_by(X), let N = fn:count().", head, key, src)
}

// File kinds.
const (
	fBase      = "base"      // independent: declared (with bounds) and synthetic predicates, rules, aggregation, negation, temporal facts and rules
	fDependent = "dependent" // uses / extends predicates of an earlier base file
	fParseErr  = "parse-error"
	fAnalysis  = "analysis-error"
	fEvalErr   = "eval-error" // accepted by analysis, evaluation fails
	fConflict  = "conflict"   // defines a predicate that an earlier base file defines
	fRedeclare = "redeclare"  // declares a predicate an earlier base file only uses without a declaration
	fEmpty     = "empty"
)

func genBase(t *rapid.T, k int) string {
	var sb strings.Builder
	tm := genMode(t)
	hasE := chance(t, "hasE", 70)
	if hasE {
		fmt.Fprintf(&sb, "Decl e%d(X) descr [extensional()] bound [/number].\n", k)
		for i, n := 0, rng(t, "ne", 0, 2); i < n; i++ {
			fmt.Fprintf(&sb, "e%d(%d).\n", k, num(t))
		}
	}
	fmt.Fprintf(&sb, "Decl p%d(X) bound [/number].\n", k)
	for i, n := 0, rng(t, "np", 1, 3); i < n; i++ {
		fmt.Fprintf(&sb, "p%d(%d).\n", k, num(t))
	}
	ns := rng(t, "ns", 0, 2)
	for i := 0; i < ns; i++ {
		fmt.Fprintf(&sb, "s%d(%d).\n", k, num(t))
	}
	if chance(t, "hasR", 60) {
		if chance(t, "declR", 60) {
			fmt.Fprintf(&sb, "Decl r%d(X) bound [/number].\n", k)
		}
		switch rng(t, "rshape", 0, 2) {
		case 0:
			fmt.Fprintf(&sb, "r%d(X) :- p%d(X).\n", k, k)
		case 1:
			fmt.Fprintf(&sb, "r%d(X) :- p%d(X), X != %d.\n", k, k, num(t))
		default:
			fmt.Fprintf(&sb, "r%d(Y) :- p%d(X), Y = fn:plus(X, %d).\n", k, k, num(t))
		}
	}
	// Non-monotone rules: the derived facts depend on what is NOT (yet) among the inputs.
	if chance(t, "hasG", 50) {
		src := "p"
		if hasE && chance(t, "aggOverE", 60) {
			src = "e"
		}
		sb.WriteString(aggregate(t, fmt.Sprintf("g%d", k), fmt.Sprintf("p%d", k), fmt.Sprintf("%s%d", src, k)) + "\n")
	}
	if chance(t, "hasN", 50) {
		switch {
		case hasE && chance(t, "negE", 60):
			fmt.Fprintf(&sb, "n%d(X) :- p%d(X), !e%d(X).\n", k, k, k)
		case ns > 0 && chance(t, "negS", 60):
			fmt.Fprintf(&sb, "n%d(X) :- p%d(X), !s%d(X).\n", k, k, k)
		default:
			fmt.Fprintf(&sb, "n%d(X) :- p%d(X), Y = fn:plus(X, 1), !p%d(Y).\n", k, k, k)
		}
	}
	// Temporal predicates; the mode of the file decides which annotations the heads carry.
	if chance(t, "hasT", 60) {
		if chance(t, "extT", 50) {
			fmt.Fprintf(&sb, "Decl t%d(X) temporal descr [extensional()] bound [/number].\n", k)
		} else {
			fmt.Fprintf(&sb, "Decl t%d(X) temporal bound [/number].\n", k)
		}
		for i, n := 0, rng(t, "nt", 0, 2); i < n; i++ {
			fmt.Fprintf(&sb, "t%d(%d)%s.\n", k, num(t), constAnn(t, tm))
		}
		if chance(t, "hasU", 40) {
			fmt.Fprintf(&sb, "u%d(X)%s :- t%d(X)@[S, E].\n", k, varAnn(t, tm), k)
		}
		if chance(t, "hasV", 40) {
			fmt.Fprintf(&sb, "v%d(X) :- t%d(X)@[S, E].\n", k, k)
		}
	}
	if chance(t, "hasA", 30) { // annotated facts of a predicate without declaration
		for i, n := 0, rng(t, "na", 1, 2); i < n; i++ {
			fmt.Fprintf(&sb, "a%d(%d)%s.\n", k, num(t), constAnn(t, tm))
		}
	}
	if chance(t, "hasPairs", 50) { // plain key-value facts that an interactive definition may later put under a merge predicate
		// file k owns the key /k<k>: one fact per predicate and key over all files
		for gi := 0; gi < 3; gi++ {
			if chance(t, "filePair", 75) {
				fmt.Fprintf(&sb, "g%d(/k%d, %d).\n", gi, k%6, pick(t, "filePairVal", 2, 5, 7, 9))
			}
		}
	}
	if chance(t, "hasO", 30) { // annotated head over a body without time
		fmt.Fprintf(&sb, "o%d(X)%s :- p%d(X).\n", k, constAnn(t, tm), k)
	}
	return sb.String()
}

// genDependent writes file k over the predicates of the earlier file j (base: its text).
func genDependent(t *rapid.T, k, j int, base string) string {
	var sb strings.Builder
	tm := genMode(t)
	moreE := 30
	if in := nonMonotoneInputs(base); in[fmt.Sprintf("e%d", j)] {
		moreE = 75 // the input of the earlier file's g<j> / n<j> changes for every later reader
	}
	if chance(t, "moreE", moreE) {
		fmt.Fprintf(&sb, "e%d(%d).\n", j, num(t))
	}
	// needs: the predicate of the earlier file that clause shape number d reads
	needs := map[int]string{1: "e", 2: "r", 3: "s", 6: "t", 7: "t", 8: "t", 9: "e", 10: "e", 14: "e"}
	n := rng(t, "nclauses", 1, 4)
	for i := 0; i < n; i++ {
		d := rng(t, "dep", 0, 14)
		for try := 0; try < 3; try++ { // mostly shapes whose predicate the earlier file has
			if p, ok := needs[d]; !ok || strings.Contains(base, fmt.Sprintf("%s%d(", p, j)) || chance(t, "anyway", 20) {
				break
			}
			d = rng(t, "dep", 0, 14)
		}
		switch d {
		case 0:
			fmt.Fprintf(&sb, "q%d(X) :- p%d(X).\n", k, j)
		case 1:
			fmt.Fprintf(&sb, "q%d(X) :- p%d(X), e%d(X).\n", k, j, j)
		case 2:
			fmt.Fprintf(&sb, "q%d(X) :- r%d(X).\n", k, j)
		case 3: // O4 when s<j> is synthetic: fails bounds checking in a loaded file
			fmt.Fprintf(&sb, "q%d(X) :- s%d(X).\n", k, j)
		case 4, 5: // more facts for an extensional predicate of the earlier file (an input of its n<j>, g<j>)
			fmt.Fprintf(&sb, "e%d(%d).\n", j, num(t))
		case 6:
			fmt.Fprintf(&sb, "t%d(%d)%s.\n", j, num(t), constAnn(t, tm))
		case 7:
			fmt.Fprintf(&sb, "u%d(X)%s :- t%d(X)@[S, E].\n", k, varAnn(t, tm), j)
		case 8:
			fmt.Fprintf(&sb, "v%d(X) :- t%d(X)@[S, E].\n", k, j)
		case 9:
			sb.WriteString(aggregate(t, fmt.Sprintf("g%d", k), fmt.Sprintf("p%d", j), fmt.Sprintf("e%d", j)) + "\n")
		case 10:
			fmt.Fprintf(&sb, "n%d(X) :- p%d(X), !e%d(X).\n", k, j, j)
		case 11:
			fmt.Fprintf(&sb, "a%d(%d)%s.\n", k, num(t), constAnn(t, tm))
		case 14: // evaluation fails or not depending on the facts that are live (e<j>(0), p<j>(0))
			fmt.Fprintf(&sb, "z%d(Y) :- %s%d(X), Y = fn:div(6, X).\n", k, pick(t, "divsrc", "e", "e", "p"), j)
		default:
			fmt.Fprintf(&sb, "o%d(X)%s :- p%d(X).\n", k, constAnn(t, tm), j)
		}
	}
	if chance(t, "ownP", 50) {
		fmt.Fprintf(&sb, "Decl p%d(X) bound [/number].\np%d(%d).\n", k, k, num(t))
	}
	return sb.String()
}

func genFile(t *rapid.T, k int, bases []int, files []File) File {
	f := File{Name: fmt.Sprintf("f%d.mg", k)}
	kinds := []string{fBase, fBase, fParseErr, fAnalysis, fEvalErr, fEmpty}
	if len(bases) > 0 {
		kinds = append(kinds, fDependent, fDependent, fDependent, fConflict, fRedeclare)
	}
	f.Kind = pick(t, "filekind", kinds...)
	if k == 0 {
		f.Kind = fBase
	}
	j := 0
	if len(bases) > 0 {
		j = pick(t, "dependsOn", bases...)
	}
	switch f.Kind {
	case fBase:
		f.Text = genBase(t, k)
	case fDependent:
		f.Text = genDependent(t, k, j, files[j].Text)
	case fParseErr:
		f.Text = fmt.Sprintf("p%d(%d).\n", k, num(t)) + pick(t, "broken",
			fmt.Sprintf("p%d(1\n", k), fmt.Sprintf("q%d(X) :- .\n", k), fmt.Sprintf("q%d(X) :- p%d(X)\n", k, k), "Decl .\n")
	case fAnalysis:
		f.Text = fmt.Sprintf("p%d(%d).\n", k, num(t)) + pick(t, "illformed",
			fmt.Sprintf("q%d(X) :- nope%d(X).\n", k, k),
			fmt.Sprintf("q%d(X, Y) :- p%d(X).\n", k, k),
			fmt.Sprintf("p%d(1, 2).\n", k),
			fmt.Sprintf("q%d(X) :- p%d(X, X).\n", k, k),
			fmt.Sprintf("Decl p%d(X).\nDecl p%d(X).\n", k, k))
	case fEvalErr:
		f.Text = pick(t, "evalerr",
			fmt.Sprintf("Decl p%d(X) bound [/number].\np%d(%d).\nz%d(Y) :- p%d(X), Y = fn:div(X, 0).\n", k, k, num(t), k, k),
			fmt.Sprintf("p%d(%d).\ny%d(%d)%s.\n", k, num(t), k, num(t), interval(t, true)),
			// temporal facts are written before the rule fails
			fmt.Sprintf("Decl p%d(X) bound [/number].\np%d(%d).\na%d(%d)%s.\nz%d(Y) :- p%d(X), Y = fn:div(X, 0).\n", k, k, num(t), k, num(t), constAnn(t, genMode(t)), k, k))
	case fConflict:
		f.Text = fmt.Sprintf("Decl p%d(X) bound [/number].\np%d(%d).\n", k, k, num(t)) + pick(t, "clash",
			fmt.Sprintf("p%d(%d).\n", j, num(t)),
			fmt.Sprintf("r%d(X) :- p%d(X).\n", j, k),
			fmt.Sprintf("s%d(%d).\n", j, num(t)),
			fmt.Sprintf("Decl p%d(X) bound [/number].\n", j))
	case fRedeclare:
		f.Text = fmt.Sprintf("Decl s%d(X) bound [/number].\nx%d(X) :- s%d(X).\n", j, k, j)
	case fEmpty:
		f.Text = pick(t, "emptytext", "", "\n", "# nothing here\n")
	}
	return f
}

// filePred draws a predicate of file j (whatever its kind: the name may well be unknown).
func filePred(t *rapid.T, j int) string {
	return pick(t, "filepred", "p", "p", "e", "s", "r", "q") + fmt.Sprint(j)
}

// Define kinds.
const (
	dFact      = "fact"
	dRule      = "rule"
	dDecl      = "decl"
	dTemporal  = "temporal"
	dExtend    = "extend-extensional"
	dMulti     = "multi"
	dParseErr  = "parse-error"
	dAnalysis  = "analysis-error"
	dEvalErr   = "eval-error"
	dRedefine  = "redefine-file-predicate"
	dRedeclare = "redeclare-file-predicate"
	dAggregate = "aggregate"    // rule with a do-transform over interactive or file predicates
	dNegation  = "negation"     // rule with a negated atom
	dChange    = "change-input" // a fact for a predicate that a non-monotone rule of the live buffer reads
	dPairs     = "pair-facts"   // plain facts g<i>(key, value) without a declaration
	dLattice   = "lattice"      // g<i> declared with a functional dependency and a merge predicate, preferred values derived for keys that may have a fact in an earlier fragment
)

// nmInput is a predicate read by a non-monotone interactive rule that a later define can extend;
// vals are the values for which a new fact is known to take a derived fact away (else: any new one).
type nmInput struct {
	pred string
	vals []int
}

// session is the generator's estimate of the interactive fragment.
type session struct {
	tm      string    // temporal mode of its definitions
	inputs  []nmInput // inputs of its non-monotone rules
	changed bool      // a change-input define followed such a rule
}

// genDefine draws a definition of the given kind ("" = any); j is the file whose predicates it may
// mention, ses the interactive fragment it is meant to join. It returns the predicates read by its
// non-monotone rules that further interactive facts can extend.
func genDefine(t *rapid.T, j int, kind string, ses *session) (Cmd, []nmInput) {
	if kind == "" {
		kind = pick(t, "defkind", dFact, dFact, dFact, dRule, dRule, dRule, dDecl, dTemporal, dTemporal, dTemporal, dTemporal, dTemporal,
			dExtend, dMulti, dParseErr, dAnalysis, dAnalysis, dEvalErr, dEvalErr, dRedefine, dRedefine, dRedeclare,
			dAggregate, dAggregate, dAggregate, dAggregate, dNegation, dNegation, dNegation, dNegation,
			dPairs, dPairs, dPairs, dLattice, dLattice, dLattice)
	}
	if kind == dChange && len(ses.inputs) == 0 {
		kind = dFact
	}
	i := rng(t, "ipred", 0, 2)
	tm := ses.tm
	var text string
	var inputs []nmInput
	// own draws an interactive predicate and (mostly) a fact for it, so that a rule over it has input
	own := func(label string, i int) (string, string, []int) {
		p := fmt.Sprintf("i%d", i)
		if chance(t, label, 70) {
			v := num(t)
			return p, fmt.Sprintf("%s(%d).\n", p, v), []int{v}
		}
		return p, "", nil
	}
	switch kind {
	case dFact:
		text = fmt.Sprintf("i%d(%d).", i, num(t))
	case dRule:
		from := filePred(t, j)
		if chance(t, "fromBuffer", 35) {
			from = fmt.Sprintf("i%d", (i+1)%3)
		}
		text = fmt.Sprintf("k%d(X) :- %s(X).", i, from)
	case dDecl:
		text = fmt.Sprintf("Decl i%d(X).", i)
	case dTemporal:
		src := pick(t, "tsrc", fmt.Sprintf("i%d", i), fmt.Sprintf("p%d", j), fmt.Sprintf("e%d", j))
		text = pick(t, "tdef",
			fmt.Sprintf("j%d(%d)%s.", i, num(t), constAnn(t, tm)),
			fmt.Sprintf("j%d(%d)%s.", i, num(t), constAnn(t, tm)),
			fmt.Sprintf("t%d(%d)%s.", j, num(t), constAnn(t, tm)),
			fmt.Sprintf("w%d(X) :- t%d(X)@[S, E].", i, j),
			fmt.Sprintf("w%d(X) :- j%d(X)@[S, E].", i, i),
			// a declared temporal predicate (the line break keeps Decl apart from the buffer's last '.')
			fmt.Sprintf("\nDecl d%d(X) temporal bound [/number].\nd%d(%d)%s.", i, i, num(t), constAnn(t, tm)),
			fmt.Sprintf("\nDecl d%d(X) temporal bound [/number].\nd%d(%d)%s.\nl%d(X)%s :- d%d(X)@[S, E].", i, i, num(t), constAnn(t, tm), i, varAnn(t, tm), i),
			fmt.Sprintf("l%d(X)%s :- %s(X).", i, constAnn(t, tm), src),
			fmt.Sprintf("l%d(X)%s :- %s(X).", i, constAnn(t, tm), src),
			fmt.Sprintf("l%d(X)%s :- t%d(X)@[S, E].", i, varAnn(t, tm), j))
	case dExtend:
		text = fmt.Sprintf("e%d(%d).", j, num(t))
	case dMulti:
		text = fmt.Sprintf("i%d(%d).\nk%d(X) :- i%d(X).", i, num(t), i, i)
	case dParseErr:
		text = pick(t, "broken", fmt.Sprintf("i%d(.", i), fmt.Sprintf("k%d(X) :- .", i), fmt.Sprintf("i%d(1)) .", i))
	case dAnalysis:
		text = pick(t, "illformed",
			fmt.Sprintf("k%d(X) :- nope(X).", i),
			fmt.Sprintf("k%d(X) :- i%d(Y).", i, i),
			fmt.Sprintf("i%d(1, 2).", i),
			fmt.Sprintf("k%d(X) :- %s(X, X).", i, filePred(t, j)))
	case dEvalErr:
		text = pick(t, "evalerr",
			fmt.Sprintf("z%d(Y) :- %s(X), Y = fn:div(X, 0).", i, filePred(t, j)),
			fmt.Sprintf("z%d(Y) :- i%d(X), Y = fn:div(X, 0).", i, i),
			fmt.Sprintf("j%d(%d)%s.", i, num(t), interval(t, true)),
			// fails or not depending on the facts that are live
			fmt.Sprintf("z%d(Y) :- %s(X), Y = fn:div(6, X).", i, pick(t, "divsrc", fmt.Sprintf("i%d", i), fmt.Sprintf("e%d", j), fmt.Sprintf("p%d", j))),
			// facts (plain and temporal) are written before the rule fails
			fmt.Sprintf("i%d(%d).\nj%d(%d)%s.\nz%d(Y) :- i%d(X), Y = fn:div(X, 0).", i, num(t), i, num(t), constAnn(t, tm), i, i),
			fmt.Sprintf("i%d(%d).\nl%d(X)%s :- i%d(X).\nz%d(Y) :- i%d(X), Y = fn:div(X, 0).", i, num(t), i, constAnn(t, tm), i, i, i))
	case dRedefine:
		text = pick(t, "redef",
			fmt.Sprintf("%s(%d).", filePred(t, j), num(t)),
			fmt.Sprintf("%s(X) :- i%d(X).", filePred(t, j), i),
			fmt.Sprintf("t%d(%d)%s.", j, num(t), constAnn(t, tm)))
	case dRedeclare:
		text = fmt.Sprintf("Decl %s(X).", filePred(t, j))
		if chance(t, "withBadClause", 50) {
			text += fmt.Sprintf("\nk%d(X) :- nope(X).", i)
		}
	case dAggregate:
		src, facts := fmt.Sprintf("e%d", j), ""
		switch rng(t, "aggsrc", 0, 9) {
		case 0, 1, 2, 3, 4:
			src, facts, _ = own("aggFact", (i+1)%3)
		case 5:
			src = fmt.Sprintf("p%d", j)
		}
		key, keyFacts := fmt.Sprintf("p%d", j), ""
		if chance(t, "ownKey", 50) {
			key, keyFacts, _ = own("keyFact", (i+2)%3)
		}
		rule := aggregate(t, fmt.Sprintf("c%d", i), key, src)
		if strings.Contains(rule, key+"(X)") {
			facts += keyFacts
		}
		text = facts + rule
		if src[0] != 'p' { // interactive facts for a predicate that a file declares non-extensional are refused
			inputs = []nmInput{{pred: src}}
		}
	case dNegation:
		pos, facts, vals := fmt.Sprintf("p%d", j), "", []int(nil)
		if chance(t, "ownPos", 60) {
			pos, facts, vals = own("posFact", (i+1)%3)
		}
		neg := fmt.Sprintf("e%d", j)
		if chance(t, "ownNeg", 60) {
			neg = fmt.Sprintf("i%d", (i+2)%3)
			if chance(t, "negFact", 85) { // without any clause the negated predicate would be unknown
				v := num(t)
				if len(vals) > 0 && chance(t, "negOther", 75) { // leaves the positive fact standing
					v = (vals[0] + rng(t, "negShift", 1, 3)) % 4
				}
				facts += fmt.Sprintf("%s(%d).\n", neg, v)
			}
		}
		text = facts + fmt.Sprintf("f%d(X) :- %s(X), !%s(X).", i, pos, neg)
		inputs = []nmInput{{pred: neg, vals: vals}}
	case dPairs:
		// one fact per predicate and key, always the same one: a second fact for a key of a predicate that is later
		// declared with a functional dependency makes the merged result depend on the enumeration order of the
		// layers (facts of lower layers cannot be removed) - that is not what C16 is about
		text = fmt.Sprintf("g%d(/d%d, %d).\n", i, i, 5+i)
	case dLattice:
		text = fmt.Sprintf("\nDecl g%[1]d(K, V) descr [fundep([K], [V]), merge([V], \"lower%[1]d\")].\nDecl lower%[1]d(A, B, C) descr [mode('+', '+', '-'), deferred()].\n", i)
		// at most one offer per key, always with the value 3 (two different offers for a key that also has an
		// irremovable fact in a lower layer are merged in enumeration order)
		keys := []string{"/k0", "/k1", "/k2", "/k3", "/k4", "/k5", fmt.Sprintf("/d%d", i)}
		first := rng(t, "offerFirst", 0, len(keys)-1)
		for k, n := 0, rng(t, "noffers", 2, 7); k < n; k++ {
			text += fmt.Sprintf("offer%d(%s, 3).\n", i, keys[(first+k)%len(keys)])
		}
		text += fmt.Sprintf("g%[1]d(K, V) :- offer%[1]d(K, V).\nlower%[1]d(A, B, C) :- A < B, C = A.\nlower%[1]d(A, B, C) :- B <= A, C = B.\n", i)
		if chance(t, "latticeThenFail", 30) { // rejected at evaluation, in a stratum above the merged predicate
			text += fmt.Sprintf("z%[1]d(Y) :- g%[1]d(K, V), Y = fn:div(V, 0).\n", i)
		}
	case dChange:
		in, v := pick(t, "input", ses.inputs...), num(t)
		if len(in.vals) > 0 && chance(t, "hitInput", 70) {
			v = pick(t, "inputval", in.vals...)
		}
		text = fmt.Sprintf("%s(%d).", in.pred, v)
	}
	if chance(t, "newline", 30) {
		text += "\n"
	}
	return Cmd{Op: opDefine, Arg: text, Kind: kind}, inputs
}

func genCase(t *rapid.T) Case {
	var c Case
	nf := rng(t, "nfiles", 4, 6)
	var bases, good, empties []int
	for k := 0; k < nf; k++ {
		f := genFile(t, k, bases, c.Files)
		switch f.Kind {
		case fBase:
			bases = append(bases, k)
			good = append(good, k)
		case fEmpty:
			empties = append(empties, k)
			good = append(good, k)
		case fDependent, fRedeclare:
			good = append(good, k)
		}
		c.Files = append(c.Files, f)
	}
	ncmd := rng(t, "ncmds", 1, 14)
	// The generator keeps a rough estimate of the stack (assuming that files of a loadable kind load
	// and definitions are accepted) only to steer the history towards deep stacks, pops that have
	// something to pop, definitions that mention loaded predicates, facts that change the input of a
	// non-monotone interactive rule and rejected definitions after that. The oracle never uses it.
	var stack [][]int // file indices per estimated fragment; nil = interactive
	var ses *session  // non-nil iff the estimated top fragment is interactive
	lastLoad := ""
	var failed []string // pathsets of earlier loads that probably were rejected
	for n := 0; n < ncmd; n++ {
		depth := len(stack)
		wLoad, wDefine, wPop, wQuery := 30, 32, 26, 12
		if depth == 0 {
			wLoad, wDefine, wPop, wQuery = 62, 30, 3, 5
		} else if depth == 1 {
			wLoad, wDefine, wPop, wQuery = 45, 35, 10, 10
		}
		op := rng(t, "op", 0, wLoad+wDefine+wPop+wQuery-1)
		forced := ""
		if ses != nil && len(ses.inputs) > 0 {
			switch {
			case chance(t, "changeInput", 40):
				op, forced = wLoad, dChange
			case ses.changed && chance(t, "rejectAfterChange", 45):
				op, forced = wLoad, pick(t, "rejectKind", dAnalysis, dEvalErr)
			}
		}
		// a file that is probably loaded, else any
		loadedFile := rng(t, "anyfile", 0, nf-1)
		var loaded []int
		for _, fr := range stack {
			loaded = append(loaded, fr...)
		}
		if len(loaded) > 0 && chance(t, "mentionLoaded", 75) {
			loadedFile = pick(t, "loadedfile", loaded...)
		}
		switch {
		case op < wLoad:
			var arg string
			pushes := false
			idx := []int{}
			if lastLoad != "" && chance(t, "sameAgain", 8) {
				arg = lastLoad
			} else if len(failed) > 0 && chance(t, "retryRejected", 15) {
				// the same pathset once more: rejected again, or accepted now that other fragments are live
				arg = pick(t, "failed", failed...)
			} else if len(empties) > 0 && chance(t, "emptyFile", 15) {
				// a file without definitions can be analysed any number of times (K19)
				arg = c.Files[pick(t, "empty", empties...)].Name
			} else {
				np := pick(t, "npaths", 1, 1, 1, 1, 1, 1, 2, 2, 3)
				isLoaded := map[int]bool{}
				for _, k := range loaded {
					isLoaded[k] = true
				}
				var fresh []int // loadable kinds that are probably not loaded yet
				for _, k := range good {
					if !isLoaded[k] {
						fresh = append(fresh, k)
					}
				}
				pool := seq(nf)
				if chance(t, "freshGoodFiles", 75) && len(fresh) >= np {
					pool = fresh
				}
				perm := rapid.Permutation(pool).Draw(t, "paths")
				idx = append(idx, perm[:np]...)
				if np > 1 && chance(t, "sorted", 60) { // dependencies point to lower indices
					sort.Ints(idx)
				}
				var paths []string
				pushes = true
				for _, k := range idx {
					paths = append(paths, c.Files[k].Name)
					if isLoaded[k] || (c.Files[k].Kind != fBase && c.Files[k].Kind != fDependent && c.Files[k].Kind != fEmpty && c.Files[k].Kind != fRedeclare) {
						pushes = false
					}
				}
				arg = strings.Join(paths, ",")
			}
			lastLoad = arg
			if depth > 0 && stack[depth-1] == nil {
				stack = stack[:depth-1]
			}
			ses = nil
			if pushes {
				stack = append(stack, idx)
			} else if len(idx) > 0 {
				failed = append(failed, arg)
			}
			c.Cmds = append(c.Cmds, Cmd{Op: opLoad, Arg: arg})
		case op < wLoad+wDefine:
			cur := ses
			if cur == nil {
				cur = &session{tm: genMode(t)}
			}
			d, inputs := genDefine(t, loadedFile, forced, cur)
			c.Cmds = append(c.Cmds, d)
			probablyOK := d.Kind == dFact || d.Kind == dDecl || d.Kind == dMulti || d.Kind == dTemporal || d.Kind == dRule ||
				d.Kind == dAggregate || d.Kind == dNegation || d.Kind == dChange
			if probablyOK {
				if ses == nil {
					stack = append(stack, nil)
					ses = cur
				}
				if d.Kind == dChange {
					ses.changed = true
				}
				ses.inputs = append(ses.inputs, inputs...)
			}
		case op < wLoad+wDefine+wPop:
			c.Cmds = append(c.Cmds, Cmd{Op: opPop})
			if depth > 0 {
				stack = stack[:depth-1]
			}
			ses = nil
		default:
			qi := rng(t, "qi", 0, 2)
			arg := pick(t, "qshape",
				fmt.Sprintf("%s(X)", filePred(t, loadedFile)),
				fmt.Sprintf("%s(%d)", filePred(t, loadedFile), num(t)),
				fmt.Sprintf("t%d(X)", loadedFile),
				fmt.Sprintf("i%d(%d)", qi, num(t)),
				fmt.Sprintf("%s%d(%d)", pick(t, "qtemporal", "t", "a", "o", "u"), loadedFile, num(t)),
				fmt.Sprintf("%s%d(%d)", pick(t, "qdefined", "j", "l", "d", "c", "f"), qi, num(t)),
				fmt.Sprintf("%s%d(X)", pick(t, "qnonmono", "g", "n"), loadedFile),
				fmt.Sprintf("c%d(X, %d)", qi, rng(t, "qn", 1, 3)))
			c.Cmds = append(c.Cmds, Cmd{Op: opQuery, Arg: arg})
		}
	}
	return c
}

func seq(n int) []int {
	res := make([]int, n)
	for i := range res {
		res[i] = i
	}
	return res
}

// ---------------------------------------------------------------------------------------------
// Tests.

func TestC16(t *testing.T) {
	baseDir = t.TempDir()
	run := stats.Begin("C16", "TestC16")
	defer run.Finish(t)
	rapid.Check(t, func(rt *rapid.T) {
		c := genCase(rt)
		run.Current(c)
		v := check(run, rt, c)
		run.Case(v.nontrivial, c.hash(), v.labels...)
		if v.nontrivial {
			run.Sample("history", c)
		}
	})
}

func TestReplay(t *testing.T) {
	var c Case
	if !stats.LoadReplay(t, &c) {
		return
	}
	baseDir = t.TempDir()
	run := stats.Begin("C16", "TestReplay")
	check(run, t, c)
}
