// Package c04 checks property C04: programs accepted by analysis are safe to evaluate and are
// evaluated as written (no literal silently ignored).
package c04

import (
	"encoding/json"
	"fmt"
	"strings"
	"testing"

	"codeberg.org/TauCeti/mangle-go/ast"
	"codeberg.org/TauCeti/mangle-go/builtin"
	"pgregory.net/rapid"
	"verif/prog"
	"verif/stats"
)

// Case is a (possibly unsafe, arbitrarily ordered) program and its pre-loaded facts.
type Case struct {
	Gen       prog.Generated `json:"gen"`
	Mutations []string       `json:"mutations"`
	Text      string         `json:"text"`
}

type verdict struct {
	nontrivial bool
	labels     []string
}

// bindable computes the variables of r that can receive a value from a positive atom, an equality,
// a structural built-in or a transform (closure, independent of premise order).
func bindable(r prog.Rule) map[string]bool {
	b := map[string]bool{}
	allIn := func(t prog.Term) bool {
		m := map[string]bool{}
		t.Vars(m)
		for v := range m {
			if !b[v] {
				return false
			}
		}
		return true
	}
	for changed := true; changed; {
		changed = false
		mark := func(v string) {
			if v != "" && v != "_" && !b[v] {
				b[v] = true
				changed = true
			}
		}
		for _, l := range r.Body {
			switch l.K {
			case prog.LAtom:
				if !l.IsBuiltinAtom() {
					for _, a := range l.Atom.Args {
						if a.IsVar() {
							mark(a.Var)
						}
					}
					continue
				}
				mode, ok := builtin.Predicates[ast.PredicateSym{Symbol: l.Atom.Pred, Arity: len(l.Atom.Args)}]
				if !ok {
					continue
				}
				inputsOK := true
				for i, a := range l.Atom.Args {
					if mode[i] == ast.ArgModeInput && !allIn(a) {
						inputsOK = false
					}
				}
				if inputsOK {
					for i, a := range l.Atom.Args {
						if mode[i] != ast.ArgModeInput && a.IsVar() {
							mark(a.Var)
						}
					}
				}
			case prog.LEq:
				if allIn(*l.L) && l.R.IsVar() {
					mark(l.R.Var)
				}
				if allIn(*l.R) && l.L.IsVar() {
					mark(l.L.Var)
				}
			}
		}
		for _, s := range r.Let {
			if allIn(s.Fn) {
				mark(s.Var)
			}
		}
		if r.Do != nil {
			// a reducer of a do-transform gives its variable a value (per group)
			for _, s := range r.Do.Lets {
				mark(s.Var)
			}
		}
	}
	return b
}

// stmtUnsafe applies exactly the clause of the property statement: a head variable, a named variable
// of a negated atom, or an operand of a comparison that cannot receive a value.
func stmtUnsafe(r prog.Rule) (string, bool) {
	b := bindable(r)
	vars := func(f func(map[string]bool)) []string {
		m := map[string]bool{}
		f(m)
		var res []string
		for v := range m {
			if !b[v] {
				res = append(res, v)
			}
		}
		return res
	}
	if vs := vars(r.Head.Vars); len(vs) > 0 {
		return fmt.Sprintf("unsafe-head: head variable(s) %v of %s cannot receive a value", vs, r.Source()), true
	}
	for _, l := range r.Body {
		switch l.K {
		case prog.LNeg:
			if vs := vars(l.Atom.Vars); len(vs) > 0 {
				return fmt.Sprintf("unsafe-neg: variable(s) %v of negated atom %s cannot receive a value in %s", vs, l.Source(), r.Source()), true
			}
		case prog.LCmp:
			if vs := vars(l.Vars); len(vs) > 0 {
				return fmt.Sprintf("unsafe-cmp: operand(s) %v of comparison %s cannot receive a value in %s", vs, l.Source(), r.Source()), true
			}
		}
	}
	return "", false
}

func extraFacts(g prog.Generated) []prog.Fact {
	r := prog.Eval(prog.Program{Facts: g.Extra}, nil, prog.Options{})
	var fs []prog.Fact
	for _, k := range r.Model.Keys() {
		fs = append(fs, r.Model[k])
	}
	return fs
}

func check(run *stats.Run, f stats.Failer, c Case) verdict {
	var v verdict
	text := c.Gen.Prog.Source()
	extra := extraFacts(c.Gen)
	unsafeWhy := ""
	for _, r := range c.Gen.Prog.Rules {
		if why, bad := stmtUnsafe(r); bad {
			unsafeWhy = why
			v.labels = append(v.labels, strings.SplitN(why, ":", 2)[0])
			break
		}
	}
	// the array store: C04 is not about hash-keyed stores (K08)
	out := prog.Run(text, extra, "multiindexedarray")
	switch {
	case out.ParseErr != nil:
		run.Failf(f, "own printer produced text the parser rejects: %v\n%s", out.ParseErr, text)
	case out.Panic != "" && out.PanicStage != "eval":
		run.Failf(f, "%s panicked: %s\n%s", out.PanicStage, out.Panic, text)
	case out.AnalysisErr != nil:
		v.labels = append(v.labels, "rejected")
		if unsafeWhy == "" {
			v.labels = append(v.labels, "rejected-safe")
		}
		v.nontrivial = unsafeWhy != ""
		return v
	}
	// accepted
	v.labels = append(v.labels, "accepted")
	for _, l := range c.Gen.Labels {
		if strings.HasPrefix(l, "eq-") || l == "let" || l == "with-do-transform" || l == "agg-builtin-bound-var" {
			v.labels = append(v.labels, "accepted+"+l)
		}
	}
	if unsafeWhy != "" {
		run.Failf(f, "analysis accepted an unsafe rule (%s)\nprogram:\n%s", unsafeWhy, text)
	}
	if out.Panic != "" {
		run.Failf(f, "evaluation of an accepted program panicked: %s\nprogram:\n%spre-loaded: %s", out.Panic, text, atomsText(c.Gen.Extra))
	}
	ref := prog.Eval(c.Gen.Prog, extra, prog.Options{})
	if out.EvalErr != nil {
		if ref.Err != nil {
			// a function reported an error on these values in the reference as well (not a binding problem)
			v.labels = append(v.labels, "both-error")
			return v
		}
		run.Failf(f, "evaluation of an accepted program failed: %v\nprogram:\n%spre-loaded: %s", out.EvalErr, text, atomsText(c.Gen.Extra))
	}
	if len(out.NonGround) > 0 {
		run.Failf(f, "non-ground facts stored: %v\nprogram:\n%s", out.NonGround, text)
	}
	switch {
	case ref.Capped:
		run.Inconclusive()
		v.labels = append(v.labels, "ref-capped")
		return v
	case ref.Err != nil:
		v.labels = append(v.labels, "ref-error")
		run.Inconclusive()
		return v
	case ref.Unsafe != "":
		// not one of the three shapes of the statement (e.g. a function argument without value that the
		// engine tolerates): no reference semantics to compare with; errors/panics were checked above.
		v.labels = append(v.labels, "accepted-ref-stuck")
		run.Inconclusive()
		return v
	case ref.Unstratifiable:
		run.Inconclusive()
		return v
	}
	// aggregated predicates (s...): a collected list is read as a set
	missing, extraGot := prog.DiffListsAsSets(ref.Model, out.Facts, func(p string) bool { return strings.HasPrefix(p, "s") })
	if len(missing) > 0 || len(extraGot) > 0 {
		run.Failf(f, "an accepted program is not evaluated as written (a literal is ignored or mis-ordered).\nmissing: %v\nextra: %v\nprogram:\n%spre-loaded: %s",
			missing, extraGot, text, atomsText(c.Gen.Extra))
	}
	// classification: negated atom or comparison/inequality placed before the premise that binds its variables
	for _, r := range c.Gen.Prog.Rules {
		seen := map[string]bool{}
		for _, l := range r.Body {
			m := map[string]bool{}
			l.Vars(m)
			late := false
			for x := range m {
				if !seen[x] {
					late = true
				}
			}
			switch l.K {
			case prog.LNeg:
				if late {
					v.labels = append(v.labels, "neg-late")
					v.nontrivial = true
				}
			case prog.LCmp, prog.LNeq:
				if late {
					v.labels = append(v.labels, "cmp-early")
					v.nontrivial = true
				}
			case prog.LAtom:
				if !l.IsBuiltinAtom() {
					for x := range m {
						seen[x] = true
					}
				}
			case prog.LEq:
				for x := range m {
					seen[x] = true
				}
			}
		}
	}
	return v
}

func atomsText(as []prog.Atom) string {
	var parts []string
	for _, a := range as {
		parts = append(parts, a.Source())
	}
	return strings.Join(parts, ". ")
}

func (c Case) hash() uint64 {
	b, _ := json.Marshal(c.Gen)
	return stats.Hash(string(b))
}

// mutate perturbs a safe program: premise order and unbound variables.
func mutate(t *rapid.T, g *prog.Generated) []string {
	var muts []string
	if len(g.Prog.Rules) == 0 {
		return muts
	}
	n := rapid.SampledFrom([]int{0, 1, 1, 2, 3}).Draw(t, "nMut")
	for i := 0; i < n; i++ {
		ri := rapid.IntRange(0, len(g.Prog.Rules)-1).Draw(t, "rule")
		r := &g.Prog.Rules[ri]
		fresh := fmt.Sprintf("U%d", i)
		if rapid.IntRange(0, 2).Draw(t, "libName") == 0 {
			// the names the library itself generates when it replaces wildcards: a clash must not bind the variable
			fresh = rapid.SampledFrom([]string{"X0", "X1", "X2"}).Draw(t, "freshLibName")
		}
		switch kind := rapid.IntRange(0, 8).Draw(t, "mut"); kind {
		case 0, 1: // shuffle the body
			perm := rapid.Permutation(r.Body).Draw(t, "perm")
			r.Body = perm
			muts = append(muts, "shuffle")
		case 2: // a head argument becomes a fresh variable
			if len(r.Head.Args) > 0 {
				k := rapid.IntRange(0, len(r.Head.Args)-1).Draw(t, "hk")
				r.Head.Args[k] = prog.Var(fresh)
				muts = append(muts, "fresh-head-var")
			}
		case 3: // a variable of a negated atom / comparison / inequality becomes fresh
			var idx []int
			for li, l := range r.Body {
				if l.K == prog.LNeg || l.K == prog.LCmp || l.K == prog.LNeq {
					idx = append(idx, li)
				}
			}
			if len(idx) > 0 {
				li := rapid.SampledFrom(idx).Draw(t, "li")
				l := r.Body[li]
				if l.K == prog.LNeg && len(l.Atom.Args) > 0 {
					a := *l.Atom
					a.Args = append([]prog.Term{}, a.Args...)
					a.Args[rapid.IntRange(0, len(a.Args)-1).Draw(t, "na")] = prog.Var(fresh)
					r.Body[li] = prog.NegLit(a)
					muts = append(muts, "fresh-neg-var")
				} else if l.K != prog.LNeg {
					nv := prog.Var(fresh)
					if rapid.Bool().Draw(t, "side") {
						l.L = &nv
					} else {
						l.R = &nv
					}
					r.Body[li] = l
					muts = append(muts, "fresh-cmp-var")
				}
			}
		case 4: // drop a positive atom (its variables may lose their binder)
			var idx []int
			for li, l := range r.Body {
				if l.K == prog.LAtom {
					idx = append(idx, li)
				}
			}
			if len(idx) > 0 && len(r.Body) > 1 {
				li := rapid.SampledFrom(idx).Draw(t, "dropi")
				r.Body = append(append([]prog.Lit{}, r.Body[:li]...), r.Body[li+1:]...)
				muts = append(muts, "drop-atom")
			}
		case 5: // move one filter literal to the front
			var idx []int
			for li, l := range r.Body {
				if l.K != prog.LAtom {
					idx = append(idx, li)
				}
			}
			if len(idx) > 0 {
				li := rapid.SampledFrom(idx).Draw(t, "fronti")
				l := r.Body[li]
				rest := append(append([]prog.Lit{}, r.Body[:li]...), r.Body[li+1:]...)
				r.Body = append([]prog.Lit{l}, rest...)
				muts = append(muts, "filter-first")
			}
		case 7, 8: // move one equality (definition, alias or filter) to the front
			var idx []int
			for li, l := range r.Body {
				if l.K == prog.LEq {
					idx = append(idx, li)
				}
			}
			if len(idx) > 0 {
				li := rapid.SampledFrom(idx).Draw(t, "eqi")
				l := r.Body[li]
				rest := append(append([]prog.Lit{}, r.Body[:li]...), r.Body[li+1:]...)
				r.Body = append([]prog.Lit{l}, rest...)
				muts = append(muts, "eq-first")
			}
		case 6: // a wildcard in the head or in a function argument
			if len(r.Head.Args) > 0 && rapid.Bool().Draw(t, "wh") {
				r.Head.Args[rapid.IntRange(0, len(r.Head.Args)-1).Draw(t, "wk")] = prog.Var("_")
				muts = append(muts, "wildcard-head")
			}
		}
	}
	return muts
}

// addTemplate appends a rule of a shape where the order of premises matters for binding: an alias or an
// equation with a function expression written BEFORE the atom that binds its variable, optionally feeding a
// let-transform. Analysis may accept or reject it; if accepted it must be evaluated as written.
func addTemplate(t *rapid.T, g *prog.Generated) string {
	var cands []prog.PredInfo
	for _, p := range g.Schema {
		if p.Level < 0 && strings.Contains(p.Cols, "n") {
			cands = append(cands, p)
		}
	}
	if len(cands) == 0 {
		return ""
	}
	p := rapid.SampledFrom(cands).Draw(t, "tplPred")
	atom := prog.Atom{Pred: p.Name, Args: []prog.Term{}}
	z := ""
	for i := range p.Cols {
		v := fmt.Sprintf("T%d", i)
		if p.Cols[i] == 'n' && z == "" {
			z = v
		}
		atom.Args = append(atom.Args, prog.Var(v))
	}
	k := prog.Num(rapid.Int64Range(0, 2).Draw(t, "tplK"))
	c := prog.Num(rapid.Int64Range(0, 5).Draw(t, "tplC"))
	r := prog.Rule{Head: prog.Atom{Pred: "th", Args: []prog.Term{prog.Var("W")}}}
	alias := prog.EqLit(prog.Var("Y"), prog.Var(z))
	if rapid.Bool().Draw(t, "tplAliasFlip") {
		alias = prog.EqLit(prog.Var(z), prog.Var("Y"))
	}
	shape := rapid.SampledFrom([]string{"alias-let", "alias-eqdef", "const=fn", "fn=const", "alias-after-let", "fn-def-first"}).Draw(t, "tplShape")
	switch shape {
	case "alias-let":
		r.Body = []prog.Lit{alias, prog.PosLit(atom)}
		r.Let = []prog.LetStmt{{Var: "W", Fn: prog.Fn("fn:plus", prog.Var("Y"), k)}}
	case "alias-eqdef":
		r.Body = []prog.Lit{alias, prog.PosLit(atom), prog.EqLit(prog.Var("W"), prog.Fn("fn:plus", prog.Var("Y"), k))}
	case "const=fn":
		r.Head.Args = []prog.Term{prog.Var(z)}
		r.Body = []prog.Lit{prog.EqLit(c, prog.Fn("fn:plus", prog.Var(z), k)), prog.PosLit(atom)}
	case "fn=const":
		r.Head.Args = []prog.Term{prog.Var(z)}
		r.Body = []prog.Lit{prog.EqLit(prog.Fn("fn:plus", prog.Var(z), k), c), prog.PosLit(atom)}
	case "alias-after-let":
		r.Body = []prog.Lit{prog.PosLit(atom), alias}
		r.Let = []prog.LetStmt{{Var: "W", Fn: prog.Fn("fn:mult", prog.Var("Y"), k)}}
	case "fn-def-first":
		r.Body = []prog.Lit{prog.EqLit(prog.Var("W"), prog.Fn("fn:plus", prog.Var(z), k)), prog.PosLit(atom)}
	}
	g.Prog.Rules = append(g.Prog.Rules, r)
	return "template:" + shape
}

// addModes declares one or two intensional (rule-defined, bottom-up) predicates with mode declarations. A mode
// declaration must not make analysis accept a rule whose head variable gets no value from the body: such a
// predicate has no caller that could provide it. At every argument position the declared modes are one of
// {-}, {?}, {+,?}, {+,-}, {-,?}; a position whose modes are all "+" is not drawn while K73 is a known finding (the
// tree takes such an argument for bound, pinned by TestCheckRuleBindsByDecl).
func addModes(t *rapid.T, g *prog.Generated) string {
	if rapid.IntRange(0, 3).Draw(t, "modes") != 0 {
		return ""
	}
	heads := map[string]int{}
	var names []string
	for _, r := range g.Prog.Rules {
		if _, ok := heads[r.Head.Pred]; !ok && len(r.Head.Args) > 0 {
			heads[r.Head.Pred] = len(r.Head.Args)
			names = append(names, r.Head.Pred)
		}
	}
	for _, d := range g.Prog.Decls {
		delete(heads, d.Pred)
	}
	if len(heads) == 0 {
		return ""
	}
	added := false
	for _, name := range names {
		ar, ok := heads[name]
		if !ok || rapid.IntRange(0, 1).Draw(t, "modePred") != 0 {
			continue
		}
		nm := rapid.IntRange(1, 2).Draw(t, "nModes")
		modes := make([][]string, nm)
		for i := 0; i < ar; i++ {
			var col []string
			allPlus := stats.Exclusion("K73-input-mode-on-bottom-up-predicate")
			for {
				col = col[:0]
				plus := 0
				for m := 0; m < nm; m++ {
					x := rapid.SampledFrom([]string{"+", "-", "?", "?"}).Draw(t, "argMode")
					if x == "+" {
						plus++
					}
					col = append(col, x)
				}
				if !(allPlus && plus == nm) {
					break
				}
			}
			for m := 0; m < nm; m++ {
				modes[m] = append(modes[m], col[m])
			}
		}
		g.Prog.Decls = append(g.Prog.Decls, prog.Decl{Pred: name, Arity: ar, Modes: modes})
		added = true
	}
	if !added {
		return ""
	}
	return "mode-decls"
}

func genCase(t *rapid.T) Case {
	var g prog.Generated
	if rapid.IntRange(0, 5).Draw(t, "withAgg") == 0 {
		// programs with do-transforms: a variable the transform needs must get its value from the body
		g = prog.GenAgg().Draw(t, "aggProg")
		g.Labels = append(g.Labels, "with-do-transform")
	} else {
		g = prog.Gen(prog.AllFeatures).Draw(t, "prog")
	}
	c := Case{Gen: g}
	if rapid.IntRange(0, 5).Draw(t, "template") == 0 {
		if name := addTemplate(t, &c.Gen); name != "" {
			c.Mutations = append(c.Mutations, name)
		}
	}
	if name := addModes(t, &c.Gen); name != "" {
		c.Mutations = append(c.Mutations, name)
	}
	c.Mutations = append(c.Mutations, mutate(t, &c.Gen)...)
	c.Text = c.Gen.Prog.Source()
	return c
}

func TestC04(t *testing.T) {
	run := stats.Begin("C04", "TestC04")
	defer run.Finish(t)
	defer minimize(t, run)
	rapid.Check(t, func(rt *rapid.T) {
		c := genCase(rt)
		run.Current(c)
		v := check(run, rt, c)
		for _, m := range c.Mutations {
			v.labels = append(v.labels, "mut:"+m)
		}
		run.Case(v.nontrivial, c.hash(), v.labels...)
		if v.nontrivial {
			run.Sample("program", map[string]any{"text": c.Text, "mutations": c.Mutations})
		}
	})
}

func minimize(t *testing.T, run *stats.Run) {
	if !t.Failed() {
		return
	}
	c, ok := run.Last().(Case)
	if !ok {
		return
	}
	fails := func(g prog.Generated) bool {
		failed, _ := run.Fails(func(f stats.Failer) { check(run, f, Case{Gen: g}) })
		return failed
	}
	if !fails(c.Gen) {
		return
	}
	c.Gen = prog.Minimize(c.Gen, fails)
	c.Text = c.Gen.Prog.Source()
	_, msg := run.Fails(func(f stats.Failer) { check(run, f, c) })
	run.Replace(c, msg)
}

func TestReplay(t *testing.T) {
	var c Case
	if !stats.LoadReplay(t, &c) {
		return
	}
	run := stats.Begin("C04", "TestReplay")
	check(run, t, c)
}
