// Package c03 checks property C03: stratification respects every dependency or reports failure.
package c03

import (
	"encoding/json"
	"fmt"
	"os"
	"sort"
	"strings"
	"testing"

	"codeberg.org/TauCeti/mangle-go/analysis"
	"codeberg.org/TauCeti/mangle-go/ast"
	"codeberg.org/TauCeti/mangle-go/parse"
	"pgregory.net/rapid"
	"verif/stats"
)

// Mention kinds.
const (
	kPos     = "pos"     // q(X)
	kNeg     = "neg"     // !q(X)
	kTPos    = "tpos"    // q(X)@[T] or <-[..] q(X)
	kTNeg    = "tneg"    // !q(X)@[T]
	kBuiltin = "builtin" // :lt(X, 3)
)

// Mention is one body literal. Pred >= 0 refers to predicate p<Pred>; Pred < 0 to the extensional e<-Pred>.
type Mention struct {
	Pred int    `json:"pred"`
	Kind string `json:"kind"`
	Op   bool   `json:"op,omitempty"` // temporal literal carries an operator rather than an annotation
	// OpType: 0 <- , 1 [- , 2 <+ , 3 [+ ; OpLo / OpHi: the operator's duration bounds in seconds (0, 0 = the old [0s, 1s])
	OpType int `json:"opType,omitempty"`
	OpLo   int `json:"opLo,omitempty"`
	OpHi   int `json:"opHi,omitempty"`
}

// Rule is head p<Head> with the given body; Agg makes it a do-transform rule, Let a let-transform rule.
type Rule struct {
	Head int       `json:"head"`
	Body []Mention `json:"body"`
	Agg  bool      `json:"agg,omitempty"`
	Let  bool      `json:"let,omitempty"`
	// AggFn: what the do-transform consists of: 0 count, 1 collect, 2 collect_distinct, 3 sum, 4 nothing but the
	// group_by, 5 min and collect
	AggFn int `json:"aggFn,omitempty"`
}

var aggText = []string{
	"do fn:group_by(), let N = fn:count()",
	"do fn:group_by(), let N = fn:collect(X)",
	"do fn:group_by(), let N = fn:collect_distinct(X)",
	"do fn:group_by(), let N = fn:sum(X)",
	"do fn:group_by(N)",
	"do fn:group_by(), let M = fn:min(X), let N = fn:collect(X)",
}

// aggStmts builds the statements of aggText[k] over the variables X (body) and N (head).
func aggStmts(k int, x, n ast.Variable) []ast.TransformStmt {
	gb := func(args ...ast.BaseTerm) ast.TransformStmt {
		return ast.TransformStmt{Var: nil, Fn: ast.ApplyFn{Function: ast.FunctionSym{Symbol: "fn:group_by", Arity: len(args)}, Args: args}}
	}
	let := func(v ast.Variable, fn string, args ...ast.BaseTerm) ast.TransformStmt {
		return ast.TransformStmt{Var: &v, Fn: ast.ApplyFn{Function: ast.FunctionSym{Symbol: fn, Arity: len(args)}, Args: args}}
	}
	switch k {
	case 1:
		return []ast.TransformStmt{gb(), let(n, "fn:collect", x)}
	case 2:
		return []ast.TransformStmt{gb(), let(n, "fn:collect_distinct", x)}
	case 3:
		return []ast.TransformStmt{gb(), let(n, "fn:sum", x)}
	case 4:
		return []ast.TransformStmt{gb(x)}
	case 5:
		return []ast.TransformStmt{gb(), let(ast.Variable{Symbol: "M"}, "fn:min", x), let(n, "fn:collect", x)}
	}
	return []ast.TransformStmt{gb(), let(n, "fn:count")}
}

// Case is a rule set over predicates p0..p<N-1>; Edb lists those of them that are extensional
// (they head no rule).
type Case struct {
	N     int    `json:"n"`
	Edb   []bool `json:"edb"`
	Rules []Rule `json:"rules"`
	// ViaText: the rule set is written as source text, parsed and analysed, and Stratify gets what analysis made
	// of it (classification into extensional/intensional predicates, rewritten aggregating rules). FactsFor lists
	// intensional predicates that also have a fact of their own; FactsLast writes all facts after the rules.
	// Temporal mentions are written as plain ones in this mode (they would need temporal declarations).
	ViaText   bool  `json:"viaText,omitempty"`
	FactsFor  []int `json:"factsFor,omitempty"`
	FactsLast bool  `json:"factsLast,omitempty"`
	// TwoVars: odd mentions of a body are about a second variable Y; NegFirst: negated atoms are written before
	// the atoms that bind their variables (ViaText only).
	TwoVars  bool `json:"twoVars,omitempty"`
	NegFirst bool `json:"negFirst,omitempty"`
}

// text prints the rule set as a source unit (ViaText).
func (c Case) text() string {
	var facts, rules []string
	facts = append(facts, "e1(1).", "e2(1).")
	for i := 0; i < c.N; i++ {
		if c.Edb[i] {
			facts = append(facts, fmt.Sprintf("p%d(1).", i))
		}
	}
	for _, i := range c.FactsFor {
		if i >= 0 && i < c.N && !c.Edb[i] {
			facts = append(facts, fmt.Sprintf("p%d(2).", i))
		}
	}
	for ri, r := range c.Rules {
		// Two variables: mention j is about X when j is even and about Y when it is odd; each variable that is
		// used gets a binding positive atom (an extensional one is added where the body has none for it).
		var pos, rest, negs []string
		bound := map[string]bool{}
		used := map[string]bool{"X": true}
		for j, m := range r.Body {
			v := "X"
			if c.TwoVars && j%2 == 1 {
				v = "Y"
			}
			used[v] = true
			name := sym(m.Pred).Symbol
			switch m.Kind {
			case kPos, kTPos:
				pos = append(pos, name+"("+v+")")
				bound[v] = true
			case kNeg, kTNeg:
				negs = append(negs, "!"+name+"("+v+")")
			case kBuiltin:
				rest = append(rest, ":lt("+v+", 3)")
			}
		}
		for _, v := range []string{"X", "Y"} {
			if used[v] && !bound[v] {
				pos = append(pos, map[string]string{"X": "e1(X)", "Y": "e2(Y)"}[v]) // extensional, no dependency
			}
		}
		lits := append(append(append([]string{}, pos...), negs...), rest...)
		if c.NegFirst && (ri%2 == 0 || !c.TwoVars) {
			// negated atoms written before the atoms that bind their variables (analysis delays them; a built-in
			// written early would be rejected, so those stay behind)
			lits = append(append(append([]string{}, negs...), pos...), rest...)
		}
		body := strings.Join(lits, ", ")
		switch {
		case r.Agg:
			if r.AggFn == 4 {
				rules = append(rules, fmt.Sprintf("p%d(X) :- %s |> do fn:group_by(X).", r.Head, body))
			} else {
				rules = append(rules, fmt.Sprintf("p%d(N) :- %s |> %s.", r.Head, body, aggText[r.AggFn%len(aggText)]))
			}
		case r.Let:
			rules = append(rules, fmt.Sprintf("p%d(N) :- %s |> let N = fn:plus(X, 1).", r.Head, body))
		default:
			rules = append(rules, fmt.Sprintf("p%d(X) :- %s.", r.Head, body))
		}
	}
	if c.FactsLast {
		return strings.Join(rules, "\n") + "\n" + strings.Join(facts, "\n") + "\n"
	}
	return strings.Join(facts, "\n") + "\n" + strings.Join(rules, "\n") + "\n"
}

func sym(i int) ast.PredicateSym {
	if i < 0 {
		return ast.PredicateSym{Symbol: fmt.Sprintf("e%d", -i), Arity: 1}
	}
	return ast.PredicateSym{Symbol: fmt.Sprintf("p%d", i), Arity: 1}
}

func (c Case) program() analysis.Program {
	prog := analysis.Program{
		EdbPredicates: map[ast.PredicateSym]struct{}{},
		IdbPredicates: map[ast.PredicateSym]struct{}{},
	}
	prog.EdbPredicates[sym(-1)] = struct{}{}
	prog.EdbPredicates[sym(-2)] = struct{}{}
	for i := 0; i < c.N; i++ {
		if c.Edb[i] {
			prog.EdbPredicates[sym(i)] = struct{}{}
		}
	}
	x := ast.Variable{Symbol: "X"}
	for _, r := range c.Rules {
		prog.IdbPredicates[sym(r.Head)] = struct{}{}
		var body []ast.Term
		for _, m := range r.Body {
			atom := ast.NewAtom(sym(m.Pred).Symbol, x)
			switch m.Kind {
			case kPos:
				body = append(body, atom)
			case kNeg:
				body = append(body, ast.NegAtom{Atom: atom})
			case kTPos, kTNeg:
				var lit ast.Term = atom
				if m.Kind == kTNeg {
					lit = ast.NegAtom{Atom: atom}
				}
				tl := ast.TemporalLiteral{Literal: lit}
				if m.Op {
					lo, hi := int64(m.OpLo), int64(m.OpHi)
					if lo == 0 && hi == 0 {
						hi = 1
					}
					iv := ast.NewInterval(
						ast.TemporalBound{Type: ast.DurationTemporalBound, Timestamp: lo * 1000000000},
						ast.TemporalBound{Type: ast.DurationTemporalBound, Timestamp: hi * 1000000000})
					tl.Operator = &ast.TemporalOperator{Type: []ast.TemporalOperatorType{ast.DiamondMinus, ast.BoxMinus, ast.DiamondPlus, ast.BoxPlus}[m.OpType%4], Interval: iv}
				} else {
					iv := ast.NewInterval(
						ast.TemporalBound{Type: ast.VariableBound, Variable: ast.Variable{Symbol: "S"}},
						ast.TemporalBound{Type: ast.VariableBound, Variable: ast.Variable{Symbol: "E"}})
					tl.Interval = &iv
				}
				body = append(body, tl)
			case kBuiltin:
				body = append(body, ast.NewAtom(":lt", x, ast.Number(3)))
			}
		}
		if body == nil {
			body = []ast.Term{}
		}
		clause := ast.NewClause(ast.NewAtom(sym(r.Head).Symbol, x), body)
		if r.Agg {
			n := ast.Variable{Symbol: "N"}
			clause.Head = ast.NewAtom(sym(r.Head).Symbol, n)
			if r.AggFn == 4 {
				clause.Head = ast.NewAtom(sym(r.Head).Symbol, x)
			}
			clause.Transform = &ast.Transform{Statements: aggStmts(r.AggFn, x, n)}
		} else if r.Let {
			n := ast.Variable{Symbol: "N"}
			clause.Head = ast.NewAtom(sym(r.Head).Symbol, n)
			clause.Transform = &ast.Transform{Statements: []ast.TransformStmt{
				{Var: &n, Fn: ast.ApplyFn{Function: ast.FunctionSym{Symbol: "fn:plus", Arity: 2}, Args: []ast.BaseTerm{x, ast.Number(1)}}},
			}}
		}
		prog.Rules = append(prog.Rules, clause)
	}
	return prog
}

type edge struct {
	from, to int
	strict   bool
}

// edges returns the dependencies among intensional predicates by the statement of C03.
func (c Case) edges() []edge {
	var es []edge
	for _, r := range c.Rules {
		for _, m := range r.Body {
			if m.Kind == kBuiltin || m.Pred < 0 || c.Edb[m.Pred] {
				continue
			}
			strict := m.Kind == kNeg || m.Kind == kTNeg || r.Agg
			es = append(es, edge{r.Head, m.Pred, strict})
		}
	}
	return es
}

type verdict struct {
	nontrivial bool
	labels     []string
}

// check judges analysis.Stratify on c.
func check(run *stats.Run, f stats.Failer, c Case) verdict {
	es := c.edges()
	n := c.N
	reach := make([][]bool, n)
	for i := range reach {
		reach[i] = make([]bool, n)
		reach[i][i] = true
	}
	for _, e := range es {
		reach[e.from][e.to] = true
	}
	for k := 0; k < n; k++ {
		for i := 0; i < n; i++ {
			if reach[i][k] {
				for j := 0; j < n; j++ {
					if reach[k][j] {
						reach[i][j] = true
					}
				}
			}
		}
	}
	expectFail := false
	hasStrict, hasTemporal := false, false
	for _, e := range es {
		if e.strict {
			hasStrict = true
			if reach[e.to][e.from] {
				expectFail = true
			}
		}
	}
	for _, r := range c.Rules {
		for _, m := range r.Body {
			if (m.Kind == kTPos || m.Kind == kTNeg) && m.Pred >= 0 && !c.Edb[m.Pred] && !c.ViaText {
				hasTemporal = true
			}
		}
	}
	// number of SCCs among intensional predicates
	idb := map[int]bool{}
	for _, r := range c.Rules {
		idb[r.Head] = true
	}
	sccs := 0
	seen := make([]bool, n)
	for i := 0; i < n; i++ {
		if !idb[i] || seen[i] {
			continue
		}
		sccs++
		for j := 0; j < n; j++ {
			if idb[j] && reach[i][j] && reach[j][i] {
				seen[j] = true
			}
		}
	}
	v := verdict{nontrivial: sccs >= 2 || hasStrict}
	if expectFail {
		v.labels = append(v.labels, "fail-expected")
	}
	if hasTemporal {
		v.labels = append(v.labels, "temporal")
	}
	if hasStrict {
		v.labels = append(v.labels, "strict-edge")
	}

	var strata []analysis.Nodeset
	var predToStratum map[ast.PredicateSym]int
	var err error
	textRejected := ""
	func() {
		defer func() {
			if p := recover(); p != nil {
				run.Failf(f, "Stratify panicked: %v", p)
			}
		}()
		if !c.ViaText {
			strata, predToStratum, err = analysis.Stratify(c.program())
			return
		}
		unit, perr := parse.Unit(strings.NewReader(c.text()))
		if perr != nil {
			run.Failf(f, "harness: the text of the rule set does not parse: %v\n%s", perr, c.text())
		}
		info, aerr := analysis.AnalyzeOneUnit(unit, nil)
		if aerr != nil {
			// analysis may report the failure itself; anything else it rejects is no verdict for C03
			textRejected = aerr.Error()
			return
		}
		strata, predToStratum, err = analysis.Stratify(analysis.Program{EdbPredicates: info.EdbPredicates, IdbPredicates: info.IdbPredicates, Rules: info.Rules})
	}()
	if c.ViaText {
		v.labels = append(v.labels, "via-text")
		if len(c.FactsFor) > 0 {
			v.labels = append(v.labels, "via-text:idb-facts")
		}
		if textRejected != "" {
			v.labels = append(v.labels, "via-text:rejected-by-analysis")
			if !expectFail {
				run.Failf(f, "analysis rejects a safe rule set without a dependency cycle through a negated/aggregated mention: %s\n%s", textRejected, c.text())
			}
			return v
		}
	}
	if expectFail {
		if err == nil {
			run.Failf(f, "a dependency cycle passes through a negated/aggregated mention, but Stratify succeeded: strata=%v%s", strata, c.textNote())
		}
		return v
	}
	if err != nil {
		run.Failf(f, "no dependency cycle passes through a negated/aggregated mention, but Stratify failed: %v%s", err, c.textNote())
	}
	// every intensional predicate lies in exactly one layer; the map agrees with the list.
	layer := map[int]int{}
	for li, set := range strata {
		for s := range set {
			for i := 0; i < n; i++ {
				if s == sym(i) {
					if prev, dup := layer[i]; dup {
						run.Failf(f, "predicate %v is in layers %d and %d", s, prev, li)
					}
					layer[i] = li
				}
			}
			if got, ok := predToStratum[s]; !ok || got != li {
				run.Failf(f, "predicate %v is in layer %d of the list but the map says %d (present=%v)", s, li, got, ok)
			}
		}
	}
	for i := range idb {
		if _, ok := layer[i]; !ok {
			run.Failf(f, "intensional predicate %v is in no layer; strata=%v", sym(i), strata)
		}
	}
	for _, e := range es {
		lf, lt := layer[e.from], layer[e.to]
		if _, ok := layer[e.to]; !ok {
			run.Failf(f, "body predicate %v (intensional) is in no layer", sym(e.to))
		}
		if lt > lf {
			run.Failf(f, "rule for %v (layer %d) mentions %v which lies in the later layer %d; strata=%v", sym(e.from), lf, sym(e.to), lt, strata)
		}
		if e.strict && lt >= lf {
			run.Failf(f, "rule for %v (layer %d) mentions %v negated/aggregated, which lies in layer %d, not strictly earlier; strata=%v", sym(e.from), lf, sym(e.to), lt, strata)
		}
	}
	for i := 0; i < n; i++ {
		for j := 0; j < n; j++ {
			if idb[i] && idb[j] && reach[i][j] && reach[j][i] && layer[i] != layer[j] {
				run.Failf(f, "mutually recursive %v and %v lie in layers %d and %d", sym(i), sym(j), layer[i], layer[j])
			}
		}
	}
	return v
}

func (c Case) textNote() string {
	if !c.ViaText {
		return ""
	}
	return "\nprogram text (parsed and analysed first):\n" + c.text()
}

func (c Case) hash() uint64 {
	b, _ := json.Marshal(c)
	return stats.Hash(string(b))
}

func genCase(t *rapid.T) Case {
	n := rapid.IntRange(1, 7).Draw(t, "n")
	c := Case{N: n, Edb: make([]bool, n)}
	density := rapid.IntRange(0, 3).Draw(t, "backEdgeBias")
	for i := 0; i < n; i++ {
		if n > 1 && rapid.IntRange(0, 9).Draw(t, "edb") == 0 {
			c.Edb[i] = true
			continue
		}
		nr := rapid.IntRange(1, 3).Draw(t, "nrules")
		for k := 0; k < nr; k++ {
			r := Rule{Head: i}
			switch rapid.IntRange(0, 9).Draw(t, "transform") {
			case 0, 1:
				r.Agg = true
				r.AggFn = rapid.IntRange(0, 5).Draw(t, "aggFn")
			case 2:
				r.Let = true
			}
			nb := rapid.IntRange(0, 3).Draw(t, "nbody")
			for b := 0; b < nb; b++ {
				var m Mention
				// predicate: mostly a lower one (layered programs), sometimes any (cycles), sometimes extensional.
				switch w := rapid.IntRange(0, 9).Draw(t, "which"); {
				case w == 0:
					m.Pred = -rapid.IntRange(1, 2).Draw(t, "e")
				case w <= 3+density || i == 0:
					m.Pred = rapid.IntRange(0, n-1).Draw(t, "any")
				default:
					m.Pred = rapid.IntRange(0, i-1).Draw(t, "lower")
				}
				switch k := rapid.IntRange(0, 11).Draw(t, "kind"); {
				case k <= 5:
					m.Kind = kPos
				case k <= 7:
					m.Kind = kNeg
				case k <= 9:
					m.Kind = kTPos
					m.Op = rapid.Bool().Draw(t, "op")
					if m.Op {
						m.OpType = rapid.IntRange(0, 3).Draw(t, "opType")
						m.OpLo = rapid.SampledFrom([]int{0, 0, 1, 86400, 3}).Draw(t, "opLo")
						m.OpHi = m.OpLo + rapid.SampledFrom([]int{0, 1, 7 * 86400}).Draw(t, "opLen")
					}
				case k == 10:
					m.Kind = kTNeg
				default:
					m.Kind = kBuiltin
				}
				r.Body = append(r.Body, m)
			}
			if len(r.Body) == 0 {
				r.Body = []Mention{{Pred: -1, Kind: kPos}}
			}
			c.Rules = append(c.Rules, r)
		}
	}
	if rapid.IntRange(0, 3).Draw(t, "viaText") == 0 {
		c.ViaText = true
		for i := 0; i < n; i++ {
			if !c.Edb[i] && rapid.IntRange(0, 2).Draw(t, "idbFact") == 0 {
				c.FactsFor = append(c.FactsFor, i)
			}
		}
		c.FactsLast = rapid.Bool().Draw(t, "factsLast")
		c.TwoVars = rapid.Bool().Draw(t, "twoVars")
		c.NegFirst = rapid.Bool().Draw(t, "negFirst")
	}
	return c
}

func TestC03(t *testing.T) {
	run := stats.Begin("C03", "TestC03")
	defer run.Finish(t)
	rapid.Check(t, func(rt *rapid.T) {
		c := genCase(rt)
		run.Current(c)
		v := check(run, rt, c)
		run.Case(v.nontrivial, c.hash(), v.labels...)
		if v.nontrivial {
			run.Sample("random", c)
		}
	})
}

// TestC03Exhaustive enumerates every labelling {absent, positive, negative} of the 9 ordered pairs
// over three predicates, in three presentations (plain / the positive edges temporal / the negative
// edges through aggregation), one rule per head. Thorough tier only.
func TestC03Exhaustive(t *testing.T) {
	if os.Getenv("VERIF_TIER") != "thorough" {
		t.Skip("thorough tier only")
	}
	run := stats.Begin("C03", "TestC03Exhaustive")
	defer run.Finish(t)
	total := 1
	for i := 0; i < 9; i++ {
		total *= 3
	}
	for mode := 0; mode < 5; mode++ {
		for code := 0; code < total; code++ {
			c := Case{N: 3, Edb: make([]bool, 3)}
			if mode >= 3 {
				// modes 3, 4: the plain presentation through parser and analysis, every predicate with a fact
				// of its own, facts before (3) or after (4) the rules
				c.ViaText, c.FactsFor, c.FactsLast = true, []int{0, 1, 2}, mode == 4
			}
			x := code
			for u := 0; u < 3; u++ {
				plain := Rule{Head: u}
				agg := Rule{Head: u, Agg: true}
				for v := 0; v < 3; v++ {
					lab := x % 3
					x /= 3
					switch lab {
					case 1:
						k := kPos
						if mode == 1 {
							k = kTPos
						}
						plain.Body = append(plain.Body, Mention{Pred: v, Kind: k})
					case 2:
						if mode == 2 {
							agg.Body = append(agg.Body, Mention{Pred: v, Kind: kPos})
						} else if mode == 1 {
							plain.Body = append(plain.Body, Mention{Pred: v, Kind: kTNeg})
						} else {
							plain.Body = append(plain.Body, Mention{Pred: v, Kind: kNeg})
						}
					}
				}
				if len(plain.Body) == 0 {
					plain.Body = []Mention{{Pred: -1, Kind: kPos}}
				}
				c.Rules = append(c.Rules, plain)
				if len(agg.Body) > 0 {
					c.Rules = append(c.Rules, agg)
				}
			}
			run.Current(c)
			v := check(run, t, c)
			run.Case(v.nontrivial, c.hash(), append(v.labels, "exhaustive3")...)
			if code%5000 == 17 {
				run.Sample("exhaustive", c)
			}
		}
	}
	run.Exhaustive()
}

func TestReplay(t *testing.T) {
	var c Case
	if !stats.LoadReplay(t, &c) {
		return
	}
	run := stats.Begin("C03", "TestReplay")
	check(run, t, c)
}

var _ = sort.Ints
