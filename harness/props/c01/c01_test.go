// Package c01 checks property C01: evaluation yields exactly the stratified least model.
package c01

import (
	"encoding/json"
	"fmt"
	"strings"
	"testing"

	"pgregory.net/rapid"
	"verif/prog"
	"verif/stats"
)

// Case is a generated program, the facts pre-loaded into the store, and the store kind.
type Case struct {
	Gen   prog.Generated `json:"gen"`
	Store string         `json:"store"`
	Text  string         `json:"text"` // informational: the source text handed to the parser
	// Late: indices into Gen.Extra of facts that are withheld from the first evaluation, added to the store
	// afterwards and followed by a second evaluation of the same program on the same store. What the store
	// holds at that moment (base facts, facts derived by the first run, late facts) is the base of the second
	// evaluation, whose result has to be the stratified least model over that base.
	Late []int `json:"late,omitempty"`
}

type verdict struct {
	nontrivial bool
	labels     []string
}

func extraFacts(run *stats.Run, f stats.Failer, g prog.Generated) []prog.Fact {
	r := prog.Eval(prog.Program{Facts: g.Extra}, nil, prog.Options{})
	if r.Err != nil || r.Unsafe != "" {
		run.Failf(f, "harness: pre-loaded facts are not ground constants: %v %v", r.Err, r.Unsafe)
	}
	var fs []prog.Fact
	for _, k := range r.Model.Keys() {
		fs = append(fs, r.Model[k])
	}
	return fs
}

func check(run *stats.Run, f stats.Failer, c Case) verdict {
	var v verdict
	text := c.Gen.Prog.Source()
	early, lateGen := c.Gen, prog.Generated{}
	if len(c.Late) > 0 {
		isLate := map[int]bool{}
		for _, i := range c.Late {
			isLate[i] = true
		}
		early.Extra = nil
		for i, a := range c.Gen.Extra {
			if isLate[i] {
				lateGen.Extra = append(lateGen.Extra, a)
			} else {
				early.Extra = append(early.Extra, a)
			}
		}
	}
	extra := extraFacts(run, f, early)
	ref := prog.Eval(c.Gen.Prog, extra, prog.Options{})
	switch {
	case ref.Capped:
		run.Inconclusive()
		v.labels = append(v.labels, "ref-capped")
		return v
	case ref.Unsafe != "" || ref.Unstratifiable:
		// the generator builds safe, stratifiable programs by construction; count, no verdict.
		run.Inconclusive()
		v.labels = append(v.labels, "gen-unsafe")
		return v
	case ref.Err != nil:
		run.Inconclusive()
		v.labels = append(v.labels, "ref-error")
		return v
	}
	var late []prog.Fact
	var ref2 prog.Result
	if len(lateGen.Extra) > 0 {
		late = extraFacts(run, f, lateGen)
		var base2 []prog.Fact
		for _, k := range ref.Model.Keys() {
			base2 = append(base2, ref.Model[k])
		}
		base2 = append(base2, late...)
		ref2 = prog.Eval(c.Gen.Prog, base2, prog.Options{})
		if ref2.Capped || ref2.Err != nil || ref2.Unsafe != "" || ref2.Unstratifiable {
			run.Inconclusive()
			v.labels = append(v.labels, "ref2-no-verdict")
			return v
		}
	}
	store := c.Store
	if prog.HashKeyed(store) && stats.Exclusion("K08-hash-colliders") {
		seen := map[string]map[uint64]bool{}
		models := []prog.Model{ref.Model}
		if len(late) > 0 {
			models = append(models, ref2.Model)
		}
		for _, model := range models {
			for _, fact := range model {
				a := fact.ToAtom()
				m := seen[fact.Pred]
				if m == nil {
					m = map[uint64]bool{}
					seen[fact.Pred] = m
				}
				if m[a.Hash()] && store != "multiindexedarray" {
					store = "multiindexedarray"
					run.Excluded("K08-hash-colliders")
				}
				m[a.Hash()] = true
			}
			seen = map[string]map[uint64]bool{}
		}
	}
	// Every fact the engine adds must be a fact of the (finite, complete) reference model: adding more
	// distinct facts than that is unsoundness, and the bound turns a divergence into that verdict.
	out := prog.RunBounded(text, extra, store, len(ref.Model)+8)
	switch {
	case out.Overrun != nil:
		run.Failf(f, "evaluation added %d distinct facts although the stratified least model has only %d (diverging or unsound); aborted by the harness\nprogram:\n%spre-loaded: %v",
			out.Overrun.Created, len(ref.Model), text, atomsText(c.Gen.Extra))
	case out.ParseErr != nil:
		run.Failf(f, "own printer produced text the parser rejects (harness or parser defect): %v\n%s", out.ParseErr, text)
	case out.Panic != "":
		run.Failf(f, "%s panicked on an accepted program: %s\n%s", out.PanicStage, out.Panic, text)
	case out.AnalysisErr != nil:
		v.labels = append(v.labels, "rejected")
		return v
	case out.EvalErr != nil:
		run.Failf(f, "evaluation of an accepted, type-consistent program failed: %v\n%s", out.EvalErr, text)
	}
	if len(out.NonGround) > 0 {
		run.Failf(f, "non-ground facts stored: %v\n%s", out.NonGround, text)
	}
	missing, extraFactsGot := prog.Diff(ref.Model, out.Facts)
	if len(missing) > 0 || len(extraFactsGot) > 0 {
		run.Failf(f, "store (%s) differs from the stratified least model.\nmissing (derivable, not stored): %v\nextra (stored, not derivable): %v\nreference rounds per stratum: %v\nprogram:\n%spre-loaded: %v",
			store, missing, extraFactsGot, ref.Rounds, text, atomsText(c.Gen.Extra))
	}
	if len(lateGen.Extra) > 0 {
		out2 := prog.RunAgain(&out, out.Store, late, len(ref2.Model)+8)
		switch {
		case out2.Overrun != nil:
			run.Failf(f, "the second evaluation on the same store added %d distinct facts although the model over what the store held has only %d\nprogram:\n%spre-loaded: %v\nadded before the second evaluation: %v",
				out2.Overrun.Created, len(ref2.Model), text, atomsText(early.Extra), atomsText(lateGen.Extra))
		case out2.Panic != "":
			run.Failf(f, "the second evaluation on the same store panicked: %s\n%s", out2.Panic, text)
		case out2.EvalErr != nil:
			run.Failf(f, "the second evaluation on the same store failed: %v\n%s", out2.EvalErr, text)
		}
		m2, e2 := prog.Diff(ref2.Model, out2.Facts)
		if len(m2) > 0 || len(e2) > 0 {
			run.Failf(f, "after adding facts and evaluating the same program again on the same store (%s), the store differs from the stratified least model over what it held.\nmissing: %v\nextra: %v\nprogram:\n%spre-loaded for the first evaluation: %v\nadded before the second: %v",
				store, m2, e2, text, atomsText(early.Extra), atomsText(lateGen.Extra))
		}
		v.labels = append(v.labels, "re-evaluated")
		if len(ref2.Model) > len(ref.Model)+len(late) {
			v.labels = append(v.labels, "re-evaluated-derives-more")
		}
	}
	// classification
	derived := 0
	for _, fact := range ref.Model {
		if strings.HasPrefix(fact.Pred, "i") {
			derived++
		}
	}
	labelSet := map[string]bool{}
	for _, l := range c.Gen.Labels {
		labelSet[l] = true
	}
	recursiveLayer := false
	for comp, rounds := range ref.Rounds {
		if strings.Contains(comp, ",") {
			labelSet["mutual"] = true
			recursiveLayer = true
		}
		if rounds > 2 {
			labelSet["rounds>2"] = true
		}
	}
	if labelSet["recursive-rule"] {
		recursiveLayer = true
	}
	v.nontrivial = derived > 0 && (recursiveLayer || labelSet["neg"] || labelSet["fn"])
	for l := range labelSet {
		v.labels = append(v.labels, l)
	}
	if derived > 0 {
		v.labels = append(v.labels, "derives")
	}
	v.labels = append(v.labels, "store:"+store)
	return v
}

func atomsText(as []prog.Atom) string {
	var parts []string
	for _, a := range as {
		parts = append(parts, a.Source())
	}
	return strings.Join(parts, ". ")
}

func (c Case) hash() uint64 {
	b, _ := json.Marshal(c.Gen)
	return stats.Hash(string(b), c.Store, fmt.Sprint(c.Late))
}

func genCase(t *rapid.T) Case {
	g := prog.Gen(prog.AllFeatures).Draw(t, "prog")
	c := Case{Gen: g, Store: rapid.SampledFrom(prog.StoreKinds).Draw(t, "store")}
	c.Text = g.Prog.Source()
	if len(g.Extra) > 0 && rapid.IntRange(0, 4).Draw(t, "twoPhase") == 0 {
		for i := range g.Extra {
			if rapid.Bool().Draw(t, "late") {
				c.Late = append(c.Late, i)
			}
		}
	}
	return c
}

func TestC01(t *testing.T) {
	run := stats.Begin("C01", "TestC01")
	defer run.Finish(t)
	defer minimize(t, run)
	rapid.Check(t, func(rt *rapid.T) {
		c := genCase(rt)
		run.Current(c)
		v := check(run, rt, c)
		run.Case(v.nontrivial, c.hash(), v.labels...)
		if v.nontrivial {
			run.Sample("program", map[string]any{"text": c.Text, "preloaded": atomsText(c.Gen.Extra), "store": c.Store})
		}
	})
}

// minimize post-processes rapid's shrunk failing case with a structural delta-debugging pass.
func minimize(t *testing.T, run *stats.Run) {
	if !t.Failed() {
		return
	}
	c, ok := run.Last().(Case)
	if !ok || len(c.Late) > 0 { // Late indexes Gen.Extra: rapid's own shrinking has to do for two-phase cases
		return
	}
	fails := func(g prog.Generated) bool {
		failed, _ := run.Fails(func(f stats.Failer) { check(run, f, Case{Gen: g, Store: c.Store}) })
		return failed
	}
	if !fails(c.Gen) {
		return
	}
	c.Gen = prog.Minimize(c.Gen, fails)
	c.Text = c.Gen.Prog.Source()
	_, msg := run.Fails(func(f stats.Failer) { check(run, f, c) })
	run.Replace(c, msg)
}

func TestReplay(t *testing.T) {
	var c Case
	if !stats.LoadReplay(t, &c) {
		return
	}
	run := stats.Begin("C01", "TestReplay")
	// labels are not stored in replay files; they only matter for statistics.
	check(run, t, c)
}

var _ = fmt.Sprint
