package c07

import (
	"fmt"
	"strings"

	"codeberg.org/TauCeti/mangle-go/analysis"
	"codeberg.org/TauCeti/mangle-go/ast"
	"codeberg.org/TauCeti/mangle-go/builtin"
	"codeberg.org/TauCeti/mangle-go/engine"
	"codeberg.org/TauCeti/mangle-go/factstore"
	"codeberg.org/TauCeti/mangle-go/functional"
	"codeberg.org/TauCeti/mangle-go/parse"
	"codeberg.org/TauCeti/mangle-go/unionfind"
	"verif/val"
)

// backend evaluates built-ins. Errors returned are evaluation errors reported by the library (a law
// says whether one is expected); panics and malformed answers are reported as violations directly.
type backend interface {
	// fn applies the function sym to args.
	fn(sym string, args ...val.V) (val.V, error)
	// pred decides the built-in predicate sym. pat[i] is an input constant, nil stands for an output
	// variable. The result lists the solutions (values of the output variables, in order); a
	// predicate without output variables yields one empty solution when it holds.
	pred(sym string, pat ...*val.V) ([][]val.V, error)
	// reduce applies reducer sym to the first nargs columns of rows (all rows have the same width).
	reduce(sym string, rows [][]val.V, nargs int) (val.V, error)
	// set tells that solutions come back as a set (duplicates collapse): the program backend.
	set() bool
	// cheap tells whether a call is cheap (direct) so that laws may probe more combinations.
	cheap() bool
}

// in is a helper to build patterns.
func in(v val.V) *val.V { return &v }

// ---------------------------------------------------------------------------------------------

type directBackend struct {
	e    *env
	vars bool
}

func (d *directBackend) set() bool   { return false }
func (d *directBackend) cheap() bool { return true }

func (d *directBackend) fn(sym string, args ...val.V) (res val.V, err error) {
	terms := make([]ast.BaseTerm, len(args))
	subst := ast.ConstSubstMap{}
	for i, a := range args {
		if d.vars {
			v := ast.Variable{Symbol: fmt.Sprintf("X%d", i)}
			subst[v] = a.Build()
			terms[i] = v
		} else {
			terms[i] = a.Build()
		}
	}
	apply := ast.ApplyFn{Function: ast.FunctionSym{Symbol: sym, Arity: len(args)}, Args: terms}
	var c ast.Constant
	func() {
		defer func() {
			if p := recover(); p != nil {
				d.e.failf("%s(%s) panicked: %v", sym, srcs(args), p)
			}
		}()
		c, err = functional.EvalApplyFn(apply, subst)
	}()
	if err != nil {
		return val.V{}, err
	}
	return d.from(c, sym, args), nil
}

// from converts a library constant, reporting a malformed one (val.From panics on unknown kinds).
func (d *directBackend) from(c ast.Constant, sym string, args []val.V) (v val.V) {
	defer func() {
		if p := recover(); p != nil {
			d.e.failf("%s(%s) returned a malformed constant: %v", sym, srcs(args), p)
		}
	}()
	return val.From(c)
}

func patSrc(pat []*val.V) string {
	parts := make([]string, len(pat))
	o := 0
	for i, p := range pat {
		if p == nil {
			parts[i] = fmt.Sprintf("O%d", o)
			o++
		} else {
			parts[i] = p.Source()
		}
	}
	return strings.Join(parts, ", ")
}

func (d *directBackend) pred(sym string, pat ...*val.V) (sols [][]val.V, err error) {
	args := make([]ast.BaseTerm, len(pat))
	var outs []ast.Variable
	for i, p := range pat {
		if p == nil {
			v := ast.Variable{Symbol: fmt.Sprintf("O%d", len(outs))}
			outs = append(outs, v)
			args[i] = v
		} else {
			args[i] = p.Build()
		}
	}
	atom := ast.Atom{Predicate: ast.PredicateSym{Symbol: sym, Arity: len(pat)}, Args: args}
	uf := unionfind.New()
	var ok bool
	var substs []*unionfind.UnionFind
	func() {
		defer func() {
			if p := recover(); p != nil {
				d.e.failf("%s(%s) panicked: %v", sym, patSrc(pat), p)
			}
		}()
		ok, substs, err = builtin.Decide(atom, &uf)
	}()
	if err != nil {
		return nil, err
	}
	if !ok {
		return nil, nil
	}
	if len(outs) == 0 {
		return [][]val.V{{}}, nil
	}
	if len(substs) == 0 {
		d.e.failf("%s(%s) holds but binds nothing", sym, patSrc(pat))
	}
	for _, s := range substs {
		if s == nil {
			d.e.failf("%s(%s) returned a nil substitution", sym, patSrc(pat))
		}
		sol := make([]val.V, len(outs))
		for i, o := range outs {
			c, isConst := s.Get(o).(ast.Constant)
			if !isConst {
				d.e.failf("%s(%s) holds but leaves output %v unbound (%v)", sym, patSrc(pat), o, s.Get(o))
			}
			sol[i] = d.from(c, sym, nil)
		}
		sols = append(sols, sol)
	}
	return sols, nil
}

func rowsSrc(rows [][]val.V) string {
	parts := make([]string, len(rows))
	for i, r := range rows {
		parts[i] = "(" + srcs(r) + ")"
	}
	return strings.Join(parts, " ")
}

func (d *directBackend) reduce(sym string, rows [][]val.V, nargs int) (res val.V, err error) {
	width := 0
	if len(rows) > 0 {
		width = len(rows[0])
	}
	vars := make([]ast.Variable, width)
	for i := range vars {
		vars[i] = ast.Variable{Symbol: fmt.Sprintf("C%d", i)}
	}
	substs := make([]ast.ConstSubstList, len(rows))
	for i, r := range rows {
		var s ast.ConstSubstList
		for j, x := range r {
			s = s.Extend(vars[j], x.Build())
		}
		substs[i] = s
	}
	args := make([]ast.BaseTerm, nargs)
	for i := range args {
		args[i] = vars[i]
	}
	apply := ast.ApplyFn{Function: ast.FunctionSym{Symbol: sym, Arity: nargs}, Args: args}
	var c ast.Constant
	func() {
		defer func() {
			if p := recover(); p != nil {
				d.e.failf("reducer %s over rows %s panicked: %v", sym, rowsSrc(rows), p)
			}
		}()
		c, err = functional.EvalReduceFn(apply, substs)
	}()
	if err != nil {
		return val.V{}, err
	}
	return d.from(c, sym, nil), nil
}

// ---------------------------------------------------------------------------------------------

// programBackend evaluates through source text: a fact a(0, args...) carries the inputs, one rule
// applies the built-in, the facts of r are the answer.
type programBackend struct {
	e *env
}

func (p *programBackend) set() bool   { return true }
func (p *programBackend) cheap() bool { return false }

// evalProgram runs src and returns the facts of r/arity as value tuples, or the error of the
// evaluation. A program that the parser or the analysis rejects is reported as a violation: all
// programs built here are type-correct one-rule programs in the documented syntax.
func (p *programBackend) evalProgram(src string, arity int) (facts [][]val.V, evalErr error) {
	var failure string
	func() {
		defer func() {
			if r := recover(); r != nil {
				failure = fmt.Sprintf("program panicked: %v\n%s", r, src)
			}
		}()
		unit, err := parse.Unit(strings.NewReader(src))
		if err != nil {
			failure = fmt.Sprintf("parser rejected the program: %v\n%s", err, src)
			return
		}
		info, err := analysis.AnalyzeOneUnit(unit, nil)
		if err != nil {
			failure = fmt.Sprintf("analysis rejected the program: %v\n%s", err, src)
			return
		}
		// The array store compares atoms structurally (the hash-keyed stores conflate hash-equal atoms: K08).
		store := factstore.NewMultiIndexedArrayInMemoryStore()
		if err := engine.EvalProgram(info, store); err != nil {
			evalErr = err
			return
		}
		err = store.GetFacts(ast.NewQuery(ast.PredicateSym{Symbol: "r", Arity: arity}), func(a ast.Atom) error {
			row := make([]val.V, len(a.Args))
			for i, arg := range a.Args {
				c, ok := arg.(ast.Constant)
				if !ok {
					failure = fmt.Sprintf("derived fact %v has a non-constant argument\n%s", a, src)
					return nil
				}
				row[i] = val.From(c)
			}
			facts = append(facts, row)
			return nil
		})
		if err != nil {
			failure = fmt.Sprintf("reading the result failed: %v\n%s", err, src)
		}
	}()
	if failure != "" {
		p.e.failf("%s", failure)
	}
	// canonical order: the verdict must not depend on the store's iteration order
	sortRows(facts)
	return facts, evalErr
}

// argSource prints an input value. Top-level times and durations are written through the exact
// integer conversions, so that every int64 instant/duration can be an operand (the text forms
// parsed by fn:time:parse_rfc3339 / fn:duration:parse are used for nested values only).
func argSource(v val.V) string {
	switch v.T {
	case val.Time:
		return "fn:time:from_unix_nanos(" + v.I + ")"
	case val.Dur:
		return "fn:duration:from_nanos(" + v.I + ")"
	}
	return v.Source()
}

func inputFact(args []val.V) (fact string, vars []string) {
	var sb strings.Builder
	sb.WriteString("a(0")
	for i, a := range args {
		sb.WriteString(", ")
		sb.WriteString(argSource(a))
		vars = append(vars, fmt.Sprintf("I%d", i))
	}
	sb.WriteString(").\n")
	return sb.String(), vars
}

func bodyAtom(vars []string) string {
	return "a(D" + strings.Join(append([]string{""}, vars...), ", ") + ")"
}

func (p *programBackend) fn(sym string, args ...val.V) (val.V, error) {
	fact, vars := inputFact(args)
	src := fact + "r(Z) :- " + bodyAtom(vars) + ", Z = " + sym + "(" + strings.Join(vars, ", ") + ").\n"
	facts, err := p.evalProgram(src, 1)
	if err != nil {
		return val.V{}, err
	}
	if len(facts) != 1 {
		p.e.failf("%s(%s): the rule derived %d facts without an error, want exactly one\n%s", sym, srcs(args), len(facts), src)
	}
	return facts[0][0], nil
}

func (p *programBackend) pred(sym string, pat ...*val.V) ([][]val.V, error) {
	var inputs []val.V
	for _, x := range pat {
		if x != nil {
			inputs = append(inputs, *x)
		}
	}
	fact, vars := inputFact(inputs)
	var pargs, outs []string
	i := 0
	for _, x := range pat {
		if x == nil {
			o := fmt.Sprintf("O%d", len(outs))
			outs = append(outs, o)
			pargs = append(pargs, o)
		} else {
			pargs = append(pargs, vars[i])
			i++
		}
	}
	head := "r(1)"
	arity := 1
	if len(outs) > 0 {
		head = "r(" + strings.Join(outs, ", ") + ")"
		arity = len(outs)
	}
	src := fact + head + " :- " + bodyAtom(vars) + ", " + sym + "(" + strings.Join(pargs, ", ") + ").\n"
	facts, err := p.evalProgram(src, arity)
	if err != nil {
		return nil, err
	}
	if len(outs) == 0 {
		if len(facts) == 0 {
			return nil, nil
		}
		return [][]val.V{{}}, nil
	}
	return facts, nil
}

func (p *programBackend) reduce(sym string, rows [][]val.V, nargs int) (val.V, error) {
	var sb strings.Builder
	width := 0
	for i, r := range rows {
		width = len(r)
		fmt.Fprintf(&sb, "a(%d", i)
		for _, x := range r {
			sb.WriteString(", ")
			sb.WriteString(argSource(x))
		}
		sb.WriteString(").\n")
	}
	cols := make([]string, width)
	for i := range cols {
		cols[i] = fmt.Sprintf("C%d", i)
	}
	// The row number is a named variable: the solutions of the body are exactly the rows.
	fmt.Fprintf(&sb, "r(S) :- a(N%s) |> do fn:group_by(), let S = %s(%s).\n",
		strings.Join(append([]string{""}, cols...), ", "), sym, strings.Join(cols[:nargs], ", "))
	src := sb.String()
	facts, err := p.evalProgram(src, 1)
	if err != nil {
		return val.V{}, err
	}
	if len(facts) != 1 {
		p.e.failf("reducer %s over %d rows: the rule derived %d facts without an error, want exactly one\n%s", sym, len(rows), len(facts), src)
	}
	return facts[0][0], nil
}
