// Package c07 checks property C07: built-in functions and predicates obey their defining laws.
//
// Every case is one law applied to one argument tuple. A law is judged through a backend:
//
//	direct   functional.EvalApplyFn / functional.EvalReduceFn / builtin.Decide
//	program  a one-rule program: parse.Unit -> analysis.AnalyzeOneUnit -> engine.EvalProgram
//
// The oracles are Go-level models over the harness' own value tree (val.V); results are compared by
// val.Key, never by Constant.Equals/Hash/String.
//
// Only type-correct argument tuples are generated; what a built-in does on ill-typed arguments (an
// error) is allowed behaviour and is not asserted.
package c07

import (
	"encoding/json"
	"fmt"
	"math"
	"sort"
	"strings"
	"testing"

	"pgregory.net/rapid"
	"verif/stats"
	"verif/val"
)

// Case is one law with its argument tuple (= the replay format).
type Case struct {
	// Law names the law, e.g. "s.pair", "a.divmod", "c.time", "t.replace", "r.avg".
	Law string `json:"law"`
	// Via is the backend: "direct" or "program".
	Via string `json:"via"`
	// Args are the arguments of the law (see the law's comment for their meaning).
	Args []val.V `json:"args,omitempty"`
	// Perms are permutations of 0..len(Args)-1 (reducer laws: orders in which the rows are presented).
	Perms [][]int `json:"perms,omitempty"`
	// N is a small auxiliary integer (collect_distinct: tuple width).
	N int `json:"n,omitempty"`
	// Vars (direct backend, functions only): the arguments are passed as variables bound by the
	// substitution instead of as constants.
	Vars bool `json:"vars,omitempty"`
}

func (c Case) hash() uint64 {
	b, _ := json.Marshal(c)
	return stats.Hash(string(b))
}

type verdict struct {
	nontrivial bool
	labels     []string
}

// env is what a law sees: the backend plus failure reporting.
type env struct {
	run *stats.Run
	f   stats.Failer
	b   backend
	c   Case
	// classes collected for the non-trivial rule and the label statistics
	classes map[string]bool
}

func (e *env) failf(format string, args ...any) {
	e.run.Failf(e.f, "law %s via %s: %s", e.c.Law, e.c.Via, fmt.Sprintf(format, args...))
}

func (e *env) class(name string) { e.classes[name] = true }

func srcs(vs []val.V) string {
	parts := make([]string, len(vs))
	for i, v := range vs {
		parts[i] = v.Source()
	}
	return strings.Join(parts, ", ")
}

// laws maps a law name to its implementation.
var laws = map[string]func(e *env){}

// check judges one case. It is a pure function of c and the code under test.
func check(run *stats.Run, f stats.Failer, c Case) verdict {
	e := &env{run: run, f: f, c: c, classes: map[string]bool{}}
	switch c.Via {
	case "direct":
		e.b = &directBackend{e: e, vars: c.Vars}
	case "program":
		e.b = &programBackend{e: e}
	default:
		run.Failf(f, "harness: unknown backend %q", c.Via)
	}
	law, ok := laws[c.Law]
	if !ok {
		run.Failf(f, "harness: unknown law %q", c.Law)
	}
	for _, a := range c.Args {
		classify(a, e.classes)
	}
	intClasses(c.Args, e.classes)
	law(e)
	v := verdict{}
	v.labels = append(v.labels, "law:"+c.Law, "via:"+c.Via)
	names := make([]string, 0, len(e.classes))
	for k := range e.classes {
		names = append(names, k)
	}
	sort.Strings(names)
	for _, k := range names {
		v.labels = append(v.labels, "class:"+k)
		if ntClasses[k] {
			v.nontrivial = true
		}
	}
	if v.nontrivial {
		v.labels = append(v.labels, "nt:"+c.Law)
	}
	// per-law counts of the two classes on which order and ring laws go wrong
	for _, k := range []string{"diff-overflow", "extreme-int"} {
		if e.classes[k] {
			v.labels = append(v.labels, k+":"+c.Law)
		}
	}
	return v
}

// ntClasses are the classes that make a case non-trivial (DESIGN §3 C07 NT): the argument tuple
// contains a boundary integer, an empty or nested structure, a duplicate key, a multi-part name or
// a non-ASCII string.
var ntClasses = map[string]bool{
	"boundary-int": true, "empty-struct": true, "nested": true, "dup-key": true, "multipart-name": true, "non-ascii": true,
}

// isBoundaryInt: within 2 of one of the boundary bases of the generator (0, +-1, the ends of int64,
// +-2^62, +-200 years of nanoseconds, +-2^53, +-2^32, +-2^31, +-floor(sqrt(2^63))).
func isBoundaryInt(x int64) bool {
	for _, b := range boundaryBases {
		lo, hi := b-2, b+2
		if b < math.MinInt64+2 {
			lo = math.MinInt64
		}
		if b > math.MaxInt64-2 {
			hi = math.MaxInt64
		}
		if x >= lo && x <= hi {
			return true
		}
	}
	return false
}

// subOverflows tells whether x - y does not fit int64.
func subOverflows(x, y int64) bool {
	d := x - y
	return (x >= y) != (d >= 0)
}

// intClasses records, for an all-integer argument tuple (numbers, times or durations), the classes
// that matter for order and ring laws: an operand at an end of int64 and a pair whose difference
// overflows (there "sign of x - y" and "x < y" disagree).
func intClasses(args []val.V, cl map[string]bool) {
	for _, a := range args {
		if a.T != val.Num && a.T != val.Time && a.T != val.Dur {
			return
		}
	}
	for i, a := range args {
		x := a.Int()
		if x <= math.MinInt64+2 || x >= math.MaxInt64-2 {
			cl["extreme-int"] = true
		}
		for _, b := range args[i+1:] {
			if subOverflows(x, b.Int()) || subOverflows(b.Int(), x) {
				cl["diff-overflow"] = true
			}
		}
	}
}

// classify records the classes of one argument value.
func classify(v val.V, cl map[string]bool) {
	switch v.T {
	case val.Num, val.Time, val.Dur:
		if isBoundaryInt(v.Int()) {
			cl["boundary-int"] = true
		}
	case val.Str:
		for _, r := range v.S {
			if r >= 0x80 {
				cl["non-ascii"] = true
				break
			}
		}
		if v.S == "" {
			cl["empty-string"] = true
		}
	case val.Name:
		if strings.Count(v.S, "/") > 1 {
			cl["multipart-name"] = true
		}
	case val.List:
		if len(v.E) == 0 {
			cl["empty-struct"] = true
		}
	case val.Map, val.Struct:
		if len(v.KV) == 0 {
			cl["empty-struct"] = true
		}
		seen := map[string]bool{}
		for _, kv := range v.KV {
			if seen[kv[0].Key()] {
				cl["dup-key"] = true
			}
			seen[kv[0].Key()] = true
		}
	}
	if v.Depth() >= 2 {
		cl["nested"] = true
	}
	for _, x := range v.E {
		classify(x, cl)
	}
	for _, kv := range v.KV {
		classify(kv[0], cl)
		classify(kv[1], cl)
	}
}

// ---------------------------------------------------------------------------------------------
// Test functions: one per law family, plus the program path.

func runFamily(t *testing.T, name string, gen func(*rapid.T) Case) {
	run := stats.Begin("C07", name)
	defer run.Finish(t)
	rapid.Check(t, func(rt *rapid.T) {
		c := gen(rt)
		run.Current(c)
		v := check(run, rt, c)
		run.Case(v.nontrivial, c.hash(), v.labels...)
		if v.nontrivial {
			run.Sample(c.Via+":"+strings.SplitN(c.Law, ".", 2)[0], c)
		}
	})
}

func direct(gen func(*rapid.T) Case) func(*rapid.T) Case {
	return func(t *rapid.T) Case {
		c := gen(t)
		c.Via = "direct"
		c.Vars = rapid.IntRange(0, 3).Draw(t, "vars") == 0
		return c
	}
}

func TestC07_Structs(t *testing.T)  { runFamily(t, "TestC07_Structs", direct(genStructs)) }
func TestC07_Arith(t *testing.T)    { runFamily(t, "TestC07_Arith", direct(genArith)) }
func TestC07_Compare(t *testing.T)  { runFamily(t, "TestC07_Compare", direct(genCompare)) }
func TestC07_Strings(t *testing.T)  { runFamily(t, "TestC07_Strings", direct(genStrings)) }
func TestC07_Reducers(t *testing.T) { runFamily(t, "TestC07_Reducers", direct(genReducers)) }

// TestC07_Programs runs the same laws, with the same oracles, through one-rule programs.
func TestC07_Programs(t *testing.T) {
	runFamily(t, "TestC07_Programs", func(t *rapid.T) Case {
		var c Case
		switch rapid.IntRange(0, 9).Draw(t, "family") {
		case 0, 1, 2:
			c = genStructs(t)
		case 3, 4, 5:
			c = genArith(t)
		case 6:
			c = genCompare(t)
		case 7, 8:
			c = genStrings(t)
		default:
			c = genReducers(t)
		}
		c.Via = "program"
		return c
	})
}

func TestReplay(t *testing.T) {
	var c Case
	if !stats.LoadReplay(t, &c) {
		return
	}
	run := stats.Begin("C07", "TestReplay")
	replaying = true
	check(run, t, c)
}
