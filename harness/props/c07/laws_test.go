package c07

import (
	"math"
	"math/big"
	"sort"
	"strconv"
	"strings"

	"verif/stats"
	"verif/val"
)

// exclMapGet names the exclusion for finding N1 (see lawMap).
const exclMapGet = "c07-map-get-in-rule-body"

// replaying is set by TestReplay: a replayed case is judged without exclusions, so that the pinned
// replay of a known finding keeps failing for as long as the finding is in the tree.
var replaying bool

// ---------------------------------------------------------------------------------------------
// helpers

func rowKey(r []val.V) string {
	ks := make([]string, len(r))
	for i, x := range r {
		ks[i] = x.Key()
	}
	return strings.Join(ks, " | ")
}

func sortRows(rows [][]val.V) {
	sort.SliceStable(rows, func(i, j int) bool { return rowKey(rows[i]) < rowKey(rows[j]) })
}

// canon returns the sorted row keys; as a set when asSet.
func canon(rows [][]val.V, asSet bool) []string {
	ks := make([]string, 0, len(rows))
	seen := map[string]bool{}
	for _, r := range rows {
		k := rowKey(r)
		if asSet && seen[k] {
			continue
		}
		seen[k] = true
		ks = append(ks, k)
	}
	sort.Strings(ks)
	return ks
}

// mustFn applies a function that must yield a value.
func (e *env) mustFn(sym string, args ...val.V) val.V {
	r, err := e.b.fn(sym, args...)
	if err != nil {
		e.failf("%s(%s) failed on type-correct arguments: %v", sym, srcs(args), err)
	}
	return r
}

// wantFn applies a function and compares the value with the model's.
func (e *env) wantFn(sym string, want val.V, args ...val.V) val.V {
	r := e.mustFn(sym, args...)
	if r.Key() != want.Key() {
		e.failf("%s(%s) = %s, want %s", sym, srcs(args), r.Source(), want.Source())
	}
	return r
}

// wantErr applies a function that must report an error.
func (e *env) wantErr(why, sym string, args ...val.V) {
	r, err := e.b.fn(sym, args...)
	if err == nil {
		e.failf("%s(%s) = %s without an error, want an error (%s)", sym, srcs(args), r.Source(), why)
	}
}

// sols decides a predicate that must not fail with an error.
func (e *env) sols(sym string, pat ...*val.V) [][]val.V {
	s, err := e.b.pred(sym, pat...)
	if err != nil {
		e.failf("%s(%s) failed on type-correct arguments: %v", sym, patSrc(pat), err)
	}
	return s
}

// wantSols compares the solutions of a predicate with the model's (as a multiset for the direct
// backend, as a set for programs).
func (e *env) wantSols(sym string, want [][]val.V, pat ...*val.V) {
	got := e.sols(sym, pat...)
	g, w := canon(got, e.b.set()), canon(want, e.b.set())
	if strings.Join(g, "\n") != strings.Join(w, "\n") {
		e.failf("%s(%s) has solutions %v, want %v", sym, patSrc(pat), g, w)
	}
}

func (e *env) holds(sym string, pat ...*val.V) bool { return len(e.sols(sym, pat...)) > 0 }

func (e *env) wantHolds(want bool, sym string, pat ...*val.V) {
	if got := e.holds(sym, pat...); got != want {
		e.failf("%s(%s) is %v, want %v", sym, patSrc(pat), got, want)
	}
}

func boolName(b bool) val.V {
	if b {
		return val.N("/true")
	}
	return val.N("/false")
}

func (e *env) nestedIfStructured(vs ...val.V) {
	for _, v := range vs {
		if v.Depth() >= 1 || v.T == val.List || v.T == val.Map || v.T == val.Struct || v.T == val.Pair {
			e.class("nested") // a structure inside the structure the law builds
		}
	}
}

func nestPairs(vs []val.V) val.V {
	if len(vs) == 1 {
		return vs[0]
	}
	res := val.P(vs[len(vs)-2], vs[len(vs)-1])
	for i := len(vs) - 3; i >= 0; i-- {
		res = val.P(vs[i], res)
	}
	return res
}

// ---------------------------------------------------------------------------------------------
// structured data

func init() {
	// s.pair: Args = [a, b]. fn:pair(a, b) is the pair of a and b, and :match_pair returns exactly them.
	laws["s.pair"] = func(e *env) {
		a, b := e.c.Args[0], e.c.Args[1]
		e.nestedIfStructured(a, b)
		p := e.wantFn("fn:pair", val.P(a, b), a, b)
		e.wantSols(":match_pair", [][]val.V{{a, b}}, in(p), nil, nil)
	}

	// s.tuple: Args = 1..5 components. fn:tuple is the identity on one argument, a pair on two and
	// a right-nested pair on more (symbols.go; the tuple type expands the same way).
	laws["s.tuple"] = func(e *env) {
		as := e.c.Args
		e.nestedIfStructured(as...)
		t := e.wantFn("fn:tuple", nestPairs(as), as...)
		// taking it apart with :match_pair returns the components in order
		rest := t
		for i := 0; i+1 < len(as); i++ {
			s := e.sols(":match_pair", in(rest), nil, nil)
			if len(s) != 1 {
				e.failf("component %d of fn:tuple(%s): :match_pair has %d solutions", i, srcs(as), len(s))
			}
			if s[0][0].Key() != as[i].Key() {
				e.failf("component %d of fn:tuple(%s) is %s, want %s", i, srcs(as), s[0][0].Source(), as[i].Source())
			}
			rest = s[0][1]
		}
		if len(as) >= 2 && rest.Key() != as[len(as)-1].Key() {
			e.failf("last component of fn:tuple(%s) is %s", srcs(as), rest.Source())
		}
	}

	// s.list: Args = the elements. fn:list builds the list, fn:list:len its length, fn:list:get(l, i) element i.
	laws["s.list"] = func(e *env) {
		es := e.c.Args
		e.nestedIfStructured(es...)
		if len(es) == 0 {
			e.class("empty-struct")
		}
		l := e.wantFn("fn:list", val.L(es...), es...)
		e.wantFn("fn:list:len", val.I(int64(len(es))), l)
		for i, x := range es {
			if !e.b.cheap() && i > 0 && i < len(es)-1 {
				continue // programs: first and last index only
			}
			e.wantFn("fn:list:get", x, l, val.I(int64(i)))
		}
	}

	// s.cons: Args = [h, l]. fn:list:cons(h, l) is the list with head h and tail l; :match_cons inverts it.
	laws["s.cons"] = func(e *env) {
		h, l := e.c.Args[0], e.c.Args[1]
		e.nestedIfStructured(h)
		want := val.L(append([]val.V{h}, l.E...)...)
		c := e.wantFn("fn:list:cons", want, h, l)
		e.wantSols(":match_cons", [][]val.V{{h, l}}, in(c), nil, nil)
		e.wantFn("fn:list:len", val.I(int64(len(l.E)+1)), c)
		e.wantFn("fn:list:get", h, c, val.I(0))
		e.wantHolds(false, ":match_nil", in(c))
	}

	// s.append: Args = [l, x]. fn:list:append(l, x) is l followed by x.
	laws["s.append"] = func(e *env) {
		l, x := e.c.Args[0], e.c.Args[1]
		e.nestedIfStructured(x)
		want := val.L(append(append([]val.V{}, l.E...), x)...)
		a := e.wantFn("fn:list:append", want, l, x)
		e.wantFn("fn:list:len", val.I(int64(len(l.E)+1)), a)
		e.wantFn("fn:list:get", x, a, val.I(int64(len(l.E))))
	}

	// s.match_list: Args = [l]. A list is empty (:match_nil) or has a head and a tail (:match_cons), never both.
	laws["s.match_list"] = func(e *env) {
		l := e.c.Args[0]
		if len(e.c.Args) > 1 && e.b.cheap() {
			// a value that is not a list (a number, a string, a name, an empty map or struct, a pair ...) is not the
			// empty list: :match_nil must not hold for it (an error is as good as "does not hold")
			other := e.c.Args[1]
			if got, err := e.b.pred(":match_nil", in(other)); err == nil && len(got) > 0 {
				e.failf(":match_nil(%s) holds although the value is not a list", other.Source())
			}
			e.class("match_nil-on-non-list")
		}
		e.wantHolds(len(l.E) == 0, ":match_nil", in(l))
		if len(l.E) == 0 {
			e.wantSols(":match_cons", nil, in(l), nil, nil)
			return
		}
		e.wantSols(":match_cons", [][]val.V{{l.E[0], val.L(l.E[1:]...)}}, in(l), nil, nil)
	}

	// s.member: Args = [l, probe]. :list:member(X, l) enumerates exactly the elements; with a bound
	// first argument it tests membership and agrees with fn:list:contains.
	laws["s.member"] = func(e *env) {
		l, probe := e.c.Args[0], e.c.Args[1]
		var want [][]val.V
		contained := false
		for _, x := range l.E {
			want = append(want, []val.V{x})
			if x.Key() == probe.Key() {
				contained = true
			}
		}
		if contained {
			e.class("member-hit")
		} else {
			e.class("member-miss")
		}
		e.wantSols(":list:member", want, nil, in(l))
		if e.b.cheap() {
			// the membership-test mode exists only below the analysis: in a program the first
			// argument has mode "output" and must be a free variable (ast.Mode.Check)
			e.wantHolds(contained, ":list:member", in(probe), in(l))
		}
		e.wantFn("fn:list:contains", boolName(contained), l, probe)
	}

	laws["s.map"] = func(e *env) { lawMap(e, val.Map, "fn:map", "fn:map:get", ":match_entry") }
	laws["s.struct"] = func(e *env) { lawMap(e, val.Struct, "fn:struct", "fn:struct:get", ":match_field") }
}

// lawMap: Args = [m, probe] where m carries the entries in the order supplied (possibly with
// duplicate keys). The constructor builds the map/struct; get and the match predicate return for a
// key a value that was supplied for it (with distinct keys: the value); an absent key yields nothing.
// With duplicate keys the value of the whole literal is ill-defined (K23) and only this validity
// predicate is asserted.
func lawMap(e *env, kind, ctor, get, match string) {
	m, probe := e.c.Args[0], e.c.Args[1]
	var flat []val.V
	allowed := map[string]map[string]bool{}
	var keys []val.V
	dup := false
	for _, kv := range m.KV {
		flat = append(flat, kv[0], kv[1])
		e.nestedIfStructured(kv[0], kv[1])
		k := kv[0].Key()
		if allowed[k] == nil {
			allowed[k] = map[string]bool{}
			keys = append(keys, kv[0])
		} else {
			dup = true
		}
		allowed[k][kv[1].Key()] = true
	}
	// Finding N1 (fn:map:get is missing from builtin.Functions, so the analysis rejects every rule
	// that applies it): if it is registered as a known finding, programs go without fn:map:get.
	noGet := get == "fn:map:get" && !e.b.cheap() && !replaying && stats.Exclusion(exclMapGet)
	if noGet {
		e.run.Excluded(exclMapGet)
	}
	r := e.mustFn(ctor, flat...)
	if r.T != kind {
		e.failf("%s(%s) = %s is not a %s", ctor, srcs(flat), r.Source(), kind)
	}
	if !dup && r.Key() != m.Key() {
		e.failf("%s(%s) = %s, want the entries supplied", ctor, srcs(flat), r.Source())
	}
	for i, k := range keys {
		if !e.b.cheap() && i >= 2 {
			break
		}
		ok := allowed[k.Key()]
		var g val.V
		if !noGet {
			g = e.mustFn(get, r, k)
			if !ok[g.Key()] {
				e.failf("%s(%s, %s) = %s, which was not supplied for that key", get, r.Source(), k.Source(), g.Source())
			}
		}
		s := e.sols(match, in(r), in(k), nil)
		if len(s) != 1 {
			e.failf("%s(%s, %s, V) has %d solutions, want one", match, r.Source(), k.Source(), len(s))
		}
		if !ok[s[0][0].Key()] {
			e.failf("%s(%s, %s, V) binds V = %s, which was not supplied for that key", match, r.Source(), k.Source(), s[0][0].Source())
		}
		if !dup && !noGet {
			if s[0][0].Key() != g.Key() {
				e.failf("%s and %s disagree on key %s of %s: %s vs %s", get, match, k.Source(), r.Source(), g.Source(), s[0][0].Source())
			}
		}
	}
	if allowed[probe.Key()] == nil {
		e.class("absent-key")
		if !noGet {
			e.wantErr("the key is absent", get, r, probe)
		}
		// a failing match may be reported as "no solution" or as an error; it must not bind a value
		if s, err := e.b.pred(match, in(r), in(probe), nil); err == nil && len(s) > 0 {
			e.failf("%s(%s, %s, V) binds V = %s for an absent key", match, r.Source(), probe.Source(), s[0][0].Source())
		}
	}
}

// ---------------------------------------------------------------------------------------------
// integer arithmetic (two's-complement ring, truncating division)

func ints(vs []val.V) []int64 {
	xs := make([]int64, len(vs))
	for i, v := range vs {
		xs[i] = v.Int()
	}
	return xs
}

func sign(x int64) int {
	switch {
	case x < 0:
		return -1
	case x > 0:
		return 1
	}
	return 0
}

// absU is |x| as an unsigned number (exact for MinInt64).
func absU(x int64) uint64 {
	if x < 0 {
		return uint64(-(x + 1)) + 1
	}
	return uint64(x)
}

func init() {
	// a.plus / a.mult: Args = 1..4 numbers; the wrapping sum / product (one argument: the argument).
	laws["a.plus"] = func(e *env) {
		var s int64
		exact := new(big.Int)
		for _, x := range ints(e.c.Args) {
			s += x
			exact.Add(exact, big.NewInt(x))
		}
		e.wraps(exact)
		e.wantFn("fn:plus", val.I(s), e.c.Args...)
	}
	laws["a.mult"] = func(e *env) {
		p := int64(1)
		exact := big.NewInt(1)
		for _, x := range ints(e.c.Args) {
			p *= x
			exact.Mul(exact, big.NewInt(x))
		}
		e.wraps(exact)
		e.wantFn("fn:mult", val.I(p), e.c.Args...)
	}
	// a.minus: Args = 1..4 numbers; (x - y1) - y2 ..., one argument: -x (wrapping).
	laws["a.minus"] = func(e *env) {
		xs := ints(e.c.Args)
		d := xs[0]
		exact := big.NewInt(xs[0])
		if len(xs) == 1 {
			d = -d
			exact.Neg(exact)
		}
		for _, y := range xs[1:] {
			d -= y
			exact.Sub(exact, big.NewInt(y))
		}
		e.wraps(exact)
		e.wantFn("fn:minus", val.I(d), e.c.Args...)
	}
	// a.div1: Args = [x]. fn:div(x) is the integer 1/x; x = 0 is a division by zero.
	laws["a.div1"] = func(e *env) {
		x := e.c.Args[0].Int()
		if x == 0 {
			e.class("zero-divisor")
			e.wantErr("division by zero", "fn:div", e.c.Args...)
			return
		}
		e.wantFn("fn:div", val.I(1/x), e.c.Args...)
	}
	// a.divn: Args = [x, y1, ..., yk], k = 1..3. (x / y1) / y2 ... truncating toward zero; any zero
	// divisor is a division by zero, wherever it stands.
	laws["a.divn"] = func(e *env) {
		xs := ints(e.c.Args)
		q := xs[0]
		for _, y := range xs[1:] {
			if y == 0 {
				e.class("zero-divisor")
				e.wantErr("division by zero", "fn:div", e.c.Args...)
				return
			}
			if q == math.MinInt64 && y == -1 {
				e.class("minint-div-minus1")
				q = math.MinInt64 // two's-complement wrap; Go's / yields this too, spelled out for clarity
				continue
			}
			q /= y
		}
		e.wantFn("fn:div", val.I(q), e.c.Args...)
	}
	// a.divmod: Args = [x, y]. y = 0: both fail. Otherwise x = (x div y)*y + (x mod y) in the ring,
	// the quotient is truncated toward zero, |x mod y| < |y| and x mod y has the sign of x (or is 0).
	laws["a.divmod"] = func(e *env) {
		x, y := e.c.Args[0].Int(), e.c.Args[1].Int()
		if y == 0 {
			e.class("zero-divisor")
			e.wantErr("division by zero", "fn:div", e.c.Args...)
			e.wantErr("division by zero", "fn:mod", e.c.Args...)
			return
		}
		qv := e.mustFn("fn:div", e.c.Args...)
		rv := e.mustFn("fn:mod", e.c.Args...)
		if qv.T != val.Num || rv.T != val.Num {
			e.failf("fn:div/fn:mod(%d, %d) = %s, %s: not numbers", x, y, qv.Source(), rv.Source())
		}
		q, r := qv.Int(), rv.Int()
		if x == math.MinInt64 && y == -1 {
			e.class("minint-div-minus1")
		}
		if q*y+r != x {
			e.failf("fn:div(%d, %d) = %d and fn:mod = %d: (x div y)*y + (x mod y) = %d, want x", x, y, q, r, q*y+r)
		}
		if absU(r) >= absU(y) {
			e.failf("fn:mod(%d, %d) = %d: |x mod y| must be below |y|", x, y, r)
		}
		if r != 0 && sign(r) != sign(x) {
			e.failf("fn:mod(%d, %d) = %d: the result must have the sign of x", x, y, r)
		}
		// agreement with Go's truncating operators (the identity plus the two bounds determine q and r
		// uniquely except at the wrap MinInt64 div -1, where Go defines q = MinInt64, r = 0)
		wq, wr := int64(math.MinInt64), int64(0)
		if !(x == math.MinInt64 && y == -1) {
			wq, wr = x/y, x%y
		}
		if q != wq || r != wr {
			e.failf("fn:div(%d, %d) = %d, fn:mod = %d, want %d and %d", x, y, q, r, wq, wr)
		}
	}
}

// ---------------------------------------------------------------------------------------------
// comparisons: one consistent total order per type

var cmpPreds = map[string][4]string{
	"c.num":  {":lt", ":le", ":gt", ":ge"},
	"c.time": {":time:lt", ":time:le", ":time:gt", ":time:ge"},
	"c.dur":  {":duration:lt", ":duration:le", ":duration:gt", ":duration:ge"},
}

// lawCompare: Args = [a, b, c] of one type (number, time or duration).
func lawCompare(e *env) {
	ps := cmpPreds[e.c.Law]
	vs := e.c.Args
	n := len(vs)
	if !e.b.cheap() {
		n = 2 // programs: the pair (a, b) and its converse only
	}
	type ans struct{ lt, le, gt, ge bool }
	tab := make([][]ans, n)
	for i := 0; i < n; i++ {
		tab[i] = make([]ans, n)
		for j := 0; j < n; j++ {
			x, y := vs[i], vs[j]
			tab[i][j] = ans{
				lt: e.holds(ps[0], in(x), in(y)), le: e.holds(ps[1], in(x), in(y)),
				gt: e.holds(ps[2], in(x), in(y)), ge: e.holds(ps[3], in(x), in(y)),
			}
		}
	}
	for i := 0; i < n; i++ {
		for j := 0; j < n; j++ {
			x, y, a := vs[i], vs[j], tab[i][j]
			eq := x.Int() == y.Int()
			if eq {
				e.class("equal-operands")
			}
			// trichotomy: exactly one of x < y, x = y, x > y
			cnt := 0
			for _, b := range []bool{a.lt, eq, a.gt} {
				if b {
					cnt++
				}
			}
			if cnt != 1 {
				e.failf("trichotomy: %s < %s is %v, equal is %v, > is %v", x.Source(), y.Source(), a.lt, eq, a.gt)
			}
			if a.le != (a.lt || eq) || a.ge != (a.gt || eq) {
				e.failf("%s vs %s: <= is %v, >= is %v but < is %v, > is %v, equal is %v", x.Source(), y.Source(), a.le, a.ge, a.lt, a.gt, eq)
			}
			// converse
			if c := tab[j][i]; a.lt != c.gt || a.le != c.ge {
				e.failf("%s vs %s: < and <= must be the converses of > and >=", x.Source(), y.Source())
			}
			// agreement with Go
			if a.lt != (x.Int() < y.Int()) || a.le != (x.Int() <= y.Int()) || a.gt != (x.Int() > y.Int()) || a.ge != (x.Int() >= y.Int()) {
				e.failf("%s vs %s: <,<=,>,>= are %v,%v,%v,%v", x.Source(), y.Source(), a.lt, a.le, a.gt, a.ge)
			}
		}
	}
	// transitivity on the triple
	for i := 0; i < n; i++ {
		for j := 0; j < n; j++ {
			for k := 0; k < n; k++ {
				if tab[i][j].le && tab[j][k].le && !tab[i][k].le {
					e.failf("<= is not transitive on %s, %s, %s", vs[i].Source(), vs[j].Source(), vs[k].Source())
				}
				if tab[i][j].lt && tab[j][k].lt && !tab[i][k].lt {
					e.failf("< is not transitive on %s, %s, %s", vs[i].Source(), vs[j].Source(), vs[k].Source())
				}
			}
		}
	}
}

func init() {
	laws["c.num"] = lawCompare
	laws["c.time"] = lawCompare
	laws["c.dur"] = lawCompare
}

// ---------------------------------------------------------------------------------------------
// strings and names

// text is the plain-string reading of a concat argument.
func text(v val.V) string {
	switch v.T {
	case val.Str, val.Name:
		return v.S
	case val.Num:
		return strconv.FormatInt(v.Int(), 10)
	}
	panic("harness: concat argument kind " + v.T)
}

// replaceModel replaces the first n non-overlapping occurrences of old (non-empty), left to right.
func replaceModel(s, old, new string, n int64) string {
	var sb strings.Builder
	var cnt int64
	for i := 0; i < len(s); {
		if cnt < n && len(s)-i >= len(old) && s[i:i+len(old)] == old {
			sb.WriteString(new)
			i += len(old)
			cnt++
			continue
		}
		sb.WriteByte(s[i])
		i++
	}
	return sb.String()
}

func nameParts(sym string) []string {
	var parts []string
	cur := ""
	for i := 1; i < len(sym); i++ {
		if sym[i] == '/' {
			parts = append(parts, cur)
			cur = ""
			continue
		}
		cur += string(sym[i])
	}
	return append(parts, cur)
}

func init() {
	// t.concat: Args = 1..4 strings, names or numbers: the concatenation of their texts.
	laws["t.concat"] = func(e *env) {
		want := ""
		for _, a := range e.c.Args {
			want += text(a)
		}
		e.wantFn("fn:string:concat", val.S(want), e.c.Args...)
	}
	// t.replace: Args = [s, old, new, n], old non-empty, n >= 0 (what an empty old or a negative n
	// means is not documented and not generated).
	laws["t.replace"] = func(e *env) {
		a := e.c.Args
		want := replaceModel(a[0].S, a[1].S, a[2].S, a[3].Int())
		if lib := strings.Replace(a[0].S, a[1].S, a[2].S, int(a[3].Int())); lib != want {
			e.failf("harness: replace model %q disagrees with strings.Replace %q", want, lib)
		}
		if want != a[0].S {
			e.class("replaced")
		}
		e.wantFn("fn:string:replace", val.S(want), a...)
	}
	// t.starts_with / t.ends_with / t.contains: Args = [s, pattern].
	laws["t.starts_with"] = func(e *env) {
		s, p := e.c.Args[0].S, e.c.Args[1].S
		want := len(p) <= len(s) && s[:len(p)] == p
		if want != strings.HasPrefix(s, p) {
			e.failf("harness: prefix model disagrees with strings.HasPrefix")
		}
		e.hit(want)
		e.wantHolds(want, ":string:starts_with", in(e.c.Args[0]), in(e.c.Args[1]))
	}
	laws["t.ends_with"] = func(e *env) {
		s, p := e.c.Args[0].S, e.c.Args[1].S
		want := len(p) <= len(s) && s[len(s)-len(p):] == p
		if want != strings.HasSuffix(s, p) {
			e.failf("harness: suffix model disagrees with strings.HasSuffix")
		}
		e.hit(want)
		e.wantHolds(want, ":string:ends_with", in(e.c.Args[0]), in(e.c.Args[1]))
	}
	laws["t.contains"] = func(e *env) {
		s, p := e.c.Args[0].S, e.c.Args[1].S
		want := false
		for i := 0; i+len(p) <= len(s); i++ {
			if s[i:i+len(p)] == p {
				want = true
				break
			}
		}
		if want != strings.Contains(s, p) {
			e.failf("harness: infix model disagrees with strings.Contains")
		}
		e.hit(want)
		e.wantHolds(want, ":string:contains", in(e.c.Args[0]), in(e.c.Args[1]))
	}
	// t.name_*: Args = [name]. root = first part, tip = last part, list = the parts, to_string = the text.
	laws["t.name_root"] = func(e *env) {
		ps := nameParts(e.c.Args[0].S)
		e.wantFn("fn:name:root", val.N("/"+ps[0]), e.c.Args[0])
	}
	laws["t.name_tip"] = func(e *env) {
		ps := nameParts(e.c.Args[0].S)
		e.wantFn("fn:name:tip", val.N("/"+ps[len(ps)-1]), e.c.Args[0])
	}
	laws["t.name_list"] = func(e *env) {
		var es []val.V
		for _, p := range nameParts(e.c.Args[0].S) {
			es = append(es, val.N("/"+p))
		}
		e.wantFn("fn:name:list", val.L(es...), e.c.Args[0])
	}
	laws["t.name_to_string"] = func(e *env) {
		e.wantFn("fn:name:to_string", val.S(e.c.Args[0].S), e.c.Args[0])
	}
	// t.number_to_string: Args = [n]: the decimal text.
	laws["t.number_to_string"] = func(e *env) {
		e.wantFn("fn:number:to_string", val.S(strconv.FormatInt(e.c.Args[0].Int(), 10)), e.c.Args[0])
	}
}

// wraps records that the exact result of a ring operation does not fit int64 (the law then is about
// the two's-complement wrap).
func (e *env) wraps(exact *big.Int) {
	if !exact.IsInt64() {
		e.class("wraps")
	}
}

func (e *env) hit(b bool) {
	if b {
		e.class("pattern-hit")
	} else {
		e.class("pattern-miss")
	}
}

// ---------------------------------------------------------------------------------------------
// reducers: independent of the order of the rows, equal to an independent fold

// orders returns the identity order plus the generated permutations.
func (e *env) orders(n int) [][]int {
	id := make([]int, n)
	for i := range id {
		id[i] = i
	}
	res := [][]int{id}
	for _, p := range e.c.Perms {
		if len(p) != n {
			e.failf("harness: permutation %v does not fit %d rows", p, n)
		}
		seen := make([]bool, n)
		for _, i := range p {
			if i < 0 || i >= n || seen[i] {
				e.failf("harness: %v is not a permutation", p)
			}
			seen[i] = true
		}
		res = append(res, p)
	}
	return res
}

func permute(rows [][]val.V, p []int) [][]val.V {
	res := make([][]val.V, len(p))
	for i, j := range p {
		res[i] = rows[j]
	}
	return res
}

func column(vs []val.V) [][]val.V {
	rows := make([][]val.V, len(vs))
	for i, v := range vs {
		rows[i] = []val.V{v}
	}
	return rows
}

// lawFold: Args = 1..6 numbers (one row each), Perms = orders of presentation.
func lawFold(sym string, nargs int, model func(xs []int64) int64) func(e *env) {
	return func(e *env) {
		rows := column(e.c.Args)
		want := val.I(model(ints(e.c.Args)))
		if sym == "fn:sum" {
			exact := new(big.Int)
			for _, x := range ints(e.c.Args) {
				exact.Add(exact, big.NewInt(x))
			}
			e.wraps(exact)
		}
		seen := map[string]bool{}
		for _, a := range e.c.Args {
			if seen[a.Key()] {
				e.class("duplicate-rows")
			}
			seen[a.Key()] = true
		}
		for _, p := range e.orders(len(rows)) {
			got, err := e.b.reduce(sym, permute(rows, p), nargs)
			if err != nil {
				e.failf("%s over rows %s in order %v failed: %v", sym, rowsSrc(rows), p, err)
			}
			if got.Key() != want.Key() {
				e.failf("%s over rows %s in order %v = %s, want %s", sym, rowsSrc(rows), p, got.Source(), want.Source())
			}
		}
	}
}

func init() {
	laws["r.count"] = lawFold("fn:count", 0, func(xs []int64) int64 { return int64(len(xs)) })
	laws["r.sum"] = lawFold("fn:sum", 1, func(xs []int64) int64 {
		var s int64
		for _, x := range xs {
			s += x // wrapping
		}
		return s
	})
	laws["r.min"] = lawFold("fn:min", 1, func(xs []int64) int64 {
		m := xs[0]
		for _, x := range xs {
			if x < m {
				m = x
			}
		}
		return m
	})
	laws["r.max"] = lawFold("fn:max", 1, func(xs []int64) int64 {
		m := xs[0]
		for _, x := range xs {
			if x > m {
				m = x
			}
		}
		return m
	})

	// r.avg: Args = 1..6 numbers. The result type is float64, so the exact mean cannot always be
	// returned; the stated tolerance is |got - mean| <= 2^-50 * (sum of |x_i|) / n, which covers the
	// roundings of n conversions, n-1 additions and one division in any order for n <= 6.
	laws["r.avg"] = func(e *env) {
		rows := column(e.c.Args)
		n := int64(len(rows))
		sum, abs := new(big.Int), new(big.Int)
		for _, x := range ints(e.c.Args) {
			b := big.NewInt(x)
			sum.Add(sum, b)
			abs.Add(abs, b.Abs(b))
		}
		exact := new(big.Rat).SetFrac(sum, big.NewInt(n))
		tol := new(big.Rat).SetFrac(abs, new(big.Int).Mul(big.NewInt(n), new(big.Int).Lsh(big.NewInt(1), 50)))
		for _, p := range e.orders(len(rows)) {
			got, err := e.b.reduce("fn:avg", permute(rows, p), 1)
			if err != nil {
				e.failf("fn:avg over rows %s in order %v failed: %v", rowsSrc(rows), p, err)
			}
			if got.T != val.Float {
				e.failf("fn:avg over rows %s = %s, want a float64", rowsSrc(rows), got.Source())
			}
			g := new(big.Rat)
			if math.IsNaN(got.Flt()) || math.IsInf(got.Flt(), 0) || g.SetFloat64(got.Flt()) == nil {
				e.failf("fn:avg over rows %s in order %v is not finite", rowsSrc(rows), p)
			}
			diff := new(big.Rat).Sub(g, exact)
			if diff.Abs(diff).Cmp(tol) > 0 {
				e.failf("fn:avg over rows %s in order %v = %v, exact mean %s, off by more than 2^-50*sum|x|/n", rowsSrc(rows), p, got.Flt(), exact.FloatString(6))
			}
		}
	}

	// r.collect_distinct: Args = rows, each a list of N values (the tuple collected). Read as a set,
	// the result is the set of the rows' tuples, and no element occurs twice.
	laws["r.collect_distinct"] = func(e *env) {
		w := e.c.N
		var rows [][]val.V
		want := map[string]bool{}
		for _, a := range e.c.Args {
			if a.T != val.List || len(a.E) != w {
				e.failf("harness: row %s is not a list of %d values", a.Source(), w)
			}
			rows = append(rows, a.E)
			k := nestPairs(a.E).Key()
			if want[k] {
				e.class("duplicate-rows")
			}
			want[k] = true
		}
		var wantKeys []string
		for k := range want {
			wantKeys = append(wantKeys, k)
		}
		sort.Strings(wantKeys)
		for _, p := range e.orders(len(rows)) {
			got, err := e.b.reduce("fn:collect_distinct", permute(rows, p), w)
			if err != nil {
				e.failf("fn:collect_distinct over rows %s in order %v failed: %v", rowsSrc(rows), p, err)
			}
			if got.T != val.List {
				e.failf("fn:collect_distinct over rows %s = %s, want a list", rowsSrc(rows), got.Source())
			}
			var gotKeys []string
			seen := map[string]bool{}
			for _, x := range got.E {
				if seen[x.Key()] {
					e.failf("fn:collect_distinct over rows %s in order %v = %s: %s occurs twice", rowsSrc(rows), p, got.Source(), x.Source())
				}
				seen[x.Key()] = true
				gotKeys = append(gotKeys, x.Key())
			}
			sort.Strings(gotKeys)
			if strings.Join(gotKeys, "\n") != strings.Join(wantKeys, "\n") {
				e.failf("fn:collect_distinct over rows %s in order %v = %s: as a set %v, want %v", rowsSrc(rows), p, got.Source(), gotKeys, wantKeys)
			}
		}
	}
}
