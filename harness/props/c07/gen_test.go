package c07

import (
	"math"
	"strings"

	"pgregory.net/rapid"
	"verif/val"
)

var valOpts = val.Options{MaxDepth: 2}

// colliderPool: values whose library hashes coincide although they differ (val.Colliders), plus
// look-alikes across types. Laws about membership, keys and distinctness must tell them apart.
var colliderPool = func() []val.V {
	var res []val.V
	for _, g := range val.Colliders() {
		res = append(res, g...)
	}
	return append(res, val.S("1"), val.I(1), val.F(1), val.F(0), val.F(math.Copysign(0, -1)), val.T(1), val.D(1), val.S(""), val.B(nil), val.N("/true"), val.S("/true"),
		val.P(val.I(0), val.I(0)), val.L(val.L()), val.M([2]val.V{val.I(0), val.I(0)}), val.St([2]val.V{val.N("/a"), val.I(0)}))
}()

// genElem draws a value: a third from the collider pool, otherwise any value up to depth 2.
func genElem(t *rapid.T) val.V {
	if rapid.IntRange(0, 2).Draw(t, "pool") == 0 {
		return rapid.SampledFrom(colliderPool).Draw(t, "collider")
	}
	return val.Gen(valOpts).Draw(t, "value")
}

// genElems draws n values; repeats of earlier values are likely.
func genElems(t *rapid.T, lo, hi int) []val.V {
	n := rapid.IntRange(lo, hi).Draw(t, "n")
	var es []val.V
	for i := 0; i < n; i++ {
		if len(es) > 0 && rapid.IntRange(0, 3).Draw(t, "repeat") == 0 {
			es = append(es, es[rapid.IntRange(0, len(es)-1).Draw(t, "which")])
			continue
		}
		es = append(es, genElem(t))
	}
	return es
}

func genStructs(t *rapid.T) Case {
	law := rapid.SampledFrom([]string{"s.pair", "s.tuple", "s.list", "s.cons", "s.append", "s.match_list", "s.member", "s.map", "s.struct"}).Draw(t, "law")
	c := Case{Law: law}
	switch law {
	case "s.pair":
		c.Args = []val.V{genElem(t), genElem(t)}
	case "s.tuple":
		c.Args = genElems(t, 1, 5)
	case "s.list":
		c.Args = genElems(t, 0, 5)
	case "s.cons":
		c.Args = []val.V{genElem(t), val.L(genElems(t, 0, 4)...)}
	case "s.append":
		c.Args = []val.V{val.L(genElems(t, 0, 4)...), genElem(t)}
	case "s.match_list":
		c.Args = []val.V{val.L(genElems(t, 0, 4)...)}
		if rapid.Bool().Draw(t, "nonList") {
			other := genElem(t)
			if rapid.IntRange(0, 2).Draw(t, "emptyShape") == 0 {
				other = rapid.SampledFrom([]val.V{val.M(), val.St(), val.I(0), val.S(""), val.N("/a"), val.B(nil), val.F(0)}).Draw(t, "emptyish")
			}
			if other.T != val.List {
				c.Args = append(c.Args, other)
			}
		}
	case "s.member":
		es := genElems(t, 0, 5)
		var probe val.V
		if len(es) > 0 && rapid.Bool().Draw(t, "present") {
			probe = es[rapid.IntRange(0, len(es)-1).Draw(t, "probe")]
		} else {
			probe = genElem(t)
		}
		if rapid.IntRange(0, 3).Draw(t, "nearMiss") == 0 {
			// a list element next to the same list with trailing elements whose hash is 0 (or without its last
			// element): only one of the two is in the list
			short := val.L(genElems(t, 0, 2)...)
			long := val.L(append(append([]val.V{}, short.E...), rapid.SampledFrom([][]val.V{{val.I(0)}, {val.L()}, {val.M()}, {val.I(0), val.I(0)}, {val.L(val.I(0))}}).Draw(t, "padding")...)...)
			if rapid.Bool().Draw(t, "probeLong") {
				short, long = long, short
			}
			es = append(es, short)
			probe = long
		}
		c.Args = []val.V{val.L(es...), probe}
	case "s.map", "s.struct":
		isStruct := law == "s.struct"
		// a quarter of the maps are keyed by numbers of both signs (a scan that orders keys must agree with itself)
		numericKeys := !isStruct && rapid.IntRange(0, 3).Draw(t, "numericKeys") == 0
		genKey := func() val.V {
			if numericKeys {
				return val.I(rapid.SampledFrom([]int64{-1, -2, -7, 0, 1, 2, 7, math.MinInt64, math.MaxInt64, -4294967296, 4294967296}).Draw(t, "numKey"))
			}
			if isStruct {
				if rapid.Bool().Draw(t, "stocklabel") {
					return val.N(rapid.SampledFrom([]string{"/a", "/b", "/foo", "/foo/bar", "/foobar"}).Draw(t, "label"))
				}
				return val.N(val.GenName(val.Options{}).Draw(t, "name"))
			}
			return genElem(t)
		}
		n := rapid.IntRange(0, 4).Draw(t, "entries")
		m := val.V{T: val.Map}
		if isStruct {
			m.T = val.Struct
		}
		seen := map[string]bool{}
		dups := rapid.IntRange(0, 1).Draw(t, "dups") == 0
		for i := 0; i < n; i++ {
			var k val.V
			if dups && len(m.KV) > 0 && rapid.IntRange(0, 1).Draw(t, "dup") == 0 {
				k = m.KV[rapid.IntRange(0, len(m.KV)-1).Draw(t, "dupof")][0]
			} else {
				k = genKey()
				if seen[k.Key()] && !dups {
					continue // keys stay distinct unless duplicates were asked for
				}
			}
			seen[k.Key()] = true
			m.KV = append(m.KV, [2]val.V{k, genElem(t)})
		}
		var probe val.V
		if len(m.KV) > 0 && rapid.Bool().Draw(t, "present") {
			probe = m.KV[rapid.IntRange(0, len(m.KV)-1).Draw(t, "probe")][0]
		} else {
			probe = genKey()
		}
		c.Args = []val.V{m, probe}
	}
	return c
}

// boundaryBases are the integers around which arithmetic and order go wrong: 0 and the units, the
// ends of int64, +-2^62 (half the range: sums and differences of two such values wrap), +-200 years
// in nanoseconds (two of them with opposite signs are further apart than MaxInt64), the powers of two
// where narrower representations end and floor(sqrt(2^63)), where squares start to overflow.
var boundaryBases = []int64{0, 1, -1, math.MinInt64, math.MaxInt64, 1 << 62, -(1 << 62), 6311520000000000000, -6311520000000000000,
	1 << 53, -(1 << 53), 1 << 32, -(1 << 32), 1 << 31, -(1 << 31), 3037000500, -3037000500}

// genPoolInt draws a boundary base shifted by -2..2 (never across the ends of int64).
func genPoolInt(t *rapid.T) int64 {
	var b int64
	if rapid.Bool().Draw(t, "ends") {
		// the bases whose pairwise differences overflow
		b = rapid.SampledFrom(boundaryBases[3:9]).Draw(t, "end")
	} else {
		b = rapid.SampledFrom(boundaryBases).Draw(t, "base")
	}
	off := rapid.Int64Range(-2, 2).Draw(t, "off")
	if (off > 0 && b > math.MaxInt64-off) || (off < 0 && b < math.MinInt64-off) {
		off = -off
	}
	return b + off
}

// genInt draws an int64: half from the boundary pool, half from the shared generator.
func genInt(t *rapid.T) int64 {
	if rapid.Bool().Draw(t, "pool") {
		return genPoolInt(t)
	}
	return val.GenInt().Draw(t, "x")
}

func genInts(t *rapid.T, lo, hi int) []val.V {
	n := rapid.IntRange(lo, hi).Draw(t, "n")
	res := make([]val.V, n)
	for i := range res {
		res[i] = val.I(genInt(t))
	}
	return res
}

// genDivisor is biased to 0, +-1 and small values.
func genDivisor(t *rapid.T) int64 {
	switch rapid.IntRange(0, 7).Draw(t, "dmode") {
	case 0:
		return 0
	case 1:
		return rapid.SampledFrom([]int64{1, -1, 2, -2, math.MinInt64, math.MaxInt64}).Draw(t, "d")
	case 2, 3:
		return rapid.Int64Range(-9, 9).Draw(t, "dsmall")
	default:
		return genInt(t)
	}
}

func genArith(t *rapid.T) Case {
	law := rapid.SampledFrom([]string{"a.plus", "a.minus", "a.mult", "a.div1", "a.divn", "a.divn", "a.divmod", "a.divmod"}).Draw(t, "law")
	c := Case{Law: law}
	switch law {
	case "a.plus", "a.minus", "a.mult":
		c.Args = genInts(t, 1, 4)
	case "a.div1":
		if rapid.Bool().Draw(t, "unit") {
			c.Args = []val.V{val.I(rapid.SampledFrom([]int64{0, 1, -1, 2, -2, math.MinInt64, math.MaxInt64}).Draw(t, "x"))}
		} else {
			c.Args = genInts(t, 1, 1)
		}
	case "a.divn":
		k := rapid.IntRange(1, 3).Draw(t, "k")
		var x int64
		if rapid.IntRange(0, 2).Draw(t, "xsmall") == 0 {
			x = rapid.Int64Range(-20, 20).Draw(t, "x") // quotients reach 0 early
		} else {
			x = genInt(t)
		}
		c.Args = []val.V{val.I(x)}
		for i := 0; i < k; i++ {
			c.Args = append(c.Args, val.I(genDivisor(t)))
		}
	case "a.divmod":
		if rapid.IntRange(0, 7).Draw(t, "corner") == 0 {
			// the corners of truncating division: extreme dividends over unit and extreme divisors
			ext := []int64{math.MinInt64, math.MinInt64 + 1, math.MaxInt64, math.MaxInt64 - 1, -1, 1, 0}
			c.Args = []val.V{val.I(rapid.SampledFrom(ext).Draw(t, "x")), val.I(rapid.SampledFrom(ext).Draw(t, "y"))}
		} else {
			c.Args = []val.V{val.I(genInt(t)), val.I(genDivisor(t))}
		}
	}
	return c
}

// genCompare draws a triple of one type. Half of the triples come entirely from the boundary pool
// (so pairs of opposite sign whose difference does not fit int64 are frequent), a quarter are built by
// relation (equal / neighbour / other) and a quarter are ordinary values of the type.
// Times stay strictly inside (MinInt64, MaxInt64): the two ends stand for "unbounded" elsewhere in the
// library (DESIGN section 4) and are not claimed to be ordinary instants.
func genCompare(t *rapid.T) Case {
	law := rapid.SampledFrom([]string{"c.num", "c.time", "c.dur"}).Draw(t, "law")
	c := Case{Law: law}
	clamp := func(x int64) int64 {
		if law == "c.time" {
			if x == math.MinInt64 {
				return x + 1
			}
			if x == math.MaxInt64 {
				return x - 1
			}
		}
		return x
	}
	ordinary := func(label string) int64 {
		switch law {
		case "c.num":
			return val.GenInt().Draw(t, label)
		case "c.time":
			return val.GenTimeNanos().Draw(t, label)
		}
		return val.GenDurNanos().Draw(t, label)
	}
	mk := func(x int64) val.V {
		switch law {
		case "c.num":
			return val.I(x)
		case "c.time":
			return val.T(x)
		}
		return val.D(x)
	}
	var xs []int64
	switch mode := rapid.IntRange(0, 3).Draw(t, "mode"); mode {
	case 0, 1:
		for i := 0; i < 3; i++ {
			xs = append(xs, clamp(genPoolInt(t)))
		}
	case 2:
		if rapid.Bool().Draw(t, "poolbase") {
			xs = []int64{clamp(genPoolInt(t))}
		} else {
			xs = []int64{ordinary("a")}
		}
		for i := 1; i < 3; i++ {
			base := xs[rapid.IntRange(0, len(xs)-1).Draw(t, "base")]
			switch rapid.IntRange(0, 3).Draw(t, "rel") {
			case 0:
				xs = append(xs, base) // equal
			case 1:
				d := rapid.SampledFrom([]int64{-1, 1}).Draw(t, "delta")
				if (d > 0 && base == math.MaxInt64) || (d < 0 && base == math.MinInt64) {
					d = -d
				}
				xs = append(xs, clamp(base+d)) // a neighbour
			case 2:
				if base != math.MinInt64 {
					xs = append(xs, clamp(-base)) // the mirror image: opposite sign, same magnitude
				} else {
					xs = append(xs, clamp(math.MaxInt64))
				}
			default:
				xs = append(xs, clamp(genPoolInt(t)))
			}
		}
	default:
		for i := 0; i < 3; i++ {
			xs = append(xs, ordinary("x"))
		}
	}
	for _, x := range xs {
		c.Args = append(c.Args, mk(x))
	}
	return c
}

var textPieces = []string{"a", "b", "ab", "ba", "aa", " ", "/", "é", "ß", "漢", "字", "😤", "é", "\n", "\"", "\\", "%", "A"}

func genText(t *rapid.T, lo, hi int) string {
	n := rapid.IntRange(lo, hi).Draw(t, "pieces")
	var sb strings.Builder
	for i := 0; i < n; i++ {
		sb.WriteString(rapid.SampledFrom(textPieces).Draw(t, "piece"))
	}
	return sb.String()
}

func genNameSym(t *rapid.T) string {
	if rapid.IntRange(0, 3).Draw(t, "stock") == 0 {
		return val.GenName(val.Options{}).Draw(t, "name")
	}
	n := rapid.IntRange(1, 4).Draw(t, "parts")
	var sb strings.Builder
	for i := 0; i < n; i++ {
		sb.WriteByte('/')
		sb.WriteString(val.GenNamePart(val.Options{}).Draw(t, "part"))
	}
	return sb.String()
}

func genStrings(t *rapid.T) Case {
	law := rapid.SampledFrom([]string{"t.concat", "t.replace", "t.replace", "t.starts_with", "t.ends_with", "t.contains",
		"t.name_root", "t.name_tip", "t.name_list", "t.name_to_string", "t.number_to_string"}).Draw(t, "law")
	c := Case{Law: law}
	switch law {
	case "t.concat":
		n := rapid.IntRange(1, 4).Draw(t, "n")
		for i := 0; i < n; i++ {
			switch rapid.IntRange(0, 3).Draw(t, "kind") {
			case 0:
				c.Args = append(c.Args, val.N(genNameSym(t)))
			case 1:
				c.Args = append(c.Args, val.I(genInt(t)))
			case 2:
				c.Args = append(c.Args, val.S(val.GenString().Draw(t, "str")))
			default:
				c.Args = append(c.Args, val.S(genText(t, 0, 3)))
			}
		}
	case "t.replace":
		s := genText(t, 0, 8)
		old := genText(t, 1, 2)
		if len(s) > 0 && rapid.Bool().Draw(t, "infix") {
			// an infix of s on rune boundaries, so that old occurs
			rs := []rune(s)
			i := rapid.IntRange(0, len(rs)-1).Draw(t, "from")
			j := rapid.IntRange(i+1, len(rs)).Draw(t, "to")
			old = string(rs[i:j])
		}
		c.Args = []val.V{val.S(s), val.S(old), val.S(genText(t, 0, 2)), val.I(int64(rapid.IntRange(0, 4).Draw(t, "count")))}
	case "t.starts_with", "t.ends_with", "t.contains":
		var s string
		if rapid.IntRange(0, 3).Draw(t, "anystr") == 0 {
			s = val.GenString().Draw(t, "str")
		} else {
			s = genText(t, 0, 6)
		}
		rs := []rune(s)
		var p string
		switch rapid.IntRange(0, 4).Draw(t, "pat") {
		case 0:
			p = string(rs[:rapid.IntRange(0, len(rs)).Draw(t, "prefix")])
		case 1:
			p = string(rs[rapid.IntRange(0, len(rs)).Draw(t, "suffix"):])
		case 2:
			i := rapid.IntRange(0, len(rs)).Draw(t, "from")
			p = string(rs[i:rapid.IntRange(i, len(rs)).Draw(t, "to")])
		case 3:
			p = s + genText(t, 0, 1)
		default:
			p = genText(t, 0, 2)
		}
		c.Args = []val.V{val.S(s), val.S(p)}
	case "t.name_root", "t.name_tip", "t.name_list", "t.name_to_string":
		c.Args = []val.V{val.N(genNameSym(t))}
	case "t.number_to_string":
		c.Args = genInts(t, 1, 1)
	}
	return c
}

func genPerms(t *rapid.T, n int) [][]int {
	id := make([]int, n)
	rev := make([]int, n)
	for i := range id {
		id[i] = i
		rev[i] = n - 1 - i
	}
	res := [][]int{rev}
	k := rapid.IntRange(1, 2).Draw(t, "nperms")
	for i := 0; i < k; i++ {
		res = append(res, rapid.Permutation(id).Draw(t, "perm"))
	}
	return res
}

func genReducers(t *rapid.T) Case {
	law := rapid.SampledFrom([]string{"r.count", "r.sum", "r.min", "r.max", "r.avg", "r.avg", "r.collect_distinct", "r.collect_distinct"}).Draw(t, "law")
	c := Case{Law: law}
	if law == "r.collect_distinct" {
		c.N = rapid.IntRange(1, 2).Draw(t, "width")
		n := rapid.IntRange(1, 6).Draw(t, "rows")
		for i := 0; i < n; i++ {
			if len(c.Args) > 0 && rapid.IntRange(0, 2).Draw(t, "repeat") == 0 {
				c.Args = append(c.Args, c.Args[rapid.IntRange(0, len(c.Args)-1).Draw(t, "which")])
				continue
			}
			row := val.V{T: val.List}
			for j := 0; j < c.N; j++ {
				row.E = append(row.E, genElem(t))
			}
			c.Args = append(c.Args, row)
		}
	} else {
		n := rapid.IntRange(1, 6).Draw(t, "rows")
		for i := 0; i < n; i++ {
			if len(c.Args) > 0 && rapid.IntRange(0, 4).Draw(t, "repeat") == 0 {
				c.Args = append(c.Args, c.Args[rapid.IntRange(0, len(c.Args)-1).Draw(t, "which")])
				continue
			}
			c.Args = append(c.Args, val.I(genInt(t)))
		}
	}
	c.Perms = genPerms(t, len(c.Args))
	return c
}
