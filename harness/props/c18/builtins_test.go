package c18

import (
	"fmt"
	"sort"
	"strings"

	"pgregory.net/rapid"
)

// ---------------------------------------------------------------------------------------------
// Built-in function and predicate families (builtin.Functions, builtin.Predicates,
// builtin.ReducerFunctions, functional.EvalApplyFn; fn:some and fn:count_distinct are declared but not usable from source), each as a one-rule snippet with type-correct
// arguments over typed base predicates. Placeholders: {S} = the suffix of the case (never used
// before in the process), {I} = number of the snippet in the program, {Z} = an IANA zone name.
//
// Left out on purpose: fn:time:now (wall clock), fn:collect / fn:collect_distinct /
// fn:collect_to_map / fn:pick_any as *results* (their value depends on the iteration order of the
// store, i.e. is not a function of the program text; fn:collect is used, but only through
// fn:list:len of what it collected).

type snippet struct {
	family string
	uses   []string // built-in symbols the rule mentions
	zone   bool     // mentions {Z}
	text   string
}

// noBounds: rules the bounds checker rejects although they evaluate fine (its typing of
// :within_distance, fn:string:replace and the :interval: predicates); jobs that contain one are analysed without bounds checking.
var noBounds = map[string]bool{":within_distance": true, "fn:string:replace": true, "family:interval": true}

const baseFacts = `Decl num_{S}(N) bound [/number].
Decl flt_{S}(F) bound [/float64].
Decl str_{S}(X) bound [/string].
Decl nam_{S}(X) bound [/name].
Decl tsrc_{S}(N) bound [/number].
Decl tim_{S}(T) bound [/time].
Decl dur_{S}(D) bound [/duration].
num_{S}({n1}). num_{S}({n2}). num_{S}(-4). num_{S}(12).
flt_{S}(1.5). flt_{S}(6.25). flt_{S}({n1}.75).
str_{S}("alpha {S}"). str_{S}("beta-{S}"). str_{S}("al{n2}").
nam_{S}(/r{S}/leaf). nam_{S}(/q{S}/mid/tip{n1}).
tsrc_{S}(1704103380000000000). tsrc_{S}(17189000{n1}{n2}123456789). tsrc_{S}(1711846800000000000).
tim_{S}(T) :- tsrc_{S}(N), T = fn:time:from_unix_nanos(N).
dur_{S}(D) :- num_{S}(N), N > 0, M = fn:mult(N, 61000000000), D = fn:duration:from_nanos(M).
lst_{S}([1, 2, {n1}]). lst_{S}([{n2}]). lst_{S}([]).
mp_{S}([/a: 1, /b: {n1}]). mp_{S}([/a: {n2}]).
stc_{S}({/id: {n1}, /tag: "t{S}"}). stc_{S}({/id: {n2}, /tag: "u{S}"}).
`

var snippets = []snippet{
	// arithmetic
	{"arith", []string{"fn:plus"}, false, "r{I}_{S}(X, Y) :- num_{S}(X), Y = fn:plus(X, 7)."},
	{"arith", []string{"fn:minus"}, false, "r{I}_{S}(X, Y) :- num_{S}(X), Y = fn:minus(X, 2)."},
	{"arith", []string{"fn:mult"}, false, "r{I}_{S}(X, Y) :- num_{S}(X), Y = fn:mult(X, X)."},
	{"arith", []string{"fn:div"}, false, "r{I}_{S}(X, Y) :- num_{S}(X), X > 0, Y = fn:div(100, X)."},
	{"arith", []string{"fn:float:plus"}, false, "r{I}_{S}(F, Y) :- flt_{S}(F), Y = fn:float:plus(F, 0.5)."},
	{"arith", []string{"fn:float:mult"}, false, "r{I}_{S}(F, Y) :- flt_{S}(F), Y = fn:float:mult(F, 2.0)."},
	{"arith", []string{"fn:float:div"}, false, "r{I}_{S}(F, Y) :- flt_{S}(F), Y = fn:float:div(F, 4.0)."},
	{"arith", []string{"fn:sqrt"}, false, "r{I}_{S}(F, Y) :- flt_{S}(F), Y = fn:sqrt(F)."},
	// comparison predicates
	{"compare", []string{":lt", ":ge"}, false, "r{I}_{S}(X) :- num_{S}(X), :lt(X, 9), :ge(X, 0)."},
	{"compare", []string{":le", ":gt"}, false, "r{I}_{S}(X) :- num_{S}(X), X <= 10, X > -5."},
	{"compare", []string{":within_distance"}, false, "r{I}_{S}(X) :- num_{S}(X), :within_distance(X, 5, 4)."},
	{"compare", []string{"!="}, false, "r{I}_{S}(X, Y) :- num_{S}(X), num_{S}(Y), X != Y, X < Y."},
	// strings and names
	{"string", []string{"fn:string:concat"}, false, "r{I}_{S}(X, Y) :- str_{S}(X), Y = fn:string:concat(X, \"/\", \"{S}\")."},
	{"string", []string{"fn:string:replace"}, false, "r{I}_{S}(X, Y) :- str_{S}(X), Y = fn:string:replace(X, \"a\", \"o{S}\", 1)."},
	{"string", []string{"fn:number:to_string"}, false, "r{I}_{S}(X, Y) :- num_{S}(X), Y = fn:number:to_string(X)."},
	{"string", []string{"fn:float64:to_string"}, false, "r{I}_{S}(X, Y) :- flt_{S}(X), Y = fn:float64:to_string(X)."},
	{"string", []string{"fn:name:to_string"}, false, "r{I}_{S}(X, Y) :- nam_{S}(X), Y = fn:name:to_string(X)."},
	{"string", []string{":string:starts_with"}, false, "r{I}_{S}(X) :- str_{S}(X), :string:starts_with(X, \"al\")."},
	{"string", []string{":string:ends_with"}, false, "r{I}_{S}(X) :- str_{S}(X), :string:ends_with(X, \"{S}\")."},
	{"string", []string{":string:contains"}, false, "r{I}_{S}(X) :- str_{S}(X), :string:contains(X, \"a-\")."},
	{"name", []string{"fn:name:root"}, false, "r{I}_{S}(X, Y) :- nam_{S}(X), Y = fn:name:root(X)."},
	{"name", []string{"fn:name:tip"}, false, "r{I}_{S}(X, Y) :- nam_{S}(X), Y = fn:name:tip(X)."},
	{"name", []string{"fn:name:list"}, false, "r{I}_{S}(X, Y) :- nam_{S}(X), Y = fn:name:list(X)."},
	{"name", []string{":match_prefix"}, false, "r{I}_{S}(X) :- nam_{S}(X), :match_prefix(X, /r{S})."},
	// lists, pairs, tuples, options
	{"list", []string{"fn:list:append"}, false, "r{I}_{S}(L, Y) :- lst_{S}(L), Y = fn:list:append(L, 9)."},
	{"list", []string{"fn:list:cons"}, false, "r{I}_{S}(L, Y) :- lst_{S}(L), Y = fn:list:cons(0, L)."},
	{"list", []string{"fn:list:get"}, false, "r{I}_{S}(L, Y) :- lst_{S}(L), :match_cons(L, _, _), Y = fn:list:get(L, 0)."},
	{"list", []string{"fn:list:contains", ":filter"}, false, "r{I}_{S}(L) :- lst_{S}(L), :filter(fn:list:contains(L, 2))."},
	{"list", []string{"fn:list:len"}, false, "r{I}_{S}(L, Y) :- lst_{S}(L), Y = fn:list:len(L)."},
	{"list", []string{"fn:list"}, false, "r{I}_{S}(X, Y) :- num_{S}(X), Y = fn:list(X, 1, X)."},
	{"list", []string{":list:member"}, false, "r{I}_{S}(E) :- lst_{S}(L), :list:member(E, L)."},
	{"list", []string{":match_cons"}, false, "r{I}_{S}(H, T) :- lst_{S}(L), :match_cons(L, H, T)."},
	{"list", []string{":match_nil"}, false, "r{I}_{S}(L) :- lst_{S}(L), :match_nil(L)."},
	{"pair", []string{"fn:pair", ":match_pair"}, false, "r{I}_{S}(A, B) :- num_{S}(X), P = fn:pair(X, \"k{S}\"), :match_pair(P, A, B)."},
	{"pair", []string{"fn:tuple"}, false, "r{I}_{S}(X, Y) :- num_{S}(X), Y = fn:tuple(X, 1, \"w\")."},
	// maps and structs
	{"map", []string{"fn:map:get"}, false, "r{I}_{S}(M, V) :- mp_{S}(M), V = fn:map:get(M, /a)."},
	{"map", []string{":match_entry"}, false, "r{I}_{S}(V) :- mp_{S}(M), :match_entry(M, /b, V)."},
	{"map", []string{"fn:map"}, false, "r{I}_{S}(X, M) :- num_{S}(X), M = fn:map(/k{S}, X)."},
	{"struct", []string{"fn:struct:get"}, false, "r{I}_{S}(V) :- stc_{S}(R), V = fn:struct:get(R, /id)."},
	{"struct", []string{":match_field"}, false, "r{I}_{S}(V) :- stc_{S}(R), :match_field(R, /tag, V)."},
	{"struct", []string{"fn:struct"}, false, "r{I}_{S}(X, R) :- num_{S}(X), R = fn:struct(/f{S}, X)."},
	// time
	{"time", []string{"fn:time:from_unix_nanos", "fn:time:to_unix_nanos"}, false, "r{I}_{S}(T, N) :- tim_{S}(T), N = fn:time:to_unix_nanos(T)."},
	{"time", []string{"fn:time:add"}, false, "r{I}_{S}(T, U) :- tim_{S}(T), dur_{S}(D), U = fn:time:add(T, D)."},
	{"time", []string{"fn:time:sub", ":time:lt"}, false, "r{I}_{S}(A, B, D) :- tim_{S}(A), tim_{S}(B), :time:lt(B, A), D = fn:time:sub(A, B)."},
	{"time", []string{"fn:time:format"}, false, "r{I}_{S}(T, Y) :- tim_{S}(T), Y = fn:time:format(T, /second)."},
	{"time", []string{"fn:time:parse_rfc3339"}, false, "r{I}_{S}(T) :- T = fn:time:parse_rfc3339(\"2024-03-{d}T10:20:30Z\")."},
	{"time", []string{"fn:time:year", "fn:time:month", "fn:time:day"}, false, "r{I}_{S}(T, Y, M, D) :- tim_{S}(T), Y = fn:time:year(T), M = fn:time:month(T), D = fn:time:day(T)."},
	{"time", []string{"fn:time:hour", "fn:time:minute", "fn:time:second"}, false, "r{I}_{S}(T, H, M, D) :- tim_{S}(T), H = fn:time:hour(T), M = fn:time:minute(T), D = fn:time:second(T)."},
	{"time", []string{"fn:time:trunc"}, false, "r{I}_{S}(T, U) :- tim_{S}(T), U = fn:time:trunc(T, /hour)."},
	{"time", []string{":time:le", ":time:gt", ":time:ge"}, false, "r{I}_{S}(A, B) :- tim_{S}(A), tim_{S}(B), :time:le(A, B), :time:ge(B, A), :time:gt(B, A)."},
	// civil time: these look a zone up by name
	{"time-civil", []string{"fn:time:format_civil"}, true, "r{I}_{S}(T, Y) :- tim_{S}(T), Y = fn:time:format_civil(T, \"{Z}\", /minute)."},
	{"time-civil", []string{"fn:time:parse_civil"}, true, "r{I}_{S}(T) :- T = fn:time:parse_civil(\"2024-0{m}-{d}T08:15:00\", \"{Z}\")."},
	{"time-civil", []string{"fn:time:trunc_civil"}, true, "r{I}_{S}(T, U) :- tim_{S}(T), U = fn:time:trunc_civil(T, \"{Z}\", /day)."},
	{"time-civil", []string{"fn:time:trunc_civil", "fn:time:format_civil"}, true, "r{I}_{S}(T, Y) :- tim_{S}(T), U = fn:time:trunc_civil(T, \"{Z}\", /week), Y = fn:time:format_civil(U, \"{Z}\", /second)."},
	// durations
	{"duration", []string{"fn:duration:add", "fn:duration:from_nanos"}, false, "r{I}_{S}(D, E) :- dur_{S}(D), E = fn:duration:add(D, D)."},
	{"duration", []string{"fn:duration:mult"}, false, "r{I}_{S}(D, E) :- dur_{S}(D), E = fn:duration:mult(D, 3)."},
	{"duration", []string{"fn:duration:hours", "fn:duration:minutes"}, false, "r{I}_{S}(D, H, M) :- dur_{S}(D), H = fn:duration:hours(D), M = fn:duration:minutes(D)."},
	{"duration", []string{"fn:duration:seconds", "fn:duration:nanos"}, false, "r{I}_{S}(D, X, N) :- dur_{S}(D), X = fn:duration:seconds(D), N = fn:duration:nanos(D)."},
	{"duration", []string{"fn:duration:from_hours", "fn:duration:from_minutes", "fn:duration:from_seconds"}, false, "r{I}_{S}(F, A, B, C) :- flt_{S}(F), A = fn:duration:from_hours(F), B = fn:duration:from_minutes(F), C = fn:duration:from_seconds(F)."},
	{"duration", []string{"fn:duration:parse", ":duration:le"}, false, "r{I}_{S}(D) :- dur_{S}(D), L = fn:duration:parse(\"{d}m\"), :duration:le(D, L)."},
	{"duration", []string{":duration:lt", ":duration:gt", ":duration:ge"}, false, "r{I}_{S}(A, B) :- dur_{S}(A), dur_{S}(B), :duration:lt(A, B), :duration:gt(B, A), :duration:ge(B, A)."},
	// intervals as pairs of times
	{"interval", []string{"fn:interval:start", "fn:interval:end", "fn:interval:duration"}, false, "r{I}_{S}(A, B, D) :- tim_{S}(X), tim_{S}(Y), :time:lt(X, Y), P = fn:pair(X, Y), A = fn:interval:start(P), B = fn:interval:end(P), D = fn:interval:duration(P)."},
	{"interval", []string{":interval:before", ":interval:overlaps"}, false, "r{I}_{S}(P, Q) :- iv_{S}(P), iv_{S}(Q), :interval:before(P, Q).\nq{I}_{S}(P, Q) :- iv_{S}(P), iv_{S}(Q), :interval:overlaps(P, Q).\niv_{S}(P) :- tsrc_{S}(X), tsrc_{S}(Y), X < Y, P = fn:pair(X, Y)."},
	{"interval", []string{":interval:during", ":interval:contains", ":interval:equals"}, false, "r{I}_{S}(P, Q) :- jv_{S}(P), jv_{S}(Q), :interval:during(P, Q).\nq{I}_{S}(P, Q) :- jv_{S}(P), jv_{S}(Q), :interval:contains(P, Q), !:interval:equals(P, Q).\njv_{S}(P) :- tsrc_{S}(X), tsrc_{S}(Y), X < Y, P = fn:pair(X, Y)."},
	{"interval", []string{":interval:meets", ":interval:starts", ":interval:finishes", ":interval:after"}, false, "r{I}_{S}(P, Q) :- kv_{S}(P), kv_{S}(Q), :interval:meets(P, Q).\nq{I}_{S}(P, Q) :- kv_{S}(P), kv_{S}(Q), :interval:starts(P, Q).\ns{I}_{S}(P, Q) :- kv_{S}(P), kv_{S}(Q), :interval:finishes(P, Q).\nt{I}_{S}(P, Q) :- kv_{S}(P), kv_{S}(Q), :interval:after(P, Q).\nkv_{S}(P) :- tsrc_{S}(X), tsrc_{S}(Y), X < Y, P = fn:pair(X, Y)."},
	// reducers
	{"reducer", []string{"fn:sum", "fn:group_by"}, false, "r{I}_{S}(S) :- num_{S}(X) |> do fn:group_by(), let S = fn:sum(X)."},
	{"reducer", []string{"fn:max", "fn:min"}, false, "r{I}_{S}(A, B) :- num_{S}(X) |> do fn:group_by(), let A = fn:max(X), let B = fn:min(X)."},
	{"reducer", []string{"fn:count", "fn:mod"}, false, "r{I}_{S}(K, A) :- num_{S}(X), str_{S}(Y), K = fn:mod(X, 3) |> do fn:group_by(K), let A = fn:count()."},
	{"reducer", []string{"fn:avg"}, false, "r{I}_{S}(A) :- num_{S}(X) |> do fn:group_by(), let A = fn:avg(X)."},
	{"reducer", []string{"fn:float:sum", "fn:float:max", "fn:float:min"}, false, "r{I}_{S}(A, B, C) :- flt_{S}(X) |> do fn:group_by(), let A = fn:float:sum(X), let B = fn:float:max(X), let C = fn:float:min(X)."},
	{"reducer", []string{"fn:duration:sum", "fn:duration:max", "fn:duration:min"}, false, "r{I}_{S}(A, B, C) :- dur_{S}(X) |> do fn:group_by(), let A = fn:duration:sum(X), let B = fn:duration:max(X), let C = fn:duration:min(X)."},
	{"reducer", []string{"fn:time:max", "fn:time:min"}, false, "r{I}_{S}(A, B) :- tim_{S}(X) |> do fn:group_by(), let A = fn:time:max(X), let B = fn:time:min(X)."},
	{"reducer", []string{"fn:collect", "fn:list:len"}, false, "hid{I}_{S}(L) :- num_{S}(X) |> do fn:group_by(), let L = fn:collect(X).\nr{I}_{S}(N) :- hid{I}_{S}(L), N = fn:list:len(L)."},
	{"reducer", []string{"fn:collect_distinct", "fn:list:len", "fn:mod"}, false, "hid{I}_{S}(K, L) :- num_{S}(X), K = fn:mod(X, 2) |> do fn:group_by(K), let L = fn:collect_distinct(X).\nr{I}_{S}(K, N) :- hid{I}_{S}(K, L), N = fn:list:len(L)."},
}

// hiddenPredPrefix marks helper predicates whose value depends on the iteration order of the store;
// their facts are left out of the canonical result.
const hiddenPredPrefix = "hid"

func fill(text string, repl map[string]string) string {
	for k, v := range repl {
		text = strings.ReplaceAll(text, "{"+k+"}", v)
	}
	return text
}

// shapeBuiltins builds a program over the typed base facts from 4-10 snippets. zones are the zone
// names the civil-time snippets of this job may use.
func shapeBuiltins(t *rapid.T, sfx string, zones []string) Prog {
	repl := map[string]string{
		"S":  sfx,
		"n1": fmt.Sprint(rapid.IntRange(1, 9).Draw(t, "n1")),
		"n2": fmt.Sprint(rapid.IntRange(1, 9).Draw(t, "n2")),
		"d":  fmt.Sprintf("%02d", rapid.IntRange(10, 28).Draw(t, "d")),
		"m":  fmt.Sprint(rapid.IntRange(1, 9).Draw(t, "m")),
	}
	var sb strings.Builder
	sb.WriteString(fill(baseFacts, repl))
	n := rapid.IntRange(4, 10).Draw(t, "snippets")
	uses := map[string]bool{}
	zi := 0
	addSnippet := func(i int, sn snippet) {
		repl["I"] = fmt.Sprint(i)
		if sn.zone {
			repl["Z"] = zones[zi%len(zones)]
			zi++
		}
		sb.WriteString(fill(sn.text, repl))
		sb.WriteString("\n")
		for _, u := range sn.uses {
			uses[u] = true
		}
		uses["family:"+sn.family] = true
	}
	for i := 0; i < n; i++ {
		addSnippet(i, snippets[rapid.IntRange(0, len(snippets)-1).Draw(t, "snippet")])
	}
	// every zone handed to the job is looked up at least once
	for i := n; zi < len(zones); i++ {
		var civil []snippet
		for _, sn := range snippets {
			if sn.zone {
				civil = append(civil, sn)
			}
		}
		addSnippet(i, civil[rapid.IntRange(0, len(civil)-1).Draw(t, "civil")])
	}
	p := Prog{Shape: "builtin-families", Text: sb.String(), Bounds: rapid.Bool().Draw(t, "bounds")}
	for u := range uses {
		if noBounds[u] {
			p.Bounds = false
		}
		p.Uses = append(p.Uses, u)
	}
	sort.Strings(p.Uses)
	return p
}
