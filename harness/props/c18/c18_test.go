// Package c18 checks property C18: the concurrent fact store is linearizable and parallel
// parse / analyse / evaluate runs on separate stores do not interfere.
//
// The test binary is built with -race. Three sources of a verdict:
//
//  1. porcupine: every recorded invocation/response history of ConcurrentFactStore operations must be
//     linearizable with respect to the set-of-atoms specification (TestC18Store). In a share of the
//     cases the store has been wrapped again with NewConcurrentFactStore and the goroutines reach it
//     through two or three handles; all handles are views of one store, so there is one history.
//     ListPredicates is part of the specification (what it lists, as a set) and every slice it
//     returned is compared, once the history is over, with the copy taken when it returned: the
//     result of a completed operation must not change afterwards;
//  2. differential: a program evaluated next to other programs gives the result it gives alone
//     (TestC18Programs, TestC18ColdParse); in half of the cases several jobs read their base facts from
//     simplecolumn files of their own through factstore.SimpleColumnStore (column_test.go), in half
//     of them several jobs build the intervals of a TemporalStore of their own with the date helpers
//     of package ast, with explicit zones or through the process-wide default timezone
//     (dates_test.go); the default timezone itself must be after a case what it was before;
//  3. the race detector: testing.T.Failed() consults the detector's report counter, so a report is
//     attributed to the case that was running.
//
// Schedules are sampled by the Go scheduler, not enumerated, and are not reproducible from the
// seed. Every case is therefore printed to the log before it runs ("C18 case ..."), and a failing
// case is saved together with the history that was recorded.
package c18

import (
	"encoding/json"
	"fmt"
	"math/bits"
	"os"
	"runtime"
	"sort"
	"strings"
	"sync"
	"sync/atomic"
	"testing"

	"codeberg.org/TauCeti/mangle-go/ast"
	"codeberg.org/TauCeti/mangle-go/factstore"
	"github.com/anishathalye/porcupine"
	"pgregory.net/rapid"
	"verif/stats"
	"verif/val"
)

// ---------------------------------------------------------------------------------------------
// Universe: eight plainly distinct atoms (no two of them share an Atom.Hash, see TestMain), so that
// the hash-keyed base stores (known finding K08) behave as sets on it. Three of them are facts of
// zero-arity predicates: removing such a fact is the one way in which a store may stop listing a
// predicate (the array store drops it, the map-of-maps stores keep the emptied key), which is what
// makes ListPredicates a result worth judging. Indices 0-5 are what they were when the universe had
// six atoms (replay files written then still mean the same).

type uAtom struct {
	pred string
	args []int64 // numbers; a negative value -k stands for the name constant /a<k>
}

var universeSpec = []uAtom{
	{"p", []int64{1, 1}},
	{"p", []int64{1, 2}},
	{"p", []int64{2, 1}},
	{"p", []int64{2, 2}},
	{"q", []int64{-1}},
	{"z", nil},
	{"y", nil},
	{"w", nil},
}

const universeSize = 8

// atomSet is a set of universe atoms, predSet a set of predicates of the universe (bit = index).
type (
	atomSet uint16
	predSet uint8
)

// patterns of the pattern query; nil argument = variable (all variables distinct).
type uPattern struct {
	pred string
	args []*int64
}

func num(i int64) *int64 { return &i }

var patternSpec = []uPattern{
	{"p", []*int64{nil, nil}},
	{"p", []*int64{num(1), nil}},
	{"p", []*int64{num(2), nil}},
	{"p", []*int64{nil, num(1)}},
	{"p", []*int64{nil, num(2)}},
	{"p", []*int64{num(2), num(2)}},
	{"q", []*int64{nil}},
	{"q", []*int64{num(-1)}},
	{"z", nil},
	{"y", nil}, // appended: pattern indices 0-8 are what they were before the universe was extended
	{"w", nil},
}

// weightedPatterns: every pattern once, those with a variable before a constant (answered from a secondary index
// where a store has one) three times.
var weightedPatterns = func() []int {
	var w []int
	for i, p := range patternSpec {
		w = append(w, i)
		if len(p.args) == 2 && p.args[0] == nil && p.args[1] != nil {
			w = append(w, i, i)
		}
	}
	return w
}()

func constOf(i int64) ast.Constant {
	if i < 0 {
		c, err := ast.Name(fmt.Sprintf("/a%d", -i))
		if err != nil {
			panic(err)
		}
		return c
	}
	return ast.Number(i)
}

var (
	universe    []ast.Atom     // built once, only read afterwards
	universeKey map[string]int // val.AtomKey -> index
	patterns    []ast.Atom
	patternMask []atomSet // own matcher: which universe atoms a pattern selects

	// predicates of the universe in order of first appearance (p/2 q/1 z/0 y/0 w/0)
	predSyms  []ast.PredicateSym
	predIndex map[ast.PredicateSym]int
	predOf    []int // universe index -> predicate index
)

// predsOf returns the predicates that have at least one fact in s.
func predsOf(s atomSet) predSet {
	var m predSet
	for i := 0; i < universeSize; i++ {
		if s&(1<<i) != 0 {
			m |= 1 << predOf[i]
		}
	}
	return m
}

func predNames(m predSet) string {
	var names []string
	for i, p := range predSyms {
		if m&(1<<i) != 0 {
			names = append(names, fmt.Sprintf("%s/%d", p.Symbol, p.Arity))
		}
	}
	return "[" + strings.Join(names, " ") + "]"
}

func init() {
	universeKey = map[string]int{}
	predIndex = map[ast.PredicateSym]int{}
	for i, u := range universeSpec {
		args := make([]ast.BaseTerm, len(u.args))
		for j, a := range u.args {
			args[j] = constOf(a)
		}
		at := ast.NewAtom(u.pred, args...)
		universe = append(universe, at)
		universeKey[val.AtomKey(at)] = i
		if _, ok := predIndex[at.Predicate]; !ok {
			predIndex[at.Predicate] = len(predSyms)
			predSyms = append(predSyms, at.Predicate)
		}
		predOf = append(predOf, predIndex[at.Predicate])
	}
	for _, p := range patternSpec {
		args := make([]ast.BaseTerm, len(p.args))
		for j, a := range p.args {
			if a == nil {
				args[j] = ast.Variable{Symbol: fmt.Sprintf("X%d", j)}
			} else {
				args[j] = constOf(*a)
			}
		}
		patterns = append(patterns, ast.NewAtom(p.pred, args...))
		var m atomSet
		for i, u := range universeSpec {
			if u.pred != p.pred || len(u.args) != len(p.args) {
				continue
			}
			ok := true
			for j, a := range p.args {
				if a != nil && *a != u.args[j] {
					ok = false
				}
			}
			if ok {
				m |= 1 << i
			}
		}
		patternMask = append(patternMask, m)
	}
}

// TestMain guards the input domain: the universe must be free of hash colliders (K08 is not
// what C18 judges). A violation of this guard is an infrastructure error, not a verdict.
func TestMain(m *testing.M) {
	seen := map[uint64]int{}
	for i, a := range universe {
		if j, dup := seen[a.Hash()]; dup {
			fmt.Printf("C18 harness error: universe atoms %d and %d share a hash\n", i, j)
			os.Exit(2)
		}
		seen[a.Hash()] = i
	}
	os.Exit(m.Run())
}

// ---------------------------------------------------------------------------------------------
// Case of part (a).

// Operation kinds.
const (
	opAdd      = "add"
	opRemove   = "remove"
	opContains = "contains"
	opQuery    = "query"
	opMerge    = "merge"
	opCount    = "count"
	// ListPredicates. The result is judged twice: as a response (the set of listed predicates, see step) and as
	// a value: the slice an operation returned must still hold what it held when the operation returned once
	// the whole history is over (see listing).
	opPreds = "preds"
)

// Op is one store operation of a goroutine.
type Op struct {
	K   string `json:"k"`
	A   int    `json:"a,omitempty"`   // universe index (add/remove/contains) or pattern index (query)
	Set []int  `json:"set,omitempty"` // merge: universe indices held by the (private, read-only) source store
	Y   int    `json:"y,omitempty"`   // runtime.Gosched() calls before the invocation
	// Slow (query): the callback yields the processor that many times per fact.
	// Slow (merge): the source store yields the processor that many times between two facts it hands out, like
	// a file-backed or remote source would; a Merge that is not atomic shows while its source is being scanned.
	Slow int `json:"slow,omitempty"`
	// H: the handle the operation goes through (index into the handles of the case; 0 = the first wrapper,
	// also what replay files written before handles existed mean).
	H int `json:"h,omitempty"`
}

// slowSource is a read-only store that yields the processor between the facts it streams.
type slowSource struct {
	factstore.ReadOnlyFactStore
	yields int
}

func (s slowSource) GetFacts(a ast.Atom, fn func(ast.Atom) error) error {
	return s.ReadOnlyFactStore.GetFacts(a, func(x ast.Atom) error {
		for i := 0; i < s.yields; i++ {
			runtime.Gosched()
		}
		err := fn(x)
		for i := 0; i < s.yields; i++ {
			runtime.Gosched()
		}
		return err
	})
}

// Event is one recorded invocation/response pair. Call and Ret are values of one atomic counter.
type Event struct {
	T    int    `json:"t"` // goroutine
	I    int    `json:"i"` // index in the goroutine's operation list
	Call int64  `json:"call"`
	Ret  int64  `json:"ret"`
	Out  int64  `json:"out"` // add/remove/contains: 0|1; query: bit mask over the universe; count: n; preds: bit mask over predSyms
	Bad  string `json:"bad,omitempty"`

	lst *listing // preds, concurrent executions only
}

// listing is what a ListPredicates call handed out: the slice itself and a copy of its elements taken
// by the calling goroutine as soon as the call had returned.
type listing struct {
	returned []ast.PredicateSym
	atReturn []ast.PredicateSym
}

func symsText(l []ast.PredicateSym) string {
	var sb strings.Builder
	sb.WriteString("[")
	for i, p := range l {
		if i > 0 {
			sb.WriteString(" ")
		}
		fmt.Fprintf(&sb, "%s/%d", p.Symbol, p.Arity)
	}
	return sb.String() + "]"
}

// changed reports whether the slice the operation returned no longer holds what it held at the return.
func (l *listing) changed() bool {
	for i := range l.returned {
		if l.returned[i] != l.atReturn[i] {
			return true
		}
	}
	return false
}

// StoreCase is a generated concurrent schedule; History is filled in when a run of it failed.
type StoreCase struct {
	Base    string `json:"base"`
	Init    []int  `json:"init"`
	Threads [][]Op `json:"threads"`
	Reps    int    `json:"reps"`
	// Wraps: further handles on the SAME store. Handle 0 is NewConcurrentFactStore(base store); handle k+1 is
	// NewConcurrentFactStore(handle Wraps[k]) with Wraps[k] <= k, i.e. a concurrent store that was wrapped again
	// (by a component that defensively wraps whatever store it is given) while the earlier handle stays in
	// use. All handles are views of one store: one history, one specification. Empty = one handle.
	Wraps []int `json:"wraps,omitempty"`
	// V: 2 = a recorded History holds what ListPredicates listed (Event.Out of a preds operation); files
	// written before that recorded 0 for it.
	V       int     `json:"v,omitempty"`
	History []Event `json:"history,omitempty"`
	Note    string  `json:"note,omitempty"`
}

var baseKinds = []string{"simple", "indexed", "multi", "multiarray", "teeing"}

func newBase(kind string) factstore.FactStoreWithRemove {
	switch kind {
	case "simple":
		return factstore.NewSimpleInMemoryStore()
	case "indexed":
		return factstore.NewIndexedInMemoryStore()
	case "multi":
		return factstore.NewMultiIndexedInMemoryStore()
	case "multiarray":
		return factstore.NewMultiIndexedArrayInMemoryStore()
	case "teeing":
		// empty read-only layer: all operations go to the write layer (domain rule: removal only
		// through the write layer of wrappers).
		return factstore.NewTeeingStore(factstore.NewSimpleInMemoryStore())
	}
	panic("unknown base kind " + kind)
}

func maskOf(idx []int) atomSet {
	var m atomSet
	for _, i := range idx {
		m |= 1 << i
	}
	return m
}

// ---------------------------------------------------------------------------------------------
// Sequential specification: a set of atoms, plus the predicates that have had a fact so far.
//
// ListPredicates: the base stores differ in what they list for a predicate whose last fact has been
// removed (Simple / Indexed / MultiIndexed keep the emptied key, MultiIndexedArray drops a zero-arity
// predicate and keeps the others), so the specification only demands what all of them agree on:
// every predicate that has a fact at the linearization point is listed, and nothing is listed that
// has never had a fact up to that point. (A listing with a predicate outside the universe or with the
// same predicate twice is outside the response alphabet, see apply.)

type opIn struct {
	k    string
	a    int
	mask atomSet
}

type specState struct {
	set  atomSet
	ever predSet // predicates that have had a fact at some point (initial facts included)
}

func inputOf(o Op) opIn { return opIn{k: o.K, a: o.A, mask: maskOf(o.Set)} }

func step(s specState, in opIn, out int64) (bool, specState) {
	switch in.k {
	case opAdd:
		bit := atomSet(1) << in.a
		return (out == 1) == (s.set&bit == 0), specState{s.set | bit, s.ever | 1<<predOf[in.a]}
	case opRemove:
		bit := atomSet(1) << in.a
		return (out == 1) == (s.set&bit != 0), specState{s.set &^ bit, s.ever}
	case opContains:
		bit := atomSet(1) << in.a
		return (out == 1) == (s.set&bit != 0), s
	case opQuery:
		return out == int64(s.set&patternMask[in.a]), s
	case opMerge:
		return true, specState{s.set | in.mask, s.ever | predsOf(in.mask)}
	case opCount:
		return out == int64(bits.OnesCount16(uint16(s.set))), s
	case opPreds:
		listed := predSet(out)
		return predsOf(s.set)&^listed == 0 && listed&^s.ever == 0, s
	}
	return false, s
}

func model(init atomSet) porcupine.Model {
	return porcupine.Model{
		Init: func() interface{} { return specState{init, predsOf(init)} },
		Step: func(state, input, output interface{}) (bool, interface{}) {
			ok, ns := step(state.(specState), input.(opIn), output.(int64))
			return ok, ns
		},
		Equal: func(a, b interface{}) bool { return a.(specState) == b.(specState) },
	}
}

func linearizable(c StoreCase, h []Event) bool {
	ops := make([]porcupine.Operation, 0, len(h))
	for _, e := range h {
		ops = append(ops, porcupine.Operation{ClientId: e.T, Input: inputOf(c.Threads[e.T][e.I]), Call: e.Call, Output: e.Out, Return: e.Ret})
	}
	return porcupine.CheckOperations(model(maskOf(c.Init)), ops)
}

// core drops read-only operations from a non-linearizable history as long as it stays
// non-linearizable (dropping a read-only operation never turns a linearizable history into a
// non-linearizable one, so what is left is still a genuine contradiction). For display only.
func core(c StoreCase, h []Event) []Event {
	cur := append([]Event{}, h...)
	for i := len(cur) - 1; i >= 0; i-- {
		if isMutator(c.Threads[cur[i].T][cur[i].I].K) {
			continue
		}
		cand := append(append([]Event{}, cur[:i]...), cur[i+1:]...)
		if !linearizable(c, cand) {
			cur = cand
		}
	}
	return cur
}

// ---------------------------------------------------------------------------------------------
// Execution.

// apply performs one operation; bad is non-empty if the response lies outside the response
// alphabet of the specification (an atom outside the universe, an error).
func apply(st factstore.ConcurrentFactStore, o Op, src factstore.ReadOnlyFactStore) (out int64, bad string, lst *listing) {
	defer func() {
		if p := recover(); p != nil {
			bad = fmt.Sprintf("panic: %v", p)
		}
	}()
	b := func(x bool) int64 {
		if x {
			return 1
		}
		return 0
	}
	switch o.K {
	case opAdd:
		return b(st.Add(universe[o.A])), "", nil
	case opRemove:
		return b(st.Remove(universe[o.A])), "", nil
	case opContains:
		return b(st.Contains(universe[o.A])), "", nil
	case opQuery:
		var m int64
		err := st.GetFacts(patterns[o.A], func(a ast.Atom) error {
			for y := 0; y < o.Slow; y++ {
				runtime.Gosched() // a callback that takes its time (query): the answer must still be one snapshot
			}
			i, ok := universeKey[val.AtomKey(a)]
			if !ok {
				bad = "query returned an atom outside the universe: " + val.AtomKey(a)
				return nil
			}
			m |= 1 << i
			return nil
		})
		if err != nil {
			bad = "query returned error: " + err.Error()
		}
		return m, bad, nil
	case opMerge:
		st.Merge(src)
		return 0, "", nil
	case opCount:
		return int64(st.EstimateFactCount()), "", nil
	case opPreds:
		// The result is copied at once, by the goroutine that asked for it: what the call returned. The
		// slice itself is kept until the history is over.
		l := &listing{returned: st.ListPredicates()}
		l.atReturn = append([]ast.PredicateSym{}, l.returned...)
		var m predSet
		for _, p := range l.atReturn {
			i, ok := predIndex[p]
			switch {
			case !ok:
				bad = fmt.Sprintf("ListPredicates lists %s/%d, which is not a predicate of any atom of the universe: %s", p.Symbol, p.Arity, symsText(l.atReturn))
			case m&(1<<i) != 0:
				bad = fmt.Sprintf("ListPredicates lists %s/%d twice: %s", p.Symbol, p.Arity, symsText(l.atReturn))
			default:
				m |= 1 << i
			}
		}
		return int64(m), bad, l
	}
	return 0, "unknown operation", nil
}

// handleOf returns the handle an operation goes through (a replay file edited by hand may name a handle
// that does not exist: it then means the first one).
func handleOf(hs []factstore.ConcurrentFactStore, o Op) factstore.ConcurrentFactStore {
	if o.H < 0 || o.H >= len(hs) {
		return hs[0]
	}
	return hs[o.H]
}

// prepare builds the store under test and returns all handles on it: handle 0 wraps the base store,
// every further handle wraps an earlier handle again (see StoreCase.Wraps).
func prepare(c StoreCase) ([]factstore.ConcurrentFactStore, [][]factstore.ReadOnlyFactStore) {
	hs := []factstore.ConcurrentFactStore{factstore.NewConcurrentFactStore(newBase(c.Base))}
	for k, w := range c.Wraps {
		if w < 0 || w > k {
			w = k
		}
		hs = append(hs, factstore.NewConcurrentFactStore(hs[w]))
	}
	st := hs[0]
	for _, i := range c.Init {
		st.Add(universe[i])
	}
	srcs := make([][]factstore.ReadOnlyFactStore, len(c.Threads))
	for ti, ops := range c.Threads {
		srcs[ti] = make([]factstore.ReadOnlyFactStore, len(ops))
		for oi, o := range ops {
			if o.K == opMerge {
				s := factstore.NewSimpleInMemoryStore()
				for _, i := range o.Set {
					s.Add(universe[i])
				}
				srcs[ti][oi] = s
				if o.Slow > 0 {
					srcs[ti][oi] = slowSource{ReadOnlyFactStore: s, yields: o.Slow}
				}
			}
		}
	}
	return hs, srcs
}

// execConcurrent runs the schedule once: one goroutine per thread, released together by a spin
// barrier; invocation and response are stamped with one atomic counter, so e.Ret < f.Call implies
// that e's response happened before f's invocation.
func execConcurrent(c StoreCase) []Event {
	hs, srcs := prepare(c)
	n := len(c.Threads)
	var clock atomic.Int64
	var arrived atomic.Int32
	per := make([][]Event, n)
	var wg sync.WaitGroup
	for ti := range c.Threads {
		wg.Add(1)
		go func(ti int) {
			defer wg.Done()
			ops := c.Threads[ti]
			evs := make([]Event, 0, len(ops))
			barrier(&arrived, n)
			for oi, o := range ops {
				for y := 0; y < o.Y; y++ {
					runtime.Gosched()
				}
				call := clock.Add(1)
				out, bad, lst := apply(handleOf(hs, o), o, srcs[ti][oi])
				ret := clock.Add(1)
				evs = append(evs, Event{T: ti, I: oi, Call: call, Ret: ret, Out: out, Bad: bad, lst: lst})
			}
			per[ti] = evs
		}(ti)
	}
	wg.Wait()
	var h []Event
	for _, evs := range per {
		h = append(h, evs...)
	}
	sort.Slice(h, func(i, j int) bool { return h[i].Call < h[j].Call })
	// The history is over (all goroutines have been waited for): every listing that an operation returned
	// must still be the value it was when the operation returned. A completed operation whose result
	// changes afterwards has no place in any sequential order of the operations; it means that the slice
	// is a window onto state that the store keeps modifying under its lock.
	for i := range h {
		if l := h[i].lst; l != nil && h[i].Bad == "" && l.changed() {
			h[i].Bad = fmt.Sprintf("the slice returned by ListPredicates changed after the operation had completed: it held %s when the call returned and holds %s now that the history is over (the result aliases state of the store that later writers modify under the lock)",
				symsText(l.atReturn), symsText(l.returned))
		}
	}
	return h
}

// barrier releases n goroutines together: each spins (without yielding, so that it keeps its
// processor) until all have arrived; after a bounded number of spins it yields instead, so that a
// machine with fewer free processors than goroutines still makes progress.
func barrier(arrived *atomic.Int32, n int) {
	arrived.Add(1)
	for spins := 0; arrived.Load() < int32(n); spins++ {
		if spins > 20000 {
			runtime.Gosched()
		}
	}
}

// execOrder runs the operations one at a time in one goroutine, in the given order of (goroutine,
// index) pairs (a legal schedule if it keeps each goroutine's own order). Only the responses are
// recorded (a listing as the copy taken at the return): whether a returned slice stays what it was is
// a question about what the concurrent store hands out from under its lock, asked of the concurrent
// executions.
func execOrder(c StoreCase, order [][2]int) []Event {
	hs, srcs := prepare(c)
	var clock int64
	var h []Event
	for _, ti := range order {
		o := c.Threads[ti[0]][ti[1]]
		clock++
		call := clock
		out, bad, _ := apply(handleOf(hs, o), o, srcs[ti[0]][ti[1]])
		clock++
		h = append(h, Event{T: ti[0], I: ti[1], Call: call, Ret: clock, Out: out, Bad: bad})
	}
	return h
}

// execSequential runs the goroutines' lists one after the other.
func execSequential(c StoreCase) []Event {
	var order [][2]int
	for ti, ops := range c.Threads {
		for oi := range ops {
			order = append(order, [2]int{ti, oi})
		}
	}
	return execOrder(c, order)
}

// sequentialDeviation looks for a purely sequential schedule of c (every order of the goroutines'
// whole lists, and round-robin interleavings from every starting goroutine) on which the base store
// itself leaves the set specification. Used only before a history is called non-linearizable: a
// sequential defect of a base store is C06's subject, not evidence about the locking.
func sequentialDeviation(c StoreCase) []Event {
	n := len(c.Threads)
	var orders [][][2]int
	perm := make([]int, n)
	for i := range perm {
		perm[i] = i
	}
	var rec func(k int)
	rec = func(k int) {
		if k == n {
			var order [][2]int
			for _, ti := range perm {
				for oi := range c.Threads[ti] {
					order = append(order, [2]int{ti, oi})
				}
			}
			orders = append(orders, order)
			return
		}
		for i := k; i < n; i++ {
			perm[k], perm[i] = perm[i], perm[k]
			rec(k + 1)
			perm[k], perm[i] = perm[i], perm[k]
		}
	}
	rec(0)
	for start := 0; start < n; start++ {
		var order [][2]int
		next := make([]int, n)
		for left := true; left; {
			left = false
			for d := 0; d < n; d++ {
				ti := (start + d) % n
				if next[ti] < len(c.Threads[ti]) {
					order = append(order, [2]int{ti, next[ti]})
					next[ti]++
					left = true
				}
			}
		}
		orders = append(orders, order)
	}
	for _, order := range orders {
		h := execOrder(c, order)
		for _, e := range h {
			if e.Bad != "" {
				return h
			}
		}
		if !linearizable(c, h) {
			return h
		}
	}
	return nil
}

func isMutator(k string) bool { return k == opAdd || k == opRemove || k == opMerge }

// overlaps classifies the real-time overlaps of a history between operations of different goroutines.
// cross: a mutator overlapped with an operation that went through a DIFFERENT handle on the store.
func overlaps(c StoreCase, h []Event) (ww, rw, cross bool) {
	for i := range h {
		for j := i + 1; j < len(h); j++ {
			a, b := h[i], h[j]
			if a.T == b.T || a.Ret < b.Call || b.Ret < a.Call {
				continue
			}
			oa, ob := c.Threads[a.T][a.I], c.Threads[b.T][b.I]
			ma, mb := isMutator(oa.K), isMutator(ob.K)
			if ma && mb {
				ww = true
			} else if ma || mb {
				rw = true
			}
			if (ma || mb) && oa.H != ob.H {
				cross = true
			}
		}
	}
	return
}

// listingOutlived: in this history the last fact of a zero-arity predicate was removed (successfully)
// after a ListPredicates call that listed the predicate had returned - the situation in which a store
// may shrink its list of predicates while somebody still holds an earlier listing.
func listingOutlived(c StoreCase, h []Event) bool {
	for _, e := range h {
		if c.Threads[e.T][e.I].K != opPreds {
			continue
		}
		for _, f := range h {
			o := c.Threads[f.T][f.I]
			if o.K == opRemove && f.Out == 1 && f.Call > e.Ret && len(universeSpec[o.A].args) == 0 && predSet(e.Out)&(1<<predOf[o.A]) != 0 {
				return true
			}
		}
	}
	return false
}

type verdict struct {
	nontrivial bool
	labels     []string
}

// failure remembers the last failing case together with its recorded history: rapid keeps
// re-running smaller cases while shrinking, and a schedule-dependent failure need not show again.
type failure struct {
	c   any
	msg string
}

var lastFailure atomic.Pointer[failure]

type nopFailer struct{}

func (nopFailer) Fatalf(string, ...any) {}
func (nopFailer) Logf(string, ...any)   {}

// restoreFailure runs (deferred, before run.Finish) in every test: if the test failed, the case
// written to the replay file is the last one that failed *with its recorded history*.
func restoreFailure(t *testing.T, run *stats.Run) {
	if f := lastFailure.Load(); f != nil && t.Failed() {
		run.Current(f.c)
		run.Failf(nopFailer{}, "%s", f.msg)
	}
}

func failCase(run *stats.Run, f stats.Failer, c any, format string, args ...any) {
	msg := fmt.Sprintf(format, args...)
	lastFailure.Store(&failure{c: c, msg: msg})
	run.Current(c)
	run.Failf(f, "%s", msg)
}

func describe(c StoreCase, h []Event) string {
	var sb strings.Builder
	for _, e := range h {
		o := c.Threads[e.T][e.I]
		arg := ""
		switch o.K {
		case opAdd, opRemove, opContains:
			arg = universe[o.A].String()
		case opQuery:
			arg = patterns[o.A].String()
		case opMerge:
			arg = fmt.Sprint(o.Set)
		}
		via := ""
		if len(c.Wraps) > 0 {
			via = fmt.Sprintf(" via handle %d", o.H)
		}
		res := fmt.Sprint(e.Out)
		if o.K == opPreds {
			res = predNames(predSet(e.Out))
		}
		fmt.Fprintf(&sb, "  [%3d,%3d] g%d %s(%s)%s -> %s %s\n", e.Call, e.Ret, e.T, o.K, arg, via, res, e.Bad)
	}
	return sb.String()
}

// checkStore judges the schedule c: reps executions, every recorded history must be linearizable.
// raced reports whether the race detector has reported anything since the case began (nil in replay
// mode, where the testing package attributes the report to TestReplay itself).
func checkStore(run *stats.Run, f stats.Failer, c StoreCase, reps int, raced func() bool) verdict {
	c.History, c.Note, c.V = nil, "", 2 // histories recorded from here on hold the listings
	v := verdict{labels: []string{"base:" + c.Base, fmt.Sprintf("goroutines:%d", len(c.Threads)), fmt.Sprintf("handles:%d", 1+len(c.Wraps))}}
	if len(c.Wraps) > 0 {
		shape := "chain" // every handle wraps the previous one
		for k, w := range c.Wraps {
			if w != k {
				shape = "star" // two handles wrap the same earlier handle
			}
		}
		if len(c.Wraps) == 1 {
			shape = "double"
		}
		v.labels = append(v.labels, "rewrapped:"+shape)
	}
	kinds := map[string]bool{}
	for _, ops := range c.Threads {
		for _, o := range ops {
			kinds[o.K] = true
		}
	}
	for k := range kinds {
		v.labels = append(v.labels, "op:"+k)
	}
	if kinds[opPreds] {
		v.labels = append(v.labels, "listing-judged")
	}
	sort.Strings(v.labels)

	// The specification must first agree with a sequential run of the same operations; if it does
	// not, the base store (or the model) is off sequentially, which other properties judge, not C18.
	seq := execSequential(c)
	for _, e := range seq {
		if e.Bad != "" {
			run.Inconclusive()
			v.labels = append(v.labels, "sequential-bad-response")
			f.Logf("C18: sequential execution gives a response outside the specification (%s); case skipped", e.Bad)
			return v
		}
	}
	if !linearizable(c, seq) {
		run.Inconclusive()
		v.labels = append(v.labels, "sequential-model-mismatch")
		f.Logf("C18: a sequential run does not follow the set specification; case skipped:\n%s", describe(c, seq))
		return v
	}

	if lastFailure.Load() != nil && raced != nil {
		// rapid is shrinking a schedule-dependent failure: give smaller schedules more chances to show it.
		reps *= 8
	}
	anyWW, anyRW, anyCross, anyOutlived := false, false, false, false
	// reps executions; while no mutator has overlapped with another goroutine's operation yet (a busy
	// machine), up to 2*reps further ones. More executions of the same schedule never weaken the verdict.
	for r := 0; r < reps || (!anyWW && !anyRW && r < 3*reps); r++ {
		h := execConcurrent(c)
		if raced != nil && raced() {
			fc := c
			fc.History, fc.Note = h, "data race reported while this history was recorded"
			failCase(run, f, fc, "data race reported by the race detector during a run of this schedule (base %s, %d goroutines, %d handle(s) on the store); report is in the log; recorded history:\n%s", c.Base, len(c.Threads), 1+len(c.Wraps), describe(c, h))
		}
		for _, e := range h {
			if e.Bad != "" {
				fc := c
				fc.History, fc.Note = h, e.Bad
				failCase(run, f, fc, "operation %d of goroutine %d: %s; history:\n%s", e.I, e.T, e.Bad, describe(c, h))
			}
		}
		if !linearizable(c, h) {
			if dev := sequentialDeviation(c); dev != nil {
				run.Inconclusive()
				v.labels = append(v.labels, "sequential-model-mismatch")
				f.Logf("C18: a purely sequential schedule of this case leaves the set specification (base store defect, not judged here):\n%s", describe(c, dev))
				return v
			}
			fc := c
			fc.History, fc.Note = h, "non-linearizable"
			failCase(run, f, fc, "history of ConcurrentFactStore over %q (%d handle(s) on the one store) is not linearizable w.r.t. the set specification (initial atoms %v, run %d of %d). Core (read-only operations that are not needed for the contradiction left out):\n%sfull history:\n%s",
				c.Base, 1+len(c.Wraps), c.Init, r+1, reps, describe(c, core(c, h)), describe(c, h))
		}
		ww, rw, cross := overlaps(c, h)
		anyWW = anyWW || ww
		anyRW = anyRW || rw
		anyCross = anyCross || cross
		anyOutlived = anyOutlived || listingOutlived(c, h)
	}
	if anyOutlived {
		v.labels = append(v.labels, "listing:predicate-dropped-afterwards")
	} else if kinds[opPreds] {
		v.labels = append(v.labels, "listing:no-predicate-dropped-afterwards")
	}
	if anyCross {
		v.labels = append(v.labels, "overlap:across-handles")
	} else if len(c.Wraps) > 0 {
		v.labels = append(v.labels, "overlap:never-across-handles")
	}
	if anyWW {
		v.labels = append(v.labels, "overlap:writer-writer")
	}
	if anyRW {
		v.labels = append(v.labels, "overlap:reader-writer")
	}
	if !anyWW && !anyRW {
		v.labels = append(v.labels, "overlap:none")
	}
	// non-trivial: a mutator really overlapped (in real time) with an operation of another goroutine.
	v.nontrivial = anyWW || anyRW
	return v
}

func (c StoreCase) hash() uint64 {
	c.History, c.Note = nil, ""
	b, _ := json.Marshal(c)
	return stats.Hash(string(b))
}

func genStoreCase(t *rapid.T) StoreCase {
	c := StoreCase{Base: rapid.SampledFrom(baseKinds).Draw(t, "base"), V: 2}
	initMask := rapid.IntRange(0, 1<<universeSize-1).Draw(t, "init")
	c.Init = []int{}
	for i := 0; i < universeSize; i++ {
		if initMask&(1<<i) != 0 {
			c.Init = append(c.Init, i)
		}
	}
	// the initial facts are added in a generated order in half of the cases (a store that keeps its
	// predicates in order of first insertion then has the zero-arity ones anywhere in that order)
	if len(c.Init) > 1 && rapid.Bool().Draw(t, "initShuffled") {
		c.Init = rapid.Permutation(c.Init).Draw(t, "initOrder")
	}
	n := rapid.IntRange(2, 4).Draw(t, "goroutines")
	// Handles: in 7 of 16 cases the concurrent store has been wrapped again once or twice and the
	// goroutines reach the one store through different handles.
	handles := 1
	switch w := rapid.IntRange(0, 15).Draw(t, "handles"); {
	case w >= 13:
		handles = 3
	case w >= 9:
		handles = 2
	}
	for k := 1; k < handles; k++ {
		c.Wraps = append(c.Wraps, rapid.IntRange(0, k-1).Draw(t, "wraps"))
	}
	// perOp: every operation draws its handle; otherwise a goroutine keeps to one handle (goroutine g starts
	// from handle g mod handles, so that at least two handles are in use) and strays from it now and then.
	perOp := handles > 1 && rapid.Bool().Draw(t, "handlePerOp")
	for g := 0; g < n; g++ {
		home := g % handles
		k := rapid.IntRange(3, 8).Draw(t, "nops")
		ops := make([]Op, k)
		for i := range ops {
			var o Op
			switch w := rapid.IntRange(0, 18).Draw(t, "kind"); {
			case w <= 4:
				o = Op{K: opAdd, A: rapid.IntRange(0, universeSize-1).Draw(t, "atom")}
			case w <= 8:
				o = Op{K: opRemove, A: rapid.IntRange(0, universeSize-1).Draw(t, "atom")}
			case w <= 10:
				o = Op{K: opContains, A: rapid.IntRange(0, universeSize-1).Draw(t, "atom")}
			case w <= 13:
				o = Op{K: opQuery, A: rapid.SampledFrom(weightedPatterns).Draw(t, "pattern")}
				if rapid.Bool().Draw(t, "slowCallback") {
					o.Slow = rapid.IntRange(1, 3).Draw(t, "callbackYields")
				}
			case w == 14 || w == 15:
				m := rapid.IntRange(1, 1<<universeSize-1).Draw(t, "mergeset")
				o = Op{K: opMerge}
				if rapid.Bool().Draw(t, "slowSource") {
					o.Slow = rapid.IntRange(1, 4).Draw(t, "slowYields")
				}
				for i := 0; i < universeSize; i++ {
					if m&(1<<i) != 0 {
						o.Set = append(o.Set, i)
					}
				}
			case w == 16:
				o = Op{K: opCount}
			default:
				o = Op{K: opPreds}
			}
			if rapid.IntRange(0, 3).Draw(t, "yield?") == 0 {
				o.Y = rapid.IntRange(1, 3).Draw(t, "yields")
			}
			if handles > 1 {
				o.H = home
				if perOp || rapid.IntRange(0, 5).Draw(t, "stray") == 0 {
					o.H = rapid.IntRange(0, handles-1).Draw(t, "handle")
				}
			}
			ops[i] = o
		}
		c.Threads = append(c.Threads, ops)
	}
	c.Reps = rapid.IntRange(3, 6).Draw(t, "reps")
	return c
}

var caseNo atomic.Int64

// announce makes the case known before it runs, because a crash of the process (for instance the
// runtime's own "fatal error: concurrent map writes", which cannot be recovered) or a deadlock cut
// short by the test timeout leaves no other trace of the schedule, and the seed does not reproduce
// it: the case is printed to the log (quick tier; the thorough tier would write ~10 MB per process)
// and written, in replay format, to $VERIF_OUT/C18-inflight-<test>-<pid>.json, which is removed
// when the test function returns normally.
func announce(test string, c any) {
	n := caseNo.Add(1)
	if os.Getenv("VERIF_TIER") != "thorough" {
		b, _ := json.Marshal(c)
		fmt.Printf("C18 case %s #%d: %s\n", test, n, b)
	}
	if path := inflightPath(test); path != "" {
		b, _ := json.Marshal(map[string]any{"property": "C18", "test": test, "case": c,
			"message": "the test process ended abnormally while this case was running (see the log of the run)"})
		os.WriteFile(path, b, 0o644)
	}
}

func logCase(test string, c any) {
	b, _ := json.Marshal(c)
	fmt.Printf("C18 case %s: %s\n", test, b)
}

func inflightPath(test string) string {
	dir := os.Getenv("VERIF_OUT")
	if dir == "" {
		return ""
	}
	os.MkdirAll(dir, 0o755)
	return fmt.Sprintf("%s/C18-inflight-%s-%d.json", dir, test, os.Getpid())
}

func clearInflight(test string) {
	if path := inflightPath(test); path != "" {
		os.Remove(path)
	}
}

func TestC18Store(t *testing.T) {
	run := stats.Begin("C18", "TestC18Store")
	lastFailure.Store(nil)
	defer run.Finish(t)
	defer clearInflight("TestC18Store")
	defer restoreFailure(t, run)
	rapid.Check(t, func(rt *rapid.T) {
		c := genStoreCase(rt)
		run.Current(c)
		announce("TestC18Store", c)
		if t.Failed() {
			// a race was reported outside a case (or rapid is re-running cases after one): the
			// detector's verdict stands, do not attribute it to later cases.
			t.FailNow()
		}
		v := checkStore(run, rt, c, c.Reps, func() bool { return t.Failed() })
		run.Case(v.nontrivial, c.hash(), v.labels...)
		if v.nontrivial {
			run.Sample("store-history", c)
		}
	})
}

func TestReplay(t *testing.T) {
	switch stats.ReplayTest() {
	case "TestC18Programs", "TestC18ColdParse":
		var c ProgCase
		if !stats.LoadReplay(t, &c) {
			return
		}
		run := stats.Begin("C18", "TestReplay")
		logCase("TestReplay", c)
		for i := 0; i < replayProgramRuns; i++ {
			checkPrograms(run, t, c, nil)
		}
	default:
		var c StoreCase
		if !stats.LoadReplay(t, &c) {
			return
		}
		run := stats.Begin("C18", "TestReplay")
		logCase("TestReplay", c)
		// 1. the recorded history (evidence about the tree it was recorded on) is re-checked;
		if len(c.History) > 0 {
			rec := c
			if c.V < 2 {
				// recorded before listings were part of the response: leave those (read-only) operations out
				var kept []Event
				for _, e := range c.History {
					if e.T < len(c.Threads) && e.I < len(c.Threads[e.T]) && c.Threads[e.T][e.I].K != opPreds {
						kept = append(kept, e)
					}
				}
				c.History = kept
			}
			if linearizable(rec, c.History) {
				t.Logf("C18 replay: the recorded history is linearizable (%s)", c.Note)
			} else {
				t.Logf("C18 replay: the recorded history is NOT linearizable w.r.t. the set specification (re-checked with porcupine); core:\n%sfull recorded history:\n%s",
					describe(c, core(c, c.History)), describe(c, c.History))
			}
		}
		// 2. the schedule is re-executed many times on the tree under test; this (and the race
		//    detector) gives the verdict of the replay.
		checkStore(run, t, c, replayStoreRuns, nil)
	}
}

const (
	replayStoreRuns   = 400
	replayProgramRuns = 10
)
