package c18

import (
	"encoding/json"
	"fmt"
	"sort"
	"strings"
	"sync"
	"sync/atomic"
	"testing"
	"time"

	"codeberg.org/TauCeti/mangle-go/analysis"
	"codeberg.org/TauCeti/mangle-go/ast"
	"codeberg.org/TauCeti/mangle-go/engine"
	"codeberg.org/TauCeti/mangle-go/factstore"
	"codeberg.org/TauCeti/mangle-go/parse"
	"pgregory.net/rapid"
	"verif/stats"
	"verif/val"
)

// ---------------------------------------------------------------------------------------------
// Part (b): parse -> analyse -> evaluate, each goroutine its own program and its own store.

// TZFact makes the job use the helpers that read the process-wide default timezone
// (ast.DateInterval -> ast.Date -> GetDefaultTimezone) and write it with its default value
// (ast.SetTimezone("UTC"): an idempotent write, so no job changes what another one observes).
type TZFact struct {
	D1 int `json:"d1"` // day of January 2024
	D2 int `json:"d2"`
}

// Prog is the job of one goroutine.
type Prog struct {
	Shape    string  `json:"shape"`
	Text     string  `json:"text"`
	Temporal bool    `json:"temporal,omitempty"` // evaluate over a TemporalStore behind the adapter
	Store    string  `json:"store,omitempty"`    // store kind of a non-temporal job
	TZ       *TZFact `json:"tz,omitempty"`
	Iter     int     `json:"iter"` // the goroutine repeats its job this many times
	// Pieces: besides the whole unit, every line of the text that is a clause is also parsed on its
	// own with parse.Clause and its head with parse.Atom / parse.Term (more traffic through the
	// pooled lexers and parsers); the printed forms become part of the result.
	Pieces bool `json:"pieces,omitempty"`
}

// ProgCase is a set of jobs run side by side. Observed is filled in when a run of it failed.
type ProgCase struct {
	Progs    []Prog   `json:"progs"`
	EvalDay  int      `json:"eval_day"` // evaluation time = 2024-02-<EvalDay> 12:00 UTC
	Observed []string `json:"observed,omitempty"`
	Note     string   `json:"note,omitempty"`
}

var progStoreKinds = []string{"simple", "indexed", "multi", "multiarray", "concurrent"}

func newProgStore(kind string) factstore.FactStore {
	if kind == "concurrent" {
		return factstore.NewConcurrentFactStore(factstore.NewSimpleInMemoryStore())
	}
	return newBase(kind)
}

func intervalKey(iv ast.Interval) string {
	return fmt.Sprintf("@[%d:%d,%d:%d]", iv.Start.Type, iv.Start.Timestamp, iv.End.Type, iv.End.Timestamp)
}

// runJob performs parse -> analyse -> evaluate once and returns the canonical result: the sorted
// keys of all facts of the job's store, or a single line describing where it stopped.
func runJob(p Prog, evalTime time.Time) (res []string) {
	defer func() {
		if r := recover(); r != nil {
			res = []string{fmt.Sprintf("PANIC %v", r)}
		}
	}()
	var extra *ast.Interval
	if p.TZ != nil {
		if err := ast.SetTimezone("UTC"); err != nil {
			return []string{"ERR timezone: " + err.Error()}
		}
		iv := ast.DateInterval(2024, time.January, p.TZ.D1, 2024, time.January, p.TZ.D2)
		extra = &iv
		if loc := ast.GetDefaultTimezone(); loc != time.UTC {
			return []string{"ERR default timezone is " + loc.String()}
		}
	}
	var pieces []string
	if p.Pieces {
		for _, line := range strings.Split(p.Text, "\n") {
			if line == "" || strings.HasPrefix(line, "Decl ") {
				continue
			}
			cl, err := parse.Clause(line)
			if err != nil {
				pieces = append(pieces, "piece error: "+err.Error())
				continue
			}
			pieces = append(pieces, "piece clause: "+cl.String())
			if a, err := parse.Atom(cl.Head.String()); err == nil {
				pieces = append(pieces, "piece atom: "+a.String())
			} else {
				pieces = append(pieces, "piece atom error: "+err.Error())
			}
			if tm, err := parse.Term(cl.Head.String()); err == nil {
				pieces = append(pieces, "piece term: "+tm.String())
			} else {
				pieces = append(pieces, "piece term error: "+err.Error())
			}
		}
		defer func() {
			if len(res) == 1 && (strings.HasPrefix(res[0], "ERR") || strings.HasPrefix(res[0], "PANIC")) {
				res = append(res, "(pieces) "+strings.Join(pieces, " | "))
				return
			}
			res = append(res, pieces...)
			sort.Strings(res)
		}()
	}
	unit, err := parse.Unit(strings.NewReader(p.Text))
	if err != nil {
		return []string{"ERR parse: " + err.Error()}
	}
	info, err := analysis.AnalyzeOneUnit(unit, nil)
	if err != nil {
		return []string{"ERR analysis: " + err.Error()}
	}
	if p.Temporal {
		ts := factstore.NewTemporalStore()
		if extra != nil {
			name, _ := ast.Name("/k")
			if _, err := ts.Add(ast.NewAtom("tz", name), *extra); err != nil {
				return []string{"ERR add: " + err.Error()}
			}
		}
		err = engine.EvalProgram(info, factstore.NewTemporalFactStoreAdapter(ts),
			engine.WithTemporalStore(ts), engine.WithEvaluationTime(evalTime), engine.WithCreatedFactLimit(5000))
		if err != nil {
			return []string{"ERR eval: " + err.Error()}
		}
		ts.GetAllFacts(ast.Atom{}, func(tf factstore.TemporalFact) error {
			res = append(res, val.AtomKey(tf.Atom)+intervalKey(tf.Interval))
			return nil
		})
	} else {
		st := newProgStore(p.Store)
		err = engine.EvalProgram(info, st, engine.WithEvaluationTime(evalTime), engine.WithCreatedFactLimit(5000))
		if err != nil {
			return []string{"ERR eval: " + err.Error()}
		}
		for _, pred := range st.ListPredicates() {
			st.GetFacts(ast.NewQuery(pred), func(a ast.Atom) error {
				res = append(res, val.AtomKey(a))
				return nil
			})
		}
	}
	sort.Strings(res)
	if res == nil {
		res = []string{}
	}
	return res
}

func sameResult(a, b []string) bool {
	if len(a) != len(b) {
		return false
	}
	for i := range a {
		if a[i] != b[i] {
			return false
		}
	}
	return true
}

func outcome(res []string) string {
	if len(res) >= 1 && len(res) <= 2 {
		for _, p := range []string{"ERR parse", "ERR analysis", "ERR eval", "ERR", "PANIC"} {
			if strings.HasPrefix(res[0], p) {
				return strings.ToLower(strings.ReplaceAll(p, " ", "-"))
			}
		}
	}
	if len(res) == 0 {
		return "empty"
	}
	return "ok"
}

func (c ProgCase) evalTime() time.Time {
	return time.Date(2024, time.February, c.EvalDay, 12, 0, 0, 0, time.UTC)
}

// aloneRuns is how often a job is run alone beforehand; the results must agree with each other,
// otherwise the job is not a function of its text (sequential nondeterminism: not C18's subject).
const aloneRuns = 2

// checkPrograms judges c. parallelFirst runs the side-by-side phase before the alone phase (used
// by the cold-start test, where the interesting state is the not yet filled caches of the parser).
func checkPrograms(run *stats.Run, f stats.Failer, c ProgCase, raced func() bool) verdict {
	return checkProgramsOrder(run, f, c, raced, false)
}

type jobResult struct {
	results    [][]string
	start, end int64
}

func runParallel(c ProgCase) []jobResult {
	n := len(c.Progs)
	out := make([]jobResult, n)
	et := c.evalTime()
	var clock atomic.Int64
	var arrived atomic.Int32
	var wg sync.WaitGroup
	for i := range c.Progs {
		wg.Add(1)
		go func(i int) {
			defer wg.Done()
			p := c.Progs[i]
			barrier(&arrived, n)
			jr := jobResult{start: clock.Add(1)}
			for k := 0; k < p.Iter; k++ {
				jr.results = append(jr.results, runJob(p, et))
			}
			jr.end = clock.Add(1)
			out[i] = jr
		}(i)
	}
	wg.Wait()
	return out
}

func checkProgramsOrder(run *stats.Run, f stats.Failer, c ProgCase, raced func() bool, parallelFirst bool) verdict {
	c.Observed, c.Note = nil, ""
	v := verdict{labels: []string{fmt.Sprintf("jobs:%d", len(c.Progs))}}
	et := c.evalTime()
	var par []jobResult
	sideBySide := func() {
		par = runParallel(c)
		if raced != nil && raced() {
			fc := c
			fc.Note = "data race reported while these programs ran side by side"
			failCase(run, f, fc, "data race reported by the race detector while %d programs were parsed/analysed/evaluated side by side; report is in the log; programs:\n%s", len(c.Progs), describePrograms(c))
		}
	}
	if parallelFirst {
		sideBySide()
	}
	alone := make([][]string, len(c.Progs))
	deterministic := make([]bool, len(c.Progs))
	texts := map[string]bool{}
	okJobs := 0
	for i, p := range c.Progs {
		alone[i] = runJob(p, et)
		deterministic[i] = true
		for k := 1; k < aloneRuns; k++ {
			if !sameResult(alone[i], runJob(p, et)) {
				deterministic[i] = false
			}
		}
		texts[p.Text] = true
		o := outcome(alone[i])
		v.labels = append(v.labels, "shape:"+p.Shape, "alone:"+o)
		if o == "ok" {
			okJobs++
		}
		if p.TZ != nil {
			v.labels = append(v.labels, "timezone-helpers")
		}
		if p.Pieces {
			v.labels = append(v.labels, "single-clause-parsers")
		}
		if !deterministic[i] {
			v.labels = append(v.labels, "alone-nondeterministic")
		}
	}
	if raced != nil && raced() {
		failCase(run, f, c, "data race reported by the race detector while the programs were run one after the other (see log)")
	}
	if !parallelFirst {
		sideBySide()
	}
	overlap := false
	for i := range par {
		for j := i + 1; j < len(par); j++ {
			if par[i].start < par[j].end && par[j].start < par[i].end {
				overlap = true
			}
		}
	}
	for i, jr := range par {
		for k, got := range jr.results {
			if sameResult(got, alone[i]) {
				continue
			}
			if !deterministic[i] {
				run.Inconclusive()
				continue
			}
			// Before this is called interference, give the job more chances to produce the same
			// result alone (a rare sequential nondeterminism would not be C18's subject).
			seqToo := false
			for r := 0; r < 20 && !seqToo; r++ {
				seqToo = sameResult(got, runJob(c.Progs[i], et))
			}
			if seqToo {
				run.Inconclusive()
				v.labels = append(v.labels, "alone-nondeterministic")
				f.Logf("C18: job %d gives varying results when run alone; not judged", i)
				continue
			}
			fc := c
			fc.Observed = got
			fc.Note = fmt.Sprintf("job %d, iteration %d, differs from its result alone", i, k)
			failCase(run, f, fc, "program %d (%s) gives a different result next to %d other programs than alone.\nalone:    %s\nparallel: %s\nprogram:\n%s",
				i, c.Progs[i].Shape, len(c.Progs)-1, clip(alone[i]), clip(got), c.Progs[i].Text)
		}
	}
	if overlap {
		v.labels = append(v.labels, "jobs-overlapped")
	} else {
		v.labels = append(v.labels, "jobs-not-overlapped")
	}
	// non-trivial: at least two different programs really ran at the same time and at least two
	// of the jobs evaluate to a result (not an error) alone.
	v.nontrivial = overlap && len(texts) >= 2 && okJobs >= 2
	return v
}

func clip(res []string) string {
	s := strings.Join(res, " ")
	if len(s) > 1500 {
		s = s[:1500] + " …"
	}
	return fmt.Sprintf("%d facts: %s", len(res), s)
}

func describePrograms(c ProgCase) string {
	var sb strings.Builder
	for i, p := range c.Progs {
		fmt.Fprintf(&sb, "--- job %d (%s, temporal=%v, store=%s, tz=%v, x%d)\n%s\n", i, p.Shape, p.Temporal, p.Store, p.TZ != nil, p.Iter, p.Text)
	}
	return sb.String()
}

func (c ProgCase) hash() uint64 {
	c.Observed, c.Note = nil, ""
	b, _ := json.Marshal(c)
	return stats.Hash(string(b))
}

// ---------------------------------------------------------------------------------------------
// Program shapes (text). Simple, deterministic Datalog: every constant is a small number, a short
// name or a short string; no duplicate map keys, no fn:time:now, no wall clock.

func node(i int) string { return fmt.Sprintf("/n%d", i) }

func genEdges(t *rapid.T, pred string, nodes int) string {
	var sb strings.Builder
	n := rapid.IntRange(2, 8).Draw(t, "edges")
	for i := 0; i < n; i++ {
		a := rapid.IntRange(0, nodes-1).Draw(t, "from")
		b := rapid.IntRange(0, nodes-1).Draw(t, "to")
		fmt.Fprintf(&sb, "%s(%s, %s).\n", pred, node(a), node(b))
	}
	return sb.String()
}

func shapeTC(t *rapid.T) Prog {
	sfx := rapid.SampledFrom([]string{"", "_a", "_b"}).Draw(t, "suffix")
	text := genEdges(t, "e"+sfx, 5) +
		fmt.Sprintf("path%[1]s(X, Y) :- e%[1]s(X, Y).\npath%[1]s(X, Z) :- path%[1]s(X, Y), e%[1]s(Y, Z).\n", sfx)
	return Prog{Shape: "transitive-closure", Text: text}
}

func shapeNeg(t *rapid.T) Prog {
	var sb strings.Builder
	for i := 0; i < 5; i++ {
		fmt.Fprintf(&sb, "node(%s).\n", node(i))
	}
	sb.WriteString(genEdges(t, "e", 5))
	fmt.Fprintf(&sb, "start(%s).\n", node(rapid.IntRange(0, 4).Draw(t, "start")))
	sb.WriteString("reach(X) :- start(X).\nreach(Y) :- reach(X), e(X, Y).\nunreach(X) :- node(X), !reach(X).\n")
	return Prog{Shape: "negation", Text: sb.String()}
}

func shapeAgg(t *rapid.T) Prog {
	var sb strings.Builder
	n := rapid.IntRange(2, 8).Draw(t, "rows")
	for i := 0; i < n; i++ {
		fmt.Fprintf(&sb, "w(/k%d, %d, %d).\n", rapid.IntRange(0, 2).Draw(t, "key"), i, rapid.IntRange(-5, 20).Draw(t, "weight"))
	}
	sb.WriteString("total(K, S) :- w(K, _, V) |> do fn:group_by(K), let S = fn:sum(V).\n")
	sb.WriteString("rows(N) :- w(_, I, _) |> do fn:group_by(), let N = fn:count().\n")
	sb.WriteString("top(K, M) :- w(K, _, V) |> do fn:group_by(K), let M = fn:max(V).\n")
	sb.WriteString("heavy(K) :- total(K, S), S > 10.\n")
	return Prog{Shape: "aggregation", Text: sb.String()}
}

func shapeArith(t *rapid.T) Prog {
	var sb strings.Builder
	n := rapid.IntRange(2, 6).Draw(t, "numbers")
	for i := 0; i < n; i++ {
		fmt.Fprintf(&sb, "n(%d).\n", rapid.IntRange(0, 9).Draw(t, "n"))
	}
	k := rapid.IntRange(1, 5).Draw(t, "k")
	fmt.Fprintf(&sb, "sq(X, Y) :- n(X), Y = fn:mult(X, X).\n")
	fmt.Fprintf(&sb, "shifted(X, Y) :- n(X), Y = fn:plus(X, %d).\n", k)
	fmt.Fprintf(&sb, "big(X) :- n(X), X > %d.\n", k)
	fmt.Fprintf(&sb, "lbl(X, S) :- n(X), T = fn:number:to_string(X), S = fn:string:concat(\"v\", T).\n")
	fmt.Fprintf(&sb, "pr(X, P) :- n(X), P = fn:pair(X, [X, %d]).\n", k)
	fmt.Fprintf(&sb, "len(X, L) :- pr(X, P), :match_pair(P, _, Q), L = fn:list:len(Q).\n")
	fmt.Fprintf(&sb, "st(X, R) :- n(X), R = {/id: X, /tag: \"t\"}.\n")
	return Prog{Shape: "functions", Text: sb.String()}
}

func day(d int) string { return fmt.Sprintf("2024-01-%02d", d) }

func shapeTInterval(t *rapid.T) Prog {
	var sb strings.Builder
	sb.WriteString("Decl link(X, Y) temporal bound [/name, /name].\nDecl reachable(X, Y) temporal bound [/name, /name].\n")
	n := rapid.IntRange(2, 4).Draw(t, "links")
	for i := 0; i < n; i++ {
		d1 := rapid.IntRange(1, 20).Draw(t, "d1")
		d2 := rapid.IntRange(d1, 28).Draw(t, "d2")
		fmt.Fprintf(&sb, "link(%s, %s)@[%s, %s].\n", node(i), node(i+1), day(d1), day(d2))
	}
	sb.WriteString(`reachable(X, Y)@[S, E] :- link(X, Y)@[S, E].
reachable(X, Z)@[S1, E1] :- reachable(X, Y)@[S1, E1], link(Y, Z)@[S2, E2], :time:ge(S1, S2), :time:le(E1, E2), :time:le(S1, E1).
reachable(X, Z)@[S1, E2] :- reachable(X, Y)@[S1, E1], link(Y, Z)@[S2, E2], :time:ge(S1, S2), :time:lt(E2, E1), :time:le(S1, E2).
reachable(X, Z)@[S2, E1] :- reachable(X, Y)@[S1, E1], link(Y, Z)@[S2, E2], :time:gt(S2, S1), :time:le(E1, E2), :time:le(S2, E1).
reachable(X, Z)@[S2, E2] :- reachable(X, Y)@[S1, E1], link(Y, Z)@[S2, E2], :time:gt(S2, S1), :time:lt(E2, E1), :time:le(S2, E2).
`)
	return Prog{Shape: "temporal-intervals", Text: sb.String(), Temporal: true}
}

func shapeTSeq(t *rapid.T) Prog {
	var sb strings.Builder
	sb.WriteString("Decl event_a(Name) temporal bound [/name].\nDecl event_b(Name) temporal bound [/name].\nDecl match(Name) bound [/name].\n")
	n := rapid.IntRange(1, 4).Draw(t, "users")
	for i := 0; i < n; i++ {
		ma := rapid.IntRange(0, 30).Draw(t, "minute_a")
		mb := rapid.IntRange(0, 59).Draw(t, "minute_b")
		fmt.Fprintf(&sb, "event_a(/u%d)@[2024-01-01T10:%02d:00].\nevent_b(/u%d)@[2024-01-01T10:%02d:00].\n", i, ma, i, mb)
	}
	lim := rapid.SampledFrom([]string{"5m", "10m", "20m"}).Draw(t, "limit")
	fmt.Fprintf(&sb, "match(U) :- event_b(U)@[Tb], event_a(U)@[Ta], :time:lt(Ta, Tb), Diff = fn:time:sub(Tb, Ta), Limit = fn:duration:parse('%s'), :duration:le(Diff, Limit).\n", lim)
	return Prog{Shape: "temporal-sequence", Text: sb.String(), Temporal: true}
}

func shapeTOp(t *rapid.T) Prog {
	var sb strings.Builder
	sb.WriteString("Decl active(X) temporal bound [/name].\n")
	n := rapid.IntRange(1, 4).Draw(t, "users")
	for i := 0; i < n; i++ {
		d1 := rapid.IntRange(1, 25).Draw(t, "d1")
		d2 := rapid.IntRange(d1, 31).Draw(t, "d2")
		fmt.Fprintf(&sb, "active(/u%d)@[%s, %s].\n", i, day(d1), day(d2))
	}
	w := rapid.IntRange(1, 40).Draw(t, "window")
	fmt.Fprintf(&sb, "recent(X) :- <-[0d, %dd] active(X).\n", w)
	fmt.Fprintf(&sb, "steady(X) :- [-[%dd, %dd] active(X).\n", w, w+2)
	return Prog{Shape: "temporal-operators", Text: sb.String(), Temporal: true}
}

func shapeTZ(t *rapid.T) Prog {
	d1 := rapid.IntRange(1, 20).Draw(t, "d1")
	d2 := rapid.IntRange(d1, 28).Draw(t, "d2")
	text := "Decl tz(X) temporal bound [/name].\nDecl seen(X) temporal bound [/name].\nseen(X)@[S, E] :- tz(X)@[S, E].\n" +
		fmt.Sprintf("Decl other(X) temporal bound [/name].\nother(/o)@[%s, %s].\n", day(d1), day(d2))
	return Prog{Shape: "timezone-helpers", Text: text, Temporal: true, TZ: &TZFact{D1: d1, D2: d2}}
}

// shapeParseError: the error path of the parser (per-call error listeners on pooled parsers).
func shapeParseError(t *rapid.T) Prog {
	good := shapeTC(t).Text
	bad := rapid.SampledFrom([]string{
		"p(X :- q(X).\n", "foo(/a.\n", "bar(1) :- .\n", "r(X) :- s(X) |> do .\n", "q(\"unterminated).\n", "Decl d(X) bound [/number.\n", "p(1)) .\n",
	}).Draw(t, "broken")
	if rapid.Bool().Draw(t, "first") {
		return Prog{Shape: "parse-error", Text: bad + good}
	}
	return Prog{Shape: "parse-error", Text: good + bad}
}

// shapeAnalysisError: programs the analysis rejects.
func shapeAnalysisError(t *rapid.T) Prog {
	k := rapid.IntRange(0, 9).Draw(t, "k")
	text := rapid.SampledFrom([]string{
		"q(%d).\np(X) :- q(Y).\n",
		"q(%d).\np(X) :- q(X), !r(Z).\nr(1).\n",
		"q(%d).\np(X) :- undefined_pred(X).\n",
		"q(%d).\np(X) :- q(X), !p(X).\n",
		"q(%d).\np(Y) :- q(X), Y = fn:no_such_function(X).\n",
	}).Draw(t, "rejected")
	return Prog{Shape: "analysis-error", Text: fmt.Sprintf(text, k)}
}

var shapes = []func(*rapid.T) Prog{
	shapeTC, shapeNeg, shapeAgg, shapeArith, shapeTInterval, shapeTSeq, shapeTOp, shapeTZ, shapeTZ, shapeParseError, shapeAnalysisError,
}

func genProg(t *rapid.T) Prog {
	p := shapes[rapid.IntRange(0, len(shapes)-1).Draw(t, "shape")](t)
	if !p.Temporal {
		p.Store = rapid.SampledFrom(progStoreKinds).Draw(t, "store")
	}
	p.Iter = rapid.IntRange(1, 3).Draw(t, "iter")
	p.Pieces = rapid.IntRange(0, 2).Draw(t, "pieces") == 0
	return p
}

func genProgCase(t *rapid.T) ProgCase {
	c := ProgCase{EvalDay: rapid.IntRange(1, 28).Draw(t, "evalday")}
	n := rapid.IntRange(4, 8).Draw(t, "jobs")
	for i := 0; i < n; i++ {
		// sometimes the same job twice: identical texts go through the same pooled objects
		if i > 0 && rapid.IntRange(0, 7).Draw(t, "dup") == 0 {
			c.Progs = append(c.Progs, c.Progs[rapid.IntRange(0, i-1).Draw(t, "of")])
			continue
		}
		c.Progs = append(c.Progs, genProg(t))
	}
	return c
}

func TestC18Programs(t *testing.T) {
	run := stats.Begin("C18", "TestC18Programs")
	lastFailure.Store(nil)
	defer run.Finish(t)
	defer clearInflight("TestC18Programs")
	defer restoreFailure(t, run)
	rapid.Check(t, func(rt *rapid.T) {
		c := genProgCase(rt)
		run.Current(c)
		announce("TestC18Programs", c)
		if t.Failed() {
			t.FailNow()
		}
		v := checkPrograms(run, rt, c, func() bool { return t.Failed() })
		run.Case(v.nontrivial, c.hash(), v.labels...)
		if v.nontrivial {
			run.Sample("parallel-programs", c)
		}
	})
}

// TestC18ColdParse runs in a fresh process (own run entry of checks.d/C18.json): the first thing
// that happens to the library is 8 goroutines parsing, analysing and evaluating different programs
// at once, with the parser's pools and prediction caches still empty; the alone runs come afterwards.
func TestC18ColdParse(t *testing.T) {
	run := stats.Begin("C18", "TestC18ColdParse")
	lastFailure.Store(nil)
	defer run.Finish(t)
	defer clearInflight("TestC18ColdParse")
	defer restoreFailure(t, run)
	first := true
	rapid.Check(t, func(rt *rapid.T) {
		c := ProgCase{EvalDay: rapid.IntRange(1, 28).Draw(rt, "evalday")}
		for i := 0; i < 8; i++ {
			c.Progs = append(c.Progs, genProg(rt))
		}
		run.Current(c)
		announce("TestC18ColdParse", c)
		if t.Failed() {
			t.FailNow()
		}
		v := checkProgramsOrder(run, rt, c, func() bool { return t.Failed() }, true)
		if first {
			v.labels = append(v.labels, "cold-start")
			first = false
		}
		run.Case(v.nontrivial, c.hash(), append(v.labels, "parallel-first")...)
	})
}
