package c18

import (
	"encoding/json"
	"fmt"
	"sort"
	"strings"
	"sync"
	"sync/atomic"
	"testing"
	"time"

	"codeberg.org/TauCeti/mangle-go/analysis"
	"codeberg.org/TauCeti/mangle-go/ast"
	"codeberg.org/TauCeti/mangle-go/engine"
	"codeberg.org/TauCeti/mangle-go/factstore"
	"codeberg.org/TauCeti/mangle-go/parse"
	"pgregory.net/rapid"
	"verif/stats"
	"verif/val"
)

// ---------------------------------------------------------------------------------------------
// Part (b): parse -> analyse -> evaluate, each goroutine its own program and its own store.

// TZFact makes the job use the helpers that read the process-wide default timezone
// (ast.DateInterval -> ast.Date -> GetDefaultTimezone) and write it with its default value
// (ast.SetTimezone("UTC"): an idempotent write, so no job changes what another one observes).
type TZFact struct {
	D1 int `json:"d1"` // day of January 2024
	D2 int `json:"d2"`
}

// Prog is the job of one goroutine.
type Prog struct {
	Shape    string  `json:"shape"`
	Text     string  `json:"text"`
	Temporal bool    `json:"temporal,omitempty"` // evaluate over a TemporalStore behind the adapter
	Store    string  `json:"store,omitempty"`    // store kind of a non-temporal job
	TZ       *TZFact `json:"tz,omitempty"`
	Iter     int     `json:"iter"` // the goroutine repeats its job this many times
	// Pieces: besides the whole unit, every line of the text that is a clause is also parsed on its
	// own with parse.Clause and its head with parse.Atom / parse.Term (more traffic through the
	// pooled lexers and parsers); the printed forms become part of the result.
	Pieces bool `json:"pieces,omitempty"`
	// TouchTZ: whatever the shape, the job first writes the process-wide default timezone with its
	// default value (ast.SetTimezone("UTC")) and reads it through ast.DateTime; the instant it gets
	// is part of the result.
	TouchTZ bool `json:"touch_tz,omitempty"`
	// Bounds: analyse with analysis.ErrorForBoundsMismatch (the bounds checker and the type helpers run).
	Bounds bool `json:"bounds,omitempty"`
	// Uses lists the built-in symbols and families the text was built from (coverage labels only).
	Uses []string `json:"uses,omitempty"`
	// Zones are the IANA zone names the civil-time functions of the text look up; Cold of them had
	// not been used in this process before the case (bookkeeping of the generator, labels only).
	Zones []string `json:"zones,omitempty"`
	Cold  int      `json:"cold,omitempty"`
	// Col: the job's base facts are not in Text but in a simplecolumn file of its own, served by a
	// factstore.SimpleColumnStore (see column_test.go). Text empty: the job only queries that store.
	Col *ColumnData `json:"col,omitempty"`
	// Dates: the job has no text; it builds intervals with the date helpers of package ast (default-zone
	// and explicit-zone ones) in a tight loop, stores them in a TemporalStore of its own and queries it
	// (see dates_test.go).
	Dates *DateJob `json:"dates,omitempty"`
}

// ProgCase is a set of jobs run side by side. Observed is filled in when a run of it failed.
type ProgCase struct {
	Progs    []Prog   `json:"progs"`
	EvalDay  int      `json:"eval_day"` // evaluation time = 2024-02-<EvalDay> 12:00 UTC
	Observed []string `json:"observed,omitempty"`
	Note     string   `json:"note,omitempty"`
}

var progStoreKinds = []string{"simple", "indexed", "multi", "multiarray", "concurrent"}

func newProgStore(kind string) factstore.FactStore {
	if kind == "concurrent" {
		return factstore.NewConcurrentFactStore(factstore.NewSimpleInMemoryStore())
	}
	return newBase(kind)
}

func intervalKey(iv ast.Interval) string {
	return fmt.Sprintf("@[%d:%d,%d:%d]", iv.Start.Type, iv.Start.Timestamp, iv.End.Type, iv.End.Timestamp)
}

// runJob performs parse -> analyse -> evaluate once and returns the canonical result: the sorted
// keys of all facts of the job's store, or a single line describing where it stopped.
func runJob(p Prog, evalTime time.Time) (res []string) {
	defer func() {
		if r := recover(); r != nil {
			res = []string{fmt.Sprintf("PANIC %v", r)}
		}
	}()
	var extra *ast.Interval
	if p.TZ != nil {
		if err := ast.SetTimezone("UTC"); err != nil {
			return []string{"ERR timezone: " + err.Error()}
		}
		iv := ast.DateInterval(2024, time.January, p.TZ.D1, 2024, time.January, p.TZ.D2)
		extra = &iv
		if loc := ast.GetDefaultTimezone(); loc != time.UTC {
			return []string{"ERR default timezone is " + loc.String()}
		}
	}
	var tzLine string
	if p.TouchTZ {
		if err := ast.SetTimezone("UTC"); err != nil {
			return []string{"ERR timezone: " + err.Error()}
		}
		tzLine = fmt.Sprintf("tz-helper: %d", ast.DateTime(2024, time.March, 10, 2, 30).UnixNano())
		defer func() { res = append(res, tzLine) }()
	}
	var pieces []string
	if p.Pieces {
		for _, line := range strings.Split(p.Text, "\n") {
			if line == "" || strings.HasPrefix(line, "Decl ") {
				continue
			}
			cl, err := parse.Clause(line)
			if err != nil {
				pieces = append(pieces, "piece error: "+err.Error())
				continue
			}
			pieces = append(pieces, "piece clause: "+cl.String())
			if a, err := parse.Atom(cl.Head.String()); err == nil {
				pieces = append(pieces, "piece atom: "+a.String())
			} else {
				pieces = append(pieces, "piece atom error: "+err.Error())
			}
			if tm, err := parse.Term(cl.Head.String()); err == nil {
				pieces = append(pieces, "piece term: "+tm.String())
			} else {
				pieces = append(pieces, "piece term error: "+err.Error())
			}
		}
		defer func() {
			if len(res) == 1 && (strings.HasPrefix(res[0], "ERR") || strings.HasPrefix(res[0], "PANIC")) {
				res = append(res, "(pieces) "+strings.Join(pieces, " | "))
				return
			}
			res = append(res, pieces...)
			sort.Strings(res)
		}()
	}
	if p.Col != nil && p.Text == "" {
		return runColumnQueries(p.Col)
	}
	if p.Dates != nil && p.Text == "" {
		return runDateJob(p.Dates)
	}
	unit, err := parse.Unit(strings.NewReader(p.Text))
	if err != nil {
		return []string{"ERR parse: " + err.Error()}
	}
	var info *analysis.ProgramInfo
	if p.Bounds {
		info, err = analysis.AnalyzeAndCheckBounds([]parse.SourceUnit{unit}, nil, analysis.ErrorForBoundsMismatch)
	} else {
		info, err = analysis.AnalyzeOneUnit(unit, nil)
	}
	if err != nil {
		return []string{"ERR analysis: " + err.Error()}
	}
	if p.Temporal {
		ts := factstore.NewTemporalStore()
		if extra != nil {
			name, _ := ast.Name("/k")
			if _, err := ts.Add(ast.NewAtom("tz", name), *extra); err != nil {
				return []string{"ERR add: " + err.Error()}
			}
		}
		err = engine.EvalProgram(info, factstore.NewTemporalFactStoreAdapter(ts),
			engine.WithTemporalStore(ts), engine.WithEvaluationTime(evalTime), engine.WithCreatedFactLimit(5000))
		if err != nil {
			return []string{"ERR eval: " + err.Error()}
		}
		ts.GetAllFacts(ast.Atom{}, func(tf factstore.TemporalFact) error {
			res = append(res, val.AtomKey(tf.Atom)+intervalKey(tf.Interval))
			return nil
		})
	} else {
		st := newProgStore(p.Store)
		if p.Col != nil {
			if st, err = columnProgStore(p.Col, p.Store); err != nil {
				return []string{"ERR column " + err.Error()}
			}
		}
		err = engine.EvalProgram(info, st, engine.WithEvaluationTime(evalTime), engine.WithCreatedFactLimit(5000))
		if err != nil {
			return []string{"ERR eval: " + err.Error()}
		}
		for _, pred := range st.ListPredicates() {
			if strings.HasPrefix(pred.Symbol, hiddenPredPrefix) {
				continue
			}
			st.GetFacts(ast.NewQuery(pred), func(a ast.Atom) error {
				res = append(res, val.AtomKey(a))
				return nil
			})
		}
	}
	sort.Strings(res)
	if res == nil {
		res = []string{}
	}
	return res
}

func sameResult(a, b []string) bool {
	if len(a) != len(b) {
		return false
	}
	for i := range a {
		if a[i] != b[i] {
			return false
		}
	}
	return true
}

func outcome(res []string) string {
	if len(res) >= 1 && len(res) <= 3 {
		for _, p := range []string{"ERR parse", "ERR analysis", "ERR eval", "ERR column", "ERR", "PANIC"} {
			if strings.HasPrefix(res[0], p) {
				return strings.ToLower(strings.ReplaceAll(p, " ", "-"))
			}
		}
	}
	if len(res) == 0 {
		return "empty"
	}
	return "ok"
}

func (c ProgCase) evalTime() time.Time {
	return time.Date(2024, time.February, c.EvalDay, 12, 0, 0, 0, time.UTC)
}

// aloneRuns is how often a job is run alone (after the side-by-side phase) to get the expected result.
// One run is enough: a parallel result that differs from it is compared with 20 further alone runs
// before it is called interference, which is where a job that is not a function of its text
// (sequential nondeterminism: not C18's subject) is recognised.
const aloneRuns = 1

type jobResult struct {
	results    [][]string
	start, end int64
}

func runParallel(c ProgCase) []jobResult {
	n := len(c.Progs)
	out := make([]jobResult, n)
	et := c.evalTime()
	var clock atomic.Int64
	var arrived atomic.Int32
	var wg sync.WaitGroup
	for i := range c.Progs {
		wg.Add(1)
		go func(i int) {
			defer wg.Done()
			p := c.Progs[i]
			barrier(&arrived, n)
			jr := jobResult{start: clock.Add(1)}
			for k := 0; k < p.Iter; k++ {
				jr.results = append(jr.results, runJob(p, et))
			}
			jr.end = clock.Add(1)
			out[i] = jr
		}(i)
	}
	wg.Wait()
	return out
}

// checkPrograms judges c. The side-by-side phase comes FIRST: whatever the library builds lazily or
// memoises (parser pools and prediction caches, per-zone, per-symbol or per-constant tables) for the
// symbols, constants and zone names of this case is then still missing, and several goroutines reach
// it together. The alone runs that give the expected results follow; running them first would warm
// every such structure and hide a defect on its cold path.
func checkPrograms(run *stats.Run, f stats.Failer, c ProgCase, raced func() bool) verdict {
	c.Observed, c.Note = nil, ""
	v := verdict{labels: []string{fmt.Sprintf("jobs:%d", len(c.Progs))}}
	et := c.evalTime()
	// The process-wide default timezone is shared library state: no job sets it to anything but its
	// default (UTC), so after the jobs it must be what it was before them (UTC if a job wrote it).
	wantZone := ast.GetDefaultTimezone()
	for _, p := range c.Progs {
		if p.Col != nil {
			p.Col.writeFile() // the jobs' knowledge base files exist before the jobs start
		}
		if p.TZ != nil || p.TouchTZ {
			wantZone = time.UTC
		}
	}
	checkZone := func(when string) {
		if got := ast.GetDefaultTimezone(); got != wantZone {
			ast.SetDefaultTimezone(wantZone) // later cases start from the default again
			fc := c
			fc.Note = "process-wide default timezone changed " + when
			failCase(run, f, fc, "the process-wide default timezone (ast.GetDefaultTimezone) is %v %s, it was %v before and no job sets it to anything but UTC; programs:\n%s",
				got, when, wantZone, describePrograms(c))
		}
	}
	par := runParallel(c)
	if raced != nil && raced() {
		fc := c
		fc.Note = "data race reported while these programs ran side by side"
		failCase(run, f, fc, "data race reported by the race detector while %d programs were parsed/analysed/evaluated side by side; report is in the log; programs:\n%s", len(c.Progs), describePrograms(c))
	}
	checkZone("after the jobs ran side by side")
	alone := make([][]string, len(c.Progs))
	deterministic := make([]bool, len(c.Progs))
	texts := map[string]bool{}
	uses := map[string]bool{}
	okJobs, coldJobs, coldZones, zoneJobs, tzJobs, colJobs, dateJobs := 0, 0, 0, 0, 0, 0, 0
	explicitZoneJob, defaultZoneJob := -1, -1 // some job constructs with explicit zones / another one through the default
	for i, p := range c.Progs {
		alone[i] = runJob(p, et)
		deterministic[i] = true
		for k := 1; k < aloneRuns; k++ {
			if !sameResult(alone[i], runJob(p, et)) {
				deterministic[i] = false
			}
		}
		texts[p.Text] = true
		if p.Col != nil {
			colJobs++
			v.labels = append(v.labels, "column-store:"+p.Col.served())
			if p.Col.Load {
				v.labels = append(v.labels, "column-store:read-into")
			}
			if p.Text == "" {
				b, _ := json.Marshal(p.Col)
				texts[string(b)] = true
			}
		}
		if p.Dates != nil {
			dateJobs++
			v.labels = append(v.labels, "date-helpers:"+p.Dates.Kind)
			for _, sp := range p.Dates.Specs {
				if sp.explicit() && explicitZoneJob < 0 {
					explicitZoneJob = i
				}
			}
			if p.Text == "" {
				b, _ := json.Marshal(p.Dates)
				texts[string(b)] = true
			}
		}
		o := outcome(alone[i])
		v.labels = append(v.labels, "shape:"+p.Shape, "alone:"+o)
		if o == "ok" {
			okJobs++
		}
		if p.TZ != nil || p.TouchTZ {
			v.labels = append(v.labels, "timezone-helpers")
			tzJobs++
		}
		if p.Pieces {
			v.labels = append(v.labels, "single-clause-parsers")
		}
		if p.Bounds {
			v.labels = append(v.labels, "bounds-checked")
		}
		for _, u := range p.Uses {
			uses[u] = true
		}
		if p.Cold > 0 {
			coldJobs++
			coldZones += p.Cold
		}
		if len(p.Zones) > 0 {
			zoneJobs++
		}
		if !deterministic[i] {
			v.labels = append(v.labels, "alone-nondeterministic")
		}
	}
	if raced != nil && raced() {
		failCase(run, f, c, "data race reported by the race detector while the programs were run one after the other (see log)")
	}
	checkZone("after the jobs ran one after the other")
	for i, p := range c.Progs {
		if i == explicitZoneJob {
			continue
		}
		usesDefault := p.TZ != nil || p.TouchTZ
		if p.Dates != nil {
			for _, sp := range p.Dates.Specs {
				usesDefault = usesDefault || !sp.explicit()
			}
		}
		if usesDefault {
			defaultZoneJob = i
		}
	}
	overlap := false
	for i := range par {
		for j := i + 1; j < len(par); j++ {
			if par[i].start < par[j].end && par[j].start < par[i].end {
				overlap = true
			}
		}
	}
	for i, jr := range par {
		for k, got := range jr.results {
			if sameResult(got, alone[i]) {
				continue
			}
			if !deterministic[i] {
				run.Inconclusive()
				continue
			}
			// Before this is called interference, give the job more chances to produce the same
			// result alone (a rare sequential nondeterminism would not be C18's subject).
			seqToo := false
			for r := 0; r < 20 && !seqToo; r++ {
				seqToo = sameResult(got, runJob(c.Progs[i], et))
			}
			if seqToo {
				run.Inconclusive()
				v.labels = append(v.labels, "alone-nondeterministic")
				f.Logf("C18: job %d gives varying results when run alone; not judged", i)
				continue
			}
			fc := c
			fc.Observed = got
			fc.Note = fmt.Sprintf("job %d, iteration %d, differs from its result alone", i, k)
			failCase(run, f, fc, "program %d (%s) gives a different result next to %d other programs than alone.\nalone:    %s\nparallel: %s\nprogram:\n%s",
				i, c.Progs[i].Shape, len(c.Progs)-1, clip(alone[i]), clip(got), c.Progs[i].Text)
		}
	}
	for u := range uses {
		v.labels = append(v.labels, "uses:"+u)
	}
	sort.Strings(v.labels)
	// cold zone lookups: how many jobs of the case looked up a zone name the process had not used before
	switch {
	case coldJobs >= 2:
		v.labels = append(v.labels, "cold-zone-jobs:2+")
	case coldJobs == 1:
		v.labels = append(v.labels, "cold-zone-jobs:1")
	default:
		v.labels = append(v.labels, "cold-zone-jobs:0")
	}
	if tzJobs >= 2 {
		v.labels = append(v.labels, "default-timezone-jobs:2+")
	}
	if zoneJobs >= 2 {
		v.labels = append(v.labels, "zone-lookup-jobs:2+")
	}
	// file-backed jobs: two or more of them are what makes scans of different files run side by side
	switch {
	case colJobs >= 2:
		v.labels = append(v.labels, "column-store-jobs:2+")
	case colJobs == 1:
		v.labels = append(v.labels, "column-store-jobs:1")
	default:
		v.labels = append(v.labels, "column-store-jobs:0")
	}
	// date-helper jobs: explicit-zone construction in one goroutine next to default-zone construction in another
	switch {
	case dateJobs >= 2:
		v.labels = append(v.labels, "date-helper-jobs:2+")
	case dateJobs == 1:
		v.labels = append(v.labels, "date-helper-jobs:1")
	default:
		v.labels = append(v.labels, "date-helper-jobs:0")
	}
	if explicitZoneJob >= 0 && defaultZoneJob >= 0 {
		v.labels = append(v.labels, "explicit-zone-next-to-default-zone")
	}
	run.Label("cold-zone-names", int64(coldZones))
	if overlap {
		v.labels = append(v.labels, "jobs-overlapped")
	} else {
		v.labels = append(v.labels, "jobs-not-overlapped")
	}
	// non-trivial: at least two different programs really ran at the same time and at least two
	// of the jobs evaluate to a result (not an error) alone.
	v.nontrivial = overlap && len(texts) >= 2 && okJobs >= 2
	return v
}

func clip(res []string) string {
	s := strings.Join(res, " ")
	if len(s) > 1500 {
		s = s[:1500] + " …"
	}
	return fmt.Sprintf("%d facts: %s", len(res), s)
}

func describePrograms(c ProgCase) string {
	var sb strings.Builder
	for i, p := range c.Progs {
		fmt.Fprintf(&sb, "--- job %d (%s, temporal=%v, store=%s, tz=%v, x%d)\n%s\n", i, p.Shape, p.Temporal, p.Store, p.TZ != nil, p.Iter, p.Text)
		if p.Col != nil {
			b, _ := json.Marshal(p.Col)
			fmt.Fprintf(&sb, "base facts in a simplecolumn file (%s): %s\n", p.Col.served(), b)
		}
		if p.Dates != nil {
			b, _ := json.Marshal(p.Dates)
			fmt.Fprintf(&sb, "intervals built with the date helpers of package ast: %s\n", b)
		}
	}
	return sb.String()
}

func (c ProgCase) hash() uint64 {
	c.Observed, c.Note = nil, ""
	b, _ := json.Marshal(c)
	return stats.Hash(string(b))
}

// ---------------------------------------------------------------------------------------------
// Program shapes (text). Simple, deterministic Datalog; no duplicate map keys, no fn:time:now, no
// wall clock. Every shape takes a suffix that has never been used in this process before (see
// freshness below) and puts it into its predicate names, name constants and strings, so that any
// state the library initialises lazily or memoises per symbol / per constant / per zone name is
// still cold when the goroutines of the case reach it together.

func node(sfx string, i int) string { return fmt.Sprintf("/n%s/v%d", sfx, i) }

func genEdges(t *rapid.T, pred, sfx string, nodes int) string {
	var sb strings.Builder
	n := rapid.IntRange(2, 8).Draw(t, "edges")
	for i := 0; i < n; i++ {
		a := rapid.IntRange(0, nodes-1).Draw(t, "from")
		b := rapid.IntRange(0, nodes-1).Draw(t, "to")
		fmt.Fprintf(&sb, "%s(%s, %s).\n", pred, node(sfx, a), node(sfx, b))
	}
	return sb.String()
}

func shapeTC(t *rapid.T, sfx string, _ []string) Prog {
	text := genEdges(t, "e_"+sfx, sfx, 5) +
		fmt.Sprintf("path_%[1]s(X, Y) :- e_%[1]s(X, Y).\npath_%[1]s(X, Z) :- path_%[1]s(X, Y), e_%[1]s(Y, Z).\n", sfx)
	return Prog{Shape: "transitive-closure", Text: text}
}

// shapeDeferred: a query through a chain of 150-450 deferred (top-down evaluated) predicates, far below the
// engine's nesting limit when a program runs alone; several start facts keep the job inside the chain for a while.
func shapeDeferred(t *rapid.T, sfx string, _ []string) Prog {
	depth := rapid.IntRange(150, 450).Draw(t, "deferred-depth")
	var sb strings.Builder
	for i := 0; i < depth; i++ {
		fmt.Fprintf(&sb, "Decl d%d_%s(X) descr [mode('+'), deferred()] bound [/number].\n", i, sfx)
	}
	for i := 0; i < depth-1; i++ {
		fmt.Fprintf(&sb, "d%[1]d_%[2]s(A) :- d%[3]d_%[2]s(A).\n", i, sfx, i+1)
	}
	fmt.Fprintf(&sb, "d%d_%s(A) :- A > 0.\n", depth-1, sfx)
	for k, n := 0, rapid.IntRange(5, 40).Draw(t, "deferred-starts"); k < n; k++ {
		fmt.Fprintf(&sb, "start_%s(%d).\n", sfx, k-2)
	}
	fmt.Fprintf(&sb, "ok_%[1]s(X) :- start_%[1]s(X), d0_%[1]s(X).\n", sfx)
	return Prog{Shape: "deferred-chain", Text: sb.String()}
}

func shapeNeg(t *rapid.T, sfx string, _ []string) Prog {
	var sb strings.Builder
	for i := 0; i < 5; i++ {
		fmt.Fprintf(&sb, "node_%s(%s).\n", sfx, node(sfx, i))
	}
	sb.WriteString(genEdges(t, "e_"+sfx, sfx, 5))
	fmt.Fprintf(&sb, "start_%s(%s).\n", sfx, node(sfx, rapid.IntRange(0, 4).Draw(t, "start")))
	fmt.Fprintf(&sb, "reach_%[1]s(X) :- start_%[1]s(X).\nreach_%[1]s(Y) :- reach_%[1]s(X), e_%[1]s(X, Y).\nunreach_%[1]s(X) :- node_%[1]s(X), !reach_%[1]s(X).\n", sfx)
	return Prog{Shape: "negation", Text: sb.String()}
}

func shapeAgg(t *rapid.T, sfx string, _ []string) Prog {
	var sb strings.Builder
	fmt.Fprintf(&sb, "Decl w_%s(K, I, V) bound [/name, /number, /number].\n", sfx)
	n := rapid.IntRange(2, 8).Draw(t, "rows")
	for i := 0; i < n; i++ {
		fmt.Fprintf(&sb, "w_%s(/k%s/g%d, %d, %d).\n", sfx, sfx, rapid.IntRange(0, 2).Draw(t, "key"), i, rapid.IntRange(-5, 20).Draw(t, "weight"))
	}
	fmt.Fprintf(&sb, "total_%[1]s(K, S) :- w_%[1]s(K, _, V) |> do fn:group_by(K), let S = fn:sum(V).\n", sfx)
	fmt.Fprintf(&sb, "rows_%[1]s(N) :- w_%[1]s(_, I, _) |> do fn:group_by(), let N = fn:count().\n", sfx)
	fmt.Fprintf(&sb, "top_%[1]s(K, M) :- w_%[1]s(K, _, V) |> do fn:group_by(K), let M = fn:max(V).\n", sfx)
	fmt.Fprintf(&sb, "heavy_%[1]s(K) :- total_%[1]s(K, S), S > 10.\n", sfx)
	return Prog{Shape: "aggregation", Text: sb.String(), Bounds: rapid.Bool().Draw(t, "bounds")}
}

func day(d int) string { return fmt.Sprintf("2024-01-%02d", d) }

const reachRules = `reachable_{S}(X, Y)@[S, E] :- link_{S}(X, Y)@[S, E].
reachable_{S}(X, Z)@[S1, E1] :- reachable_{S}(X, Y)@[S1, E1], link_{S}(Y, Z)@[S2, E2], :time:ge(S1, S2), :time:le(E1, E2), :time:le(S1, E1).
reachable_{S}(X, Z)@[S1, E2] :- reachable_{S}(X, Y)@[S1, E1], link_{S}(Y, Z)@[S2, E2], :time:ge(S1, S2), :time:lt(E2, E1), :time:le(S1, E2).
reachable_{S}(X, Z)@[S2, E1] :- reachable_{S}(X, Y)@[S1, E1], link_{S}(Y, Z)@[S2, E2], :time:gt(S2, S1), :time:le(E1, E2), :time:le(S2, E1).
reachable_{S}(X, Z)@[S2, E2] :- reachable_{S}(X, Y)@[S1, E1], link_{S}(Y, Z)@[S2, E2], :time:gt(S2, S1), :time:lt(E2, E1), :time:le(S2, E2).
`

func shapeTInterval(t *rapid.T, sfx string, _ []string) Prog {
	var sb strings.Builder
	fmt.Fprintf(&sb, "Decl link_%[1]s(X, Y) temporal bound [/name, /name].\nDecl reachable_%[1]s(X, Y) temporal bound [/name, /name].\n", sfx)
	n := rapid.IntRange(2, 4).Draw(t, "links")
	for i := 0; i < n; i++ {
		d1 := rapid.IntRange(1, 20).Draw(t, "d1")
		d2 := rapid.IntRange(d1, 28).Draw(t, "d2")
		fmt.Fprintf(&sb, "link_%s(%s, %s)@[%s, %s].\n", sfx, node(sfx, i), node(sfx, i+1), day(d1), day(d2))
	}
	sb.WriteString(strings.ReplaceAll(reachRules, "{S}", sfx))
	return Prog{Shape: "temporal-intervals", Text: sb.String(), Temporal: true}
}

func shapeTSeq(t *rapid.T, sfx string, _ []string) Prog {
	var sb strings.Builder
	fmt.Fprintf(&sb, "Decl event_a_%[1]s(Name) temporal bound [/name].\nDecl event_b_%[1]s(Name) temporal bound [/name].\nDecl match_%[1]s(Name) bound [/name].\n", sfx)
	n := rapid.IntRange(1, 4).Draw(t, "users")
	for i := 0; i < n; i++ {
		ma := rapid.IntRange(0, 30).Draw(t, "minute_a")
		mb := rapid.IntRange(0, 59).Draw(t, "minute_b")
		fmt.Fprintf(&sb, "event_a_%[1]s(/u%[1]s/p%[2]d)@[2024-01-01T10:%02[3]d:00].\nevent_b_%[1]s(/u%[1]s/p%[2]d)@[2024-01-01T10:%02[4]d:00].\n", sfx, i, ma, mb)
	}
	lim := rapid.SampledFrom([]string{"5m", "10m", "20m", "7m30s", "1h"}).Draw(t, "limit")
	fmt.Fprintf(&sb, "match_%[1]s(U) :- event_b_%[1]s(U)@[Tb], event_a_%[1]s(U)@[Ta], :time:lt(Ta, Tb), Diff = fn:time:sub(Tb, Ta), Limit = fn:duration:parse('%[2]s'), :duration:le(Diff, Limit).\n", sfx, lim)
	return Prog{Shape: "temporal-sequence", Text: sb.String(), Temporal: true}
}

func shapeTOp(t *rapid.T, sfx string, _ []string) Prog {
	var sb strings.Builder
	fmt.Fprintf(&sb, "Decl active_%s(X) temporal bound [/name].\n", sfx)
	n := rapid.IntRange(1, 4).Draw(t, "users")
	for i := 0; i < n; i++ {
		d1 := rapid.IntRange(1, 25).Draw(t, "d1")
		d2 := rapid.IntRange(d1, 31).Draw(t, "d2")
		fmt.Fprintf(&sb, "active_%[1]s(/u%[1]s/p%[2]d)@[%[3]s, %[4]s].\n", sfx, i, day(d1), day(d2))
	}
	w := rapid.IntRange(1, 40).Draw(t, "window")
	fmt.Fprintf(&sb, "recent_%[1]s(X) :- <-[0d, %[2]dd] active_%[1]s(X).\n", sfx, w)
	fmt.Fprintf(&sb, "steady_%[1]s(X) :- [-[%[2]dd, %[3]dd] active_%[1]s(X).\n", sfx, w, w+2)
	fmt.Fprintf(&sb, "soon_%[1]s(X) :- <+[0d, %[2]dd] active_%[1]s(X).\n", sfx, w)
	fmt.Fprintf(&sb, "lasting_%[1]s(X) :- [+[0d, 1d] active_%[1]s(X).\n", sfx)
	return Prog{Shape: "temporal-operators", Text: sb.String(), Temporal: true}
}

func shapeTZ(t *rapid.T, sfx string, _ []string) Prog {
	d1 := rapid.IntRange(1, 20).Draw(t, "d1")
	d2 := rapid.IntRange(d1, 28).Draw(t, "d2")
	text := fmt.Sprintf("Decl tz(X) temporal bound [/name].\nDecl seen_%[1]s(X) temporal bound [/name].\nseen_%[1]s(X)@[S, E] :- tz(X)@[S, E].\n"+
		"Decl other_%[1]s(X) temporal bound [/name].\nother_%[1]s(/o%[1]s)@[%[2]s, %[3]s].\n", sfx, day(d1), day(d2))
	return Prog{Shape: "timezone-helpers", Text: text, Temporal: true, TZ: &TZFact{D1: d1, D2: d2}}
}

// shapeParseError: the error path of the parser (per-call error listeners on pooled parsers).
func shapeParseError(t *rapid.T, sfx string, _ []string) Prog {
	good := shapeTC(t, sfx, nil).Text
	bad := rapid.SampledFrom([]string{
		"p(X :- q(X).\n", "foo(/a.\n", "bar(1) :- .\n", "r(X) :- s(X) |> do .\n", "q(\"unterminated).\n", "Decl d(X) bound [/number.\n", "p(1)) .\n",
	}).Draw(t, "broken")
	bad = strings.Replace(bad, "(", "_"+sfx+"(", 1)
	if rapid.Bool().Draw(t, "first") {
		return Prog{Shape: "parse-error", Text: bad + good}
	}
	return Prog{Shape: "parse-error", Text: good + bad}
}

// shapeAnalysisError: programs the analysis (or, with Bounds, the bounds checker) rejects.
func shapeAnalysisError(t *rapid.T, sfx string, _ []string) Prog {
	k := rapid.IntRange(0, 9).Draw(t, "k")
	i := rapid.IntRange(0, 6).Draw(t, "rejected")
	text := []string{
		"q_{S}({k}).\np_{S}(X) :- q_{S}(Y).\n",
		"q_{S}({k}).\np_{S}(X) :- q_{S}(X), !r_{S}(Z).\nr_{S}(1).\n",
		"q_{S}({k}).\np_{S}(X) :- undefined_{S}(X).\n",
		"q_{S}({k}).\np_{S}(X) :- q_{S}(X), !p_{S}(X).\n",
		"q_{S}({k}).\np_{S}(Y) :- q_{S}(X), Y = fn:no_such_function(X).\n",
		"Decl q_{S}(X) bound [/string].\nq_{S}({k}).\np_{S}(X) :- q_{S}(X).\n",
		"Decl q_{S}(X) bound [/number].\nDecl p_{S}(X) bound [/name].\nq_{S}({k}).\np_{S}(X) :- q_{S}(X).\n",
	}[i]
	return Prog{Shape: "analysis-error", Text: fill(text, map[string]string{"S": sfx, "k": fmt.Sprint(k)}), Bounds: i >= 5}
}

type shapeFn func(t *rapid.T, sfx string, zones []string) Prog

type shapeDef struct {
	fn    shapeFn
	zones bool // the shape looks zone names up (civil-time functions)
}

var builtinsShape = shapeDef{shapeBuiltins, true}

var shapes = []shapeDef{
	builtinsShape, builtinsShape, builtinsShape, {shapeTC, false}, {shapeNeg, false}, {shapeAgg, false}, {shapeTInterval, false},
	{shapeTSeq, false}, {shapeTOp, false}, {shapeTZ, false}, {shapeParseError, false}, {shapeAnalysisError, false},
	{shapeColumnProgram, false}, {shapeColumnQueries, false}, {shapeDateHelpers, false}, {shapeDeferred, false},
}

// ---------------------------------------------------------------------------------------------
// Freshness. The suffix of a case and the zone names handed out as "cold" come from process-wide
// bookkeeping, not from the seed: what matters is that the *library* has not seen them yet in this
// process. (The schedule is not seed-reproducible anyway; the generated text is saved with the case.)

var fresh struct {
	sync.Mutex
	serial    int
	zoneStart int // rotation of zonePool, drawn by the first case of the process
	zoneNext  int
	started   bool
	used      map[string]bool
}

// warmZones are handed out again and again: after their first use they are lookups that hit.
var warmZones = []string{"UTC", "Europe/Berlin", "Asia/Tokyo", "America/New_York", "Australia/Sydney", "Africa/Nairobi"}

// takeZones returns n zone names for one job: cold ones (never handed out in this process) while the
// pool lasts, otherwise and for warm=true names that were used before. cold counts the former.
func takeZones(t *rapid.T, n int, warm bool) (zones []string, cold int) {
	fresh.Lock()
	defer fresh.Unlock()
	if fresh.used == nil {
		fresh.used = map[string]bool{}
	}
	start := rapid.IntRange(0, len(zonePool)-1).Draw(t, "zonestart")
	if !fresh.started {
		fresh.started, fresh.zoneStart = true, start
	}
	for i := 0; i < n; i++ {
		var z string
		if !warm && fresh.zoneNext < len(zonePool) {
			z = zonePool[(fresh.zoneStart+fresh.zoneNext)%len(zonePool)]
			fresh.zoneNext++
		} else {
			z = warmZones[rapid.IntRange(0, len(warmZones)-1).Draw(t, "warmzone")]
		}
		if !fresh.used[z] {
			cold++
			fresh.used[z] = true
		}
		zones = append(zones, z)
	}
	return zones, cold
}

func nextSerial() int {
	fresh.Lock()
	defer fresh.Unlock()
	fresh.serial++
	return fresh.serial
}

func genProg(t *rapid.T, shape shapeDef, sfx string) Prog {
	var zones []string
	cold := 0
	if shape.zones {
		zones, cold = takeZones(t, rapid.IntRange(1, 2).Draw(t, "zones"), rapid.IntRange(0, 3).Draw(t, "warm") == 0)
	}
	p := shape.fn(t, sfx, zones)
	if shape.zones {
		p.Zones, p.Cold = zones, cold
	}
	if !p.Temporal {
		p.Store = rapid.SampledFrom(progStoreKinds).Draw(t, "store")
	}
	p.Iter = rapid.IntRange(1, 3).Draw(t, "iter")
	p.Pieces = rapid.IntRange(0, 2).Draw(t, "pieces") == 0
	p.TouchTZ = rapid.IntRange(0, 2).Draw(t, "touchtz") == 0
	return p
}

// genProgCase: n jobs; the first two or three are built-in-family programs (so that in every case
// several goroutines reach the library's per-zone / per-symbol state at the same time), the others
// are drawn from all shapes. Jobs get the suffix of the case plus a letter, or (one in four) the
// bare suffix of the case, so that some jobs of a case share predicate names and constants.
func genProgCase(t *rapid.T, minJobs, maxJobs int) ProgCase {
	c := ProgCase{EvalDay: rapid.IntRange(1, 28).Draw(t, "evalday")}
	base := fmt.Sprintf("c%d", nextSerial())
	n := rapid.IntRange(minJobs, maxJobs).Draw(t, "jobs")
	forced := rapid.IntRange(2, 3).Draw(t, "builtin-jobs")
	// In half of the cases 2-4 of the jobs keep their base facts in simplecolumn files of their own
	// (column-program / column-queries), so that scans of different files run side by side; they
	// follow two built-in-family jobs.
	column := 0
	if rapid.Bool().Draw(t, "column-case") {
		column = rapid.IntRange(2, 4).Draw(t, "column-jobs")
		forced = 2
		if n < forced+column {
			n = forced + column
		}
	}
	// In half of the cases 2-3 of the jobs build the intervals of their own TemporalStore with the date helpers
	// of package ast in tight loops (date-helpers): the first with explicit zones only, the second through the
	// process-wide default timezone only, a third as drawn. They follow the column jobs.
	dates := 0
	if rapid.Bool().Draw(t, "date-case") {
		dates = rapid.IntRange(2, 3).Draw(t, "date-jobs")
		if n < forced+column+dates {
			n = forced + column + dates
		}
	}
	// In a quarter of the cases the jobs of the general draw (at least four) are all deferred-chain programs: nested
	// top-down evaluations of several goroutines are deep at the same time.
	deferredCase := rapid.IntRange(0, 3).Draw(t, "deferred-case") == 0
	if deferredCase && n < forced+column+dates+4 {
		n = forced + column + dates + 4
	}
	dateKinds := []string{"explicit", "default", ""}
	for i := 0; i < n; i++ {
		if i >= forced+column && i < forced+column+dates {
			sfx := fmt.Sprintf("%s%c", base, 'a'+i)
			p := genDateJob(t, sfx, dateKinds[i-forced-column])
			p.Iter = rapid.IntRange(1, 2).Draw(t, "iter")
			p.TouchTZ = rapid.IntRange(0, 3).Draw(t, "touchtz") == 0
			c.Progs = append(c.Progs, p)
			continue
		}
		general := forced + column + dates // the general draw starts after the forced jobs
		// sometimes the same job twice: identical texts go through the same pooled objects
		if i >= general && rapid.IntRange(0, 7).Draw(t, "dup") == 0 {
			c.Progs = append(c.Progs, c.Progs[rapid.IntRange(0, i-1).Draw(t, "of")])
			continue
		}
		sfx := base
		if rapid.IntRange(0, 3).Draw(t, "shared-names") != 0 {
			sfx = fmt.Sprintf("%s%c", base, 'a'+i)
		}
		shape := builtinsShape
		if i >= general && deferredCase {
			shape = shapeDef{shapeDeferred, false}
		} else if i >= general {
			shape = shapes[rapid.IntRange(0, len(shapes)-1).Draw(t, "shape")]
		} else if i >= forced {
			shape = columnShapes[rapid.IntRange(0, len(columnShapes)-1).Draw(t, "column-shape")]
		}
		c.Progs = append(c.Progs, genProg(t, shape, sfx))
	}
	return c
}

func runProgramsTest(t *testing.T, name string, minJobs, maxJobs int) {
	run := stats.Begin("C18", name)
	lastFailure.Store(nil)
	defer run.Finish(t)
	defer clearInflight(name)
	defer restoreFailure(t, run)
	first := true
	rapid.Check(t, func(rt *rapid.T) {
		c := genProgCase(rt, minJobs, maxJobs)
		run.Current(c)
		announce(name, c)
		if t.Failed() {
			t.FailNow()
		}
		v := checkPrograms(run, rt, c, func() bool { return t.Failed() })
		if first {
			v.labels = append(v.labels, "first-case-of-process")
			first = false
		}
		run.Case(v.nontrivial, c.hash(), v.labels...)
		if v.nontrivial {
			run.Sample("parallel-programs", c)
		}
	})
}

// TestC18Programs: in every case the side-by-side phase comes first, on text that contains symbols,
// constants and zone names the process has not seen before; the alone runs follow.
func TestC18Programs(t *testing.T) { runProgramsTest(t, "TestC18Programs", 4, 8) }

// TestC18ColdParse runs in a fresh process (own run entry of checks.d/C18.json) with 8 goroutines per
// case: the very first thing that happens to the library in that process is 8 goroutines parsing,
// analysing and evaluating different programs at once (parser pools, prediction caches and every
// other lazily built structure still empty).
func TestC18ColdParse(t *testing.T) { runProgramsTest(t, "TestC18ColdParse", 8, 8) }
