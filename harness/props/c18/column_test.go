package c18

import (
	"bytes"
	"compress/gzip"
	"fmt"
	"io"
	"runtime"
	"sort"
	"strings"

	"codeberg.org/TauCeti/mangle-go/ast"
	"codeberg.org/TauCeti/mangle-go/factstore"
	"pgregory.net/rapid"
	"verif/val"
)

// ---------------------------------------------------------------------------------------------
// Part (b), file-backed extensional data. A job may keep its base facts in a knowledge base of its
// own in the simplecolumn format (factstore.SimpleColumn.WriteTo; plain or gzip) that is served by a
// factstore.SimpleColumnStore: as the read layer of a factstore.NewMergedStore under the job's write
// store, loaded into the write store with SimpleColumn.ReadInto, or queried directly
// (GetFacts / Contains / FactCount). A SimpleColumnStore opens and scans its input again for every
// query, so an evaluation over it spends most of its time inside the library's scanning code, which
// several jobs then run at the same time - each on its own data.

// ColPred is one predicate of a job's knowledge base. Rows hold small integers; column j of a row
// becomes a constant of the kind Cols[j]: 'n' the name /n<sfx>/v<k>, 'i' the number k, 's' a string
// of ColumnData.Pad bytes that starts with the suffix and k.
type ColPred struct {
	Name string  `json:"name"`
	Cols string  `json:"cols"`
	Rows [][]int `json:"rows"`
}

// ColQuery is one direct query of a column-queries job: per column -1 (a variable) or the integer a
// constant is made from; Contains asks Contains instead of GetFacts (no variables then).
type ColQuery struct {
	P        int   `json:"p"`
	Args     []int `json:"args"`
	Contains bool  `json:"contains,omitempty"`
}

// ColumnData describes the knowledge base of one job and the way it is served.
type ColumnData struct {
	Sfx   string    `json:"sfx"`
	Preds []ColPred `json:"preds"`
	Pad   int       `json:"pad,omitempty"`
	Gzip  bool      `json:"gzip,omitempty"`
	Det   bool      `json:"det,omitempty"` // SimpleColumn{Deterministic: true}
	// Chunk > 0: the store is opened with NewSimpleColumnStore over an input that, like a pipe or a
	// network stream, hands out at most Chunk bytes per Read and yields the processor Yields times
	// before each. Chunk == 0: NewSimpleColumnStoreFromBytes / ...FromGzipBytes.
	Chunk  int `json:"chunk,omitempty"`
	Yields int `json:"yields,omitempty"`
	// Load: the file is read into the job's write store with SimpleColumn.ReadInto instead of being
	// served as a read layer.
	Load bool `json:"load,omitempty"`
	// Queries (column-queries jobs only): asked directly of the SimpleColumnStore, no program.
	Queries []ColQuery `json:"queries,omitempty"`

	// file: the bytes of the knowledge base, written once per case before any job runs (the file
	// exists before the programs that read it start); see writeFile.
	file    []byte
	fileErr error
	written bool
}

// writeFile writes the job's knowledge base (once; called for every job of a case before the
// side-by-side phase, from one goroutine).
func (d *ColumnData) writeFile() {
	if !d.written {
		d.file, d.fileErr = columnBytes(d)
		d.written = true
	}
}

// fileBytes returns the knowledge base file; a job that was not prepared writes it itself.
func (d *ColumnData) fileBytes() ([]byte, error) {
	if d.written {
		return d.file, d.fileErr
	}
	return columnBytes(d)
}

func (d *ColumnData) served() string {
	k := "bytes"
	if d.Gzip {
		k = "gzip"
	}
	if d.Chunk > 0 {
		k += "-piecewise"
	}
	return k
}

func colNameText(sfx string, k int) string { return fmt.Sprintf("/n%s/v%d", sfx, k) }

func colConst(d *ColumnData, kind byte, k int) ast.Constant {
	switch kind {
	case 'n':
		c, err := ast.Name(colNameText(d.Sfx, k))
		if err != nil {
			panic(err)
		}
		return c
	case 's':
		s := fmt.Sprintf("s%s.%d.", d.Sfx, k)
		for i := 0; len(s) < d.Pad; i++ {
			s += fmt.Sprintf("%d-%d.", k, i)
		}
		return ast.String(s)
	}
	return ast.Number(int64(k))
}

func colSym(p ColPred) ast.PredicateSym {
	return ast.PredicateSym{Symbol: p.Name, Arity: len(p.Cols)}
}

// pieceReader delivers its input a piece at a time and yields the processor before every piece.
type pieceReader struct {
	r             io.Reader
	chunk, yields int
}

func (p *pieceReader) Read(b []byte) (int, error) {
	if len(b) > p.chunk {
		b = b[:p.chunk]
	}
	for i := 0; i < p.yields; i++ {
		runtime.Gosched()
	}
	return p.r.Read(b)
}

func (p *pieceReader) Close() error { return nil }

// columnBytes writes the knowledge base of d in the simplecolumn format (gzip-compressed if asked for).
func columnBytes(d *ColumnData) ([]byte, error) {
	mem := factstore.NewSimpleInMemoryStore()
	for _, p := range d.Preds {
		sym := colSym(p)
		for _, row := range p.Rows {
			if len(row) != sym.Arity {
				return nil, fmt.Errorf("row of %s has %d columns", p.Name, len(row))
			}
			args := make([]ast.BaseTerm, sym.Arity)
			for j, k := range row {
				args[j] = colConst(d, p.Cols[j], k)
			}
			mem.Add(ast.Atom{Predicate: sym, Args: args})
		}
	}
	var buf bytes.Buffer
	sc := factstore.SimpleColumn{Deterministic: d.Det}
	if !d.Gzip {
		if err := sc.WriteTo(mem, &buf); err != nil {
			return nil, err
		}
		return buf.Bytes(), nil
	}
	zw := gzip.NewWriter(&buf)
	if err := sc.WriteTo(mem, zw); err != nil {
		return nil, err
	}
	if err := zw.Close(); err != nil {
		return nil, err
	}
	return buf.Bytes(), nil
}

// columnInput is the input function of the job's file: a fresh reader per call.
func columnInput(d *ColumnData, data []byte) func() (io.ReadCloser, error) {
	return func() (io.ReadCloser, error) {
		var r io.Reader = bytes.NewReader(data)
		if d.Chunk > 0 {
			r = &pieceReader{r: r, chunk: d.Chunk, yields: d.Yields}
		}
		if d.Gzip {
			zr, err := gzip.NewReader(r)
			if err != nil {
				return nil, err
			}
			return zr, nil
		}
		return io.NopCloser(r), nil
	}
}

func openColumnStore(d *ColumnData, data []byte) (*factstore.SimpleColumnStore, error) {
	switch {
	case d.Chunk > 0:
		return factstore.NewSimpleColumnStore(columnInput(d, data))
	case d.Gzip:
		return factstore.NewSimpleColumnStoreFromGzipBytes(data)
	}
	return factstore.NewSimpleColumnStoreFromBytes(data)
}

// columnProgStore returns the store a column-program job evaluates on: its own write store of kind
// `kind` over (or filled from) its own simplecolumn file.
func columnProgStore(d *ColumnData, kind string) (factstore.FactStore, error) {
	data, err := d.fileBytes()
	if err != nil {
		return nil, fmt.Errorf("write: %w", err)
	}
	write := newProgStore(kind)
	if d.Load {
		in, err := columnInput(d, data)()
		if err != nil {
			return nil, fmt.Errorf("open: %w", err)
		}
		defer in.Close()
		if err := (factstore.SimpleColumn{}).ReadInto(in, write); err != nil {
			return nil, fmt.Errorf("read: %w", err)
		}
		return write, nil
	}
	col, err := openColumnStore(d, data)
	if err != nil {
		return nil, fmt.Errorf("open: %w", err)
	}
	return factstore.NewMergedStore([]factstore.ReadOnlyFactStore{col}, write), nil
}

// runColumnQueries is the whole job of a column-queries Prog: open the file, ask the queries. The canonical result has one line per query (sorted keys of the facts handed out).
func runColumnQueries(d *ColumnData) []string {
	data, err := d.fileBytes()
	if err != nil {
		return []string{"ERR column write: " + err.Error()}
	}
	col, err := openColumnStore(d, data)
	if err != nil {
		return []string{"ERR column open: " + err.Error()}
	}
	var res []string
	var preds []string
	for _, p := range col.ListPredicates() {
		preds = append(preds, fmt.Sprintf("%s/%d=%d", p.Symbol, p.Arity, col.FactCount(p)))
	}
	sort.Strings(preds)
	res = append(res, fmt.Sprintf("header: %d facts; %s", col.EstimateFactCount(), strings.Join(preds, " ")))
	for qi, q := range d.Queries {
		if q.P < 0 || q.P >= len(d.Preds) || len(q.Args) != len(d.Preds[q.P].Cols) {
			res = append(res, fmt.Sprintf("q%02d malformed", qi))
			continue
		}
		p := d.Preds[q.P]
		args := make([]ast.BaseTerm, len(q.Args))
		for j, k := range q.Args {
			if k < 0 {
				args[j] = ast.Variable{Symbol: fmt.Sprintf("X%d", j)}
			} else {
				args[j] = colConst(d, p.Cols[j], k)
			}
		}
		query := ast.Atom{Predicate: colSym(p), Args: args}
		if q.Contains {
			res = append(res, fmt.Sprintf("q%02d contains %s %v: %v", qi, p.Name, q.Args, col.Contains(query)))
			continue
		}
		var keys []string
		err := col.GetFacts(query, func(a ast.Atom) error {
			keys = append(keys, val.AtomKey(a))
			return nil
		})
		sort.Strings(keys)
		line := fmt.Sprintf("q%02d %s %v: %d facts %s", qi, p.Name, q.Args, len(keys), strings.Join(keys, " "))
		if err != nil {
			line += " ERROR " + err.Error()
		}
		res = append(res, line)
	}
	return res
}

// ---------------------------------------------------------------------------------------------
// Generators.

var padChoices = []int{0, 12, 60, 300, 1500}

func genServing(t *rapid.T, d *ColumnData) {
	d.Gzip = rapid.Bool().Draw(t, "gzip")
	d.Det = rapid.Bool().Draw(t, "deterministic")
	if rapid.IntRange(0, 2).Draw(t, "piecewise") == 0 {
		d.Chunk = rapid.SampledFrom([]int{61, 97, 512, 4096}).Draw(t, "chunk")
		d.Yields = rapid.IntRange(1, 2).Draw(t, "readYields")
	}
}

func genEdgeRows(t *rapid.T, nodes, n int) [][]int {
	rows := make([][]int, n)
	for i := range rows {
		rows[i] = []int{rapid.IntRange(0, nodes-1).Draw(t, "from"), rapid.IntRange(0, nodes-1).Draw(t, "to"), i}
	}
	return rows
}

// shapeColumnProgram: rules over base predicates that live in the job's simplecolumn file only (the
// text declares them, it holds none of their facts): joins, recursion, negation, aggregation.
func shapeColumnProgram(t *rapid.T, sfx string, _ []string) Prog {
	d := &ColumnData{Sfx: sfx, Pad: rapid.SampledFrom(padChoices).Draw(t, "pad")}
	genServing(t, d)
	d.Load = rapid.IntRange(0, 4).Draw(t, "readInto") == 0
	nodes := rapid.IntRange(3, 7).Draw(t, "nodes")
	edges := rapid.IntRange(4, 18).Draw(t, "edgeRows")
	var nodeRows [][]int
	for i := 0; i < nodes; i++ {
		nodeRows = append(nodeRows, []int{i})
	}
	var wRows [][]int
	for i, n := 0, rapid.IntRange(2, 12).Draw(t, "weightRows"); i < n; i++ {
		wRows = append(wRows, []int{rapid.IntRange(0, 2).Draw(t, "key"), i, rapid.IntRange(0, 25).Draw(t, "weight")})
	}
	d.Preds = []ColPred{
		{Name: "e_" + sfx, Cols: "nns", Rows: genEdgeRows(t, nodes, edges)},
		{Name: "node_" + sfx, Cols: "n", Rows: nodeRows},
		{Name: "w_" + sfx, Cols: "nii", Rows: wRows},
	}
	var sb strings.Builder
	fmt.Fprintf(&sb, "Decl e_%[1]s(X, Y, L) bound [/name, /name, /string].\nDecl node_%[1]s(X) bound [/name].\nDecl w_%[1]s(K, I, V) bound [/name, /number, /number].\n", sfx)
	rules := []string{
		"hop_{S}(X, Z) :- e_{S}(X, Y, _), e_{S}(Y, Z, _).\n",
		"path_{S}(X, Y) :- e_{S}(X, Y, _).\npath_{S}(X, Z) :- path_{S}(X, Y), e_{S}(Y, Z, _).\n",
		"lbl_{S}(X, L) :- node_{S}(X), e_{S}(X, _, L).\n",
		"start_{S}({start}).\nreach_{S}(X) :- start_{S}(X).\nreach_{S}(Y) :- reach_{S}(X), e_{S}(X, Y, _).\nunreach_{S}(X) :- node_{S}(X), !reach_{S}(X).\n",
		"total_{S}(K, T) :- w_{S}(K, _, V) |> do fn:group_by(K), let T = fn:sum(V).\nheavy_{S}(K) :- total_{S}(K, T), T > 30.\n",
		"rows_{S}(N) :- e_{S}(X, _, _) |> do fn:group_by(), let N = fn:count().\n",
		"sink_{S}(X) :- node_{S}(X), !src_{S}(X).\nsrc_{S}(X) :- e_{S}(X, _, _).\n",
	}
	mask := rapid.IntRange(1, 1<<len(rules)-1).Draw(t, "rules")
	repl := map[string]string{"S": sfx, "start": colNameText(sfx, rapid.IntRange(0, nodes-1).Draw(t, "start"))}
	for i, r := range rules {
		if mask&(1<<i) != 0 {
			sb.WriteString(fill(r, repl))
		}
	}
	return Prog{Shape: "column-program", Text: sb.String(), Col: d, Bounds: rapid.Bool().Draw(t, "bounds")}
}

// shapeColumnQueries: no program; 6-20 pattern and membership queries asked directly of the job's
// own SimpleColumnStore (2-4 predicates of 1-3 columns).
func shapeColumnQueries(t *rapid.T, sfx string, _ []string) Prog {
	d := &ColumnData{Sfx: sfx, Pad: rapid.SampledFrom(padChoices).Draw(t, "pad")}
	genServing(t, d)
	np := rapid.IntRange(2, 4).Draw(t, "colPreds")
	for pi := 0; pi < np; pi++ {
		arity := rapid.IntRange(1, 3).Draw(t, "arity")
		cols := make([]byte, arity)
		for j := range cols {
			cols[j] = "nis"[rapid.IntRange(0, 2).Draw(t, "colKind")]
		}
		p := ColPred{Name: fmt.Sprintf("c%d_%s", pi, sfx), Cols: string(cols)}
		for i, n := 0, rapid.IntRange(1, 24).Draw(t, "rows"); i < n; i++ {
			row := make([]int, arity)
			for j := range row {
				row[j] = rapid.IntRange(0, 5).Draw(t, "value")
			}
			p.Rows = append(p.Rows, row)
		}
		d.Preds = append(d.Preds, p)
	}
	for i, n := 0, rapid.IntRange(6, 20).Draw(t, "queries"); i < n; i++ {
		q := ColQuery{P: rapid.IntRange(0, np-1).Draw(t, "pred")}
		p := d.Preds[q.P]
		row := p.Rows[rapid.IntRange(0, len(p.Rows)-1).Draw(t, "likeRow")]
		q.Contains = rapid.IntRange(0, 3).Draw(t, "contains") == 0
		for j := range p.Cols {
			switch w := rapid.IntRange(0, 5).Draw(t, "arg"); {
			case w <= 2 && !q.Contains:
				q.Args = append(q.Args, -1)
			case w == 5:
				q.Args = append(q.Args, rapid.IntRange(0, 6).Draw(t, "value"))
			default:
				q.Args = append(q.Args, row[j])
			}
		}
		d.Queries = append(d.Queries, q)
	}
	return Prog{Shape: "column-queries", Col: d}
}

var columnShapes = []shapeDef{{shapeColumnProgram, false}, {shapeColumnProgram, false}, {shapeColumnQueries, false}}
