package c18

import (
	"fmt"
	"sort"
	"strings"
	"time"

	"codeberg.org/TauCeti/mangle-go/ast"
	"codeberg.org/TauCeti/mangle-go/factstore"
	"pgregory.net/rapid"
	"verif/val"
)

// ---------------------------------------------------------------------------------------------
// Part (b), date helpers. A 'date-helpers' job has no program text: it builds the validity intervals
// of its facts with the date helpers of package ast, the way an embedding application fills a
// TemporalStore, puts them into a TemporalStore of its own and queries that store - thousands of
// helper calls in a tight loop, so that the calls of different jobs really overlap. The helpers come
// in two families:
//
//   - ast.Date, ast.DateTime, ast.DateTimeSec, ast.DateInterval read the process-wide default
//     timezone (UTC; no job sets it to anything else);
//   - ast.DateIn, ast.DateTimeIn take the zone as an argument (names, abbreviations and fixed offsets
//     that differ from the default) and are no business of any other goroutine.
//
// A job uses one family or both. Its result is a function of its specification alone, whatever the
// other goroutines construct in the meantime; the oracle is the one of all jobs (result side by side =
// result alone afterwards).

// DateSpec is one interval constructor of a job: which helper builds the two ends.
type DateSpec struct {
	Fn   string `json:"fn"`             // date | datetime | datetimesec | dateinterval | datein | datetimein
	Zone string `json:"zone,omitempty"` // datein, datetimein
	D1   int    `json:"d1"`             // day of January 2024 of the start
	D2   int    `json:"d2"`             // ... of the end (D1 <= D2)
	H    int    `json:"h,omitempty"`
	M    int    `json:"m,omitempty"`
	S    int    `json:"s,omitempty"`
}

// DateJob is the whole job: Rounds times over all Specs (round r moves the days by r mod 3, so every
// constructor yields three different intervals, each of them again and again), every interval is
// added to the job's own TemporalStore and the store is asked at once whether the fact holds at one of
// the probe instants; at the end the store is listed and queried at every probe instant.
type DateJob struct {
	Sfx    string     `json:"sfx"`
	Kind   string     `json:"kind"` // explicit | default | mixed (label)
	Specs  []DateSpec `json:"specs"`
	Rounds int        `json:"rounds"`
	Probes []int      `json:"probes"` // hours after 2024-01-01T00:00Z
}

func (sp DateSpec) explicit() bool { return sp.Fn == "datein" || sp.Fn == "datetimein" }

func (sp DateSpec) interval(shift int) ast.Interval {
	d1, d2 := sp.D1+shift, sp.D2+shift
	const y, mo = 2024, time.January
	switch sp.Fn {
	case "date":
		return ast.TimeInterval(ast.Date(y, mo, d1), ast.Date(y, mo, d2))
	case "datetime":
		return ast.TimeInterval(ast.DateTime(y, mo, d1, sp.H, sp.M), ast.DateTime(y, mo, d2, sp.H, sp.M))
	case "datetimesec":
		return ast.TimeInterval(ast.DateTimeSec(y, mo, d1, sp.H, sp.M, sp.S), ast.DateTimeSec(y, mo, d2, sp.H, sp.M, sp.S))
	case "datein":
		return ast.TimeInterval(ast.DateIn(y, mo, d1, sp.Zone), ast.DateIn(y, mo, d2, sp.Zone))
	case "datetimein":
		return ast.TimeInterval(ast.DateTimeIn(y, mo, d1, sp.H, sp.M, sp.Zone), ast.DateTimeIn(y, mo, d2, sp.H, sp.M, sp.Zone))
	}
	return ast.DateInterval(y, mo, d1, y, mo, d2)
}

const dateShifts = 3

func runDateJob(d *DateJob) []string {
	ts := factstore.NewTemporalStore(factstore.WithMaxIntervalsPerAtom(-1))
	if len(d.Specs) == 0 || len(d.Probes) == 0 {
		return []string{"ERR date job without constructors or probes"}
	}
	pred := "dt_" + d.Sfx
	atoms := make([][dateShifts]ast.Atom, len(d.Specs))
	for i := range d.Specs {
		name, err := ast.Name(fmt.Sprintf("/k%s/s%d", d.Sfx, i))
		if err != nil {
			return []string{"ERR date job name: " + err.Error()}
		}
		for sh := 0; sh < dateShifts; sh++ {
			atoms[i][sh] = ast.NewAtom(pred, name, ast.Number(int64(sh)))
		}
	}
	probes := make([]time.Time, len(d.Probes))
	for i, h := range d.Probes {
		probes[i] = time.Date(2024, time.January, 1, h, 0, 0, 0, time.UTC)
	}
	added := make([]int, len(d.Specs))
	hits := make([]int, len(d.Specs))
	errs := map[string]int{}
	for r := 0; r < d.Rounds; r++ {
		sh := r % dateShifts
		for i := range d.Specs {
			ok, err := ts.Add(atoms[i][sh], d.Specs[i].interval(sh))
			if err != nil {
				errs[err.Error()]++
				continue
			}
			if ok {
				added[i]++
			}
			if ts.ContainsAt(atoms[i][sh], probes[r%len(probes)]) {
				hits[i]++
			}
		}
	}
	var res []string
	ts.GetAllFacts(ast.Atom{}, func(tf factstore.TemporalFact) error {
		res = append(res, val.AtomKey(tf.Atom)+intervalKey(tf.Interval))
		return nil
	})
	sort.Strings(res)
	res = append(res, fmt.Sprintf("stored: %d facts, %d intervals", len(res), ts.EstimateFactCount()))
	for i, sp := range d.Specs {
		res = append(res, fmt.Sprintf("constructor %d (%s %s): %d distinct intervals, %d of %d probes inside", i, sp.Fn, sp.Zone, added[i], hits[i], d.Rounds))
	}
	query := ast.NewQuery(ast.PredicateSym{Symbol: pred, Arity: 2})
	for i, t := range probes {
		var keys []string
		err := ts.GetFactsAt(query, t, func(tf factstore.TemporalFact) error {
			keys = append(keys, val.AtomKey(tf.Atom)+intervalKey(tf.Interval))
			return nil
		})
		sort.Strings(keys)
		line := fmt.Sprintf("at +%dh: %d facts %s", d.Probes[i], len(keys), strings.Join(keys, " "))
		if err != nil {
			line += " ERROR " + err.Error()
		}
		res = append(res, line)
	}
	var el []string
	for e, n := range errs {
		el = append(el, fmt.Sprintf("add error x%d: %s", n, e))
	}
	sort.Strings(el)
	return append(res, el...)
}

// explicitZones: what DateIn / DateTimeIn are given. Fixed offsets (no daylight saving rules: Etc/GMT±h,
// Tokyo, Kolkata, Kathmandu, Phoenix, Honolulu, Nairobi), zones with rules, abbreviations the library maps
// itself; all of them differ from the default in January. Rarely the default's own name and a name that
// does not exist (the helpers then fall back to the default timezone).
var explicitZones = []string{
	"Etc/GMT+5", "Etc/GMT-9", "Etc/GMT+11", "Etc/GMT-3", "Etc/GMT-13", "Asia/Tokyo", "JST", "Asia/Kolkata", "IST",
	"Asia/Kathmandu", "America/Phoenix", "Pacific/Honolulu", "HST", "Africa/Nairobi",
	"America/New_York", "EST", "Europe/Berlin", "CET", "Australia/Sydney", "PST",
}

var rareZones = []string{"UTC", "Mars/Olympus_Mons"}

var defaultFns = []string{"date", "datetime", "datetimesec", "dateinterval"}

func genDateSpec(t *rapid.T, explicit bool) DateSpec {
	d1 := rapid.IntRange(1, 20).Draw(t, "d1")
	sp := DateSpec{D1: d1, D2: rapid.IntRange(d1, 26).Draw(t, "d2"),
		H: rapid.IntRange(0, 23).Draw(t, "h"), M: rapid.IntRange(0, 59).Draw(t, "m"), S: rapid.IntRange(0, 59).Draw(t, "s")}
	if explicit {
		sp.Fn = rapid.SampledFrom([]string{"datein", "datetimein"}).Draw(t, "explicitFn")
		sp.Zone = rapid.SampledFrom(explicitZones).Draw(t, "zone")
		if rapid.IntRange(0, 11).Draw(t, "rareZone") == 0 {
			sp.Zone = rapid.SampledFrom(rareZones).Draw(t, "rare")
		}
	} else {
		sp.Fn = rapid.SampledFrom(defaultFns).Draw(t, "defaultFn")
	}
	if sp.Fn == "date" || sp.Fn == "datein" || sp.Fn == "dateinterval" {
		sp.H, sp.M, sp.S = 0, 0, 0
	} else if sp.Fn != "datetimesec" {
		sp.S = 0
	}
	return sp
}

// genDateJob: kind "" = drawn. The number of rounds follows the price of a round: a call with an explicit
// zone resolves the zone name every time (time.LoadLocation reads the zone file) and costs, in a
// binary built with -race, a hundred times what a default-zone call costs, so the default-zone jobs get many more rounds - side by side, jobs
// of both kinds are then busy constructing for a similar stretch of time (tens of milliseconds).
func genDateJob(t *rapid.T, sfx, kind string) Prog {
	if kind == "" {
		kind = rapid.SampledFrom([]string{"explicit", "default", "mixed"}).Draw(t, "dateKind")
	}
	d := &DateJob{Sfx: sfx, Kind: kind}
	n := rapid.IntRange(2, 5).Draw(t, "constructors")
	nExplicit := 0
	for i := 0; i < n; i++ {
		explicit := kind == "explicit" || (kind == "mixed" && (i == 0 || (i > 1 && rapid.Bool().Draw(t, "explicit"))))
		if explicit {
			nExplicit++
		}
		d.Specs = append(d.Specs, genDateSpec(t, explicit))
	}
	if nExplicit > 0 {
		d.Rounds = rapid.IntRange(160, 320).Draw(t, "rounds") / nExplicit // 320-640 explicit-zone calls
	} else {
		d.Rounds = rapid.IntRange(12000, 24000).Draw(t, "rounds") / n // 24000-48000 default-zone calls
	}
	for i, k := 0, rapid.IntRange(2, 4).Draw(t, "probes"); i < k; i++ {
		d.Probes = append(d.Probes, rapid.IntRange(0, 30*24).Draw(t, "probeHour"))
	}
	return Prog{Shape: "date-helpers", Dates: d}
}

func shapeDateHelpers(t *rapid.T, sfx string, _ []string) Prog { return genDateJob(t, sfx, "") }
