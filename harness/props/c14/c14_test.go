// Package c14 checks property C14: temporal operators and annotations mean what the documentation says.
//
// A case is a set of base facts put directly into a factstore.TemporalStore (coalesced by construction, on a
// timeline of whole seconds), a few plain facts, an evaluation time and a one- or two-rule program given as
// source text (own printer -> parse -> analysis -> EvalProgram with WithTemporalStore/WithEvaluationTime).
// The oracle is the small temporal reference evaluator of ref_test.go (pointwise model, naive fixpoint); both
// stores are read back and compared exactly, temporal facts as (atom, first instant, last instant) triples
// where an unbounded end and the time stamps MinInt64/MaxInt64 denote the same instants.
// The interval relations are checked separately at builtin.Decide level (rel_test.go).
package c14

import (
	"encoding/json"
	"fmt"
	"math"
	"sort"
	"strings"
	"testing"
	"time"

	"codeberg.org/TauCeti/mangle-go/analysis"
	"codeberg.org/TauCeti/mangle-go/ast"
	"codeberg.org/TauCeti/mangle-go/engine"
	"codeberg.org/TauCeti/mangle-go/factstore"
	"codeberg.org/TauCeti/mangle-go/parse"
	"pgregory.net/rapid"
	"verif/prog"
	"verif/stats"
	"verif/val"
)

// ---------------------------------------------------------------------------------------------
// Case format (= replay format).

// Iv is a closed interval of ticks (whole seconds after epoch0); LoInf/HiInf mark unbounded ends.
type Iv struct {
	Lo    int64 `json:"lo"`
	Hi    int64 `json:"hi"`
	LoInf bool  `json:"lo_inf,omitempty"`
	HiInf bool  `json:"hi_inf,omitempty"`
}

// TFact is a base fact of the temporal store; arguments are small numbers.
// InText: the fact is written in the program text (pred(args)@[lo, hi].) instead of being put into the store.
// Out (only read when Case.Layered): the fact is added through the teeing store, i.e. sits in its output layer,
// instead of in the base layer.
type TFact struct {
	Pred   string  `json:"pred"`
	Args   []int64 `json:"args"`
	Iv     Iv      `json:"iv"`
	InText bool    `json:"in_text,omitempty"`
	Out    bool    `json:"out,omitempty"`
}

// PFact is a fact of the ordinary store.
type PFact struct {
	Pred string  `json:"pred"`
	Args []int64 `json:"args"`
}

// Term is a variable (V != "", "_" is the wildcard) or the number N.
type Term struct {
	V string `json:"v,omitempty"`
	N int64  `json:"n,omitempty"`
}

// Bound of an annotation: "ts" (tick T), "var" (V), "now", "inf" (written _).
type Bound struct {
	K string `json:"k"`
	T int64  `json:"t,omitempty"`
	V string `json:"v,omitempty"`
}

// Ann is @[Lo, Hi]; Point means the one-bound form @[Lo] (Hi is ignored and taken equal to Lo).
type Ann struct {
	Lo    Bound `json:"lo"`
	Hi    Bound `json:"hi"`
	Point bool  `json:"point,omitempty"`
}

// Lit is a body literal:
//
//	K "t":    [Op[D1 s, D2 s]] Pred(Args)[@Ann]   (temporal literal; Op one of "", "<-", "[-", "<+", "[+";
//	          MS: the window is written in milliseconds, e.g. [2000ms, 5000ms])
//	K "e":    Pred(Args)                            (ordinary atom)
//	K "plus": Y = fn:plus(X, N)
//	K "lt":   X < N
type Lit struct {
	K    string `json:"k"`
	Op   string `json:"op,omitempty"`
	D1   int64  `json:"d1,omitempty"`
	D2   int64  `json:"d2,omitempty"`
	MS   bool   `json:"ms,omitempty"`
	Pred string `json:"pred,omitempty"`
	Args []Term `json:"args,omitempty"`
	Ann  *Ann   `json:"ann,omitempty"`
	X    string `json:"x,omitempty"`
	Y    string `json:"y,omitempty"`
	N    int64  `json:"n,omitempty"`
}

// Rule is Pred(Args)[@Ann] :- Body.
type Rule struct {
	Pred string `json:"pred"`
	Args []Term `json:"args"`
	Ann  *Ann   `json:"ann,omitempty"`
	Body []Lit  `json:"body"`
}

// Case is one generated input. A predicate is temporal iff its name starts with "t".
// Layered: the temporal store handed to the engine is a factstore.TeeingTemporalStore over a base
// factstore.TemporalStore (what the interpreter builds): facts with Out are added through the tee, the others
// sit in the base layer; facts written in the text and derived facts reach the output layer through the engine.
// The meaning of the case does not depend on it (reads go to the union of both layers).
type Case struct {
	Layered bool `json:"layered,omitempty"`
	// Coalesce: TemporalStore.Coalesce is called for every temporal predicate of the base layer before the
	// evaluation (the base facts are coalesced as generated, so this changes nothing that can be asked).
	Coalesce bool    `json:"coalesce,omitempty"`
	Now      int64   `json:"now"` // evaluation time, tick
	Temporal []TFact `json:"temporal"`
	Plain    []PFact `json:"plain"`
	Rules    []Rule  `json:"rules"`
	Text     string  `json:"text"` // informational: the source text handed to the parser
}

func isTemporalPred(p string) bool { return strings.HasPrefix(p, "t") }

// epoch0 is tick 0 of the timeline.
var epoch0 = time.Date(2024, 1, 1, 0, 0, 0, 0, time.UTC)

const second = int64(time.Second)

func nanos(tick int64) int64 { return epoch0.UnixNano() + tick*second }

func (iv Iv) bounds() (lo, hi int64) {
	lo, hi = nanos(iv.Lo), nanos(iv.Hi)
	if iv.LoInf {
		lo = math.MinInt64
	}
	if iv.HiInf {
		hi = math.MaxInt64
	}
	return
}

func (iv Iv) build() ast.Interval {
	s, e := ast.NegativeInfinity(), ast.PositiveInfinity()
	if !iv.LoInf {
		s = ast.TemporalBound{Type: ast.TimestampBound, Timestamp: nanos(iv.Lo)}
	}
	if !iv.HiInf {
		e = ast.TemporalBound{Type: ast.TimestampBound, Timestamp: nanos(iv.Hi)}
	}
	return ast.Interval{Start: s, End: e}
}

// ---------------------------------------------------------------------------------------------
// Own printer.

func (t Term) source() string {
	if t.V != "" {
		return t.V
	}
	return fmt.Sprint(t.N)
}

func tickSource(t int64) string {
	return time.Unix(0, nanos(t)).UTC().Format("2006-01-02T15:04:05Z")
}

func (b Bound) source() string {
	switch b.K {
	case "ts":
		return tickSource(b.T)
	case "var":
		return b.V
	case "now":
		return "now"
	default:
		return "_"
	}
}

func (a *Ann) source() string {
	if a == nil {
		return ""
	}
	if a.Point {
		return "@[" + a.Lo.source() + "]"
	}
	return "@[" + a.Lo.source() + ", " + a.Hi.source() + "]"
}

func atomSource(pred string, args []Term) string {
	parts := make([]string, len(args))
	for i, a := range args {
		parts[i] = a.source()
	}
	return pred + "(" + strings.Join(parts, ", ") + ")"
}

func (l Lit) source() string {
	switch l.K {
	case "t":
		s := ""
		if l.Op != "" && l.MS {
			s = fmt.Sprintf("%s[%dms, %dms] ", l.Op, l.D1*1000, l.D2*1000)
		} else if l.Op != "" {
			s = fmt.Sprintf("%s[%ds, %ds] ", l.Op, l.D1, l.D2)
		}
		return s + atomSource(l.Pred, l.Args) + l.Ann.source()
	case "e":
		return atomSource(l.Pred, l.Args)
	case "plus":
		return fmt.Sprintf("%s = fn:plus(%s, %d)", l.Y, l.X, l.N)
	case "lt":
		return fmt.Sprintf("%s < %d", l.X, l.N)
	}
	return "?"
}

func (r Rule) source() string {
	parts := make([]string, len(r.Body))
	for i, l := range r.Body {
		parts[i] = l.source()
	}
	return atomSource(r.Pred, r.Args) + r.Ann.source() + " :- " + strings.Join(parts, ", ") + "."
}

type predSig struct {
	name  string
	arity int
}

// preds lists every predicate of the case with its arity, in order of first appearance.
func (c Case) preds() []predSig {
	var out []predSig
	seen := map[string]bool{}
	add := func(name string, arity int) {
		if !seen[name] {
			seen[name] = true
			out = append(out, predSig{name, arity})
		}
	}
	for _, f := range c.Temporal {
		add(f.Pred, len(f.Args))
	}
	for _, f := range c.Plain {
		add(f.Pred, len(f.Args))
	}
	for _, r := range c.Rules {
		for _, l := range r.Body {
			if l.K == "t" || l.K == "e" {
				add(l.Pred, len(l.Args))
			}
		}
		add(r.Pred, len(r.Args))
	}
	return out
}

// Source prints declarations (every predicate, temporal ones marked) and the rules.
func (c Case) Source() string {
	var sb strings.Builder
	for _, p := range c.preds() {
		vars := make([]string, p.arity)
		bounds := make([]string, p.arity)
		for i := range vars {
			vars[i] = fmt.Sprintf("A%d", i)
			bounds[i] = "/any"
		}
		temporal := ""
		if isTemporalPred(p.name) {
			temporal = " temporal"
		}
		fmt.Fprintf(&sb, "Decl %s(%s)%s bound [%s].\n", p.name, strings.Join(vars, ", "), temporal, strings.Join(bounds, ", "))
	}
	for _, f := range c.Temporal {
		if !f.InText {
			continue
		}
		args := make([]Term, len(f.Args))
		for i, a := range f.Args {
			args[i] = Term{N: a}
		}
		ann := Ann{Lo: Bound{K: "ts", T: f.Iv.Lo}, Hi: Bound{K: "ts", T: f.Iv.Hi}}
		if f.Iv.LoInf {
			ann.Lo = Bound{K: "inf"}
		}
		if f.Iv.HiInf {
			ann.Hi = Bound{K: "inf"}
		}
		ann.Point = !f.Iv.LoInf && !f.Iv.HiInf && f.Iv.Lo == f.Iv.Hi
		fmt.Fprintf(&sb, "%s%s.\n", atomSource(f.Pred, args), ann.source())
	}
	for _, r := range c.Rules {
		sb.WriteString(r.source())
		sb.WriteString("\n")
	}
	return sb.String()
}

func (c Case) hash() uint64 {
	c.Text = ""
	b, _ := json.Marshal(c)
	return stats.Hash(string(b))
}

// ---------------------------------------------------------------------------------------------
// Running the real pipeline.

type outcome struct {
	parseErr, analysisErr, evalErr error
	panicked                       string
	temporal                       map[string]bool // key@lo,hi
	plain                          map[string]bool
	malformed                      []string
}

func tkey(atomKey string, lo, hi int64) string {
	return fmt.Sprintf("%s@[%s, %s]", atomKey, showNanos(lo), showNanos(hi))
}

// showNanos prints an instant as tick (if it is a whole tick), -inf/+inf for the sentinels, raw otherwise.
func showNanos(n int64) string {
	switch {
	case n == math.MinInt64:
		return "-inf"
	case n == math.MaxInt64:
		return "+inf"
	}
	d := n - epoch0.UnixNano()
	if d%second == 0 && d/second > -1000 && d/second < 1000 {
		return fmt.Sprintf("t%d", d/second)
	}
	return fmt.Sprintf("%dns", n)
}

func numAtom(pred string, args []int64) ast.Atom {
	bs := make([]ast.BaseTerm, len(args))
	for i, a := range args {
		bs[i] = ast.Number(a)
	}
	return ast.Atom{Predicate: ast.PredicateSym{Symbol: pred, Arity: len(args)}, Args: bs}
}

func runEngine(c Case, text string) (out outcome) {
	defer func() {
		if r := recover(); r != nil {
			out.panicked = fmt.Sprint(r)
		}
	}()
	unit, err := parse.Unit(strings.NewReader(text))
	if err != nil {
		out.parseErr = err
		return
	}
	info, err := analysis.AnalyzeOneUnit(unit, nil)
	if err != nil {
		out.analysisErr = err
		return
	}
	baseLayer := factstore.NewTemporalStore()
	var ts factstore.TemporalFactStore = baseLayer
	if c.Layered {
		ts = factstore.NewTeeingTemporalStore(baseLayer)
	}
	for _, f := range c.Temporal {
		if f.InText {
			continue
		}
		target := factstore.TemporalFactStore(baseLayer)
		if c.Layered && f.Out {
			target = ts
		}
		if _, err := target.Add(numAtom(f.Pred, f.Args), f.Iv.build()); err != nil {
			out.malformed = append(out.malformed, fmt.Sprintf("base fact refused by the store: %v", err))
		}
	}
	if c.Coalesce {
		done := map[string]bool{}
		for _, f := range c.Temporal {
			if !f.InText && !done[f.Pred] {
				done[f.Pred] = true
				if err := baseLayer.Coalesce(numAtom(f.Pred, f.Args).Predicate); err != nil {
					out.malformed = append(out.malformed, fmt.Sprintf("Coalesce(%s) failed: %v", f.Pred, err))
				}
			}
		}
	}
	store := factstore.NewMultiIndexedArrayInMemoryStore()
	for _, f := range c.Plain {
		store.Add(numAtom(f.Pred, f.Args))
	}
	out.evalErr = engine.EvalProgram(info, store, engine.WithTemporalStore(ts), engine.WithEvaluationTime(time.Unix(0, nanos(c.Now)).UTC()))
	out.temporal = map[string]bool{}
	ts.GetAllFacts(ast.Atom{}, func(tf factstore.TemporalFact) error {
		var lo, hi int64
		switch tf.Interval.Start.Type {
		case ast.TimestampBound:
			lo = tf.Interval.Start.Timestamp
		case ast.NegativeInfinityBound:
			lo = math.MinInt64
		default:
			out.malformed = append(out.malformed, fmt.Sprintf("stored start bound of %v has type %d", tf.Atom, tf.Interval.Start.Type))
		}
		switch tf.Interval.End.Type {
		case ast.TimestampBound:
			hi = tf.Interval.End.Timestamp
		case ast.PositiveInfinityBound:
			hi = math.MaxInt64
		default:
			out.malformed = append(out.malformed, fmt.Sprintf("stored end bound of %v has type %d", tf.Atom, tf.Interval.End.Type))
		}
		if !tf.Atom.IsGround() {
			out.malformed = append(out.malformed, "non-ground temporal fact "+tf.Atom.String())
		}
		out.temporal[tkey(val.AtomKey(tf.Atom), lo, hi)] = true
		return nil
	})
	var po prog.Outcome
	prog.ReadStore(store, &po)
	out.plain = map[string]bool{}
	for k := range po.Facts {
		out.plain[k] = true
	}
	for _, ng := range po.NonGround {
		out.malformed = append(out.malformed, "non-ground fact "+ng)
	}
	return
}

func diff(want, got map[string]bool) (missing, extra []string) {
	for k := range want {
		if !got[k] {
			missing = append(missing, k)
		}
	}
	for k := range got {
		if !want[k] {
			extra = append(extra, k)
		}
	}
	sort.Strings(missing)
	sort.Strings(extra)
	return
}

// ---------------------------------------------------------------------------------------------
// The check.

type verdict struct {
	nontrivial bool
	labels     []string
}

func check(run *stats.Run, f stats.Failer, c Case) verdict {
	var v verdict
	labels := map[string]bool{}
	finish := func() verdict {
		for l := range labels {
			v.labels = append(v.labels, l)
		}
		sort.Strings(v.labels)
		return v
	}
	if why := c.malformed(); why != "" {
		run.Failf(f, "malformed case: %s", why)
	}
	ref := evalRef(c)
	for l := range ref.labels {
		labels[l] = true
	}
	if ref.noVerdict != "" {
		// shapes whose documented meaning is not determined (see ref_test.go), invalid resolved head
		// intervals, reference cap: counted, never a verdict.
		run.Inconclusive()
		labels["no-verdict:"+ref.noVerdict] = true
		return finish()
	}
	if stats.Exclusion("K08-hash-colliders") {
		if ref.hashCollision() {
			run.Excluded("K08-hash-colliders")
			labels["excluded:K08"] = true
			return finish()
		}
	}
	for l := range c.layerLabels() {
		labels[l] = true
	}
	text := c.Source()
	out := runEngine(c, text)
	describe := func() string {
		var sb strings.Builder
		fmt.Fprintf(&sb, "evaluation time t%d\nprogram:\n%s", c.Now, text)
		sb.WriteString("temporal base facts:")
		for _, tf := range c.Temporal {
			lo, hi := tf.Iv.bounds()
			fmt.Fprintf(&sb, " %s%v@[%s, %s]", tf.Pred, tf.Args, showNanos(lo), showNanos(hi))
			if tf.InText {
				sb.WriteString("(in the text)")
			} else if c.Layered && tf.Out {
				sb.WriteString("(output layer)")
			}
		}
		if c.Coalesce {
			sb.WriteString("\nCoalesce was called for every predicate of the base layer before the evaluation")
		}
		if c.Layered {
			sb.WriteString("\ntemporal store: TeeingTemporalStore; the facts marked (output layer) were added through it, the unmarked ones sit in its base layer")
		}
		sb.WriteString("\nplain base facts:")
		for _, pf := range c.Plain {
			fmt.Fprintf(&sb, " %s%v", pf.Pred, pf.Args)
		}
		return sb.String()
	}
	switch {
	case out.panicked != "":
		run.Failf(f, "pipeline panicked: %s\n%s", out.panicked, describe())
	case out.parseErr != nil:
		run.Failf(f, "own printer produced text the parser rejects (harness or parser defect): %v\n%s", out.parseErr, describe())
	case out.analysisErr != nil:
		// the generator only builds shapes the analysis documents as legal (self-recursion is a warning);
		// counted so that the share stays visible.
		labels["rejected"] = true
		return finish()
	case out.evalErr != nil:
		run.Failf(f, "evaluation failed: %v\n%s", out.evalErr, describe())
	case len(out.malformed) > 0:
		run.Failf(f, "stores hold malformed facts: %v\n%s", out.malformed, describe())
	}
	missT, extraT := diff(ref.temporalKeys(), out.temporal)
	missP, extraP := diff(ref.plainKeys(), out.plain)
	if len(missT)+len(extraT)+len(missP)+len(extraP) > 0 {
		run.Failf(f, "stores differ from the documented meaning.\ntemporal facts missing: %v\ntemporal facts not derivable: %v\nplain facts missing: %v\nplain facts not derivable: %v\n%s",
			missT, extraT, missP, extraP, describe())
	}
	v.nontrivial = ref.nontrivial
	return finish()
}

// layerLabels describes how the base facts are spread over the two layers of a layered store.
func (c Case) layerLabels() map[string]bool {
	labels := map[string]bool{}
	if c.Coalesce {
		labels["coalesce-called-before-evaluation"] = true
	}
	if !c.Layered {
		return labels
	}
	labels["layered-store"] = true
	type layers struct{ base, out bool }
	atoms := map[string]*layers{}
	split := map[string]bool{} // predicates with an atom that has intervals in both layers
	for _, f := range c.Temporal {
		k := fmt.Sprint(f.Pred, f.Args)
		if atoms[k] == nil {
			atoms[k] = &layers{}
		}
		if f.InText || f.Out {
			atoms[k].out = true
		} else {
			atoms[k].base = true
		}
		if atoms[k].base && atoms[k].out {
			split[f.Pred] = true
		}
	}
	if len(split) > 0 {
		labels["layered:atom-with-intervals-in-both-layers"] = true
	}
	for _, r := range c.Rules {
		for _, l := range r.Body {
			if l.K != "t" || !split[l.Pred] {
				continue
			}
			// the literals answered from a scan of all stored intervals of the atom
			if l.Op == "[-" || l.Op == "[+" {
				labels["layered:box-over-atom-in-both-layers"] = true
			}
			if l.Ann != nil && (l.Ann.Lo.K == "var" || l.Ann.Hi.K == "var" || l.Ann.Lo.K == "inf" || l.Ann.Hi.K == "inf") {
				labels["layered:variable-annotation-over-atom-in-both-layers"] = true
			}
		}
	}
	return labels
}

// malformed rejects cases the generator cannot produce (hand-edited replay files).
func (c Case) malformed() string {
	arity := map[string]int{}
	for _, p := range c.preds() {
		arity[p.name] = p.arity
	}
	use := func(name string, n int, temporal bool) string {
		if arity[name] != n {
			return fmt.Sprintf("predicate %s used with arities %d and %d", name, arity[name], n)
		}
		if isTemporalPred(name) != temporal {
			return fmt.Sprintf("predicate %s: temporal predicates are exactly those named t…", name)
		}
		return ""
	}
	for _, tf := range c.Temporal {
		if why := use(tf.Pred, len(tf.Args), true); why != "" {
			return why
		}
		if !tf.Iv.LoInf && !tf.Iv.HiInf && tf.Iv.Lo > tf.Iv.Hi {
			return "base interval with start > end"
		}
	}
	for _, pf := range c.Plain {
		if why := use(pf.Pred, len(pf.Args), false); why != "" {
			return why
		}
	}
	for _, r := range c.Rules {
		if why := use(r.Pred, len(r.Args), r.Ann != nil); why != "" {
			return why
		}
		for _, l := range r.Body {
			switch l.K {
			case "t":
				if why := use(l.Pred, len(l.Args), true); why != "" {
					return why
				}
				if l.Op == "" && l.Ann == nil {
					return "temporal literal without operator and annotation"
				}
			case "e":
				if why := use(l.Pred, len(l.Args), false); why != "" {
					return why
				}
			case "plus", "lt":
			default:
				return "unknown literal kind " + l.K
			}
		}
	}
	return ""
}

func TestC14(t *testing.T) {
	run := stats.Begin("C14", "TestC14")
	defer run.Finish(t)
	rapid.Check(t, func(rt *rapid.T) {
		c := genCase(rt)
		run.Current(c)
		v := check(run, rt, c)
		run.Case(v.nontrivial, c.hash(), v.labels...)
		if v.nontrivial {
			run.Sample("program", c)
		}
	})
}

func TestReplay(t *testing.T) {
	switch stats.ReplayTest() {
	case "TestC14_Relations":
		var c RelCase
		if !stats.LoadReplay(t, &c) {
			return
		}
		run := stats.Begin("C14", "TestReplay")
		checkRel(run, t, c)
	default:
		var c Case
		if !stats.LoadReplay(t, &c) {
			return
		}
		run := stats.Begin("C14", "TestReplay")
		check(run, t, c)
	}
}
