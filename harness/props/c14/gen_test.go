package c14

import (
	"fmt"
	"sort"

	"pgregory.net/rapid"
)

// Generator. Everything is constructed (no rejection): base facts are coalesced per atom by construction
// (disjoint, at least one second between two intervals, an unbounded interval only as the first/last one) - except
// in the shared-start cases below -, windows satisfy 0 <= d1 <= d2, every variable is bound before it is used,
// argument values are the plainly different numbers 1..5 (the temporal store keys atoms by Atom.Hash(), known
// finding K08). The order of Case.Temporal is the insertion order into the store.
//
// A quarter of the cases has 1-2 dense atoms (6-12 disjoint intervals, inserted in a generated order: the
// interval tree has rotated), an eighth has intervals of one atom that share their start (overlapping base data;
// judged only through constructs whose meaning does not depend on coalescing, see ref_test.go). In both the
// evaluation time sits on an interval end of that atom +-1 s and the windows are short and placed on its ends.
//
// Predicates: ta/1, tb/1 hold intervals (also single instants and unbounded ones), tev/1, tfv/1 hold single
// instants only, tp/1 is the predicate of the self-recursive rules (base facts plus derived ones), e/2 is an
// ordinary relation; heads are q, r (ordinary) and tq, tr (temporal).

type source struct {
	pred  string
	arity int
	point bool // all stored intervals are single instants (by construction)
	times bool // ordinary predicate whose 2nd/3rd argument carry time values
}

type gctx struct {
	t      *rapid.T
	c      *Case
	nvar   int
	nums   []string    // bound number variables
	pairs  [][2]string // bound (start, end) time variables
	points []string    // bound time variables known to come from single instants
	starts []string    // bound start-only variables
	ends   []string    // bound end-only variables
	// focus: the predicate (and atom argument) that carries a dense atom or intervals with a shared start; the
	// rules of such a case mostly read it, with short windows placed on its interval ends.
	focus    *source
	focusArg int64
	special  []int64 // interval ends of the focus atom
}

func (g *gctx) fresh(prefix string) string {
	g.nvar++
	return fmt.Sprintf("%s%d", prefix, g.nvar)
}

func (g *gctx) reset() {
	g.nums, g.pairs, g.points, g.starts, g.ends = nil, nil, nil, nil, nil
}

func has(xs []string, x string) bool {
	for _, y := range xs {
		if x == y {
			return true
		}
	}
	return false
}

// genIntervals draws the coalesced interval list of one atom.
func genIntervals(t *rapid.T, point bool) []Iv {
	if !point && rapid.IntRange(0, 24).Draw(t, "eternal") == 17 {
		return []Iv{{LoInf: true, HiInf: true}}
	}
	n := rapid.IntRange(1, 3).Draw(t, "nintervals")
	pos := rapid.Int64Range(0, 14).Draw(t, "first")
	var ivs []Iv
	for i := 0; i < n; i++ {
		length := int64(0)
		if !point {
			length = rapid.Int64Range(0, 8).Draw(t, "len")
		}
		ivs = append(ivs, Iv{Lo: pos, Hi: pos + length})
		pos += length + rapid.Int64Range(1, 6).Draw(t, "gap")
	}
	if !point {
		if rapid.IntRange(0, 7).Draw(t, "leftinf") == 5 {
			ivs[0].LoInf, ivs[0].Lo = true, 0
		}
		if rapid.IntRange(0, 7).Draw(t, "rightinf") == 5 {
			ivs[len(ivs)-1].HiInf, ivs[len(ivs)-1].Hi = true, 0
		}
	}
	return ivs
}

func (g *gctx) genBaseFacts(pred string, point bool) {
	n := rapid.IntRange(2, 3).Draw(g.t, "natoms")
	args := rapid.Permutation([]int64{1, 2, 3}).Draw(g.t, "atomargs")[:n]
	sort.Slice(args, func(i, j int) bool { return args[i] < args[j] })
	for _, a := range args {
		for _, iv := range genIntervals(g.t, point) {
			g.c.Temporal = append(g.c.Temporal, TFact{Pred: pred, Args: []int64{a}, Iv: iv})
		}
	}
}

// genDense gives one or two atoms of a base predicate 6-12 pairwise disjoint, non-adjacent intervals (replacing
// what the atom had), put into the store in a generated order.
func (g *gctx) genDense(base []source) {
	s := rapid.SampledFrom(base).Draw(g.t, "densepred")
	natoms := 1
	if rapid.IntRange(0, 3).Draw(g.t, "twodense") == 2 {
		natoms = 2
	}
	args := rapid.Permutation([]int64{1, 2, 3}).Draw(g.t, "denseargs")[:natoms]
	for ai, arg := range args {
		var kept []TFact
		for _, f := range g.c.Temporal {
			if f.Pred != s.pred || f.Args[0] != arg {
				kept = append(kept, f)
			}
		}
		n := rapid.IntRange(6, 12).Draw(g.t, "ndense")
		pos := rapid.Int64Range(0, 6).Draw(g.t, "densefirst")
		var ivs []Iv
		for i := 0; i < n; i++ {
			length := int64(0)
			if !s.point {
				length = rapid.Int64Range(0, 3).Draw(g.t, "denselen")
			}
			ivs = append(ivs, Iv{Lo: pos, Hi: pos + length})
			pos += length + rapid.Int64Range(1, 4).Draw(g.t, "densegap")
		}
		if rapid.IntRange(0, 3).Draw(g.t, "ascending") > 0 {
			ivs = rapid.Permutation(ivs).Draw(g.t, "denseorder")
		}
		for _, iv := range ivs {
			kept = append(kept, TFact{Pred: s.pred, Args: []int64{arg}, Iv: iv})
			if ai == 0 {
				g.special = append(g.special, iv.Lo, iv.Hi)
			}
		}
		g.c.Temporal = kept
	}
	g.focus, g.focusArg = &s, args[0]
}

// genSharedStart adds to a finite interval of an interval predicate one or two more intervals of the same atom
// with the same start and another end, before or after it in insertion order.
func (g *gctx) genSharedStart(base []source) {
	var idx []int
	for i, f := range g.c.Temporal {
		if (f.Pred == "ta" || f.Pred == "tb") && !f.Iv.LoInf && !f.Iv.HiInf {
			idx = append(idx, i)
		}
	}
	if len(idx) == 0 {
		return
	}
	i := rapid.SampledFrom(idx).Draw(g.t, "sharedwith")
	f := g.c.Temporal[i]
	n := rapid.IntRange(1, 2).Draw(g.t, "nshared")
	seen := map[int64]bool{f.Iv.Hi: true}
	g.special = append(g.special, f.Iv.Lo, f.Iv.Lo, f.Iv.Hi) // the shared start twice: the likely evaluation time
	for k := 0; k < n; k++ {
		hi := f.Iv.Hi + rapid.Int64Range(-4, 4).Draw(g.t, "sharedend")
		if hi < f.Iv.Lo {
			hi = f.Iv.Lo
		}
		if seen[hi] {
			hi = f.Iv.Hi + 5 + int64(k)
		}
		seen[hi] = true
		twin := TFact{Pred: f.Pred, Args: f.Args, Iv: Iv{Lo: f.Iv.Lo, Hi: hi}}
		at := rapid.IntRange(0, len(g.c.Temporal)).Draw(g.t, "sharedpos")
		g.c.Temporal = append(g.c.Temporal[:at], append([]TFact{twin}, g.c.Temporal[at:]...)...)
		g.special = append(g.special, hi)
	}
	for _, s := range base {
		if s.pred == f.Pred {
			s := s
			g.focus, g.focusArg = &s, f.Args[0]
		}
	}
}

// endpoints lists the finite interval ends of the base facts of pred (all temporal base facts if there are none).
func (g *gctx) endpoints(pred string) []int64 {
	var xs []int64
	for pass := 0; pass < 2 && len(xs) == 0; pass++ {
		for _, f := range g.c.Temporal {
			if pass == 0 && f.Pred != pred {
				continue
			}
			if !f.Iv.LoInf {
				xs = append(xs, f.Iv.Lo)
			}
			if !f.Iv.HiInf {
				xs = append(xs, f.Iv.Hi)
			}
		}
	}
	if len(xs) == 0 {
		xs = []int64{g.c.Now}
	}
	return xs
}

const maxWindow = 14

// genOperator draws an operator and its window 0 <= d1 <= d2. Most windows are aimed at the data of pred: an
// end of the window on an end of a stored interval (also one second off), or the whole window inside a stored
// interval with one end on its end (also sticking out by a second); the direction follows the target.
func (g *gctx) genOperator(pred string, allowFuture bool) (string, int64, int64) {
	box := rapid.Bool().Draw(g.t, "box")
	past := !allowFuture || rapid.Bool().Draw(g.t, "past")
	d1 := rapid.Int64Range(0, maxWindow).Draw(g.t, "d1")
	d2 := rapid.Int64Range(0, maxWindow).Draw(g.t, "d2")
	usable := func(d int64) bool { return d >= 0 && d <= maxWindow+10 }
	// direction: towards the instant x if the rule may look that way
	turn := func(x int64) {
		if allowFuture {
			past = x <= g.c.Now
		}
	}
	dist := func(x int64) int64 {
		if past {
			return g.c.Now - x
		}
		return x - g.c.Now
	}
	tight := g.focus != nil && g.focus.pred == pred
	switch aim := rapid.IntRange(0, 11).Draw(g.t, "aim"); {
	case aim < 5: // one end of the window on (aim 4: next to) an interval end
		ends := g.endpoints(pred)
		if tight {
			// interval ends of the focus atom within reach of a window
			var near []int64
			for _, x := range g.special {
				if x-g.c.Now <= maxWindow+10 && g.c.Now-x <= maxWindow+10 {
					near = append(near, x)
				}
			}
			if len(near) > 0 {
				ends = near
			}
		}
		x := rapid.SampledFrom(ends).Draw(g.t, "endpoint")
		if aim == 4 {
			x += rapid.Int64Range(-1, 1).Draw(g.t, "jitter")
		}
		turn(x)
		if d := dist(x); usable(d) {
			// tight: the other end of the window at most 2 s away, so that few intervals are met
			k := rapid.Int64Range(0, 2).Draw(g.t, "tightlen")
			if aim%2 == 0 {
				d1 = d
				if tight {
					d2 = d + k
				}
			} else {
				d2 = d
				if tight {
					d1 = d - k
					if d1 < 0 {
						d1 = 0
					}
				}
			}
		}
	case aim < 10: // the window inside a stored interval, one end on its end (aim 9: sticking out by a second)
		var fs []TFact
		for _, f := range g.c.Temporal {
			if f.Pred == pred {
				fs = append(fs, f)
			}
		}
		if len(fs) == 0 {
			break
		}
		f := rapid.SampledFrom(fs).Draw(g.t, "inside")
		lo, hi := f.Iv.Lo, f.Iv.Hi
		if f.Iv.LoInf {
			lo = hi - 30
		}
		if f.Iv.HiInf {
			hi = lo + 30
		}
		if f.Iv.LoInf && f.Iv.HiInf {
			lo, hi = g.c.Now-20, g.c.Now+20
		}
		// keep the part on one side of the evaluation time
		if lo < g.c.Now && g.c.Now < hi {
			if !allowFuture || rapid.Bool().Draw(g.t, "pastpart") {
				hi = g.c.Now
			} else {
				lo = g.c.Now
			}
		}
		turn(lo)
		shrink := rapid.Int64Range(0, hi-lo).Draw(g.t, "shrink")
		if aim%2 == 0 {
			lo += shrink
		} else {
			hi -= shrink
		}
		if aim == 9 {
			if rapid.Bool().Draw(g.t, "stickleft") {
				lo--
			} else {
				hi++
			}
		}
		a, b := dist(lo), dist(hi)
		if a > b {
			a, b = b, a
		}
		if usable(a) && usable(b) {
			d1, d2 = a, b
		}
	}
	if rapid.IntRange(0, 7).Draw(g.t, "zerolen") == 6 {
		d2 = d1
	}
	if d1 > d2 {
		d1, d2 = d2, d1
	}
	op := map[[2]bool]string{{false, true}: "<-", {true, true}: "[-", {false, false}: "<+", {true, false}: "[+"}[[2]bool{box, past}]
	return op, d1, d2
}

func (g *gctx) genTick(pred string) int64 {
	if rapid.IntRange(0, 3).Draw(g.t, "tickmode") > 0 {
		x := rapid.SampledFrom(g.endpoints(pred)).Draw(g.t, "endpoint") + rapid.Int64Range(-1, 1).Draw(g.t, "jitter")
		if x >= 0 && x <= 110 {
			return x
		}
	}
	return rapid.Int64Range(0, 45).Draw(g.t, "tick")
}

// genArgs draws the argument terms of a body literal and records the bound number variables.
func (g *gctx) genArgs(s source, joinVar string) []Term {
	args := make([]Term, s.arity)
	for i := range args {
		switch r := rapid.IntRange(0, 9).Draw(g.t, "argkind"); {
		case i == 0 && r < 7:
			args[i] = Term{V: joinVar}
		case i == 0 && r == 7:
			args[i] = Term{V: "_"}
		case i == 0 && g.focus != nil && g.focus.pred == s.pred && rapid.Bool().Draw(g.t, "focusarg"):
			args[i] = Term{N: g.focusArg}
		case i == 0:
			args[i] = Term{N: rapid.Int64Range(1, 3).Draw(g.t, "argconst")}
		case s.times:
			args[i] = Term{V: g.fresh("A")}
		default:
			args[i] = Term{V: "Y"}
		}
	}
	if s.times && s.arity == 3 {
		g.pairs = append(g.pairs, [2]string{args[1].V, args[2].V})
	}
	for i, a := range args {
		if a.V != "" && a.V != "_" && !(s.times && i > 0) && !has(g.nums, a.V) {
			g.nums = append(g.nums, a.V)
		}
	}
	return args
}

// genTemporalLit draws a temporal body literal over s.
func (g *gctx) genTemporalLit(s source, joinVar string, allowFuture bool) Lit {
	l := Lit{K: "t", Pred: s.pred, Args: g.genArgs(s, joinVar)}
	freshPair := func() *Ann {
		a, b := g.fresh("S"), g.fresh("E")
		g.pairs = append(g.pairs, [2]string{a, b})
		return &Ann{Lo: Bound{K: "var", V: a}, Hi: Bound{K: "var", V: b}}
	}
	shape := rapid.IntRange(0, 19).Draw(g.t, "litshape")
	if (len(g.points) > 0 && s.point || len(g.pairs) > 0) && rapid.Bool().Draw(g.t, "usebound") {
		shape = 19 // reuse time variables of an earlier literal
	}
	if g.focus != nil && g.focus.pred == s.pred {
		switch r := rapid.IntRange(0, 9).Draw(g.t, "focusshape"); {
		case r < 5:
			shape = 7 // operator whose annotation binds the stored interval
		case r < 8:
			shape = 0 // operator
		}
	}
	if s.point && (shape == 9 || shape == 10) && rapid.Bool().Draw(g.t, "pointsource") {
		shape = 11 // the point form on a predicate of single instants
	}
	switch {
	case shape < 9: // operator
		l.Op, l.D1, l.D2 = g.genOperator(s.pred, allowFuture)
		l.MS = rapid.IntRange(0, 7).Draw(g.t, "ms") == 6
		if s.point && (l.Op == "[-" || l.Op == "[+") && rapid.IntRange(0, 3).Draw(g.t, "pointbox") > 0 {
			l.D1 = l.D2 // a single instant can only hold throughout a window of length zero
		}
		if shape >= 7 {
			l.Ann = freshPair()
		}
	case shape < 11:
		l.Ann = freshPair()
	case shape == 11:
		if s.point {
			v := g.fresh("T")
			g.points = append(g.points, v)
			l.Ann = &Ann{Lo: Bound{K: "var", V: v}, Hi: Bound{K: "var", V: v}, Point: rapid.Bool().Draw(g.t, "pointform")}
		} else {
			l.Ann = freshPair()
		}
	case shape == 12: // half annotation
		if rapid.Bool().Draw(g.t, "halfstart") {
			v := g.fresh("S")
			g.starts = append(g.starts, v)
			l.Ann = &Ann{Lo: Bound{K: "var", V: v}, Hi: Bound{K: "inf"}}
		} else {
			v := g.fresh("E")
			g.ends = append(g.ends, v)
			l.Ann = &Ann{Lo: Bound{K: "inf"}, Hi: Bound{K: "var", V: v}}
		}
	case shape < 15: // point query: time stamp or now
		b := Bound{K: "now"}
		if rapid.Bool().Draw(g.t, "stamp") {
			b = Bound{K: "ts", T: g.genTick(s.pred)}
		}
		l.Ann = &Ann{Lo: b, Hi: b, Point: rapid.Bool().Draw(g.t, "pointform")}
	case shape < 17: // interval query with time stamps / now
		lo, hi := g.genTick(s.pred), g.genTick(s.pred)
		if lo > hi {
			lo, hi = hi, lo
		}
		a := &Ann{Lo: Bound{K: "ts", T: lo}, Hi: Bound{K: "ts", T: hi}}
		switch rapid.IntRange(0, 3).Draw(g.t, "withnow") {
		case 0:
			if lo <= g.c.Now {
				a.Hi = Bound{K: "now"}
			}
		case 1:
			if g.c.Now <= hi {
				a.Lo = Bound{K: "now"}
			}
		}
		l.Ann = a
	default: // variables bound by an earlier literal
		switch {
		case len(g.points) > 0 && s.point:
			v := rapid.SampledFrom(g.points).Draw(g.t, "boundpoint")
			l.Ann = &Ann{Lo: Bound{K: "var", V: v}, Hi: Bound{K: "var", V: v}, Point: rapid.Bool().Draw(g.t, "pointform")}
		case len(g.pairs) > 0:
			p := rapid.SampledFrom(g.pairs).Draw(g.t, "boundpair")
			l.Ann = &Ann{Lo: Bound{K: "var", V: p[0]}, Hi: Bound{K: "var", V: p[1]}}
		default:
			l.Ann = freshPair()
		}
	}
	return l
}

// genHeadAnn draws a head annotation from the time variables bound by the body.
func (g *gctx) genHeadAnn() *Ann {
	v := func(name string) Bound { return Bound{K: "var", V: name} }
	now, inf := Bound{K: "now"}, Bound{K: "inf"}
	ts := func() Bound { return Bound{K: "ts", T: rapid.Int64Range(0, 45).Draw(g.t, "headtick")} }
	var options []*Ann
	add := func(a *Ann, weight int) {
		for i := 0; i < weight; i++ {
			options = append(options, a)
		}
	}
	for _, p := range g.pairs {
		add(&Ann{Lo: v(p[0]), Hi: v(p[1])}, 6)
		add(&Ann{Lo: v(p[0]), Hi: v(p[0]), Point: true}, 1)
		add(&Ann{Lo: v(p[1]), Hi: v(p[1]), Point: true}, 1)
		add(&Ann{Lo: v(p[0]), Hi: inf}, 2)
		add(&Ann{Lo: inf, Hi: v(p[1])}, 2)
		add(&Ann{Lo: v(p[0]), Hi: now}, 1) // start > end possible: no verdict then
		add(&Ann{Lo: now, Hi: v(p[1])}, 1)
	}
	for _, p := range g.points {
		add(&Ann{Lo: v(p), Hi: v(p), Point: true}, 5)
		add(&Ann{Lo: v(p), Hi: v(p)}, 2)
		add(&Ann{Lo: v(p), Hi: inf}, 1)
		add(&Ann{Lo: inf, Hi: v(p)}, 1)
	}
	for _, s := range g.starts {
		add(&Ann{Lo: v(s), Hi: inf}, 4)
		add(&Ann{Lo: v(s), Hi: v(s), Point: true}, 2)
	}
	for _, e := range g.ends {
		add(&Ann{Lo: inf, Hi: v(e)}, 4)
		add(&Ann{Lo: now, Hi: v(e)}, 1)
	}
	add(&Ann{Lo: now, Hi: now, Point: true}, 4)
	add(&Ann{Lo: now, Hi: inf}, 2)
	add(&Ann{Lo: inf, Hi: now}, 2)
	add(&Ann{Lo: inf, Hi: inf}, 1)
	a := *rapid.SampledFrom(options).Draw(g.t, "headann")
	if rapid.IntRange(0, 9).Draw(g.t, "headconst") == 0 {
		lo, hi := ts(), ts()
		if lo.T > hi.T {
			lo, hi = hi, lo
		}
		switch rapid.IntRange(0, 3).Draw(g.t, "headconstshape") {
		case 0:
			a = Ann{Lo: lo, Hi: lo, Point: true}
		case 1:
			a = Ann{Lo: lo, Hi: hi}
		case 2:
			if lo.T <= g.c.Now {
				a = Ann{Lo: lo, Hi: now}
			}
		default:
			a = Ann{Lo: lo, Hi: inf}
		}
	}
	return &a
}

// genRule draws a rule for head over the given sources.
func (g *gctx) genRule(head string, sources []source, mustUse *source, allowFuture bool) Rule {
	g.reset()
	r := Rule{Pred: head}
	nlits := 1
	if rapid.IntRange(0, 9).Draw(g.t, "twolits") > 6 {
		nlits = 2
	}
	for i := 0; i < nlits; i++ {
		s := rapid.SampledFrom(sources).Draw(g.t, "source")
		if i == 0 && mustUse != nil {
			s = *mustUse
		} else if i == 0 && g.focus != nil && rapid.IntRange(0, 3).Draw(g.t, "usefocus") > 0 {
			s = *g.focus
		}
		join := "X"
		if i > 0 && rapid.IntRange(0, 4).Draw(g.t, "nojoin") == 0 {
			join = "Z"
		}
		if isTemporalPred(s.pred) {
			r.Body = append(r.Body, g.genTemporalLit(s, join, allowFuture))
		} else {
			r.Body = append(r.Body, Lit{K: "e", Pred: s.pred, Args: g.genArgs(s, join)})
		}
	}
	g.finishHead(&r)
	return r
}

// finishHead draws head arguments and annotation from what the body binds.
func (g *gctx) finishHead(r *Rule) {
	arg := Term{N: rapid.Int64Range(1, 4).Draw(g.t, "headconstarg")}
	if len(g.nums) > 0 && rapid.IntRange(0, 9).Draw(g.t, "headargconst") > 0 {
		arg = Term{V: rapid.SampledFrom(g.nums).Draw(g.t, "headvar")}
	}
	r.Args = []Term{arg}
	if isTemporalPred(r.Pred) {
		r.Ann = g.genHeadAnn()
		return
	}
	// ordinary head: q(X) or q(X, S, E) carrying the interval ends as time values.
	if len(g.pairs) > 0 && (rapid.IntRange(0, 2).Draw(g.t, "headtimes") == 0 || g.focus != nil && rapid.Bool().Draw(g.t, "focusheadtimes")) {
		p := rapid.SampledFrom(g.pairs).Draw(g.t, "headpair")
		r.Args = append(r.Args, Term{V: p[0]}, Term{V: p[1]})
	}
}

// genRecursive draws a self-recursive rule for tp: a temporal literal over tp (sometimes two), then e(X, Y) or
// Y = fn:plus(X, 1), X < k, and the head tp(Y)@…; with the matching annotation in head and body most of the time.
func (g *gctx) genRecursive(point bool) Rule {
	g.reset()
	s := source{pred: "tp", arity: 1, point: point}
	r := Rule{Pred: "tp"}
	l := g.genTemporalLit(s, "X", false)
	if l.Args[0].V != "X" {
		l.Args[0] = Term{V: "X"}
		g.nums = append(g.nums, "X")
	}
	r.Body = append(r.Body, l)
	if rapid.IntRange(0, 4).Draw(g.t, "nonlinear") == 3 {
		// a second literal over tp (non-linear recursion), joined on X or free
		join := "Z"
		if rapid.Bool().Draw(g.t, "joinx") {
			join = "X"
		}
		r.Body = append(r.Body, g.genTemporalLit(s, join, false))
	}
	if rapid.IntRange(0, 2).Draw(g.t, "arith") == 0 {
		r.Body = append(r.Body, Lit{K: "plus", X: "X", Y: "Y", N: 1}, Lit{K: "lt", X: "X", N: rapid.Int64Range(2, 5).Draw(g.t, "limit")})
	} else {
		r.Body = append(r.Body, Lit{K: "e", Pred: "e", Args: []Term{{V: "X"}, {V: "Y"}}})
	}
	r.Args = []Term{{V: "Y"}}
	// head annotation: repeat the body annotation if it is one a head can carry, else draw one.
	if l.Ann != nil && l.Op == "" && rapid.IntRange(0, 3).Draw(g.t, "sameann") > 0 {
		a := *l.Ann
		r.Ann = &a
	} else {
		r.Ann = g.genHeadAnn()
	}
	return r
}

func (g *gctx) genEdges() {
	n := rapid.IntRange(1, 5).Draw(g.t, "nedges")
	seen := map[[2]int64]bool{}
	for i := 0; i < n; i++ {
		a := rapid.Int64Range(1, 5).Draw(g.t, "from")
		b := rapid.Int64Range(1, 5).Draw(g.t, "to")
		if rapid.IntRange(0, 2).Draw(g.t, "chain") > 0 {
			b = a%5 + 1
		}
		if !seen[[2]int64{a, b}] {
			seen[[2]int64{a, b}] = true
			g.c.Plain = append(g.c.Plain, PFact{Pred: "e", Args: []int64{a, b}})
		}
	}
}

// swapOperator turns a diamond into the box over the same window and vice versa.
func swapOperator(op string) string {
	switch op {
	case "<-":
		return "[-"
	case "[-":
		return "<-"
	case "<+":
		return "[+"
	case "[+":
		return "<+"
	}
	return op
}

func genCase(t *rapid.T) Case {
	var c Case
	g := &gctx{t: t, c: &c}
	base := []source{{pred: "ta", arity: 1}, {pred: "tb", arity: 1}, {pred: "tev", arity: 1, point: true}, {pred: "tfv", arity: 1, point: true}}
	all, base := base, nil
	for _, s := range all {
		if s.pred == "ta" || rapid.IntRange(0, 3).Draw(t, "haspred") > 0 {
			g.genBaseFacts(s.pred, s.point)
			base = append(base, s)
		}
	}
	// the evaluation time lies near the data.
	c.Now = rapid.SampledFrom(g.endpoints("")).Draw(t, "nownear") + rapid.Int64Range(-12, 12).Draw(t, "nowoffset")
	switch rapid.IntRange(0, 7).Draw(t, "special") {
	case 2, 5: // a quarter of the cases: dense atoms
		g.genDense(base)
	case 3: // intervals of one atom that share their start (the store is not coalesced then)
		g.genSharedStart(base)
	}
	if len(g.special) > 0 {
		// the evaluation time on an interval end of the focus atom or a second off
		c.Now = rapid.SampledFrom(g.special).Draw(t, "nowspecial") + rapid.Int64Range(-1, 1).Draw(t, "nowjitter")
	}
	if c.Now < 2 {
		c.Now = 2
	}
	headSource := func(r Rule) source {
		return source{pred: r.Pred, arity: len(r.Args), times: len(r.Args) == 3}
	}
	pick := func(temporalName, plainName string) string {
		if rapid.Bool().Draw(t, "temporalhead") {
			return temporalName
		}
		return plainName
	}
	shape := rapid.IntRange(0, 9).Draw(t, "progshape")
	if shape < 8 && rapid.IntRange(0, 3).Draw(t, "edges") == 0 {
		g.genEdges()
		base = append(base, source{pred: "e", arity: 2})
	}
	switch {
	case shape < 3: // one rule
		c.Rules = []Rule{g.genRule(pick("tq", "q"), base, nil, true)}
	case shape < 5: // two independent rules; often the second is the first with diamond and box exchanged
		r1 := g.genRule(pick("tq", "q"), base, nil, true)
		var r2 Rule
		twin := false
		if rapid.Bool().Draw(t, "twin") {
			r2 = Rule{Pred: "r", Args: r1.Args, Ann: r1.Ann}
			if r1.Ann != nil {
				r2.Pred = "tr"
			}
			for _, l := range r1.Body {
				if l.Op != "" {
					twin = true
				}
				l.Op = swapOperator(l.Op)
				r2.Body = append(r2.Body, l)
			}
		}
		if !twin {
			r2 = g.genRule(pick("tr", "r"), base, nil, true)
		}
		c.Rules = []Rule{r1, r2}
	case shape < 7: // chain: the second rule reads what the first derives
		r1 := g.genRule(pick("tq", "q"), base, nil, true)
		hs := headSource(r1)
		r2 := g.genRule(pick("tr", "r"), append([]source{hs}, base...), &hs, true)
		c.Rules = []Rule{r1, r2}
	case shape == 7: // two rules for one head
		head := pick("tq", "q")
		r1 := g.genRule(head, base, nil, true)
		r2 := g.genRule(head, base, nil, true)
		if len(r1.Args) != len(r2.Args) {
			r1.Args, r2.Args = r1.Args[:1], r2.Args[:1]
		}
		c.Rules = []Rule{r1, r2}
	default: // self-recursive rule over tp, alone or fed by a first rule
		point := rapid.IntRange(0, 2).Draw(t, "pointfacts") == 0
		g.genBaseFacts("tp", point)
		g.genEdges()
		rec := g.genRecursive(point)
		if rapid.IntRange(0, 2).Draw(t, "feeder") == 0 {
			feeder := g.genRule("tp", base, nil, true)
			c.Rules = []Rule{feeder, rec}
		} else {
			c.Rules = []Rule{rec}
		}
	}
	if rapid.IntRange(0, 3).Draw(t, "factsintext") == 2 {
		for i := range c.Temporal {
			c.Temporal[i].InText = rapid.Bool().Draw(t, "intext")
		}
	}
	if rapid.IntRange(0, 2).Draw(t, "layered") == 0 {
		g.genLayers()
	}
	// only where Coalesce has nothing to merge: the oracle compares the stored intervals exactly
	c.Coalesce = rapid.IntRange(0, 2).Draw(t, "coalesce") == 0 && baseCoalesced(&c)
	c.Text = c.Source()
	return c
}

// genLayers spreads the base facts over the two layers of a teeing store: every fact lands in the base or the
// output layer by a coin; an atom with two or more intervals mostly (7 of 8) gets at least one interval in each
// layer (one of them is taken out of the program text if need be).
func (g *gctx) genLayers() {
	c := g.c
	c.Layered = true
	type atomID struct {
		pred string
		arg  int64
	}
	byAtom := map[atomID][]int{}
	var order []atomID
	for i := range c.Temporal {
		c.Temporal[i].Out = rapid.Bool().Draw(g.t, "outlayer")
		k := atomID{c.Temporal[i].Pred, c.Temporal[i].Args[0]}
		if _, ok := byAtom[k]; !ok {
			order = append(order, k)
		}
		byAtom[k] = append(byAtom[k], i)
	}
	for _, k := range order {
		idx := byAtom[k]
		if len(idx) < 2 || rapid.IntRange(0, 7).Draw(g.t, "nosplit") == 0 {
			continue
		}
		pair := rapid.Permutation(idx).Draw(g.t, "splitpair")
		c.Temporal[pair[0]].Out, c.Temporal[pair[0]].InText = false, false
		c.Temporal[pair[1]].Out = true
	}
}

// baseCoalesced: no two intervals that the base layer holds for one atom overlap or are adjacent.
func baseCoalesced(c *Case) bool {
	type span struct{ lo, hi int64 }
	byAtom := map[string][]span{}
	for _, f := range c.Temporal {
		if f.InText || (c.Layered && f.Out) {
			continue
		}
		lo, hi := f.Iv.bounds()
		k := fmt.Sprint(f.Pred, f.Args)
		for _, o := range byAtom[k] {
			// disjoint and not adjacent: one ends at least two nanoseconds before the other starts
			before := hi < o.lo && o.lo-hi >= 2
			after := o.hi < lo && lo-o.hi >= 2
			if !before && !after {
				return false
			}
		}
		byAtom[k] = append(byAtom[k], span{lo, hi})
	}
	return true
}
