package c14

import (
	"fmt"
	"math"
	"sort"

	"codeberg.org/TauCeti/mangle-go/ast"
	"verif/val"
)

// The reference evaluator: the documented meaning of the temporal constructs (readthedocs/temporal.md),
// instants are int64 nanoseconds, intervals are closed, an unbounded end is the sentinel MinInt64/MaxInt64.
//
//	<-[d1,d2] p(..)   window W = [now-d2, now-d1]; holds for the stored atoms with an interval meeting W
//	[-[d1,d2] p(..)   same W; holds for the stored atoms with one interval containing W
//	<+ / [+           W = [now+d1, now+d2]
//	p(..)@[S,E]       S, E fresh variables: one solution per stored interval of a matching atom, S/E bound to its
//	                  first/last instant as time constants (MinInt64/MaxInt64 for an unbounded end)
//	p(..)@[_,E], @[S,_]   fresh variable and the wildcard: as above, binding one end (docs: license(L)@[_, End])
//	p(..)@[T]         T fresh: the point form; solutions for stored single-instant intervals
//	p(..)@[c1,c2], @[c], @[now]   time stamps/now: p holds throughout the closed interval / at the instant
//	p(..)@[T], @[S,E] variables already bound: like the constant form with their values
//	operator + annotation with fresh variables: the operator selects, the annotation binds the stored interval
//	head annotation   the derived atom is stored with exactly the interval the bounds resolve to
//	                  (time stamp, now = evaluation time, _ = unbounded, variable = its value)
//
// Where the documentation leaves the meaning open, the case gets NO verdict (noVerdict, counted as inconclusive):
//   - "holds throughout W" is read as "one stored interval contains W"; on data that is not coalesced (derived
//     facts are stored as they are derived; base atoms with intervals sharing a start) an atom may hold
//     throughout W without one interval containing it;
//   - the point form p(..)@[T] with fresh T meeting an interval that is not a single instant (the tree binds T
//     to the start; "bind both start and end to the same variable" matches no such interval);
//   - an annotation whose variables are already bound: "enumerates the stored intervals" (equality) and "holds
//     throughout" (containment) are both defensible; a verdict is given only where they agree;
//   - one fresh variable together with a time stamp, now or a bound variable (the tree ignores the other bound),
//     the wildcard together with anything but a fresh variable, annotations with start > end, operator literals
//     annotated with anything but fresh variables;
//   - a head interval that resolves to start > end (the store refuses it, evaluation stops with an error),
//     or that takes the sentinel of an unbounded end into another position.
type refFact struct {
	pred   string
	args   []val.V
	lo, hi int64 // temporal facts only
	key    string
}

type refResult struct {
	c          Case
	temporal   map[string]refFact // by tkey
	plain      map[string]refFact // by atom key
	tOrder     []string           // insertion order of temporal keys (deterministic)
	pOrder     []string
	noVerdict  string
	labels     map[string]bool
	nontrivial bool
}

const refFactCap = 600

type env map[string]val.V

func (e env) with(k string, v val.V) env {
	n := make(env, len(e)+1)
	for a, b := range e {
		n[a] = b
	}
	n[k] = v
	return n
}

func atomKey(pred string, args []val.V) string {
	bs := make([]ast.BaseTerm, len(args))
	for i, a := range args {
		bs[i] = a.Build()
	}
	return val.AtomKey(ast.Atom{Predicate: ast.PredicateSym{Symbol: pred, Arity: len(args)}, Args: bs})
}

func numArgs(args []int64) []val.V {
	vs := make([]val.V, len(args))
	for i, a := range args {
		vs[i] = val.I(a)
	}
	return vs
}

func (r *refResult) addTemporal(pred string, args []val.V, lo, hi int64) bool {
	ak := atomKey(pred, args)
	k := tkey(ak, lo, hi)
	if _, ok := r.temporal[k]; ok {
		return false
	}
	r.temporal[k] = refFact{pred: pred, args: args, lo: lo, hi: hi, key: ak}
	r.tOrder = append(r.tOrder, k)
	return true
}

func (r *refResult) addPlain(pred string, args []val.V) bool {
	k := atomKey(pred, args)
	if _, ok := r.plain[k]; ok {
		return false
	}
	r.plain[k] = refFact{pred: pred, args: args, key: k}
	r.pOrder = append(r.pOrder, k)
	return true
}

func (r *refResult) temporalKeys() map[string]bool {
	m := map[string]bool{}
	for k := range r.temporal {
		m[k] = true
	}
	return m
}

func (r *refResult) plainKeys() map[string]bool {
	m := map[string]bool{}
	for k := range r.plain {
		m[k] = true
	}
	return m
}

// hashCollision: two different atoms of one temporal predicate with equal Atom.Hash() (known finding K08).
func (r *refResult) hashCollision() bool {
	seen := map[string]map[uint64]string{}
	for _, k := range r.tOrder {
		f := r.temporal[k]
		bs := make([]ast.BaseTerm, len(f.args))
		for i, a := range f.args {
			bs[i] = a.Build()
		}
		h := ast.Atom{Predicate: ast.PredicateSym{Symbol: f.pred, Arity: len(f.args)}, Args: bs}.Hash()
		m := seen[f.pred]
		if m == nil {
			m = map[uint64]string{}
			seen[f.pred] = m
		}
		if other, ok := m[h]; ok && other != f.key {
			return true
		}
		m[h] = f.key
	}
	return false
}

func (r *refResult) stop(why string) {
	if r.noVerdict == "" {
		r.noVerdict = why
	}
}

// unify matches literal arguments against a ground fact.
func unify(args []Term, fargs []val.V, e env) (env, bool) {
	if len(args) != len(fargs) {
		return nil, false
	}
	for i, t := range args {
		switch {
		case t.V == "_":
		case t.V != "":
			if b, ok := e[t.V]; ok {
				if b.Key() != fargs[i].Key() {
					return nil, false
				}
			} else {
				e = e.with(t.V, fargs[i])
			}
		default:
			if val.I(t.N).Key() != fargs[i].Key() {
				return nil, false
			}
		}
	}
	return e, true
}

func contains(lo, hi, qlo, qhi int64) bool { return lo <= qlo && qhi <= hi }
func meets(lo, hi, qlo, qhi int64) bool    { return lo <= qhi && qlo <= hi }

func anyContains(ivs [][2]int64, qlo, qhi int64) bool {
	for _, iv := range ivs {
		if contains(iv[0], iv[1], qlo, qhi) {
			return true
		}
	}
	return false
}

// coveredByUnion: do the intervals of one atom, taken together, contain every instant of [qlo, qhi]?
func coveredByUnion(ivs [][2]int64, qlo, qhi int64) bool {
	sort.Slice(ivs, func(i, j int) bool { return ivs[i][0] < ivs[j][0] })
	need := qlo // first instant not yet known to be covered
	for _, iv := range ivs {
		if iv[0] > need {
			return false
		}
		if iv[1] >= need {
			if iv[1] >= qhi {
				return true
			}
			need = iv[1] + 1 // iv[1] < qhi <= MaxInt64: no overflow
		}
	}
	return false
}

// boundValue resolves an annotation bound that is not a fresh variable.
func (r *refResult) boundValue(b Bound, e env, isStart bool) (int64, bool) {
	switch b.K {
	case "ts":
		return nanos(b.T), true
	case "now":
		return nanos(r.c.Now), true
	case "inf":
		if isStart {
			return math.MinInt64, true
		}
		return math.MaxInt64, true
	case "var":
		v, ok := e[b.V]
		if !ok || (v.T != val.Time && v.T != val.Num) {
			return 0, false
		}
		return v.Int(), true
	}
	return 0, false
}

func isFresh(b Bound, e env) bool {
	if b.K != "var" {
		return false
	}
	_, bound := e[b.V]
	return !bound
}

// intervalsOf collects the intervals the atom with the given key holds in the current state.
func (r *refResult) intervalsOf(key string) [][2]int64 {
	var ivs [][2]int64
	for _, k := range r.tOrder {
		if f := r.temporal[k]; f.key == key {
			ivs = append(ivs, [2]int64{f.lo, f.hi})
		}
	}
	return ivs
}

// solveTemporal yields the solutions of one temporal literal.
func (r *refResult) solveTemporal(l Lit, e env, emit func(env)) {
	type cand struct {
		f refFact
		e env
	}
	var cands []cand
	for _, k := range r.tOrder {
		f := r.temporal[k]
		if f.pred != l.Pred {
			continue
		}
		if e2, ok := unify(l.Args, f.args, e); ok {
			cands = append(cands, cand{f, e2})
		}
	}
	// how the annotation binds
	bind := func(c cand) (env, bool) { return c.e, true }
	if l.Ann != nil {
		lo, hi := l.Ann.Lo, l.Ann.Hi
		if l.Ann.Point {
			hi = lo
		}
		freshLo, freshHi := isFresh(lo, e), isFresh(hi, e)
		switch {
		case freshLo && freshHi && lo.V != hi.V:
			r.labels["ann-fresh"] = true
			bind = func(c cand) (env, bool) {
				return c.e.with(lo.V, val.T(c.f.lo)).with(hi.V, val.T(c.f.hi)), true
			}
		case freshLo && freshHi: // point form
			r.labels["ann-fresh-point"] = true
			bind = func(c cand) (env, bool) {
				if c.f.lo != c.f.hi {
					r.stop("point-form-on-interval")
					return nil, false
				}
				return c.e.with(lo.V, val.T(c.f.lo)), true
			}
		case freshLo && hi.K == "inf":
			r.labels["ann-half"] = true
			bind = func(c cand) (env, bool) { return c.e.with(lo.V, val.T(c.f.lo)), true }
		case freshHi && lo.K == "inf":
			r.labels["ann-half"] = true
			bind = func(c cand) (env, bool) { return c.e.with(hi.V, val.T(c.f.hi)), true }
		case freshLo || freshHi:
			r.stop("annotation-mixes-fresh-variable-and-value")
			return
		default: // both ends have values
			if l.Op != "" {
				r.stop("operator-with-valued-annotation")
				return
			}
			if lo.K == "inf" || hi.K == "inf" {
				r.stop("wildcard-with-value")
				return
			}
			qlo, ok1 := r.boundValue(lo, e, true)
			qhi, ok2 := r.boundValue(hi, e, false)
			if !ok1 || !ok2 {
				r.stop("annotation-variable-without-time-value")
				return
			}
			if qlo > qhi {
				r.stop("annotation-start-after-end")
				return
			}
			usesVars := lo.K == "var" || hi.K == "var"
			switch {
			case usesVars:
				r.labels["ann-bound-vars"] = true
			case lo.K == "now" || hi.K == "now":
				r.labels["ann-now"] = true
			default:
				r.labels["ann-const"] = true
			}
			if qlo == qhi {
				r.labels["ann-point-query"] = true
			}
			for _, c := range cands {
				one := contains(c.f.lo, c.f.hi, qlo, qhi)
				ivs := r.intervalsOf(c.f.key)
				if !anyContains(ivs, qlo, qhi) && coveredByUnion(ivs, qlo, qhi) {
					r.stop("throughout-on-uncoalesced-data")
					return
				}
				if one && usesVars {
					equal := false
					for _, iv := range ivs {
						if iv[0] == qlo && iv[1] == qhi {
							equal = true
						}
					}
					if !equal {
						r.stop("bound-variables-equality-vs-containment")
						return
					}
				}
				if one {
					emit(c.e)
				}
			}
			return
		}
	}
	if l.Op == "" {
		for _, c := range cands {
			if e2, ok := bind(c); ok {
				emit(e2)
			}
		}
		return
	}
	if l.D1 < 0 || l.D2 < 0 || l.D1 > l.D2 {
		r.stop("window-out-of-domain")
		return
	}
	now := nanos(r.c.Now)
	var wlo, whi int64
	box := false
	switch l.Op {
	case "<-":
		wlo, whi = now-l.D2*second, now-l.D1*second
	case "[-":
		wlo, whi, box = now-l.D2*second, now-l.D1*second, true
	case "<+":
		wlo, whi = now+l.D1*second, now+l.D2*second
	case "[+":
		wlo, whi, box = now+l.D1*second, now+l.D2*second, true
	default:
		r.stop("unknown-operator")
		return
	}
	r.labels["op:"+l.Op] = true
	if l.D1 == l.D2 {
		r.labels["window-zero-length"] = true
	}
	if l.MS {
		r.labels["window-in-ms"] = true
	}
	if l.Ann != nil {
		r.labels["operator-binds-interval"] = true
	}
	for _, c := range cands {
		if ivs := r.intervalsOf(c.f.key); len(ivs) >= 6 {
			r.labels["operator-over-dense-atom"] = true
			met := 0
			for _, iv := range ivs {
				if meets(iv[0], iv[1], wlo, whi) {
					met++
				}
			}
			if met == 1 {
				r.labels["window-meets-one-interval-of-dense-atom"] = true
				r.nontrivial = true
			}
		} else if c.f.lo == whi || c.f.lo == wlo {
			for _, iv := range ivs {
				if iv[0] == c.f.lo && iv[1] != c.f.hi {
					if c.f.lo == whi {
						r.labels["window-ends-on-shared-start"] = true
					} else {
						r.labels["window-starts-on-shared-start"] = true
					}
					r.nontrivial = true
				}
			}
		}
		if c.f.lo == wlo || c.f.lo == whi || c.f.hi == wlo || c.f.hi == whi {
			r.labels["window-end-on-interval-end"] = true
			r.nontrivial = true
		}
		m, in := meets(c.f.lo, c.f.hi, wlo, whi), contains(c.f.lo, c.f.hi, wlo, whi)
		if m && !in {
			r.labels["diamond-box-disagree"] = true
			r.nontrivial = true
		}
		if box {
			if ivs := r.intervalsOf(c.f.key); !anyContains(ivs, wlo, whi) && coveredByUnion(ivs, wlo, whi) {
				r.stop("throughout-on-uncoalesced-data")
				return
			}
			m = in
		}
		if m {
			if e2, ok := bind(c); ok {
				emit(e2)
			}
		}
	}
}

func (r *refResult) solveBody(body []Lit, i int, e env, emit func(env)) {
	if r.noVerdict != "" {
		return
	}
	if i == len(body) {
		emit(e)
		return
	}
	next := func(e2 env) { r.solveBody(body, i+1, e2, emit) }
	l := body[i]
	switch l.K {
	case "t":
		r.solveTemporal(l, e, next)
	case "e":
		for _, k := range r.pOrder {
			f := r.plain[k]
			if f.pred != l.Pred {
				continue
			}
			if e2, ok := unify(l.Args, f.args, e); ok {
				next(e2)
			}
		}
	case "plus":
		x, ok := e[l.X]
		if _, bound := e[l.Y]; !ok || x.T != val.Num || bound {
			r.stop("arithmetic-on-unbound-or-non-number")
			return
		}
		next(e.with(l.Y, val.I(x.Int()+l.N)))
	case "lt":
		x, ok := e[l.X]
		if !ok || x.T != val.Num {
			r.stop("comparison-on-unbound-or-non-number")
			return
		}
		if x.Int() < l.N {
			next(e)
		}
	}
}

// headInterval resolves a head annotation under a solution.
func (r *refResult) headInterval(a *Ann, e env) (lo, hi int64, ok bool) {
	lb, hb := a.Lo, a.Hi
	if a.Point {
		hb = lb
	}
	lo, ok1 := r.boundValue(lb, e, true)
	hi, ok2 := r.boundValue(hb, e, false)
	if !ok1 || !ok2 {
		r.stop("head-variable-without-time-value")
		return 0, 0, false
	}
	for _, b := range []Bound{lb, hb} {
		switch b.K {
		case "var":
			r.labels["head-var"] = true
		case "now":
			r.labels["head-now"] = true
		case "inf":
			r.labels["head-unbounded"] = true
		case "ts":
			r.labels["head-const"] = true
		}
	}
	if lo > hi {
		r.stop("head-start-after-end")
		return 0, 0, false
	}
	if lo == math.MaxInt64 || hi == math.MinInt64 {
		r.stop("head-sentinel-out-of-place")
		return 0, 0, false
	}
	return lo, hi, true
}

// noteBaseShape labels dense atoms (>= 6 intervals, and whether they were inserted in ascending order) and
// atoms with intervals that share a start or overlap otherwise (base data that is not coalesced).
func (r *refResult) noteBaseShape() {
	seen := map[string]bool{}
	for _, k := range r.tOrder {
		key := r.temporal[k].key
		if seen[key] {
			continue
		}
		seen[key] = true
		ivs := r.intervalsOf(key)
		if len(ivs) >= 6 {
			r.labels["base-dense-atom"] = true
			for i := 1; i < len(ivs); i++ {
				if ivs[i][0] < ivs[i-1][0] {
					r.labels["base-dense-atom-shuffled"] = true
				}
			}
		}
		for i := range ivs {
			for j := range ivs {
				if i < j && ivs[i][0] == ivs[j][0] {
					r.labels["base-shared-start"] = true
				} else if i < j && meets(ivs[i][0], ivs[i][1], ivs[j][0], ivs[j][1]) {
					r.labels["base-overlapping"] = true
				}
			}
		}
	}
}

func evalRef(c Case) *refResult {
	r := &refResult{c: c, temporal: map[string]refFact{}, plain: map[string]refFact{}, labels: map[string]bool{}}
	for _, f := range c.Temporal {
		lo, hi := f.Iv.bounds()
		r.addTemporal(f.Pred, numArgs(f.Args), lo, hi)
		if f.Iv.LoInf || f.Iv.HiInf {
			r.labels["base-unbounded"] = true
		}
		if f.InText {
			r.labels["facts-in-text"] = true
		}
	}
	for _, f := range c.Plain {
		r.addPlain(f.Pred, numArgs(f.Args))
	}
	r.noteBaseShape()
	baseT, baseP := len(r.tOrder), len(r.pOrder)
	if len(c.Rules) == 2 {
		r.labels["two-rules"] = true
	}
	for _, rule := range c.Rules {
		for _, l := range rule.Body {
			if (l.K == "t" || l.K == "e") && l.Pred == rule.Pred {
				r.labels["self-recursive"] = true
			}
			for _, other := range c.Rules {
				if (l.K == "t" || l.K == "e") && l.Pred == other.Pred && other.Pred != rule.Pred {
					r.labels["chained"] = true
				}
			}
		}
		if rule.Ann == nil {
			r.labels["head-plain"] = true
		}
	}
	rounds := 0
	for changed := true; changed && r.noVerdict == ""; {
		changed = false
		rounds++
		for _, rule := range c.Rules {
			type derived struct {
				args   []val.V
				lo, hi int64
			}
			var ds []derived
			r.solveBody(rule.Body, 0, env{}, func(e env) {
				args := make([]val.V, len(rule.Args))
				for i, t := range rule.Args {
					switch {
					case t.V == "":
						args[i] = val.I(t.N)
					default:
						v, ok := e[t.V]
						if !ok {
							r.stop("head-variable-unbound")
							return
						}
						args[i] = v
					}
				}
				d := derived{args: args}
				if rule.Ann != nil {
					lo, hi, ok := r.headInterval(rule.Ann, e)
					if !ok {
						return
					}
					d.lo, d.hi = lo, hi
				}
				ds = append(ds, d)
			})
			if r.noVerdict != "" {
				break
			}
			for _, d := range ds {
				if rule.Ann != nil {
					if r.addTemporal(rule.Pred, d.args, d.lo, d.hi) {
						changed = true
					}
				} else if r.addPlain(rule.Pred, d.args) {
					changed = true
				}
			}
			if len(r.tOrder)+len(r.pOrder) > refFactCap {
				r.stop("reference-cap")
			}
		}
	}
	if rounds > 3 {
		r.labels["rounds>3"] = true
	}
	if len(r.tOrder) > baseT {
		r.labels["derives-temporal"] = true
		for _, rule := range c.Rules {
			if rule.Ann != nil && (rule.Ann.Lo.K != "ts" || (!rule.Ann.Point && rule.Ann.Hi.K != "ts")) {
				r.nontrivial = true // a derived interval that had to be resolved
			}
		}
	}
	if len(r.pOrder) > baseP {
		r.labels["derives-plain"] = true
	}
	if len(r.tOrder) == baseT && len(r.pOrder) == baseP {
		r.labels["derives-nothing"] = true
		r.nontrivial = false
	}
	if r.noVerdict != "" {
		r.nontrivial = false
	}
	return r
}

var _ = fmt.Sprint
