package c14

import (
	"fmt"
	"math"
	"sort"
	"testing"

	"codeberg.org/TauCeti/mangle-go/ast"
	"codeberg.org/TauCeti/mangle-go/builtin"
	"codeberg.org/TauCeti/mangle-go/unionfind"
	"pgregory.net/rapid"
	"verif/stats"
)

// RelCase is a pair of closed intervals [S1, E1], [S2, E2] (nanoseconds, S <= E) handed to the nine
// interval-relation predicates as pairs of numbers.
type RelCase struct {
	S1 int64 `json:"s1"`
	E1 int64 `json:"e1"`
	S2 int64 `json:"s2"`
	E2 int64 `json:"e2"`
}

var relations = []string{":interval:before", ":interval:after", ":interval:meets", ":interval:overlaps",
	":interval:during", ":interval:contains", ":interval:starts", ":interval:finishes", ":interval:equals"}

// documented is the table of readthedocs/temporal.md read on closed intervals.
func documented(rel string, c RelCase) bool {
	switch rel {
	case ":interval:before": // T1 ends before T2 starts
		return c.E1 < c.S2
	case ":interval:after": // T1 starts after T2 ends
		return c.S1 > c.E2
	case ":interval:meets": // T1 ends exactly when T2 starts
		return c.E1 == c.S2
	case ":interval:overlaps": // T1 and T2 share some time
		return c.S1 <= c.E2 && c.S2 <= c.E1
	case ":interval:during": // T1 is contained within T2
		return c.S2 <= c.S1 && c.E1 <= c.E2
	case ":interval:contains": // T1 contains T2
		return c.S1 <= c.S2 && c.E2 <= c.E1
	case ":interval:starts": // T1 and T2 start together
		return c.S1 == c.S2
	case ":interval:finishes": // T1 and T2 end together
		return c.E1 == c.E2
	case ":interval:equals": // T1 and T2 are identical
		return c.S1 == c.S2 && c.E1 == c.E2
	}
	panic(rel)
}

func decideRel(run *stats.Run, f stats.Failer, rel string, s1, e1, s2, e2 int64) (res bool) {
	defer func() {
		if r := recover(); r != nil {
			run.Failf(f, "%s([%d,%d], [%d,%d]) panicked: %v", rel, s1, e1, s2, e2, r)
		}
	}()
	pair := func(a, b int64) ast.Constant {
		x, y := ast.Number(a), ast.Number(b)
		return ast.Pair(&x, &y)
	}
	atom := ast.Atom{Predicate: ast.PredicateSym{Symbol: rel, Arity: 2}, Args: []ast.BaseTerm{pair(s1, e1), pair(s2, e2)}}
	uf := unionfind.New()
	ok, sols, err := builtin.Decide(atom, &uf)
	if err != nil {
		run.Failf(f, "%s([%d,%d], [%d,%d]) failed: %v", rel, s1, e1, s2, e2, err)
	}
	if ok != (len(sols) > 0) {
		run.Failf(f, "%s([%d,%d], [%d,%d]) answers ok=%v with %d solutions", rel, s1, e1, s2, e2, ok, len(sols))
	}
	return ok
}

func checkRel(run *stats.Run, f stats.Failer, c RelCase) verdict {
	if c.S1 > c.E1 || c.S2 > c.E2 {
		run.Failf(f, "malformed case: interval with start > end")
	}
	got := map[string]bool{}
	conv := map[string]bool{} // the same relation with the arguments exchanged
	for _, rel := range relations {
		got[rel] = decideRel(run, f, rel, c.S1, c.E1, c.S2, c.E2)
		conv[rel] = decideRel(run, f, rel, c.S2, c.E2, c.S1, c.E1)
		if want := documented(rel, c); got[rel] != want {
			run.Failf(f, "%s([%d,%d], [%d,%d]) = %v, documented meaning on closed intervals gives %v", rel, c.S1, c.E1, c.S2, c.E2, got[rel], want)
		}
	}
	fail := func(law string) {
		run.Failf(f, "law violated for T1=[%d,%d], T2=[%d,%d]: %s (answers %v, exchanged %v)", c.S1, c.E1, c.S2, c.E2, law, got, conv)
	}
	if got[":interval:before"] != conv[":interval:after"] || got[":interval:after"] != conv[":interval:before"] {
		fail("before(T1,T2) <=> after(T2,T1)")
	}
	if got[":interval:during"] != conv[":interval:contains"] || got[":interval:contains"] != conv[":interval:during"] {
		fail("during(T1,T2) <=> contains(T2,T1)")
	}
	if got[":interval:equals"] && !(got[":interval:starts"] && got[":interval:finishes"]) {
		fail("equals => starts and finishes")
	}
	for _, sym := range []string{":interval:overlaps", ":interval:starts", ":interval:finishes", ":interval:equals"} {
		if got[sym] != conv[sym] {
			fail(sym + " is symmetric")
		}
	}
	var labels []string
	for _, rel := range relations {
		if got[rel] {
			labels = append(labels, "holds"+rel)
		}
	}
	sort.Strings(labels)
	// non-trivial: end points coincide somewhere (the boundary cases of the table).
	nt := c.S1 == c.S2 || c.E1 == c.E2 || c.E1 == c.S2 || c.E2 == c.S1
	if nt {
		labels = append(labels, "relations-touching")
	}
	if c.S1 == c.E1 || c.S2 == c.E2 {
		labels = append(labels, "relations-instant")
	}
	// open ends as the engine reports them for `_` (p(X)@[S, E] binds MinInt64 / MaxInt64).
	if c.S1 == math.MinInt64 || c.S2 == math.MinInt64 || c.E1 == math.MaxInt64 || c.E2 == math.MaxInt64 {
		labels = append(labels, "relations-open-end")
	}
	if c.S1 == math.MinInt64 && c.E1 == math.MaxInt64 || c.S2 == math.MinInt64 && c.E2 == math.MaxInt64 {
		labels = append(labels, "relations-eternal")
	}
	// the end points compared by before/after/meets are further apart than MaxInt64.
	if farApart(c.E1, c.S2) || farApart(c.E2, c.S1) {
		labels = append(labels, "relations-compared-ends-far-apart")
	}
	return verdict{nontrivial: nt, labels: labels}
}

// relAnchors are the regions (10-point grids of 1 ns steps starting there) end points are drawn from in the
// "mixed" mode: next to the two open-bound sentinels the engine reports for `_` (MinInt64 / MaxInt64, the
// sentinel being a grid point), around +-2^62, around 0 (1970, both signs) and 2024.
var relAnchors = []int64{math.MinInt64, -(int64(1) << 62), -5, nanos(0), int64(1)<<62 - 40, math.MaxInt64 - 9}

func genRelCase(t *rapid.T) RelCase {
	var c RelCase
	if rapid.IntRange(0, 1).Draw(t, "mode") == 0 {
		// one region, all four end points on its 10-point grid (many coincidences).
		base := int64(0)
		switch rapid.IntRange(0, 5).Draw(t, "region") {
		case 0:
			base = nanos(0)
		case 1:
			base = -(int64(1) << 62)
		case 2:
			base = int64(1)<<62 - 40
		}
		unit := rapid.SampledFrom([]int64{1, 1, second}).Draw(t, "unit")
		if base != 0 && base != nanos(0) {
			unit = 1
		}
		pt := func(label string) int64 { return base + unit*rapid.Int64Range(0, 9).Draw(t, label) }
		c = RelCase{S1: pt("s1"), E1: pt("e1"), S2: pt("s2"), E2: pt("e2")}
	} else {
		// mixed: two regions per case (so that end points still coincide often), every end point from one of
		// them or - a quarter each - the open bound of its side (start: MinInt64, end: MaxInt64). End points
		// of one pair may be further apart than MaxInt64, i.e. their int64 difference wraps.
		regs := [2]int64{rapid.SampledFrom(relAnchors).Draw(t, "regionA"), rapid.SampledFrom(relAnchors).Draw(t, "regionB")}
		pt := func(label string, open int64) int64 {
			k := rapid.IntRange(0, 7).Draw(t, label+"-from")
			if k >= 6 {
				return open
			}
			return regs[k%2] + rapid.Int64Range(0, 9).Draw(t, label)
		}
		c = RelCase{S1: pt("s1", math.MinInt64), E1: pt("e1", math.MaxInt64), S2: pt("s2", math.MinInt64), E2: pt("e2", math.MaxInt64)}
	}
	if c.S1 > c.E1 {
		c.S1, c.E1 = c.E1, c.S1
	}
	if c.S2 > c.E2 {
		c.S2, c.E2 = c.E2, c.S2
	}
	return c
}

// farApart: the int64 difference of the two instants is not representable.
func farApart(a, b int64) bool {
	if a < b {
		a, b = b, a
	}
	return b < 0 && a > math.MaxInt64+b
}

func TestC14_Relations(t *testing.T) {
	run := stats.Begin("C14", "TestC14_Relations")
	defer run.Finish(t)
	rapid.Check(t, func(rt *rapid.T) {
		c := genRelCase(rt)
		run.Current(c)
		v := checkRel(run, rt, c)
		run.Case(v.nontrivial, stats.Hash("rel", fmt.Sprint(c.S1, c.E1, c.S2, c.E2)), v.labels...)
		if v.nontrivial {
			run.Sample("relations", c)
		}
	})
}
