// Package c05 checks property C05: results do not depend on presentation, ordering or store choice.
//
// Metamorphic: a program is evaluated in a baseline presentation and in several transformed ones
// (clauses/facts shuffled, variables alpha-renamed, predicates bijectively renamed – also so that their
// lexicographic order flips –, wrapped in a package, another store kind, WithDeterministicOrder, plain
// re-runs under new map iteration orders). The canonical key sets (names mapped back, internal predicates
// dropped, temporal facts with their intervals) must be identical.
package c05

import (
	"encoding/json"
	"fmt"
	"math"
	"sort"
	"strings"
	"testing"
	"time"

	"codeberg.org/TauCeti/mangle-go/analysis"
	"codeberg.org/TauCeti/mangle-go/ast"
	"codeberg.org/TauCeti/mangle-go/engine"
	"codeberg.org/TauCeti/mangle-go/factstore"
	"codeberg.org/TauCeti/mangle-go/parse"
	"pgregory.net/rapid"
	"verif/prog"
	"verif/stats"
	"verif/val"
)

// Variant is one presentation of the program.
type Variant struct {
	Name     string `json:"name"`
	RulePerm []int  `json:"rulePerm,omitempty"`
	FactPerm []int  `json:"factPerm,omitempty"`
	DeclPerm []int  `json:"declPerm,omitempty"`
	Alpha    bool   `json:"alpha,omitempty"`
	// AlphaLibNames: the alpha-renaming uses the names X0, X1, ... which the library generates for wildcards.
	AlphaLibNames bool              `json:"alphaLibNames,omitempty"`
	PredMap       map[string]string `json:"predMap,omitempty"`
	Package       string            `json:"package,omitempty"`
	Store         string            `json:"store,omitempty"`
	DetOrder      bool              `json:"detOrder,omitempty"`
	FactsMove     bool              `json:"factsMove,omitempty"` // text facts are pre-loaded and vice versa
	// Again: after the evaluation the same text is parsed and analysed afresh and evaluated a second time on the
	// same store (which now holds the model, internal relations included): running again must not change anything.
	Again bool `json:"again,omitempty"`
	// TemporalBase (temporal programs): the facts are evaluated into a plain TemporalStore first; the rules are then
	// evaluated with a TeeingTemporalStore over it as the temporal store (the base facts sit in the base layer, the
	// way the interpreter arranges it).
	TemporalBase bool `json:"temporalBase,omitempty"`
	// FactsAfter: that many of the (permuted) facts of the text are written after the rules.
	FactsAfter int `json:"factsAfter,omitempty"`
}

// Case: a (plain) program or a temporal program, and the variants to compare.
type Case struct {
	Gen      *prog.Generated `json:"gen,omitempty"`
	Temporal *TProg          `json:"temporal,omitempty"`
	Variants []Variant       `json:"variants"`
}

type verdict struct {
	nontrivial bool
	labels     []string
}

// ---------------------------------------------------------------------------------------------
// transformations on prog.Generated

func renameAtom(a prog.Atom, m map[string]string) prog.Atom {
	n := a
	if x, ok := m[a.Pred]; ok {
		n.Pred = x
	}
	return n
}

func renameVarsTerm(t prog.Term, m map[string]string) prog.Term {
	n := t
	if t.IsVar() && !t.IsWildcard() {
		n.Var = m[t.Var]
	}
	if len(t.Args) > 0 {
		n.Args = make([]prog.Term, len(t.Args))
		for i, a := range t.Args {
			n.Args[i] = renameVarsTerm(a, m)
		}
	}
	return n
}

func renameVarsAtom(a prog.Atom, m map[string]string) prog.Atom {
	n := prog.Atom{Pred: a.Pred, Args: make([]prog.Term, len(a.Args))}
	for i, t := range a.Args {
		n.Args[i] = renameVarsTerm(t, m)
	}
	return n
}

func alphaRule(r prog.Rule, libNames bool) prog.Rule {
	vars := map[string]bool{}
	r.Head.Vars(vars)
	for _, l := range r.Body {
		l.Vars(vars)
	}
	for _, s := range r.Let {
		vars[s.Var] = true
		s.Fn.Vars(vars)
	}
	if r.Do != nil {
		for _, k := range r.Do.Keys {
			vars[k] = true
		}
		for _, s := range r.Do.Lets {
			vars[s.Var] = true
			s.Fn.Vars(vars)
		}
	}
	names := make([]string, 0, len(vars))
	for v := range vars {
		names = append(names, v)
	}
	sort.Strings(names)
	m := map[string]string{}
	for i, v := range names {
		m[v] = fmt.Sprintf("Q%d", len(names)-i) // reverses the order of the names
		if libNames {
			m[v] = fmt.Sprintf("X%d", i) // the names the library itself gives to wildcards (X0, X1, ...)
		}
	}
	delete(m, "_")
	n := prog.Rule{Head: renameVarsAtom(r.Head, m)}
	for _, l := range r.Body {
		nl := l
		if l.Atom != nil {
			a := renameVarsAtom(*l.Atom, m)
			nl.Atom = &a
		}
		if l.L != nil {
			x := renameVarsTerm(*l.L, m)
			nl.L = &x
		}
		if l.R != nil {
			x := renameVarsTerm(*l.R, m)
			nl.R = &x
		}
		n.Body = append(n.Body, nl)
	}
	for _, s := range r.Let {
		n.Let = append(n.Let, prog.LetStmt{Var: m[s.Var], Fn: renameVarsTerm(s.Fn, m)})
	}
	if r.Do != nil {
		d := &prog.Do{}
		for _, k := range r.Do.Keys {
			d.Keys = append(d.Keys, m[k])
		}
		for _, s := range r.Do.Lets {
			d.Lets = append(d.Lets, prog.LetStmt{Var: m[s.Var], Fn: renameVarsTerm(s.Fn, m)})
		}
		n.Do = d
	}
	return n
}

func permute[T any](xs []T, perm []int) []T {
	if len(perm) != len(xs) {
		return xs
	}
	res := make([]T, len(xs))
	for i, p := range perm {
		res[i] = xs[p]
	}
	return res
}

// apply builds the presentation v of g. It returns the program, the pre-loaded facts and the map from
// presented predicate names back to the original ones.
func apply(g prog.Generated, v Variant) (prog.Program, []prog.Atom, map[string]string) {
	p := prog.Program{Package: v.Package}
	p.Decls = permute(append([]prog.Decl{}, g.Prog.Decls...), v.DeclPerm)
	p.Rules = permute(append([]prog.Rule{}, g.Prog.Rules...), v.RulePerm)
	facts := append([]prog.Atom{}, g.Prog.Facts...)
	extra := append([]prog.Atom{}, g.Extra...)
	if v.FactsMove {
		facts, extra = extra, facts
	}
	facts = permute(facts, v.FactPerm)
	if v.Alpha {
		for i, r := range p.Rules {
			p.Rules[i] = alphaRule(r, v.AlphaLibNames)
		}
	}
	back := map[string]string{}
	rename := func(a prog.Atom) prog.Atom { return renameAtom(a, v.PredMap) }
	for i, d := range p.Decls {
		if n, ok := v.PredMap[d.Pred]; ok {
			p.Decls[i].Pred = n
		}
	}
	for i, r := range p.Rules {
		nr := r
		nr.Head = rename(r.Head)
		nr.Body = make([]prog.Lit, len(r.Body))
		for j, l := range r.Body {
			nl := l
			if l.Atom != nil && !l.IsBuiltinAtom() {
				a := rename(*l.Atom)
				nl.Atom = &a
			}
			nr.Body[j] = nl
		}
		p.Rules[i] = nr
	}
	for i := range facts {
		facts[i] = rename(facts[i])
	}
	for i := range extra {
		extra[i] = rename(extra[i])
	}
	p.Facts = facts
	p.FactsAfter = v.FactsAfter
	for _, s := range g.Prog.Preds() {
		presented := s.Symbol
		if n, ok := v.PredMap[s.Symbol]; ok {
			presented = n
		}
		if v.Package != "" {
			presented = v.Package + "." + presented
		}
		back[presented] = s.Symbol
	}
	if v.Package != "" {
		for i := range extra {
			extra[i].Pred = v.Package + "." + extra[i].Pred
		}
	}
	return p, extra, back
}

type result struct {
	stage    string // "ok", "analysis-error", "eval-error", "panic"
	err      string
	keys     []string
	collides bool // two same-predicate atoms of the result have equal Atom.Hash() (K08)
}

// finish sorts the keys and removes duplicates (after reading collect_distinct lists as sets two stored
// atoms can have the same key).
func (r *result) finish() {
	sort.Strings(r.keys)
	out := r.keys[:0]
	for i, k := range r.keys {
		if i == 0 || k != r.keys[i-1] {
			out = append(out, k)
		}
	}
	r.keys = out
}

// collide tells whether two different same-predicate atoms of the result have equal Atom.Hash() (K08). The lists
// that aggregated predicates collect come out in the store's enumeration order, which differs from store to store
// and (hash-keyed stores) from run to run: s1([1, 0]) collides with s1([1]) while s1([0, 1]) does not. For those
// predicates every order of a collected list counts (up to 720 orders per atom; beyond that a collision is assumed).
func collide(atoms map[string]ast.Atom, aggregated func(sym string) bool) bool {
	seen := map[ast.PredicateSym]map[uint64]int{}
	id := 0
	for _, a := range atoms {
		id++
		m := seen[a.Predicate]
		if m == nil {
			m = map[uint64]int{}
			seen[a.Predicate] = m
		}
		variants := []ast.Atom{a}
		if aggregated != nil && aggregated(a.Predicate.Symbol) {
			for i, arg := range a.Args {
				c, ok := arg.(ast.Constant)
				if !ok || c.Type != ast.ListShape {
					continue
				}
				var elems []ast.Constant
				c.ListValues(func(e ast.Constant) error { elems = append(elems, e); return nil }, func() error { return nil })
				if len(elems) < 2 {
					continue
				}
				if len(elems) > 6 || len(variants) > 1 {
					if len(atoms) > 1 {
						return true // too many orders to enumerate: assume one of them collides
					}
					continue
				}
				var next []ast.Atom
				permuteConsts(elems, 0, func(p []ast.Constant) {
					args := append([]ast.BaseTerm(nil), a.Args...)
					args[i] = ast.List(append([]ast.Constant(nil), p...))
					next = append(next, ast.Atom{Predicate: a.Predicate, Args: args})
				})
				variants = next
			}
		}
		for _, x := range variants {
			h := x.Hash()
			if other, ok := m[h]; ok && other != id {
				return true
			}
			m[h] = id
		}
	}
	return false
}

func permuteConsts(xs []ast.Constant, k int, fn func([]ast.Constant)) {
	if k == len(xs) {
		fn(xs)
		return
	}
	for i := k; i < len(xs); i++ {
		xs[k], xs[i] = xs[i], xs[k]
		permuteConsts(xs, k+1, fn)
		xs[k], xs[i] = xs[i], xs[k]
	}
}

func (r result) String() string {
	if r.stage != "ok" {
		return r.stage + ": " + r.err
	}
	return fmt.Sprintf("%d facts %v", len(r.keys), r.keys)
}

// normKey keys an atom under its original predicate name; list arguments of aggregated predicates (s…)
// are read as sets (collect_distinct promises no order).
func normKey(pred string, args []ast.BaseTerm) string {
	cs := make([]ast.Constant, len(args))
	for i, a := range args {
		c, ok := a.(ast.Constant)
		if !ok {
			return pred + "(?nonground " + fmt.Sprint(args) + ")"
		}
		if strings.HasPrefix(pred, "s") && c.Type == ast.ListShape {
			var elems []ast.Constant
			c.ListValues(func(e ast.Constant) error { elems = append(elems, e); return nil }, func() error { return nil })
			sort.Slice(elems, func(x, y int) bool { return val.KeyOf(elems[x]) < val.KeyOf(elems[y]) })
			c = ast.List(elems)
		}
		cs[i] = c
	}
	return prog.Fact{Pred: pred, Args: cs}.Key()
}

func runPlain(g prog.Generated, v Variant) result {
	p, extra, back := apply(g, v)
	text := p.Source()
	var out prog.Outcome
	prog.Analyze(text, &out, nil)
	switch {
	case out.ParseErr != nil:
		return result{stage: "parse-error", err: out.ParseErr.Error() + "\n" + text}
	case out.Panic != "":
		return result{stage: "panic", err: out.PanicStage + ": " + out.Panic}
	case out.AnalysisErr != nil:
		return result{stage: "analysis-error", err: out.AnalysisErr.Error()}
	}
	kind := v.Store
	if kind == "" {
		kind = "multiindexedarray"
	}
	ex := prog.Eval(prog.Program{Facts: extra}, nil, prog.Options{})
	var atoms []ast.Atom
	for _, k := range ex.Model.Keys() {
		atoms = append(atoms, ex.Model[k].ToAtom())
	}
	store := prog.NewLoadedStore(kind, atoms)
	var opts []engine.EvalOption
	if v.DetOrder {
		opts = append(opts, engine.WithDeterministicOrder())
	}
	res := result{stage: "ok"}
	func() {
		defer func() {
			if r := recover(); r != nil {
				res = result{stage: "panic", err: fmt.Sprint(r)}
			}
		}()
		if err := engine.EvalProgram(out.Info, store, opts...); err != nil {
			res = result{stage: "eval-error", err: "(evaluation failed)"}
			return
		}
		if v.Again {
			var again prog.Outcome
			prog.Analyze(text, &again, nil)
			if again.ParseErr != nil || again.AnalysisErr != nil || again.Panic != "" {
				res = result{stage: "analysis-error", err: "second analysis of the same text failed"}
				return
			}
			if err := engine.EvalProgram(again.Info, store, opts...); err != nil {
				res = result{stage: "eval-error", err: "(second evaluation on the same store failed)"}
			}
		}
	}()
	if res.stage != "ok" {
		return res
	}
	var o prog.Outcome
	prog.ReadStore(store, &o)
	for _, a := range o.Facts {
		name, ok := back[a.Predicate.Symbol]
		if !ok {
			name = "?unmapped:" + a.Predicate.Symbol
		}
		res.keys = append(res.keys, normKey(name, a.Args))
	}
	res.collides = collide(o.Facts, func(sym string) bool { return strings.HasPrefix(back[sym], "s") })
	res.finish()
	return res
}

// ---------------------------------------------------------------------------------------------
// temporal programs (text templates with a predicate map, clause order and package)

// TProg is a chain of temporal predicates t0 <- t1 <- ... with base facts for t0.
type TProg struct {
	Chain   int      `json:"chain"` // number of derived predicates (1-3)
	Shapes  []string `json:"shapes"`
	Facts   [][3]int `json:"facts"` // value, start day, end day (2024-01-<day>)
	Plain   bool     `json:"plain"` // add a non-temporal consumer  cnt(X) :- t<last>(X)@[S,E].
	NowDay  int      `json:"nowDay"`
	HashSep bool     `json:"hashSep,omitempty"`
	// Edges: temporal links tl(X, Y)@[day, day+len] for a recursive reachability program
	// tr(X,Y)@[S,E] :- tl(X,Y)@[S,E].  tr(X,Z)@[S,E] :- tr(X,Y)@[S,E], tl(Y,Z)@[S,E].
	Edges [][4]int `json:"edges,omitempty"`
	// Bridge: t0 (which has the base facts) also gets a rule that derives, for an atom, the span from the start of
	// one of its intervals to the end of another one.
	Bridge bool `json:"bridge,omitempty"`
}

func (tp TProg) preds() []string {
	ps := []string{"t0"}
	for i := 1; i <= tp.Chain; i++ {
		ps = append(ps, fmt.Sprintf("t%d", i))
	}
	if tp.Plain {
		ps = append(ps, "cnt")
	}
	if len(tp.Edges) > 0 {
		ps = append(ps, "tl", "tr")
	}
	return ps
}

func day(d int) string { return fmt.Sprintf("2024-01-%02dT00:00:00Z", d) }

func (tp TProg) clauses(name func(string) string) (decls, clauses []string) {
	for _, p := range tp.preds() {
		if p == "cnt" {
			continue
		}
		if p == "tl" || p == "tr" {
			decls = append(decls, fmt.Sprintf("Decl %s(X, Y) temporal bound [/number, /number].", name(p)))
			continue
		}
		decls = append(decls, fmt.Sprintf("Decl %s(X) temporal bound [/number].", name(p)))
	}
	for _, e := range tp.Edges {
		clauses = append(clauses, fmt.Sprintf("%s(%d, %d)@[%s, %s].", name("tl"), e[0], e[1], day(e[2]), day(e[2]+e[3])))
	}
	if len(tp.Edges) > 0 {
		clauses = append(clauses, fmt.Sprintf("%s(X, Y)@[S, E] :- %s(X, Y)@[S, E].", name("tr"), name("tl")))
		clauses = append(clauses, fmt.Sprintf("%s(X, Z)@[S, E] :- %s(X, Y)@[S, E], %s(Y, Z)@[S, E].", name("tr"), name("tr"), name("tl")))
	}
	for _, f := range tp.Facts {
		clauses = append(clauses, fmt.Sprintf("%s(%d)@[%s, %s].", name("t0"), f[0], day(f[1]), day(f[2])))
	}
	for i := 1; i <= tp.Chain; i++ {
		src, dst := name(fmt.Sprintf("t%d", i-1)), name(fmt.Sprintf("t%d", i))
		switch tp.Shapes[i-1] {
		case "copy":
			clauses = append(clauses, fmt.Sprintf("%s(X)@[S, E] :- %s(X)@[S, E].", dst, src))
		case "diamond":
			clauses = append(clauses, fmt.Sprintf("%s(X)@[now] :- <-[0s, 40d] %s(X).", dst, src))
		case "plus":
			clauses = append(clauses, fmt.Sprintf("%s(Y)@[S, E] :- %s(X)@[S, E], Y = fn:plus(X, 10).", dst, src))
		case "diamond-bind":
			clauses = append(clauses, fmt.Sprintf("%s(X)@[S, E] :- <-[0d, 3d] %s(X)@[S, E].", dst, src))
		case "join":
			clauses = append(clauses, fmt.Sprintf("%s(X)@[S, E] :- %s(X)@[S, E], %s(X)@[S2, E2].", dst, src, name("t0")))
		}
	}
	if tp.Bridge {
		// t0 has base facts AND a rule: spans from the start of one interval of an atom to the end of another one
		clauses = append(clauses, fmt.Sprintf("%s(X)@[S, E2] :- %s(X)@[S, E], %s(X)@[S2, E2], :time:le(S, E2).", name("t0"), name("t0"), name("t0")))
	}
	if tp.Plain {
		clauses = append(clauses, fmt.Sprintf("%s(X) :- %s(X)@[S, E].", name("cnt"), name(fmt.Sprintf("t%d", tp.Chain))))
	}
	return
}

func runTemporal(tp TProg, v Variant) result {
	name := func(p string) string {
		if n, ok := v.PredMap[p]; ok {
			return n
		}
		return p
	}
	decls, clauses := tp.clauses(name)
	decls = permute(decls, v.DeclPerm)
	clauses = permute(clauses, v.RulePerm)
	var sb strings.Builder
	if v.Package != "" {
		sb.WriteString("Package " + v.Package + "!\n")
	}
	sb.WriteString(strings.Join(decls, "\n") + "\n" + strings.Join(clauses, "\n") + "\n")
	text := sb.String()
	back := map[string]string{}
	for _, p := range tp.preds() {
		presented := name(p)
		if v.Package != "" {
			presented = v.Package + "." + presented
		}
		back[presented] = p
	}
	res := result{stage: "ok"}
	func() {
		defer func() {
			if r := recover(); r != nil {
				res = result{stage: "panic", err: fmt.Sprint(r)}
			}
		}()
		unit, err := parse.Unit(strings.NewReader(text))
		if err != nil {
			res = result{stage: "parse-error", err: err.Error() + "\n" + text}
			return
		}
		info, err := analysis.AnalyzeOneUnit(unit, nil)
		if err != nil {
			res = result{stage: "analysis-error", err: err.Error()}
			return
		}
		kind := v.Store
		if kind == "" {
			kind = "multiindexedarray"
		}
		store := prog.NewStore(kind)
		var ts factstore.TemporalFactStore = factstore.NewTemporalStore()
		evalTime := engine.WithEvaluationTime(time.Date(2024, 1, tp.NowDay, 0, 0, 0, 0, time.UTC))
		if v.TemporalBase {
			// step 1: declarations and facts only, into a plain temporal store
			var factLines, ruleLines []string
			for _, cl := range clauses {
				if strings.Contains(cl, ":-") {
					ruleLines = append(ruleLines, cl)
				} else {
					factLines = append(factLines, cl)
				}
			}
			head := ""
			if v.Package != "" {
				head = "Package " + v.Package + "!\n"
			}
			u1, err := parse.Unit(strings.NewReader(head + strings.Join(decls, "\n") + "\n" + strings.Join(factLines, "\n") + "\n"))
			if err != nil {
				res = result{stage: "parse-error", err: err.Error()}
				return
			}
			i1, err := analysis.AnalyzeOneUnit(u1, nil)
			if err != nil {
				res = result{stage: "analysis-error", err: err.Error()}
				return
			}
			base := factstore.NewTemporalStore()
			if err := engine.EvalProgram(i1, prog.NewStore("multiindexedarray"), engine.WithTemporalStore(base), evalTime); err != nil {
				res = result{stage: "eval-error", err: "(evaluation of the facts failed)"}
				return
			}
			// step 2: declarations and rules, over a layered temporal store whose base layer holds the facts
			u2, err := parse.Unit(strings.NewReader(head + strings.Join(decls, "\n") + "\n" + strings.Join(ruleLines, "\n") + "\n"))
			if err != nil {
				res = result{stage: "parse-error", err: err.Error()}
				return
			}
			info, err = analysis.AnalyzeOneUnit(u2, nil)
			if err != nil {
				res = result{stage: "analysis-error", err: err.Error()}
				return
			}
			ts = factstore.NewTeeingTemporalStore(base)
		}
		opts := []engine.EvalOption{engine.WithTemporalStore(ts), evalTime}
		if v.DetOrder {
			opts = append(opts, engine.WithDeterministicOrder())
		}
		if err := engine.EvalProgram(info, store, opts...); err != nil {
			res = result{stage: "eval-error", err: "(evaluation failed)"}
			return
		}
		var o prog.Outcome
		prog.ReadStore(store, &o)
		for _, a := range o.Facts {
			n, ok := back[a.Predicate.Symbol]
			if !ok {
				n = "?unmapped:" + a.Predicate.Symbol
			}
			res.keys = append(res.keys, normKey(n, a.Args))
		}
		ts.GetAllFacts(ast.Atom{}, func(tf factstore.TemporalFact) error {
			n, ok := back[tf.Atom.Predicate.Symbol]
			if !ok {
				n = "?unmapped:" + tf.Atom.Predicate.Symbol
			}
			lo, hi := int64(math.MinInt64), int64(math.MaxInt64)
			if tf.Interval.Start.Type == ast.TimestampBound {
				lo = tf.Interval.Start.Timestamp
			}
			if tf.Interval.End.Type == ast.TimestampBound {
				hi = tf.Interval.End.Timestamp
			}
			res.keys = append(res.keys, fmt.Sprintf("%s@[%d,%d]", normKey(n, tf.Atom.Args), lo, hi))
			return nil
		})
		res.finish()
	}()
	return res
}

// ---------------------------------------------------------------------------------------------

func run(c Case, v Variant) result {
	if c.Temporal != nil {
		return runTemporal(*c.Temporal, v)
	}
	return runPlain(*c.Gen, v)
}

func check(run_ *stats.Run, f stats.Failer, c Case) verdict {
	var v verdict
	base := run(c, Variant{Name: "baseline"})
	if base.stage == "parse-error" {
		run_.Failf(f, "harness: baseline text does not parse: %s", base.err)
	}
	executed := 0
	for _, variant := range c.Variants {
		if base.collides && variant.Store != "" && prog.HashKeyed(variant.Store) && stats.Exclusion("K08-hash-colliders") {
			// hash-keyed stores conflate hash-equal atoms (known finding K08): compare on the array store
			variant.Store = "multiindexedarray"
			run_.Excluded("K08-hash-colliders")
		}
		reps := 1
		if variant.Name == "rerun" {
			reps = 4
		}
		for k := 0; k < reps; k++ {
			got := run(c, variant)
			executed++
			if got.stage == "parse-error" {
				run_.Failf(f, "harness: variant %s does not parse: %s", variant.Name, got.err)
			}
			if got.stage != base.stage || strings.Join(got.keys, "\n") != strings.Join(base.keys, "\n") {
				var onlyBase, onlyVar []string
				in := map[string]bool{}
				for _, k := range got.keys {
					in[k] = true
				}
				inb := map[string]bool{}
				for _, k := range base.keys {
					inb[k] = true
					if !in[k] {
						onlyBase = append(onlyBase, k)
					}
				}
				for _, k := range got.keys {
					if !inb[k] {
						onlyVar = append(onlyVar, k)
					}
				}
				run_.Failf(f, "the result depends on the presentation: variant %q differs from the baseline.\nbaseline: %s %s\nvariant:  %s %s\nonly baseline: %v\nonly variant: %v\nprogram (baseline presentation):\n%s",
					variant.Name, base.stage, base.err, got.stage, got.err, onlyBase, onlyVar, c.text())
			}
		}
	}
	if base.stage != "ok" {
		v.labels = append(v.labels, "baseline-"+base.stage)
		return v
	}
	derived := len(base.keys)
	if c.Temporal != nil {
		v.labels = append(v.labels, "temporal")
		v.nontrivial = derived > len(c.Temporal.Facts) && executed >= 3
	} else {
		layers := map[int]bool{}
		for _, p := range c.Gen.Schema {
			if p.Level >= 0 {
				layers[p.Level] = true
			}
		}
		v.nontrivial = derived > len(c.Gen.Prog.Facts)+len(c.Gen.Extra) && executed >= 3 && (len(layers) >= 2 || len(c.Gen.Schema) == 0)
		v.labels = append(v.labels, c.Gen.Labels...)
	}
	for _, variant := range c.Variants {
		v.labels = append(v.labels, "variant:"+variant.Name)
	}
	return v
}

func (c Case) text() string {
	if c.Temporal != nil {
		d, cl := c.Temporal.clauses(func(s string) string { return s })
		return strings.Join(d, "\n") + "\n" + strings.Join(cl, "\n") + fmt.Sprintf("\nevaluation time: %s\n", day(c.Temporal.NowDay))
	}
	var parts []string
	for _, a := range c.Gen.Extra {
		parts = append(parts, a.Source())
	}
	return c.Gen.Prog.Source() + "pre-loaded: " + strings.Join(parts, ". ") + "\n"
}

func (c Case) hash() uint64 {
	b, _ := json.Marshal(c)
	return stats.Hash(string(b))
}

func genPerm(t *rapid.T, n int, label string) []int {
	idx := make([]int, n)
	for i := range idx {
		idx[i] = i
	}
	if n < 2 {
		return idx
	}
	return rapid.Permutation(idx).Draw(t, label)
}

// genPredMap draws a bijective renaming; flip=true reverses the lexicographic order of the names.
func genPredMap(t *rapid.T, names []string, flip bool) map[string]string {
	sorted := append([]string{}, names...)
	sort.Strings(sorted)
	m := map[string]string{}
	if flip {
		for i, n := range sorted {
			m[n] = fmt.Sprintf("r%02d_%s", len(sorted)-i, n)
		}
		return m
	}
	perm := genPerm(t, len(sorted), "predPerm")
	for i, n := range sorted {
		m[n] = fmt.Sprintf("n%02d", perm[i])
	}
	return m
}

func genVariants(t *rapid.T, preds []string, nRules, nFacts, nDecls int) []Variant {
	vs := []Variant{
		{Name: "rerun"},
		{Name: "shuffle", RulePerm: genPerm(t, nRules, "rulePerm"), FactPerm: genPerm(t, nFacts, "factPerm"), DeclPerm: genPerm(t, nDecls, "declPerm"),
			FactsAfter: rapid.IntRange(0, nFacts).Draw(t, "shuffleFactsAfter")},
		{Name: "facts-last", FactsAfter: nFacts, RulePerm: genPerm(t, nRules, "rulePerm3")},
		{Name: "alpha", Alpha: true},
		{Name: "again-same-store", Again: true},
		{Name: "alpha-library-names", Alpha: true, AlphaLibNames: true},
		{Name: "rename-flip", PredMap: genPredMap(t, preds, true)},
		{Name: "rename-perm", PredMap: genPredMap(t, preds, false)},
		{Name: "package", Package: "pk"},
		{Name: "store", Store: rapid.SampledFrom(prog.StoreKinds).Draw(t, "store")},
		{Name: "detorder", DetOrder: true},
		{Name: "detorder+rename-flip+shuffle", DetOrder: true, PredMap: genPredMap(t, preds, true), RulePerm: genPerm(t, nRules, "rulePerm2")},
	}
	// keep a random subset of at least 4 (cheaper cases, more of them)
	keep := rapid.IntRange(4, len(vs)).Draw(t, "nVariants")
	perm := genPerm(t, len(vs), "variantPerm")
	var res []Variant
	for _, i := range perm[:keep] {
		res = append(res, vs[i])
	}
	sort.Slice(res, func(i, j int) bool { return res[i].Name < res[j].Name })
	return res
}

func genCase(t *rapid.T) Case {
	if rapid.IntRange(0, 9).Draw(t, "kind") < 3 {
		tp := TProg{Chain: rapid.IntRange(1, 3).Draw(t, "chain"), Plain: rapid.Bool().Draw(t, "plain"), NowDay: rapid.IntRange(1, 28).Draw(t, "now"),
			Bridge: rapid.IntRange(0, 2).Draw(t, "bridge") == 0}
		for i := 0; i < tp.Chain; i++ {
			tp.Shapes = append(tp.Shapes, rapid.SampledFrom([]string{"copy", "copy", "diamond", "diamond-bind", "plus", "join"}).Draw(t, "shape"))
		}
		nf := rapid.IntRange(1, 5).Draw(t, "nTFacts")
		for i := 0; i < nf; i++ {
			a := rapid.IntRange(1, 20).Draw(t, "start")
			v := i + 1
			if i > 0 && rapid.IntRange(0, 2).Draw(t, "sameAtom") == 0 {
				// another interval for an earlier atom, often with the same start
				prev := tp.Facts[rapid.IntRange(0, i-1).Draw(t, "prevFact")]
				v = prev[0]
				if rapid.Bool().Draw(t, "sameStart") {
					a = prev[1]
				}
			}
			tp.Facts = append(tp.Facts, [3]int{v, a, a + rapid.IntRange(0, 7).Draw(t, "len")})
		}
		if rapid.IntRange(0, 2).Draw(t, "reach") == 0 {
			// layered graph with several equally long paths between nodes (duplicate derivations per round)
			layers := rapid.IntRange(2, 5).Draw(t, "layers")
			d0 := rapid.IntRange(1, 10).Draw(t, "edgeDay")
			ln := rapid.IntRange(0, 3).Draw(t, "edgeLen")
			for l := 0; l < layers; l++ {
				width := rapid.IntRange(1, 2).Draw(t, "width")
				for w := 0; w < width; w++ {
					mid := 100*(l+1) + w
					tp.Edges = append(tp.Edges, [4]int{l, mid, d0, ln}, [4]int{mid, l + 1, d0, ln})
				}
			}
			if rapid.Bool().Draw(t, "edgeShuffle") {
				tp.Edges = rapid.Permutation(tp.Edges).Draw(t, "edgePerm")
			}
		}
		d, cl := tp.clauses(func(s string) string { return s })
		c := Case{Temporal: &tp}
		c.Variants = genVariants(t, tp.preds(), len(cl), 0, len(d))
		if rapid.Bool().Draw(t, "temporalBase") {
			c.Variants = append(c.Variants, Variant{Name: "temporal-base-layer", TemporalBase: true})
		}
		// the temporal template has no separate facts / alpha renaming: drop variants that would be no-ops
		var vs []Variant
		for _, v := range c.Variants {
			if v.Name != "alpha" {
				vs = append(vs, v)
			}
		}
		c.Variants = vs
		return c
	}
	var g prog.Generated
	if rapid.IntRange(0, 4).Draw(t, "agg") == 0 {
		g = prog.GenAgg().Draw(t, "aggProg")
	} else {
		g = prog.Gen(prog.AllFeatures).Draw(t, "prog")
	}
	var preds []string
	for _, s := range g.Prog.Preds() {
		preds = append(preds, s.Symbol)
	}
	c := Case{Gen: &g}
	c.Variants = genVariants(t, preds, len(g.Prog.Rules), len(g.Prog.Facts), len(g.Prog.Decls))
	return c
}

func TestC05(t *testing.T) {
	run_ := stats.Begin("C05", "TestC05")
	defer run_.Finish(t)
	rapid.Check(t, func(rt *rapid.T) {
		c := genCase(rt)
		run_.Current(c)
		v := check(run_, rt, c)
		run_.Case(v.nontrivial, c.hash(), v.labels...)
		if v.nontrivial {
			names := []string{}
			for _, x := range c.Variants {
				names = append(names, x.Name)
			}
			kind := "plain"
			if c.Temporal != nil {
				kind = "temporal"
			}
			run_.Sample(kind, map[string]any{"program": c.text(), "variants": names})
		}
	})
}

func TestReplay(t *testing.T) {
	var c Case
	if !stats.LoadReplay(t, &c) {
		return
	}
	run_ := stats.Begin("C05", "TestReplay")
	// map iteration order is part of the quantifier: a replay re-executes the comparison several times
	for i := 0; i < 25; i++ {
		check(run_, t, c)
	}
}
