// Package c02 checks property C02: each aggregating rule reduces exactly its own body's solution set.
package c02

import (
	"encoding/json"
	"fmt"
	"sort"
	"strings"
	"testing"

	"codeberg.org/TauCeti/mangle-go/ast"
	"pgregory.net/rapid"
	"verif/prog"
	"verif/stats"
	"verif/val"
)

// Case is a program with aggregating rules, its pre-loaded facts and the store kind.
type Case struct {
	Gen   prog.Generated `json:"gen"`
	Store string         `json:"store"`
	Text  string         `json:"text"`
	// Late: indices into Gen.Extra of facts that are withheld from the first evaluation, added to the store
	// afterwards and followed by a second evaluation of the same program on the same store.
	Late []int `json:"late,omitempty"`
}

type verdict struct {
	nontrivial bool
	labels     []string
}

// normKey keys a fact; for the aggregated head predicates (s…) list-valued arguments are read as sets
// (fn:collect_distinct promises a set, not an order).
func normKey(pred string, args []ast.Constant) string {
	norm := make([]ast.Constant, len(args))
	for i, a := range args {
		norm[i] = a
		if strings.HasPrefix(pred, "s") && a.Type == ast.ListShape {
			var elems []ast.Constant
			a.ListValues(func(e ast.Constant) error { elems = append(elems, e); return nil }, func() error { return nil })
			sort.Slice(elems, func(x, y int) bool { return val.KeyOf(elems[x]) < val.KeyOf(elems[y]) })
			norm[i] = ast.List(elems)
		}
	}
	return prog.Fact{Pred: pred, Args: norm}.Key()
}

func extraFacts(g prog.Generated) []prog.Fact {
	r := prog.Eval(prog.Program{Facts: g.Extra}, nil, prog.Options{})
	var fs []prog.Fact
	for _, k := range r.Model.Keys() {
		fs = append(fs, r.Model[k])
	}
	return fs
}

func check(run *stats.Run, f stats.Failer, c Case) verdict {
	var v verdict
	text := c.Gen.Prog.Source()
	lateAtoms := lateFacts(c)
	early := c.Gen
	if len(lateAtoms) > 0 {
		early.Extra = nil
		isLate := map[int]bool{}
		for _, i := range c.Late {
			isLate[i] = true
		}
		for i, a := range c.Gen.Extra {
			if !isLate[i] {
				early.Extra = append(early.Extra, a)
			}
		}
	}
	extra := extraFacts(early)
	ref := prog.Eval(c.Gen.Prog, extra, prog.Options{})
	switch {
	case ref.Capped, ref.Err != nil, ref.Unsafe != "", ref.Unstratifiable:
		run.Inconclusive()
		v.labels = append(v.labels, "ref-no-verdict")
		return v
	}
	store := c.Store
	if prog.HashKeyed(store) && stats.Exclusion("K08-hash-colliders") && usesCollect(c.Gen.Prog) {
		// The element order of a collected list depends on the run, and so does its hash ([1, 0] and [1]
		// collide, [0, 1] and [1] do not): the collision test below cannot predict it.
		store = "multiindexedarray"
		run.Excluded("K08-hash-colliders")
	}
	if prog.HashKeyed(store) && stats.Exclusion("K08-hash-colliders") {
		seen := map[string]map[uint64]bool{}
		for _, fact := range ref.Model {
			m := seen[fact.Pred]
			if m == nil {
				m = map[uint64]bool{}
				seen[fact.Pred] = m
			}
			h := fact.ToAtom().Hash()
			if m[h] {
				store = "multiindexedarray"
				run.Excluded("K08-hash-colliders")
				break
			}
			m[h] = true
		}
	}
	if len(lateAtoms) > 0 && prog.HashKeyed(store) && stats.Exclusion("K08-hash-colliders") {
		store = "multiindexedarray" // the collision test above does not cover the second model
	}
	out := prog.Run(text, extra, store)
	switch {
	case out.ParseErr != nil:
		run.Failf(f, "own printer produced text the parser rejects: %v\n%s", out.ParseErr, text)
	case out.Panic != "":
		run.Failf(f, "%s panicked: %s\n%s", out.PanicStage, out.Panic, text)
	case out.AnalysisErr != nil:
		v.labels = append(v.labels, "rejected")
		return v
	case out.EvalErr != nil:
		run.Failf(f, "evaluation of an accepted program with aggregation failed: %v\n%s", out.EvalErr, text)
	}
	want := map[string]bool{}
	for _, fact := range ref.Model {
		want[normKey(fact.Pred, fact.Args)] = true
	}
	got := map[string]bool{}
	for _, a := range out.Facts {
		args := make([]ast.Constant, len(a.Args))
		for i, x := range a.Args {
			args[i] = x.(ast.Constant)
		}
		got[normKey(a.Predicate.Symbol, args)] = true
	}
	var missing, extraGot []string
	for k := range want {
		if !got[k] {
			missing = append(missing, k)
		}
	}
	for k := range got {
		if !want[k] {
			extraGot = append(extraGot, k)
		}
	}
	sort.Strings(missing)
	sort.Strings(extraGot)
	if len(missing) > 0 || len(extraGot) > 0 {
		run.Failf(f, "aggregation result differs from the fold of each rule's own body solutions.\nmissing: %v\nextra: %v\nprogram:\n%spre-loaded: %s",
			missing, extraGot, text, atomsText(c.Gen.Extra))
	}
	if len(lateAtoms) > 0 {
		// Second evaluation on the same store: everything the store holds now (incl. the aggregates of the
		// first run) plus the late facts is the base; each aggregating rule has to reduce the solutions of its
		// body over the new fixpoint. (Negation-free programs only, see lateFacts.)
		var base2 []prog.Fact
		for _, k := range ref.Model.Keys() {
			base2 = append(base2, ref.Model[k])
		}
		lf := extraFacts(prog.Generated{Extra: lateAtoms})
		base2 = append(base2, lf...)
		ref2 := prog.Eval(c.Gen.Prog, base2, prog.Options{})
		if ref2.Capped || ref2.Err != nil || ref2.Unsafe != "" || ref2.Unstratifiable {
			run.Inconclusive()
			v.labels = append(v.labels, "ref2-no-verdict")
			return v
		}
		out2 := prog.RunAgain(&out, out.Store, lf, -1)
		switch {
		case out2.Panic != "":
			run.Failf(f, "the second evaluation on the same store panicked: %s\n%s", out2.Panic, text)
		case out2.EvalErr != nil:
			run.Failf(f, "the second evaluation on the same store failed: %v\n%s", out2.EvalErr, text)
		}
		want2, got2 := map[string]bool{}, map[string]bool{}
		for _, fact := range ref2.Model {
			want2[normKey(fact.Pred, fact.Args)] = true
		}
		for _, a := range out2.Facts {
			args := make([]ast.Constant, len(a.Args))
			for i, x := range a.Args {
				args[i] = x.(ast.Constant)
			}
			got2[normKey(a.Predicate.Symbol, args)] = true
		}
		var missing2, extra2 []string
		for k := range want2 {
			if !got2[k] {
				missing2 = append(missing2, k)
			}
		}
		for k := range got2 {
			if !want2[k] {
				extra2 = append(extra2, k)
			}
		}
		sort.Strings(missing2)
		sort.Strings(extra2)
		if len(missing2) > 0 || len(extra2) > 0 {
			run.Failf(f, "after adding facts and evaluating the same program again on the same store, the aggregation result differs from the fold of each rule's own body solutions over the new fixpoint.\nmissing: %v\nextra: %v\nprogram:\n%spre-loaded for the first evaluation: %s\nadded before the second: %s",
				missing2, extra2, text, atomsText(early.Extra), atomsText(lateAtoms))
		}
		v.labels = append(v.labels, "re-evaluated")
		if ref2.MaxGroup > ref.MaxGroup {
			v.labels = append(v.labels, "re-evaluated-group-grew")
		}
	}
	// non-trivial: some aggregated fact stems from a group with >= 2 solutions: approximated by
	// "an aggregated predicate has a fact whose count/sum differs from a single row", measured as:
	// the body relations feeding aggregation hold >= 2 facts and at least one s-fact exists.
	sFacts := 0
	for _, fact := range ref.Model {
		if strings.HasPrefix(fact.Pred, "s") {
			sFacts++
		}
	}
	v.nontrivial = sFacts > 0 && ref.MaxGroup >= 2
	v.labels = append(v.labels, c.Gen.Labels...)
	if ref.DoOnRecursive {
		v.labels = append(v.labels, "do-on-recursive")
	}
	if ref.EmptyAggBody {
		v.labels = append(v.labels, "empty-body")
	}
	if ref.MaxGroup >= 2 {
		v.labels = append(v.labels, "group>=2")
	}
	return v
}

// lateFacts returns the facts withheld until the second evaluation; none if the program has a negated atom
// (a negated atom makes the internal relation of an aggregated body non-monotone: rows of the first run that are
// no longer solutions would stay in the store, which the property does not speak about).
func lateFacts(c Case) []prog.Atom {
	for _, r := range c.Gen.Prog.Rules {
		for _, l := range r.Body {
			if l.K == prog.LNeg {
				return nil
			}
		}
	}
	var late []prog.Atom
	for _, i := range c.Late {
		if i >= 0 && i < len(c.Gen.Extra) {
			late = append(late, c.Gen.Extra[i])
		}
	}
	return late
}

func usesCollect(p prog.Program) bool {
	for _, r := range p.Rules {
		if r.Do != nil {
			for _, l := range r.Do.Lets {
				if l.Fn.Fn == "fn:collect_distinct" {
					return true
				}
			}
		}
	}
	return false
}

func atomsText(as []prog.Atom) string {
	var parts []string
	for _, a := range as {
		parts = append(parts, a.Source())
	}
	return strings.Join(parts, ". ")
}

func (c Case) hash() uint64 {
	b, _ := json.Marshal(c.Gen)
	return stats.Hash(string(b), c.Store, fmt.Sprint(c.Late))
}

func genCase(t *rapid.T) Case {
	g := prog.GenAgg().Draw(t, "prog")
	c := Case{Gen: g, Store: rapid.SampledFrom(prog.StoreKinds).Draw(t, "store")}
	c.Text = g.Prog.Source()
	if len(g.Extra) > 0 && rapid.IntRange(0, 3).Draw(t, "twoPhase") == 0 {
		for i := range g.Extra {
			if rapid.Bool().Draw(t, "late") {
				c.Late = append(c.Late, i)
			}
		}
	}
	return c
}

func TestC02(t *testing.T) {
	run := stats.Begin("C02", "TestC02")
	defer run.Finish(t)
	defer minimize(t, run)
	rapid.Check(t, func(rt *rapid.T) {
		c := genCase(rt)
		run.Current(c)
		v := check(run, rt, c)
		run.Case(v.nontrivial, c.hash(), v.labels...)
		if v.nontrivial {
			run.Sample("program", map[string]any{"text": c.Text, "preloaded": atomsText(c.Gen.Extra), "store": c.Store})
		}
	})
}

func minimize(t *testing.T, run *stats.Run) {
	if !t.Failed() {
		return
	}
	c, ok := run.Last().(Case)
	if !ok || len(c.Late) > 0 { // Late indexes Gen.Extra: rapid's own shrinking has to do for two-phase cases
		return
	}
	fails := func(g prog.Generated) bool {
		failed, _ := run.Fails(func(f stats.Failer) { check(run, f, Case{Gen: g, Store: c.Store}) })
		return failed
	}
	if !fails(c.Gen) {
		return
	}
	c.Gen = prog.Minimize(c.Gen, fails)
	c.Text = c.Gen.Prog.Source()
	_, msg := run.Fails(func(f stats.Failer) { check(run, f, c) })
	run.Replace(c, msg)
}

func TestReplay(t *testing.T) {
	var c Case
	if !stats.LoadReplay(t, &c) {
		return
	}
	run := stats.Begin("C02", "TestReplay")
	check(run, t, c)
}
