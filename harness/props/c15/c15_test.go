// Package c15 checks property C15: every explanation is a checkable derivation and every derived fact has one.
//
// Three kinds of cases share one oracle (checker_test.go):
//
//	explain     transform-free program; every stored fact (and a few absent ones) is explained post hoc with
//	            provenance.Explain: existence of a complete proof, validity of every returned proof,
//	            identifiers stable across a second fresh run, recorder on/off gives the same store.
//	recorded    the same for provenance.BuildFromRecording; identifiers must also agree with those of Explain.
//	transforms  programs with let/do transforms (and built-in comparisons) in recorded mode: validity of
//	            what is returned only; nodes flagged Partial are allowed there (the property asserts existence,
//	            identifiers and recorder transparency for transform-free programs only).
package c15

import (
	"encoding/json"
	"fmt"
	"sort"
	"strings"
	"testing"

	"codeberg.org/TauCeti/mangle-go/analysis"
	"codeberg.org/TauCeti/mangle-go/ast"
	"codeberg.org/TauCeti/mangle-go/engine"
	"codeberg.org/TauCeti/mangle-go/factstore"
	"codeberg.org/TauCeti/mangle-go/provenance"
	"pgregory.net/rapid"
	"verif/prog"
	"verif/stats"
	"verif/val"
)

const (
	kindExplain    = "explain"
	kindRecorded   = "recorded"
	kindTransforms = "transforms"
)

// Case is the replay format.
type Case struct {
	Kind      string         `json:"kind"`
	Gen       prog.Generated `json:"gen"`
	MaxProofs int            `json:"max_proofs"`
	Store     string         `json:"store"`
	Probes    []prog.Atom    `json:"probes,omitempty"` // extra ground goals (mostly not derivable)
	Text      string         `json:"text"`             // informational: the source text handed to the parser
}

type verdict struct {
	nontrivial bool
	labels     []string
}

func (c Case) hash() uint64 {
	b, _ := json.Marshal(c.Gen)
	p, _ := json.Marshal(c.Probes)
	return stats.Hash(string(b), string(p), c.Kind, c.Store, fmt.Sprint(c.MaxProofs))
}

// ---------------------------------------------------------------------------------------------
// Running the real pipeline.

type world struct {
	info    *analysis.ProgramInfo
	store   factstore.FactStore
	rec     *provenance.MemoryRecorder
	facts   map[string]ast.Atom // canonical key -> stored atom, internal predicates dropped (prog.ReadStore)
	all     map[string]bool     // canonical keys of every stored atom
	recPred map[string]bool     // predicate symbols on a cycle of the rule dependency graph
	mutual  bool                // some cycle runs through two predicates
}

func evaluate(text string, extra []prog.Fact, storeKind string, record bool) (*world, prog.Outcome) {
	var out prog.Outcome
	prog.Analyze(text, &out, nil)
	if out.ParseErr != nil || out.AnalysisErr != nil || out.Panic != "" {
		return nil, out
	}
	var atoms []ast.Atom
	for _, f := range extra {
		atoms = append(atoms, f.ToAtom())
	}
	w := &world{info: out.Info, store: prog.NewLoadedStore(storeKind, atoms), all: map[string]bool{}}
	// the limit only turns a generator mistake (diverging program) into an error; models have < 1000 facts.
	opts := []engine.EvalOption{engine.WithCreatedFactLimit(50000)}
	if record {
		w.rec = provenance.NewMemoryRecorder()
		opts = append(opts, engine.WithDerivationRecorder(w.rec))
	}
	func() {
		defer func() {
			if r := recover(); r != nil {
				out.Panic, out.PanicStage = fmt.Sprint(r), "eval"
			}
		}()
		out.EvalErr = engine.EvalProgram(out.Info, w.store, opts...)
	}()
	if out.Panic != "" || out.EvalErr != nil {
		return nil, out
	}
	prog.ReadStore(w.store, &out)
	w.facts = out.Facts
	for _, p := range w.store.ListPredicates() {
		w.store.GetFacts(ast.NewQuery(p), func(a ast.Atom) error {
			w.all[val.AtomKey(a)] = true
			return nil
		})
	}
	w.dependencies()
	return w, out
}

// dependencies finds the predicates that depend on themselves (own graph over the analysed rules).
func (w *world) dependencies() {
	edges := map[string]map[string]bool{}
	for _, r := range w.info.Rules {
		h := r.Head.Predicate.Symbol
		if edges[h] == nil {
			edges[h] = map[string]bool{}
		}
		for _, p := range r.Premises {
			switch t := p.(type) {
			case ast.Atom:
				if !t.Predicate.IsBuiltin() {
					edges[h][t.Predicate.Symbol] = true
				}
			case ast.NegAtom:
				edges[h][t.Atom.Predicate.Symbol] = true
			}
		}
	}
	reach := func(from string) map[string]bool {
		seen := map[string]bool{}
		stack := []string{from}
		for len(stack) > 0 {
			x := stack[len(stack)-1]
			stack = stack[:len(stack)-1]
			for y := range edges[x] {
				if !seen[y] {
					seen[y] = true
					stack = append(stack, y)
				}
			}
		}
		return seen
	}
	w.recPred = map[string]bool{}
	reaches := map[string]map[string]bool{}
	for p := range edges {
		reaches[p] = reach(p)
		if reaches[p][p] {
			w.recPred[p] = true
		}
	}
	for p := range w.recPred {
		for q := range w.recPred {
			if p != q && reaches[p][q] && reaches[q][p] {
				w.mutual = true
			}
		}
	}
}

// groundCycle tells whether the ground derivation graph seen by the recorder (head fact -> premise facts of
// every rule firing) has a cycle: then backward chaining from a fact on it can meet a goal that is already
// being proved (cycle cut). Used for the coverage label only.
func groundCycle(rec *provenance.MemoryRecorder) bool {
	edges := map[string][]string{}
	for _, ev := range rec.Events() {
		if ev.Kind != provenance.EventRule {
			continue
		}
		h := val.AtomKey(ev.Output)
		for _, p := range ev.PremiseFacts {
			if p.Predicate.Symbol != "" {
				edges[h] = append(edges[h], val.AtomKey(p))
			}
		}
	}
	state := map[string]int{}
	var visit func(string) bool
	visit = func(x string) bool {
		state[x] = 1
		for _, y := range edges[x] {
			if state[y] == 1 || (state[y] == 0 && visit(y)) {
				return true
			}
		}
		state[x] = 2
		return false
	}
	for _, x := range sortedKeys(edges) {
		if state[x] == 0 && visit(x) {
			return true
		}
	}
	return false
}

// baseFacts returns the facts to pre-load and the canonical keys of all base facts (text + pre-loaded).
func baseFacts(run *stats.Run, f stats.Failer, g prog.Generated) ([]prog.Fact, map[string]bool) {
	conv := func(as []prog.Atom) prog.Model {
		r := prog.Eval(prog.Program{Facts: as}, nil, prog.Options{})
		if r.Err != nil || r.Unsafe != "" {
			run.Failf(f, "harness: base facts are not ground constants: %v %v", r.Err, r.Unsafe)
		}
		return r.Model
	}
	pre := conv(g.Extra)
	var extra []prog.Fact
	base := map[string]bool{}
	for _, k := range pre.Keys() {
		extra = append(extra, pre[k])
		base[k] = true
	}
	for k := range conv(g.Prog.Facts) {
		base[k] = true
	}
	return extra, base
}

func groundAtom(a prog.Atom) ast.Atom {
	args := make([]ast.BaseTerm, len(a.Args))
	for i, t := range a.Args {
		args[i] = t.ToAST()
	}
	return ast.Atom{Predicate: ast.PredicateSym{Symbol: a.Pred, Arity: len(args)}, Args: args}
}

// prove calls the API under test; a panic is reported, not swallowed.
func prove(recorded bool, w *world, goal ast.Atom, maxProofs int) (ps []*provenance.ProofNode, err error, panicked string) {
	defer func() {
		if r := recover(); r != nil {
			panicked = fmt.Sprint(r)
		}
	}()
	// MaxDepth: the goals on the explainer's stack are pairwise different stored facts (cycle cut), so a depth
	// above the number of stored facts cannot be reached and the documented depth cut-off (a Partial stub) never
	// applies. (With the default of 64 it does apply to dense recursive programs with > 64 facts.)
	opts := provenance.Options{MaxProofs: maxProofs, MaxDepth: len(w.all) + 8}
	if recorded {
		ps, err = provenance.BuildFromRecording(w.rec, w.store, goal, opts)
	} else {
		ps, err = provenance.Explain(w.info, w.store, goal, opts)
	}
	return
}

type goal struct {
	key    string
	atom   ast.Atom
	stored bool
}

type summary struct {
	maxDepth  int
	recursive bool
	multi     bool
}

func atomsText(as []prog.Atom) string {
	var parts []string
	for _, a := range as {
		parts = append(parts, a.Source())
	}
	return strings.Join(parts, ". ")
}

// ---------------------------------------------------------------------------------------------
// The oracle.

func check(run *stats.Run, f stats.Failer, c Case) verdict {
	var v verdict
	text := c.Gen.Prog.Source()
	extra, base := baseFacts(run, f, c.Gen)
	ctx := func() string {
		return fmt.Sprintf("\nkind=%s MaxProofs=%d store=%s\nprogram:\n%spre-loaded: %s", c.Kind, c.MaxProofs, c.Store, text, atomsText(c.Gen.Extra))
	}
	if c.Kind != kindExplain && c.Kind != kindRecorded && c.Kind != kindTransforms {
		run.Failf(f, "harness: unknown case kind %q", c.Kind)
	}
	strict := c.Kind != kindTransforms

	plain, outP := evaluate(text, extra, c.Store, false)
	switch {
	case outP.ParseErr != nil:
		run.Failf(f, "own printer produced text the parser rejects (harness or parser defect): %v\n%s", outP.ParseErr, text)
	case outP.Panic != "" && outP.PanicStage != "eval":
		run.Inconclusive() // C04/C10's subject
		v.labels = append(v.labels, "panic-"+outP.PanicStage)
		return v
	case outP.AnalysisErr != nil:
		v.labels = append(v.labels, "rejected")
		return v
	}
	recd, outR := evaluate(text, extra, c.Store, true)
	if outR.Panic != "" && outP.Panic == "" {
		run.Failf(f, "evaluation panics with a recorder attached (and not without): %s%s", outR.Panic, ctx())
	}
	if strict && (plain == nil) != (recd == nil) {
		run.Failf(f, "attaching a recorder changes the outcome of the evaluation: without %v / %v, with %v / %v%s",
			outP.EvalErr, outP.Panic, outR.EvalErr, outR.Panic, ctx())
	}
	if plain == nil || recd == nil {
		run.Inconclusive() // evaluation errors are C01's subject
		v.labels = append(v.labels, "eval-error")
		return v
	}
	if len(outP.NonGround) > 0 || len(outR.NonGround) > 0 {
		run.Inconclusive() // C01's subject
		v.labels = append(v.labels, "non-ground-store")
		return v
	}
	if strict {
		missing, added := diffKeys(plain.facts, recd.facts)
		if len(missing)+len(added) > 0 {
			run.Failf(f, "attaching a recorder changes the evaluation result.\nonly without recorder: %v\nonly with recorder: %v%s", missing, added, ctx())
		}
	}
	primary := plain
	if c.Kind != kindExplain {
		primary = recd
	}

	// goals: every stored fact, plus the probes.
	var goals []goal
	for _, k := range sortedKeys(primary.facts) {
		goals = append(goals, goal{k, primary.facts[k], true})
	}
	if strict {
		for _, p := range c.Probes {
			a := groundAtom(p)
			k := val.AtomKey(a)
			if _, ok := primary.facts[k]; !ok {
				goals = append(goals, goal{k, a, false})
			}
		}
	}
	// Known finding K08: the explainer's memo table and cycle detection are keyed by Atom.Hash().
	if stats.Exclusion("K08-hash-colliders") {
		seen := map[uint64]string{}
		for _, g := range goals {
			h := g.atom.Hash()
			if other, ok := seen[h]; ok && other != g.key {
				run.Excluded("K08-hash-colliders")
				v.labels = append(v.labels, "excluded-K08")
				return v
			}
			seen[h] = g.key
		}
	}

	ids := newIDTable()
	var sum summary
	var cks []*checker
	explainAll := func(w *world, recorded, assert bool, what string) {
		ck := newChecker(w, base, !strict, ids)
		cks = append(cks, ck)
		for _, g := range goals {
			ps, err, panicked := prove(recorded, w, g.atom, c.MaxProofs)
			if panicked != "" {
				run.Failf(f, "%s panics for goal %v: %s%s", what, g.atom, panicked, ctx())
			}
			if !assert {
				for _, p := range ps {
					ck.check(p) // identifiers only
				}
				continue
			}
			if g.stored && strict && (err != nil || len(ps) == 0) {
				run.Failf(f, "%s finds no proof for the stored fact %v (error: %v)%s", what, g.atom, err, ctx())
			}
			if len(ps) > 1 {
				sum.multi = true
			}
			for i, p := range ps {
				if p == nil {
					run.Failf(f, "%s returns a nil proof for %v%s", what, g.atom, ctx())
				}
				if val.AtomKey(p.Fact) != g.key {
					run.Failf(f, "%s: proof %d returned for goal %v proves %v%s", what, i, g.atom, p.Fact, ctx())
				}
				info := ck.check(p)
				if info.err != "" {
					run.Failf(f, "%s: proof %d of %d for goal %v is not a valid derivation: %s%s", what, i+1, len(ps), g.atom, info.err, ctx())
				}
				if !g.stored {
					run.Failf(f, "%s returns a proof that passes every check for %v, which is not in the store%s", what, g.atom, ctx())
				}
				if info.depth > sum.maxDepth {
					sum.maxDepth = info.depth
				}
				sum.recursive = sum.recursive || info.recursive
			}
		}
	}
	switch c.Kind {
	case kindExplain:
		explainAll(plain, false, true, "Explain")
		explainAll(recd, false, true, "Explain (second fresh run)")
	case kindRecorded:
		explainAll(recd, true, true, "BuildFromRecording")
		again, outA := evaluate(text, extra, c.Store, true)
		if again == nil {
			run.Failf(f, "second evaluation of the same program fails: %v %v%s", outA.EvalErr, outA.Panic, ctx())
		}
		explainAll(again, true, true, "BuildFromRecording (second fresh run)")
		explainAll(recd, false, false, "Explain")
	case kindTransforms:
		explainAll(recd, true, true, "BuildFromRecording")
	}
	if strict && ids.err != "" {
		run.Failf(f, "proof identifiers do not depend on the proof content alone: %s%s", ids.err, ctx())
	}

	// classification
	labelSet := map[string]bool{"kind:" + c.Kind: true, fmt.Sprintf("maxproofs:%d", c.MaxProofs): true}
	for _, l := range c.Gen.Labels {
		labelSet["gen:"+l] = true
	}
	for _, ck := range cks {
		if ck.negLeaf {
			labelSet["neg-leaf"] = true
		}
		if ck.localEq {
			labelSet["local-eq"] = true
		}
		if ck.letNode {
			labelSet["let-node"] = true
		}
		if ck.doNode {
			labelSet["do-node"] = true
		}
		if ck.partialSeen {
			labelSet["partial-node"] = true
		}
	}
	if groundCycle(recd.rec) {
		labelSet["cycle-cut"] = true
	}
	if sum.maxDepth >= 3 {
		labelSet["depth>=3"] = true
	}
	if sum.recursive {
		labelSet["recursive-scc"] = true
	}
	if sum.multi {
		labelSet["multi-proof"] = true
	}
	if primary.mutual {
		labelSet["mutual"] = true
	}
	if len(goals) > len(primary.facts) {
		labelSet["absent-goal"] = true
	}
	heads := map[string]bool{}
	for _, r := range c.Gen.Prog.Rules {
		heads[r.Head.Pred] = true
	}
	for _, a := range c.Gen.Prog.Facts {
		if heads[a.Pred] {
			labelSet["idb-fact"] = true
		}
	}
	// a rule that mentions its own recursive component before a rule of the same predicate that does not
	nonRecLater := map[string]bool{}
	for i := len(primary.info.Rules) - 1; i >= 0; i-- {
		r := primary.info.Rules[i]
		rec := false
		for _, p := range r.Premises {
			if a, ok := p.(ast.Atom); ok && primary.recPred[a.Predicate.Symbol] && primary.recPred[r.Head.Predicate.Symbol] {
				rec = true
			}
		}
		if rec && nonRecLater[r.Head.Predicate.Symbol] {
			labelSet["rec-rule-first"] = true
		}
		if !rec {
			nonRecLater[r.Head.Predicate.Symbol] = true
		}
	}
	v.nontrivial = sum.maxDepth >= 3 || sum.recursive
	v.labels = append(v.labels, sortedKeys(labelSet)...)
	return v
}

func diffKeys(a, b map[string]ast.Atom) (onlyA, onlyB []string) {
	for k := range a {
		if _, ok := b[k]; !ok {
			onlyA = append(onlyA, k)
		}
	}
	for k := range b {
		if _, ok := a[k]; !ok {
			onlyB = append(onlyB, k)
		}
	}
	sort.Strings(onlyA)
	sort.Strings(onlyB)
	return
}

// ---------------------------------------------------------------------------------------------
// Tests.

func runKind(t *testing.T, test, kind string) {
	run := stats.Begin("C15", test)
	defer run.Finish(t)
	// A violation can depend on the iteration order of a map-backed store, so a case may fail on one execution
	// and pass on the next (also on rapid's final re-run). The last execution that failed is what gets reported.
	var last struct {
		c   Case
		msg string
	}
	defer func() { minimize(t, run, last.c, last.msg) }()
	rapid.Check(t, func(rt *rapid.T) {
		removedColliders = 0
		c := genCase(rt, kind)
		if removedColliders > 0 {
			run.Excluded("K08-hash-colliders")
		}
		run.Current(c)
		var v verdict
		if failed, msg := run.Fails(func(f stats.Failer) { v = check(run, f, c) }); failed {
			last.c, last.msg = c, msg
			run.Failf(rt, "%s", msg)
		}
		run.Case(v.nontrivial, c.hash(), v.labels...)
		if v.nontrivial && run.WantSample(kind) {
			run.Sample(kind, map[string]any{"text": c.Text, "preloaded": atomsText(c.Gen.Extra), "max_proofs": c.MaxProofs, "store": c.Store})
		}
	})
}

func TestC15(t *testing.T)            { runKind(t, "TestC15", kindExplain) }
func TestC15_Recorded(t *testing.T)   { runKind(t, "TestC15_Recorded", kindRecorded) }
func TestC15_Transforms(t *testing.T) { runKind(t, "TestC15_Transforms", kindTransforms) }

// minimize post-processes the last failing case with a structural delta-debugging pass.
func minimize(t *testing.T, run *stats.Run, c Case, msg string) {
	if !t.Failed() || msg == "" {
		return
	}
	lastCase, lastMsg := c, msg
	failsCase := func(c Case) bool {
		for try := 0; try < 3; try++ { // order-dependent violations: give a candidate three chances
			if failed, msg := run.Fails(func(f stats.Failer) { check(run, f, c) }); failed {
				lastCase, lastMsg = c, msg
				return true
			}
		}
		return false
	}
	if n := c; len(n.Probes) > 0 {
		n.Probes = nil
		if failsCase(n) {
			c = n
		}
	}
	for _, mp := range []int{1, 2} {
		if n := c; mp < c.MaxProofs {
			n.MaxProofs = mp
			if failsCase(n) {
				c = n
			}
		}
	}
	if n := c; c.Store != "simple" {
		n.Store = "simple"
		if failsCase(n) {
			c = n
		}
	}
	prog.Minimize(c.Gen, func(g prog.Generated) bool {
		n := c
		n.Gen = g
		return failsCase(n)
	})
	lastCase.Text = lastCase.Gen.Prog.Source()
	run.Replace(lastCase, lastMsg)
}

func TestReplay(t *testing.T) {
	var c Case
	if !stats.LoadReplay(t, &c) {
		return
	}
	run := stats.Begin("C15", "TestReplay")
	check(run, t, c) // the case carries its kind
}
