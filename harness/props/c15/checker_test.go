package c15

// An independent checker of proof trees ([]*provenance.ProofNode): it re-derives, from the rule, the
// reported bindings and the premises of every node, that the node is an instance of the rule, and
// checks the leaves against the set of stored facts and the set of base facts of the case.
// It does not call anything of the provenance package; function symbols inside rules are evaluated
// with functional.EvalApplyFn on constant arguments (their laws are C07's subject).

import (
	"crypto/sha256"
	"encoding/hex"
	"fmt"
	"regexp"
	"sort"
	"strings"

	"codeberg.org/TauCeti/mangle-go/ast"
	"codeberg.org/TauCeti/mangle-go/functional"
	"codeberg.org/TauCeti/mangle-go/provenance"
	"verif/val"
)

// ---------------------------------------------------------------------------------------------
// Structural keys of rules (independent of Clause.String()).

func termKey(t ast.BaseTerm) string {
	switch x := t.(type) {
	case ast.Constant:
		return "c:" + val.KeyOf(x)
	case ast.Variable:
		return "v:" + x.Symbol
	case ast.ApplyFn:
		parts := make([]string, len(x.Args))
		for i, a := range x.Args {
			parts[i] = termKey(a)
		}
		return "f:" + x.Function.Symbol + "(" + strings.Join(parts, ",") + ")"
	}
	return fmt.Sprintf("?%T:%v", t, t)
}

func patternKey(a ast.Atom) string {
	parts := make([]string, len(a.Args))
	for i, x := range a.Args {
		parts[i] = termKey(x)
	}
	return fmt.Sprintf("%s/%d(%s)", a.Predicate.Symbol, len(a.Args), strings.Join(parts, ","))
}

func clauseKey(c ast.Clause) string {
	var sb strings.Builder
	sb.WriteString(patternKey(c.Head))
	if c.HeadTime != nil {
		sb.WriteString("@" + c.HeadTime.String())
	}
	sb.WriteString(" :- ")
	for _, p := range c.Premises {
		switch t := p.(type) {
		case ast.Atom:
			sb.WriteString("+" + patternKey(t))
		case ast.NegAtom:
			sb.WriteString("-" + patternKey(t.Atom))
		case ast.Eq:
			sb.WriteString("=(" + termKey(t.Left) + "," + termKey(t.Right) + ")")
		case ast.Ineq:
			sb.WriteString("!=(" + termKey(t.Left) + "," + termKey(t.Right) + ")")
		default:
			sb.WriteString(fmt.Sprintf("?%T:%v", p, p))
		}
		sb.WriteString("; ")
	}
	for tr := c.Transform; tr != nil; tr = tr.Next {
		sb.WriteString(" |> ")
		for _, s := range tr.Statements {
			if s.Var != nil {
				sb.WriteString("let " + s.Var.Symbol + " = ")
			} else {
				sb.WriteString("do ")
			}
			sb.WriteString(termKey(s.Fn) + "; ")
		}
	}
	return sb.String()
}

// ---------------------------------------------------------------------------------------------
// Terms under an environment.

type env map[string]ast.Constant

// eval evaluates t; ok is false when a variable of t has no value (or t is the wildcard).
func (e env) eval(t ast.BaseTerm) (c ast.Constant, ok bool, err error) {
	switch x := t.(type) {
	case ast.Constant:
		return x, true, nil
	case ast.Variable:
		if x.Symbol == "_" {
			return ast.Constant{}, false, nil
		}
		c, ok := e[x.Symbol]
		return c, ok, nil
	case ast.ApplyFn:
		args := make([]ast.BaseTerm, len(x.Args))
		for i, a := range x.Args {
			ac, ok, err := e.eval(a)
			if err != nil || !ok {
				return ast.Constant{}, ok, err
			}
			args[i] = ac
		}
		r, err := functional.EvalApplyFn(ast.ApplyFn{Function: x.Function, Args: args}, ast.ConstSubstMap{})
		if err != nil {
			return ast.Constant{}, false, fmt.Errorf("%v does not evaluate: %v", t, err)
		}
		return r, true, nil
	}
	return ast.Constant{}, false, fmt.Errorf("unexpected term %T %v", t, t)
}

func sameConst(a, b ast.Constant) bool { return val.KeyOf(a) == val.KeyOf(b) }

// match checks that fact is pattern under e. With bind, variables of the pattern without a value are
// given the fact's value (used where a node reports no bindings); without it they are a violation.
func (e env) match(pattern, fact ast.Atom, bind bool) string {
	if pattern.Predicate.Symbol != fact.Predicate.Symbol || len(pattern.Args) != len(fact.Args) {
		return fmt.Sprintf("fact %v has another predicate than the literal %v", fact, pattern)
	}
	for i, p := range pattern.Args {
		fc, ground := fact.Args[i].(ast.Constant)
		if !ground {
			return fmt.Sprintf("fact %v is not ground", fact)
		}
		if v, isVar := p.(ast.Variable); isVar {
			if v.Symbol == "_" {
				continue
			}
			if _, has := e[v.Symbol]; !has && bind {
				e[v.Symbol] = fc
				continue
			}
		}
		pc, ok, err := e.eval(p)
		if err != nil {
			return err.Error()
		}
		if !ok {
			return fmt.Sprintf("argument %v of %v has no value under the reported bindings", p, pattern)
		}
		if !sameConst(pc, fc) {
			return fmt.Sprintf("%v under the bindings has %v at position %d, the node's fact is %v", pattern, pc, i, fact)
		}
	}
	return ""
}

// defineByEq gives body-local variables (they occur only in equalities, so they are not among the
// reported bindings) the value their defining equality computes. It reports whether something was defined.
func (e env) defineByEq(premises []ast.Term) (defined bool, msg string) {
	for progress := true; progress; {
		progress = false
		for _, p := range premises {
			eq, ok := p.(ast.Eq)
			if !ok {
				continue
			}
			l, lok, lerr := e.eval(eq.Left)
			r, rok, rerr := e.eval(eq.Right)
			if lerr != nil {
				return defined, lerr.Error()
			}
			if rerr != nil {
				return defined, rerr.Error()
			}
			if v, isVar := eq.Left.(ast.Variable); isVar && v.Symbol != "_" && !lok && rok {
				e[v.Symbol], progress, defined = r, true, true
			} else if v, isVar := eq.Right.(ast.Variable); isVar && v.Symbol != "_" && !rok && lok {
				e[v.Symbol], progress, defined = l, true, true
			}
		}
	}
	return defined, ""
}

// constraint checks an (in)equality under e.
func (e env) constraint(left, right ast.BaseTerm, wantEqual bool, text string) string {
	l, lok, err := e.eval(left)
	if err != nil {
		return err.Error()
	}
	r, rok, err := e.eval(right)
	if err != nil {
		return err.Error()
	}
	if !lok || !rok {
		return fmt.Sprintf("%s cannot be evaluated under the reported bindings", text)
	}
	if sameConst(l, r) != wantEqual {
		return fmt.Sprintf("%s does not hold under the reported bindings (%v vs %v)", text, l, r)
	}
	return ""
}

// ---------------------------------------------------------------------------------------------
// Identifier table: content <-> ID must be a bijection over everything seen in a case.

var idFormat = regexp.MustCompile(`^/proof/[0-9a-f]{32}$`)

type idTable struct {
	byID      map[string]string // id -> content hash
	byContent map[string]string // content hash -> id
	text      map[string]string // content hash -> short description
	err       string
}

func newIDTable() *idTable {
	return &idTable{byID: map[string]string{}, byContent: map[string]string{}, text: map[string]string{}}
}

func (t *idTable) add(id, content, text string) {
	if t.err != "" {
		return
	}
	if !idFormat.MatchString(id) {
		t.err = fmt.Sprintf("identifier %q of %s is not of the documented form /proof/<32 hex digits>", id, text)
		return
	}
	if c, ok := t.byID[id]; ok && c != content {
		t.err = fmt.Sprintf("two proofs with different content share the identifier %s:\n  %s\n  %s", id, t.text[c], text)
		return
	}
	if i, ok := t.byContent[content]; ok && i != id {
		t.err = fmt.Sprintf("structurally equal proofs got different identifiers %s and %s: %s", i, id, text)
		return
	}
	t.byID[id], t.byContent[content], t.text[content] = content, id, text
}

// ---------------------------------------------------------------------------------------------
// The checker.

type nodeInfo struct {
	done      bool
	err       string
	depth     int
	facts     map[string]bool // keys of the facts proved by the node and by its descendants
	content   string          // hash of (kind, rule, fact, contents of the premises in order)
	recursive bool            // the node or a descendant applies a rule of a recursive predicate
	partial   bool            // the node or a descendant is flagged Partial
}

type checker struct {
	stored  map[string]bool // canonical keys of all stored facts (internal predicates included)
	base    map[string]bool // canonical keys of the base facts (program text + pre-loaded)
	rules   map[string]bool // clauseKey of every analysed rule
	recPred map[string]bool // predicate symbols on a cycle of the dependency graph
	lenient bool            // transforms mode: nodes flagged Partial are allowed and not aligned with their rule
	memo    map[*provenance.ProofNode]*nodeInfo
	ids     *idTable
	// observations for the coverage statistics
	negLeaf, localEq, letNode, doNode, partialSeen bool
}

func newChecker(w *world, base map[string]bool, lenient bool, ids *idTable) *checker {
	ck := &checker{stored: w.all, base: base, rules: map[string]bool{}, recPred: w.recPred, lenient: lenient,
		memo: map[*provenance.ProofNode]*nodeInfo{}, ids: ids}
	for _, r := range w.info.Rules {
		ck.rules[clauseKey(r)] = true
	}
	return ck
}

func describe(n *provenance.ProofNode) string {
	kind := map[provenance.Kind]string{provenance.KindEDB: "edb", provenance.KindDerived: "derived", provenance.KindAbsence: "absence",
		provenance.KindLetRow: "let", provenance.KindDoAggregate: "do"}[n.Kind]
	s := fmt.Sprintf("%s node %v", kind, n.Fact)
	if n.Rule != nil {
		s += "  by  " + n.Rule.String()
		var bs []string
		for _, b := range n.Bindings {
			bs = append(bs, b.Var.Symbol+"="+b.Value.String())
		}
		s += "  with {" + strings.Join(bs, ", ") + "}"
	}
	var ps []string
	for _, p := range n.Premises {
		if p == nil {
			ps = append(ps, "<nil>")
		} else if p.Kind == provenance.KindAbsence {
			ps = append(ps, "!"+p.Fact.String())
		} else {
			ps = append(ps, p.Fact.String())
		}
	}
	return s + "  premises [" + strings.Join(ps, ", ") + "]"
}

// check validates the proof rooted at n (memoised per node: proofs are DAGs).
func (ck *checker) check(n *provenance.ProofNode) *nodeInfo {
	if n == nil {
		return &nodeInfo{done: true, err: "nil proof node"}
	}
	if info, ok := ck.memo[n]; ok {
		if !info.done {
			return &nodeInfo{done: true, err: "the proof graph is cyclic at " + describe(n)}
		}
		return info
	}
	info := &nodeInfo{facts: map[string]bool{}}
	ck.memo[n] = info
	defer func() { info.done = true }()

	info.depth = 1
	info.partial = n.Partial
	var childContents []string
	for i, p := range n.Premises {
		ci := ck.check(p)
		if ci.err != "" {
			info.err = ci.err
			if !strings.Contains(ci.err, "\n  below ") {
				info.err += fmt.Sprintf("\n  below premise %d of %s", i, describe(n))
			}
			return info
		}
		if ci.depth+1 > info.depth {
			info.depth = ci.depth + 1
		}
		for k := range ci.facts {
			info.facts[k] = true
		}
		info.recursive = info.recursive || ci.recursive
		info.partial = info.partial || ci.partial
		childContents = append(childContents, ci.content)
	}
	fail := func(format string, args ...any) *nodeInfo {
		info.err = fmt.Sprintf(format, args...) + "\n  at " + describe(n)
		return info
	}
	for _, a := range n.Fact.Args {
		if _, ok := a.(ast.Constant); !ok {
			return fail("the node's fact is not ground")
		}
	}
	key := val.AtomKey(n.Fact)
	ruleKey := ""
	if n.Rule != nil {
		ruleKey = clauseKey(*n.Rule)
	}
	h := sha256.New()
	fmt.Fprintf(h, "%d\x00%s\x00%s\x00%v", n.Kind, ruleKey, key, n.Partial)
	for _, c := range childContents {
		fmt.Fprintf(h, "\x00%s", c)
	}
	info.content = hex.EncodeToString(h.Sum(nil))

	if n.Partial {
		ck.partialSeen = true
		if !ck.lenient {
			return fail("the proof is flagged Partial although the program has neither transforms nor built-in comparisons and MaxDepth exceeds the number of stored facts")
		}
	}
	if !strings.HasPrefix(n.ID, "/proof/partial/") {
		ck.ids.add(n.ID, info.content, describe(n))
	}
	if n.Kind != provenance.KindAbsence {
		if info.facts[key] {
			return fail("the fact is its own ancestor")
		}
		info.facts[key] = true
	}
	var msg string
	switch n.Kind {
	case provenance.KindEDB:
		if n.Partial {
			break // depth cut-off stub (lenient mode only)
		}
		switch {
		case n.Rule != nil || len(n.Premises) > 0 || len(n.Bindings) > 0:
			msg = "a leaf carries a rule, premises or bindings"
		case !ck.stored[key]:
			msg = "leaf fact is not in the store"
		case !ck.base[key]:
			msg = "leaf fact is not a base fact (neither in the program text nor pre-loaded); it needs a derivation"
		}
	case provenance.KindAbsence:
		ck.negLeaf = true
		switch {
		case n.Rule != nil || len(n.Premises) > 0:
			msg = "an absence leaf carries a rule or premises"
		case ck.stored[key]:
			msg = "absence leaf for a fact that IS in the store"
		}
	case provenance.KindDerived:
		msg = ck.derived(n)
	case provenance.KindLetRow:
		ck.letNode = true
		msg = ck.letRow(n)
	case provenance.KindDoAggregate:
		ck.doNode = true
		msg = ck.doAggregate(n)
	default:
		msg = fmt.Sprintf("unknown node kind %d", n.Kind)
	}
	if msg != "" {
		return fail("%s", msg)
	}
	if n.Rule != nil && ck.recPred[n.Rule.Head.Predicate.Symbol] {
		info.recursive = true
	}
	return info
}

func (ck *checker) ruleOf(n *provenance.ProofNode) string {
	if n.Rule == nil {
		return "inner node without a rule"
	}
	if !ck.rules[clauseKey(*n.Rule)] {
		// an aggregating rule is split by the engine (rewrite.Rewrite) into a rule for an internal predicate and
		// the aggregation over it; those two are not among the analysed rules.
		internal := n.Rule.Head.Predicate.IsInternalPredicate()
		for _, p := range n.Rule.Premises {
			if a, ok := p.(ast.Atom); ok && a.Predicate.IsInternalPredicate() {
				internal = true
			}
		}
		if !ck.lenient || !internal {
			return "the node's rule is not a rule of the analysed program"
		}
	}
	if n.Rule.Head.Predicate != n.Fact.Predicate {
		return "the rule's head has another predicate than the node's fact"
	}
	return ""
}

// derived: the node must be an instance of its rule under the reported bindings.
func (ck *checker) derived(n *provenance.ProofNode) string {
	if msg := ck.ruleOf(n); msg != "" {
		return msg
	}
	r := n.Rule
	if r.Transform != nil {
		return "plain derivation node for a rule with a transform"
	}
	if n.Partial {
		return "" // lenient mode: premises of a Partial node may be missing; they were checked on their own
	}
	e := env{}
	for _, b := range n.Bindings {
		if b.Var.Symbol == "_" {
			return "a binding for the wildcard"
		}
		if prev, dup := e[b.Var.Symbol]; dup && !sameConst(prev, b.Value) {
			return "variable " + b.Var.Symbol + " is bound twice, to different values"
		}
		e[b.Var.Symbol] = b.Value
	}
	defined, msg := e.defineByEq(r.Premises)
	if msg != "" {
		return msg
	}
	if defined {
		ck.localEq = true
	}
	next := 0
	for _, p := range r.Premises {
		switch t := p.(type) {
		case ast.Atom:
			if t.Predicate.IsBuiltin() {
				if ck.lenient {
					continue
				}
				return fmt.Sprintf("built-in atom %v is outside the checked fragment", t)
			}
			if next >= len(n.Premises) {
				return fmt.Sprintf("no premise for the body atom %v", t)
			}
			prem := n.Premises[next]
			next++
			if prem.Kind == provenance.KindAbsence {
				return fmt.Sprintf("body atom %v is matched by an absence leaf", t)
			}
			if msg := e.match(t, prem.Fact, false); msg != "" {
				return fmt.Sprintf("premise %d: %s", next-1, msg)
			}
		case ast.NegAtom:
			if next >= len(n.Premises) {
				return fmt.Sprintf("no premise for the negated atom %v", t)
			}
			prem := n.Premises[next]
			next++
			if prem.Kind != provenance.KindAbsence {
				return fmt.Sprintf("negated atom %v is matched by a premise that is not an absence leaf", t)
			}
			if msg := e.match(t.Atom, prem.Fact, false); msg != "" {
				return fmt.Sprintf("premise %d: %s", next-1, msg)
			}
		case ast.Eq:
			if msg := e.constraint(t.Left, t.Right, true, t.String()); msg != "" {
				return msg
			}
		case ast.Ineq:
			if msg := e.constraint(t.Left, t.Right, false, t.String()); msg != "" {
				return msg
			}
		default:
			if !ck.lenient {
				return fmt.Sprintf("premise %v is outside the checked fragment", p)
			}
		}
	}
	if next != len(n.Premises) {
		return fmt.Sprintf("%d premises, but the rule's body has %d (negated) atoms", len(n.Premises), next)
	}
	if msg := e.match(r.Head, n.Fact, false); msg != "" {
		return "head: " + msg
	}
	return ""
}

// letRow: the node reports no bindings; its premises are the positive body atoms under the row, so the row
// is recovered by matching them in order, the rest of the body and the let-statements are evaluated on it.
func (ck *checker) letRow(n *provenance.ProofNode) string {
	if msg := ck.ruleOf(n); msg != "" {
		return msg
	}
	r := n.Rule
	if r.Transform == nil || !r.Transform.IsLetTransform() {
		return "let node for a rule without a let-transform"
	}
	if n.Partial {
		return ""
	}
	e := env{}
	next := 0
	for _, p := range r.Premises {
		t, ok := p.(ast.Atom)
		if !ok {
			continue
		}
		if t.Predicate.IsBuiltin() {
			return fmt.Sprintf("not flagged Partial although the built-in %v has no premise", t)
		}
		if next >= len(n.Premises) {
			return fmt.Sprintf("no premise for the body atom %v", t)
		}
		prem := n.Premises[next]
		next++
		if prem.Kind == provenance.KindAbsence {
			return fmt.Sprintf("body atom %v is matched by an absence leaf", t)
		}
		if msg := e.match(t, prem.Fact, true); msg != "" {
			return fmt.Sprintf("premise %d: %s", next-1, msg)
		}
	}
	if next != len(n.Premises) {
		return fmt.Sprintf("%d premises, but the rule's body has %d atoms", len(n.Premises), next)
	}
	if _, msg := e.defineByEq(r.Premises); msg != "" {
		return msg
	}
	for _, p := range r.Premises {
		switch t := p.(type) {
		case ast.Eq:
			if msg := e.constraint(t.Left, t.Right, true, t.String()); msg != "" {
				return msg
			}
		case ast.Ineq:
			if msg := e.constraint(t.Left, t.Right, false, t.String()); msg != "" {
				return msg
			}
		case ast.NegAtom:
			g := ast.Atom{Predicate: t.Atom.Predicate, Args: make([]ast.BaseTerm, len(t.Atom.Args))}
			for i, a := range t.Atom.Args {
				c, ok, err := e.eval(a)
				if err != nil || !ok {
					return fmt.Sprintf("negated atom %v is not ground under the row", t)
				}
				g.Args[i] = c
			}
			if ck.stored[val.AtomKey(g)] {
				return fmt.Sprintf("negated atom %v holds under the row: %v is in the store", t, g)
			}
		}
	}
	for tr := r.Transform; tr != nil; tr = tr.Next {
		for _, s := range tr.Statements {
			if s.Var == nil {
				return "" // not a pure let chain; nothing more is checked
			}
			c, ok, err := e.eval(s.Fn)
			if err != nil {
				return err.Error()
			}
			if !ok {
				return fmt.Sprintf("let %v = %v cannot be evaluated on the row", s.Var, s.Fn)
			}
			e[s.Var.Symbol] = c
		}
	}
	if msg := e.match(r.Head, n.Fact, false); msg != "" {
		return "head: " + msg
	}
	return ""
}

// doAggregate: every premise is a stored fact of the aggregated relation that belongs to the reported group.
func (ck *checker) doAggregate(n *provenance.ProofNode) string {
	if msg := ck.ruleOf(n); msg != "" {
		return msg
	}
	r := n.Rule
	if r.Transform == nil || r.Transform.IsLetTransform() {
		return "aggregate node for a rule without a do-transform"
	}
	if n.Partial {
		return ""
	}
	if len(r.Premises) == 0 {
		return "aggregating rule without a body"
	}
	first, ok := r.Premises[0].(ast.Atom)
	if !ok {
		return "" // shape not understood: nothing more is checked
	}
	groupBy := r.Transform.Statements[0].Fn.Args
	if len(groupBy) != len(n.GroupKey) {
		return fmt.Sprintf("group key has %d values, fn:group_by has %d arguments", len(n.GroupKey), len(groupBy))
	}
	for i, prem := range n.Premises {
		if prem.Kind == provenance.KindAbsence {
			return fmt.Sprintf("premise %d of an aggregate is an absence leaf", i)
		}
		e := env{}
		if msg := e.match(first, prem.Fact, true); msg != "" {
			return fmt.Sprintf("premise %d: %s", i, msg)
		}
		if !ck.stored[val.AtomKey(prem.Fact)] {
			return fmt.Sprintf("premise %d (%v) is not in the store", i, prem.Fact)
		}
		for j, g := range groupBy {
			c, ok, err := e.eval(g)
			if err != nil || !ok {
				return "" // group key not recoverable from the first atom: nothing more is checked
			}
			if !sameConst(c, n.GroupKey[j]) {
				return fmt.Sprintf("premise %d (%v) belongs to group %v, the node reports group %v", i, prem.Fact, c, n.GroupKey[j])
			}
		}
	}
	return ""
}

func sortedKeys[V any](m map[string]V) []string {
	ks := make([]string, 0, len(m))
	for k := range m {
		ks = append(ks, k)
	}
	sort.Strings(ks)
	return ks
}
